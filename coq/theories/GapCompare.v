(* GapCompare: the four offered gap functions (l1, linf, squared l2 of the width vector, binomially weighted gap =
   exploitability) are comparable measures of the same width vector, for every n:
       linf <= l1,  exploitability <= l1,  linf^2 <= l2^2 <= linf * l1 <= l1^2,
       linf / C <= exploitability  whenever C bounds every binomial coefficient C(n,k),
   and therefore they vanish together: one of them is zero iff every width is zero iff all of them are zero.
   Consequence used by C07/C09: "the gap is zero" (the environment's done flag, the end of a reveal sequence) does not
   depend on which gap function was selected.  Prefix gc_. *)
From ICG Require Import Prelude Bits Table Shapley ShapleyProofs Exploit ExploitProofs Norms NormsProofs.
From Coq Require Import Qabs.
Local Open Scope Q_scope.

Lemma gc_qsum_ge_elem l x : (forall y, In y l -> 0 <= y) -> In x l -> x <= qsum l.
Proof.
  induction l as [|a l IH]; intros Hnn Hin; [destruct Hin|].
  cbn [qsum]. destruct Hin as [->|Hin].
  - assert (0 <= qsum l) by (apply qsum_nonneg; intros y Hy; apply Hnn; right; exact Hy). lra.
  - assert (0 <= a) by (apply Hnn; left; reflexivity).
    assert (x <= qsum l) by (apply IH; [intros y Hy; apply Hnn; right; exact Hy| exact Hin]). lra.
Qed.

Lemma gc_abs_in n w y : In y (map (fun S => Qabs (w S)) (alln n)) -> 0 <= y.
Proof. intros Hy. apply in_map_iff in Hy. destruct Hy as [S [<- _]]. apply Qabs_nonneg. Qed.

(* linf <= l1 (no sign hypothesis) *)
Theorem gc_linf_le_l1 n w : nm_linf n w <= nm_l1 n w.
Proof.
  apply nm_linf_lub. intros S HS. rewrite nm_l1_eq.
  apply gc_qsum_ge_elem; [apply gc_abs_in|].
  apply (in_map (fun S => Qabs (w S))). apply in_alln. exact HS.
Qed.

Lemma gc_binomQ_ge1 n S : 1 <= inject_Z (sh_binom n (size n S)).
Proof.
  change 1 with (inject_Z 1). rewrite <- Zle_Qle.
  pose proof (sh_binom_pos n (size n S) (size_le_n n S)). lia.
Qed.

(* exploitability (as the weighted gap) <= l1 for non-negative widths: every weight 1/C(n,|S|) is at most 1 *)
Theorem gc_wgap_le_l1 n w : (forall S, bounded n S -> 0 <= w S) -> ex_wgap n w <= nm_l1 n w.
Proof.
  intros H. rewrite ex_wgap_eq, nm_l1_eq. apply qsum_map_le. intros S HS. apply in_alln in HS.
  specialize (H S HS). rewrite Qabs_pos by exact H.
  pose proof (gc_binomQ_ge1 n S) as Hb.
  apply Qle_shift_div_r; [lra|]. nra.
Qed.

(* l2^2 <= linf * l1 *)
Theorem gc_l2sq_le_linf_l1 n w : nm_l2sq n w <= nm_linf n w * nm_l1 n w.
Proof.
  rewrite nm_l2sq_eq, nm_l1_eq, <- qsum_map_scal. apply qsum_map_le. intros S HS. apply in_alln in HS.
  pose proof (nm_linf_ge n w S HS) as Hm. pose proof (Qabs_nonneg (w S)) as Ha.
  assert (E : w S * w S == Qabs (w S) * Qabs (w S)).
  { destruct (Qlt_le_dec (w S) 0) as [Hn|Hp].
    - rewrite Qabs_neg by lra. ring.
    - rewrite Qabs_pos by exact Hp. reflexivity. }
  rewrite E. apply Qmult_le_compat_r; assumption.
Qed.

(* linf^2 <= l2^2 *)
Theorem gc_linfsq_le_l2sq n w : nm_linf n w * nm_linf n w <= nm_l2sq n w.
Proof.
  destruct (qmaxl_in (map (fun S => Qabs (w S)) (alln n))) as [y [Hy Ey]];
    [apply map_neq_nil, nm_alln_nonempty|].
  fold (nm_linf n w) in Ey. apply in_map_iff in Hy. destruct Hy as [S [<- HS]].
  rewrite Ey, nm_l2sq_eq.
  assert (E : Qabs (w S) * Qabs (w S) == w S * w S).
  { destruct (Qlt_le_dec (w S) 0) as [Hn|Hp].
    - rewrite Qabs_neg by lra. ring.
    - rewrite Qabs_pos by exact Hp. reflexivity. }
  rewrite E. apply (gc_qsum_ge_elem (map (fun S => w S * w S) (alln n))).
  - intros z Hz. apply in_map_iff in Hz. destruct Hz as [T [<- _]].
    destruct (Qlt_le_dec (w T) 0) as [Hn|Hp]; nra.
  - apply (in_map (fun S => w S * w S)). exact HS.
Qed.

Corollary gc_l2sq_le_l1sq n w : nm_l2sq n w <= nm_l1 n w * nm_l1 n w.
Proof.
  eapply Qle_trans; [apply gc_l2sq_le_linf_l1|].
  apply Qmult_le_compat_r; [apply gc_linf_le_l1|].
  rewrite nm_l1_eq. apply qsum_nonneg. apply gc_abs_in.
Qed.

(* linf <= C * exploitability whenever C bounds every binomial coefficient of n (e.g. C = 2^n, or the central one) *)
Theorem gc_linf_le_wgap n w C :
  (forall S, bounded n S -> 0 <= w S) ->
  (forall S, bounded n S -> inject_Z (sh_binom n (size n S)) <= C) ->
  nm_linf n w <= C * ex_wgap n w.
Proof.
  intros H HC. apply nm_linf_lub. intros S HS. rewrite Qabs_pos by (apply H; exact HS).
  pose proof (ex_binomQ_pos n S) as Hb. pose proof (HC S HS) as Hc. pose proof (H S HS) as Hw.
  assert (Hterm : w S / inject_Z (sh_binom n (size n S)) <= ex_wgap n w).
  { rewrite ex_wgap_eq.
    apply (gc_qsum_ge_elem (map (fun S => w S / inject_Z (sh_binom n (size n S))) (alln n))).
    - intros z Hz. apply in_map_iff in Hz. destruct Hz as [T [<- HT]]. apply in_alln in HT.
      apply ex_wgap_term_nonneg. apply H. exact HT.
    - apply (in_map (fun S => w S / inject_Z (sh_binom n (size n S)))). apply in_alln. exact HS. }
  assert (Hq : 0 <= w S / inject_Z (sh_binom n (size n S))) by (apply ex_wgap_term_nonneg; exact Hw).
  assert (E : w S == inject_Z (sh_binom n (size n S)) * (w S / inject_Z (sh_binom n (size n S)))).
  { field. lra. }
  rewrite E. apply Qle_trans with (C * (w S / inject_Z (sh_binom n (size n S)))).
  - apply Qmult_le_compat_r; assumption.
  - assert (0 <= C) by lra. nra.
Qed.

(* the four gap functions vanish together *)
Theorem gc_zero_together n w :
  (forall S, bounded n S -> 0 <= w S) ->
  let allzero := forall S, bounded n S -> w S == 0 in
  (nm_l1 n w == 0 <-> allzero) /\ (nm_linf n w == 0 <-> allzero) /\
  (nm_l2sq n w == 0 <-> allzero) /\ (ex_wgap n w == 0 <-> allzero).
Proof.
  intros H allzero.
  destruct (gaps_nonneg_and_zero n w H) as [[N1 [N2 [N3 N4]]] Z].
  assert (Linf : nm_linf n w == 0 -> allzero).
  { intros E S HS. pose proof (nm_linf_ge n w S HS) as Hm. rewrite Qabs_pos in Hm by (apply H; exact HS).
    specialize (H S HS). lra. }
  assert (L1 : nm_l1 n w == 0 -> allzero).
  { intros E. apply Linf. pose proof (gc_linf_le_l1 n w). lra. }
  assert (L2 : nm_l2sq n w == 0 -> allzero).
  { intros E. apply Linf. pose proof (gc_linfsq_le_l2sq n w) as Hs. rewrite E in Hs. nra. }
  assert (LW : ex_wgap n w == 0 -> allzero).
  { intros E S HS.
    assert (Et : w S / inject_Z (sh_binom n (size n S)) == 0).
    { apply (qsum_nonneg_zero (map (fun S => w S / inject_Z (sh_binom n (size n S))) (alln n))).
      - intros x Hx. apply in_map_iff in Hx. destruct Hx as [T [<- HT]]. apply in_alln in HT.
        apply ex_wgap_term_nonneg. apply H. exact HT.
      - rewrite <- ex_wgap_eq. exact E.
      - apply (in_map (fun S => w S / inject_Z (sh_binom n (size n S)))). apply in_alln. exact HS. }
    pose proof (ex_binomQ_pos n S) as Hc.
    rewrite <- (Qmult_div_r (w S) (inject_Z (sh_binom n (size n S)))) by lra. rewrite Et. ring. }
  repeat split; try assumption; intros Hz; apply (Z Hz).
Qed.

(* on a table: widths of a table whose rows satisfy lower <= upper *)
Corollary gc_tab_zero_together n t :
  (forall S, bounded n S -> lo (get t S) <= hi (get t S)) ->
  let pinned := forall S, bounded n S -> lo (get t S) == hi (get t S) in
  (nm_l1 n (nm_width_tab t) == 0 <-> pinned) /\ (nm_linf n (nm_width_tab t) == 0 <-> pinned) /\
  (nm_l2sq n (nm_width_tab t) == 0 <-> pinned) /\ (ex_wgap n (nm_width_tab t) == 0 <-> pinned).
Proof.
  intros Hbox pinned.
  assert (Hnn : forall S, bounded n S -> 0 <= nm_width_tab t S).
  { intros S HS. unfold nm_width_tab, nm_width. specialize (Hbox S HS). lra. }
  destruct (gc_zero_together n (nm_width_tab t) Hnn) as [A [B [C D]]].
  assert (Eq : (forall S, bounded n S -> nm_width_tab t S == 0) <-> pinned).
  { unfold pinned, nm_width_tab, nm_width. split; intros Hh S HS; specialize (Hh S HS); lra. }
  rewrite <- Eq. repeat split; try apply A; try apply B; try apply C; try apply D.
Qed.

(* SAKnowledge: the superadditive bounds are a function of the current knowledge (C08):
   stale unknown rows never matter, recomputation is idempotent, reveal + un-reveal is undone exactly. *)
From ICG Require Import Prelude Bits Table Bounds GameOps FoldLemmas BoundsSpec SASound SAEquiv.

(* two tables with the same known rows; unknown rows arbitrary (stale numbers of earlier computations) *)
Definition same_known_part (n : nat) (t1 t2 : table) : Prop :=
  forall s, bounded n s -> Kn t1 s = Kn t2 s /\ (Kn t1 s = true -> get t1 s = get t2 s).

(* equality of everything a game object on n players can show *)
Definition teqn (n : nat) (t1 t2 : table) : Prop := forall s, bounded n s -> get t1 s = get t2 s.

Lemma same_known_part_refl n t : same_known_part n t t.
Proof. intros s _. auto. Qed.
Lemma same_known_part_sym n t1 t2 : same_known_part n t1 t2 -> same_known_part n t2 t1.
Proof. intros H s Hb. destruct (H s Hb) as [E H1]. split; [auto|]. intros Hk. symmetry. apply H1. congruence. Qed.
Lemma same_known_part_trans n t1 t2 t3 : same_known_part n t1 t2 -> same_known_part n t2 t3 -> same_known_part n t1 t3.
Proof.
  intros H12 H23 s Hb. destruct (H12 s Hb) as [E1 A]. destruct (H23 s Hb) as [E2 B].
  split; [congruence|]. intros Hk. rewrite A by exact Hk. apply B. congruence.
Qed.
Lemma teqn_same_known_part n t1 t2 : teqn n t1 t2 -> same_known_part n t1 t2.
Proof. intros H s Hb. unfold Kn. rewrite (H s Hb). auto. Qed.

Lemma forallb_ext_in' {A} (f g : A -> bool) l : (forall x, In x l -> f x = g x) -> forallb f l = forallb g l.
Proof.
  induction l as [|x l IH]; intros H; simpl; [reflexivity|].
  rewrite (H x) by (left; reflexivity). rewrite IH; [reflexivity|]. intros y Hy. apply H. right. exact Hy.
Qed.

Lemma upperF_local n K1 K2 l1 l2 s : bounded n s ->
  (forall a, bounded n a -> K1 a = K2 a) -> (forall a, bounded n a -> l1 a = l2 a) ->
  upperF n K1 l1 s = upperF n K2 l2 s.
Proof.
  intros Hb HK Hl. unfold upperF.
  rewrite (filter_ext_in' K1 K2) by (intros T HT; apply in_supers in HT; apply HK; tauto).
  f_equal. apply map_ext_in. intros T HT. apply filter_In in HT. destruct HT as [HT _].
  destruct (in_supers_facts n s T Hb HT) as [HbT [_ [E [Hbd _]]]]. rewrite E, !Hl; auto.
Qed.

Lemma upperF_ref_local n K1 K2 l1 l2 u1 u2 s : bounded n s ->
  (forall a, bounded n a -> K1 a = K2 a) -> (forall a, bounded n a -> l1 a = l2 a) ->
  (forall a, bounded n a -> K1 a = true -> u1 a = u2 a) ->
  upperF_ref n K1 l1 u1 s = upperF_ref n K2 l2 u2 s.
Proof.
  intros Hb HK Hl Hu. unfold upperF_ref.
  rewrite <- (filter_ext_in' K1 K2) by (intros T HT; apply in_supers in HT; apply HK; tauto).
  f_equal. apply map_ext_in. intros T HT. apply filter_In in HT. destruct HT as [HT HkT].
  destruct (in_supers_facts n s T Hb HT) as [HbT [_ [_ [Hbd _]]]]. rewrite Hl, Hu; auto.
Qed.

Lemma cached_ok_knowledge n t1 t2 : same_known_part n t1 t2 -> cached_ok n t1 = cached_ok n t2.
Proof.
  intros H. unfold cached_ok.
  destruct (H 0%N (bounded_0 n)) as [E0 _]. destruct (H (grand n) (bounded_grand n)) as [Eg _].
  unfold Kn in E0, Eg. rewrite E0, Eg. f_equal.
  assert (E : unknown_ids n t1 = unknown_ids n t2).
  { unfold unknown_ids. apply filter_ext_in'. intros s Hs. apply in_alln in Hs.
    destruct (H s Hs) as [E _]. unfold Kn in E. rewrite E. reflexivity. }
  rewrite E. reflexivity.
Qed.

Lemma min_known_knowledge n t1 t2 : same_known_part n t1 t2 -> min_known n t1 = min_known n t2.
Proof.
  intros H. unfold min_known.
  destruct (H 0%N (bounded_0 n)) as [E0 _]. destruct (H (grand n) (bounded_grand n)) as [Eg _].
  unfold Kn in E0, Eg. rewrite E0, Eg. f_equal.
  apply forallb_ext_in'. intros i Hi. apply in_seq in Hi.
  destruct (H (single i) (bounded_single n i ltac:(lia))) as [E _]. exact E.
Qed.

Theorem sa_cached_run_knowledge n t1 t2 :
  same_known_part n t1 t2 -> teqn n (sa_cached_run n t1) (sa_cached_run n t2).
Proof.
  intros H.
  pose proof (sa_cached_run_post n t1) as P1. pose proof (sa_cached_run_post n t2) as P2.
  set (r1 := sa_cached_run n t1) in *. set (r2 := sa_cached_run n t2) in *.
  assert (HL : forall s, bounded n s -> L r1 s = L r2 s).
  { apply (fix_unique n (lowerF n) (bounded n) (Kn t1)).
    - intros l1 l2 s Hb Hl. apply lowerF_local; auto.
    - intros s Hb Hk. destruct (H s Hb) as [E Hr]. unfold L.
      rewrite (frame_known n t1 r1 s (post_frame _ _ _ P1) Hk).
      rewrite (frame_known n t2 r2 s (post_frame _ _ _ P2)) by congruence. rewrite Hr by exact Hk. reflexivity.
    - intros s Hb Hk. apply (post_lo _ _ _ P1); auto.
    - intros s Hb Hk. destruct (H s Hb) as [E _]. apply (post_lo _ _ _ P2); auto. congruence. }
  intros s Hb. destruct (H s Hb) as [E Hr]. destruct (Kn t1 s) eqn:Hk.
  - rewrite (frame_known n t1 r1 s (post_frame _ _ _ P1) Hk).
    rewrite (frame_known n t2 r2 s (post_frame _ _ _ P2)) by congruence. apply Hr. reflexivity.
  - apply get_eq.
    + rewrite (post_Kn _ _ _ P1), (post_Kn _ _ _ P2). congruence.
    + apply HL. exact Hb.
    + rewrite (post_hi _ _ _ P1 s Hb Hk), (post_hi _ _ _ P2 s Hb) by congruence. f_equal.
      apply upperF_local; auto. intros a Ha. apply (H a Ha).
Qed.

Theorem sa_ref_run_knowledge n t1 t2 :
  same_known_part n t1 t2 -> teqn n (sa_ref_run n t1) (sa_ref_run n t2).
Proof.
  intros H.
  pose proof (sa_ref_run_post n t1) as P1. pose proof (sa_ref_run_post n t2) as P2.
  set (r1 := sa_ref_run n t1) in *. set (r2 := sa_ref_run n t2) in *.
  assert (HL : forall s, bounded n s -> L r1 s = L r2 s).
  { apply (fix_unique n (lowerF n) (bounded n) (Kn t1)).
    - intros l1 l2 s Hb Hl. apply lowerF_local; auto.
    - intros s Hb Hk. destruct (H s Hb) as [E Hr]. unfold L.
      rewrite (frame_known n t1 r1 s (rpost_frame _ _ _ P1) Hk).
      rewrite (frame_known n t2 r2 s (rpost_frame _ _ _ P2)) by congruence. rewrite Hr by exact Hk. reflexivity.
    - intros s Hb Hk. apply (rpost_lo _ _ _ P1); auto.
    - intros s Hb Hk. destruct (H s Hb) as [E _]. apply (rpost_lo _ _ _ P2); auto. congruence. }
  intros s Hb. destruct (H s Hb) as [E Hr]. destruct (Kn t1 s) eqn:Hk.
  - rewrite (frame_known n t1 r1 s (rpost_frame _ _ _ P1) Hk).
    rewrite (frame_known n t2 r2 s (rpost_frame _ _ _ P2)) by congruence. apply Hr. reflexivity.
  - apply get_eq.
    + rewrite (rpost_Kn _ _ _ P1), (rpost_Kn _ _ _ P2). congruence.
    + apply HL. exact Hb.
    + rewrite (rpost_hi _ _ _ P1 s Hb Hk), (rpost_hi _ _ _ P2 s Hb) by congruence. f_equal.
      apply upperF_ref_local; auto.
      * intros a Ha. apply (H a Ha).
      * intros a Ha Hka. destruct (H a Ha) as [_ Hra]. unfold U. rewrite Hra by exact Hka. reflexivity.
Qed.

(* results of [compute], compared as options of n-player tables *)
Definition oteqn (n : nat) (o1 o2 : option table) : Prop :=
  match o1, o2 with
  | Some a, Some b => teqn n a b
  | None, None => True
  | _, _ => False
  end.

Theorem sa_function_of_knowledge (c : computer) n t1 t2 :
  (c = CRef \/ c = CCached) -> same_known_part n t1 t2 -> oteqn n (compute c n t1) (compute c n t2).
Proof.
  intros [->| ->] H; simpl.
  - unfold compute_sa_ref. rewrite (min_known_knowledge n t1 t2 H).
    destruct (min_known n t2); simpl; [apply sa_ref_run_knowledge; exact H| exact I].
  - unfold compute_sa_cached. rewrite (cached_ok_knowledge n t1 t2 H).
    destruct (cached_ok n t2); simpl; [apply sa_cached_run_knowledge; exact H| exact I].
Qed.

(* the result has the same known part as the input *)
Lemma sa_compute_same_known (c : computer) n t t' :
  (c = CRef \/ c = CCached) -> compute c n t = Some t' -> same_known_part n t t'.
Proof.
  intros [->| ->]; simpl; intros Hc s Hb.
  - unfold compute_sa_ref in Hc. destruct (min_known n t); [|discriminate]. injection Hc as <-.
    pose proof (sa_ref_run_post n t) as P. split; [symmetry; apply (rpost_Kn _ _ _ P)|].
    intros Hk. symmetry. apply (frame_known n t _ s (rpost_frame _ _ _ P) Hk).
  - unfold compute_sa_cached in Hc. destruct (cached_ok n t); [|discriminate]. injection Hc as <-.
    pose proof (sa_cached_run_post n t) as P. split; [symmetry; apply (post_Kn _ _ _ P)|].
    intros Hk. symmetry. apply (frame_known n t _ s (post_frame _ _ _ P) Hk).
Qed.

Theorem sa_idempotent (c : computer) n t t' :
  (c = CRef \/ c = CCached) -> compute c n t = Some t' -> oteqn n (compute c n t') (Some t').
Proof.
  intros Hc H.
  pose proof (sa_function_of_knowledge c n t' t Hc
                (same_known_part_sym _ _ _ (sa_compute_same_known c n t t' Hc H))) as E.
  rewrite H in E. exact E.
Qed.

(* a state is fresh when its bounds are those of its own knowledge (every environment state is) *)
Definition fresh (c : computer) (n : nat) (t : table) : Prop := oteqn n (compute c n t) (Some t).

Theorem sa_reveal_unreveal_undo (c : computer) n t s x t1 :
  (c = CRef \/ c = CCached) -> fresh c n t -> bounded n s -> Kn t s = false ->
  compute c n (set_value t s x) = Some t1 ->
  oteqn n (compute c n (unset_value t1 s)) (Some t).
Proof.
  intros Hc Hf Hb Hk H1.
  (* unset_value t1 s has the same known part as t *)
  assert (HS : same_known_part n (unset_value t1 s) t).
  { pose proof (sa_compute_same_known c n _ t1 Hc H1) as S1.
    intros a Ha. unfold unset_value, Kn. rewrite get_set.
    destruct (N.eqb_spec a s) as [->|Hne].
    - simpl. split; [symmetry; exact Hk| discriminate].
    - destruct (S1 a Ha) as [E Hr]. unfold set_value, Kn in E, Hr. rewrite gso in E, Hr by exact Hne.
      split; [symmetry; exact E|]. intros Hka. symmetry. apply Hr. unfold Kn in E. congruence. }
  pose proof (sa_function_of_knowledge c n _ t Hc HS) as E.
  unfold fresh in Hf. destruct (compute c n t) as [t0|]; [|contradiction].
  destruct (compute c n (unset_value t1 s)) as [t2|]; [|contradiction].
  simpl in *. intros a Ha. rewrite (E a Ha). apply Hf. exact Ha.
Qed.

(* operation histories: whatever two histories did, equal knowledge gives equal bounds *)
Corollary sa_histories_confluent (c : computer) n ops1 ops2 :
  (c = CRef \/ c = CCached) ->
  same_known_part n (run n ops1 init_table) (run n ops2 init_table) ->
  oteqn n (compute c n (run n ops1 init_table)) (compute c n (run n ops2 init_table)).
Proof. intros Hc H. apply sa_function_of_knowledge; assumption. Qed.

(* ShapleyCarrierProofs: "null player out" and carrier theorems for the Shapley model (C06), ALL n.

   sh_null_last_out    deleting a null LAST player from an (n+1)-player game does not change the value of the others
   sh_carrier_prefix   if the players k..n-1 are all null, the players below k get their value in the k-player game
                       (the same function restricted to ids below 2^k) and the players k..n-1 get 0
   sh_carrier_perm_avg ... which is the average marginal contribution over the k! orderings of the carrier only

   Mathematical core of the first: the coalitions without i of the (n+1)-player game are the coalitions S without i
   of the n-player game together with their copies S+{n}; both have the same marginal contribution (nullity of n) and
   the weights add up:  s!(n-s)! + (s+1)!(n-s-1)!  =  (n+1) * s!(n-s-1)!,  s = |S|. *)
From ICG Require Import Prelude Bits Shapley ShapleyProofs ShapleyPermProofs.
From Coq Require Import Permutation.
Local Open Scope Q_scope.

(* player j is null in the n-player game g *)
Definition sh_nullp (n j : nat) (g : N -> Q) : Prop :=
  forall T, bounded n T -> g (N.lor T (single j)) == g T.

(* ================================================================== *)
(* coalitions of n+1 players = coalitions of n players, with/without n *)
(* ================================================================== *)
Lemma sh_bounded_S n T : bounded n T -> bounded (S n) T.
Proof. intros H i Hi. apply H. lia. Qed.

Lemma sh_bounded_S_inv n T : bounded (S n) T -> tb T n = false -> bounded n T.
Proof.
  intros H Hn i Hi. destruct (Nat.eq_dec i n) as [->|Hne]; [exact Hn|]. apply H. lia.
Qed.

Lemma sh_drop_add T n : tb T n = true -> N.lor (N.ldiff T (single n)) (single n) = T.
Proof.
  intros Ht. apply bits_inj_nat. intro j. rewrite tb_lor, tb_ldiff, tb_single.
  destruct (Nat.eqb_spec n j) as [<-|_]; [rewrite Ht; reflexivity|].
  simpl. rewrite andb_true_r, orb_false_r. reflexivity.
Qed.

Lemma sh_without_S_perm n i : (i < n)%nat ->
  Permutation (sh_without (S n) i)
              (sh_without n i ++ map (fun T => N.lor T (single n)) (sh_without n i)).
Proof.
  intros Hi. apply NoDup_Permutation.
  - apply NoDup_filter, NoDup_alln.
  - apply NoDup_app_intro.
    + apply NoDup_filter, NoDup_alln.
    + apply sh_NoDup_map_on; [|apply NoDup_filter, NoDup_alln].
      intros x y Hx Hy E. apply sh_in_without in Hx. apply sh_in_without in Hy.
      destruct Hx as [Hx _]. destruct Hy as [Hy _].
      apply (sh_add_inj x y n); auto.
    + intros x Hx Hx'. apply sh_in_without in Hx. destruct Hx as [Hb _].
      apply in_map_iff in Hx'. destruct Hx' as [y [<- _]].
      specialize (Hb n (le_n n)). rewrite sh_tb_add in Hb. discriminate.
  - intro T. rewrite in_app_iff, in_map_iff, sh_in_without. split.
    + intros [Hb Hti]. destruct (tb T n) eqn:Htn.
      * right. exists (N.ldiff T (single n)). split; [apply sh_drop_add; exact Htn|].
        apply sh_in_without. split.
        -- apply sh_bounded_S_inv; [apply bounded_ldiff; exact Hb|].
           rewrite tb_ldiff, tb_single, Nat.eqb_refl. apply andb_false_r.
        -- rewrite tb_ldiff, Hti. reflexivity.
      * left. apply sh_in_without. split; [apply sh_bounded_S_inv; assumption| exact Hti].
    + intros [H|[y [<- H]]]; apply sh_in_without in H; destruct H as [Hb Hti].
      * split; [apply sh_bounded_S; exact Hb| exact Hti].
      * split; [apply sh_bounded_add; [apply sh_bounded_S; exact Hb| lia]|].
        rewrite tb_lor, Hti, tb_single. simpl. apply Nat.eqb_neq. lia.
Qed.

(* ---------- sizes ---------- *)
Lemma sh_size_S n T : tb T n = false -> size (S n) T = size n T.
Proof.
  intros Ht. unfold size, players. rewrite seq_S, filter_app, app_length. cbn [filter plus].
  rewrite Ht. cbn [length]. lia.
Qed.

Lemma sh_size_without_lt n i T : (i < n)%nat -> bounded n T -> tb T i = false -> (size n T < n)%nat.
Proof.
  intros Hi Hb Ht. apply sh_size_lt; [exact Hb|]. intro E. subst T.
  rewrite tb_grand in Ht. apply Nat.ltb_ge in Ht. lia.
Qed.

(* the two weights of the (n+1)-player game add up to (n+1) times the weight of the n-player game *)
Lemma sh_contrib_split n s : (s < n)%nat ->
  (sh_contrib (S n) s + sh_contrib (S n) (S s) = Z.of_nat (S n) * sh_contrib n s)%Z.
Proof.
  intros Hs. unfold sh_contrib.
  replace (S n - s - 1)%nat with (S (n - s - 1)) by lia.
  replace (S n - S s - 1)%nat with (n - s - 1)%nat by lia.
  rewrite (sh_fact_S (n - s - 1)), (sh_fact_S s).
  replace (Z.of_nat (S n)) with (Z.of_nat (S (n - s - 1)) + Z.of_nat (S s))%Z by lia.
  ring.
Qed.

(* ================================================================== *)
(* null player out                                                     *)
(* ================================================================== *)
Lemma sh_null_last_out_sum n i g : (i < n)%nat -> sh_nullp n n g ->
  qsum (map (sh_term (S n) i g) (sh_without (S n) i))
  == inject_Z (Z.of_nat (S n)) * qsum (map (sh_term n i g) (sh_without n i)).
Proof.
  intros Hi Hnull.
  rewrite (sh_qsum_perm _ _ (Permutation_map (sh_term (S n) i g) (sh_without_S_perm n i Hi))).
  rewrite map_app, qsum_app, map_map.
  rewrite <- (qsum_map_add (sh_term (S n) i g) (fun T => sh_term (S n) i g (N.lor T (single n)))).
  rewrite <- qsum_map_scal.
  apply qsum_map_ext. intros T HT. apply sh_in_without in HT. destruct HT as [Hb Hti].
  pose proof (Hb n (le_n n)) as Htn.
  pose proof (sh_size_without_lt n i T Hi Hb Hti) as Hlt.
  unfold sh_term.
  rewrite (sh_size_add (S n) T n) by (auto; lia).
  rewrite (sh_size_S n T Htn).
  (* the marginal contributions agree *)
  assert (E1 : g (N.lor (N.lor T (single n)) (single i)) == g (N.lor T (single i))).
  { rewrite <- N.lor_assoc, (N.lor_comm (single n) (single i)), N.lor_assoc.
    apply Hnull. apply sh_bounded_add; assumption. }
  assert (E2 : g (N.lor T (single n)) == g T) by (apply Hnull; exact Hb).
  rewrite E1, E2.
  rewrite <- Qmult_plus_distr_l, <- inject_Z_plus, (sh_contrib_split n (size n T) Hlt).
  rewrite inject_Z_mult. ring.
Qed.

Theorem sh_null_last_out n i g : (i < n)%nat ->
  (forall T, bounded n T -> g (N.lor T (single n)) == g T) ->
  sh_player (S n) i g == sh_player n i g.
Proof.
  intros Hi Hnull. rewrite !sh_player_eq. rewrite (sh_null_last_out_sum n i g Hi Hnull).
  rewrite (sh_fact_S n), inject_Z_mult.
  pose proof (sh_factQ_pos n) as Hp.
  assert (Hq : 0 < inject_Z (Z.of_nat (S n))).
  { change 0 with (inject_Z 0). rewrite <- Zlt_Qlt. lia. }
  field. split; lra.
Qed.

(* ================================================================== *)
(* carrier: all players k..n-1 null                                    *)
(* ================================================================== *)
Theorem sh_carrier_prefix_low n k g : (k <= n)%nat ->
  (forall j, (k <= j < n)%nat -> forall T, bounded n T -> g (N.lor T (single j)) == g T) ->
  forall i, (i < k)%nat -> sh_player n i g == sh_player k i g.
Proof.
  intros Hk. induction Hk as [|m Hk IH]; intros Hnull i Hi; [reflexivity|].
  transitivity (sh_player m i g).
  { apply sh_null_last_out; [lia|]. intros T HT. apply Hnull; [lia| apply sh_bounded_S; exact HT]. }
  apply IH; [|exact Hi].
  intros j Hj T HT. apply Hnull; [lia| apply sh_bounded_S; exact HT].
Qed.

Theorem sh_carrier_prefix_high n k g :
  (forall j, (k <= j < n)%nat -> forall T, bounded n T -> g (N.lor T (single j)) == g T) ->
  forall i, (k <= i < n)%nat -> sh_player n i g == 0.
Proof.
  intros Hnull i Hi. apply sh_null. intros T HT _. apply Hnull; assumption.
Qed.

Theorem sh_carrier_prefix n k g : (k <= n)%nat ->
  (forall j, (k <= j < n)%nat -> forall T, bounded n T -> g (N.lor T (single j)) == g T) ->
  (forall i, (i < k)%nat -> sh_player n i g == sh_player k i g) /\
  (forall i, (k <= i < n)%nat -> sh_player n i g == 0).
Proof.
  intros Hk Hnull. split; [apply sh_carrier_prefix_low| apply sh_carrier_prefix_high]; assumption.
Qed.

(* the value of a carrier player is the average marginal contribution over the k! orderings of the carrier *)
Theorem sh_carrier_perm_avg n k g : (k <= n)%nat ->
  (forall j, (k <= j < n)%nat -> forall T, bounded n T -> g (N.lor T (single j)) == g T) ->
  forall i, (i < k)%nat -> sh_player n i g == sh_perm_avg k i g.
Proof.
  intros Hk Hnull i Hi. rewrite (sh_carrier_prefix_low n k g Hk Hnull i Hi).
  apply sh_is_perm_avg_all. exact Hi.
Qed.

(* all values at once: the n-player value vector is the k-player one padded with zeros (up to ==) *)
Theorem sh_carrier_all n k g : (k <= n)%nat ->
  (forall j, (k <= j < n)%nat -> forall T, bounded n T -> g (N.lor T (single j)) == g T) ->
  Forall2 Qeq (sh_all n g) (sh_all k g ++ repeat 0 (n - k)).
Proof.
  intros Hk Hnull. unfold sh_all.
  assert (E : seq 0 n = seq 0 k ++ seq k (n - k)).
  { change (seq k (n - k)) with (seq (0 + k) (n - k)). rewrite <- (seq_app k (n - k) 0). f_equal. lia. }
  rewrite E, map_app. clear E. apply Forall2_app.
  - assert (G : forall l, (forall i, In i l -> (i < k)%nat) ->
               Forall2 Qeq (map (fun i => sh_player n i g) l) (map (fun i => sh_player k i g) l)).
    { induction l as [|x l IHl]; intros Hl; cbn [map]; constructor.
      - apply sh_carrier_prefix_low; auto. apply Hl. left. reflexivity.
      - apply IHl. intros y Hy. apply Hl. right. exact Hy. }
    apply G. intros i Hin. apply in_seq in Hin. lia.
  - assert (G : forall l, (forall i, In i l -> (k <= i < n)%nat) ->
               Forall2 Qeq (map (fun i => sh_player n i g) l) (repeat 0 (length l))).
    { induction l as [|x l IHl]; intros Hl; cbn [map repeat length]; constructor.
      - apply (sh_carrier_prefix_high n k g Hnull). apply Hl. left. reflexivity.
      - apply IHl. intros y Hy. apply Hl. right. exact Hy. }
    rewrite <- (seq_length (n - k) k) at 2. apply G. intros i Hin. apply in_seq in Hin. lia.
Qed.

(* ================================================================== *)
(* an arbitrary carrier: the image of {0..k-1} under a permutation pi  *)
(* ================================================================== *)
(* pi(S) = { pi j | j in S, j < n } *)
Definition sh_push (n : nat) (pi : nat -> nat) (S : N) : N := sh_mask (map pi (players n S)).

Section Carrier.
  Variable n : nat.
  Variable pi : nat -> nat.
  Hypothesis Hpi : Permutation (seq 0 n) (map pi (seq 0 n)).     (* pi permutes the players 0..n-1 *)

  Lemma sh_tb_push S x :
    tb (sh_push n pi S) x = true <-> exists j, (j < n)%nat /\ tb S j = true /\ pi j = x.
  Proof.
    unfold sh_push. rewrite sh_tb_mask, in_map_iff. split.
    - intros [j [E Hj]]. apply sh_in_players in Hj. exists j. tauto.
    - intros [j [Hj [Ht E]]]. exists j. split; [exact E| apply sh_in_players; tauto].
  Qed.

  Lemma sh_pi_surj x : (x < n)%nat -> exists j, (j < n)%nat /\ pi j = x.
  Proof.
    intros Hx. assert (H : In x (map pi (seq 0 n))).
    { apply (Permutation_in _ Hpi). apply in_seq. lia. }
    apply in_map_iff in H. destruct H as [j [E Hj]]. apply in_seq in Hj. exists j. split; [lia| exact E].
  Qed.

  Lemma sh_bounded_push S : bounded n (sh_push n pi S).
  Proof.
    intros x Hx. destruct (tb (sh_push n pi S) x) eqn:E; [|reflexivity].
    apply sh_tb_push in E. destruct E as [j [Hj [_ <-]]].
    pose proof (sh_pi_lt n pi Hpi j Hj). lia.
  Qed.

  Lemma sh_push_pull T : bounded n T -> sh_push n pi (sh_pull n pi T) = T.
  Proof.
    intros Hb. apply bits_inj_nat. intro x. apply eq_iff_eq_true. rewrite sh_tb_push. split.
    - intros [j [Hj [Ht <-]]]. apply sh_tb_pull in Ht. tauto.
    - intros Ht. assert (Hx : (x < n)%nat).
      { destruct (Nat.lt_ge_cases x n) as [H|H]; [exact H|]. rewrite (Hb x H) in Ht. discriminate. }
      destruct (sh_pi_surj x Hx) as [j [Hj E]]. exists j. split; [exact Hj|]. split; [|exact E].
      apply sh_tb_pull. rewrite E. tauto.
  Qed.

  Lemma sh_push_add S j : (j < n)%nat ->
    sh_push n pi (N.lor S (single j)) = N.lor (sh_push n pi S) (single (pi j)).
  Proof.
    intros Hj. apply bits_inj_nat. intro x. apply eq_iff_eq_true.
    rewrite tb_lor, orb_true_iff, !sh_tb_push, tb_single, Nat.eqb_eq. split.
    - intros [a [Ha [Ht E]]]. rewrite tb_lor, orb_true_iff, tb_single, Nat.eqb_eq in Ht.
      destruct Ht as [Ht| ->]; [left; exists a; tauto| right; exact E].
    - intros [[a [Ha [Ht E]]]|E].
      + exists a. rewrite tb_lor, Ht. tauto.
      + exists j. rewrite sh_tb_add. tauto.
  Qed.

  (* the game v seen through pi: the coalition S of "positions" stands for the coalition pi(S) of players *)
  Lemma sh_relabel_push v T : bounded n T -> sh_relabel_by n pi (fun S => v (sh_push n pi S)) T = v T.
  Proof. intros Hb. unfold sh_relabel_by. rewrite sh_push_pull by exact Hb. reflexivity. Qed.

  Lemma sh_player_push v i : (i < n)%nat ->
    sh_player n (pi i) v == sh_player n i (fun S => v (sh_push n pi S)).
  Proof.
    intros Hi. rewrite <- (sh_relabel_all n pi Hpi i (fun S => v (sh_push n pi S)) Hi).
    apply sh_player_ext; intros T HT.
    - rewrite sh_relabel_push by exact HT. reflexivity.
    - rewrite sh_relabel_push; [reflexivity|]. apply sh_bounded_add; [exact HT| apply (sh_pi_lt n pi Hpi); exact Hi].
  Qed.

  Theorem sh_carrier_general k v : (k <= n)%nat ->
    (forall j, (k <= j < n)%nat -> forall T, bounded n T -> v (N.lor T (single (pi j))) == v T) ->
    (forall i, (i < k)%nat -> sh_player n (pi i) v == sh_perm_avg k i (fun S => v (sh_push n pi S))) /\
    (forall i, (k <= i < n)%nat -> sh_player n (pi i) v == 0).
  Proof.
    intros Hk Hnull. split.
    - intros i Hi. rewrite sh_player_push by lia.
      apply sh_carrier_perm_avg; [exact Hk| |exact Hi].
      intros j Hj T HT. cbv beta. rewrite sh_push_add by lia.
      apply Hnull; [exact Hj| apply sh_bounded_push].
    - intros i Hi. apply sh_null. intros T HT _. apply Hnull; assumption.
  Qed.
End Carrier.

From ICG Require Import Prelude Bits Structure.
From Coq Require Import ZArith.

Lemma sub_0_r_iff x : sub x 0 = true <-> x = 0%N.
Proof.
  split; [|intros ->; apply sub_refl]. intros H. apply sub_antisym; [exact H| apply sub_0_l].
Qed.

Theorem st_rel_spec c x :
  (st_rel c x = 1%Z <-> x <> 0%N /\ ssub x c = true) /\
  (st_rel c x = 2%Z <-> x <> 0%N /\ ssub c x = true) /\
  (st_rel c x = 0%Z <-> x = c /\ c <> 0%N) /\
  (st_rel c x = (-2)%Z <-> x = 0%N) /\
  (st_rel c x = (-1)%Z <-> x <> 0%N /\ sub x c = false /\ sub c x = false).
Proof.
  unfold st_rel, ssub.
  destruct (N.eqb_spec x 0) as [E0|E0]; destruct (N.eqb_spec x c) as [Ec|Ec];
    destruct (sub x c) eqn:S1; destruct (sub c x) eqn:S2; simpl;
    repeat split; intros; try discriminate; try tauto; try congruence;
    repeat match goal with
           | H : _ /\ _ |- _ => destruct H
           | H : negb (_ =? _)%N = true |- _ => apply negb_true_iff in H; apply N.eqb_neq in H
           | H : (_ && _)%bool = true |- _ => apply andb_true_iff in H; destruct H
           end; try congruence; try discriminate.
  all: try (subst; rewrite sub_refl in *; discriminate).
  all: try (apply andb_true_iff; split; [reflexivity| apply negb_true_iff; apply N.eqb_neq; congruence]).
  all: try (exfalso; assert (x = c) by (apply sub_antisym; assumption); congruence).
  all: try (apply negb_true_iff; apply N.eqb_neq; congruence).
Qed.

Theorem st_select_splits n c : st_select n c 1 = splits n c.
Proof.
  unfold st_select, splits. apply filter_ext. intros x.
  destruct (st_rel_spec c x) as [H1 _].
  destruct (Z.eqb_spec (st_rel c x) 1) as [E|E].
  - apply H1 in E. destruct E as [A B]. rewrite B. simpl. symmetry. apply negb_true_iff. apply N.eqb_neq. exact A.
  - symmetry. apply not_true_iff_false. intro H. apply E. apply H1.
    apply andb_true_iff in H. destruct H as [A B]. apply negb_true_iff in B. apply N.eqb_neq in B. tauto.
Qed.

Theorem st_select_supers n c : c <> 0%N -> st_select n c 2 = supers n c.
Proof.
  intros Hc. unfold st_select, supers. apply filter_ext. intros x.
  destruct (st_rel_spec c x) as [_ [H2 _]].
  destruct (Z.eqb_spec (st_rel c x) 2) as [E|E].
  - apply H2 in E. symmetry. tauto.
  - symmetry. apply not_true_iff_false. intro H. apply E. apply H2. split; [|exact H].
    intro Ex. subst x. apply ssub_sub in H. apply sub_0_r_iff in H. contradiction.
Qed.

(* the memo never serves another player count *)
Definition st_cache_ok (ca : st_cache) : Prop := forall m s, st_lookup m ca = Some s -> s = st_matrix m.

Lemma st_call_ok ca m : st_cache_ok ca -> st_cache_ok (fst (st_call ca m)) /\ snd (st_call ca m) = st_matrix m.
Proof.
  intros H. unfold st_call. destruct (st_lookup m ca) as [s|] eqn:E; simpl.
  - split; [exact H| apply H; exact E].
  - split; [|reflexivity]. intros k s. simpl. destruct (Nat.eqb_spec m k) as [->|Hne].
    + intros [= <-]. reflexivity.
    + apply H.
Qed.

Theorem st_cache_inv (calls : list nat) : st_cache_ok (st_run_cache calls).
Proof.
  unfold st_run_cache.
  assert (G : forall ca, st_cache_ok ca -> st_cache_ok (fold_left (fun ca m => fst (st_call ca m)) calls ca)).
  { induction calls as [|m calls IH]; intros ca H; simpl; [exact H|]. apply IH. apply st_call_ok. exact H. }
  apply G. intros m s. simpl. discriminate.
Qed.

Theorem st_call_returns (calls : list nat) (m : nat) :
  snd (st_call (st_run_cache calls) m) = st_matrix m.
Proof. apply st_call_ok. apply st_cache_inv. Qed.

(* Combs: itertools.combinations / the repository's functoolz.powerset, exactly in the order CPython produces them.
   Standalone (lists over any type); proofs are in CombsProofs.v.  Prefix cb_.

   CPython's combinations(l, k) emits index tuples in lexicographic order: first every combination that starts
   with l[0] (followed by the combinations of size k-1 of the rest, in order), then those that do not contain l[0].
   powerset(l) = chain.from_iterable(combinations(l, r) for r in range(len(l) + 1)). *)
From Coq Require Import List Arith.
Import ListNotations.

Fixpoint cb_combs_rec {A} (l : list A) (k : nat) : list (list A) :=
  match k, l with
  | O, _ => [[]]
  | S _, [] => []
  | S k', x :: r => map (cons x) (cb_combs_rec r k') ++ cb_combs_rec r k
  end.

(* itertools.combinations(l, k) *)
Definition cb_combs {A} (k : nat) (l : list A) : list (list A) := cb_combs_rec l k.

(* functoolz.powerset(l): by increasing size, each size in combinations order *)
Definition cb_powerset {A} (l : list A) : list (list A) :=
  concat (map (fun k => cb_combs k l) (seq 0 (S (length l)))).

(* all combinations of size <= m, by increasing size (the prefix of the powerset used by the searches) *)
Definition cb_upto {A} (m : nat) (l : list A) : list (list A) :=
  concat (map (fun k => cb_combs k l) (seq 0 (S m))).

(* binomial coefficient by Pascal's rule: the number of combinations *)
Fixpoint cb_binom (n k : nat) : nat :=
  match k, n with
  | O, _ => 1
  | S _, O => 0
  | S k', S n' => cb_binom n' k' + cb_binom n' k
  end.

(* EnvProofs: the environment state machine keeps exactly what was revealed (C09);
   invariant by induction over any sequence of reset / step / unstep. *)
From ICG Require Import Prelude Bits Table Bounds GameOps FoldLemmas BoundsSpec SASound SAEquiv SAKnowledge SAMKnowledge GameOpsProofs Shapley Exploit Norms Env.
From Coq Require Import ZArith.

(* static configuration: explorable = all coalitions not initially known; empty and grand initially known *)
Definition ev_wf (e : env) : Prop :=
  e_expl e = filter (fun s => negb (ev_mem s (e_init e))) (alln (e_n e))
  /\ ev_mem 0%N (e_init e) = true /\ ev_mem (grand (e_n e)) (e_init e) = true.

Definition ev_same_config (e e' : env) : Prop :=
  e_n e' = e_n e /\ e_comp e' = e_comp e /\ e_gap e' = e_gap e /\ e_budget e' = e_budget e
  /\ e_init e' = e_init e /\ e_expl e' = e_expl e.

Lemma ev_make_wf n c g b init : ev_wf (ev_make n c g b init).
Proof.
  unfold ev_wf, ev_make. simpl. split; [reflexivity|]. split; [reflexivity|].
  rewrite N.eqb_refl. apply orb_true_r.
Qed.

Lemma ev_mem_spec s l : ev_mem s l = true <-> In s l.
Proof.
  unfold ev_mem. rewrite existsb_exists. split.
  - intros [x [Hx E]]. apply N.eqb_eq in E. subst. exact Hx.
  - intros H. exists s. split; [exact H| apply N.eqb_refl].
Qed.

Lemma in_expl e s : ev_wf e -> In s (e_expl e) <-> bounded (e_n e) s /\ ev_mem s (e_init e) = false.
Proof.
  intros [E _]. rewrite E, filter_In, in_alln, negb_true_iff. tauto.
Qed.

(* the coalitions chosen since the last reset *)
Definition ev_chosen_step (expl : list N) (ch : list N) (o : eop) : list N :=
  match o with
  | EReset _ _ => []
  | EStep a => match nth_error expl a with Some s => s :: ch | None => ch end
  | EUnstep a => match nth_error expl a with Some s => remove N.eq_dec s ch | None => ch end
  end.
Definition ev_chosen (expl : list N) (tr : list eop) : list N := fold_left (ev_chosen_step expl) tr [].

Definition ev_count_step (k : Z) (o : eop) : Z :=
  match o with EReset _ _ => 0%Z | EStep _ => (k + 1)%Z | EUnstep _ => (k - 1)%Z end.

(* the invariant *)
Record ev_inv (e : env) (chosen : list N) (steps : Z) : Prop := {
  inv_known : forall s, bounded (e_n e) s -> Kn (e_tab e) s = ev_mem s (e_init e) || ev_mem s chosen;
  inv_value : forall s, bounded (e_n e) s -> Kn (e_tab e) s = true ->
                L (e_tab e) s = ev_val (e_hidden e) s /\ U (e_tab e) s = ev_val (e_hidden e) s;
  inv_fresh : fresh (e_comp e) (e_n e) (e_tab e);
  inv_steps : e_steps e = steps;
  inv_chosen : forall s, In s chosen -> In s (e_expl e)
}.

Lemma last_assigned_map (f : N -> Q) l s :
  last_assigned (combine l (map f l)) s = if ev_mem s l then Some (f s) else None.
Proof.
  unfold last_assigned.
  assert (G : forall acc, fold_left (fun acc p => if N.eqb (fst p) s then Some (snd p) else acc) (combine l (map f l)) acc
                          = if ev_mem s l then Some (f s) else acc).
  { induction l as [|x l IH]; intros acc; simpl; [reflexivity|].
    rewrite IH. rewrite (N.eqb_sym s x). destruct (N.eqb_spec x s) as [->|Hne]; simpl.
    - destruct (ev_mem s l); reflexivity.
    - reflexivity. }
  apply G.
Qed.

Lemma set_known_some_get t l (f : N -> Q) s :
  get (fst (set_known_some t l (map f l))) s
  = if ev_mem s l then krow (f s) else get init_table s.
Proof.
  unfold set_known_some, set_values_some. rewrite map_length, Nat.ltb_irrefl. simpl.
  rewrite firstn_all. rewrite assign_values_get, last_assigned_map. destruct (ev_mem s l); reflexivity.
Qed.

Lemma ev_reset_inv e v nv e' : ev_wf e -> ev_reset e v nv = Some e' ->
  ev_same_config e e' /\ ev_wf e' /\ e_hidden e' = v /\ e_norm e' = nv /\ ev_inv e' [] 0%Z.
Proof.
  intros Hwf H. unfold ev_reset in H.
  destruct (compute (e_comp e) (e_n e) _) as [t1|] eqn:Hc; [|discriminate]. injection H as <-.
  split; [repeat split|]. split; [exact Hwf|]. split; [reflexivity|]. split; [reflexivity|].
  set (t0 := fst (set_known_some (e_tab e) (e_init e) (map (ev_val v) (e_init e)))) in *.
  assert (Hk0 : forall s, Kn t0 s = ev_mem s (e_init e)).
  { intros s. unfold Kn, t0. rewrite set_known_some_get. destruct (ev_mem s (e_init e)) eqn:E; [reflexivity|].
    unfold init_table. rewrite get_set. destruct (N.eqb_spec s 0) as [->|]; [|rewrite get_empty; reflexivity].
    destruct Hwf as [_ [H0 _]]. congruence. }
  constructor; simpl.
  - intros s Hb. destruct (compute_frame _ _ _ _ Hc s) as [F1 _]. rewrite F1, Hk0, orb_false_r. reflexivity.
  - intros s Hb Hk. destruct (compute_frame _ _ _ _ Hc s) as [F1 F2]. rewrite F1 in Hk.
    unfold L, U. rewrite (F2 Hk). rewrite Hk0 in Hk. unfold t0. rewrite set_known_some_get, Hk. simpl. auto.
  - eapply computed_is_fresh; eauto.
  - reflexivity.
  - intros s [].
Qed.

Lemma nth_error_expl e a s : nth_error (e_expl e) a = Some s -> In s (e_expl e).
Proof. apply nth_error_In. Qed.

Lemma ev_step_inv e a e' ch k : ev_wf e -> ev_inv e ch k -> ev_step e a = Some e' ->
  exists s, nth_error (e_expl e) a = Some s /\ Kn (e_tab e) s = false /\
  ev_same_config e e' /\ ev_wf e' /\ e_hidden e' = e_hidden e /\ e_norm e' = e_norm e /\ ev_inv e' (s :: ch) (k + 1)%Z.
Proof.
  intros Hwf Hinv H. unfold ev_step, ev_coal in H.
  destruct (nth_error (e_expl e) a) as [s|] eqn:Hs; [|discriminate].
  unfold reveal in H. destruct (known (get (e_tab e) s)) eqn:Hk; [discriminate|].
  destruct (compute (e_comp e) (e_n e) (set_value (e_tab e) s (ev_val (e_hidden e) s))) as [t2|] eqn:Hc; [|discriminate].
  injection H as <-. exists s. split; [reflexivity|]. split; [exact Hk|].
  split; [repeat split|]. split; [exact Hwf|]. split; [reflexivity|]. split; [reflexivity|].
  pose proof (nth_error_expl e a s Hs) as Hin. pose proof (proj1 (in_expl e s Hwf) Hin) as [Hbs Hns].
  destruct Hinv as [I1 I2 I3 I4 I5].
  constructor; simpl.
  - intros x Hb. destruct (compute_frame _ _ _ _ Hc x) as [F1 _]. rewrite F1. unfold set_value, Kn. rewrite get_set.
    change (ev_mem x (s :: ch)) with ((x =? s)%N || ev_mem x ch).
    destruct (N.eqb_spec x s) as [->|Hne]; simpl.
    + rewrite orb_true_r. reflexivity.
    + apply I1. exact Hb.
  - intros x Hb Hkx. destruct (compute_frame _ _ _ _ Hc x) as [F1 F2]. rewrite F1 in Hkx.
    unfold L, U. rewrite (F2 Hkx). unfold set_value, Kn in *. rewrite get_set in *.
    destruct (N.eqb_spec x s) as [->|Hne]; simpl; [auto|]. apply I2; auto.
  - eapply computed_is_fresh; eauto.
  - rewrite I4. reflexivity.
  - intros x [<-|Hx]; [exact Hin| apply I5; exact Hx].
Qed.

Lemma ev_mem_remove s x l : ev_mem x (remove N.eq_dec s l) = ev_mem x l && negb (N.eqb x s).
Proof.
  induction l as [|y l IH]; simpl; [reflexivity|].
  destruct (N.eq_dec s y) as [->|Hne].
  - rewrite IH. destruct (N.eqb_spec x y); simpl; [rewrite andb_false_r; reflexivity| rewrite andb_true_r; reflexivity].
  - simpl. rewrite IH. destruct (N.eqb_spec x y) as [->|]; simpl; [|reflexivity].
    destruct (N.eqb_spec y s); [congruence| reflexivity].
Qed.

Lemma ev_unstep_inv e a e' ch k : ev_wf e -> ev_inv e ch k -> ev_unstep e a = Some e' ->
  exists s, nth_error (e_expl e) a = Some s /\ Kn (e_tab e) s = true /\
  ev_same_config e e' /\ ev_wf e' /\ e_hidden e' = e_hidden e /\ e_norm e' = e_norm e
  /\ ev_inv e' (remove N.eq_dec s ch) (k - 1)%Z.
Proof.
  intros Hwf Hinv H. unfold ev_unstep, ev_coal in H.
  destruct (nth_error (e_expl e) a) as [s|] eqn:Hs; [|discriminate].
  unfold unreveal in H. destruct (known (get (e_tab e) s)) eqn:Hk; [|discriminate].
  destruct (compute (e_comp e) (e_n e) (unset_value (e_tab e) s)) as [t2|] eqn:Hc; [|discriminate].
  injection H as <-. exists s. split; [reflexivity|]. split; [exact Hk|].
  split; [repeat split|]. split; [exact Hwf|]. split; [reflexivity|]. split; [reflexivity|].
  pose proof (nth_error_expl e a s Hs) as Hin. pose proof (proj1 (in_expl e s Hwf) Hin) as [Hbs Hns].
  destruct Hinv as [I1 I2 I3 I4 I5].
  constructor; simpl.
  - intros x Hb. destruct (compute_frame _ _ _ _ Hc x) as [F1 _]. rewrite F1. unfold unset_value, Kn. rewrite get_set.
    rewrite ev_mem_remove. destruct (N.eqb_spec x s) as [->|Hne]; simpl.
    + rewrite Hns, andb_false_r. reflexivity.
    + rewrite andb_true_r. apply I1. exact Hb.
  - intros x Hb Hkx. destruct (compute_frame _ _ _ _ Hc x) as [F1 F2]. rewrite F1 in Hkx.
    unfold L, U. rewrite (F2 Hkx). unfold unset_value, Kn in *. rewrite get_set in *.
    destruct (N.eqb_spec x s) as [->|Hne]; simpl in *; [discriminate|]. apply I2; auto.
  - eapply computed_is_fresh; eauto.
  - rewrite I4. reflexivity.
  - intros x Hx. apply in_remove in Hx. apply I5. tauto.
Qed.

(* C09: any trace that starts with a reset *)
Theorem ev_invariant e0 v nv tr e :
  ev_wf e0 -> ev_run e0 (EReset v nv :: tr) = Some e ->
  ev_same_config e0 e /\ ev_wf e /\
  ev_inv e (ev_chosen (e_expl e0) (EReset v nv :: tr)) (fold_left ev_count_step (EReset v nv :: tr) 0%Z).
Proof.
  intros Hwf H. simpl in H. destruct (ev_reset e0 v nv) as [e1|] eqn:Hr; [|discriminate].
  destruct (ev_reset_inv e0 v nv e1 Hwf Hr) as [Hc1 [Hwf1 [_ [_ Hi1]]]].
  unfold ev_chosen. simpl fold_left at 1 2.
  assert (G : forall tr e1 ch k, ev_same_config e0 e1 -> ev_wf e1 -> ev_inv e1 ch k -> ev_run e1 tr = Some e ->
              ev_same_config e0 e /\ ev_wf e /\ ev_inv e (fold_left (ev_chosen_step (e_expl e0)) tr ch) (fold_left ev_count_step tr k)).
  { clear. induction tr as [|o tr IH]; intros e1 ch k Hc Hwf Hi H; cbn [fold_left ev_run] in *.
    - injection H as <-. auto.
    - destruct (ev_apply e1 o) as [e2|] eqn:Ha; [|discriminate].
      assert (Eexpl : e_expl e1 = e_expl e0) by (destruct Hc as [_ [_ [_ [_ [_ E]]]]]; exact E).
      destruct o as [v nv|a|a]; simpl in Ha.
      + destruct (ev_reset_inv e1 v nv e2 Hwf Ha) as [Hc2 [Hwf2 [_ [_ Hi2]]]].
        apply (IH e2 [] 0%Z); auto.
        destruct Hc as [A [B [C [D [E F]]]]]. destruct Hc2 as [A' [B' [C' [D' [E' F']]]]].
        repeat split; congruence.
      + destruct (ev_step_inv e1 a e2 ch k Hwf Hi Ha) as [s [Hs [_ [Hc2 [Hwf2 [_ [_ Hi2]]]]]]].
        assert (Ech : ev_chosen_step (e_expl e0) ch (EStep a) = s :: ch) by (simpl; rewrite <- Eexpl, Hs; reflexivity).
        try rewrite Ech. apply (IH e2); auto.
        destruct Hc as [A [B [C [D [E F]]]]]. destruct Hc2 as [A' [B' [C' [D' [E' F']]]]].
        repeat split; congruence.
      + destruct (ev_unstep_inv e1 a e2 ch k Hwf Hi Ha) as [s [Hs [_ [Hc2 [Hwf2 [_ [_ Hi2]]]]]]].
        assert (Ech : ev_chosen_step (e_expl e0) ch (EUnstep a) = remove N.eq_dec s ch) by (simpl; rewrite <- Eexpl, Hs; reflexivity).
        try rewrite Ech. apply (IH e2); auto.
        destruct Hc as [A [B [C [D [E F]]]]]. destruct Hc2 as [A' [B' [C' [D' [E' F']]]]].
        repeat split; congruence. }
  apply (G tr e1 [] 0%Z); auto.
Qed.

(* observables in terms of the chosen set *)
Theorem ev_mask_spec e ch k : ev_wf e -> ev_inv e ch k ->
  ev_mask e = map (fun s => negb (ev_mem s ch)) (e_expl e).
Proof.
  intros Hwf Hi. unfold ev_mask. apply map_ext_in. intros s Hs.
  destruct (proj1 (in_expl e s Hwf) Hs) as [Hb Hn]. pose proof (inv_known _ _ _ Hi s Hb) as E.
  unfold Kn in E. rewrite E, Hn. reflexivity.
Qed.

Theorem ev_obs_spec e ch k : ev_wf e -> ev_inv e ch k ->
  ev_obs e = map (fun s => if ev_mem s ch then ev_val (e_norm e) s else 0) (e_expl e).
Proof.
  intros Hwf Hi. unfold ev_obs. apply map_ext_in. intros s Hs.
  destruct (proj1 (in_expl e s Hwf) Hs) as [Hb Hn]. pose proof (inv_known _ _ _ Hi s Hb) as E.
  unfold Kn in E. rewrite E, Hn. reflexivity.
Qed.

Theorem ev_done_spec e :
  ev_done e = (match e_budget e with Some b => (Z.of_nat b <=? e_steps e)%Z | None => false end)
              || negb (existsb (fun s => negb (known (get (e_tab e) s))) (e_expl e))
              || forallb (fun s => Qeq_bool (hi (get (e_tab e) s) - lo (get (e_tab e) s)) 0) (alln (e_n e)).
Proof.
  unfold ev_done, ev_mask, ev_all_degenerate. f_equal. f_equal. f_equal.
  induction (e_expl e) as [|x l IH]; simpl; [reflexivity| rewrite IH; reflexivity].
Qed.

Theorem ev_info_spec e a e' : ev_step e a = Some e' -> ev_info e' a = nth_error (e_expl e) a /\ ev_info e' a <> None.
Proof.
  intros H. unfold ev_step, ev_coal in H. unfold ev_info, ev_coal.
  destruct (nth_error (e_expl e) a) as [s|] eqn:Hs; [|discriminate].
  destruct (reveal (e_tab e) s (ev_val (e_hidden e) s)) as [t1 [|]]; [|discriminate].
  destruct (compute (e_comp e) (e_n e) t1); [|discriminate]. injection H as <-. simpl. rewrite Hs. split; [reflexivity| discriminate].
Qed.

Theorem ev_reset_spec e v nv e' : ev_wf e -> ev_reset e v nv = Some e' ->
  e_hidden e' = v /\ e_norm e' = nv /\ e_steps e' = 0%Z /\
  forall s, bounded (e_n e') s -> Kn (e_tab e') s = ev_mem s (e_init e').
Proof.
  intros Hwf H. destruct (ev_reset_inv e v nv e' Hwf H) as [Hc [_ [Hh [Hn Hi]]]].
  split; [exact Hh|]. split; [exact Hn|]. split; [apply (inv_steps _ _ _ Hi)|].
  intros s Hb. rewrite (inv_known _ _ _ Hi s Hb). apply orb_false_r.
Qed.

(* step then unstep restores the table exactly (what the greedy solver relies on) *)
Theorem ev_step_unstep e a e1 e2 ch k : ev_wf e -> ev_inv e ch k ->
  ev_step e a = Some e1 -> ev_unstep e1 a = Some e2 ->
  teqn (e_n e) (e_tab e2) (e_tab e) /\ e_steps e2 = e_steps e.
Proof.
  intros Hwf Hi H1 H2. pose proof H1 as H1'. pose proof H2 as H2'.
  unfold ev_step, ev_coal in H1. destruct (nth_error (e_expl e) a) as [s|] eqn:Hs; [|discriminate].
  unfold reveal in H1. destruct (known (get (e_tab e) s)) eqn:Hk; [discriminate|].
  destruct (compute (e_comp e) (e_n e) (set_value (e_tab e) s (ev_val (e_hidden e) s))) as [t2|] eqn:Hc; [|discriminate].
  injection H1 as <-.
  unfold ev_unstep, ev_coal in H2. simpl in H2. rewrite Hs in H2. unfold unreveal in H2.
  destruct (known (get t2 s)) eqn:Hk2; [|discriminate].
  destruct (compute (e_comp e) (e_n e) (unset_value t2 s)) as [t3|] eqn:Hc3; [|discriminate].
  injection H2 as <-. simpl. split; [|lia].
  pose proof (nth_error_expl e a s Hs) as Hin. pose proof (proj1 (in_expl e s Hwf) Hin) as [Hbs _].
  pose proof (reveal_unreveal_undo (e_comp e) (e_n e) (e_tab e) s _ t2 (inv_fresh _ _ _ Hi) Hbs Hk Hc) as Hu.
  rewrite Hc3 in Hu. exact Hu.
Qed.

(* Prelude: rational helpers shared by the whole development.
   qsum / qmaxl / qminl over lists of Q with characterising lemmas.
   Model values are rationals; every float64 is one. *)
From Coq Require Export QArith Qminmax Lqa List Bool Arith NArith Lia.
Export ListNotations.

Open Scope Q_scope.

(* ---------- sums ---------- *)
Fixpoint qsum (l : list Q) : Q :=
  match l with [] => 0 | x :: r => x + qsum r end.

Lemma qsum_app l1 l2 : qsum (l1 ++ l2) == qsum l1 + qsum l2.
Proof. induction l1 as [|x l1 IH]; simpl; [ring| rewrite IH; ring]. Qed.

Lemma qsum_nonneg l : (forall x, In x l -> 0 <= x) -> 0 <= qsum l.
Proof.
  induction l as [|x l IH]; intros H; simpl; [apply Qle_refl|].
  assert (0 <= x) by (apply H; left; reflexivity).
  assert (0 <= qsum l) by (apply IH; intros y Hy; apply H; right; exact Hy). lra.
Qed.

Lemma qsum_map_le {A} (f g : A -> Q) l :
  (forall x, In x l -> f x <= g x) -> qsum (map f l) <= qsum (map g l).
Proof.
  induction l as [|x l IH]; intros H; simpl; [apply Qle_refl|].
  assert (f x <= g x) by (apply H; left; reflexivity).
  assert (qsum (map f l) <= qsum (map g l)) by (apply IH; intros y Hy; apply H; right; exact Hy). lra.
Qed.

Lemma qsum_map_ext {A} (f g : A -> Q) l :
  (forall x, In x l -> f x == g x) -> qsum (map f l) == qsum (map g l).
Proof.
  induction l as [|x l IH]; intros H; simpl; [reflexivity|].
  rewrite (H x) by (left; reflexivity). rewrite IH; [reflexivity|]. intros y Hy; apply H; right; exact Hy.
Qed.

Lemma qsum_map_add {A} (f g : A -> Q) l :
  qsum (map (fun x => f x + g x) l) == qsum (map f l) + qsum (map g l).
Proof. induction l as [|x l IH]; simpl; [ring| rewrite IH; ring]. Qed.

Lemma qsum_map_scal {A} (c : Q) (f : A -> Q) l :
  qsum (map (fun x => c * f x) l) == c * qsum (map f l).
Proof. induction l as [|x l IH]; simpl; [ring| rewrite IH; ring]. Qed.

Lemma qsum_map_zero {A} (f : A -> Q) l :
  (forall x, In x l -> f x == 0) -> qsum (map f l) == 0.
Proof.
  induction l as [|x l IH]; intros H; simpl; [reflexivity|].
  rewrite (H x) by (left; reflexivity). rewrite IH; [ring|]. intros y Hy; apply H; right; exact Hy.
Qed.

Lemma qsum_nonneg_zero l :
  (forall x, In x l -> 0 <= x) -> qsum l == 0 -> forall x, In x l -> x == 0.
Proof.
  induction l as [|y l IH]; intros Hnn Hs x Hin; [destruct Hin|].
  simpl in Hs.
  assert (Hy : 0 <= y) by (apply Hnn; left; reflexivity).
  assert (Hl : 0 <= qsum l) by (apply qsum_nonneg; intros z Hz; apply Hnn; right; exact Hz).
  destruct Hin as [<-|Hin].
  - lra.
  - apply IH; auto. + intros z Hz; apply Hnn; right; exact Hz. + lra.
Qed.

(* ---------- max / min over a list; None on the empty list (numpy raises) ---------- *)
Fixpoint qmaxl1 (x : Q) (l : list Q) : Q :=
  match l with [] => x | y :: r => Qmax x (qmaxl1 y r) end.
Fixpoint qminl1 (x : Q) (l : list Q) : Q :=
  match l with [] => x | y :: r => Qmin x (qminl1 y r) end.

(* total versions with default 0 on the empty list; the models guard emptiness separately *)
Definition qmaxl (l : list Q) : Q := match l with [] => 0 | x :: r => qmaxl1 x r end.
Definition qminl (l : list Q) : Q := match l with [] => 0 | x :: r => qminl1 x r end.

Lemma qmaxl1_ge x l y : In y (x :: l) -> y <= qmaxl1 x l.
Proof.
  revert x; induction l as [|z r IH]; intros x Hin; simpl.
  - destruct Hin as [->|[]]. apply Qle_refl.
  - destruct Hin as [->|Hin]; [apply Q.le_max_l|].
    eapply Qle_trans; [apply IH; exact Hin| apply Q.le_max_r].
Qed.

Lemma qmaxl1_lub x l b : (forall y, In y (x :: l) -> y <= b) -> qmaxl1 x l <= b.
Proof.
  revert x; induction l as [|z r IH]; intros x H; simpl.
  - apply H; left; reflexivity.
  - apply Q.max_lub; [apply H; left; reflexivity| apply IH; intros y Hy; apply H; right; exact Hy].
Qed.

Lemma qmaxl1_in x l : exists y, In y (x :: l) /\ qmaxl1 x l == y.
Proof.
  revert x; induction l as [|z r IH]; intros x; simpl.
  - exists x; split; [left; reflexivity| reflexivity].
  - destruct (IH z) as [y [Hy Ey]].
    destruct (Q.max_spec x (qmaxl1 z r)) as [[_ E]|[_ E]].
    + exists y; split; [right; exact Hy| rewrite E; exact Ey].
    + exists x; split; [left; reflexivity| exact E].
Qed.

Lemma qmaxl_ge l y : In y l -> y <= qmaxl l.
Proof. destruct l as [|x r]; [intros []| apply qmaxl1_ge]. Qed.
Lemma qmaxl_lub l b : l <> [] -> (forall y, In y l -> y <= b) -> qmaxl l <= b.
Proof. destruct l as [|x r]; [congruence| intros _; apply qmaxl1_lub]. Qed.
Lemma qmaxl_in l : l <> [] -> exists y, In y l /\ qmaxl l == y.
Proof. destruct l as [|x r]; [congruence| intros _; apply qmaxl1_in]. Qed.

Lemma qminl1_le x l y : In y (x :: l) -> qminl1 x l <= y.
Proof.
  revert x; induction l as [|z r IH]; intros x Hin; simpl.
  - destruct Hin as [->|[]]. apply Qle_refl.
  - destruct Hin as [->|Hin]; [apply Q.le_min_l|].
    eapply Qle_trans; [apply Q.le_min_r| apply IH; exact Hin].
Qed.

Lemma qminl1_glb x l b : (forall y, In y (x :: l) -> b <= y) -> b <= qminl1 x l.
Proof.
  revert x; induction l as [|z r IH]; intros x H; simpl.
  - apply H; left; reflexivity.
  - apply Q.min_glb; [apply H; left; reflexivity| apply IH; intros y Hy; apply H; right; exact Hy].
Qed.

Lemma qminl1_in x l : exists y, In y (x :: l) /\ qminl1 x l == y.
Proof.
  revert x; induction l as [|z r IH]; intros x; simpl.
  - exists x; split; [left; reflexivity| reflexivity].
  - destruct (IH z) as [y [Hy Ey]].
    destruct (Q.min_spec x (qminl1 z r)) as [[_ E]|[_ E]].
    + exists x; split; [left; reflexivity| exact E].
    + exists y; split; [right; exact Hy| rewrite E; exact Ey].
Qed.

Lemma qminl_le l y : In y l -> qminl l <= y.
Proof. destruct l as [|x r]; [intros []| apply qminl1_le]. Qed.
Lemma qminl_glb l b : l <> [] -> (forall y, In y l -> b <= y) -> b <= qminl l.
Proof. destruct l as [|x r]; [congruence| intros _; apply qminl1_glb]. Qed.
Lemma qminl_in l : l <> [] -> exists y, In y l /\ qminl l == y.
Proof. destruct l as [|x r]; [congruence| intros _; apply qminl1_in]. Qed.

(* max / min depend only on the set of (==-classes of) elements *)
Lemma qmaxl_eq_of_incl l1 l2 :
  l1 <> [] -> l2 <> [] ->
  (forall y, In y l1 -> exists z, In z l2 /\ y <= z) ->
  (forall y, In y l2 -> exists z, In z l1 /\ y <= z) ->
  qmaxl l1 == qmaxl l2.
Proof.
  intros N1 N2 H12 H21. apply Qle_antisym.
  - apply qmaxl_lub; auto. intros y Hy. destruct (H12 y Hy) as [z [Hz Hle]].
    eapply Qle_trans; [exact Hle| apply qmaxl_ge; exact Hz].
  - apply qmaxl_lub; auto. intros y Hy. destruct (H21 y Hy) as [z [Hz Hle]].
    eapply Qle_trans; [exact Hle| apply qmaxl_ge; exact Hz].
Qed.

Lemma qminl_eq_of_incl l1 l2 :
  l1 <> [] -> l2 <> [] ->
  (forall y, In y l1 -> exists z, In z l2 /\ z <= y) ->
  (forall y, In y l2 -> exists z, In z l1 /\ z <= y) ->
  qminl l1 == qminl l2.
Proof.
  intros N1 N2 H12 H21. apply Qle_antisym.
  - apply qminl_glb; auto. intros y Hy. destruct (H21 y Hy) as [z [Hz Hle]].
    eapply Qle_trans; [apply qminl_le; exact Hz| exact Hle].
  - apply qminl_glb; auto. intros y Hy. destruct (H12 y Hy) as [z [Hz Hle]].
    eapply Qle_trans; [apply qminl_le; exact Hz| exact Hle].
Qed.

Lemma map_neq_nil {A B} (f : A -> B) l : l <> [] -> map f l <> [].
Proof. destruct l; [congruence| discriminate]. Qed.

(* Qred: canonical representative, used at every cell write of the model *)
Lemma Qred_eq_iff x y : Qred x = Qred y <-> x == y.
Proof.
  split; intro H.
  - rewrite <- (Qred_correct x), <- (Qred_correct y), H. reflexivity.
  - apply Qred_complete; exact H.
Qed.

Lemma Qred_idem x : Qred (Qred x) = Qred x.
Proof. apply Qred_complete. apply Qred_correct. Qed.

(* max / min of pointwise ==-equal lists *)
Lemma qmaxl1_Qeq x y l1 l2 : x == y -> Forall2 Qeq l1 l2 -> qmaxl1 x l1 == qmaxl1 y l2.
Proof.
  intros Hxy H. revert x y Hxy. induction H as [|a b l1 l2 Hab H IH]; intros x y Hxy; simpl; [exact Hxy|].
  apply Q.max_compat; [exact Hxy| apply IH; exact Hab].
Qed.
Lemma qminl1_Qeq x y l1 l2 : x == y -> Forall2 Qeq l1 l2 -> qminl1 x l1 == qminl1 y l2.
Proof.
  intros Hxy H. revert x y Hxy. induction H as [|a b l1 l2 Hab H IH]; intros x y Hxy; simpl; [exact Hxy|].
  apply Q.min_compat; [exact Hxy| apply IH; exact Hab].
Qed.
Lemma Forall2_map_Qeq {A} (f g : A -> Q) l : (forall x, In x l -> f x == g x) -> Forall2 Qeq (map f l) (map g l).
Proof.
  induction l as [|x l IH]; intros H; simpl; constructor.
  - apply H. left. reflexivity.
  - apply IH. intros y Hy. apply H. right. exact Hy.
Qed.
Lemma qmaxl_map_Qeq {A} (f g : A -> Q) l : (forall x, In x l -> f x == g x) -> qmaxl (map f l) == qmaxl (map g l).
Proof.
  intros H. destruct l as [|x l]; simpl; [reflexivity|].
  apply qmaxl1_Qeq; [apply H; left; reflexivity| apply Forall2_map_Qeq; intros y Hy; apply H; right; exact Hy].
Qed.
Lemma qminl_map_Qeq {A} (f g : A -> Q) l : (forall x, In x l -> f x == g x) -> qminl (map f l) == qminl (map g l).
Proof.
  intros H. destruct l as [|x l]; simpl; [reflexivity|].
  apply qminl1_Qeq; [apply H; left; reflexivity| apply Forall2_map_Qeq; intros y Hy; apply H; right; exact Hy].
Qed.

(* Checks: boolean deciders for the hypotheses of the theorems on concrete instances,
   used by the non-vacuity Examples of the property files (proved by vm_compute). *)
From ICG Require Import Prelude Bits Table Bounds FoldLemmas BoundsSpec SASound.

Definition sa_check (n : nat) (v : N -> Q) : bool :=
  forallb (fun a => forallb (fun b => negb (disjb a b) || Qle_bool (v a + v b) (v (N.lor a b))) (alln n)) (alln n).

Lemma sa_check_sound n v : sa_check n v = true -> SA n v.
Proof.
  intros H a b Ha Hb Hd. unfold sa_check in H. rewrite forallb_forall in H.
  specialize (H a (proj2 (in_alln n a) Ha)). rewrite forallb_forall in H.
  specialize (H b (proj2 (in_alln n b) Hb)). rewrite Hd in H. simpl in H. apply Qle_bool_iff. exact H.
Qed.

Definition mono_check (n : nat) (v : N -> Q) : bool :=
  forallb (fun a => forallb (fun b => negb (sub a b) || Qle_bool (v b) (v a)) (alln n)) (alln n).

Definition mink_check (n : nat) (K : N -> bool) : bool :=
  K 0%N && K (grand n) && forallb (fun i => K (single i)) (seq 0 n).

Lemma mink_check_sound n K : mink_check n K = true -> MinK n K.
Proof.
  unfold mink_check. intros H. apply andb_true_iff in H. destruct H as [H H1].
  apply andb_true_iff in H. destruct H as [H0 Hg]. split; [exact H0|]. split; [exact Hg|].
  intros i Hi. rewrite forallb_forall in H1. apply H1. apply in_seq. lia.
Qed.

Definition agrees_check (n : nat) (t : table) (K : N -> bool) (v : N -> Q) : bool :=
  forallb (fun s => Bool.eqb (Kn t s) (K s) && (negb (K s) || (Qeq_bool (L t s) (v s) && Qeq_bool (U t s) (v s)))) (alln n).

Lemma agrees_check_sound n t K v : agrees_check n t K v = true -> agrees n t K v.
Proof.
  intros H s Hb. unfold agrees_check in H. rewrite forallb_forall in H.
  specialize (H s (proj2 (in_alln n s) Hb)). apply andb_true_iff in H. destruct H as [H1 H2].
  apply Bool.eqb_prop in H1. split; [exact H1|]. intros Hk. rewrite Hk in H2. simpl in H2.
  apply andb_true_iff in H2. destruct H2 as [A B]. split; apply Qeq_bool_iff; assumption.
Qed.

(* a game given by its list of values in id order *)
Definition game_of (vals : list Q) (s : N) : Q := nth (N.to_nat s) vals 0.

(* a table holding knowledge K of game v, unknown rows holding the given stale numbers *)
Definition table_of (n : nat) (K : N -> bool) (v : N -> Q) (stale : Q) : table :=
  of_fun (alln n) (fun s => if K s then mkrow true (v s) (v s) else mkrow false stale (- stale)).

Definition known_in (ids : list N) (s : N) : bool := existsb (N.eqb s) ids.

(* DoneGap: the "all intervals are points" disjunct of the environment's done flag (ICG_Gym.done: np.all(upper == lower))
   coincides with "the selected gap function is zero", whichever of the four gap functions was selected - for every
   table with lower <= upper everywhere, a known grand coalition and upper(empty) = 0 (what every reachable
   environment state satisfies, see EnvProofs).  Hence an episode that stops because nothing is left to learn stops
   with reward 0, and a zero reward means every coalition is pinned down, for all n.  Prefix dg_. *)
From ICG Require Import Prelude Bits Table Shapley ShapleyProofs Exploit ExploitProofs Norms NormsProofs GapCompare Env.
Local Open Scope Q_scope.

Definition dg_degenerate (n : nat) (t : table) : bool :=
  forallb (fun s => Qeq_bool (hi (get t s) - lo (get t s)) 0) (alln n).

Lemma dg_degenerate_env e : ev_all_degenerate e = dg_degenerate (e_n e) (e_tab e).
Proof. reflexivity. Qed.

Lemma dg_degenerate_iff n t :
  dg_degenerate n t = true <-> (forall S, bounded n S -> lo (get t S) == hi (get t S)).
Proof.
  unfold dg_degenerate. rewrite forallb_forall. split.
  - intros H S HS. apply in_alln in HS. specialize (H S HS). apply Qeq_bool_iff in H. lra.
  - intros H S HS. apply in_alln in HS. apply Qeq_bool_iff. specialize (H S HS). lra.
Qed.

Theorem dg_done_iff_gap_zero n t g :
  (forall S, bounded n S -> lo (get t S) <= hi (get t S)) ->
  known (get t (grand n)) = true -> hi (get t 0%N) == 0 ->
  exists x, ev_gap g n t = Some x /\ (dg_degenerate n t = true <-> x == 0).
Proof.
  intros Hbox Hk H0. pose proof (dg_degenerate_iff n t) as Hd.
  destruct (gc_tab_zero_together n t Hbox) as [A [B [C D]]].
  destruct g; cbn [ev_gap].
  - unfold ex_exploit_tab. rewrite Hk. eexists; split; [reflexivity|]. rewrite Hd.
    rewrite ex_weighted_gap_general. unfold ex_hi, ex_lo. rewrite H0.
    rewrite <- D. unfold nm_width_tab, nm_width. split; intros E; lra.
  - eexists; split; [reflexivity|]. rewrite Hd, Qred_correct. symmetry. exact A.
  - eexists; split; [reflexivity|]. rewrite Hd, Qred_correct. symmetry. exact C.
  - eexists; split; [reflexivity|]. rewrite Hd, Qred_correct. symmetry. exact B.
Qed.

(* the flag does not depend on the gap function: zero under one gap function iff zero under any other *)
Corollary dg_zero_gap_independent n t g g' x x' :
  (forall S, bounded n S -> lo (get t S) <= hi (get t S)) ->
  known (get t (grand n)) = true -> hi (get t 0%N) == 0 ->
  ev_gap g n t = Some x -> ev_gap g' n t = Some x' -> (x == 0 <-> x' == 0).
Proof.
  intros Hbox Hk H0 E E'.
  destruct (dg_done_iff_gap_zero n t g Hbox Hk H0) as [y [Ey Hy]].
  destruct (dg_done_iff_gap_zero n t g' Hbox Hk H0) as [y' [Ey' Hy']].
  rewrite E in Ey. rewrite E' in Ey'. inversion Ey; inversion Ey'; subst. rewrite <- Hy, <- Hy'. reflexivity.
Qed.

(* CombsProofs: itertools.combinations / powerset as modelled in Combs.v enumerate every k-sublist (by position) exactly once,
   in non-decreasing size; counts are binomials / 2^n.  Standalone: depends on Combs.v only.  Prefix cb_. *)
From Coq Require Import List Arith Lia Sorted Permutation.
From ICG Require Import Combs.
Import ListNotations.

Inductive cb_sublist {A} : list A -> list A -> Prop :=
| cb_sl_nil l : cb_sublist [] l
| cb_sl_cons x s l : cb_sublist s l -> cb_sublist (x :: s) (x :: l)
| cb_sl_skip x s l : cb_sublist s l -> cb_sublist s (x :: l).

(* ------------------------------------------------------------------ *)
(* Small list helpers *)

Lemma cb_NoDup_app {A} (l1 l2 : list A) :
  NoDup l1 -> NoDup l2 -> (forall x, In x l1 -> In x l2 -> False) -> NoDup (l1 ++ l2).
Proof.
  induction l1 as [|a l1 IH]; simpl; intros H1 H2 HD; auto.
  inversion H1; subst. constructor.
  - rewrite in_app_iff. intros [HI|HI]; [tauto|]. apply (HD a); auto.
  - apply IH; auto. intros x Hx; apply HD; auto.
Qed.

Lemma cb_NoDup_map_inj {A B} (f : A -> B) (l : list A) :
  (forall x y, f x = f y -> x = y) -> NoDup l -> NoDup (map f l).
Proof.
  intros Hinj. induction 1 as [|a l Hn Hnd IH]; simpl; constructor; auto.
  rewrite in_map_iff. intros [y [Hy Hin]]. apply Hinj in Hy. subst. tauto.
Qed.

Lemma cb_NoDup_concat_keyed {A K} (key : list A -> K) (f : K -> list (list A)) (ks : list K) :
  NoDup ks ->
  (forall k, In k ks -> NoDup (f k)) ->
  (forall k s, In k ks -> In s (f k) -> key s = k) ->
  NoDup (concat (map f ks)).
Proof.
  induction 1 as [|k ks Hn Hnd IH]; simpl; intros HN HK; [constructor|].
  apply cb_NoDup_app.
  - apply HN; auto.
  - apply IH; intros; [apply HN|apply HK]; auto.
  - intros s H1 H2. apply in_concat in H2. destruct H2 as [b [Hb Hs]].
    apply in_map_iff in Hb. destruct Hb as [k' [<- Hk']].
    apply HK in H1; auto. apply HK in Hs; auto. congruence.
Qed.

Lemma cb_length_concat_map {K B} (f : K -> list B) (ks : list K) :
  length (concat (map f ks)) = list_sum (map (fun k => length (f k)) ks).
Proof. induction ks; simpl; auto. rewrite app_length, IHks. reflexivity. Qed.

Lemma cb_map_nth_seq {A} (l : list A) d : map (fun i => nth i l d) (seq 0 (length l)) = l.
Proof.
  induction l as [|x r IH]; simpl; auto. f_equal.
  rewrite <- seq_shift, map_map. exact IH.
Qed.

(* ------------------------------------------------------------------ *)
(* Sublist facts *)

Lemma cb_sublist_refl {A} (l : list A) : cb_sublist l l.
Proof. induction l; constructor; auto. Qed.

Lemma cb_sublist_In {A} (s l : list A) x : cb_sublist s l -> In x s -> In x l.
Proof. induction 1; simpl; intros; tauto. Qed.

Lemma cb_sublist_length {A} (s l : list A) : cb_sublist s l -> length s <= length l.
Proof. induction 1; simpl; lia. Qed.

Lemma cb_sublist_NoDup {A} (s l : list A) : cb_sublist s l -> NoDup l -> NoDup s.
Proof.
  induction 1; intros Hnd; [constructor| |]; inversion Hnd; subst; auto.
  constructor; auto. intros Hin. eapply cb_sublist_In in Hin; eauto.
Qed.

Lemma cb_sublist_filter {A} (f : A -> bool) (l : list A) : cb_sublist (filter f l) l.
Proof. induction l; simpl; [constructor|]. destruct (f a); constructor; auto. Qed.

Lemma cb_sublist_sorted {A} (R : A -> A -> Prop) (s l : list A) :
  cb_sublist s l -> StronglySorted R l -> StronglySorted R s.
Proof.
  induction 1; intros HS; [constructor| |]; inversion HS; subst; auto.
  constructor; auto. rewrite Forall_forall in *. intros y Hy.
  eapply cb_sublist_In in Hy; eauto.
Qed.

Lemma cb_sublist_nil_r {A} (s : list A) : cb_sublist s (@nil A) -> s = [].
Proof. inversion 1; auto. Qed.

Lemma cb_sublist_cons_inv {A} (s : list A) x l :
  cb_sublist s (x :: l) -> (exists s', s = x :: s' /\ cb_sublist s' l) \/ cb_sublist s l.
Proof.
  inversion 1; subst.
  - right; constructor.
  - left; eauto.
  - right; auto.
Qed.

Lemma cb_sublist_ext {A} (s1 s2 l : list A) :
  NoDup l -> cb_sublist s1 l -> cb_sublist s2 l -> (forall x, In x s1 <-> In x s2) -> s1 = s2.
Proof.
  intros Hnd; revert s1 s2. induction l as [|a l IH]; intros s1 s2 H1 H2 Heq.
  - apply cb_sublist_nil_r in H1. apply cb_sublist_nil_r in H2. congruence.
  - inversion Hnd as [|? ? Hna Hnd']; subst.
    apply cb_sublist_cons_inv in H1. apply cb_sublist_cons_inv in H2.
    destruct H1 as [[t1 [-> H1]]|H1]; destruct H2 as [[t2 [-> H2]]|H2].
    + f_equal. apply IH; auto. intros x; split; intros Hx.
      * assert (In x (a :: t2)) as [E|?] by (apply Heq; simpl; auto); auto.
        subst x. exfalso; apply Hna; apply (cb_sublist_In t1 l a); auto.
      * assert (In x (a :: t1)) as [E|?] by (apply Heq; simpl; auto); auto.
        subst x. exfalso; apply Hna; apply (cb_sublist_In t2 l a); auto.
    + exfalso. apply Hna. eapply cb_sublist_In; [exact H2|]. apply Heq; simpl; auto.
    + exfalso. apply Hna. eapply cb_sublist_In; [exact H1|]. apply Heq; simpl; auto.
    + apply IH; auto.
Qed.

Lemma cb_sublist_full {A} (s l : list A) : cb_sublist s l -> length s = length l -> s = l.
Proof.
  induction 1; simpl; intros Hl.
  - destruct l; simpl in *; auto; discriminate.
  - f_equal; auto.
  - apply cb_sublist_length in H. lia.
Qed.

Lemma cb_sublist_trans {A} (s m l : list A) : cb_sublist s m -> cb_sublist m l -> cb_sublist s l.
Proof.
  intros H1 H2; revert s H1. induction H2; intros t H1.
  - apply cb_sublist_nil_r in H1; subst; constructor.
  - inversion H1; subst; constructor; auto.
  - constructor; auto.
Qed.

(* ------------------------------------------------------------------ *)
(* Combinations *)

Lemma cb_combs_0 {A} (l : list A) : cb_combs 0 l = [[]].
Proof. destruct l; reflexivity. Qed.

Lemma cb_combs_in {A} k (l s : list A) : In s (cb_combs k l) <-> cb_sublist s l /\ length s = k.
Proof.
  unfold cb_combs. revert k s. induction l as [|x r IH]; intros [|k] s; cbn [cb_combs_rec].
  - simpl. split.
    + intros [<-|[]]; split; auto; constructor.
    + intros [_ H]. destruct s; simpl in *; auto; discriminate.
  - simpl. split; [tauto|]. intros [H1 H2]. apply cb_sublist_nil_r in H1; subst; discriminate.
  - simpl. split.
    + intros [<-|[]]; split; auto; constructor.
    + intros [_ H]. destruct s; simpl in *; auto; discriminate.
  - rewrite in_app_iff, in_map_iff. split.
    + intros [[t [<- Ht]]|H].
      * apply IH in Ht. destruct Ht as [Ht <-]. split; auto. constructor; auto.
      * apply IH in H. destruct H as [H <-]. split; auto. constructor; auto.
    + intros [H1 H2]. inversion H1; subst.
      * discriminate.
      * left. eexists; split; eauto. apply IH. simpl in H2. split; auto; lia.
      * right. apply IH. auto.
Qed.

Lemma cb_combs_NoDup {A} k (l : list A) : NoDup l -> NoDup (cb_combs k l).
Proof.
  intros Hnd; revert k. induction Hnd as [|x r Hn Hnd IH]; intros [|k].
  - repeat constructor; auto.
  - constructor.
  - rewrite cb_combs_0. repeat constructor; auto.
  - unfold cb_combs; cbn [cb_combs_rec]. apply cb_NoDup_app.
    + apply cb_NoDup_map_inj; [intros ? ? E; congruence| apply IH].
    + apply IH.
    + intros s H1 H2. apply in_map_iff in H1. destruct H1 as [t [<- _]].
      apply (cb_combs_in (S k) r) in H2. destruct H2 as [H2 _].
      apply Hn. eapply cb_sublist_In; eauto. simpl; auto.
Qed.

Lemma cb_combs_length {A} k (l : list A) : length (cb_combs k l) = cb_binom (length l) k.
Proof.
  unfold cb_combs. revert k. induction l as [|x r IH]; intros [|k]; simpl; auto.
  rewrite app_length, map_length, !IH. reflexivity.
Qed.

Lemma cb_combs_gt {A} k (l : list A) : length l < k -> cb_combs k l = [].
Proof.
  unfold cb_combs. revert k. induction l as [|x r IH]; intros [|k]; simpl; intros H; auto; try lia.
  rewrite !IH by lia. reflexivity.
Qed.

Lemma cb_combs_all {A} (l : list A) : cb_combs (length l) l = [l].
Proof.
  unfold cb_combs. induction l as [|x r IH]; simpl; auto.
  rewrite IH. fold (cb_combs (S (length r)) r). rewrite cb_combs_gt by lia. reflexivity.
Qed.

Lemma cb_combs_map {A B} (f : A -> B) k (l : list A) :
  cb_combs k (map f l) = map (map f) (cb_combs k l).
Proof.
  unfold cb_combs. revert k. induction l as [|x r IH]; intros [|k]; simpl; auto.
  rewrite map_app, !map_map, !IH, map_map. reflexivity.
Qed.

Lemma cb_combs_by_index {A} k (l : list A) d :
  cb_combs k l = map (map (fun i => nth i l d)) (cb_combs k (seq 0 (length l))).
Proof.
  rewrite <- cb_combs_map, cb_map_nth_seq. reflexivity.
Qed.

(* ------------------------------------------------------------------ *)
(* Powerset / upto *)

Lemma cb_powerset_upto {A} (l : list A) : cb_powerset l = cb_upto (length l) l.
Proof. reflexivity. Qed.

Lemma cb_upto_in {A} m (l s : list A) : In s (cb_upto m l) <-> cb_sublist s l /\ length s <= m.
Proof.
  unfold cb_upto. rewrite in_concat. split.
  - intros [b [Hb Hs]]. apply in_map_iff in Hb. destruct Hb as [k [<- Hk]].
    apply in_seq in Hk. apply cb_combs_in in Hs. destruct Hs as [Hs <-]. split; auto; lia.
  - intros [H1 H2]. exists (cb_combs (length s) l). split.
    + apply in_map_iff. exists (length s). split; auto. apply in_seq. lia.
    + apply cb_combs_in; auto.
Qed.

Lemma cb_upto_NoDup {A} m (l : list A) : NoDup l -> NoDup (cb_upto m l).
Proof.
  intros Hnd. unfold cb_upto.
  apply (cb_NoDup_concat_keyed (@length A)).
  - apply seq_NoDup.
  - intros; apply cb_combs_NoDup; auto.
  - intros k s _ Hs. apply cb_combs_in in Hs. tauto.
Qed.

Lemma cb_powerset_in {A} (l s : list A) : In s (cb_powerset l) <-> cb_sublist s l.
Proof.
  rewrite cb_powerset_upto, cb_upto_in. split; [tauto|].
  intros H; split; auto. apply cb_sublist_length; auto.
Qed.

Lemma cb_powerset_NoDup {A} (l : list A) : NoDup l -> NoDup (cb_powerset l).
Proof. rewrite cb_powerset_upto. apply cb_upto_NoDup. Qed.

Lemma cb_binom_gt n k : n < k -> cb_binom n k = 0.
Proof.
  revert k. induction n as [|n IH]; intros [|k] H; simpl; auto; try lia.
  rewrite !IH by lia. reflexivity.
Qed.

Definition cb_bsum (n m : nat) : nat := list_sum (map (cb_binom n) (seq 0 m)).

Lemma cb_bsum_S n m : cb_bsum n (S m) = cb_bsum n m + cb_binom n m.
Proof.
  unfold cb_bsum. rewrite seq_S, map_app, list_sum_app. simpl. lia.
Qed.

Lemma cb_bsum_pascal n m : cb_bsum (S n) (S m) = cb_bsum n m + cb_bsum n (S m).
Proof.
  induction m as [|m IH].
  - destruct n; reflexivity.
  - rewrite (cb_bsum_S (S n) (S m)), IH, (cb_bsum_S n (S m)), (cb_bsum_S n m).
    simpl. lia.
Qed.

Lemma cb_bsum_pow n : cb_bsum n (S n) = 2 ^ n.
Proof.
  induction n as [|n IH].
  - reflexivity.
  - rewrite cb_bsum_pascal, (cb_bsum_S n (S n)), IH, cb_binom_gt by lia.
    simpl. lia.
Qed.

Lemma cb_powerset_length {A} (l : list A) : length (cb_powerset l) = 2 ^ length l.
Proof.
  unfold cb_powerset. rewrite cb_length_concat_map.
  rewrite <- cb_bsum_pow. unfold cb_bsum. f_equal.
  apply map_ext. intros k. apply cb_combs_length.
Qed.

Lemma cb_powerset_map {A B} (f : A -> B) (l : list A) :
  cb_powerset (map f l) = map (map f) (cb_powerset l).
Proof.
  unfold cb_powerset. rewrite map_length, concat_map, map_map. f_equal.
  apply map_ext. intros k. apply cb_combs_map.
Qed.

Lemma cb_powerset_head {A} (l : list A) : exists r, cb_powerset l = [] :: r.
Proof.
  unfold cb_powerset. cbn [seq map concat]. rewrite cb_combs_0. simpl. eexists; reflexivity.
Qed.

(* ---------- order: the powerset is produced by non-decreasing size ---------- *)
Lemma cb_sorted_app {A} (R : A -> A -> Prop) (l1 l2 : list A) :
  StronglySorted R l1 -> StronglySorted R l2 -> (forall x y, In x l1 -> In y l2 -> R x y) ->
  StronglySorted R (l1 ++ l2).
Proof.
  induction l1 as [|a l1 IH]; intros H1 H2 H; simpl; auto.
  inversion H1 as [|? ? Hs Hf]; subst. constructor.
  - apply IH; auto. intros x y Hx Hy. apply H; [right; exact Hx| exact Hy].
  - apply Forall_forall. intros y Hy. apply in_app_or in Hy. destruct Hy as [Hy|Hy].
    + rewrite Forall_forall in Hf. apply Hf. exact Hy.
    + apply H; [left; reflexivity| exact Hy].
Qed.

Lemma cb_sorted_all {A} (R : A -> A -> Prop) (l : list A) :
  (forall x y, In x l -> In y l -> R x y) -> StronglySorted R l.
Proof.
  induction l as [|a l IH]; intros H; constructor.
  - apply IH. intros x y Hx Hy. apply H; right; assumption.
  - apply Forall_forall. intros y Hy. apply H; [left; reflexivity| right; exact Hy].
Qed.

Lemma cb_sorted_map {A B} (R : A -> A -> Prop) (R' : B -> B -> Prop) (f : A -> B) (l : list A) :
  StronglySorted R l -> (forall a b, In a l -> In b l -> R a b -> R' (f a) (f b)) -> StronglySorted R' (map f l).
Proof.
  induction l as [|x l IH]; intros Hs H; simpl; constructor.
  - inversion Hs; subst. apply IH; auto. intros a b Ha Hb. apply H; right; assumption.
  - inversion Hs as [|? ? _ Hf]; subst. apply Forall_forall. intros y Hy. apply in_map_iff in Hy.
    destruct Hy as [b [<- Hb]]. rewrite Forall_forall in Hf. apply H; [left; reflexivity| right; exact Hb| apply Hf; exact Hb].
Qed.

Lemma cb_blocks_sorted_length {A} (l : list A) a n :
  StronglySorted (fun s t => length s <= length t) (concat (map (fun k => cb_combs k l) (seq a n))).
Proof.
  revert a. induction n as [|n IH]; intros a; simpl; [constructor|].
  apply cb_sorted_app; [| apply IH |].
  - apply cb_sorted_all. intros x y Hx Hy. apply cb_combs_in in Hx. apply cb_combs_in in Hy. lia.
  - intros x y Hx Hy. apply cb_combs_in in Hx. apply in_concat in Hy. destruct Hy as [blk [Hblk Hy]].
    apply in_map_iff in Hblk. destruct Hblk as [k [<- Hk]]. apply in_seq in Hk. apply cb_combs_in in Hy. lia.
Qed.

Lemma cb_powerset_sorted_length {A} (l : list A) :
  StronglySorted (fun s t => length s <= length t) (cb_powerset l).
Proof. apply cb_blocks_sorted_length. Qed.

Lemma cb_upto_sorted_length {A} m (l : list A) :
  StronglySorted (fun s t => length s <= length t) (cb_upto m l).
Proof. apply cb_blocks_sorted_length. Qed.

(* Env: the reveal-one-coalition environment of icg_gym.py as a state machine (C09),
   the size-aggregated wrapper of icg_gym_linear.py (C16) and the built-in solvers (C13).
   The hidden game drawn at each reset and its normalised copy are inputs (oracle arguments). *)
From ICG Require Import Prelude Bits Table Bounds GameOps Shapley Exploit Norms.
From Coq Require Import ZArith.

Inductive gapfn := GExploit | GL1 | GL2 | GLinf.

(* the gap of a table; for l2 the model carries the SQUARE of the norm (no square roots in Q);
   None = the gap function raises (exploitability needs the grand coalition known) *)
Definition ev_gap (g : gapfn) (n : nat) (t : table) : option Q :=
  match g with
  | GExploit => ex_exploit_tab n t
  | GL1 => Some (Qred (nm_l1 n (nm_width_tab t)))
  | GL2 => Some (Qred (nm_l2sq n (nm_width_tab t)))
  | GLinf => Some (Qred (nm_linf n (nm_width_tab t)))
  end.

Record env := mkenv {
  e_n : nat;
  e_comp : computer;
  e_gap : gapfn;
  e_budget : option nat;          (* done_after_n_actions *)
  e_init : list N;                (* initially known coalitions (empty and grand always added) *)
  e_expl : list N;                (* explorable coalitions, id order *)
  e_tab : table;                  (* incomplete_game._values *)
  e_hidden : list Q;              (* full_game values, id order *)
  e_norm : list Q;                (* normalized_game values, id order *)
  e_steps : Z                     (* steps_taken *)
}.

Definition ev_val (l : list Q) (s : N) : Q := nth (N.to_nat s) l 0.
Definition ev_mem (s : N) (l : list N) : bool := existsb (N.eqb s) l.

Definition ev_make (n : nat) (c : computer) (g : gapfn) (budget : option nat) (init : list N) : env :=
  let init' := 0%N :: grand n :: init in
  mkenv n c g budget init' (filter (fun s => negb (ev_mem s init')) (alln n)) init_table [] [] 0.

Definition ev_set (e : env) (t : table) (steps : Z) : env :=
  mkenv (e_n e) (e_comp e) (e_gap e) (e_budget e) (e_init e) (e_expl e) t (e_hidden e) (e_norm e) steps.

(* reset: new hidden game, set_known_values(initially known), compute, steps := 0 *)
Definition ev_reset (e : env) (v nv : list Q) : option env :=
  let t0 := fst (set_known_some (e_tab e) (e_init e) (map (ev_val v) (e_init e))) in
  match compute (e_comp e) (e_n e) t0 with
  | Some t1 => Some (mkenv (e_n e) (e_comp e) (e_gap e) (e_budget e) (e_init e) (e_expl e) t1 v nv 0)
  | None => None
  end.

Definition ev_coal (e : env) (a : nat) : option N := nth_error (e_expl e) a.

(* step: reveal the true value (assert unknown), compute, count *)
Definition ev_step (e : env) (a : nat) : option env :=
  match ev_coal e a with
  | None => None                                               (* IndexError *)
  | Some s =>
    match reveal (e_tab e) s (ev_val (e_hidden e) s) with
    | (_, Err) => None                                         (* AssertionError: already known *)
    | (t1, Ok) =>
      match compute (e_comp e) (e_n e) t1 with
      | Some t2 => Some (ev_set e t2 (e_steps e + 1))
      | None => None
      end
    end
  end.

Definition ev_unstep (e : env) (a : nat) : option env :=
  match ev_coal e a with
  | None => None
  | Some s =>
    match unreveal (e_tab e) s with
    | (_, Err) => None
    | (t1, Ok) =>
      match compute (e_comp e) (e_n e) t1 with
      | Some t2 => Some (ev_set e t2 (e_steps e - 1))
      | None => None
      end
    end
  end.

(* observables *)
Definition ev_mask (e : env) : list bool := map (fun s => negb (known (get (e_tab e) s))) (e_expl e).
Definition ev_obs (e : env) : list Q :=
  map (fun s => if known (get (e_tab e) s) then ev_val (e_norm e) s else 0) (e_expl e).
Definition ev_gapv (e : env) : option Q := ev_gap (e_gap e) (e_n e) (e_tab e).      (* reward = - gap *)
Definition ev_all_degenerate (e : env) : bool :=
  forallb (fun s => Qeq_bool (hi (get (e_tab e) s) - lo (get (e_tab e) s)) 0) (alln (e_n e)).
Definition ev_done (e : env) : bool :=
  (match e_budget e with Some b => (Z.of_nat b <=? e_steps e)%Z | None => false end)
  || negb (existsb (fun b => b) (ev_mask e))
  || ev_all_degenerate e.
Definition ev_info (e : env) (a : nat) : option N := ev_coal e a.

(* ---------- traces ---------- *)
Inductive eop := EReset (v nv : list Q) | EStep (a : nat) | EUnstep (a : nat).
Definition ev_apply (e : env) (o : eop) : option env :=
  match o with
  | EReset v nv => ev_reset e v nv
  | EStep a => ev_step e a
  | EUnstep a => ev_unstep e a
  end.
Fixpoint ev_run (e : env) (tr : list eop) : option env :=
  match tr with
  | [] => Some e
  | o :: r => match ev_apply e o with Some e' => ev_run e' r | None => None end
  end.

(* ---------- size-aggregated wrapper (icg_gym_linear.py) ---------- *)
Definition lv_sizes (e : env) : list nat := map (size (e_n e)) (e_expl e).
(* np.bincount(sizes, weights=x): length = max size + 1 *)
Definition lv_len (e : env) : nat := S (fold_right Nat.max 0%nat (lv_sizes e)).
Definition lv_agg (e : env) (x : list Q) : list Q :=
  map (fun k => qsum (map snd (filter (fun p => Nat.eqb (fst p) k) (combine (lv_sizes e) x)))) (seq 0 (lv_len e)).
Definition lv_bq (b : bool) : Q := if b then 1 else 0.
Definition lv_mask (e : env) : list bool :=
  map (fun q => negb (Qeq_bool q 0)) (lv_agg e (map lv_bq (ev_mask e))).
Definition lv_obs (e : env) : list Q := lv_agg e (ev_obs e).
(* candidate action indices for a size: np.where((sizes == k) * mask) *)
Definition lv_candidates (e : env) (k : nat) : list nat :=
  map fst (filter (fun p => Nat.eqb (fst (snd p)) k && snd (snd p))
                  (combine (seq 0 (length (e_expl e))) (combine (lv_sizes e) (ev_mask e)))).
(* step with size k; the sampled candidate index is an oracle argument *)
Definition lv_step (e : env) (k : nat) (a : nat) : option env :=
  if (k <? e_n e)%nat && existsb (Nat.eqb a) (lv_candidates e k) then ev_step e a else None.

(* ---------- built-in solvers ---------- *)
Definition sv_valid (e : env) : list nat :=
  map fst (filter snd (combine (seq 0 (length (e_expl e))) (ev_mask e))).
(* reward after trying an action: step then unstep (the env is restored, see C08) *)
Definition sv_try (e : env) (a : nat) : option Q :=
  match ev_step e a with
  | Some e1 => match ev_gapv e1 with Some g => Some (- g) | None => None end
  | None => None
  end.
(* greedy: max (min if worst) of the tried rewards, then the FIRST action attaining it *)
Fixpoint sv_all_some {A} (l : list (option A)) : option (list A) :=
  match l with
  | [] => Some []
  | Some x :: r => match sv_all_some r with Some xs => Some (x :: xs) | None => None end
  | None :: _ => None
  end.
Definition sv_opt (worst : bool) (vals : list Q) : Q := if worst then qminl vals else qmaxl vals.
Fixpoint sv_first_eq (x : Q) (acts : list nat) (vals : list Q) : option nat :=
  match acts, vals with
  | a :: ar, y :: yr => if Qeq_bool y x then Some a else sv_first_eq x ar yr
  | _, _ => None
  end.
(* the decision given the tried rewards (used in lock-step with the implementation's own rewards) *)
Definition sv_pick (worst : bool) (acts : list nat) (vals : list Q) : option nat :=
  match vals with [] => None | _ => sv_first_eq (sv_opt worst vals) acts vals end.
Definition sv_greedy (worst : bool) (e : env) : option nat :=
  let acts := sv_valid e in
  match sv_all_some (map (sv_try e) acts) with
  | Some vals => sv_pick worst acts vals
  | None => None
  end.

(* largest: first valid action whose coalition has maximal size *)
Fixpoint sv_first_size (m : nat) (acts : list nat) (sizes : list nat) : option nat :=
  match acts, sizes with
  | a :: ar, k :: kr => if Nat.eqb k m then Some a else sv_first_size m ar kr
  | _, _ => None
  end.
Definition sv_largest (e : env) : option nat :=
  let acts := sv_valid e in
  let sizes := map (fun a => match ev_coal e a with Some s => size (e_n e) s | None => 0%nat end) acts in
  match acts with
  | [] => None
  | _ => sv_first_size (fold_right Nat.max 0%nat sizes) acts sizes
  end.

(* SAMOrder: the SAM approximation is never looser than the superadditive bounds, raising the repetition
   count never loosens it, lower bounds are antitone along inclusion, upper-bound caps (C04). *)
From ICG Require Import Prelude Bits Table Bounds FoldLemmas BoundsSpec SASound SATight SAMSpec SAMSound.

Lemma monoF_local n l1 l2 s : bounded n s ->
  (forall a, a = s \/ (size n s < size n a)%nat -> l1 a = l2 a) -> monoF n l1 s = monoF n l2 s.
Proof.
  intros Hb H. unfold monoF. f_equal. apply map_ext_in. intros T HT.
  apply in_supers_or_self in HT. destruct HT as [HbT [Hss| ->]]; apply H; auto.
  right. apply ssub_size; auto.
Qed.

Section Order.
  Variable n : nat.
  Variable K : N -> bool.
  Variable v : N -> Q.
  Variable t : table.
  Hypothesis HSA : SA n v.
  Hypothesis HMo : Mono n v.
  Hypothesis Hv0 : v 0%N == 0.
  Hypothesis HM : MinK n K.
  Hypothesis Hag : agrees n t K v.

  Let us := unknown_sorted n t.
  Let inus := in_us n K v t Hag.
  Let ItL := I_tL n K v t HSA HMo Hv0 HM Hag.
  Let tLk := tL_known n K v t Hag.
  Let frames := tL_frame n t.
  Let facts := tF_facts n K v t Hag.

  Lemma not_in_us s : K s = true -> ~ In s us.
  Proof. intros Hk Hx. apply inus in Hx. destruct Hx. congruence. Qed.
  Lemma in_us' s : bounded n s -> K s = false -> In s us.
  Proof. intros Hb Hk. apply inus. auto. Qed.

  (* upper cell: antitone in the lower column when known rows are fixed *)
  Lemma G_antitone r r' s : In s us -> lle n (L (tL n t r)) (L (tL n t r')) ->
    G n (tL n t r') s <= G n (tL n t r) s.
  Proof.
    intros Hs Hle. pose proof (proj1 (inus s) Hs) as [Hb Hk].
    pose proof (frames r) as [_ [A2 A3]]. pose proof (frames r') as [_ [A2' A3']].
    unfold G, sam_upperF.
    rewrite (filter_ext_in' (Kn (tL n t r')) (Kn (tL n t r))) by (intros; rewrite A3, A3'; reflexivity).
    rewrite (filter_ext_in' (Kn (tL n t r')) (Kn (tL n t r)) (splits n s)) by (intros; rewrite A3, A3'; reflexivity).
    apply Q.min_glb.
    - eapply Qle_trans; [apply Q.le_min_l|].
      apply qminl_glb.
      + apply map_neq_nil. rewrite (filter_ext_in' (Kn (tL n t r)) K).
        * pose proof HM as [_ [Hg _]]. apply known_supers_nonempty; auto.
        * intros T HT. apply in_supers in HT. rewrite A3. apply (HKeq n K v t Hag). tauto.
      + intros x Hx. apply in_map_iff in Hx. destruct Hx as [T [<- HT]].
        eapply Qle_trans; [apply qminl_le; apply in_map; exact HT|]. cbv beta.
        apply filter_In in HT. destruct HT as [HT HkT].
        destruct (in_supers_facts n s T Hb HT) as [HbT [_ [E [Hbd _]]]].
        rewrite A3, (HKeq n K v t Hag T HbT) in HkT.
        rewrite E, (tLk r T HbT HkT), (tLk r' T HbT HkT). pose proof (Hle _ Hbd). lra.
    - eapply Qle_trans; [apply Q.le_min_r|].
      rewrite (qminl_map_Qeq (U (tL n t r')) (U (tL n t r))); [apply Qle_refl|].
      intros a _. rewrite A2, A2'. reflexivity.
  Qed.

  (* raising the repetition count never loosens the bounds *)
  Theorem sam_run_mono_in_r r : forall s, bounded n s ->
    L (sam_run n r t) s <= L (sam_run n (S r) t) s /\ U (sam_run n (S r) t) s <= U (sam_run n r t) s.
  Proof.
    intros s Hb. rewrite !sam_run_eq.
    pose proof (facts r) as [F1 [F2 [F3 F4]]]. destruct (facts (S r)) as [F1' [F2' [F3' F4']]].
    pose proof (tL_mono_r n K v t HSA HMo Hv0 HM Hag r) as Hle.
    split; [rewrite F2, F2'; apply Hle; exact Hb|].
    destruct (K s) eqn:Hk.
    - assert (Hn : ~ In s us) by (apply not_in_us; assumption).
      unfold U. rewrite (F3 s Hn), (F3' s Hn). apply Qle_refl.
    - assert (Hin : In s us) by (apply in_us'; assumption).
      rewrite (F4 s Hin), (F4' s Hin), !Qred_correct. apply G_antitone; auto.
  Qed.

  (* never looser than the plain superadditive bounds *)
  Lemma sa_run_L s : L (sa_cached_run n t) s = L (t1 n t) s.
  Proof.
    unfold sa_cached_run.
    change (fold_left (cached_lower_step n) (unknown_sorted n t) t) with (t1 n t).
    change (cached_upper_step n) with (hi_step (fun t s => upperF n (Kn t) (L t) s)).
    destruct (hi_fold_frame (fun t s => upperF n (Kn t) (L t) s) (unknown_sorted n t) (t1 n t)) as [_ [B2 _]].
    apply B2.
  Qed.

  Theorem sam_run_tighter_than_sa r : forall s, bounded n s ->
    L (sa_cached_run n t) s <= L (sam_run n r t) s /\ U (sam_run n r t) s <= U (sa_cached_run n t) s.
  Proof.
    intros s Hb. rewrite sam_run_eq. pose proof (facts r) as [F1 [F2 [F3 F4]]].
    pose proof (ItL r) as [I1 [I2 I3]].
    assert (HLsa : forall a, bounded n a -> L (sa_cached_run n t) a <= L (tL n t r) a).
    { intros a Ha. rewrite sa_run_L. apply I3. exact Ha. }
    split; [rewrite F2; apply HLsa; exact Hb|].
    pose proof (sa_cached_run_post n t) as P.
    destruct (K s) eqn:Hk.
    - assert (Hn : ~ In s us) by (apply not_in_us; assumption).
      unfold U. rewrite (F3 s Hn). rewrite (post_frame _ _ _ P s); [apply Qle_refl|].
      rewrite (HKeq n K v t Hag s Hb), Hk. intros [_ ?]; discriminate.
    - assert (Hin : In s us) by (apply in_us'; assumption).
      assert (Hk' : Kn t s = false) by (rewrite (HKeq n K v t Hag s Hb); exact Hk).
      rewrite (F4 s Hin), (post_hi _ _ _ P s Hb Hk'), !Qred_correct.
      pose proof (frames r) as [_ [A2 A3]].
      unfold G, sam_upperF. eapply Qle_trans; [apply Q.le_min_l|].
      unfold upperF. apply qminl_glb.
      + apply map_neq_nil. rewrite (filter_ext_in' (Kn t) K).
        * pose proof HM as [_ [Hg _]]. apply known_supers_nonempty; auto.
        * intros T HT. apply in_supers in HT. apply (HKeq n K v t Hag). tauto.
      + intros x Hx. apply in_map_iff in Hx. destruct Hx as [T [<- HT]].
        assert (HT' : In T (filter (Kn (tL n t r)) (supers n s))).
        { rewrite (filter_ext_in' (Kn (tL n t r)) (Kn t)) by (intros; apply A3). exact HT. }
        eapply Qle_trans; [apply qminl_le; apply in_map; exact HT'|]. cbv beta.
        apply filter_In in HT. destruct HT as [HT HkT].
        destruct (in_supers_facts n s T Hb HT) as [HbT [_ [E [Hbd _]]]].
        rewrite (HKeq n K v t Hag T HbT) in HkT.
        assert (EsaT : L (sa_cached_run n t) T == v T).
        { unfold L. rewrite (post_frame _ _ _ P T); [apply (Hag T HbT); exact HkT|].
          rewrite (HKeq n K v t Hag T HbT), HkT. intros [_ ?]; discriminate. }
        rewrite E, (tLk r T HbT HkT), EsaT. pose proof (HLsa _ Hbd). lra.
  Qed.

  (* the table just before the last monotone-closure pass *)
  Definition tP (r : nat) : table :=
    fold_left (lo_step (lowerA n r)) us (sam_rounds n r 0 us t).

  Lemma tL_split r : tL n t r = fold_left (lo_step (monoF n)) us (tP r).
  Proof.
    unfold tL, tP. fold us. rewrite (sam_rounds_snoc n r 0 us t). simpl (0 + r)%nat. apply sam_round_eq.
  Qed.

  Lemma tL_mono_cells r s : In s us -> L (tL n t r) s = Qred (monoF n (L (tP r)) s).
  Proof.
    intros Hs. rewrite tL_split.
    apply (lo_fold_par n (monoF n) us (tP r)); auto.
    - intros l1 l2 s0 Hs0 H. apply inus in Hs0. apply monoF_local; tauto.
    - apply NoDup_unknown_sorted.
    - apply szsorted_by_size.
  Qed.

  Lemma tL_other_cells r s : ~ In s us -> L (tL n t r) s = L (tP r) s.
  Proof.
    intros Hs. rewrite tL_split. destruct (lo_fold_frame (monoF n) us (tP r)) as [A1 _]. apply A1. exact Hs.
  Qed.

  (* lower bounds are monotone non-increasing along inclusion *)
  Theorem sam_run_lower_antitone r a b :
    bounded n a -> bounded n b -> sub a b = true -> L (sam_run n r t) b <= L (sam_run n r t) a.
  Proof.
    intros Ha Hb Hab. rewrite sam_run_eq. pose proof (facts r) as [_ [F2 _]]. rewrite !F2.
    pose proof (ItL r) as [I1 _].
    destruct (K a) eqn:Hka; destruct (K b) eqn:Hkb.
    - rewrite (tLk r a Ha Hka), (tLk r b Hb Hkb). apply HMo; auto.
    - rewrite (tLk r a Ha Hka). eapply Qle_trans; [apply I1; exact Hb| apply HMo; auto].
    - assert (Hina : In a us) by (apply in_us'; assumption).
      assert (Hnb : ~ In b us) by (apply not_in_us; assumption).
      rewrite (tL_mono_cells r a Hina), Qred_correct, (tL_other_cells r b Hnb).
      unfold monoF. apply qmaxl_ge. apply in_map. apply in_supers_or_self. split; [exact Hb|].
      destruct (N.eq_dec b a) as [->|Hne]; [right; reflexivity| left].
      unfold ssub. rewrite Hab. simpl. apply negb_true_iff. apply N.eqb_neq. congruence.
    - assert (Hina : In a us) by (apply in_us'; assumption). assert (Hinb : In b us) by (apply in_us'; assumption).
      rewrite (tL_mono_cells r a Hina), (tL_mono_cells r b Hinb), !Qred_correct.
      unfold monoF. apply qmaxl_lub.
      + apply map_neq_nil. intro E. assert (Hin : In b (supers_or_self n b)) by (apply in_supers_or_self; auto).
        rewrite E in Hin. destruct Hin.
      + intros x Hx. apply in_map_iff in Hx. destruct Hx as [T [<- HT]].
        apply qmaxl_ge. apply in_map. apply in_supers_or_self in HT. destruct HT as [HbT HT].
        apply in_supers_or_self. split; [exact HbT|].
        assert (HaT : sub a T = true).
        { destruct HT as [Hss| ->]; [eapply sub_trans; [exact Hab| apply ssub_sub; exact Hss]| exact Hab]. }
        destruct (N.eq_dec T a) as [->|Hne]; [right; reflexivity| left].
        unfold ssub. rewrite HaT. simpl. apply negb_true_iff. apply N.eqb_neq. congruence.
  Qed.

  (* no upper bound exceeds the value of a known sub-coalition, nor v(T) - lower(T \ S) for a known superset T *)
  Theorem sam_run_upper_caps r s : bounded n s -> K s = false ->
    (forall a, bounded n a -> K a = true -> ssub a s = true -> a <> 0%N -> U (sam_run n r t) s <= v a) /\
    (forall T, bounded n T -> K T = true -> ssub s T = true ->
       U (sam_run n r t) s <= v T - L (sam_run n r t) (N.ldiff T s)).
  Proof.
    intros Hb Hk. assert (Hin : In s us) by (apply in_us'; assumption).
    rewrite sam_run_eq. pose proof (facts r) as [_ [F2 [_ F4]]]. pose proof (frames r) as [_ [A2 A3]].
    split.
    - intros a Ha Hka Hss Hne. rewrite (F4 s Hin), Qred_correct. unfold G, sam_upperF.
      eapply Qle_trans; [apply Q.le_min_r|].
      eapply Qle_trans; [apply qminl_le; apply in_map; apply filter_In; split;
                          [apply in_splits; eauto| rewrite A3, (HKeq n K v t Hag a Ha); exact Hka]|].
      rewrite A2. destruct (Hag a Ha) as [_ Hv]. destruct (Hv Hka) as [_ Hu]. rewrite Hu. apply Qle_refl.
    - intros T HbT HkT Hss. rewrite (F4 s Hin), Qred_correct. unfold G, sam_upperF.
      eapply Qle_trans; [apply Q.le_min_l|].
      eapply Qle_trans; [apply qminl_le; apply in_map; apply filter_In; split;
                          [apply in_supers; eauto| rewrite A3, (HKeq n K v t Hag T HbT); exact HkT]|].
      cbv beta. assert (HT : In T (supers n s)) by (apply in_supers; auto).
      destruct (in_supers_facts n s T Hb HT) as [_ [_ [E _]]].
      rewrite E, (tLk r T HbT HkT), F2. apply Qle_refl.
  Qed.
End Order.

(* Store: executable model of incomplete_cooperative/run/save.py, value level.

   - JSON values [st_jv] (numbers are exact rationals; NaN is its own literal, as json.dump writes it)
   - numpy arrays [st_ndarray] = (shape, flat row-major data with NaN), [st_tolist] = ndarray.tolist(),
     [st_of_list] = np.array(nested list) shape inference (ragged nesting raises -> None)
   - Output.metadata / Output.json / Output.from_json as [st_metadata_jv], [st_entry_json], [st_from_json]
   - save_json at the level of the parsed dictionary: [st_save] = insert-if-absent at the end
     (Python dicts keep insertion order; json.dump writes them in that order).

   Strings are lists of UTF-8 bytes (N).  The JSON *text* codec (json.dump / json.loads, float repr) is not
   modelled here: the store is the parsed dictionary.  Python exceptions are [None]. *)
From Coq Require Import List NArith QArith Bool Arith.
Import ListNotations.

Definition st_str := list N.

Inductive st_jv :=
| St_JNum (q : Q)
| St_JNaN
| St_JStr (s : st_str)
| St_JBool (b : bool)
| St_JNull
| St_JList (l : list st_jv)
| St_JObj (kvs : list (st_str * st_jv)).

(* ---------- strings / association lists (Python dict with str keys, insertion ordered) ---------- *)
Fixpoint st_str_eqb (a b : st_str) : bool :=
  match a, b with
  | [], [] => true
  | x :: a', y :: b' => N.eqb x y && st_str_eqb a' b'
  | _, _ => false
  end.

Fixpoint st_lookup {A} (k : st_str) (l : list (st_str * A)) : option A :=
  match l with
  | [] => None
  | (k', v) :: r => if st_str_eqb k k' then Some v else st_lookup k r
  end.

Definition st_mem {A} (k : st_str) (l : list (st_str * A)) : bool :=
  match st_lookup k l with Some _ => true | None => false end.

(* del d[k] *)
Fixpoint st_remove {A} (k : st_str) (l : list (st_str * A)) : list (st_str * A) :=
  match l with
  | [] => []
  | (k', v) :: r => if st_str_eqb k k' then st_remove k r else (k', v) :: st_remove k r
  end.

(* d[k] = v : in place when the key exists, appended otherwise *)
Fixpoint st_set_key {A} (k : st_str) (v : A) (l : list (st_str * A)) : list (st_str * A) :=
  match l with
  | [] => [(k, v)]
  | (k', v') :: r => if st_str_eqb k k' then (k', v) :: r else (k', v') :: st_set_key k v r
  end.

Fixpoint st_prefixb (p s : st_str) : bool :=
  match p, s with
  | [], _ => true
  | x :: p', y :: s' => N.eqb x y && st_prefixb p' s'
  | _ :: _, [] => false
  end.

(* p in s *)
Fixpoint st_contains (p s : st_str) : bool :=
  st_prefixb p s || match s with [] => false | _ :: s' => st_contains p s' end.

(* ---------- arrays ---------- *)
Inductive st_cell := St_Num (q : Q) | St_NaN.

Record st_ndarray := st_mkarr { st_shape : list nat; st_data : list st_cell }.

Definition st_prod (l : list nat) : nat := fold_right Nat.mul 1%nat l.

Definition st_wf (a : st_ndarray) : Prop := length (st_data a) = st_prod (st_shape a).

Fixpoint st_chunks {A} (d m : nat) (l : list A) : list (list A) :=
  match d with
  | O => []
  | S d' => firstn m l :: st_chunks d' m (skipn m l)
  end.

Definition st_leaf (c : st_cell) : st_jv :=
  match c with St_Num q => St_JNum q | St_NaN => St_JNaN end.

(* ndarray.tolist(): a 0-d array gives the scalar, a d-dimensional one d levels of lists *)
Fixpoint st_tolist_aux (sh : list nat) (data : list st_cell) : st_jv :=
  match sh with
  | [] => match data with c :: _ => st_leaf c | [] => St_JNull end
  | d :: ds => St_JList (map (st_tolist_aux ds) (st_chunks d (st_prod ds) data))
  end.

Definition st_tolist (a : st_ndarray) : st_jv := st_tolist_aux (st_shape a) (st_data a).

Fixpoint st_shape_eqb (a b : list nat) : bool :=
  match a, b with
  | [], [] => true
  | x :: a', y :: b' => Nat.eqb x y && st_shape_eqb a' b'
  | _, _ => false
  end.

Fixpoint st_sequence {A} (l : list (option A)) : option (list A) :=
  match l with
  | [] => Some []
  | None :: _ => None
  | Some x :: r => match st_sequence r with Some r' => Some (x :: r') | None => None end
  end.

(* np.array([a_1, ..., a_k]) for already-converted items: all shapes must agree (else ValueError:
   inhomogeneous shape); the empty list is a 1-d array of length 0 *)
Definition st_stack (l : list (option st_ndarray)) : option st_ndarray :=
  match st_sequence l with
  | None => None
  | Some [] => Some (st_mkarr [O] [])
  | Some (a :: r) =>
    if forallb (fun b => st_shape_eqb (st_shape a) (st_shape b)) r
    then Some (st_mkarr (S (length r) :: st_shape a) (concat (map st_data (a :: r))))
    else None
  end.

(* np.array(nested list) for numeric leaves; non-numeric leaves are outside the modelled domain (None) *)
Fixpoint st_of_list (j : st_jv) : option st_ndarray :=
  match j with
  | St_JNum q => Some (st_mkarr [] [St_Num q])
  | St_JNaN => Some (st_mkarr [] [St_NaN])
  | St_JList l => st_stack (map st_of_list l)
  | _ => None
  end.

(* ---------- metadata ---------- *)
(* values found in an argparse Namespace: JSON-native ones, tuples (json writes them as lists),
   Path (json_serializer -> str(path)) and anything else (json_serializer -> repr(obj)) *)
Inductive st_meta :=
| St_MNum (q : Q)
| St_MNaN
| St_MStr (s : st_str)
| St_MBool (b : bool)
| St_MNull
| St_MList (l : list st_meta)                 (* list or tuple *)
| St_MDict (kvs : list (st_str * st_meta))    (* dict with str keys *)
| St_MPath (s : st_str)                       (* s = str(path) *)
| St_MRepr (s : st_str).                      (* s = repr(obj) *)

(* what json.dump(..., default=json_serializer) makes of a value, read back by json.loads *)
Fixpoint st_stringify (m : st_meta) : st_jv :=
  match m with
  | St_MNum q => St_JNum q
  | St_MNaN => St_JNaN
  | St_MStr s => St_JStr s
  | St_MBool b => St_JBool b
  | St_MNull => St_JNull
  | St_MList l => St_JList (map st_stringify l)
  | St_MDict kvs => St_JObj (map (fun kv : st_str * st_meta => let (k, v) := kv in (k, st_stringify v)) kvs)
  | St_MPath s => St_JStr s
  | St_MRepr s => St_JStr s
  end.

Definition st_stringify_kvs (kvs : list (st_str * st_meta)) : list (st_str * st_jv) :=
  map (fun kv : st_str * st_meta => let (k, v) := kv in (k, st_stringify v)) kvs.

Definition st_s_func : st_str := [102; 117; 110; 99]%N.
Definition st_s_eval : st_str := [101; 118; 97; 108]%N.
Definition st_s_learn : st_str := [108; 101; 97; 114; 110]%N.
Definition st_s_run_type : st_str := [114; 117; 110; 95; 116; 121; 112; 101]%N.
Definition st_s_data : st_str := [100; 97; 116; 97]%N.
Definition st_s_actions : st_str := [97; 99; 116; 105; 111; 110; 115]%N.
Definition st_s_metadata : st_str := [109; 101; 116; 97; 100; 97; 116; 97]%N.

(* the characters of repr(func) that matter for the test  "eval" in repr(func) :
   for a str the repr is the text between quotes (escapes cannot remove an "eval"); for any other object the
   harness hands over repr(obj) as St_MRepr, which st_stringify turns into the same St_JStr *)
Definition st_repr_chars (v : st_jv) : st_str :=
  match v with St_JStr s => s | _ => [] end.

(* Output.metadata on a namespace whose values are already JSON values:
   args_dict = vars(ns).copy(); func = args_dict.pop("func")   (KeyError -> None)
   args_dict["run_type"] = "eval" if "eval" in repr(func) else "learn" *)
Definition st_metadata_jv (args : list (st_str * st_jv)) : option (list (st_str * st_jv)) :=
  match st_lookup st_s_func args with
  | None => None
  | Some f =>
    let rt := if st_contains st_s_eval (st_repr_chars f) then st_s_eval else st_s_learn in
    Some (st_set_key st_s_run_type (St_JStr rt) (st_remove st_s_func args))
  end.

(* Output.metadata followed by the stringification json.dump applies (the two commute: pop / key assignment
   do not look at the other values) *)
Definition st_metadata (args : list (st_str * st_meta)) : option (list (st_str * st_jv)) :=
  st_metadata_jv (st_stringify_kvs args).

(* ---------- Output.json / Output.from_json ---------- *)
Record st_output := st_mkout {
  st_o_data : st_ndarray;
  st_o_actions : st_ndarray;
  st_o_args : list (st_str * st_meta) }.

Record st_loaded := st_mkloaded {
  st_l_data : st_ndarray;
  st_l_actions : st_ndarray;
  st_l_args : list (st_str * st_jv) }.     (* vars(parsed_args) of the loaded Output *)

Definition st_entry_json (o : st_output) : option st_jv :=
  match st_metadata (st_o_args o) with
  | None => None
  | Some m => Some (St_JObj [(st_s_data, st_tolist (st_o_data o));
                             (st_s_actions, st_tolist (st_o_actions o));
                             (st_s_metadata, St_JObj m)])
  end.

(* data["metadata"]["func"] = data["metadata"]["run_type"]; Namespace( **metadata ); np.array(data), np.array(actions);
   cls( **data ) needs exactly the three keys *)
Definition st_from_json (j : st_jv) : option st_loaded :=
  match j with
  | St_JObj kvs =>
    match st_lookup st_s_metadata kvs, st_lookup st_s_data kvs, st_lookup st_s_actions kvs with
    | Some (St_JObj m), Some d, Some a =>
      match st_lookup st_s_run_type m with
      | None => None
      | Some rt =>
        match st_of_list d, st_of_list a with
        | Some da, Some aa =>
          if Nat.eqb (length kvs) 3 then Some (st_mkloaded da aa (st_set_key st_s_func rt m)) else None
        | _, _ => None
        end
      end
    | _, _, _ => None
    end
  | _ => None
  end.

(* ---------- the store: data.json as a parsed dictionary ---------- *)
(* save_json:  data = loads(file) if exists else {};  if name in data: return;  data.update({name: entry}); dump *)
Definition st_save {A} (store : list (st_str * A)) (name : st_str) (e : A) : list (st_str * A) :=
  if st_mem name store then store else store ++ [(name, e)].

Definition st_run_from {A} (store : list (st_str * A)) (hist : list (st_str * A)) : list (st_str * A) :=
  fold_left (fun s ne => st_save s (fst ne) (snd ne)) hist store.

Definition st_run {A} (hist : list (st_str * A)) : list (st_str * A) := st_run_from [] hist.

(* the first entry ever saved under a name *)
Definition st_first {A} (name : st_str) (hist : list (st_str * A)) : option A := st_lookup name hist.

(* the whole pipeline for a history of Outputs: every save stores Output.json *)
Fixpoint st_run_outputs (store : list (st_str * st_jv)) (hist : list (st_str * st_output))
  : option (list (st_str * st_jv)) :=
  match hist with
  | [] => Some store
  | (name, o) :: r =>
    if st_mem name store then st_run_outputs store r       (* returns before output.json is evaluated *)
    else match st_entry_json o with
         | None => None
         | Some j => st_run_outputs (store ++ [(name, j)]) r
         end
  end.

(* GreedyInst: the expected-greedy search instantiated with the search value of Search.v (gap of the game in which the
   starting knowledge + the sequence is known), one column entry per sampled game. *)
From ICG Require Import Prelude Bits Table Bounds GameOps Shapley Exploit Norms Env Search Greedy.

Definition eg_value (c : computer) (g : gapfn) (n : nat) (games : list (list Q)) (known : list N) (seq : list N) : list Q :=
  map (fun v => match sr_value c g n init_table v known seq with Some x => x | None => 0 end) games.

Definition eg_search (c : computer) (g : gapfn) (n : nat) (games : list (list Q)) (known : list N)
           (max_steps : nat) (possible : list N) : option (list N * list (list Q)) :=
  eg_run (eg_value c g n games known) max_steps possible.

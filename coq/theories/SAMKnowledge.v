(* SAMKnowledge: table-level statements of C04 and the "function of knowledge" theorems (C08) for the
   approximate SAM computer, for every repetition count and games of any class. *)
From ICG Require Import Prelude Bits Table Bounds GameOps FoldLemmas BoundsSpec SASound SAEquiv SATight SAKnowledge SAMSpec SAMSound SAMOrder.

(* ---------- C04 at the level of [compute] ---------- *)
Theorem sam_tighter_than_sa n r K v t ts tsa :
  SA n v -> Mono n v -> v 0%N == 0 -> MinK n K -> agrees n t K v ->
  compute_sam n r t = Some ts -> compute_sa_cached n t = Some tsa ->
  forall s, bounded n s -> L tsa s <= L ts s /\ U ts s <= U tsa s.
Proof.
  intros HSA HMo Hv0 HM Hag H1 H2. unfold compute_sam in H1. unfold compute_sa_cached in H2.
  destruct (sam_ok n t); [|discriminate]. destruct (cached_ok n t); [|discriminate].
  injection H1 as <-. injection H2 as <-. eapply sam_run_tighter_than_sa; eauto.
Qed.

Theorem sam_mono_in_r n r K v t ta tb :
  SA n v -> Mono n v -> v 0%N == 0 -> MinK n K -> agrees n t K v ->
  compute_sam n r t = Some ta -> compute_sam n (S r) t = Some tb ->
  forall s, bounded n s -> L ta s <= L tb s /\ U tb s <= U ta s.
Proof.
  intros HSA HMo Hv0 HM Hag H1 H2. unfold compute_sam in H1, H2.
  destruct (sam_ok n t); [|discriminate]. injection H1 as <-. injection H2 as <-.
  eapply sam_run_mono_in_r; eauto.
Qed.

Theorem sam_lower_antitone n r K v t t' a b :
  SA n v -> Mono n v -> v 0%N == 0 -> MinK n K -> agrees n t K v -> compute_sam n r t = Some t' ->
  bounded n a -> bounded n b -> sub a b = true -> L t' b <= L t' a.
Proof.
  intros HSA HMo Hv0 HM Hag H1. unfold compute_sam in H1. destruct (sam_ok n t); [|discriminate].
  injection H1 as <-. eapply sam_run_lower_antitone; eauto.
Qed.

Theorem sam_upper_caps n r K v t t' s :
  SA n v -> Mono n v -> v 0%N == 0 -> MinK n K -> agrees n t K v -> compute_sam n r t = Some t' ->
  bounded n s -> K s = false ->
  (forall a, bounded n a -> K a = true -> ssub a s = true -> a <> 0%N -> U t' s <= v a) /\
  (forall T, bounded n T -> K T = true -> ssub s T = true -> U t' s <= v T - L t' (N.ldiff T s)).
Proof.
  intros HSA HMo Hv0 HM Hag H1. unfold compute_sam in H1. destruct (sam_ok n t); [|discriminate].
  injection H1 as <-. eapply sam_run_upper_caps; eauto.
Qed.

(* ---------- function of knowledge ---------- *)
(* two tables in lock-step during the lower phase *)
Definition Rel (n : nat) (ta tb : table) : Prop :=
  forall s, bounded n s -> Kn ta s = Kn tb s /\ L ta s = L tb s /\ (Kn ta s = true -> U ta s = U tb s).

Definition blocal (n : nat) (F : (N -> Q) -> N -> Q) : Prop :=
  forall l1 l2 s, bounded n s -> (forall a, bounded n a -> l1 a = l2 a) -> F l1 s = F l2 s.

Lemma Rel_step n F ta tb s : blocal n F -> bounded n s -> Rel n ta tb -> Rel n (lo_step F ta s) (lo_step F tb s).
Proof.
  intros HF Hb HR a Ha. destruct (HR a Ha) as [R1 [R2 R3]].
  rewrite !lo_step_Kn, !lo_step_L, !lo_step_U. split; [exact R1|]. split; [|exact R3].
  destruct (N.eqb_spec a s) as [->|]; [|exact R2]. f_equal. apply HF; auto. intros c Hc. apply (HR c Hc).
Qed.

Lemma Rel_fold n F us ta tb : blocal n F -> (forall s, In s us -> bounded n s) -> Rel n ta tb ->
  Rel n (fold_left (lo_step F) us ta) (fold_left (lo_step F) us tb).
Proof.
  intros HF. revert ta tb. induction us as [|x us IH]; intros ta tb Hb HR; simpl; [exact HR|].
  apply IH; [intros s Hs; apply Hb; right; exact Hs|]. apply Rel_step; auto. apply Hb. left. reflexivity.
Qed.

Lemma blocal_lowerF n : blocal n (lowerF n).
Proof. intros l1 l2 s Hb H. apply lowerF_local; auto. Qed.

Lemma blocal_lowerF_self n : blocal n (lowerF_self n).
Proof.
  intros l1 l2 s Hb H. unfold lowerF_self. f_equal. apply map_ext_in. intros a Ha.
  apply in_sam_splits1 in Ha. destruct Ha as [Hba [_ Hc]].
  rewrite (H a Hba). f_equal. apply H.
  destruct Hc as [Hss| ->]; [|rewrite lxor_self_0; apply bounded_0].
  rewrite (lxor_ldiff a s (ssub_sub _ _ Hss)). apply bounded_ldiff. exact Hb.
Qed.

Lemma blocal_monoF n : blocal n (monoF n).
Proof.
  intros l1 l2 s Hb H. unfold monoF. f_equal. apply map_ext_in. intros T HT.
  apply in_supers_or_self in HT. apply H. tauto.
Qed.

Lemma blocal_lowerA n i : blocal n (lowerA n i).
Proof. destruct i; [apply blocal_lowerF| apply blocal_lowerF_self]. Qed.

Lemma Rel_round n i us ta tb : (forall s, In s us -> bounded n s) -> Rel n ta tb ->
  Rel n (sam_round n i us ta) (sam_round n i us tb).
Proof.
  intros Hb HR. rewrite !sam_round_eq.
  apply Rel_fold; [apply blocal_monoF| exact Hb|]. apply Rel_fold; [apply blocal_lowerA| exact Hb| exact HR].
Qed.

Lemma Rel_rounds n k i us ta tb : (forall s, In s us -> bounded n s) -> Rel n ta tb ->
  Rel n (sam_rounds n k i us ta) (sam_rounds n k i us tb).
Proof.
  intros Hb. revert i ta tb. induction k as [|k IH]; intros i ta tb HR; simpl; [exact HR|].
  apply IH. apply Rel_round; auto.
Qed.

Lemma unknown_sorted_knowledge n t1 t2 : same_known_part n t1 t2 -> unknown_sorted n t1 = unknown_sorted n t2.
Proof.
  intros H. unfold unknown_sorted, unknown_ids. f_equal. apply filter_ext_in'. intros s Hs. apply in_alln in Hs.
  destruct (H s Hs) as [E _]. unfold Kn in E. rewrite E. reflexivity.
Qed.

Lemma sam_ok_knowledge n t1 t2 : same_known_part n t1 t2 -> sam_ok n t1 = sam_ok n t2.
Proof.
  intros H. unfold sam_ok.
  destruct (H 0%N (bounded_0 n)) as [E0 _]. destruct (H (grand n) (bounded_grand n)) as [Eg _].
  unfold Kn in E0, Eg. rewrite E0, Eg. f_equal.
  assert (E : unknown_ids n t1 = unknown_ids n t2).
  { unfold unknown_ids. apply filter_ext_in'. intros s Hs. apply in_alln in Hs.
    destruct (H s Hs) as [E _]. unfold Kn in E. rewrite E. reflexivity. }
  rewrite E. apply forallb_ext_in'. intros s _. f_equal. f_equal. unfold known_splits.
  apply filter_ext_in'. intros a Ha. apply in_splits in Ha. destruct Ha as [Hb _].
  destruct (H a Hb) as [Ea _]. exact Ea.
Qed.

(* after pass A of round 0 the lower column is determined by the knowledge *)
Lemma Rel_after_first_pass n ta tb : same_known_part n ta tb ->
  Rel n (fold_left (lo_step (lowerF n)) (unknown_sorted n ta) ta)
        (fold_left (lo_step (lowerF n)) (unknown_sorted n tb) tb).
Proof.
  intros H. set (ua := unknown_sorted n ta). set (ub := unknown_sorted n tb).
  destruct (lo_fold_frame (lowerF n) ua ta) as [A1 [A2 A3]].
  destruct (lo_fold_frame (lowerF n) ub tb) as [B1 [B2 B3]].
  set (ra := fold_left (lo_step (lowerF n)) ua ta) in *. set (rb := fold_left (lo_step (lowerF n)) ub tb) in *.
  assert (Sa : forall s, In s ua -> L ra s = Qred (lowerF n (L ra) s)).
  { apply (lo_fold_seq n (lowerF n)).
    - intros l1 l2 s Hs Hl. apply in_unknown_sorted in Hs. apply lowerF_local; [tauto|]. intros a _ Ha. apply Hl. exact Ha.
    - apply NoDup_unknown_sorted.
    - apply szsorted_by_size. }
  assert (Sb : forall s, In s ub -> L rb s = Qred (lowerF n (L rb) s)).
  { apply (lo_fold_seq n (lowerF n)).
    - intros l1 l2 s Hs Hl. apply in_unknown_sorted in Hs. apply lowerF_local; [tauto|]. intros a _ Ha. apply Hl. exact Ha.
    - apply NoDup_unknown_sorted.
    - apply szsorted_by_size. }
  assert (HL : forall s, bounded n s -> L ra s = L rb s).
  { apply (fix_unique n (lowerF n) (bounded n) (Kn ta)).
    - intros l1 l2 s Hb Hl. apply lowerF_local; auto.
    - intros s Hb Hk. destruct (H s Hb) as [E Hr].
      rewrite A1, B1.
      + unfold L. rewrite Hr by exact Hk. reflexivity.
      + unfold ub. rewrite in_unknown_sorted. intros [_ ?]. congruence.
      + unfold ua. rewrite in_unknown_sorted. intros [_ ?]. congruence.
    - intros s Hb Hk. apply Sa. unfold ua. apply in_unknown_sorted. auto.
    - intros s Hb Hk. destruct (H s Hb) as [E _]. apply Sb. unfold ub. apply in_unknown_sorted. split; auto. congruence. }
  intros s Hb. destruct (H s Hb) as [E Hr]. rewrite A3, B3, A2, B2.
  split; [exact E|]. split; [apply HL; exact Hb|]. intros Hk. unfold U. rewrite Hr by exact Hk. reflexivity.
Qed.

Theorem sam_run_knowledge n r t1 t2 :
  same_known_part n t1 t2 -> teqn n (sam_run n r t1) (sam_run n r t2).
Proof.
  intros H. unfold sam_run.
  rewrite <- (unknown_sorted_knowledge n t1 t2 H).
  set (us := unknown_sorted n t1).
  assert (Hbus : forall s, In s us -> bounded n s) by (intros s Hs; apply in_unknown_sorted in Hs; tauto).
  (* lower phase in lock-step *)
  assert (HR : Rel n (sam_rounds n (S r) 0 us t1) (sam_rounds n (S r) 0 us t2)).
  { simpl. apply Rel_rounds; auto. rewrite !sam_round_eq. apply Rel_fold; [apply blocal_monoF| exact Hbus|].
    simpl lowerA. pose proof (Rel_after_first_pass n t1 t2 H) as P.
    rewrite <- (unknown_sorted_knowledge n t1 t2 H) in P. exact P. }
  set (a := sam_rounds n (S r) 0 us t1) in *. set (b := sam_rounds n (S r) 0 us t2) in *.
  change (fold_left (sam_upper_step n) us a) with (fold_left (hi_step (G n)) us a).
  change (fold_left (sam_upper_step n) us b) with (fold_left (hi_step (G n)) us b).
  destruct (hi_fold_frame (G n) us a) as [A1 [A2 A3]]. destruct (hi_fold_frame (G n) us b) as [B1 [B2 B3]].
  destruct (sam_rounds_frame n (S r) 0 us t1) as [C1 [C2 C3]]. fold a in C1, C2, C3.
  destruct (sam_rounds_frame n (S r) 0 us t2) as [D1 [D2 D3]]. fold b in D1, D2, D3.
  assert (Glocal : forall base ta s,
            (forall x, L ta x = L base x /\ Kn ta x = Kn base x /\ (~ In x us -> U ta x = U base x)) ->
            (forall x, Kn base x = true -> ~ In x us \/ ~ bounded n x) ->
            G n ta s = G n base s).
  { intros base ta s Hx Hkn. unfold G, sam_upperF.
    rewrite (filter_ext_in' (Kn ta) (Kn base)) by (intros x _; apply (Hx x)).
    rewrite (filter_ext_in' (Kn ta) (Kn base) (splits n s)) by (intros x _; apply (Hx x)).
    f_equal.
    - f_equal. apply map_ext. intros T. destruct (Hx T) as [E1 _]. destruct (Hx (N.lxor s T)) as [E2 _]. rewrite E1, E2. reflexivity.
    - f_equal. apply map_ext_in. intros x Hin. apply filter_In in Hin. destruct Hin as [Hin Hk].
      apply (Hx x). apply in_splits in Hin. destruct (Hkn x Hk) as [?|Hnb]; [assumption| tauto]. }
  assert (Knus : forall base, (forall x, bounded n x -> Kn base x = Kn t1 x) ->
                 forall x, Kn base x = true -> ~ In x us \/ ~ bounded n x).
  { intros base Hbase x Hk. destruct (in_dec N.eq_dec x (alln n)) as [Hin|Hnin].
    - apply in_alln in Hin. left. unfold us. rewrite in_unknown_sorted. intros [_ Hf].
      rewrite (Hbase x Hin) in Hk. congruence.
    - right. intro Hbx. apply Hnin. apply in_alln. exact Hbx. }
  assert (Ua : forall s, In s us -> U (fold_left (hi_step (G n)) us a) s = Qred (G n a s)).
  { apply (hi_fold_par (G n) us a); [|apply NoDup_unknown_sorted]. intros ta s Hx. apply Glocal; auto.
    apply Knus. intros x _. apply C3. }
  assert (Ub : forall s, In s us -> U (fold_left (hi_step (G n)) us b) s = Qred (G n b s)).
  { apply (hi_fold_par (G n) us b); [|apply NoDup_unknown_sorted]. intros ta s Hx. apply Glocal; auto.
    apply Knus. intros x Hbx. rewrite D3. symmetry. apply (H x Hbx). }
  intros s Hb. destruct (HR s Hb) as [R1 [R2 R3]]. destruct (H s Hb) as [E Hr].
  destruct (Kn t1 s) eqn:Hk.
  - assert (Hn : ~ In s us) by (unfold us; rewrite in_unknown_sorted; intros [_ ?]; congruence).
    apply get_eq.
    + rewrite A3, B3. exact R1.
    + rewrite A2, B2. exact R2.
    + rewrite A1, B1 by exact Hn. apply R3. rewrite C3. exact Hk.
  - assert (Hin : In s us) by (unfold us; apply in_unknown_sorted; auto).
    apply get_eq.
    + rewrite A3, B3. exact R1.
    + rewrite A2, B2. exact R2.
    + rewrite (Ua s Hin), (Ub s Hin). f_equal. unfold G, sam_upperF.
      assert (EK : forall x, bounded n x -> Kn a x = Kn b x) by (intros x Hx; apply (HR x Hx)).
      rewrite (filter_ext_in' (Kn a) (Kn b)) by (intros x Hx; apply in_supers in Hx; apply EK; tauto).
      rewrite (filter_ext_in' (Kn a) (Kn b) (splits n s)) by (intros x Hx; apply in_splits in Hx; apply EK; tauto).
      f_equal.
      * f_equal. apply map_ext_in. intros T HT. apply filter_In in HT. destruct HT as [HT _].
        destruct (in_supers_facts n s T Hb HT) as [HbT [_ [E3 [Hbd _]]]].
        destruct (HR T HbT) as [_ [E1 _]]. rewrite E3. destruct (HR _ Hbd) as [_ [E2 _]]. rewrite E1, E2. reflexivity.
      * f_equal. apply map_ext_in. intros x Hx. apply filter_In in Hx. destruct Hx as [Hx Hkx].
        apply in_splits in Hx. destruct Hx as [Hbx _]. destruct (HR x Hbx) as [Ex [_ Eu]]. apply Eu. congruence.
Qed.

Lemma sam_run_frame n r t :
  (forall s, Kn (sam_run n r t) s = Kn t s) /\
  (forall s, ~ In s (unknown_sorted n t) -> get (sam_run n r t) s = get t s).
Proof.
  unfold sam_run. set (us := unknown_sorted n t). set (a := sam_rounds n (S r) 0 us t).
  change (fold_left (sam_upper_step n) us a) with (fold_left (hi_step (G n)) us a).
  destruct (hi_fold_frame (G n) us a) as [A1 [A2 A3]].
  destruct (sam_rounds_frame n (S r) 0 us t) as [C1 [C2 C3]]. fold a in C1, C2, C3.
  split.
  - intros s. rewrite A3, C3. reflexivity.
  - intros s Hs. apply get_eq.
    + rewrite A3, C3. reflexivity.
    + rewrite A2, C1 by exact Hs. reflexivity.
    + rewrite A1, C2 by exact Hs. reflexivity.
Qed.

(* ---------- C08 for every registered computer ---------- *)
Theorem compute_function_of_knowledge (c : computer) n t1 t2 :
  same_known_part n t1 t2 -> oteqn n (compute c n t1) (compute c n t2).
Proof.
  destruct c as [| |r]; intros H.
  - apply sa_function_of_knowledge; auto.
  - apply sa_function_of_knowledge; auto.
  - simpl. unfold compute_sam. rewrite (sam_ok_knowledge n t1 t2 H).
    destruct (sam_ok n t2); simpl; [apply sam_run_knowledge; exact H| exact Logic.I].
Qed.

Lemma compute_same_known (c : computer) n t t' : compute c n t = Some t' -> same_known_part n t t'.
Proof.
  destruct c as [| |r]; intros Hc.
  - apply (sa_compute_same_known CRef n t t' (or_introl eq_refl) Hc).
  - apply (sa_compute_same_known CCached n t t' (or_intror eq_refl) Hc).
  - simpl in Hc. unfold compute_sam in Hc. destruct (sam_ok n t); [|discriminate]. injection Hc as <-.
    destruct (sam_run_frame n r t) as [F1 F2]. intros s Hb. split; [symmetry; apply F1|].
    intros Hk. symmetry. apply F2. rewrite in_unknown_sorted. intros [_ ?]. congruence.
Qed.

Theorem compute_idempotent (c : computer) n t t' :
  compute c n t = Some t' -> oteqn n (compute c n t') (Some t').
Proof.
  intros H.
  pose proof (compute_function_of_knowledge c n t' t
                (same_known_part_sym _ _ _ (compute_same_known c n t t' H))) as E.
  rewrite H in E. exact E.
Qed.

Theorem reveal_unreveal_undo (c : computer) n t s x t1 :
  fresh c n t -> bounded n s -> Kn t s = false ->
  compute c n (set_value t s x) = Some t1 ->
  oteqn n (compute c n (unset_value t1 s)) (Some t).
Proof.
  intros Hf Hb Hk H1.
  assert (HS : same_known_part n (unset_value t1 s) t).
  { pose proof (compute_same_known c n _ t1 H1) as S1.
    intros a Ha. unfold unset_value, Kn. rewrite get_set.
    destruct (N.eqb_spec a s) as [->|Hne].
    - simpl. split; [symmetry; exact Hk| discriminate].
    - destruct (S1 a Ha) as [E Hr]. unfold set_value, Kn in E, Hr. rewrite gso in E, Hr by exact Hne.
      split; [symmetry; exact E|]. intros Hka. symmetry. apply Hr. unfold Kn in E. congruence. }
  pose proof (compute_function_of_knowledge c n _ t HS) as E.
  unfold fresh in Hf. destruct (compute c n t) as [t0|]; [|contradiction].
  destruct (compute c n (unset_value t1 s)) as [t2|]; [|contradiction].
  simpl in *. intros a Ha. rewrite (E a Ha). apply Hf. exact Ha.
Qed.

Corollary histories_confluent (c : computer) n ops1 ops2 :
  same_known_part n (run n ops1 init_table) (run n ops2 init_table) ->
  oteqn n (compute c n (run n ops1 init_table)) (compute c n (run n ops2 init_table)).
Proof. apply compute_function_of_knowledge. Qed.

(* every state produced by [compute] is fresh *)
Lemma computed_is_fresh (c : computer) n t t' : compute c n t = Some t' -> fresh c n t'.
Proof. apply compute_idempotent. Qed.

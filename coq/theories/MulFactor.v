(* MulFactor: executable model of incomplete_cooperative/multiplicative/multiplicative_factor.py.

   Python (each of the four functions)                         model
   -----------------------------------                         -----
   b = <denominator vector>[1:]; a = <numerator vector>[1:]    mf_ids n = tl (alln n): coalition ids 1 .. 2^n-1 in id order
   assert np.all(a >= b)                                       forallb (fun s => Qle_bool (den s) (num s)) ids, else None
   assert np.all(b > 0)                                        forallb (fun s => negb (Qle_bool (den s) 0)) ids, else None
   return np.max(a / b)                                        Some (Qred (qmaxl (map (fun s => num s / den s) ids)));
                                                               np.max of a zero-size array (n = 0) raises ValueError: None
   A `Game` argument is modelled by its value vector (N -> Q, what game.get_values() returns);
   an `IncompleteGame` by its table: get_lower_bounds() / get_upper_bounds() are columns 1 / 2 of _values. *)
From ICG Require Import Prelude Bits Table.
Local Open Scope Q_scope.

Definition mf_ids (n : nat) : list N := tl (alln n).                      (* the [1:] slice *)

Definition mf_ge_all (ids : list N) (num den : N -> Q) : bool :=
  forallb (fun s => Qle_bool (den s) (num s)) ids.                         (* np.all(num >= den) *)
Definition mf_pos_all (ids : list N) (den : N -> Q) : bool :=
  forallb (fun s => negb (Qle_bool (den s) 0)) ids.                        (* np.all(den > 0) *)

Definition mf_factor (n : nat) (num den : N -> Q) : option Q :=
  let ids := mf_ids n in
  if mf_ge_all ids num den then
    if mf_pos_all ids den then
      match ids with
      | [] => None                                                         (* np.max of an empty array *)
      | _ => Some (Qred (qmaxl (map (fun s => num s / den s) ids)))
      end
    else None
  else None.

Definition mf_lo (t : table) (s : N) : Q := lo (get t s).                  (* get_lower_bounds() *)
Definition mf_hi (t : table) (s : N) : Q := hi (get t s).                  (* get_upper_bounds() *)

(* mul_factor_to_approximation(game, approximated_game) *)
Definition mf_to_approximation (n : nat) (v a : N -> Q) : option Q := mf_factor n v a.
(* mul_factor_upper_to_approximation(approximated_game, incomplete_game) *)
Definition mf_upper_to_approximation (n : nat) (a : N -> Q) (t : table) : option Q := mf_factor n (mf_hi t) a.
(* mul_factor_to_lower_bound(game, incomplete_game) *)
Definition mf_to_lower_bound (n : nat) (v : N -> Q) (t : table) : option Q := mf_factor n v (mf_lo t).
(* mul_factor_lower_upper_bound(incomplete_game) *)
Definition mf_lower_upper_bound (n : nat) (t : table) : option Q := mf_factor n (mf_hi t) (mf_lo t).

(* a value vector given as the list of its 2^n entries (driver, examples) *)
Definition mf_of_list (l : list Q) (s : N) : Q := nth (N.to_nat s) l 0.

(* the four results for one game v, one approximating game a and one table (driver command `mf`) *)
Definition mf_all (n : nat) (v a : list Q) (t : table) : list (option Q) :=
  [ mf_to_approximation n (mf_of_list v) (mf_of_list a);
    mf_upper_to_approximation n (mf_of_list a) t;
    mf_to_lower_bound n (mf_of_list v) t;
    mf_lower_upper_bound n t ].

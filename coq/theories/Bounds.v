(* Bounds: executable models of the three bound computers of bounds.py, loop for loop:
   every iteration reads the *current* table and writes one cell.
   [None] = the Python raises (assert / numpy reduction over an empty array). *)
From ICG Require Import Prelude Bits Table.

Definition unknown_ids (n : nat) (t : table) : list N :=
  filter (fun s => negb (known (get t s))) (alln n).
Definition unknown_sorted (n : nat) (t : table) : list N := by_size n (unknown_ids n t).

Definition known_supers (n : nat) (t : table) (s : N) : list N :=
  filter (fun T => known (get t T)) (supers n s).
Definition known_splits (n : nat) (t : table) (s : N) : list N :=
  filter (fun a => known (get t a)) (splits n s).

Definition nonempty {A} (l : list A) : bool := match l with [] => false | _ => true end.

(* ------------------------------------------------------------------ *)
(* compute_bounds_superadditive (reference, object based)              *)
(* ------------------------------------------------------------------ *)
Definition ref_lower_cell (n : nat) (t : table) (s : N) : Q :=
  qmaxl (map (fun a => lo (get t a) + lo (get t (N.ldiff s a))) (splits n s)).
Definition ref_lower_step (n : nat) (t : table) (s : N) : table :=
  set_lo t s (Qred (ref_lower_cell n t s)).
(* get_values(known supers) reads the upper-bound column of known rows *)
Definition ref_upper_cell (n : nat) (t : table) (s : N) : Q :=
  qminl (map (fun T => hi (get t T) - lo (get t (N.ldiff T s))) (known_supers n t s)).
Definition ref_upper_step (n : nat) (t : table) (s : N) : table :=
  set_hi t s (Qred (ref_upper_cell n t s)).

Definition min_known (n : nat) (t : table) : bool :=
  known (get t 0) && known (get t (grand n))
  && forallb (fun i => known (get t (single i))) (seq 0 n).

Definition sa_ref_run (n : nat) (t : table) : table :=
  let t1 := fold_left (ref_lower_step n) (unknown_sorted n t) t in
  fold_left (ref_upper_step n) (unknown_ids n t) t1.          (* the upper pass runs in id order *)

Definition compute_sa_ref (n : nat) (t : table) : option table :=
  if min_known n t then Some (sa_ref_run n t) else None.

(* ------------------------------------------------------------------ *)
(* compute_bounds_superadditive_cached (id arrays, XOR complements)    *)
(* ------------------------------------------------------------------ *)
Definition cached_lower_cell (n : nat) (t : table) (s : N) : Q :=
  qmaxl (map (fun a => lo (get t a) + lo (get t (N.lxor s a))) (splits n s)).
Definition cached_lower_step (n : nat) (t : table) (s : N) : table :=
  set_lo t s (Qred (cached_lower_cell n t s)).
Definition cached_upper_cell (n : nat) (t : table) (s : N) : Q :=
  qminl (map (fun T => lo (get t T) - lo (get t (N.lxor s T))) (known_supers n t s)).
Definition cached_upper_step (n : nat) (t : table) (s : N) : table :=
  set_hi t s (Qred (cached_upper_cell n t s)).

(* the cached computer asserts only the empty and the grand coalition; an unknown
   singleton makes np.max run over an empty array (ValueError) *)
Definition cached_ok (n : nat) (t : table) : bool :=
  known (get t 0) && known (get t (grand n))
  && forallb (fun s => nonempty (splits n s)) (unknown_ids n t).

Definition sa_cached_run (n : nat) (t : table) : table :=
  let us := unknown_sorted n t in
  let t1 := fold_left (cached_lower_step n) us t in
  fold_left (cached_upper_step n) us t1.

Definition compute_sa_cached (n : nat) (t : table) : option table :=
  if cached_ok n t then Some (sa_cached_run n t) else None.

(* ------------------------------------------------------------------ *)
(* compute_bounds_superadditive_monotone_approx_cached                  *)
(* ------------------------------------------------------------------ *)
(* round 0: proper non-empty subs; later rounds also the coalition itself *)
Definition sam_splits (n : nat) (i : nat) (s : N) : list N :=
  if Nat.eqb i 0 then splits n s
  else filter (fun a => (ssub a s || (a =? s)%N) && negb (a =? 0)%N) (alln n).
Definition sam_lower_cell (n i : nat) (t : table) (s : N) : Q :=
  qmaxl (map (fun a => lo (get t a) + lo (get t (N.lxor s a))) (sam_splits n i s)).
Definition sam_lower_step (n i : nat) (t : table) (s : N) : table :=
  set_lo t s (Qred (sam_lower_cell n i t s)).
(* monotone closure: max of the lower bounds of all super-coalitions, the coalition included *)
Definition supers_or_self (n : nat) (s : N) : list N :=
  filter (fun T => ssub s T || (T =? s)%N) (alln n).
Definition sam_mono_cell (n : nat) (t : table) (s : N) : Q :=
  qmaxl (map (fun T => lo (get t T)) (supers_or_self n s)).
Definition sam_mono_step (n : nat) (t : table) (s : N) : table :=
  set_lo t s (Qred (sam_mono_cell n t s)).

Definition sam_round (n i : nat) (us : list N) (t : table) : table :=
  fold_left (sam_mono_step n) us (fold_left (sam_lower_step n i) us t).

Fixpoint sam_rounds (n k i : nat) (us : list N) (t : table) : table :=
  match k with
  | O => t
  | S k' => sam_rounds n k' (S i) us (sam_round n i us t)
  end.

Definition sam_upper_cell (n : nat) (t : table) (s : N) : Q :=
  Qmin (qminl (map (fun T => lo (get t T) - lo (get t (N.lxor s T))) (known_supers n t s)))
       (qminl (map (fun a => hi (get t a)) (known_splits n t s))).
Definition sam_upper_step (n : nat) (t : table) (s : N) : table :=
  set_hi t s (Qred (sam_upper_cell n t s)).

Definition sam_ok (n : nat) (t : table) : bool :=
  known (get t 0) && known (get t (grand n))
  && forallb (fun s => nonempty (splits n s) && nonempty (known_splits n t s)) (unknown_ids n t).

Definition sam_run (n r : nat) (t : table) : table :=
  let us := unknown_sorted n t in
  fold_left (sam_upper_step n) us (sam_rounds n (S r) 0 us t).

Definition compute_sam (n r : nat) (t : table) : option table :=
  if sam_ok n t then Some (sam_run n r t) else None.

(* ------------------------------------------------------------------ *)
(* the registry of bounds.py, by name                                   *)
(* ------------------------------------------------------------------ *)
Inductive computer := CRef | CCached | CSam (r : nat).

Definition compute (c : computer) (n : nat) (t : table) : option table :=
  match c with
  | CRef => compute_sa_ref n t
  | CCached => compute_sa_cached n t
  | CSam r => compute_sam n r t
  end.

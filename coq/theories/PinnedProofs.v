(* PinnedProofs: revealing a coalition that the bounds already pin down (C08).
   An unknown coalition S is PINNED DOWN when its computed bounds coincide, lower(S) == upper(S) (by soundness both
   are then the true value v S).  "Optimised" environment steps skip the recomputation of the bounds when the
   coalition about to be revealed is pinned down.
   - For the superadditive computers (CRef, CCached) that is sound: the bounds computed from the knowledge K + {S}
     are, on every coalition, those computed from K (pn_reveal_pinned_noop, pn_reveal_pinned_noop_tables);
     the reveal changes nothing but the known flag of S.
   - For the monotone approximations (CSam r) it is not: the upper bound of a superset is also capped by the VALUES
     OF KNOWN sub-coalitions, so the mere flag matters (pn_sam_reveal_pinned_refuted, a 5-player budget game). *)
From ICG Require Import Prelude Bits Table Bounds GameOps FoldLemmas BoundsSpec SASound SAEquiv SATight SAWitness
  SAMSpec Checks ChecksSAM.

(* the knowledge after S has been revealed *)
Definition pn_add (K : N -> bool) (S : N) (X : N) : bool := (X =? S)%N || K X.

Lemma pn_add_inc K S X : K X = true -> pn_add K S X = true.
Proof. intros H. unfold pn_add. rewrite H. apply orb_true_r. Qed.

Lemma pn_add_self K S : pn_add K S S = true.
Proof. unfold pn_add. rewrite N.eqb_refl. reflexivity. Qed.

Lemma pn_add_cases K S X : pn_add K S X = true -> X = S \/ K X = true.
Proof.
  unfold pn_add. intros H. apply orb_true_iff in H. destruct H as [H|H]; [left; apply N.eqb_eq; exact H| right; exact H].
Qed.

Lemma pn_add_other K S X : X <> S -> pn_add K S X = K X.
Proof. intros H. unfold pn_add. apply N.eqb_neq in H. rewrite H. reflexivity. Qed.

(* ------------------------------------------------------------------ *)
(* function level: solutions of the bound equations for K and K + {S}  *)
(* ------------------------------------------------------------------ *)
Section Pinned.
  Variable n : nat.
  Variable K : N -> bool.
  Variable v l u l' u' : N -> Q.
  Variable S : N.
  Hypothesis HSA : SA n v.
  Hypothesis Hv0 : v 0%N == 0.
  Hypothesis HM : MinK n K.
  Hypothesis HbS : bounded n S.
  Hypothesis HkS : K S = false.
  Hypothesis Hsol : sa_sol n K v l u.
  Hypothesis Hsol' : sa_sol n (pn_add K S) v l' u'.
  Hypothesis Hpin : l S == u S.

  Lemma pn_MinK_add : MinK n (pn_add K S).
  Proof. apply (MinK_mono n K (pn_add K S) HM). intros s. apply pn_add_inc. Qed.

  (* a pinned-down coalition carries its true value *)
  Lemma pn_pinned_value : l S == v S /\ u S == v S.
  Proof.
    pose proof (l_sound n K v l u HSA HM Hsol S HbS) as H1.
    pose proof (upper_sound n K v l u HSA HM (sol_kl _ _ _ _ _ Hsol) (sol_lo _ _ _ _ _ Hsol) (sol_hi _ _ _ _ _ Hsol) S HbS HkS) as H2.
    split; lra.
  Qed.

  (* (i) the two knowledge sets have the same completions *)
  Lemma pn_completion_add w : Completion n K v w -> Completion n (pn_add K S) v w.
  Proof.
    intros Hw. pose proof (completion_between n K v l u HM Hsol w Hw S HbS) as [B1 B2].
    destruct pn_pinned_value as [P1 P2].
    destruct Hw as [Hsa [H0 Hag]]. split; [exact Hsa|]. split; [exact H0|].
    intros s Hb Hk. apply pn_add_cases in Hk. destruct Hk as [->|Hk]; [lra| apply Hag; assumption].
  Qed.

  Lemma pn_completion_drop w : Completion n (pn_add K S) v w -> Completion n K v w.
  Proof.
    intros [Hsa [H0 Hag]]. split; [exact Hsa|]. split; [exact H0|].
    intros s Hb Hk. apply Hag; [exact Hb| apply pn_add_inc; exact Hk].
  Qed.

  (* (ii) lower bounds: the pointwise smallest completion of the same set of completions *)
  Lemma pn_lower_noop X : bounded n X -> l' X == l X.
  Proof.
    intros Hb.
    pose proof (lower_mono n K (pn_add K S) v l u l' u' HSA HM (fun s => pn_add_inc K S s) Hsol Hsol' X Hb) as H1.
    pose proof (lower_is_completion n K v l u HSA Hv0 HM Hsol) as Hc.
    apply pn_completion_add in Hc.
    pose proof (completion_between n (pn_add K S) v l' u' pn_MinK_add Hsol' l Hc X Hb) as [H2 _].
    lra.
  Qed.

  (* (iii) upper bounds: every upper bound is attained by a completion *)
  Lemma pn_upper_noop X : bounded n X -> u' X == u X.
  Proof.
    intros Hb.
    pose proof (upper_mono n K (pn_add K S) v l u l' u' HSA HM (fun s => pn_add_inc K S s) Hsol Hsol' X Hb) as H1.
    assert (H2 : u X <= u' X).
    { destruct (K X) eqn:Hk.
      - rewrite (sol_ku _ _ _ _ _ Hsol X Hb Hk), (sol_ku _ _ _ _ _ Hsol' X Hb (pn_add_inc K S X Hk)). apply Qle_refl.
      - destruct (upper_attained n K v l u HSA Hv0 HM Hsol X Hb Hk) as [w [Hw Ew]].
        apply pn_completion_add in Hw.
        pose proof (completion_between n (pn_add K S) v l' u' pn_MinK_add Hsol' w Hw X Hb) as [_ H3].
        lra. }
    lra.
  Qed.

  Theorem pn_reveal_pinned_noop : forall X, bounded n X -> l' X == l X /\ u' X == u X.
  Proof. intros X Hb. split; [apply pn_lower_noop| apply pn_upper_noop]; exact Hb. Qed.
End Pinned.

(* ------------------------------------------------------------------ *)
(* table level                                                         *)
(* ------------------------------------------------------------------ *)
Lemma pn_agrees_set_value n t K v S :
  agrees n t K v -> agrees n (set_value t S (v S)) (pn_add K S) v.
Proof.
  intros Hag s Hb. unfold set_value, Kn, L, U. rewrite get_set.
  destruct (N.eqb_spec s S) as [->|Hne].
  - rewrite pn_add_self. simpl. split; [reflexivity|]. intros _. split; reflexivity.
  - rewrite (pn_add_other K S s Hne). destruct (Hag s Hb) as [E Hv]. split; [exact E| exact Hv].
Qed.

Lemma pn_reveal_ok n t K v S x : agrees n t K v -> bounded n S -> K S = false ->
  reveal t S x = (set_value t S x, Ok).
Proof.
  intros Hag Hb Hk. unfold reveal. destruct (Hag S Hb) as [E _]. unfold Kn in E. rewrite E, Hk. reflexivity.
Qed.

(* the recomputation after the reveal of a pinned-down coalition succeeds and returns the bounds it started from;
   the known flags are those of the old result except for S, which is now known *)
Theorem pn_reveal_pinned_noop_tables (c : computer) n K v t r S :
  (c = CRef \/ c = CCached) -> SA n v -> v 0%N == 0 -> MinK n K -> agrees n t K v ->
  bounded n S -> K S = false ->
  compute c n t = Some r -> L r S == U r S ->
  reveal t S (v S) = (set_value t S (v S), Ok)
  /\ exists r', compute c n (set_value t S (v S)) = Some r'
       /\ (forall X, bounded n X -> L r' X == L r X /\ U r' X == U r X)
       /\ (forall X, bounded n X -> Kn r' X = if (X =? S)%N then true else Kn r X)
       /\ L r S == v S.
Proof.
  intros Hc HSA Hv0 HM Hag HbS HkS Hcomp Hpin.
  split; [eapply pn_reveal_ok; eauto|].
  pose proof (pn_agrees_set_value n t K v S Hag) as Hag'.
  pose proof (pn_MinK_add n K S HM) as HM'.
  destruct (sa_defined c n (pn_add K S) v _ Hc HM' Hag') as [r' Hcomp'].
  exists r'. split; [exact Hcomp'|].
  pose proof (sa_sol_of_compute c n K v t r Hc HM Hag Hcomp) as Sol.
  pose proof (sa_sol_of_compute c n (pn_add K S) v _ r' Hc HM' Hag' Hcomp') as Sol'.
  split; [apply (pn_reveal_pinned_noop n K v (L r) (U r) (L r') (U r') S HSA Hv0 HM HbS HkS Sol Sol' Hpin)|].
  split.
  - intros X Hb.
    destruct (sa_sound c n K v t r Hc HSA HM Hag Hcomp X Hb) as [_ [_ [_ [E _]]]].
    destruct (sa_sound c n (pn_add K S) v _ r' Hc HSA HM' Hag' Hcomp' X Hb) as [_ [_ [_ [E' _]]]].
    rewrite E, E'. unfold pn_add. destruct (X =? S)%N; reflexivity.
  - apply (pn_pinned_value n K v (L r) (U r) S HSA HM HbS HkS Sol Hpin).
Qed.

(* ------------------------------------------------------------------ *)
(* the monotone approximation: the flag of a pinned-down coalition matters *)
(* ------------------------------------------------------------------ *)
(* budget game on 5 players: v T = - min (3, |T|); superadditive, monotone (decreasing), v 0 = 0 *)
Definition pn_ex_v (s : N) : Q := - inject_Z (Z.of_nat (Nat.min 3 (size 5 s))).
(* minimal information plus the coalitions {1,4} (id 18) and {0,1,3} (id 11) *)
Definition pn_ex_K : N -> bool := known_in [0; 1; 2; 4; 8; 16; 31; 18; 11]%N.
Definition pn_ex_t : table := table_of 5 pn_ex_K pn_ex_v 0.

(* CSam 1: coalition 9 = {0,3} is unknown and pinned down (lower = upper = -2 = its value); revealing it lowers the
   upper bound of coalition 13 = {0,2,3} from -1 to -2 (its new known sub-coalition 9 caps it) *)
Theorem pn_sam_reveal_pinned_refuted :
  exists (r : nat) (n : nat) (v : N -> Q) (K : N -> bool) (t a b : table) (S X : N),
    SA n v /\ Mono n v /\ v 0%N == 0 /\ MinK n K /\ agrees n t K v /\
    bounded n S /\ K S = false /\ bounded n X /\
    compute (CSam r) n t = Some a /\ L a S == U a S /\ L a S == v S /\
    reveal t S (v S) = (set_value t S (v S), Ok) /\
    compute (CSam r) n (set_value t S (v S)) = Some b /\
    ~ U b X == U a X.
Proof.
  exists 1%nat, 5%nat, pn_ex_v, pn_ex_K, pn_ex_t.
  destruct (compute (CSam 1) 5 pn_ex_t) as [a|] eqn:Ea; [|vm_compute in Ea; discriminate].
  destruct (compute (CSam 1) 5 (set_value pn_ex_t 9 (pn_ex_v 9))) as [b|] eqn:Eb; [|vm_compute in Eb; discriminate].
  exists a, b, 9%N, 13%N.
  split; [apply sa_check_sound; vm_compute; reflexivity|].
  split; [apply mono_check_sound; vm_compute; reflexivity|].
  split; [reflexivity|].
  split; [apply mink_check_sound; vm_compute; reflexivity|].
  split; [apply agrees_check_sound; vm_compute; reflexivity|].
  split; [apply in_alln; vm_compute; tauto|].
  split; [reflexivity|].
  split; [apply in_alln; vm_compute; tauto|].
  split; [reflexivity|].
  assert (Ha : Some a = compute (CSam 1) 5 pn_ex_t) by (symmetry; exact Ea).
  assert (Hb : Some b = compute (CSam 1) 5 (set_value pn_ex_t 9 (pn_ex_v 9))) by (symmetry; exact Eb).
  vm_compute in Ha. vm_compute in Hb. injection Ha as ->. injection Hb as ->.
  split; [vm_compute; reflexivity|]. split; [vm_compute; reflexivity|].
  split; [vm_compute; reflexivity|]. split; [reflexivity|].
  vm_compute. intro H. discriminate H.
Qed.

(* Structure: the memoised per-n relation matrix of bounds._get_sub_super_coalition_structure
   (1 = proper non-empty sub-coalition, 2 = proper super-coalition, 0 = self, -2 = empty, -1 otherwise)
   and the functools.cache keyed by the player count. *)
From ICG Require Import Prelude Bits.
From Coq Require Import ZArith.

(* the assignment sequence of the code: fill -1; subs := 1; supers := 2; self := 0; [0] := -2 *)
Definition st_rel (c x : N) : Z :=
  let r0 := (-1)%Z in
  let r1 := if sub x c then 1%Z else r0 in
  let r2 := if sub c x then 2%Z else r1 in
  let r3 := if (x =? c)%N then 0%Z else r2 in
  if (x =? 0)%N then (-2)%Z else r3.

Definition st_row (n : nat) (c : N) : list Z := map (st_rel c) (alln n).
Definition st_matrix (n : nat) : list (list Z) := map (st_row n) (alln n).
(* what the computers select from a row *)
Definition st_select (n : nat) (c : N) (k : Z) : list N := filter (fun x => Z.eqb (st_rel c x) k) (alln n).

(* the memo: association list from player count to the structure computed for it *)
Definition st_cache := list (nat * list (list Z)).
Fixpoint st_lookup (m : nat) (ca : st_cache) : option (list (list Z)) :=
  match ca with
  | [] => None
  | (k, s) :: r => if Nat.eqb k m then Some s else st_lookup m r
  end.
Definition st_call (ca : st_cache) (m : nat) : st_cache * list (list Z) :=
  match st_lookup m ca with
  | Some s => (ca, s)
  | None => let s := st_matrix m in ((m, s) :: ca, s)
  end.
Definition st_run_cache (calls : list nat) : st_cache :=
  fold_left (fun ca m => fst (st_call ca m)) calls [].

(* ScaleProofs: everything is SCALE-FREE (positively homogeneous).  Prefix sc_.
   Multiplying every lower/upper bound of a table by c >= 0 multiplies the output of every bound computer
   (reference, cached, monotone approximation with any number of rounds) by c; the gap functions are
   homogeneous of degree 1 (exploitability, l1, l-infinity) or 2 (the squared l2 norm carried by the model);
   hence the searches over sampled games (best states, expected greedy) choose the same sets / sequences on
   games multiplied by a common c > 0 and report mean-gap curves multiplied by c (c*c for l2 squared).
   The proofs are direct simulations over the folds of Bounds.v: no hypothesis on which coalitions are known. *)
From ICG Require Import Prelude Bits Table Bounds GameOps Shapley ShapleyProofs Exploit ExploitProofs
  Norms NormsProofs Env Search SearchProofs Greedy GreedyInst.
From Coq Require Import Qabs ZArith.
Local Open Scope Q_scope.

(* ================================================================== *)
(* arithmetic: max / min / abs commute with multiplication by c >= 0   *)
(* ================================================================== *)
Lemma sc_mult_le_compat c x y : 0 <= c -> x <= y -> c * x <= c * y.
Proof. intros Hc H. rewrite !(Qmult_comm c). apply Qmult_le_compat_r; assumption. Qed.

Lemma sc_Qmax_scale c x y : 0 <= c -> Qmax (c * x) (c * y) == c * Qmax x y.
Proof.
  intros Hc. destruct (Q.max_spec x y) as [[H E]|[H E]]; rewrite E.
  - apply Q.max_r. apply sc_mult_le_compat; [exact Hc| apply Qlt_le_weak; exact H].
  - apply Q.max_l. apply sc_mult_le_compat; assumption.
Qed.

Lemma sc_Qmin_scale c x y : 0 <= c -> Qmin (c * x) (c * y) == c * Qmin x y.
Proof.
  intros Hc. destruct (Q.min_spec x y) as [[H E]|[H E]]; rewrite E.
  - apply Q.min_l. apply sc_mult_le_compat; [exact Hc| apply Qlt_le_weak; exact H].
  - apply Q.min_r. apply sc_mult_le_compat; assumption.
Qed.

Lemma sc_Qabs_scale c x : 0 <= c -> Qabs (c * x) == c * Qabs x.
Proof. intros Hc. rewrite Qabs_Qmult, (Qabs_pos c Hc). reflexivity. Qed.

(* a column of numbers and the same column multiplied by c (up to ==) *)
Definition sc_col (c : Q) (l l' : list Q) : Prop := Forall2 (fun x y => y == c * x) l l'.

Lemma sc_col_map c l : sc_col c l (map (Qmult c) l).
Proof. induction l as [|x l IH]; simpl; constructor; [reflexivity| exact IH]. Qed.

Lemma sc_col_map2 {A} c (f f' : A -> Q) l :
  (forall a, In a l -> f' a == c * f a) -> sc_col c (map f l) (map f' l).
Proof.
  induction l as [|x l IH]; intros H; simpl; constructor.
  - apply H. left. reflexivity.
  - apply IH. intros a Ha. apply H. right. exact Ha.
Qed.

Lemma sc_qmaxl1_scale c x x' l l' :
  0 <= c -> x' == c * x -> sc_col c l l' -> qmaxl1 x' l' == c * qmaxl1 x l.
Proof.
  intros Hc Hx H. revert x x' Hx. induction H as [|a b l l' Hab H IH]; intros x x' Hx; simpl; [exact Hx|].
  rewrite <- (sc_Qmax_scale c x (qmaxl1 a l) Hc). apply Q.max_compat; [exact Hx| apply IH; exact Hab].
Qed.
Lemma sc_qminl1_scale c x x' l l' :
  0 <= c -> x' == c * x -> sc_col c l l' -> qminl1 x' l' == c * qminl1 x l.
Proof.
  intros Hc Hx H. revert x x' Hx. induction H as [|a b l l' Hab H IH]; intros x x' Hx; simpl; [exact Hx|].
  rewrite <- (sc_Qmin_scale c x (qminl1 a l) Hc). apply Q.min_compat; [exact Hx| apply IH; exact Hab].
Qed.

(* also on the empty list: the total versions return 0 there *)
Lemma sc_qmaxl_scale c l l' : 0 <= c -> sc_col c l l' -> qmaxl l' == c * qmaxl l.
Proof. intros Hc H. destruct H as [|a b l l' Hab H]; simpl; [ring| apply sc_qmaxl1_scale; assumption]. Qed.
Lemma sc_qminl_scale c l l' : 0 <= c -> sc_col c l l' -> qminl l' == c * qminl l.
Proof. intros Hc H. destruct H as [|a b l l' Hab H]; simpl; [ring| apply sc_qminl1_scale; assumption]. Qed.

(* the form asked for: qmaxl (map (Qmult c) l) == c * qmaxl l *)
Lemma sc_qmaxl_map_mult c l : 0 <= c -> qmaxl (map (Qmult c) l) == c * qmaxl l.
Proof. intros Hc. apply sc_qmaxl_scale; [exact Hc| apply sc_col_map]. Qed.
Lemma sc_qminl_map_mult c l : 0 <= c -> qminl (map (Qmult c) l) == c * qminl l.
Proof. intros Hc. apply sc_qminl_scale; [exact Hc| apply sc_col_map]. Qed.

Lemma sc_qsum_scale c l l' : sc_col c l l' -> qsum l' == c * qsum l.
Proof. intros H. induction H as [|a b l l' Hab H IH]; simpl; [ring| rewrite Hab, IH; ring]. Qed.

(* ================================================================== *)
(* scaled rows and tables                                              *)
(* ================================================================== *)
Definition sc_scale_row (c : Q) (r : row) : row := mkrow (known r) (c * lo r) (c * hi r).

(* r' is r multiplied by c: same flag, both bounds == c times the bounds of r *)
Definition sc_row_rel (c : Q) (r r' : row) : Prop :=
  known r' = known r /\ lo r' == c * lo r /\ hi r' == c * hi r.

(* t' is t multiplied by c, as seen through the Table interface *)
Definition sc_rel (c : Q) (t t' : table) : Prop := forall s, sc_row_rel c (get t s) (get t' s).

(* a functional witness on the ids of an n-player game (rows outside are the zero row of both tables) *)
Definition sc_scale (n : nat) (c : Q) (t : table) : table :=
  of_fun (alln n) (fun s => sc_scale_row c (get t s)).

Lemma sc_scale_row_rel c r : sc_row_rel c r (sc_scale_row c r).
Proof. unfold sc_row_rel, sc_scale_row; simpl. repeat split; reflexivity. Qed.

Lemma sc_scale_rel n c t : (forall s, ~ bounded n s -> get t s = row0) -> sc_rel c t (sc_scale n c t).
Proof.
  intros H s. unfold sc_scale. rewrite of_fun_get. destruct (in_dec N.eq_dec s (alln n)) as [Hin|Hn].
  - apply sc_scale_row_rel.
  - rewrite (H s) by (intro Hb; apply Hn; apply in_alln; exact Hb).
    unfold sc_row_rel, row0; simpl. repeat split; ring.
Qed.

Lemma sc_known c t t' : sc_rel c t t' -> forall s, known (get t' s) = known (get t s).
Proof. intros H s. apply (H s). Qed.
Lemma sc_lo c t t' : sc_rel c t t' -> forall s, lo (get t' s) == c * lo (get t s).
Proof. intros H s. apply (H s). Qed.
Lemma sc_hi c t t' : sc_rel c t t' -> forall s, hi (get t' s) == c * hi (get t s).
Proof. intros H s. apply (H s). Qed.

Lemma sc_set_lo c t t' s x x' :
  sc_rel c t t' -> x' == c * x -> sc_rel c (set_lo t s x) (set_lo t' s x').
Proof.
  intros H E a. unfold sc_row_rel. rewrite !known_set_lo, !lo_set_lo, !hi_set_lo.
  destruct (H a) as [H1 [H2 H3]]. destruct (N.eqb a s); auto.
Qed.
Lemma sc_set_hi c t t' s x x' :
  sc_rel c t t' -> x' == c * x -> sc_rel c (set_hi t s x) (set_hi t' s x').
Proof.
  intros H E a. unfold sc_row_rel. rewrite !known_set_hi, !lo_set_hi, !hi_set_hi.
  destruct (H a) as [H1 [H2 H3]]. destruct (N.eqb a s); auto.
Qed.
Lemma sc_set c t t' s r r' : sc_rel c t t' -> sc_row_rel c r r' -> sc_rel c (set t s r) (set t' s r').
Proof. intros H E a. rewrite !get_set. destruct (N.eqb a s); [exact E| apply H]. Qed.

Lemma sc_Qred c x x' : x' == c * x -> Qred x' == c * Qred x.
Proof. intros E. rewrite !Qred_correct. exact E. Qed.

(* the lists that depend on the flags only *)
Lemma sc_unknown_ids c n t t' : sc_rel c t t' -> unknown_ids n t' = unknown_ids n t.
Proof. intros H. unfold unknown_ids. apply filter_ext. intros s. rewrite (sc_known c t t' H). reflexivity. Qed.
Lemma sc_unknown_sorted c n t t' : sc_rel c t t' -> unknown_sorted n t' = unknown_sorted n t.
Proof. intros H. unfold unknown_sorted. rewrite (sc_unknown_ids c n t t' H). reflexivity. Qed.
Lemma sc_known_supers c n t t' s : sc_rel c t t' -> known_supers n t' s = known_supers n t s.
Proof. intros H. unfold known_supers. apply filter_ext. intros a. apply (sc_known c t t' H). Qed.
Lemma sc_known_splits c n t t' s : sc_rel c t t' -> known_splits n t' s = known_splits n t s.
Proof. intros H. unfold known_splits. apply filter_ext. intros a. apply (sc_known c t t' H). Qed.

Lemma sc_forallb_ext {A} (f g : A -> bool) l : (forall a, f a = g a) -> forallb f l = forallb g l.
Proof. intros H. induction l as [|x l IH]; simpl; [reflexivity| rewrite H, IH; reflexivity]. Qed.

Lemma sc_fold c (f : table -> N -> table) us :
  (forall t t' s, sc_rel c t t' -> sc_rel c (f t s) (f t' s)) ->
  forall t t', sc_rel c t t' -> sc_rel c (fold_left f us t) (fold_left f us t').
Proof. intros Hf. induction us as [|x us IH]; intros t t' H; simpl; [exact H| apply IH; apply Hf; exact H]. Qed.

(* ================================================================== *)
(* every cell write of the three computers commutes with the scaling   *)
(* ================================================================== *)
Section Steps.
  Variable c : Q.
  Hypothesis Hc : 0 <= c.
  Variable n : nat.

  Lemma sc_ref_lower_step t t' s : sc_rel c t t' -> sc_rel c (ref_lower_step n t s) (ref_lower_step n t' s).
  Proof.
    intros H. unfold ref_lower_step. apply sc_set_lo; [exact H|]. apply sc_Qred. unfold ref_lower_cell.
    apply sc_qmaxl_scale; [exact Hc|]. apply sc_col_map2. intros a _.
    rewrite (sc_lo c t t' H a), (sc_lo c t t' H (N.ldiff s a)). ring.
  Qed.
  Lemma sc_ref_upper_step t t' s : sc_rel c t t' -> sc_rel c (ref_upper_step n t s) (ref_upper_step n t' s).
  Proof.
    intros H. unfold ref_upper_step. apply sc_set_hi; [exact H|]. apply sc_Qred. unfold ref_upper_cell.
    rewrite (sc_known_supers c n t t' s H).
    apply sc_qminl_scale; [exact Hc|]. apply sc_col_map2. intros a _.
    rewrite (sc_hi c t t' H a), (sc_lo c t t' H (N.ldiff a s)). ring.
  Qed.
  Lemma sc_cached_lower_step t t' s : sc_rel c t t' -> sc_rel c (cached_lower_step n t s) (cached_lower_step n t' s).
  Proof.
    intros H. unfold cached_lower_step. apply sc_set_lo; [exact H|]. apply sc_Qred. unfold cached_lower_cell.
    apply sc_qmaxl_scale; [exact Hc|]. apply sc_col_map2. intros a _.
    rewrite (sc_lo c t t' H a), (sc_lo c t t' H (N.lxor s a)). ring.
  Qed.
  Lemma sc_cached_upper_step t t' s : sc_rel c t t' -> sc_rel c (cached_upper_step n t s) (cached_upper_step n t' s).
  Proof.
    intros H. unfold cached_upper_step. apply sc_set_hi; [exact H|]. apply sc_Qred. unfold cached_upper_cell.
    rewrite (sc_known_supers c n t t' s H).
    apply sc_qminl_scale; [exact Hc|]. apply sc_col_map2. intros a _.
    rewrite (sc_lo c t t' H a), (sc_lo c t t' H (N.lxor s a)). ring.
  Qed.
  Lemma sc_sam_lower_step i t t' s : sc_rel c t t' -> sc_rel c (sam_lower_step n i t s) (sam_lower_step n i t' s).
  Proof.
    intros H. unfold sam_lower_step. apply sc_set_lo; [exact H|]. apply sc_Qred. unfold sam_lower_cell.
    apply sc_qmaxl_scale; [exact Hc|]. apply sc_col_map2. intros a _.
    rewrite (sc_lo c t t' H a), (sc_lo c t t' H (N.lxor s a)). ring.
  Qed.
  Lemma sc_sam_mono_step t t' s : sc_rel c t t' -> sc_rel c (sam_mono_step n t s) (sam_mono_step n t' s).
  Proof.
    intros H. unfold sam_mono_step. apply sc_set_lo; [exact H|]. apply sc_Qred. unfold sam_mono_cell.
    apply sc_qmaxl_scale; [exact Hc|]. apply sc_col_map2. intros a _. apply (sc_lo c t t' H a).
  Qed.
  Lemma sc_sam_upper_step t t' s : sc_rel c t t' -> sc_rel c (sam_upper_step n t s) (sam_upper_step n t' s).
  Proof.
    intros H. unfold sam_upper_step. apply sc_set_hi; [exact H|]. apply sc_Qred. unfold sam_upper_cell.
    rewrite (sc_known_supers c n t t' s H), (sc_known_splits c n t t' s H).
    rewrite <- (sc_Qmin_scale c _ _ Hc). apply Q.min_compat.
    - apply sc_qminl_scale; [exact Hc|]. apply sc_col_map2. intros a _.
      rewrite (sc_lo c t t' H a), (sc_lo c t t' H (N.lxor s a)). ring.
    - apply sc_qminl_scale; [exact Hc|]. apply sc_col_map2. intros a _. apply (sc_hi c t t' H a).
  Qed.

  Lemma sc_sam_round i us t t' : sc_rel c t t' -> sc_rel c (sam_round n i us t) (sam_round n i us t').
  Proof.
    intros H. unfold sam_round. apply sc_fold; [intros; apply sc_sam_mono_step; assumption|].
    apply sc_fold; [intros; apply sc_sam_lower_step; assumption| exact H].
  Qed.
  Lemma sc_sam_rounds k : forall i us t t', sc_rel c t t' -> sc_rel c (sam_rounds n k i us t) (sam_rounds n k i us t').
  Proof. induction k as [|k IH]; intros i us t t' H; simpl; [exact H| apply IH; apply sc_sam_round; exact H]. Qed.

  (* the three runs *)
  Lemma sc_sa_ref_run t t' : sc_rel c t t' -> sc_rel c (sa_ref_run n t) (sa_ref_run n t').
  Proof.
    intros H. unfold sa_ref_run. rewrite (sc_unknown_sorted c n t t' H), (sc_unknown_ids c n t t' H).
    apply sc_fold; [intros; apply sc_ref_upper_step; assumption|].
    apply sc_fold; [intros; apply sc_ref_lower_step; assumption| exact H].
  Qed.
  Lemma sc_sa_cached_run t t' : sc_rel c t t' -> sc_rel c (sa_cached_run n t) (sa_cached_run n t').
  Proof.
    intros H. unfold sa_cached_run. rewrite (sc_unknown_sorted c n t t' H).
    apply sc_fold; [intros; apply sc_cached_upper_step; assumption|].
    apply sc_fold; [intros; apply sc_cached_lower_step; assumption| exact H].
  Qed.
  Lemma sc_sam_run r t t' : sc_rel c t t' -> sc_rel c (sam_run n r t) (sam_run n r t').
  Proof.
    intros H. unfold sam_run. rewrite (sc_unknown_sorted c n t t' H).
    apply sc_fold; [intros; apply sc_sam_upper_step; assumption|].
    apply sc_sam_rounds. exact H.
  Qed.

  (* the guards read flags only *)
  Lemma sc_min_known t t' : sc_rel c t t' -> min_known n t' = min_known n t.
  Proof.
    intros H. unfold min_known. rewrite !(sc_known c t t' H). f_equal.
    apply sc_forallb_ext. intros i. apply (sc_known c t t' H).
  Qed.
  Lemma sc_cached_ok t t' : sc_rel c t t' -> cached_ok n t' = cached_ok n t.
  Proof.
    intros H. unfold cached_ok. rewrite !(sc_known c t t' H), (sc_unknown_ids c n t t' H). reflexivity.
  Qed.
  Lemma sc_sam_ok t t' : sc_rel c t t' -> sam_ok n t' = sam_ok n t.
  Proof.
    intros H. unfold sam_ok. rewrite !(sc_known c t t' H), (sc_unknown_ids c n t t' H). f_equal.
    apply sc_forallb_ext. intros s. rewrite (sc_known_splits c n t t' s H). reflexivity.
  Qed.
End Steps.

(* both raise, or both return and the results are related *)
Definition sc_opt_rel (c : Q) (o o' : option table) : Prop :=
  match o, o' with
  | Some t, Some t' => sc_rel c t t'
  | None, None => True
  | _, _ => False
  end.

(* THE THEOREM: every computer, every n, every number of SAM rounds, any c >= 0, no hypothesis on the knowledge *)
Theorem sc_compute_homogeneous (c : Q) (comp : computer) (n : nat) (t t' : table) :
  0 <= c -> sc_rel c t t' -> sc_opt_rel c (compute comp n t) (compute comp n t').
Proof.
  intros Hc H. destruct comp as [| |r]; simpl.
  - unfold compute_sa_ref. rewrite (sc_min_known c n t t' H). destruct (min_known n t); simpl; [|exact I].
    apply sc_sa_ref_run; assumption.
  - unfold compute_sa_cached. rewrite (sc_cached_ok c n t t' H). destruct (cached_ok n t); simpl; [|exact I].
    apply sc_sa_cached_run; assumption.
  - unfold compute_sam. rewrite (sc_sam_ok c n t t' H). destruct (sam_ok n t); simpl; [|exact I].
    apply sc_sam_run; assumption.
Qed.

Corollary sc_compute_some c comp n t t' t1 :
  0 <= c -> sc_rel c t t' -> compute comp n t = Some t1 ->
  exists t1', compute comp n t' = Some t1' /\ sc_rel c t1 t1'.
Proof.
  intros Hc H E. pose proof (sc_compute_homogeneous c comp n t t' Hc H) as R. rewrite E in R.
  destruct (compute comp n t') as [t1'|]; [|destruct R]. exists t1'. split; [reflexivity| exact R].
Qed.
Corollary sc_compute_none c comp n t t' :
  0 <= c -> sc_rel c t t' -> compute comp n t = None -> compute comp n t' = None.
Proof.
  intros Hc H E. pose proof (sc_compute_homogeneous c comp n t t' Hc H) as R. rewrite E in R.
  destruct (compute comp n t'); [destruct R| reflexivity].
Qed.

(* ================================================================== *)
(* the gap functions                                                   *)
(* ================================================================== *)
Lemma sc_sh_player c n i g g' : (forall S, g' S == c * g S) -> sh_player n i g' == c * sh_player n i g.
Proof.
  intros H. rewrite (sh_player_ext n i g' (fun S => c * g S + 0 * g S)).
  - rewrite sh_linear. ring.
  - intros S _. rewrite H. ring.
  - intros S _. rewrite H. ring.
Qed.

Lemma sc_ex_exploit c n l u l' u' :
  (forall S, l' S == c * l S) -> (forall S, u' S == c * u S) ->
  ex_exploit n l' u' == c * ex_exploit n l u.
Proof.
  intros Hl Hu. rewrite !ex_exploit_eq, Hl.
  rewrite (sc_qsum_scale c (map (fun i => sh_player n i (ex_maxgain l u i)) (seq 0 n))
                           (map (fun i => sh_player n i (ex_maxgain l' u' i)) (seq 0 n))).
  - ring.
  - apply sc_col_map2. intros i _. apply sc_sh_player. intros S. unfold ex_maxgain. destruct (tb S i); auto.
Qed.

Lemma sc_nm_l1 c n w w' : 0 <= c -> (forall S, w' S == c * w S) -> nm_l1 n w' == c * nm_l1 n w.
Proof.
  intros Hc H. rewrite !nm_l1_eq. apply sc_qsum_scale. apply sc_col_map2. intros S _.
  rewrite H. apply sc_Qabs_scale. exact Hc.
Qed.
Lemma sc_nm_linf c n w w' : 0 <= c -> (forall S, w' S == c * w S) -> nm_linf n w' == c * nm_linf n w.
Proof.
  intros Hc H. unfold nm_linf. apply sc_qmaxl_scale; [exact Hc|]. apply sc_col_map2. intros S _.
  rewrite H. apply sc_Qabs_scale. exact Hc.
Qed.
Lemma sc_nm_l2sq c n w w' : (forall S, w' S == c * w S) -> nm_l2sq n w' == c * c * nm_l2sq n w.
Proof.
  intros H. rewrite !nm_l2sq_eq. apply sc_qsum_scale. apply sc_col_map2. intros S _. rewrite H. ring.
Qed.

Lemma sc_width_tab c t t' : sc_rel c t t' -> forall S, nm_width_tab t' S == c * nm_width_tab t S.
Proof. intros H S. unfold nm_width_tab, nm_width. rewrite (sc_lo c t t' H S), (sc_hi c t t' H S). ring. Qed.

(* both raise, or both return and the second value is k times the first *)
Definition sc_optq_rel (k : Q) (o o' : option Q) : Prop :=
  match o, o' with
  | Some x, Some x' => x' == k * x
  | None, None => True
  | _, _ => False
  end.

(* the four gap functions of the package: degree 1, except the squared l2 norm (degree 2) *)
Theorem sc_gap_homogeneous (c : Q) (n : nat) (t t' : table) :
  0 <= c -> sc_rel c t t' ->
  sc_optq_rel c (ex_exploit_tab n t) (ex_exploit_tab n t')
  /\ nm_l1 n (nm_width_tab t') == c * nm_l1 n (nm_width_tab t)
  /\ nm_linf n (nm_width_tab t') == c * nm_linf n (nm_width_tab t)
  /\ nm_l2sq n (nm_width_tab t') == c * c * nm_l2sq n (nm_width_tab t).
Proof.
  intros Hc H. split; [|split; [|split]].
  - unfold ex_exploit_tab. rewrite (sc_known c t t' H). destruct (known (get t (grand n))); simpl; [|exact I].
    apply sc_ex_exploit; intros S; [apply (sc_lo c t t' H)| apply (sc_hi c t t' H)].
  - apply sc_nm_l1; [exact Hc| apply sc_width_tab; exact H].
  - apply sc_nm_linf; [exact Hc| apply sc_width_tab; exact H].
  - apply sc_nm_l2sq. apply sc_width_tab; exact H.
Qed.

(* the degree of a gap function as the factor its value is multiplied by *)
Definition sc_gfac (g : gapfn) (c : Q) : Q := match g with GL2 => c * c | _ => c end.

Lemma sc_gfac_pos g c : 0 < c -> 0 < sc_gfac g c.
Proof. intros Hc. destruct g; simpl; try exact Hc. apply Qmult_lt_0_compat; exact Hc. Qed.

Theorem sc_ev_gap_homogeneous (c : Q) (g : gapfn) (n : nat) (t t' : table) :
  0 <= c -> sc_rel c t t' -> sc_optq_rel (sc_gfac g c) (ev_gap g n t) (ev_gap g n t').
Proof.
  intros Hc H. destruct (sc_gap_homogeneous c n t t' Hc H) as [H1 [H2 [H3 H4]]].
  destruct g; simpl; [exact H1| | |]; apply sc_Qred; assumption.
Qed.

(* ================================================================== *)
(* the search value of a reveal set on a game multiplied by c          *)
(* ================================================================== *)
(* v' is the value vector v multiplied by c, as read by the searches *)
Definition sc_vals (c : Q) (v v' : list Q) : Prop := forall s, ev_val v' s == c * ev_val v s.

Lemma sc_vals_map c v : sc_vals c v (map (Qmult c) v).
Proof.
  intros s. unfold ev_val. destruct (Nat.lt_ge_cases (N.to_nat s) (length v)) as [Hlt|Hge].
  - rewrite (nth_indep (map (Qmult c) v) 0 (c * 0)) by (rewrite map_length; exact Hlt).
    rewrite (map_nth (Qmult c)). reflexivity.
  - rewrite !nth_overflow by (rewrite ?map_length; exact Hge). ring.
Qed.

Lemma sc_sr_apply c t1 t2 v v' ids : sc_vals c v v' -> sc_rel c (sr_apply t1 v ids) (sr_apply t2 v' ids).
Proof.
  intros H s. rewrite !sr_apply_get. destruct (ev_mem s ids).
  - unfold sc_row_rel, krow; simpl. repeat split; apply H.
  - unfold init_table. rewrite get_set. destruct (N.eqb s 0).
    + unfold sc_row_rel, krow; simpl. repeat split; ring.
    + rewrite get_empty. unfold sc_row_rel, row0; simpl. repeat split; ring.
Qed.

Theorem sc_sr_value c comp g n t1 t2 v v' kn seq :
  0 <= c -> sc_vals c v v' ->
  sc_optq_rel (sc_gfac g c) (sr_value comp g n t1 v kn seq) (sr_value comp g n t2 v' kn seq).
Proof.
  intros Hc H. unfold sr_value.
  pose proof (sc_compute_homogeneous c comp n _ _ Hc (sc_sr_apply c t1 t2 v v' (seq ++ kn) H)) as R.
  destruct (compute comp n (sr_apply t1 v (seq ++ kn))) as [a|], (compute comp n (sr_apply t2 v' (seq ++ kn))) as [b|];
    simpl in R; try contradiction; [|exact I].
  apply sc_ev_gap_homogeneous; assumption.
Qed.

(* the gap column over the sampled games *)
Lemma sc_eg_value c comp g n games games' kn seq :
  0 <= c -> Forall2 (sc_vals c) games games' ->
  sc_col (sc_gfac g c) (eg_value comp g n games kn seq) (eg_value comp g n games' kn seq).
Proof.
  intros Hc H. unfold eg_value. induction H as [|v v' gs gs' Hv H IH]; simpl; constructor; [|exact IH].
  pose proof (sc_sr_value c comp g n init_table init_table v v' kn seq Hc Hv) as R.
  destruct (sr_value comp g n init_table v kn seq), (sr_value comp g n init_table v' kn seq);
    simpl in R; try contradiction; [exact R| ring].
Qed.

(* ================================================================== *)
(* means, comparisons, argmin                                          *)
(* ================================================================== *)
Lemma sc_col_length c l l' : sc_col c l l' -> length l = length l'.
Proof. intros H. induction H as [|a b l l' Hab H IH]; simpl; [reflexivity| rewrite IH; reflexivity]. Qed.

Lemma sc_mean c col col' : sc_col c col col' -> sr_mean col' == c * sr_mean col.
Proof.
  intros H. unfold sr_mean. rewrite (sc_qsum_scale c col col' H), <- (sc_col_length c col col' H). unfold Qdiv. ring.
Qed.

Lemma sc_means c rows rows' : Forall2 (sc_col c) rows rows' -> sc_col c (map sr_mean rows) (map sr_mean rows').
Proof. intros H. induction H as [|a b l l' Hab H IH]; simpl; constructor; [apply sc_mean; exact Hab| exact IH]. Qed.

Lemma sc_Qle_bool c a b a' b' : 0 < c -> a' == c * a -> b' == c * b -> Qle_bool a' b' = Qle_bool a b.
Proof.
  intros Hc Ea Eb. apply eq_true_iff_eq. rewrite !Qle_bool_iff, Ea, Eb. apply Qmult_le_l. exact Hc.
Qed.

Lemma sc_argmin_from c xs xs' : 0 < c -> sc_col c xs xs' ->
  forall best best' besti i, best' == c * best ->
    eg_argmin_from best' besti i xs' = eg_argmin_from best besti i xs.
Proof.
  intros Hc H. induction H as [|a b l l' Hab H IH]; intros best best' besti i Hb; simpl; [reflexivity|].
  rewrite (sc_Qle_bool c best a best' b Hc Hb Hab). destruct (Qle_bool best a); apply IH; assumption.
Qed.

(* scaling all candidate values by c > 0 leaves the first minimiser unchanged *)
Theorem sc_argmin c xs xs' : 0 < c -> sc_col c xs xs' -> eg_argmin xs' = eg_argmin xs.
Proof.
  intros Hc H. destruct H as [|a b l l' Hab H]; simpl; [reflexivity|]. f_equal.
  apply (sc_argmin_from c l l' Hc H). exact Hab.
Qed.

(* ================================================================== *)
(* expected greedy                                                     *)
(* ================================================================== *)
Definition sc_eg_rel (c : Q) (o o' : option (list N * list (list Q))) : Prop :=
  match o, o' with
  | Some (s, rows), Some (s', rows') => s' = s /\ Forall2 (sc_col c) rows rows'
  | None, None => True
  | _, _ => False
  end.

Lemma sc_eg_loop c (value value' : list N -> list Q) :
  0 < c -> (forall s, sc_col c (value s) (value' s)) ->
  forall k seq possible rows rows', Forall2 (sc_col c) rows rows' ->
    sc_eg_rel c (eg_loop value k seq possible rows) (eg_loop value' k seq possible rows').
Proof.
  intros Hc Hv. induction k as [|k IH]; intros seq possible rows rows' Hr; simpl; [split; [reflexivity| exact Hr]|].
  rewrite (sc_argmin c (map (fun a => sr_mean (value (seq ++ [a]))) possible)
                       (map (fun a => sr_mean (value' (seq ++ [a]))) possible) Hc)
    by (apply sc_col_map2; intros a _; apply sc_mean; apply Hv).
  destruct (eg_argmin _) as [i|]; [|exact I].
  destruct (nth_error possible i) as [a|]; [|exact I].
  apply IH. apply Forall2_app; [exact Hr|]. constructor; [apply Hv| constructor].
Qed.

(* column level: same chosen sequence, every row of the gap matrix multiplied by c *)
Theorem sc_greedy_scale (c : Q) (value value' : list N -> list Q) (max_steps : nat) (possible : list N) :
  0 < c -> (forall s, sc_col c (value s) (value' s)) ->
  sc_eg_rel c (eg_run value max_steps possible) (eg_run value' max_steps possible).
Proof.
  intros Hc Hv. unfold eg_run. apply sc_eg_loop; [exact Hc| exact Hv|]. constructor; [apply Hv| constructor].
Qed.

(* game level: all sampled games multiplied by the same c > 0 *)
Theorem sc_eg_search_scale c comp g n games games' kn max_steps possible :
  0 < c -> Forall2 (sc_vals c) games games' ->
  sc_eg_rel (sc_gfac g c) (eg_search comp g n games kn max_steps possible)
                          (eg_search comp g n games' kn max_steps possible).
Proof.
  intros Hc H. unfold eg_search. apply sc_greedy_scale; [apply sc_gfac_pos; exact Hc|].
  intros s. apply sc_eg_value; [apply Qlt_le_weak; exact Hc| exact H].
Qed.

(* the reported mean-gap curve is multiplied by the factor *)
Corollary sc_greedy_curve c o o' : sc_eg_rel c o o' ->
  match o, o' with
  | Some (s, rows), Some (s', rows') => s' = s /\ sc_col c (map sr_mean rows) (map sr_mean rows')
  | None, None => True
  | _, _ => False
  end.
Proof.
  destruct o as [[s rows]|], o' as [[s' rows']|]; simpl; auto. intros [E H]. split; [exact E| apply sc_means; exact H].
Qed.

(* ================================================================== *)
(* best states                                                         *)
(* ================================================================== *)
Definition sc_cand_rel (c : Q) (x x' : list N * list Q) : Prop := fst x' = fst x /\ sc_col c (snd x) (snd x').

(* same recorded sequence; the column is the untouched placeholder (mean -1) on both sides, or multiplied by c *)
Definition sc_best_rel (c : Q) (b b' : sr_best) : Prop :=
  sb_seq b' = sb_seq b
  /\ ((sb_col b' = sb_col b /\ sr_mean (sb_col b) == -1)
      \/ (sc_col c (sb_col b) (sb_col b') /\ ~ sr_mean (sb_col b) == -1 /\ ~ sr_mean (sb_col b') == -1)).

Lemma sc_qsum_repeat x r : qsum (repeat x r) == inject_Z (Z.of_nat r) * x.
Proof.
  induction r as [|r IH]; [simpl; ring|].
  cbn [repeat qsum]. rewrite IH, Nat2Z.inj_succ, <- Z.add_1_r, inject_Z_plus. ring.
Qed.

Lemma sc_mean_placeholder reps : reps <> 0%nat -> sr_mean (repeat (-1) reps) == -1.
Proof.
  intros Hr. unfold sr_mean. rewrite repeat_length, sc_qsum_repeat. field.
  intro E. unfold Qeq in E. simpl in E. lia.
Qed.

Lemma sc_placeholder_rel c reps : sc_best_rel c (sr_placeholder reps) (sr_placeholder reps).
Proof.
  split; [reflexivity|]. destruct reps as [|r].
  - right. simpl. split; [constructor|]. split; intro E; vm_compute in E; discriminate.
  - left. split; [reflexivity|]. apply sc_mean_placeholder. discriminate.
Qed.

Lemma sc_Forall2_nth {A B} (R : A -> B -> Prop) l l' k : Forall2 R l l' ->
  match nth_error l k, nth_error l' k with
  | Some a, Some b => R a b
  | None, None => True
  | _, _ => False
  end.
Proof.
  intros H. revert k. induction H as [|a b l l' Hab H IH]; intros [|k]; simpl; auto. apply IH.
Qed.
Lemma sc_Forall2_firstn {A B} (R : A -> B -> Prop) l l' k : Forall2 R l l' -> Forall2 R (firstn k l) (firstn k l').
Proof. intros H. revert k. induction H as [|a b l l' Hab H IH]; intros [|k]; simpl; constructor; auto. Qed.
Lemma sc_Forall2_skipn {A B} (R : A -> B -> Prop) l l' k : Forall2 R l l' -> Forall2 R (skipn k l) (skipn k l').
Proof. intros H. revert k. induction H as [|a b l l' Hab H IH]; intros [|k]; simpl; auto. Qed.

Lemma sc_Qeq_bool_false x y : ~ x == y -> Qeq_bool x y = false.
Proof. intros H. destruct (Qeq_bool x y) eqn:E; [|reflexivity]. exfalso. apply H. apply Qeq_bool_eq. exact E. Qed.

Lemma sc_best_step c bests bests' x x' :
  0 < c -> Forall2 (sc_best_rel c) bests bests' -> sc_cand_rel c x x' ->
  ~ sr_mean (snd x) == -1 -> ~ sr_mean (snd x') == -1 ->
  Forall2 (sc_best_rel c) (sr_best_step bests x) (sr_best_step bests' x').
Proof.
  intros Hc HB [Ef Ec] N1 N2. unfold sr_best_step. rewrite Ef.
  pose proof (sc_Forall2_nth _ _ _ (length (fst x)) HB) as Hn.
  destruct (nth_error bests (length (fst x))) as [b|], (nth_error bests' (length (fst x))) as [b'|];
    try contradiction; [|exact HB].
  assert (E : (Qeq_bool (sr_mean (sb_col b')) (-1) || negb (Qle_bool (sr_mean (sb_col b')) (sr_mean (snd x'))))%bool
            = (Qeq_bool (sr_mean (sb_col b)) (-1) || negb (Qle_bool (sr_mean (sb_col b)) (sr_mean (snd x))))%bool).
  { destruct Hn as [_ [[E1 E2]|[E1 [E2 E3]]]].
    - rewrite E1. assert (T : Qeq_bool (sr_mean (sb_col b)) (-1) = true) by (apply Qeq_eq_bool; exact E2).
      rewrite T. reflexivity.
    - rewrite (sc_Qeq_bool_false _ _ E2), (sc_Qeq_bool_false _ _ E3). simpl. f_equal.
      apply (sc_Qle_bool c); [exact Hc| apply sc_mean; exact E1| apply sc_mean; exact Ec]. }
  rewrite E; clear E. destruct (_ || _)%bool; [|exact HB].
  apply Forall2_app; [apply sc_Forall2_firstn; exact HB|].
  constructor; [|apply sc_Forall2_skipn; exact HB].
  split; [reflexivity|]. right. simpl. auto.
Qed.

(* column level: candidates (sequence, gap column) with all columns multiplied by c > 0; -1 is the code's placeholder,
   so no candidate mean may equal it on either side (gaps are >= 0) *)
Theorem sc_best_states_scale (c : Q) (max_steps reps : nat) (cands cands' : list (list N * list Q)) :
  0 < c -> Forall2 (sc_cand_rel c) cands cands' ->
  (forall x, In x cands -> ~ sr_mean (snd x) == -1 /\ ~ c * sr_mean (snd x) == -1) ->
  Forall2 (sc_best_rel c) (sr_best_states max_steps reps cands) (sr_best_states max_steps reps cands').
Proof.
  intros Hc H Hne. unfold sr_best_states.
  assert (H0 : Forall2 (sc_best_rel c) (repeat (sr_placeholder reps) (S max_steps)) (repeat (sr_placeholder reps) (S max_steps))).
  { induction (S max_steps) as [|k IH]; simpl; constructor; [apply sc_placeholder_rel| exact IH]. }
  revert H0. generalize (repeat (sr_placeholder reps) (S max_steps)) at 1 3.
  generalize (repeat (sr_placeholder reps) (S max_steps)).
  induction H as [|x x' l l' Hx H IH]; intros bs' bs HB; simpl; [exact HB|].
  apply IH.
  - intros y Hy. apply Hne. right. exact Hy.
  - destruct (Hne x (or_introl eq_refl)) as [N1 N2].
    apply sc_best_step; auto. rewrite (sc_mean c (snd x) (snd x') (proj2 Hx)). exact N2.
Qed.

(* what it says about the report: same sequences, mean curve multiplied by c (placeholders stay -1) *)
Corollary sc_best_states_report c R R' : Forall2 (sc_best_rel c) R R' ->
  map sb_seq R' = map sb_seq R
  /\ Forall2 (fun b b' => (sr_mean (sb_col b) == -1 /\ sr_mean (sb_col b') == -1)
                          \/ sr_mean (sb_col b') == c * sr_mean (sb_col b)) R R'.
Proof.
  intros H. induction H as [|b b' l l' Hb H [IH1 IH2]]; simpl; [split; constructor|].
  destruct Hb as [Es Hcol]. split; [rewrite Es, IH1; reflexivity|]. constructor; [|exact IH2].
  destruct Hcol as [[E1 E2]|[E1 _]].
  - left. rewrite E1. split; exact E2.
  - right. apply sc_mean. exact E1.
Qed.

Corollary sc_best_states_scale_nonneg c max_steps reps cands cands' :
  0 < c -> Forall2 (sc_cand_rel c) cands cands' ->
  (forall x, In x cands -> 0 <= sr_mean (snd x)) ->
  Forall2 (sc_best_rel c) (sr_best_states max_steps reps cands) (sr_best_states max_steps reps cands').
Proof.
  intros Hc H Hnn. apply sc_best_states_scale; auto. intros x Hx. specialize (Hnn x Hx).
  split; intro E.
  - rewrite E in Hnn. apply (Qle_not_lt _ _ Hnn). reflexivity.
  - assert (0 <= c * sr_mean (snd x)) as P by (apply Qmult_le_0_compat; [apply Qlt_le_weak; exact Hc| exact Hnn]).
    rewrite E in P. apply (Qle_not_lt _ _ P). reflexivity.
Qed.

(* game level: candidates = reveal sets with their gap columns over sampled games all multiplied by the same c > 0 *)
Theorem sc_best_states_games c comp g n games games' kn max_steps reps (seqs : list (list N)) :
  0 < c -> Forall2 (sc_vals c) games games' ->
  (forall s, In s seqs -> 0 <= sr_mean (eg_value comp g n games kn s)) ->
  Forall2 (sc_best_rel (sc_gfac g c))
    (sr_best_states max_steps reps (map (fun s => (s, eg_value comp g n games kn s)) seqs))
    (sr_best_states max_steps reps (map (fun s => (s, eg_value comp g n games' kn s)) seqs)).
Proof.
  intros Hc H Hnn. apply sc_best_states_scale_nonneg; [apply sc_gfac_pos; exact Hc| |].
  - induction seqs as [|s seqs IH]; simpl; constructor.
    + split; [reflexivity|]. simpl. apply sc_eg_value; [apply Qlt_le_weak; exact Hc| exact H].
    + apply IH. intros s' Hs'. apply Hnn. right. exact Hs'.
  - intros x Hx. apply in_map_iff in Hx. destruct Hx as [s [<- Hs]]. simpl. apply Hnn. exact Hs.
Qed.

(* ================================================================== *)
(* summary statements used by the property files                       *)
(* ================================================================== *)
Lemma sc_games_map c games : Forall2 (sc_vals c) games (map (map (Qmult c)) games).
Proof. induction games as [|v gs IH]; simpl; constructor; [apply sc_vals_map| exact IH]. Qed.

(* bounds and gaps together: the computed tables are related, and so are the gaps of related tables
   (in particular of the computed ones) *)
Theorem sc_scale_free (c : Q) (comp : computer) (n : nat) (t t' : table) :
  0 <= c -> sc_rel c t t' ->
  sc_opt_rel c (compute comp n t) (compute comp n t')
  /\ (forall g, sc_optq_rel (sc_gfac g c) (ev_gap g n t) (ev_gap g n t'))
  /\ (forall g, sc_optq_rel (sc_gfac g c)
                  (match compute comp n t with Some t1 => ev_gap g n t1 | None => None end)
                  (match compute comp n t' with Some t1 => ev_gap g n t1 | None => None end))
  /\ (sc_optq_rel c (ex_exploit_tab n t) (ex_exploit_tab n t')
      /\ nm_l1 n (nm_width_tab t') == c * nm_l1 n (nm_width_tab t)
      /\ nm_linf n (nm_width_tab t') == c * nm_linf n (nm_width_tab t)
      /\ nm_l2sq n (nm_width_tab t') == c * c * nm_l2sq n (nm_width_tab t)).
Proof.
  intros Hc H. pose proof (sc_compute_homogeneous c comp n t t' Hc H) as R.
  split; [exact R|]. split; [intros g; apply sc_ev_gap_homogeneous; assumption|].
  split; [|apply sc_gap_homogeneous; assumption].
  intros g. destruct (compute comp n t) as [a|], (compute comp n t') as [b|]; simpl in R; try contradiction; [|exact I].
  apply sc_ev_gap_homogeneous; assumption.
Qed.

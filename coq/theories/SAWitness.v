(* SAWitness: the upper bound of every unknown coalition is attained by a superadditive completion (C02).
   The witness is explicit:  w X = max (L X) (U S + L (X \ S)) if S is contained in X, and L X otherwise. *)
From ICG Require Import Prelude Bits Table Bounds FoldLemmas BoundsSpec SASound SATight.

Lemma sub_disj_not_sub S a b : S <> 0%N -> sub S a = true -> disjb a b = true -> sub S b = false.
Proof.
  intros Hne Ha Hd. apply not_true_iff_false. intro Hb. apply Hne.
  rewrite sub_spec in Ha, Hb. rewrite disjb_spec in Hd.
  apply bits_inj_nat. intro i. rewrite tb_0. destruct (tb S i) eqn:E; auto.
  pose proof (Ha i E) as A. pose proof (Hb i E) as B. apply Hd in A. congruence.
Qed.

Lemma ldiff_lor_distr S a b : sub S a = true -> disjb a b = true ->
  N.ldiff (N.lor a b) S = N.lor (N.ldiff a S) b /\ disjb (N.ldiff a S) b = true.
Proof.
  intros Ha Hd. rewrite sub_spec in Ha. rewrite disjb_spec in Hd. split.
  - apply bits_inj_nat. intro i. rewrite tb_ldiff, !tb_lor, tb_ldiff.
    destruct (tb a i) eqn:Ea; destruct (tb b i) eqn:Eb; destruct (tb S i) eqn:Es; simpl; auto.
    + apply Hd in Ea. congruence.
    + apply Ha in Es. congruence.
  - apply disjb_spec. intros i. rewrite tb_ldiff. intro H. apply andb_true_iff in H. destruct H as [H _].
    apply Hd. exact H.
Qed.

Lemma sub_lor_cases S a b : sub S (N.lor a b) = false -> sub S a = false /\ sub S b = false.
Proof.
  intros H. split; apply not_true_iff_false; intro H1; apply not_true_iff_false in H; apply H.
  - eapply sub_trans; [exact H1| apply sub_lor_l].
  - eapply sub_trans; [exact H1| apply sub_lor_r].
Qed.

Section Witness.
  Variable n : nat.
  Variable K : N -> bool.
  Variable v l u : N -> Q.
  Hypothesis HSA : SA n v.
  Hypothesis Hv0 : v 0%N == 0.
  Hypothesis HM : MinK n K.
  Hypothesis Hsol : sa_sol n K v l u.
  Variable S : N.
  Hypothesis HbS : bounded n S.
  Hypothesis HkS : K S = false.

  Definition witness (X : N) : Q :=
    if sub S X then Qmax (l X) (u S + l (N.ldiff X S)) else l X.

  Lemma lSA : SA n l.
  Proof. exact (l_superadditive n K v l u HSA Hv0 HM Hsol). Qed.
  Lemma l0 : l 0%N == 0.
  Proof. exact (l_zero n K v l u Hv0 HM Hsol). Qed.

  Lemma S_ne0 : S <> 0%N.
  Proof. intro E. destruct HM as [H0 _]. rewrite E in HkS. congruence. Qed.

  Lemma l_le_u_S : l S <= u S.
  Proof.
    pose proof (l_sound n K v l u HSA HM Hsol S HbS).
    pose proof (upper_sound n K v l u HSA HM (sol_kl _ _ _ _ _ Hsol) (sol_lo _ _ _ _ _ Hsol) (sol_hi _ _ _ _ _ Hsol) S HbS HkS).
    lra.
  Qed.

  Lemma witness_at_S : witness S == u S.
  Proof.
    unfold witness. rewrite sub_refl.
    assert (E : N.ldiff S S = 0%N).
    { apply bits_inj_nat. intro i. rewrite tb_ldiff, tb_0. destruct (tb S i); reflexivity. }
    rewrite E, l0. pose proof l_le_u_S. rewrite Q.max_r; lra.
  Qed.

  Lemma witness_zero : witness 0%N == 0.
  Proof.
    unfold witness. destruct (sub S 0) eqn:E; [|exact l0].
    exfalso. apply S_ne0. apply sub_antisym; [exact E| apply sub_0_l].
  Qed.

  Lemma witness_ge_l X : l X <= witness X.
  Proof. unfold witness. destruct (sub S X); [apply Q.le_max_l| apply Qle_refl]. Qed.

  Lemma witness_known T : bounded n T -> K T = true -> witness T == v T.
  Proof.
    intros HbT HkT. unfold witness. destruct (sub S T) eqn:E.
    - assert (Hss : ssub S T = true).
      { unfold ssub. rewrite E. simpl. apply negb_true_iff. apply N.eqb_neq. intro; subst. congruence. }
      pose proof (upper_caps n K v l u Hsol S T HbS HkS HbT HkT Hss) as Hc.
      rewrite (sol_kl _ _ _ _ _ Hsol T HbT HkT). rewrite Q.max_l; [reflexivity| lra].
    - apply (sol_kl _ _ _ _ _ Hsol T HbT HkT).
  Qed.

  Lemma witness_SA : SA n witness.
  Proof.
    intros a b Ha Hb Hd.
    destruct (N.eq_dec a 0) as [->|Hane]; [rewrite N.lor_0_l, witness_zero; lra|].
    destruct (N.eq_dec b 0) as [->|Hbne]; [rewrite N.lor_0_r, witness_zero; lra|].
    pose proof (lSA a b Ha Hb Hd) as Hab.
    destruct (sub S (N.lor a b)) eqn:EX.
    - destruct (sub S a) eqn:Ea.
      + pose proof (sub_disj_not_sub S a b S_ne0 Ea Hd) as Eb.
        destruct (ldiff_lor_distr S a b Ea Hd) as [E1 E2].
        unfold witness at 1 2 3. rewrite Ea, Eb, EX. rewrite E1.
        pose proof (lSA (N.ldiff a S) b (bounded_ldiff n a S Ha) Hb E2) as H2.
        apply Q.max_case_strong with (n := l a) (m := u S + l (N.ldiff a S)).
        * intros x y Hxy. rewrite Hxy. tauto.
        * intros _. eapply Qle_trans; [exact Hab| apply Q.le_max_l].
        * intros _. eapply Qle_trans; [| apply Q.le_max_r]. lra.
      + destruct (sub S b) eqn:Eb.
        * rewrite disjb_sym in Hd.
          destruct (ldiff_lor_distr S b a Eb Hd) as [E1 E2].
          unfold witness at 1 2 3. rewrite Ea, Eb, EX. rewrite (N.lor_comm a b), E1.
          pose proof (lSA (N.ldiff b S) a (bounded_ldiff n b S Hb) Ha E2) as H2.
          rewrite (N.lor_comm a b) in Hab.
          apply Q.max_case_strong with (n := l b) (m := u S + l (N.ldiff b S)).
          -- intros x y Hxy. rewrite Hxy. tauto.
          -- intros _. eapply Qle_trans; [| apply Q.le_max_l]. lra.
          -- intros _. eapply Qle_trans; [| apply Q.le_max_r]. lra.
        * unfold witness at 1 2. rewrite Ea, Eb.
          eapply Qle_trans; [exact Hab| apply witness_ge_l].
    - destruct (sub_lor_cases S a b EX) as [Ea Eb].
      unfold witness. rewrite Ea, Eb, EX. exact Hab.
  Qed.

  Theorem upper_attained : exists w, Completion n K v w /\ w S == u S.
  Proof.
    exists witness. split; [|apply witness_at_S].
    split; [apply witness_SA|]. split; [apply witness_zero|]. intros s Hb Hk. apply witness_known; assumption.
  Qed.
End Witness.

From ICG Require Import SAEquiv.

(* C02, attainment at table level *)
Theorem sa_upper_attained (c : computer) n K v t t' :
  (c = CRef \/ c = CCached) -> SA n v -> v 0%N == 0 -> MinK n K -> agrees n t K v -> compute c n t = Some t' ->
  forall s, bounded n s -> exists w, Completion n K v w /\ w s == U t' s.
Proof.
  intros Hc HSA Hv0 HM Hag Hcomp s Hb.
  pose proof (sa_sol_of_compute c n K v t t' Hc HM Hag Hcomp) as S.
  destruct (K s) eqn:Hk.
  - exists (L t'). split; [apply (lower_is_completion n K v _ _ HSA Hv0 HM S)|].
    rewrite (sol_kl _ _ _ _ _ S s Hb Hk), (sol_ku _ _ _ _ _ S s Hb Hk). reflexivity.
  - apply (upper_attained n K v _ _ HSA Hv0 HM S s Hb Hk).
Qed.

Theorem sa_lower_attained (c : computer) n K v t t' :
  (c = CRef \/ c = CCached) -> SA n v -> v 0%N == 0 -> MinK n K -> agrees n t K v -> compute c n t = Some t' ->
  forall s, bounded n s -> exists w, Completion n K v w /\ w s == L t' s.
Proof.
  intros Hc HSA Hv0 HM Hag Hcomp s Hb.
  pose proof (sa_sol_of_compute c n K v t t' Hc HM Hag Hcomp) as S.
  exists (L t'). split; [apply (lower_is_completion n K v _ _ HSA Hv0 HM S)| reflexivity].
Qed.

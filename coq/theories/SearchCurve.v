(* SearchCurve: the best-states curve (per-size minimum of the mean gap over ALL reveal sets of that size) is
   non-increasing when one more revealed coalition never increases the mean gap (C11). *)
From ICG Require Import Prelude Bits Table Search SearchProofs Combs CombsProofs.

Lemma cb_sublist_single {A} (a : A) l : In a l -> cb_sublist [a] l.
Proof.
  induction l as [|x l IH]; [intros []|]. intros [->|H].
  - apply cb_sl_cons. apply cb_sl_nil.
  - apply cb_sl_skip. apply IH. exact H.
Qed.

(* a sub-list can be extended by one more element of the list, staying a sub-list *)
Lemma cb_sublist_insert {A} (s l : list A) a :
  cb_sublist s l -> In a l -> ~ In a s ->
  exists s', cb_sublist s' l /\ length s' = S (length s) /\ (forall x, In x s' <-> x = a \/ In x s).
Proof.
  intros H. induction H as [l|x s l H IH|x s l H IH]; intros Ha Hn.
  - exists [a]. split; [apply cb_sublist_single; exact Ha|]. split; [reflexivity|]. intros x. simpl. intuition.
  - destruct Ha as [->|Ha]; [exfalso; apply Hn; left; reflexivity|].
    destruct (IH Ha (fun Hin => Hn (or_intror Hin))) as [s' [H1 [H2 H3]]].
    exists (x :: s'). split; [apply cb_sl_cons; exact H1|]. split; [simpl; rewrite H2; reflexivity|].
    intros y. simpl. rewrite H3. intuition.
  - destruct Ha as [->|Ha].
    + exists (a :: s). split; [apply cb_sl_cons; exact H|]. split; [reflexivity|]. intros y. simpl. intuition.
    + destruct (IH Ha Hn) as [s' [H1 [H2 H3]]]. exists s'. split; [apply cb_sl_skip; exact H1|]. auto.
Qed.

Lemma cb_sublist_proper_missing {A} (s l : list A) :
  NoDup l -> cb_sublist s l -> (length s < length l)%nat -> exists a, In a l /\ ~ In a s.
Proof.
  intros Hnd H. induction H as [l|x s l H IH|x s l H IH]; intros Hlt.
  - destruct l as [|a l]; [simpl in Hlt; lia|]. exists a. split; [left; reflexivity| intros []].
  - inversion Hnd as [|? ? Hx Hl]; subst. destruct (IH Hl ltac:(simpl in Hlt; lia)) as [a [H1 H2]].
    exists a. split; [right; exact H1|]. intros [->|Hin]; [contradiction| contradiction].
  - inversion Hnd as [|? ? Hx Hl]; subst. exists x. split; [left; reflexivity|].
    intro Hin. apply Hx. eapply cb_sublist_In; eauto.
Qed.

Section Curve.
  Variable value : list N -> list Q.                 (* gap column over the sampled games *)
  Variable acts : list N.
  Hypothesis Hnd : NoDup acts.
  (* the value depends only on the set of revealed coalitions (C11_value_depends_on_set) *)
  Hypothesis Hset : forall s1 s2, (forall x, In x s1 <-> In x s2) -> value s1 = value s2.
  (* one more revealed coalition never increases the mean gap (C11_value_monotone_* + C11_mean_monotone) *)
  Hypothesis Hmono : forall s a, sr_mean (value (s ++ [a])) <= sr_mean (value s).
  (* placeholder convention *)
  Hypothesis Hne : forall s, ~ sr_mean (value s) == -1.
  Variable reps : nat.
  Hypothesis Hph : sr_mean (repeat (-1) reps) == -1.

  Definition sc_cands (m : nat) : list (list N * list Q) := map (fun s => (s, value s)) (cb_upto m acts).

  Lemma sc_cands_of_size m k : sr_cands_of_size k (sc_cands m) = map (fun s => (s, value s)) (filter (fun s => Nat.eqb (length s) k) (cb_upto m acts)).
  Proof.
    unfold sr_cands_of_size, sc_cands. induction (cb_upto m acts) as [|s l IH]; simpl; [reflexivity|].
    destruct (Nat.eqb (length s) k); simpl; rewrite IH; reflexivity.
  Qed.

  Theorem sr_best_curve_nonincreasing max_steps k bk bk1 :
    (S k <= max_steps)%nat -> (S k <= length acts)%nat ->
    nth_error (sr_best_states max_steps reps (sc_cands max_steps)) k = Some bk ->
    nth_error (sr_best_states max_steps reps (sc_cands max_steps)) (S k) = Some bk1 ->
    sr_mean (sb_col bk1) <= sr_mean (sb_col bk).
  Proof.
    intros Hk Hlen Hbk Hbk1.
    assert (Hne' : forall c, In c (sc_cands max_steps) -> ~ sr_mean (snd c) == -1).
    { intros c Hc. unfold sc_cands in Hc. apply in_map_iff in Hc. destruct Hc as [s [<- _]]. apply Hne. }
    pose proof (sr_best_states_min max_steps reps (sc_cands max_steps) k ltac:(lia) Hne' Hph) as Pk.
    pose proof (sr_best_states_min max_steps reps (sc_cands max_steps) (S k) ltac:(lia) Hne' Hph) as Pk1.
    rewrite Hbk in Pk. rewrite Hbk1 in Pk1.
    (* the stored k-entry is a real candidate: a sub-list of acts of length k *)
    destruct (sr_cands_of_size k (sc_cands max_steps)) as [|c0 cr] eqn:Ek.
    { exfalso. (* there is a k-subset: the first k actions *)
      assert (Hin : In (firstn k acts, value (firstn k acts)) (sr_cands_of_size k (sc_cands max_steps))).
      { rewrite sc_cands_of_size. apply in_map_iff. exists (firstn k acts). split; [reflexivity|].
        apply filter_In. split.
        - apply cb_upto_in. split; [|rewrite firstn_length; lia].
          clear. revert k. induction acts as [|x l IH]; intros [|k]; simpl; try apply cb_sl_nil. apply cb_sl_cons. apply IH.
        - rewrite firstn_length. apply Nat.eqb_eq. lia. }
      rewrite Ek in Hin. destruct Hin. }
    rewrite <- Ek in Pk. destruct Pk as [Pin _].
    rewrite sc_cands_of_size in Pin. apply in_map_iff in Pin. destruct Pin as [s [Es Hs]].
    injection Es as Es1 Es2. apply filter_In in Hs. destruct Hs as [Hs Hls]. apply Nat.eqb_eq in Hls.
    apply cb_upto_in in Hs. destruct Hs as [Hsub _].
    destruct (cb_sublist_proper_missing s acts Hnd Hsub ltac:(lia)) as [a [Ha Hna]].
    destruct (cb_sublist_insert s acts a Hsub Ha Hna) as [s' [H1 [H2 H3]]].
    assert (Hin' : In (s', value s') (sr_cands_of_size (S k) (sc_cands max_steps))).
    { rewrite sc_cands_of_size. apply in_map_iff. exists s'. split; [reflexivity|]. apply filter_In. split.
      - apply cb_upto_in. split; [exact H1| lia].
      - apply Nat.eqb_eq. lia. }
    destruct (sr_cands_of_size (S k) (sc_cands max_steps)) as [|c1 cr1] eqn:Ek1; [destruct Hin'|].
    rewrite <- Ek1 in Pk1. destruct Pk1 as [_ Pmin]. rewrite <- Ek1 in Hin'.
    eapply Qle_trans; [apply (Pmin _ Hin')|]. simpl.
    rewrite (Hset s' (s ++ [a])).
    - rewrite <- Es2. apply Hmono.
    - intros x. rewrite H3, in_app_iff. simpl. intuition.
  Qed.
End Curve.

(* EnumProofs: the enumerations of Enum.v agree with finite-set semantics (all n, all coalitions). *)
From Coq Require Import NArith List Arith Bool Lia Ndigits Sorted Permutation.
From ICG Require Import Bits Combs CombsProofs Enum.
Import ListNotations.
Local Open Scope N_scope.

(* ---------- small list facts ---------- *)
Lemma en_filter_nil {A} (f : A -> bool) l : (forall x, In x l -> f x = false) -> filter f l = [].
Proof.
  induction l as [|x l IH]; intros H; simpl; auto.
  rewrite (H x) by (left; reflexivity). apply IH. intros y Hy. apply H. right. exact Hy.
Qed.

Lemma en_filter_seq_sorted (f : nat -> bool) a n : StronglySorted lt (filter f (seq a n)).
Proof.
  revert a. induction n as [|n IH]; intros a; simpl; [constructor|].
  destruct (f a); [|apply IH]. constructor; [apply IH|].
  apply Forall_forall. intros x Hx. apply filter_In in Hx. destruct Hx as [Hx _]. apply in_seq in Hx. lia.
Qed.

Lemma en_filter_seq_NoDup (f : nat -> bool) a n : NoDup (filter f (seq a n)).
Proof. apply NoDup_filter, seq_NoDup. Qed.

(* filtering a longer range adds nothing when the predicate is false beyond m *)
Lemma en_filter_seq_extend (f : nat -> bool) a m k :
  (forall j, (a + m <= j)%nat -> f j = false) -> filter f (seq a (m + k)) = filter f (seq a m).
Proof.
  intros H. rewrite seq_app, filter_app. rewrite (en_filter_nil f (seq (a + m) k)); [apply app_nil_r|].
  intros x Hx. apply in_seq in Hx. apply H. lia.
Qed.

Lemma en_filter_seq_eq (f : nat -> bool) m1 m2 :
  (forall j, (m1 <= j)%nat -> f j = false) -> (forall j, (m2 <= j)%nat -> f j = false) ->
  filter f (seq 0 m1) = filter f (seq 0 m2).
Proof.
  intros H1 H2. destruct (Nat.le_ge_cases m1 m2) as [H|H].
  - replace m2 with (m1 + (m2 - m1))%nat by lia. symmetry. apply en_filter_seq_extend. exact H1.
  - replace m1 with (m2 + (m1 - m2))%nat by lia. apply en_filter_seq_extend. exact H2.
Qed.

(* ---------- bits ---------- *)
Lemma en_tb_size c j : (N.size_nat c <= j)%nat -> tb c j = false.
Proof. intros H. unfold tb. rewrite Ntestbit_Nbit. apply Nbit_Nsize. exact H. Qed.

Lemma en_bounded_size c : bounded (N.size_nat c) c.
Proof. intros i Hi. apply en_tb_size. exact Hi. Qed.

Lemma en_tb_shiftr c j : tb (N.shiftr c 1) j = tb c (S j).
Proof. unfold tb. rewrite N.shiftr_spec by lia. f_equal. lia. Qed.

Lemma en_size_shiftr c : N.size_nat (N.shiftr c 1) = pred (N.size_nat c).
Proof. rewrite <- N.div2_spec. destruct c as [|[p|p|]]; reflexivity. Qed.

Lemma en_land_1 c : N.land c 1 = if tb c 0 then 1 else 0.
Proof.
  apply bits_inj_nat. intro i. rewrite tb_land. destruct i as [|i].
  - destruct (tb c 0); reflexivity.
  - replace (tb 1 (S i)) with false by (unfold tb; destruct i; reflexivity).
    rewrite andb_false_r. destruct (tb c 0); [unfold tb; destruct i; reflexivity| symmetry; apply tb_0].
Qed.

Lemma en_land_1_eqb c : (N.land c 1 =? 0) = negb (tb c 0).
Proof. rewrite en_land_1. destruct (tb c 0); reflexivity. Qed.

Lemma en_tb_pow2 p i : tb (2 ^ N.of_nat p) i = Nat.eqb p i.
Proof. rewrite <- tb_single. unfold single. rewrite N.shiftl_1_l. reflexivity. Qed.

Lemma en_pow2_single p : 2 ^ N.of_nat p = single p.
Proof. unfold single. rewrite N.shiftl_1_l. reflexivity. Qed.

(* ================= Coalition.players ================= *)
Lemma en_players_loop_spec f c i :
  (N.size_nat c <= f)%nat -> en_players_loop f c i = filter (fun j => tb c (j - i)) (seq i f).
Proof.
  revert c i. induction f as [|f IH]; intros c i Hs; [reflexivity|].
  cbn [en_players_loop]. destruct (N.eqb_spec c 0) as [->|Hne].
  - symmetry. apply en_filter_nil. intros x _. apply tb_0.
  - cbn [seq filter]. rewrite Nat.sub_diag, en_land_1_eqb.
    rewrite IH by (rewrite en_size_shiftr; lia).
    assert (E : filter (fun j => tb (N.shiftr c 1) (j - S i)) (seq (S i) f)
                = filter (fun j => tb c (j - i)) (seq (S i) f)).
    { apply filter_ext_in. intros j Hj. apply in_seq in Hj. rewrite en_tb_shiftr. f_equal. lia. }
    rewrite E. destruct (tb c 0); reflexivity.
Qed.

(* the list of players is exactly the filter of the set bits *)
Theorem en_players_filter c : en_players c = filter (tb c) (seq 0 (N.size_nat c)).
Proof.
  unfold en_players. rewrite en_players_loop_spec by lia. apply filter_ext. intro j. f_equal. lia.
Qed.

(* the loop ends because the coalition became 0, not because the fuel ran out *)
Theorem en_players_fuel c f i : (N.size_nat c <= f)%nat -> en_players_loop f c i = en_players_loop (N.size_nat c) c i.
Proof.
  intros H. rewrite !en_players_loop_spec by lia.
  replace f with (N.size_nat c + (f - N.size_nat c))%nat by lia.
  apply en_filter_seq_extend. intros j Hj. apply en_tb_size. lia.
Qed.

(* object players = the hand model of Bits.v, for every n that bounds the coalition *)
Theorem en_players_bits n c : bounded n c -> en_players c = players n c.
Proof.
  intros Hb. rewrite en_players_filter. unfold players. apply en_filter_seq_eq; [apply en_bounded_size| exact Hb].
Qed.

Theorem en_players_spec c i : In i (en_players c) <-> tb c i = true.
Proof.
  rewrite en_players_filter, filter_In, in_seq. split; [tauto|]. intros H. split; auto.
  destruct (Nat.lt_ge_cases i (N.size_nat c)); [lia|]. rewrite en_tb_size in H by lia. discriminate.
Qed.

Theorem en_players_spec_n n c i : bounded n c -> In i (en_players c) <-> tb c i = true /\ (i < n)%nat.
Proof.
  intros Hb. rewrite en_players_spec. split; [|tauto]. intros H. split; auto.
  destruct (Nat.lt_ge_cases i n); auto. rewrite Hb in H by lia. discriminate.
Qed.

Theorem en_players_sorted c : StronglySorted lt (en_players c).
Proof. rewrite en_players_filter. apply en_filter_seq_sorted. Qed.

Theorem en_players_NoDup c : NoDup (en_players c).
Proof. rewrite en_players_filter. apply en_filter_seq_NoDup. Qed.

(* ================= Coalition.__len__ ================= *)
Lemma en_len_loop_spec f c s i : en_len_loop f c s = s + N.of_nat (length (en_players_loop f c i)).
Proof.
  revert c s i. induction f as [|f IH]; intros c s i; cbn [en_len_loop en_players_loop]; [simpl; lia|].
  destruct (N.eqb_spec c 0) as [->|Hne]; [simpl; lia|].
  rewrite (IH _ _ (S i)), app_length, en_land_1_eqb, en_land_1. destruct (tb c 0); simpl; lia.
Qed.

Theorem en_len_spec c : en_len c = length (en_players c).
Proof. unfold en_len, en_players. rewrite (en_len_loop_spec _ _ _ 0%nat). lia. Qed.

Theorem en_len_size n c : bounded n c -> en_len c = size n c.
Proof. intros Hb. rewrite en_len_spec, (en_players_bits n c Hb). reflexivity. Qed.

(* ================= Coalition.from_players ================= *)
Lemma en_add_pow2 a p : tb a p = false -> a + 2 ^ N.of_nat p = N.lor a (2 ^ N.of_nat p).
Proof.
  intros H. assert (E : N.land a (2 ^ N.of_nat p) = 0).
  { apply bits_inj_nat. intro i. rewrite tb_land, tb_0, en_tb_pow2.
    destruct (Nat.eqb_spec p i) as [<-|]; [rewrite H; reflexivity| apply andb_false_r]. }
  rewrite N.add_nocarry_lxor by exact E. apply N.lxor_lor. exact E.
Qed.

Lemma en_from_fold l acc i :
  NoDup l -> (forall p, In p l -> tb acc p = false) ->
  tb (fold_left (fun id p => id + 2 ^ N.of_nat p) l acc) i = tb acc i || existsb (Nat.eqb i) l.
Proof.
  revert acc. induction l as [|p l IH]; intros acc Hnd Hacc; cbn [fold_left existsb]; [rewrite orb_false_r; reflexivity|].
  inversion Hnd as [|? ? Hp Hl]; subst.
  rewrite en_add_pow2 by (apply Hacc; left; reflexivity).
  rewrite IH; auto.
  - rewrite tb_lor, en_tb_pow2, (Nat.eqb_sym p i), orb_assoc. reflexivity.
  - intros q Hq. rewrite tb_lor, en_tb_pow2, (Hacc q) by (right; exact Hq). simpl.
    apply Nat.eqb_neq. intros ->. contradiction.
Qed.

(* duplicates collapse: the id has exactly the listed players as set bits *)
Theorem en_from_players_tb l i : tb (en_from_players l) i = existsb (Nat.eqb i) l.
Proof.
  unfold en_from_players. rewrite en_from_fold.
  - rewrite tb_0. simpl. apply eq_true_iff_eq. rewrite !existsb_exists.
    split; intros [x [Hx E]]; exists x; (split; [|exact E]).
    + apply (proj1 (nodup_In Nat.eq_dec l x)). exact Hx.
    + apply (proj2 (nodup_In Nat.eq_dec l x)). exact Hx.
  - apply NoDup_nodup.
  - intros p _. apply tb_0.
Qed.

Theorem en_from_players_spec l i : tb (en_from_players l) i = true <-> In i l.
Proof.
  rewrite en_from_players_tb, existsb_exists. split.
  - intros [x [Hx E]]. apply Nat.eqb_eq in E. subst. exact Hx.
  - intros H. exists i. split; auto. apply Nat.eqb_refl.
Qed.

Theorem en_from_players_ext l1 l2 : (forall i, In i l1 <-> In i l2) -> en_from_players l1 = en_from_players l2.
Proof.
  intros H. apply bits_inj_nat. intro i. apply eq_true_iff_eq. rewrite !en_from_players_spec. apply H.
Qed.

(* round trips *)
Theorem en_from_players_players c : en_from_players (en_players c) = c.
Proof. apply bits_inj_nat. intro i. apply eq_true_iff_eq. rewrite en_from_players_spec. apply en_players_spec. Qed.

Theorem en_from_players_single i : en_from_players [i] = single i.
Proof.
  apply bits_inj_nat. intro j. rewrite en_from_players_tb, tb_single. simpl. rewrite orb_false_r. apply Nat.eqb_sym.
Qed.

(* ================= coalition_ids (numpy id arrays) ================= *)
Lemma en_ids_bit_tb c i : en_ids_bit c i = tb c i.
Proof.
  unfold en_ids_bit.
  assert (E : N.land (2 ^ N.of_nat i) c = if tb c i then 2 ^ N.of_nat i else 0).
  { apply bits_inj_nat. intro j. rewrite tb_land, en_tb_pow2. destruct (Nat.eqb_spec i j) as [<-|Hne].
    - destruct (tb c i) eqn:E; [rewrite en_tb_pow2, Nat.eqb_refl; reflexivity| rewrite tb_0; reflexivity].
    - destruct (tb c i); [rewrite en_tb_pow2; apply Nat.eqb_neq in Hne; rewrite Hne; reflexivity| rewrite tb_0; reflexivity]. }
  rewrite E. destruct (tb c i); [|reflexivity].
  apply negb_true_iff, N.eqb_neq, N.pow_nonzero. discriminate.
Qed.

Lemma en_ltb_bounded n c : (c <? 2 ^ N.of_nat n) = true <-> bounded n c.
Proof. rewrite N.ltb_lt. symmetry. apply bounded_lt. Qed.

Theorem en_ids_players_spec n c : bounded n c -> en_ids_players n c = Some (players n c).
Proof.
  intros Hb. unfold en_ids_players. rewrite (proj2 (en_ltb_bounded n c) Hb). f_equal.
  apply filter_ext. intro i. apply en_ids_bit_tb.
Qed.

(* the documented assert: ids not below 2^n are refused *)
Theorem en_ids_players_err n c : ~ bounded n c -> en_ids_players n c = None.
Proof.
  intros Hb. unfold en_ids_players. destruct (c <? 2 ^ N.of_nat n) eqn:E; [|reflexivity].
  exfalso. apply Hb, en_ltb_bounded, E.
Qed.

Theorem en_ids_size_spec n c : bounded n c -> en_ids_size n c = Some (size n c).
Proof.
  intros Hb. unfold en_ids_size. rewrite (proj2 (en_ltb_bounded n c) Hb). f_equal.
  unfold size, players. f_equal. apply filter_ext. intro i. apply en_ids_bit_tb.
Qed.

Theorem en_ids_size_err n c : ~ bounded n c -> en_ids_size n c = None.
Proof.
  intros Hb. unfold en_ids_size. destruct (c <? 2 ^ N.of_nat n) eqn:E; [|reflexivity].
  exfalso. apply Hb, en_ltb_bounded, E.
Qed.

(* object and id versions of players / size agree *)
Theorem en_players_obj_ids n c : bounded n c -> en_ids_players n c = Some (en_players c).
Proof. intros Hb. rewrite (en_players_bits n c Hb). apply en_ids_players_spec, Hb. Qed.
Theorem en_len_obj_ids n c : bounded n c -> en_ids_size n c = Some (en_len c).
Proof. intros Hb. rewrite (en_len_size n c Hb). apply en_ids_size_spec, Hb. Qed.

Lemma en_lor_sub x c : (N.lor x c =? c) = sub x c.
Proof.
  unfold sub. apply eq_true_iff_eq. rewrite !N.eqb_eq. split; intros H; apply bits_inj_nat; intro i.
  - assert (E : tb (N.lor x c) i = tb c i) by (rewrite H; reflexivity). rewrite tb_lor in E. rewrite tb_land.
    destruct (tb x i), (tb c i); simpl in *; congruence.
  - assert (E : tb (N.land x c) i = tb x i) by (rewrite H; reflexivity). rewrite tb_land in E. rewrite tb_lor.
    destruct (tb x i), (tb c i); simpl in *; congruence.
Qed.

Lemma en_max_ge l i : In i l -> (i <= fold_right Nat.max 0 l)%nat.
Proof.
  induction l as [|x l IH]; intros H; [destruct H|]. simpl. destruct H as [->|H]; [lia|]. specialize (IH H). lia.
Qed.

Lemma en_filter_map {A B} (f : B -> bool) (g : A -> B) l : filter f (map g l) = map g (filter (fun x => f (g x)) l).
Proof. induction l as [|x l IH]; simpl; auto. destruct (f (g x)); simpl; rewrite IH; reflexivity. Qed.

Lemma en_pow_nat m : N.of_nat (2 ^ m) = 2 ^ N.of_nat m.
Proof. rewrite Nat2N.inj_pow. reflexivity. Qed.

(* the subsets of c, in id order, do not depend on the width of the enumeration *)
Lemma en_filter_sub_alln m n c :
  bounded m c -> bounded n c -> filter (fun x => sub x c) (alln m) = filter (fun x => sub x c) (alln n).
Proof.
  intros Hm Hn. unfold alln. rewrite !en_filter_map. f_equal.
  assert (G : forall k, bounded k c -> forall j, (2 ^ k <= j)%nat -> sub (N.of_nat j) c = false).
  { intros k Hk j Hj. destruct (sub (N.of_nat j) c) eqn:E; auto. exfalso.
    pose proof (bounded_sub _ _ _ Hk E) as Hb. apply bounded_lt in Hb. rewrite <- en_pow_nat in Hb. lia. }
  apply en_filter_seq_eq; [apply (G m Hm)| apply (G n Hn)].
Qed.

Theorem en_ids_sub_eq n c : bounded n c -> en_ids_sub n c = Some (filter (fun x => sub x c) (alln n)).
Proof.
  intros Hb. unfold en_ids_sub. rewrite (proj2 (en_ltb_bounded n c) Hb), (en_ids_players_spec n c Hb).
  cbv zeta. f_equal.
  rewrite (filter_ext _ (fun x => sub x c)) by (intro x; apply en_lor_sub).
  apply en_filter_sub_alln; [|exact Hb].
  intros i Hi. destruct (tb c i) eqn:E; auto. exfalso.
  assert (Hin : In i (players n c)).
  { unfold players. apply filter_In. split; auto. apply in_seq.
    destruct (Nat.lt_ge_cases i n); [lia|]. rewrite Hb in E by lia. discriminate. }
  apply en_max_ge in Hin. lia.
Qed.

Theorem en_ids_sub_err n c : ~ bounded n c -> en_ids_sub n c = None.
Proof.
  intros Hb. unfold en_ids_sub. destruct (c <? 2 ^ N.of_nat n) eqn:E; [|reflexivity].
  exfalso. apply Hb, en_ltb_bounded, E.
Qed.

Theorem en_ids_sub_spec n c l :
  bounded n c -> en_ids_sub n c = Some l ->
  NoDup l /\ StronglySorted N.lt l /\ forall x, In x l <-> sub x c = true.
Proof.
  intros Hb E. rewrite (en_ids_sub_eq n c Hb) in E. injection E as <-. split; [|split].
  - apply NoDup_filter, NoDup_alln.
  - unfold alln. rewrite en_filter_map. generalize (fun x : nat => sub (N.of_nat x) c). intros f.
    generalize (2 ^ n)%nat. intros k. generalize 0%nat. induction k as [|k IH]; intros a; simpl; [constructor|].
    destruct (f a); [|apply IH]. simpl. constructor; [apply IH|].
    apply Forall_forall. intros x Hx. apply in_map_iff in Hx. destruct Hx as [y [<- Hy]].
    apply filter_In in Hy. destruct Hy as [Hy _]. apply in_seq in Hy. lia.
  - intros x. rewrite filter_In, in_alln. split; [tauto|]. intros H. split; auto. apply (bounded_sub n x c); auto.
Qed.

(* ---------- super_coalitions ---------- *)
Lemma en_grand_pred n : 2 ^ N.of_nat n - 1 = grand n.
Proof. unfold grand. rewrite N.ones_equiv, N.pred_sub. reflexivity. Qed.

Lemma en_opposite n c : bounded n c -> N.lxor (2 ^ N.of_nat n - 1) c = N.ldiff (grand n) c.
Proof. intros Hb. rewrite en_grand_pred. apply lxor_ldiff. apply sub_grand. exact Hb. Qed.

Theorem en_ids_super_eq n c :
  bounded n c ->
  en_ids_super n c = Some (map (fun s => N.lor s c) (filter (fun x => sub x (N.ldiff (grand n) c)) (alln n))).
Proof.
  intros Hb. unfold en_ids_super. rewrite (proj2 (en_ltb_bounded n c) Hb), (en_opposite n c Hb).
  rewrite en_ids_sub_eq by (apply bounded_ldiff, bounded_grand). reflexivity.
Qed.

Theorem en_ids_super_err n c : ~ bounded n c -> en_ids_super n c = None.
Proof.
  intros Hb. unfold en_ids_super. destruct (c <? 2 ^ N.of_nat n) eqn:E; [|reflexivity].
  exfalso. apply Hb, en_ltb_bounded, E.
Qed.

(* x is a superset of c below 2^n  <->  x = s | c for a subset s of the complement *)
Lemma en_super_char n c x :
  bounded n c ->
  (exists s, sub s (N.ldiff (grand n) c) = true /\ x = N.lor s c) <-> (sub c x = true /\ bounded n x).
Proof.
  intros Hb. split.
  - intros [s [Hs ->]]. split; [apply sub_lor_r|]. apply bounded_lor; auto.
    apply (bounded_sub n s (N.ldiff (grand n) c)); auto. apply bounded_ldiff, bounded_grand.
  - intros [Hs Hx]. exists (N.ldiff x c). split.
    + apply sub_spec. intros i. rewrite !tb_ldiff, tb_grand. intro H. apply andb_true_iff in H. destruct H as [H1 H2].
      rewrite H2, andb_true_r. apply Nat.ltb_lt. destruct (Nat.lt_ge_cases i n); auto. rewrite Hx in H1 by lia. discriminate.
    + rewrite N.lor_comm. symmetry. apply lor_ldiff. exact Hs.
Qed.

Lemma en_lor_inj c s1 s2 : disjb s1 c = true -> disjb s2 c = true -> N.lor s1 c = N.lor s2 c -> s1 = s2.
Proof.
  intros H1 H2 E. rewrite disjb_sym in H1, H2.
  rewrite <- (ldiff_lor_disj c s1 H1), <- (ldiff_lor_disj c s2 H2). rewrite !(N.lor_comm c). rewrite E. reflexivity.
Qed.

Lemma en_sub_ldiff_disj s u c : sub s (N.ldiff u c) = true -> disjb s c = true.
Proof.
  rewrite sub_spec, disjb_spec. intros H i Hi. apply H in Hi. rewrite tb_ldiff in Hi.
  apply andb_true_iff in Hi. destruct Hi as [_ Hi]. apply negb_true_iff in Hi. exact Hi.
Qed.

Lemma en_NoDup_map_in {A B} (f : A -> B) l :
  (forall x y, In x l -> In y l -> f x = f y -> x = y) -> NoDup l -> NoDup (map f l).
Proof.
  induction l as [|x l IH]; intros Hinj Hnd; simpl; [constructor|].
  inversion Hnd as [|? ? Hx Hl]; subst. constructor.
  - intro Hin. apply in_map_iff in Hin. destruct Hin as [y [E Hy]].
    assert (y = x) by (apply Hinj; [right; exact Hy| left; reflexivity| exact E]). subst. contradiction.
  - apply IH; auto. intros a b Ha Hb. apply Hinj; right; assumption.
Qed.

Theorem en_ids_super_spec n c l :
  bounded n c -> en_ids_super n c = Some l ->
  NoDup l /\ forall x, In x l <-> (sub c x = true /\ bounded n x).
Proof.
  intros Hb E. rewrite (en_ids_super_eq n c Hb) in E. injection E as <-. split.
  - apply en_NoDup_map_in; [| apply NoDup_filter, NoDup_alln].
    intros x y Hx Hy. apply filter_In in Hx. apply filter_In in Hy. destruct Hx as [_ Hx]. destruct Hy as [_ Hy].
    apply en_lor_inj; eapply en_sub_ldiff_disj; eassumption.
  - intros x. rewrite <- (en_super_char n c x Hb). rewrite in_map_iff. split.
    + intros [s [<- Hs]]. apply filter_In in Hs. exists s. tauto.
    + intros [s [Hs ->]]. exists s. split; auto. apply filter_In. split; auto. apply in_alln.
      apply (bounded_sub n s (N.ldiff (grand n) c)); auto. apply bounded_ldiff, bounded_grand.
Qed.

(* `U - Ss` and `coalition ^ sub` in the numpy code are set difference on sub-coalitions *)
Theorem en_diff_is_setminus s u : sub s u = true -> u - s = N.ldiff u s /\ N.ldiff u s = N.lxor u s.
Proof.
  intros H. split; [| symmetry; apply lxor_ldiff; exact H].
  apply N.sub_nocarry_ldiff. apply bits_inj_nat. intro i. rewrite tb_ldiff, tb_0.
  rewrite sub_spec in H. destruct (tb s i) eqn:E; [rewrite (H i E)|]; reflexivity.
Qed.

(* ================= get_sub_coalitions / get_super_coalitions (Coalition objects) ================= *)
Theorem en_sub_obj_in c x : In x (en_sub_obj c) <-> sub x c = true.
Proof.
  unfold en_sub_obj. rewrite in_map_iff. split.
  - intros [s [<- Hs]]. apply cb_powerset_in in Hs. apply sub_spec. intros i Hi.
    apply en_from_players_spec in Hi. apply (cb_sublist_In _ _ _ Hs) in Hi. apply en_players_spec. exact Hi.
  - intros H. exists (filter (tb x) (en_players c)). split.
    + apply bits_inj_nat. intro i. apply eq_true_iff_eq. rewrite en_from_players_spec, filter_In, en_players_spec.
      rewrite sub_spec in H. split; [tauto|]. intros Hx. split; auto.
    + apply cb_powerset_in. apply cb_sublist_filter.
Qed.

Theorem en_sub_obj_NoDup c : NoDup (en_sub_obj c).
Proof.
  unfold en_sub_obj. apply en_NoDup_map_in; [| apply cb_powerset_NoDup, en_players_NoDup].
  intros s1 s2 H1 H2 E. apply cb_powerset_in in H1. apply cb_powerset_in in H2.
  apply (cb_sublist_ext s1 s2 (en_players c)); auto using en_players_NoDup.
  intro i. rewrite <- !en_from_players_spec, E. tauto.
Qed.

(* order facts: the empty coalition comes first; there are 2^|c| entries *)
Theorem en_sub_obj_head c : exists r, en_sub_obj c = 0 :: r.
Proof.
  unfold en_sub_obj. destruct (cb_powerset_head (en_players c)) as [r ->]. exists (map en_from_players r). reflexivity.
Qed.

Theorem en_sub_obj_length c : length (en_sub_obj c) = (2 ^ en_len c)%nat.
Proof. unfold en_sub_obj. rewrite map_length, cb_powerset_length, en_len_spec. reflexivity. Qed.

Theorem en_super_obj_spec n c :
  bounded n c ->
  NoDup (en_super_obj n c) /\ forall x, In x (en_super_obj n c) <-> (sub c x = true /\ bounded n x).
Proof.
  intros Hb. unfold en_super_obj. split.
  - apply en_NoDup_map_in; [| apply en_sub_obj_NoDup].
    intros x y Hx Hy E. apply en_sub_obj_in in Hx. apply en_sub_obj_in in Hy.
    rewrite !(N.lor_comm c) in E. revert E. apply en_lor_inj; eapply en_sub_ldiff_disj; eassumption.
  - intros x. rewrite <- (en_super_char n c x Hb). rewrite in_map_iff. split.
    + intros [s [<- Hs]]. apply en_sub_obj_in in Hs. exists s. split; auto. apply N.lor_comm.
    + intros [s [Hs ->]]. exists s. split; [apply N.lor_comm| apply en_sub_obj_in; exact Hs].
Qed.

(* ================= the two representations enumerate the same sets ================= *)
Theorem en_sub_perm n c l : bounded n c -> en_ids_sub n c = Some l -> Permutation (en_sub_obj c) l.
Proof.
  intros Hb E. destruct (en_ids_sub_spec n c l Hb E) as [Hnd [_ Hin]].
  apply NoDup_Permutation; [apply en_sub_obj_NoDup| exact Hnd|].
  intros x. rewrite en_sub_obj_in, Hin. tauto.
Qed.

Theorem en_super_perm n c l : bounded n c -> en_ids_super n c = Some l -> Permutation (en_super_obj n c) l.
Proof.
  intros Hb E. destruct (en_ids_super_spec n c l Hb E) as [Hnd Hin].
  destruct (en_super_obj_spec n c Hb) as [Hnd' Hin'].
  apply NoDup_Permutation; auto. intros x. rewrite Hin, Hin'. tauto.
Qed.

Lemma en_filter_filter {A} (f g : A -> bool) l : filter g (filter f l) = filter (fun x => f x && g x) l.
Proof. induction l as [|x l IH]; simpl; auto. destruct (f x); simpl; [destruct (g x)|]; rewrite IH; reflexivity. Qed.

(* the enumerations used by the bound computers (Bits.splits / Bits.supers) are filters of the id enumerations *)
Theorem en_splits_filter n s l :
  bounded n s -> en_ids_sub n s = Some l -> splits n s = filter (fun a => negb (a =? s) && negb (a =? 0)) l.
Proof.
  intros Hb E. rewrite (en_ids_sub_eq n s Hb) in E. injection E as <-. rewrite en_filter_filter. unfold splits.
  apply filter_ext. intro a. unfold ssub. rewrite andb_assoc. reflexivity.
Qed.

Theorem en_supers_perm n s l :
  bounded n s -> en_ids_super n s = Some l -> Permutation (supers n s) (filter (fun T => negb (T =? s)) l).
Proof.
  intros Hb E. destruct (en_ids_super_spec n s l Hb E) as [Hnd Hin].
  apply NoDup_Permutation; [apply NoDup_filter, NoDup_alln| apply NoDup_filter, Hnd|].
  intros T. rewrite in_supers, filter_In, Hin, ssub_spec, negb_true_iff, N.eqb_neq, sub_spec.
  split; intros H; repeat split; try tauto; intro; subst; tauto.
Qed.

Theorem en_splits_obj_perm n s :
  bounded n s -> Permutation (splits n s) (filter (fun a => negb (a =? s) && negb (a =? 0)) (en_sub_obj s)).
Proof.
  intros Hb. apply NoDup_Permutation; [apply NoDup_filter, NoDup_alln| apply NoDup_filter, en_sub_obj_NoDup|].
  intros a. rewrite in_splits, filter_In, en_sub_obj_in, ssub_spec, andb_true_iff, !negb_true_iff, !N.eqb_neq, sub_spec.
  split; [tauto|]. intros [H1 [H2 H3]]. repeat split; auto. apply (bounded_sub n a s); auto. apply sub_spec. exact H1.
Qed.

(* ================= order of the enumerations (other properties iterate over them) ================= *)
Lemma en_filter_alln_sorted (f : N -> bool) n : StronglySorted N.lt (filter f (alln n)).
Proof.
  unfold alln. rewrite en_filter_map. generalize (fun x : nat => f (N.of_nat x)). intros g.
  generalize (2 ^ n)%nat. intros k. generalize 0%nat. induction k as [|k IH]; intros a; simpl; [constructor|].
  destruct (g a); [|apply IH]. simpl. constructor; [apply IH|].
  apply Forall_forall. intros x Hx. apply in_map_iff in Hx. destruct Hx as [y [<- Hy]].
  apply filter_In in Hy. destruct Hy as [Hy _]. apply in_seq in Hy. lia.
Qed.

Lemma en_sorted_ext (l1 l2 : list N) :
  StronglySorted N.lt l1 -> StronglySorted N.lt l2 -> (forall x, In x l1 <-> In x l2) -> l1 = l2.
Proof.
  revert l2. induction l1 as [|a l1 IH]; intros l2 H1 H2 H.
  - destruct l2 as [|b l2]; auto. exfalso. apply (proj2 (H b)). left. reflexivity.
  - destruct l2 as [|b l2]; [exfalso; apply (proj1 (H a)); left; reflexivity|].
    inversion H1 as [|? ? Hs1 Hf1]; subst. inversion H2 as [|? ? Hs2 Hf2]; subst.
    rewrite Forall_forall in Hf1, Hf2.
    assert (a = b).
    { destruct (proj1 (H a) (or_introl eq_refl)) as [E|Ha]; [congruence|].
      destruct (proj2 (H b) (or_introl eq_refl)) as [E|Hb]; [congruence|].
      specialize (Hf1 _ Hb). specialize (Hf2 _ Ha). lia. }
    subst b. f_equal. apply IH; auto. intros x. split; intros Hx.
    + destruct (proj1 (H x) (or_intror Hx)) as [E|G]; auto. subst. specialize (Hf1 _ Hx). lia.
    + destruct (proj2 (H x) (or_intror Hx)) as [E|G]; auto. subst. specialize (Hf2 _ Hx). lia.
Qed.

Lemma en_lor_add s c : disjb s c = true -> N.lor s c = s + c.
Proof.
  unfold disjb. rewrite N.eqb_eq. intro H. rewrite N.add_nocarry_lxor by exact H. symmetry. apply N.lxor_lor. exact H.
Qed.

(* coalition_ids.super_coalitions is in increasing id order: it IS the id-ordered filter of the supersets *)
Theorem en_ids_super_is_filter n c : bounded n c -> en_ids_super n c = Some (filter (fun x => sub c x) (alln n)).
Proof.
  intros Hb. rewrite (en_ids_super_eq n c Hb). f_equal. apply en_sorted_ext.
  - set (l := filter (fun x => sub x (N.ldiff (grand n) c)) (alln n)).
    assert (Hl : StronglySorted N.lt l) by apply en_filter_alln_sorted.
    assert (Hd : forall s, In s l -> disjb s c = true).
    { intros s Hs. apply filter_In in Hs. destruct Hs as [_ Hs]. eapply en_sub_ldiff_disj. exact Hs. }
    clearbody l. induction Hl as [|s l Hl IH Hf]; simpl; constructor.
    + apply IH. intros t Ht. apply Hd. right. exact Ht.
    + apply Forall_forall. intros y Hy. apply in_map_iff in Hy. destruct Hy as [t [<- Ht]].
      rewrite Forall_forall in Hf. specialize (Hf _ Ht).
      rewrite (en_lor_add s c) by (apply Hd; left; reflexivity).
      rewrite (en_lor_add t c) by (apply Hd; right; exact Ht). lia.
  - apply en_filter_alln_sorted.
  - intros x. destruct (en_ids_super_spec n c _ Hb (en_ids_super_eq n c Hb)) as [_ Hin].
    rewrite Hin, filter_In, in_alln. tauto.
Qed.

(* get_sub_coalitions is produced by non-decreasing coalition size *)
Lemma en_len_from_players s : NoDup s -> en_len (en_from_players s) = length s.
Proof.
  intros Hs. rewrite en_len_spec. apply Permutation_length. apply NoDup_Permutation; [apply en_players_NoDup| exact Hs|].
  intros i. rewrite en_players_spec. apply en_from_players_spec.
Qed.

Theorem en_sub_obj_sorted_size c : StronglySorted (fun a b => (en_len a <= en_len b)%nat) (en_sub_obj c).
Proof.
  unfold en_sub_obj. apply (cb_sorted_map (fun s t => (length s <= length t)%nat)); [apply cb_powerset_sorted_length|].
  intros a b Ha Hb H. apply cb_powerset_in in Ha. apply cb_powerset_in in Hb.
  rewrite !en_len_from_players; [exact H| |]; eapply cb_sublist_NoDup; eauto using en_players_NoDup.
Qed.

(* PredsProofs: the predicate models of Preds.v decide exactly their textbook definitions (all n, all Q-valued games). *)
From Coq Require Import Qabs.
From ICG Require Import Prelude Bits Combs CombsProofs Enum EnumProofs Preds.
Local Open Scope Q_scope.

(* ---------- textbook definitions ---------- *)
(* np.isclose: |a - b| <= atol + rtol * |b| *)
Definition pd_close (rtol atol a b : Q) : Prop := Qabs (a - b) <= atol + rtol * Qabs b.

(* superadditive up to the documented tolerance *)
Definition pd_SA_tol (n : nat) (v : N -> Q) (rtol atol : Q) : Prop :=
  forall A B, bounded n A -> bounded n B -> disjb A B = true ->
    v A + v B <= v (N.lor A B) \/ pd_close rtol atol (v A + v B) (v (N.lor A B)).

(* exact superadditivity *)
Definition pd_SA (n : nat) (v : N -> Q) : Prop :=
  forall A B, bounded n A -> bounded n B -> disjb A B = true -> v A + v B <= v (N.lor A B).

(* monotone decreasing: a larger coalition never has a larger value *)
Definition pd_MonoDec (n : nat) (v : N -> Q) : Prop :=
  forall A B, bounded n B -> sub A B = true -> v B <= v A.

(* supermodular (increasing differences) up to tol *)
Definition pd_Supermod (n : nat) (v : N -> Q) (tol : Q) : Prop :=
  forall T S i, bounded n T -> (i < n)%nat -> tb T i = false -> ssub S T = true ->
    v (N.lor S (single i)) - v S <= v (N.lor T (single i)) - v T + tol.

(* ---------- loop combinators ---------- *)
Lemma pd_all_spec {A} (f : A -> option bool) l :
  (forall x, In x l -> exists b, f x = Some b) ->
  (exists b, pd_all f l = Some b) /\ (pd_all f l = Some true <-> forall x, In x l -> f x = Some true).
Proof.
  induction l as [|x l IH]; intros H; cbn [pd_all].
  - split; [exists true; reflexivity|]. split; [intros _ x []| reflexivity].
  - destruct (H x (or_introl eq_refl)) as [b Eb]. rewrite Eb.
    destruct IH as [IH1 IH2]; [intros y Hy; apply H; right; exact Hy|].
    destruct b.
    + split; [exact IH1|]. rewrite IH2. split.
      * intros G y [<-|Hy]; auto.
      * intros G y Hy. apply G. right. exact Hy.
    + split; [exists false; reflexivity|]. split; [discriminate|].
      intros G. specialize (G x (or_introl eq_refl)). congruence.
Qed.

Lemma pd_first_none {A B} (f : A -> option B) l : pd_first f l = None <-> forall x, In x l -> f x = None.
Proof.
  induction l as [|x l IH]; cbn [pd_first]; [split; [intros _ y []| reflexivity]|].
  destruct (f x) eqn:E.
  - split; [discriminate|]. intros G. specialize (G x (or_introl eq_refl)). congruence.
  - rewrite IH. split; [intros G y [<-|Hy]; auto| intros G y Hy; apply G; right; exact Hy].
Qed.

Lemma pd_first_some {A B} (f : A -> option B) l y : pd_first f l = Some y -> exists x, In x l /\ f x = Some y.
Proof.
  induction l as [|x l IH]; cbn [pd_first]; [discriminate|].
  destruct (f x) eqn:E.
  - intros G. injection G as <-. exists x. split; [left; reflexivity| exact E].
  - intros G. destruct (IH G) as [z [Hz Ez]]. exists z. split; [right; exact Hz| exact Ez].
Qed.

Lemma pd_isclose_iff rtol atol a b : pd_isclose rtol atol a b = true <-> pd_close rtol atol a b.
Proof. unfold pd_isclose, pd_close. apply Qle_bool_iff. Qed.

(* ---------- rows ---------- *)
Lemma pd_sa_row_eq n v rtol atol U :
  bounded n U ->
  pd_sa_row n v rtol atol U =
  Some (forallb (fun S => Qle_bool (v S + v (U - S)%N) (v U) || pd_isclose rtol atol (v S + v (U - S)%N) (v U))
                (filter (fun x => sub x U) (alln n))).
Proof. intros Hb. unfold pd_sa_row. rewrite (en_ids_sub_eq n U Hb). reflexivity. Qed.

Lemma pd_mono_row_eq n v U :
  bounded n U ->
  pd_mono_row n v U = Some (forallb (fun S => Qle_bool (v U) (v S)) (filter (fun x => sub x U) (alln n))).
Proof. intros Hb. unfold pd_mono_row. rewrite (en_ids_sub_eq n U Hb). reflexivity. Qed.

Lemma pd_in_subs n U S : bounded n U -> In S (filter (fun x => sub x U) (alln n)) <-> sub S U = true.
Proof.
  intros Hb. rewrite filter_In, in_alln. split; [tauto|]. intros H. split; auto. apply (bounded_sub n S U); auto.
Qed.

(* ================= is_superadditive ================= *)
(* never raises *)
Theorem pd_is_superadditive_total n v rtol atol : exists b, pd_is_superadditive n v rtol atol = Some b.
Proof.
  unfold pd_is_superadditive. apply pd_all_spec. intros U HU. apply in_alln in HU.
  rewrite (pd_sa_row_eq n v rtol atol U HU). eexists. reflexivity.
Qed.

Theorem pd_is_superadditive_iff n v rtol atol :
  pd_is_superadditive n v rtol atol = Some true <-> pd_SA_tol n v rtol atol.
Proof.
  unfold pd_is_superadditive.
  assert (Hrows : forall U, In U (alln n) -> exists b, pd_sa_row n v rtol atol U = Some b).
  { intros U HU. apply in_alln in HU. rewrite (pd_sa_row_eq n v rtol atol U HU). eexists. reflexivity. }
  destruct (pd_all_spec (pd_sa_row n v rtol atol) (alln n) Hrows) as [_ ->]. split.
  - intros H A B HA HB Hd.
    assert (HU : bounded n (N.lor A B)) by (apply bounded_lor; assumption).
    specialize (H _ (proj2 (in_alln n _) HU)). rewrite (pd_sa_row_eq _ _ _ _ _ HU) in H.
    injection H as H. rewrite forallb_forall in H.
    specialize (H A (proj2 (pd_in_subs n _ A HU) (sub_lor_l A B))). cbv beta in H.
    destruct (en_diff_is_setminus A (N.lor A B) (sub_lor_l A B)) as [E _].
    rewrite E, (ldiff_lor_disj A B Hd) in H. apply orb_true_iff in H.
    destruct H as [H|H]; [left; apply Qle_bool_iff; exact H| right; apply pd_isclose_iff; exact H].
  - intros H U HU. apply in_alln in HU. rewrite (pd_sa_row_eq _ _ _ _ _ HU). f_equal.
    apply forallb_forall. intros S HS. apply (pd_in_subs n U S HU) in HS.
    destruct (en_diff_is_setminus S U HS) as [E _]. rewrite E.
    assert (HbS : bounded n S) by (apply (bounded_sub n S U); assumption).
    specialize (H S (N.ldiff U S) HbS (bounded_ldiff n U S HU) (disjb_ldiff S U)).
    rewrite (lor_ldiff S U HS) in H. apply orb_true_iff.
    destruct H as [H|H]; [left; apply Qle_bool_iff; exact H| right; apply pd_isclose_iff; exact H].
Qed.

Corollary pd_is_superadditive_false_iff n v rtol atol :
  pd_is_superadditive n v rtol atol = Some false <-> ~ pd_SA_tol n v rtol atol.
Proof.
  rewrite <- pd_is_superadditive_iff. destruct (pd_is_superadditive_total n v rtol atol) as [[|] ->]; split; congruence.
Qed.

(* with zero tolerances the predicate is exact superadditivity *)
Corollary pd_is_superadditive_exact n v : pd_is_superadditive n v 0 0 = Some true <-> pd_SA n v.
Proof.
  rewrite pd_is_superadditive_iff. unfold pd_SA_tol, pd_SA, pd_close. split; intros H A B HA HB Hd.
  - destruct (H A B HA HB Hd) as [G|G]; auto.
    assert (G' : Qabs (v A + v B - v (N.lor A B)) <= 0) by (eapply Qle_trans; [exact G|]; ring_simplify; apply Qle_refl).
    apply Qabs_Qle_condition in G'. lra.
  - left. auto.
Qed.

(* a superadditive game passes at every non-negative tolerance; the tolerance only ever lets more games pass *)
Corollary pd_is_superadditive_complete n v rtol atol : pd_SA n v -> pd_is_superadditive n v rtol atol = Some true.
Proof. intros H. apply pd_is_superadditive_iff. intros A B HA HB Hd. left. auto. Qed.

(* ================= is_monotone_decreasing ================= *)
Theorem pd_is_monotone_decreasing_total n v : exists b, pd_is_monotone_decreasing n v = Some b.
Proof.
  unfold pd_is_monotone_decreasing. apply pd_all_spec. intros U HU. apply in_alln in HU.
  rewrite (pd_mono_row_eq n v U HU). eexists. reflexivity.
Qed.

Theorem pd_is_monotone_decreasing_iff n v : pd_is_monotone_decreasing n v = Some true <-> pd_MonoDec n v.
Proof.
  unfold pd_is_monotone_decreasing.
  assert (Hrows : forall U, In U (alln n) -> exists b, pd_mono_row n v U = Some b).
  { intros U HU. apply in_alln in HU. rewrite (pd_mono_row_eq n v U HU). eexists. reflexivity. }
  destruct (pd_all_spec (pd_mono_row n v) (alln n) Hrows) as [_ ->]. split.
  - intros H A B HB Hs. specialize (H _ (proj2 (in_alln n _) HB)). rewrite (pd_mono_row_eq _ _ _ HB) in H.
    injection H as H. rewrite forallb_forall in H. apply Qle_bool_iff. apply H. apply pd_in_subs; assumption.
  - intros H U HU. apply in_alln in HU. rewrite (pd_mono_row_eq _ _ _ HU). f_equal.
    apply forallb_forall. intros S HS. apply (pd_in_subs n U S HU) in HS. apply Qle_bool_iff. apply H; assumption.
Qed.

Corollary pd_is_monotone_decreasing_false_iff n v : pd_is_monotone_decreasing n v = Some false <-> ~ pd_MonoDec n v.
Proof.
  rewrite <- pd_is_monotone_decreasing_iff. destruct (pd_is_monotone_decreasing_total n v) as [[|] ->]; split; congruence.
Qed.

(* ================= is_sam ================= *)
Theorem pd_is_sam_iff n v rtol : pd_is_sam n v rtol = Some true <-> pd_SA_tol n v rtol 0 /\ pd_MonoDec n v.
Proof.
  unfold pd_is_sam. rewrite <- pd_is_superadditive_iff, <- pd_is_monotone_decreasing_iff.
  destruct (pd_is_superadditive_total n v rtol 0) as [[|] ->]; [tauto|]. split; [discriminate| intros [? _]; discriminate].
Qed.

Theorem pd_is_sam_total n v rtol : exists b, pd_is_sam n v rtol = Some b.
Proof.
  unfold pd_is_sam. destruct (pd_is_superadditive_total n v rtol 0) as [[|] ->]; [apply pd_is_monotone_decreasing_total|].
  exists false. reflexivity.
Qed.

(* ================= check_supermodularity ================= *)
Lemma pd_in_players_grand n T i :
  In i (filter (fun i => negb (tb T i)) (en_players (grand n))) <-> (i < n)%nat /\ tb T i = false.
Proof. rewrite filter_In, en_players_spec, tb_grand, Nat.ltb_lt, negb_true_iff. tauto. Qed.

Lemma pd_in_strict_subs T S : In S (filter (fun S => negb (S =? T)%N) (en_sub_obj T)) <-> ssub S T = true.
Proof. rewrite filter_In, en_sub_obj_in. unfold ssub. rewrite andb_true_iff. tauto. Qed.

Theorem pd_check_supermodularity_none_iff n v tol :
  pd_check_supermodularity n v tol = None <-> pd_Supermod n v tol.
Proof.
  unfold pd_check_supermodularity, pd_Supermod. rewrite pd_first_none. split.
  - intros H T S i HT Hi HTi HS.
    specialize (H T (proj2 (in_alln n T) HT)). rewrite pd_first_none in H.
    specialize (H i (proj2 (pd_in_players_grand n T i) (conj Hi HTi))). rewrite pd_first_none in H.
    specialize (H S (proj2 (pd_in_strict_subs T S) HS)). cbv zeta in H. rewrite en_from_players_single in H.
    destruct (Qle_bool _ _) eqn:E in H; [|discriminate]. apply Qle_bool_iff in E. exact E.
  - intros H T HT. apply in_alln in HT. apply pd_first_none. intros i Hi. apply pd_in_players_grand in Hi.
    destruct Hi as [Hi HTi]. apply pd_first_none. intros S HS. apply pd_in_strict_subs in HS.
    cbv zeta. rewrite en_from_players_single.
    rewrite (proj2 (Qle_bool_iff _ _) (H T S i HT Hi HTi HS)). reflexivity.
Qed.

(* a reported triple is a genuine violation of increasing differences *)
Theorem pd_check_supermodularity_some n v tol T S i :
  pd_check_supermodularity n v tol = Some (T, S, i) ->
  bounded n T /\ (i < n)%nat /\ tb T i = false /\ ssub S T = true /\
  ~ v (N.lor S (single i)) - v S <= v (N.lor T (single i)) - v T + tol.
Proof.
  unfold pd_check_supermodularity. intros H.
  apply pd_first_some in H. destruct H as [T' [HT' H]]. apply in_alln in HT'.
  apply pd_first_some in H. destruct H as [i' [Hi' H]]. apply pd_in_players_grand in Hi'.
  apply pd_first_some in H. destruct H as [S' [HS' H]]. apply pd_in_strict_subs in HS'.
  cbv zeta in H. rewrite en_from_players_single in H.
  destruct (Qle_bool _ _) eqn:E in H; [discriminate|]. injection H as <- <- <-.
  repeat split; try tauto. intro G. apply Qle_bool_iff in G. congruence.
Qed.

From ICG Require Import Prelude Bits Table Checks SAMSpec.
Lemma mono_check_sound n v : mono_check n v = true -> Mono n v.
Proof.
  intros H a b Ha Hb Hs. unfold mono_check in H. rewrite forallb_forall in H.
  specialize (H a (proj2 (in_alln n a) Ha)). rewrite forallb_forall in H.
  specialize (H b (proj2 (in_alln n b) Hb)). rewrite Hs in H. simpl in H. apply Qle_bool_iff. exact H.
Qed.

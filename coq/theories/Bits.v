(* Bits: coalitions as N bitmasks (the integer the code calls Coalition.id). *)
From Coq Require Import NArith List Lia Bool Arith FinFun Sorted.
Import ListNotations.
Local Open Scope N_scope.

Definition tb (a : N) (i : nat) : bool := N.testbit a (N.of_nat i).
Definition sub (a s : N) : bool := N.land a s =? a.               (* a ⊆ s  : `a in s` on Coalition objects *)
Definition ssub (a s : N) : bool := sub a s && negb (a =? s).      (* a ⊂ s *)
Definition disjb (a b : N) : bool := N.land a b =? 0.
Definition players (n : nat) (a : N) : list nat := filter (tb a) (seq 0 n).
Definition size (n : nat) (a : N) : nat := length (players n a).
Definition bounded (n : nat) (a : N) := forall i, (n <= i)%nat -> tb a i = false.
Definition alln (n : nat) : list N := map N.of_nat (seq 0 (2 ^ n)).
Definition grand (n : nat) : N := N.ones (N.of_nat n).
Definition single (i : nat) : N := N.shiftl 1 (N.of_nat i).
Arguments tb : simpl never.
Arguments single : simpl never.
Arguments grand : simpl never.
Arguments sub : simpl never.
Arguments ssub : simpl never.
Arguments disjb : simpl never.
Arguments size : simpl never.
Arguments alln : simpl never.

Lemma bits_inj_nat a b : (forall i, tb a i = tb b i) -> a = b.
Proof. intros H. apply N.bits_inj. intro i. specialize (H (N.to_nat i)). unfold tb in H. rewrite N2Nat.id in H. exact H. Qed.

Lemma tb_land a b i : tb (N.land a b) i = tb a i && tb b i.
Proof. unfold tb. apply N.land_spec. Qed.
Lemma tb_lor a b i : tb (N.lor a b) i = tb a i || tb b i.
Proof. unfold tb. apply N.lor_spec. Qed.
Lemma tb_ldiff s a i : tb (N.ldiff s a) i = tb s i && negb (tb a i).
Proof. unfold tb. apply N.ldiff_spec. Qed.
Lemma tb_lxor a b i : tb (N.lxor a b) i = xorb (tb a i) (tb b i).
Proof. unfold tb. apply N.lxor_spec. Qed.
Lemma tb_0 i : tb 0 i = false.
Proof. unfold tb. apply N.bits_0. Qed.
Lemma tb_grand n i : tb (grand n) i = (i <? n)%nat.
Proof.
  unfold tb, grand. destruct (Nat.ltb_spec i n) as [H|H].
  - apply N.ones_spec_low. lia.
  - apply N.ones_spec_high. lia.
Qed.
Lemma tb_single i j : tb (single i) j = (i =? j)%nat.
Proof.
  unfold tb, single. rewrite N.shiftl_1_l.
  destruct (Nat.eqb_spec i j) as [->|H].
  - apply N.pow2_bits_true.
  - apply N.pow2_bits_false. lia.
Qed.

Lemma sub_spec a s : sub a s = true <-> forall i, tb a i = true -> tb s i = true.
Proof.
  unfold sub. rewrite N.eqb_eq. split.
  - intros H i Hi. rewrite <- H in Hi. rewrite tb_land in Hi.
    apply andb_true_iff in Hi. destruct Hi; assumption.
  - intros H. apply bits_inj_nat. intros i. rewrite tb_land.
    destruct (tb a i) eqn:E; simpl; auto.
Qed.

Lemma ssub_spec a s : ssub a s = true <-> (forall i, tb a i = true -> tb s i = true) /\ a <> s.
Proof. unfold ssub. rewrite andb_true_iff, sub_spec, negb_true_iff, N.eqb_neq. tauto. Qed.

Lemma ssub_sub a s : ssub a s = true -> sub a s = true.
Proof. unfold ssub. intro H. apply andb_true_iff in H. tauto. Qed.

Lemma sub_refl a : sub a a = true.
Proof. apply sub_spec. auto. Qed.
Lemma sub_trans a b c : sub a b = true -> sub b c = true -> sub a c = true.
Proof. rewrite !sub_spec. auto. Qed.
Lemma sub_antisym a b : sub a b = true -> sub b a = true -> a = b.
Proof.
  rewrite !sub_spec. intros H1 H2. apply bits_inj_nat. intro i.
  destruct (tb a i) eqn:Ea; destruct (tb b i) eqn:Eb; auto.
  - apply H1 in Ea. congruence.
  - apply H2 in Eb. congruence.
Qed.
Lemma sub_0_l a : sub 0 a = true.
Proof. apply sub_spec. intros i. rewrite tb_0. discriminate. Qed.

Lemma disjb_spec a b : disjb a b = true <-> forall i, tb a i = true -> tb b i = false.
Proof.
  unfold disjb. rewrite N.eqb_eq. split.
  - intros H i Hi. assert (E : tb (N.land a b) i = false) by (rewrite H; apply tb_0).
    rewrite tb_land, Hi in E. exact E.
  - intros H. apply bits_inj_nat. intro i. rewrite tb_land, tb_0.
    destruct (tb a i) eqn:E; simpl; auto.
Qed.
Lemma disjb_sym a b : disjb a b = disjb b a.
Proof. unfold disjb. rewrite N.land_comm. reflexivity. Qed.

(* ---------- filter-length facts ---------- *)
Lemma filter_length_le {A} (f g : A -> bool) l :
  (forall x, f x = true -> g x = true) -> (length (filter f l) <= length (filter g l))%nat.
Proof.
  intros H. induction l as [|x l IH]; simpl; auto.
  destruct (f x) eqn:E.
  - rewrite (H _ E). simpl. lia.
  - destruct (g x); simpl; lia.
Qed.

Lemma filter_length_lt {A} (f g : A -> bool) l y :
  (forall x, f x = true -> g x = true) -> In y l -> f y = false -> g y = true ->
  (length (filter f l) < length (filter g l))%nat.
Proof.
  intros H. induction l as [|x l IH]; simpl; [tauto|].
  intros [->|Hy] Hf Hg.
  - rewrite Hf, Hg. simpl. pose proof (filter_length_le f g l H). lia.
  - specialize (IH Hy Hf Hg). destruct (f x) eqn:E.
    + rewrite (H _ E). simpl. lia.
    + destruct (g x); simpl; lia.
Qed.

Lemma sub_size_le n a s : sub a s = true -> (size n a <= size n s)%nat.
Proof. intros H. rewrite sub_spec in H. unfold size, players. apply filter_length_le. exact H. Qed.

Lemma ssub_size n a s : bounded n s -> ssub a s = true -> (size n a < size n s)%nat.
Proof.
  intros Hb H. unfold ssub in H. apply andb_true_iff in H. destruct H as [Hs Hne].
  rewrite sub_spec in Hs. apply negb_true_iff in Hne. apply N.eqb_neq in Hne.
  destruct (existsb (fun i => negb (tb a i) && tb s i) (seq 0 n)) eqn:Ex.
  - apply existsb_exists in Ex. destruct Ex as [i [Hin Hi]]. apply andb_true_iff in Hi.
    destruct Hi as [Hi1 Hi2]. apply negb_true_iff in Hi1.
    unfold size, players. eapply filter_length_lt; eauto.
  - exfalso. apply Hne. apply bits_inj_nat. intro i.
    destruct (tb a i) eqn:Ea.
    + symmetry. apply Hs; auto.
    + destruct (tb s i) eqn:Es; auto.
      destruct (Nat.lt_ge_cases i n) as [Hlt|Hge].
      * assert (Hin : In i (seq 0 n)) by (apply in_seq; lia).
        rewrite <- not_true_iff_false in Ex. exfalso. apply Ex. apply existsb_exists.
        exists i. split; auto. rewrite Ea, Es. reflexivity.
      * rewrite (Hb i Hge) in Es. discriminate.
Qed.

(* ---------- bounded ---------- *)
Lemma bounded_sub n a s : bounded n s -> sub a s = true -> bounded n a.
Proof.
  intros Hb Hs i Hi. rewrite sub_spec in Hs. destruct (tb a i) eqn:E; auto.
  apply Hs in E. rewrite (Hb i Hi) in E. discriminate.
Qed.
Lemma bounded_0 n : bounded n 0.
Proof. intros i _. apply tb_0. Qed.
Lemma bounded_grand n : bounded n (grand n).
Proof. intros i Hi. rewrite tb_grand. apply Nat.ltb_ge. exact Hi. Qed.
Lemma bounded_single n i : (i < n)%nat -> bounded n (single i).
Proof. intros Hi j Hj. rewrite tb_single. apply Nat.eqb_neq. lia. Qed.
Lemma bounded_lor n a b : bounded n a -> bounded n b -> bounded n (N.lor a b).
Proof. intros Ha Hb i Hi. rewrite tb_lor, Ha, Hb by exact Hi. reflexivity. Qed.
Lemma bounded_ldiff n a b : bounded n a -> bounded n (N.ldiff a b).
Proof. intros Ha i Hi. rewrite tb_ldiff, Ha by exact Hi. reflexivity. Qed.
Lemma bounded_land n a b : bounded n a -> bounded n (N.land a b).
Proof. intros Ha i Hi. rewrite tb_land, Ha by exact Hi. reflexivity. Qed.
Lemma sub_grand n a : bounded n a <-> sub a (grand n) = true.
Proof.
  rewrite sub_spec. split.
  - intros Hb i Hi. rewrite tb_grand. apply Nat.ltb_lt.
    destruct (Nat.lt_ge_cases i n) as [H|H]; auto. rewrite (Hb i H) in Hi. discriminate.
  - intros H i Hi. destruct (tb a i) eqn:E; auto. apply H in E. rewrite tb_grand in E.
    apply Nat.ltb_lt in E. lia.
Qed.

Lemma bounded_lt n a : bounded n a <-> a < 2 ^ N.of_nat n.
Proof.
  split.
  - intros Hb. destruct (N.eq_dec a 0) as [->|Hne].
    + apply N.neq_0_lt_0. apply N.pow_nonzero. discriminate.
    + apply N.log2_lt_pow2; [lia|].
      destruct (N.lt_ge_cases (N.log2 a) (N.of_nat n)) as [H|H]; auto.
      exfalso. pose proof (N.bit_log2 a Hne) as Hbit.
      specialize (Hb (N.to_nat (N.log2 a))). unfold tb in Hb. rewrite N2Nat.id in Hb.
      rewrite Hb in Hbit; [discriminate| lia].
  - intros Hlt i Hi. unfold tb. destruct (N.eq_dec a 0) as [->|Hne]; [apply N.bits_0|].
    apply N.bits_above_log2. apply N.log2_lt_pow2 in Hlt; lia.
Qed.

Lemma in_alln n a : In a (alln n) <-> bounded n a.
Proof.
  rewrite bounded_lt. unfold alln. rewrite in_map_iff. split.
  - intros [k [<- Hk]]. apply in_seq in Hk.
    replace (2 ^ N.of_nat n) with (N.of_nat (2 ^ n)); [lia|].
    rewrite Nat2N.inj_pow. reflexivity.
  - intros H. exists (N.to_nat a). split; [apply N2Nat.id|]. apply in_seq.
    assert (N.of_nat (2 ^ n) = 2 ^ N.of_nat n) by (rewrite Nat2N.inj_pow; reflexivity). lia.
Qed.

Lemma NoDup_alln n : NoDup (alln n).
Proof.
  unfold alln. apply Injective_map_NoDup; [|apply seq_NoDup].
  intros x y H. apply Nat2N.inj. exact H.
Qed.

(* ---------- set algebra used by the bound computers ---------- *)
Lemma lxor_ldiff a s : sub a s = true -> N.lxor s a = N.ldiff s a.
Proof.
  intros H. rewrite sub_spec in H. apply bits_inj_nat. intro i.
  rewrite tb_lxor, tb_ldiff. destruct (tb a i) eqn:Ea; destruct (tb s i) eqn:Es; auto.
  apply H in Ea. congruence.
Qed.

Lemma ldiff_sub a s : sub (N.ldiff s a) s = true.
Proof. apply sub_spec. intros i. rewrite tb_ldiff. intro H. apply andb_true_iff in H. tauto. Qed.

Lemma ldiff_ssub a s : sub a s = true -> a <> 0 -> ssub (N.ldiff s a) s = true.
Proof.
  intros Hs Hne. rewrite sub_spec in Hs. apply ssub_spec. split.
  - intros i. rewrite tb_ldiff. intro H. apply andb_true_iff in H. tauto.
  - intro E. apply Hne. apply bits_inj_nat. intro i. rewrite tb_0.
    destruct (tb a i) eqn:Ea; auto. pose proof (Hs i Ea) as Hsi.
    assert (tb (N.ldiff s a) i = tb s i) by (rewrite E; reflexivity).
    rewrite tb_ldiff, Hsi, Ea in H. discriminate.
Qed.

Lemma ldiff_ne0 a s : ssub a s = true -> N.ldiff s a <> 0.
Proof.
  intros H. apply ssub_spec in H. destruct H as [Hs Hne]. intro E. apply Hne.
  apply bits_inj_nat. intro i.
  assert (Hi : tb (N.ldiff s a) i = false) by (rewrite E; apply tb_0).
  rewrite tb_ldiff in Hi. destruct (tb a i) eqn:Ea.
  - symmetry. apply Hs. exact Ea.
  - destruct (tb s i); auto; discriminate.
Qed.

Lemma lor_ldiff a s : sub a s = true -> N.lor a (N.ldiff s a) = s.
Proof.
  intros Hs. rewrite sub_spec in Hs. apply bits_inj_nat. intro i.
  rewrite tb_lor, tb_ldiff. destruct (tb a i) eqn:Ea; simpl.
  - symmetry. apply Hs. exact Ea.
  - apply andb_true_r.
Qed.

Lemma disjb_ldiff a s : disjb a (N.ldiff s a) = true.
Proof. apply disjb_spec. intros i Hi. rewrite tb_ldiff, Hi. apply andb_false_r. Qed.

Lemma ldiff_ldiff_sub a s : sub a s = true -> N.ldiff s (N.ldiff s a) = a.
Proof.
  intros H. rewrite sub_spec in H. apply bits_inj_nat. intro i. rewrite !tb_ldiff.
  destruct (tb a i) eqn:Ea; destruct (tb s i) eqn:Es; auto. apply H in Ea. congruence.
Qed.

Lemma sub_lor_l a b : sub a (N.lor a b) = true.
Proof. apply sub_spec. intros i Hi. rewrite tb_lor, Hi. reflexivity. Qed.
Lemma sub_lor_r a b : sub b (N.lor a b) = true.
Proof. apply sub_spec. intros i Hi. rewrite tb_lor, Hi. apply orb_true_r. Qed.
Lemma lor_sub a b s : sub a s = true -> sub b s = true -> sub (N.lor a b) s = true.
Proof.
  rewrite !sub_spec. intros Ha Hb i. rewrite tb_lor. intro H. apply orb_true_iff in H.
  destruct H; auto.
Qed.

Lemma ldiff_lor_disj a b : disjb a b = true -> N.ldiff (N.lor a b) a = b.
Proof.
  intros H. rewrite disjb_spec in H. apply bits_inj_nat. intro i. rewrite tb_ldiff, tb_lor.
  destruct (tb a i) eqn:Ea; simpl; [symmetry; apply H; exact Ea| apply andb_true_r].
Qed.

Lemma disj_lor_ne a b : disjb a b = true -> b <> 0 -> a <> N.lor a b.
Proof.
  intros Hd Hb E. apply Hb. rewrite disjb_spec in Hd. apply bits_inj_nat. intro i. rewrite tb_0.
  destruct (tb b i) eqn:Eb; auto.
  assert (tb a i = true) by (rewrite E, tb_lor, Eb; apply orb_true_r).
  apply Hd in H. congruence.
Qed.

Lemma size_0 n : size n 0 = 0%nat.
Proof.
  unfold size, players. induction (seq 0 n) as [|x l IH]; [reflexivity|]. cbn [filter]. rewrite tb_0. exact IH.
Qed.

Lemma size_pos n a : bounded n a -> a <> 0 -> (0 < size n a)%nat.
Proof.
  intros Hb Hne. rewrite <- (size_0 n). apply ssub_size; auto.
  apply ssub_spec. split; [intros i; rewrite tb_0; discriminate| congruence].
Qed.

Lemma filter_single_nil i l : ~ In i l -> filter (tb (single i)) l = [].
Proof.
  induction l as [|x l IH]; intros H; simpl; auto. rewrite tb_single.
  destruct (Nat.eqb_spec i x) as [->|Hne]; [exfalso; apply H; left; reflexivity|].
  apply IH. intro Hin. apply H. right. exact Hin.
Qed.

Lemma size_single n i : (i < n)%nat -> size n (single i) = 1%nat.
Proof.
  intros Hi. unfold size, players.
  replace n with (i + (1 + (n - i - 1)))%nat by lia.
  rewrite !seq_app, !filter_app, !app_length. simpl.
  rewrite tb_single, Nat.eqb_refl. simpl.
  rewrite !filter_single_nil; [reflexivity| |]; rewrite in_seq; lia.
Qed.

Lemma size_le_1 n a : bounded n a -> (size n a <= 1)%nat -> a = 0 \/ exists i, (i < n)%nat /\ a = single i.
Proof.
  intros Hb Hs. destruct (N.eq_dec a 0) as [->|Hne]; [left; reflexivity| right].
  (* find a set bit *)
  destruct (existsb (tb a) (seq 0 n)) eqn:Ex.
  - apply existsb_exists in Ex. destruct Ex as [i [Hin Hi]]. apply in_seq in Hin.
    exists i. split; [lia|].
    destruct (N.eq_dec a (single i)) as [|Hd]; auto. exfalso.
    assert (Hss : ssub (single i) a = true).
    { apply ssub_spec. split; [|congruence]. intros j. rewrite tb_single. intro E.
      apply Nat.eqb_eq in E. subst. exact Hi. }
    apply (ssub_size n) in Hss; auto. rewrite size_single in Hss by lia. lia.
  - exfalso. apply Hne. apply bits_inj_nat. intro i. rewrite tb_0.
    destruct (Nat.lt_ge_cases i n) as [H|H]; [| apply Hb; exact H].
    destruct (tb a i) eqn:E; auto. rewrite <- not_true_iff_false in Ex. exfalso. apply Ex.
    apply existsb_exists. exists i. split; [apply in_seq; lia| exact E].
Qed.

(* ---------- enumerations used by the computers ---------- *)
(* proper non-empty sub-coalitions, in id order (coal_structure == 1) *)
Definition splits (n : nat) (s : N) : list N :=
  filter (fun a => ssub a s && negb (a =? 0)) (alln n).
(* proper super-coalitions (coal_structure == 2) *)
Definition supers (n : nat) (s : N) : list N := filter (fun T => ssub s T) (alln n).

Lemma in_splits n a s : In a (splits n s) <-> bounded n a /\ ssub a s = true /\ a <> 0.
Proof.
  unfold splits. rewrite filter_In, in_alln, andb_true_iff, negb_true_iff, N.eqb_neq. tauto.
Qed.
Lemma in_supers n s T : In T (supers n s) <-> bounded n T /\ ssub s T = true.
Proof. unfold supers. rewrite filter_In, in_alln. tauto. Qed.

Lemma splits_nonempty n s : bounded n s -> (2 <= size n s)%nat -> splits n s <> [].
Proof.
  intros Hb Hs.
  (* pick the lowest player of s as a singleton split *)
  destruct (existsb (tb s) (seq 0 n)) eqn:Ex.
  - apply existsb_exists in Ex. destruct Ex as [i [Hin Hi]]. apply in_seq in Hin.
    intro E. assert (Hin' : In (single i) (splits n s)).
    { apply in_splits. split; [apply bounded_single; lia|]. split.
      - apply ssub_spec. split.
        + intros j. rewrite tb_single. intro Ej. apply Nat.eqb_eq in Ej. subst. exact Hi.
        + intro E2. rewrite <- E2, size_single in Hs by lia. lia.
      - intro E2. assert (tb (single i) i = tb 0 i) by (rewrite E2; reflexivity).
        rewrite tb_single, Nat.eqb_refl, tb_0 in H. discriminate. }
    rewrite E in Hin'. destruct Hin'.
  - exfalso. assert (s = 0).
    { apply bits_inj_nat. intro i. rewrite tb_0.
      destruct (Nat.lt_ge_cases i n) as [H|H]; [| apply Hb; exact H].
      destruct (tb s i) eqn:E; auto. rewrite <- not_true_iff_false in Ex. exfalso. apply Ex.
      apply existsb_exists. exists i. split; [apply in_seq; lia| exact E]. }
    subst. rewrite size_0 in Hs. lia.
Qed.

(* coalitions sorted by size: a stable sort of the id order (Python: sorted(..., key=len)) *)
Definition by_size (n : nat) (l : list N) : list N :=
  concat (map (fun k => filter (fun s => Nat.eqb (size n s) k) l) (seq 0 (S n))).

Lemma size_le_n n a : (size n a <= n)%nat.
Proof.
  unfold size, players. etransitivity; [apply (filter_length_le _ (fun _ => true)); auto|].
  assert (forall l : list nat, filter (fun _ => true) l = l) as -> by (induction l; simpl; congruence).
  rewrite seq_length. lia.
Qed.

Lemma in_by_size n l a : In a (by_size n l) <-> In a l.
Proof.
  unfold by_size. rewrite in_concat. split.
  - intros [x [Hx Ha]]. apply in_map_iff in Hx. destruct Hx as [k [<- _]].
    apply filter_In in Ha. tauto.
  - intros Ha. exists (filter (fun s => Nat.eqb (size n s) (size n a)) l). split.
    + apply in_map_iff. exists (size n a). split; auto. apply in_seq. pose proof (size_le_n n a). lia.
    + apply filter_In. split; auto. apply Nat.eqb_refl.
Qed.

Lemma NoDup_app_intro {A} (l1 l2 : list A) :
  NoDup l1 -> NoDup l2 -> (forall x, In x l1 -> ~ In x l2) -> NoDup (l1 ++ l2).
Proof.
  induction l1 as [|x l1 IH]; intros H1 H2 Hd; simpl; auto.
  inversion H1 as [|? ? Hx Hl1]; subst. constructor.
  - intro Hin. apply in_app_or in Hin. destruct Hin as [Hin|Hin]; [auto|].
    apply (Hd x); [left; reflexivity| exact Hin].
  - apply IH; auto. intros y Hy. apply Hd. right. exact Hy.
Qed.

Lemma NoDup_concat_disjoint {A} (ls : list (list A)) :
  (forall l, In l ls -> NoDup l) ->
  (forall i j d, (i < j < length ls)%nat -> forall x, In x (nth i ls d) -> ~ In x (nth j ls d)) ->
  NoDup (concat ls).
Proof.
  induction ls as [|l ls IH]; intros Hnd Hdis; simpl; [constructor|].
  apply NoDup_app_intro; [apply Hnd; left; reflexivity| |].
  - apply IH; [intros; apply Hnd; right; assumption|].
    intros i j d Hij x Hx. apply (Hdis (S i) (S j) d); simpl in *; [lia| exact Hx].
  - intros x Hx Hc. apply in_concat in Hc. destruct Hc as [l' [Hl' Hx']].
    destruct (In_nth _ _ l Hl') as [j [Hj Ej]].
    apply (Hdis 0%nat (S j) l) with (x := x); simpl; [lia| exact Hx| rewrite Ej; exact Hx'].
Qed.

Lemma NoDup_by_size n l : NoDup l -> NoDup (by_size n l).
Proof.
  intros Hnd. unfold by_size. apply NoDup_concat_disjoint.
  - intros l' Hl'. apply in_map_iff in Hl'. destruct Hl' as [k [<- _]]. apply NoDup_filter. exact Hnd.
  - intros i j d Hij x Hx Hx'. rewrite map_length, seq_length in Hij.
    set (f := fun k => filter (fun s => Nat.eqb (size n s) k) l) in *.
    rewrite (nth_indep _ d (f 0%nat)) in Hx by (rewrite map_length, seq_length; lia).
    rewrite (nth_indep _ d (f 0%nat)) in Hx' by (rewrite map_length, seq_length; lia).
    rewrite map_nth in Hx, Hx'. rewrite seq_nth in Hx, Hx' by lia. unfold f in Hx, Hx'.
    apply filter_In in Hx. apply filter_In in Hx'. destruct Hx as [_ Hx]. destruct Hx' as [_ Hx'].
    apply Nat.eqb_eq in Hx. apply Nat.eqb_eq in Hx'. lia.
Qed.

(* sortedness: in [by_size], an element of strictly smaller size always comes earlier *)
Lemma by_size_split n l (pre post : list N) s :
  by_size n l = pre ++ s :: post -> forall a, In a post -> (size n s <= size n a)%nat.
Proof.
  unfold by_size.
  assert (G : forall ks (pre post : list N) s,
     concat (map (fun k => filter (fun s => Nat.eqb (size n s) k) l) ks) = pre ++ s :: post ->
     StronglySorted lt ks ->
     (forall a, In a post -> (size n s <= size n a)%nat) /\ In (size n s) ks).
  { induction ks as [|k ks IH]; intros pr po s0 E Hs; simpl in E.
    - destruct pr; discriminate.
    - inversion Hs as [|? ? Hs' Hall]; subst.
      set (blk := filter (fun s => Nat.eqb (size n s) k) l) in *.
      (* where does s0 fall: inside blk or inside the rest *)
      destruct (le_lt_dec (length blk) (length pr)) as [Hlen|Hlen].
      + (* in the rest *)
        assert (Epr : pr = blk ++ skipn (length blk) pr /\ concat (map (fun k0 => filter (fun s => Nat.eqb (size n s) k0) l) ks) = skipn (length blk) pr ++ s0 :: po).
        { assert (E1 : firstn (length blk) (pr ++ s0 :: po) = blk).
          { rewrite <- E. rewrite firstn_app, Nat.sub_diag, firstn_all. simpl. apply app_nil_r. }
          assert (E2 : skipn (length blk) (pr ++ s0 :: po) = concat (map (fun k0 => filter (fun s => Nat.eqb (size n s) k0) l) ks)).
          { rewrite <- E. rewrite skipn_app, Nat.sub_diag, skipn_all. reflexivity. }
          rewrite firstn_app in E1. replace (length blk - length pr)%nat with 0%nat in E1 by lia.
          simpl in E1. rewrite app_nil_r in E1.
          rewrite skipn_app in E2. replace (length blk - length pr)%nat with 0%nat in E2 by lia.
          simpl in E2. split; [| symmetry; exact E2].
          rewrite <- E1 at 1. symmetry. apply firstn_skipn. }
        destruct Epr as [_ Erest]. destruct (IH _ _ _ Erest Hs') as [H1 H2]. split; auto. right. exact H2.
      + (* inside blk *)
        assert (Hin : In s0 blk).
        { assert (E1 : firstn (length blk) (pr ++ s0 :: po) = blk).
          { rewrite <- E. rewrite firstn_app, Nat.sub_diag, firstn_all. simpl. apply app_nil_r. }
          rewrite <- E1. rewrite firstn_app. apply in_or_app. right.
          destruct (length blk - length pr)%nat eqn:El; [lia|]. simpl. left. reflexivity. }
        unfold blk in Hin. apply filter_In in Hin. destruct Hin as [_ Hk]. apply Nat.eqb_eq in Hk.
        split; [| left; symmetry; exact Hk].
        intros a Ha.
        assert (Hina : In a (blk ++ concat (map (fun k0 => filter (fun s => Nat.eqb (size n s) k0) l) ks))).
        { rewrite E. apply in_or_app. right. right. exact Ha. }
        apply in_app_or in Hina. destruct Hina as [Hina|Hina].
        * unfold blk in Hina. apply filter_In in Hina. destruct Hina as [_ Hka]. apply Nat.eqb_eq in Hka. lia.
        * apply in_concat in Hina. destruct Hina as [x [Hx Hax]]. apply in_map_iff in Hx.
          destruct Hx as [k' [<- Hk']]. apply filter_In in Hax. destruct Hax as [_ Hka].
          apply Nat.eqb_eq in Hka. rewrite Forall_forall in Hall. specialize (Hall _ Hk'). lia. }
  intros E. apply (G (seq 0 (S n)) pre post s E).
  clear. generalize 0%nat. induction (S n) as [|m IH]; intros st; simpl; constructor.
  - apply IH.
  - apply Forall_forall. intros x Hx. apply in_seq in Hx. lia.
Qed.

(* Extraction of the executable model to OCaml.  ExtrOcamlBasic only: bool, option, unit,
   prod, list, sumbool map to OCaml's; nat, N, Z, positive, Q stay Coq datatypes. *)
From Coq Require Import Extraction ExtrOcamlBasic.
From ICG Require Import Prelude Bits Table Bounds GameOps.
Extraction Language OCaml.
Extraction "model.ml"
  Qred Qplus Qminus Qmult Qdiv Qopp Qle_bool Qeq_bool
  alln size players by_size splits supers
  get set empty init_table
  compute step run neg_table get_value get_values_of get_known_value get_known_values_of is_full table_eqb.

(* CrashFrameProofs: frame theorems lifting the all-or-nothing property of the json saver (CrashProofs.v) to the
   public entry point save(model_path, unique_name, output) of incomplete_cooperative/run/save.py, which runs

       save_data_plot        image files under model_path/data_plots/...
       save_json             temp + os.replace on model_path/data.json            = cr_save_atomic h p q body
       save_draw_coalitions  image files under model_path/chosen_coalitions/...

   in this order.  The two plot savers are arbitrary traces of operations that do not name the results file p nor its
   temporary q ([cr_pathfree]); for the interleaved form they also do not use the json saver's handle ([cr_foreign]).

   Key invariant: [cr_untargeted x s] - no open handle of s points at path x.  It is established by the initial state
   (nothing is open), kept by every operation that does not name x (opens on other paths, renames between other
   paths: cr_retarget only ever moves a handle to the rename's target), and it is what makes buffers flushed by a
   later write / spill / close / with-block unwind land somewhere else than in x. *)
From Coq Require Import List NArith Bool Arith Lia.
From ICG Require Import Store StoreProofs Crash CrashProofs.
Import ListNotations.

(* ---------- which operations leave a path / a handle alone ---------- *)
(* the path fields of an operation: the file opened, both ends of a rename *)
Definition cr_names (x : N) (o : cr_op) : bool :=
  match o with
  | Cr_OpenTrunc _ y | Cr_OpenTmp _ y => N.eqb y x
  | Cr_Replace a b => N.eqb a x || N.eqb b x
  | Cr_Write _ _ | Cr_Spill _ _ | Cr_Flush _ | Cr_Close _ => false
  end.

(* the handle field *)
Definition cr_uses (hs : list N) (o : cr_op) : bool :=
  match o with
  | Cr_OpenTrunc h _ | Cr_OpenTmp h _ | Cr_Write h _ | Cr_Spill h _ | Cr_Flush h | Cr_Close h => existsb (N.eqb h) hs
  | Cr_Replace _ _ => false
  end.

Definition cr_avoids (x : N) (o : cr_op) : bool := negb (cr_names x o).

Definition cr_pathfree (p q : N) (o : cr_op) : bool := cr_avoids p o && cr_avoids q o.

(* an operation of somebody else: names neither p nor q, uses none of the handles hs *)
Definition cr_foreign (p q : N) (hs : list N) (o : cr_op) : bool := cr_pathfree p q o && negb (cr_uses hs o).

Lemma cr_foreign_pathfree p q hs o : cr_foreign p q hs o = true -> cr_pathfree p q o = true.
Proof. unfold cr_foreign. intro H. apply andb_true_iff in H. apply H. Qed.

Lemma cr_foreign_parts p q h o :
  cr_foreign p q [h] o = true -> cr_names p o = false /\ cr_names q o = false /\ cr_uses [h] o = false.
Proof.
  unfold cr_foreign, cr_pathfree, cr_avoids. intro H.
  apply andb_true_iff in H. destruct H as [H1 H3]. apply andb_true_iff in H1. destruct H1 as [H1 H2].
  apply negb_true_iff in H1, H2, H3. repeat split; assumption.
Qed.

Lemma cr_forallb_weaken {A} (f g : A -> bool) l :
  (forall x, f x = true -> g x = true) -> forallb f l = true -> forallb g l = true.
Proof.
  intros H. induction l as [|x l IH]; cbn; [reflexivity|]. intro E. apply andb_true_iff in E. destruct E as [E1 E2].
  rewrite (H _ E1). apply IH. exact E2.
Qed.

(* ---------- finite maps, once more ---------- *)
Lemma cr_get_put {A} (m : list (N * A)) k k' v :
  cr_get (cr_put m k v) k' = if N.eqb k' k then Some v else cr_get m k'.
Proof.
  destruct (N.eqb k' k) eqn:E.
  - apply N.eqb_eq in E. subst. apply cr_get_put_same.
  - apply cr_get_put_other. apply N.eqb_neq. exact E.
Qed.

Lemma cr_get_del {A} (m : list (N * A)) k k' :
  cr_get (cr_del m k) k' = if N.eqb k' k then None else cr_get m k'.
Proof.
  destruct (N.eqb k' k) eqn:E.
  - apply N.eqb_eq in E. subst. apply cr_get_del_same.
  - apply cr_get_del_other. apply N.eqb_neq. exact E.
Qed.

(* what os.replace(a, b) does to the path of one handle *)
Definition cr_retarget1 (a b : N) (t : option N) : option N :=
  match t with
  | Some x => if N.eqb x a then Some b else if N.eqb x b then None else t
  | None => None
  end.

Lemma cr_get_retarget a b hs h :
  cr_get (cr_retarget a b hs) h =
  match cr_get hs h with Some (t, buf) => Some (cr_retarget1 a b t, buf) | None => None end.
Proof.
  induction hs as [|[h' [t buf]] hs IH]; [reflexivity|].
  unfold cr_retarget in *. cbn [map cr_get].
  destruct t as [x|].
  - destruct (N.eqb x a) eqn:Ea; [|destruct (N.eqb x b) eqn:Eb]; cbn [cr_get]; destruct (N.eqb h h'); try exact IH;
      cbn [cr_retarget1]; rewrite Ea, ?Eb; reflexivity.
  - cbn [cr_get]. destruct (N.eqb h h'); [reflexivity| exact IH].
Qed.

Lemma cr_get_append_other fs t b x : t <> Some x -> cr_get (cr_append fs t b) x = cr_get fs x.
Proof.
  intro H. destruct t as [y|]; cbn [cr_append]; [|reflexivity]. destruct (cr_get fs y); [|reflexivity].
  apply cr_get_put_other. intros ->. apply H. reflexivity.
Qed.

Lemma cr_file_of_get fs fs' x : cr_get fs x = cr_get fs' x -> cr_file fs x = cr_file fs' x.
Proof. unfold cr_file. intros ->. reflexivity. Qed.

(* ---------- the frame: nobody holds x, nobody names x ==> x stays ---------- *)
Definition cr_untargeted (x : N) (s : cr_state) : Prop :=
  forall h t buf, cr_get (cr_open s) h = Some (t, buf) -> t <> Some x.

Lemma cr_untargeted_init x fs : cr_untargeted x (cr_init fs).
Proof. intros h t buf H. discriminate H. Qed.

Lemma cr_frame_step x s o :
  cr_untargeted x s -> cr_names x o = false ->
  cr_untargeted x (cr_step s o) /\ cr_get (cr_fs (cr_step s o)) x = cr_get (cr_fs s) x.
Proof.
  intros U Hn. destruct o as [h y|h y|h b|h n|h|h|a b]; cbn [cr_step cr_names] in *.
  1, 2: apply N.eqb_neq in Hn; split;
    [ intros h' t buf; cbn [cr_open]; rewrite cr_get_put; destruct (N.eqb h' h);
      [intros [= <- _]; congruence | apply U]
    | cbn [cr_fs]; apply cr_get_put_other; congruence ].
  - (* write *)
    destruct (cr_get (cr_open s) h) as [[t buf]|] eqn:G; [|split; [exact U| reflexivity]].
    split; [|reflexivity]. intros h' t' buf'. cbn [cr_open]. rewrite cr_get_put.
    destruct (N.eqb h' h); [intros [= <- _]; exact (U _ _ _ G) | apply U].
  - (* spill *)
    destruct (cr_get (cr_open s) h) as [[t buf]|] eqn:G; [|split; [exact U| reflexivity]].
    split; [|cbn [cr_fs]; apply cr_get_append_other; exact (U _ _ _ G)].
    intros h' t' buf'. cbn [cr_open]. rewrite cr_get_put.
    destruct (N.eqb h' h); [intros [= <- _]; exact (U _ _ _ G) | apply U].
  - (* flush *)
    destruct (cr_get (cr_open s) h) as [[t buf]|] eqn:G; [|split; [exact U| reflexivity]].
    split; [|cbn [cr_fs]; apply cr_get_append_other; exact (U _ _ _ G)].
    intros h' t' buf'. cbn [cr_open]. rewrite cr_get_put.
    destruct (N.eqb h' h); [intros [= <- _]; exact (U _ _ _ G) | apply U].
  - (* close *)
    destruct (cr_get (cr_open s) h) as [[t buf]|] eqn:G; [|split; [exact U| reflexivity]].
    split; [|cbn [cr_fs]; apply cr_get_append_other; exact (U _ _ _ G)].
    intros h' t' buf'. cbn [cr_open]. rewrite cr_get_del.
    destruct (N.eqb h' h); [discriminate | apply U].
  - (* replace a b, both different from x *)
    apply orb_false_iff in Hn. destruct Hn as [Ha Hb].
    destruct (cr_get (cr_fs s) a) as [c|]; [|split; [exact U| reflexivity]]. split.
    + intros h' t buf. cbn [cr_open]. rewrite cr_get_retarget.
      destruct (cr_get (cr_open s) h') as [[t0 b0]|] eqn:G; [|discriminate]. intros [= <- _].
      pose proof (U _ _ _ G) as U0. destruct t0 as [z|]; cbn [cr_retarget1]; [|discriminate].
      destruct (N.eqb z a); [intros [= ->]; rewrite N.eqb_refl in Hb; discriminate|].
      destruct (N.eqb z b); [discriminate| exact U0].
    + cbn [cr_fs]. apply N.eqb_neq in Ha, Hb.
      rewrite cr_get_put_other by congruence. apply cr_get_del_other. congruence.
Qed.

Lemma cr_frame_run x tr : forall s,
  cr_untargeted x s -> forallb (cr_avoids x) tr = true ->
  cr_untargeted x (cr_run s tr) /\ cr_get (cr_fs (cr_run s tr)) x = cr_get (cr_fs s) x.
Proof.
  induction tr as [|o tr IH]; intros s U H; [split; [exact U| reflexivity]|].
  cbn [forallb] in H. apply andb_true_iff in H. destruct H as [Ho H]. apply negb_true_iff in Ho.
  change (cr_run s (o :: tr)) with (cr_run (cr_step s o) tr).
  destruct (cr_frame_step x s o U Ho) as [U1 E1]. destruct (IH _ U1 H) as [U2 E2].
  split; [exact U2| rewrite E2; exact E1].
Qed.

Lemma cr_forallb_map {A B} (f : B -> bool) (g : A -> B) l : (forall a, f (g a) = true) -> forallb f (map g l) = true.
Proof. intro H. induction l as [|a l IH]; cbn; [reflexivity|]. rewrite H. exact IH. Qed.

(* however the process stops: the with-block exits flush buffers into the files their handles point at, not into x *)
Lemma cr_frame_stop x m s : cr_untargeted x s -> cr_get (cr_stop m s) x = cr_get (cr_fs s) x.
Proof.
  intro U. destruct m as [| |n]; cbn [cr_stop]; [reflexivity| |].
  - unfold cr_unwind. apply cr_frame_run; [exact U|]. apply cr_forallb_map. reflexivity.
  - unfold cr_unwind_partial. apply cr_frame_run; [exact U|]. apply cr_forallb_map. reflexivity.
Qed.

(* the frame theorem proper: a trace that never names x, started where nothing points at x, leaves x as it was -
   wherever and however it is cut short *)
Theorem cr_frame_crash x s tr k m :
  cr_untargeted x s -> forallb (cr_avoids x) tr = true ->
  cr_file (cr_stop m (cr_run s (firstn k tr))) x = cr_file (cr_fs s) x.
Proof.
  intros U H. apply cr_file_of_get.
  destruct (cr_frame_run x (firstn k tr) s U (cr_forallb_firstn _ _ _ H)) as [U1 E1].
  rewrite cr_frame_stop by exact U1. exact E1.
Qed.

(* ---------- the json save in progress, other handles possibly open ---------- *)
(* [cr_saving h q s w]: handle h is open on q, the bytes written so far (file q followed by h's buffer) are w,
   and no other handle points at q.  Unlike cr_writing (CrashProofs) nothing is said about the other handles and files. *)
Definition cr_saving (h q : N) (s : cr_state) (w : cr_bytes) : Prop :=
  exists c buf,
    cr_get (cr_open s) h = Some (Some q, buf) /\ cr_get (cr_fs s) q = Some c /\ cr_rev c ++ buf = w /\
    forall h' t b, h' <> h -> cr_get (cr_open s) h' = Some (t, b) -> t <> Some q.

Lemma cr_saving_open h q s : cr_untargeted q s -> cr_saving h q (cr_step s (Cr_OpenTmp h q)) [].
Proof.
  intro U. exists [], []. cbn [cr_step cr_open cr_fs]. split; [apply cr_get_put_same|].
  split; [apply cr_get_put_same|]. split; [reflexivity|].
  intros h' t b Hh. rewrite cr_get_put_other by exact Hh. apply U.
Qed.

Lemma cr_saving_body_step h q s w o :
  cr_saving h q s w -> cr_body_op h o = true -> cr_saving h q (cr_step s o) (w ++ cr_written [o]).
Proof.
  intros (c & buf & Ho & Hq & Hw & Hrest) Hop.
  destruct o as [| |h' b|h' n|h'| |]; cbn in Hop; try discriminate; apply N.eqb_eq in Hop; subst h'; cbn [cr_step];
    rewrite Ho; cbn [cr_written cr_fs cr_open cr_append]; rewrite ?Hq.
  - (* write *)
    exists c, (buf ++ b). cbn [cr_open cr_fs]. split; [apply cr_get_put_same|]. split; [exact Hq|]. split.
    + rewrite app_nil_r, app_assoc, Hw. reflexivity.
    + intros h' t b' Hh. rewrite cr_get_put_other by exact Hh. apply Hrest. exact Hh.
  - (* spill *)
    exists (rev_append (firstn n buf) c), (skipn n buf). cbn [cr_open cr_fs]. split; [apply cr_get_put_same|].
    split; [apply cr_get_put_same|]. split.
    + rewrite cr_rev_rev_append, <- app_assoc, firstn_skipn, app_nil_r. exact Hw.
    + intros h' t b' Hh. rewrite cr_get_put_other by exact Hh. apply Hrest. exact Hh.
  - (* flush *)
    exists (rev_append buf c), []. cbn [cr_open cr_fs]. split; [apply cr_get_put_same|].
    split; [apply cr_get_put_same|]. split.
    + rewrite cr_rev_rev_append, !app_nil_r. exact Hw.
    + intros h' t b' Hh. rewrite cr_get_put_other by exact Hh. apply Hrest. exact Hh.
Qed.

Lemma cr_saving_body_run h q body : forall s w,
  cr_saving h q s w -> forallb (cr_body_op h) body = true ->
  cr_saving h q (cr_run s body) (w ++ cr_written body).
Proof.
  induction body as [|o body IH]; intros s w Hs Hb.
  - cbn. rewrite app_nil_r. exact Hs.
  - cbn in Hb. apply andb_true_iff in Hb. destruct Hb as [Ho Hb].
    change (cr_run s (o :: body)) with (cr_run (cr_step s o) body).
    change (o :: body) with ([o] ++ body). rewrite cr_written_app, app_assoc.
    apply IH; [|exact Hb]. apply cr_saving_body_step; assumption.
Qed.

(* closing: q holds everything that was written and nothing points at it any more *)
Lemma cr_saving_close h q s w :
  cr_saving h q s w ->
  cr_untargeted q (cr_step s (Cr_Close h)) /\ cr_file (cr_fs (cr_step s (Cr_Close h))) q = Some w.
Proof.
  intros (c & buf & Ho & Hq & Hw & Hrest). cbn [cr_step]. rewrite Ho. cbn [cr_fs cr_open cr_append]. rewrite Hq. split.
  - intros h' t b. cbn [cr_open]. rewrite cr_get_del. destruct (N.eqb h' h) eqn:E; [discriminate|].
    apply Hrest. apply N.eqb_neq. exact E.
  - rewrite cr_file_put_same, cr_rev_rev_append. f_equal. exact Hw.
Qed.

(* the rename: p gets the whole of q, and still nothing points at p *)
Lemma cr_replace_lands p q s w :
  p <> q -> cr_untargeted p s -> cr_untargeted q s -> cr_file (cr_fs s) q = Some w ->
  cr_untargeted p (cr_step s (Cr_Replace q p)) /\ cr_file (cr_fs (cr_step s (Cr_Replace q p))) p = Some w.
Proof.
  intros Hpq Up Uq Hq. cbn [cr_step]. unfold cr_file in Hq.
  destruct (cr_get (cr_fs s) q) as [c|] eqn:G; [|discriminate]. cbn [cr_open cr_fs]. split.
  - intros h' t buf. cbn [cr_open]. rewrite cr_get_retarget.
    destruct (cr_get (cr_open s) h') as [[t0 b0]|] eqn:G0; [|discriminate]. intros [= <- _].
    pose proof (Up _ _ _ G0) as U1. pose proof (Uq _ _ _ G0) as U2.
    destruct t0 as [z|]; cbn [cr_retarget1]; [|discriminate].
    destruct (N.eqb z q) eqn:E; [apply N.eqb_eq in E; congruence|].
    destruct (N.eqb z p); [discriminate| exact U1].
  - rewrite cr_file_put_same. exact Hq.
Qed.

(* an operation of somebody else does not disturb the save in progress: h's entry, file q and the
   "nobody else points at q" clause all survive *)
Lemma cr_saving_foreign_step h q s w o :
  cr_saving h q s w -> cr_names q o = false -> cr_uses [h] o = false -> cr_saving h q (cr_step s o) w.
Proof.
  intros (c & buf & Ho & Hq & Hw & Hrest) Hn Hu.
  assert (Hh : forall h', existsb (N.eqb h') [h] = false -> h' <> h).
  { intros h' E. cbn in E. rewrite orb_false_r in E. apply N.eqb_neq. exact E. }
  destruct o as [h' y|h' y|h' b|h' n|h'|h'|a b]; cbn [cr_step cr_names cr_uses] in *.
  1, 2: apply Hh in Hu; apply N.eqb_neq in Hn; exists c, buf; cbn [cr_open cr_fs];
    (split; [rewrite cr_get_put_other by congruence; exact Ho|]);
    (split; [rewrite cr_get_put_other by congruence; exact Hq|]); (split; [exact Hw|]);
    intros h2 t b2 H2; rewrite cr_get_put; destruct (N.eqb h2 h');
    [intros [= <- _]; congruence | apply Hrest; exact H2].
  - (* write *)
    apply Hh in Hu. destruct (cr_get (cr_open s) h') as [[t0 b0]|] eqn:G; [|exists c, buf; repeat split; assumption].
    exists c, buf. cbn [cr_open cr_fs]. split; [rewrite cr_get_put_other by congruence; exact Ho|].
    split; [exact Hq|]. split; [exact Hw|]. intros h2 t b2 H2. rewrite cr_get_put.
    destruct (N.eqb h2 h') eqn:E; [|apply Hrest; exact H2].
    apply N.eqb_eq in E. subst h2. intros [= <- _]. exact (Hrest _ _ _ H2 G).
  - (* spill *)
    apply Hh in Hu. destruct (cr_get (cr_open s) h') as [[t0 b0]|] eqn:G; [|exists c, buf; repeat split; assumption].
    exists c, buf. cbn [cr_open cr_fs]. split; [rewrite cr_get_put_other by congruence; exact Ho|].
    split; [rewrite cr_get_append_other by exact (Hrest _ _ _ Hu G); exact Hq|].
    split; [exact Hw|]. intros h2 t b2 H2. rewrite cr_get_put.
    destruct (N.eqb h2 h') eqn:E; [|apply Hrest; exact H2].
    apply N.eqb_eq in E. subst h2. intros [= <- _]. exact (Hrest _ _ _ H2 G).
  - (* flush *)
    apply Hh in Hu. destruct (cr_get (cr_open s) h') as [[t0 b0]|] eqn:G; [|exists c, buf; repeat split; assumption].
    exists c, buf. cbn [cr_open cr_fs]. split; [rewrite cr_get_put_other by congruence; exact Ho|].
    split; [rewrite cr_get_append_other by exact (Hrest _ _ _ Hu G); exact Hq|].
    split; [exact Hw|]. intros h2 t b2 H2. rewrite cr_get_put.
    destruct (N.eqb h2 h') eqn:E; [|apply Hrest; exact H2].
    apply N.eqb_eq in E. subst h2. intros [= <- _]. exact (Hrest _ _ _ H2 G).
  - (* close *)
    apply Hh in Hu. destruct (cr_get (cr_open s) h') as [[t0 b0]|] eqn:G; [|exists c, buf; repeat split; assumption].
    exists c, buf. cbn [cr_open cr_fs]. split; [rewrite cr_get_del_other by congruence; exact Ho|].
    split; [rewrite cr_get_append_other by exact (Hrest _ _ _ Hu G); exact Hq|].
    split; [exact Hw|]. intros h2 t b2 H2. rewrite cr_get_del.
    destruct (N.eqb h2 h'); [discriminate| apply Hrest; exact H2].
  - (* replace between two other paths: h keeps pointing at q, nobody is moved onto q *)
    apply orb_false_iff in Hn. destruct Hn as [Ha Hb].
    destruct (cr_get (cr_fs s) a) as [c'|]; [|exists c, buf; repeat split; assumption].
    exists c, buf. cbn [cr_open cr_fs]. split.
    { rewrite cr_get_retarget, Ho. cbn [cr_retarget1]. rewrite N.eqb_sym, Ha, N.eqb_sym, Hb. reflexivity. }
    apply N.eqb_neq in Ha, Hb.
    split; [rewrite cr_get_put_other by congruence; rewrite cr_get_del_other by congruence; exact Hq|].
    split; [exact Hw|]. intros h2 t b2 H2. rewrite cr_get_retarget.
    destruct (cr_get (cr_open s) h2) as [[t0 b0]|] eqn:G; [|discriminate]. intros [= <- _].
    pose proof (Hrest _ _ _ H2 G) as U0. destruct t0 as [z|]; cbn [cr_retarget1]; [|discriminate].
    destruct (N.eqb z a); [congruence|]. destruct (N.eqb z b); [discriminate| exact U0].
Qed.

(* ---------- the public save(): plot saver; json saver; plot saver ---------- *)
Section PublicSave.
  Variables (h p q : N) (body : list cr_op) (payload : cr_bytes).
  Hypothesis Hpq : p <> q.
  Hypothesis Hbody : cr_body_ok h payload body = true.

  Lemma cr_body_avoids x : forallb (cr_avoids x) body = true.
  Proof.
    destruct (cr_body_ok_parts h body payload Hbody) as [Hops _].
    revert Hops. apply cr_forallb_weaken. intros o Ho. destruct o; cbn in Ho; try discriminate; reflexivity.
  Qed.

  (* everything up to and including the close of the temp file ... *)
  Definition cr_public_head (pre : list cr_op) : list cr_op := pre ++ Cr_OpenTmp h q :: body ++ [Cr_Close h].

  Lemma cr_public_split pre post :
    pre ++ cr_save_atomic h p q body ++ post = cr_public_head pre ++ Cr_Replace q p :: post.
  Proof.
    unfold cr_public_head, cr_save_atomic. cbn [app]. rewrite <- !app_assoc. cbn [app].
    rewrite <- !app_assoc. reflexivity.
  Qed.

  Lemma cr_public_head_length pre : length (cr_public_head pre) = length pre + length body + 2.
  Proof. unfold cr_public_head. rewrite app_length. cbn [length]. rewrite app_length. cbn [length]. lia. Qed.

  (* ... never names p *)
  Lemma cr_public_head_avoids pre : forallb (cr_avoids p) pre = true -> forallb (cr_avoids p) (cr_public_head pre) = true.
  Proof.
    intro H. unfold cr_public_head. rewrite forallb_app, H. cbn [forallb andb].
    replace (cr_avoids p (Cr_OpenTmp h q)) with true.
    - rewrite forallb_app, cr_body_avoids. reflexivity.
    - unfold cr_avoids. cbn [cr_names]. symmetry. apply negb_true_iff. apply N.eqb_neq. congruence.
  Qed.

  (* the state in which the rename is issued: q holds the payload, nothing points at p or q *)
  Lemma cr_public_before_replace s0 pre :
    cr_untargeted p s0 -> cr_untargeted q s0 -> forallb (cr_pathfree p q) pre = true ->
    let s1 := cr_run s0 (cr_public_head pre) in
    cr_untargeted p s1 /\ cr_untargeted q s1 /\ cr_file (cr_fs s1) q = Some payload /\
    cr_file (cr_fs s1) p = cr_file (cr_fs s0) p.
  Proof.
    intros Up Uq Hpre. cbn zeta.
    assert (Hp : forallb (cr_avoids p) pre = true).
    { revert Hpre. apply cr_forallb_weaken. intros o Ho. apply andb_true_iff in Ho. apply Ho. }
    assert (Hq : forallb (cr_avoids q) pre = true).
    { revert Hpre. apply cr_forallb_weaken. intros o Ho. apply andb_true_iff in Ho. apply Ho. }
    destruct (cr_frame_run p _ s0 Up (cr_public_head_avoids pre Hp)) as [Up1 Ep].
    split; [exact Up1|]. rewrite (cr_file_of_get _ _ _ Ep).
    unfold cr_public_head in *. rewrite cr_run_app.
    destruct (cr_frame_run q pre s0 Uq Hq) as [Uq0 _].
    set (s := cr_run s0 pre) in *.
    change (Cr_OpenTmp h q :: body ++ [Cr_Close h]) with ([Cr_OpenTmp h q] ++ body ++ [Cr_Close h]).
    rewrite !cr_run_app. change (cr_run s [Cr_OpenTmp h q]) with (cr_step s (Cr_OpenTmp h q)).
    destruct (cr_body_ok_parts h body payload Hbody) as [Hops Hw].
    pose proof (cr_saving_body_run h q body _ _ (cr_saving_open h q s Uq0) Hops) as W.
    cbn [app] in W. rewrite Hw in W.
    set (s' := cr_run (cr_step s (Cr_OpenTmp h q)) body) in *.
    change (cr_run s' [Cr_Close h]) with (cr_step s' (Cr_Close h)).
    destruct (cr_saving_close h q s' payload W) as [Uq1 Fq]. repeat split; assumption.
  Qed.

  (* The exact content of the results file for every crash point of  pre ; save_json ; post  started in ANY state in
     which no open handle points at p or q (pre may leave handles open, post may reuse any handle, h included):
     up to and including the close of the temp file it is the previous file, from the rename on it is the payload.
     [pre] must not name p or q; [post] only must not name p. *)
  Lemma cr_public_save_exact_from s0 pre post k m :
    cr_untargeted p s0 -> cr_untargeted q s0 ->
    forallb (cr_pathfree p q) pre = true -> forallb (cr_avoids p) post = true ->
    cr_file (cr_stop m (cr_run s0 (firstn k (pre ++ cr_save_atomic h p q body ++ post)))) p =
    if k <=? length pre + length body + 2 then cr_file (cr_fs s0) p else Some payload.
  Proof.
    intros Up Uq Hpre Hpost. rewrite cr_public_split.
    destruct (cr_firstn_app_cases (cr_public_head pre) (Cr_Replace q p :: post) k) as [[Hk ->] | [Hk ->]];
      rewrite cr_public_head_length in Hk.
    - replace (k <=? length pre + length body + 2) with true by (symmetry; apply Nat.leb_le; exact Hk).
      apply cr_frame_crash; [exact Up|]. apply cr_public_head_avoids.
      revert Hpre. apply cr_forallb_weaken. intros o Ho. apply andb_true_iff in Ho. apply Ho.
    - replace (k <=? length pre + length body + 2) with false by (symmetry; apply Nat.leb_gt; exact Hk).
      rewrite cr_public_head_length.
      remember (k - (length pre + length body + 2)) as j. destruct j as [|j]; [lia|]. cbn [firstn].
      rewrite cr_run_app.
      destruct (cr_public_before_replace s0 pre Up Uq Hpre) as (Up1 & Uq1 & Fq & _).
      set (s1 := cr_run s0 (cr_public_head pre)) in *.
      change (cr_run s1 (Cr_Replace q p :: firstn j post)) with (cr_run (cr_step s1 (Cr_Replace q p)) (firstn j post)).
      destruct (cr_replace_lands p q s1 payload Hpq Up1 Uq1 Fq) as [Up2 Fp].
      rewrite cr_frame_crash by assumption. exact Fp.
  Qed.

  Lemma cr_pathfree_avoids_p l : forallb (cr_pathfree p q) l = true -> forallb (cr_avoids p) l = true.
  Proof. apply cr_forallb_weaken. intros o Ho. apply andb_true_iff in Ho. apply Ho. Qed.

  (* the same from the start of the process (nothing open); only the path clauses of cr_foreign are needed here *)
  Theorem cr_public_save_exact fs0 pre post k m :
    forallb (cr_pathfree p q) pre = true -> forallb (cr_pathfree p q) post = true ->
    cr_crash_at m (pre ++ cr_save_atomic h p q body ++ post) k fs0 p =
    if k <=? length pre + length body + 2 then cr_file fs0 p else Some payload.
  Proof.
    intros Hpre Hpost. unfold cr_crash_at, cr_crash.
    apply (cr_public_save_exact_from (cr_init fs0)); try apply cr_untargeted_init; try assumption.
    apply cr_pathfree_avoids_p. exact Hpost.
  Qed.

  (* FRAME THEOREM for the public save(): faults inside the plot savers or inside the json saver never leave the
     results file in a third state.  Every k (also beyond the end), every mode. *)
  Theorem cr_public_save_all_or_nothing fs0 pre post :
    forallb (cr_foreign p q [h]) pre = true -> forallb (cr_foreign p q [h]) post = true ->
    forall k m,
      cr_crash_at m (pre ++ cr_save_atomic h p q body ++ post) k fs0 p = cr_file fs0 p \/
      cr_crash_at m (pre ++ cr_save_atomic h p q body ++ post) k fs0 p = Some payload.
  Proof.
    intros Hpre Hpost k m.
    rewrite (cr_public_save_exact fs0 pre post k m)
      by (eapply cr_forallb_weaken; [apply cr_foreign_pathfree| eassumption]).
    destruct (k <=? length pre + length body + 2); [left| right]; reflexivity.
  Qed.

  (* no fault (or one after the last operation): the results file holds the payload *)
  Corollary cr_public_save_completes fs0 pre post :
    forallb (cr_foreign p q [h]) pre = true -> forallb (cr_foreign p q [h]) post = true ->
    forall k m,
      length (pre ++ cr_save_atomic h p q body ++ post) <= k ->
      cr_crash_at m (pre ++ cr_save_atomic h p q body ++ post) k fs0 p = Some payload.
  Proof.
    intros Hpre Hpost k m Hk.
    rewrite (cr_public_save_exact fs0 pre post k m)
      by (eapply cr_forallb_weaken; [apply cr_foreign_pathfree| eassumption]).
    replace (k <=? length pre + length body + 2) with false; [reflexivity|].
    symmetry. apply Nat.leb_gt. rewrite cr_public_split, app_length, cr_public_head_length in Hk. cbn [length] in Hk. lia.
  Qed.

  Corollary cr_public_save_final fs0 pre post :
    forallb (cr_foreign p q [h]) pre = true -> forallb (cr_foreign p q [h]) post = true ->
    cr_file (cr_fs (cr_run (cr_init fs0) (pre ++ cr_save_atomic h p q body ++ post))) p = Some payload.
  Proof.
    intros Hpre Hpost.
    pose proof (cr_public_save_completes fs0 pre post Hpre Hpost _ Cr_Death (Nat.le_refl _)) as H.
    unfold cr_crash_at, cr_crash in H. rewrite firstn_all in H. exact H.
  Qed.

  (* ---------- interleaved form: the foreign operations may come anywhere, also between the json saver's own ---------- *)
  (* [cr_own o]: o is not foreign; the hypothesis of the theorem says that the json saver's operations are exactly
     the non-foreign operations of the trace, in order.  Here the handle clause of cr_foreign is essential. *)
  Definition cr_own (o : cr_op) : bool := negb (cr_foreign p q [h] o).

  Definition cr_old_or_new (old : option cr_bytes) (s : cr_state) (tr : list cr_op) : Prop :=
    forall k m, cr_file (cr_stop m (cr_run s (firstn k tr))) p = old \/
                cr_file (cr_stop m (cr_run s (firstn k tr))) p = Some payload.

  Lemma cr_filter_own_nil tr : filter cr_own tr = [] -> forallb (cr_avoids p) tr = true.
  Proof.
    induction tr as [|o tr IH]; [reflexivity|]. cbn [filter forallb]. unfold cr_own at 1.
    destruct (cr_foreign p q [h] o) eqn:F; cbn [negb]; [|discriminate].
    intro H. rewrite (IH H), andb_true_r. apply cr_foreign_pathfree in F. apply andb_true_iff in F. apply F.
  Qed.

  (* phase 3: the rename has happened *)
  Lemma cr_phase_done s tr :
    cr_untargeted p s -> cr_file (cr_fs s) p = Some payload -> filter cr_own tr = [] ->
    forall old, cr_old_or_new old s tr.
  Proof.
    intros Up Fp H old k m. right. rewrite cr_frame_crash; [exact Fp| exact Up| apply cr_filter_own_nil; exact H].
  Qed.

  (* phase 2: temp file closed, rename still to come *)
  Lemma cr_phase_closed tr : forall s,
    cr_untargeted p s -> cr_untargeted q s -> cr_file (cr_fs s) q = Some payload ->
    filter cr_own tr = [Cr_Replace q p] -> cr_old_or_new (cr_file (cr_fs s) p) s tr.
  Proof.
    induction tr as [|o tr IH]; intros s Up Uq Fq H; [discriminate|].
    intros [|k] m.
    - left. cbn [firstn cr_run fold_left]. apply cr_file_of_get. apply cr_frame_stop. exact Up.
    - cbn [firstn]. change (cr_run s (o :: firstn k tr)) with (cr_run (cr_step s o) (firstn k tr)).
      cbn [filter] in H. unfold cr_own at 1 in H. destruct (cr_foreign p q [h] o) eqn:F; cbn [negb] in H.
      + apply cr_foreign_parts in F. destruct F as (Fp & Fq' & _).
        destruct (cr_frame_step p s o Up Fp) as [Up1 Ep]. destruct (cr_frame_step q s o Uq Fq') as [Uq1 Eq].
        rewrite <- (cr_file_of_get _ _ _ Ep). apply IH; try assumption.
        rewrite (cr_file_of_get _ _ _ Eq). exact Fq.
      + injection H as -> H. destruct (cr_replace_lands p q s payload Hpq Up Uq Fq) as [Up2 Fp].
        apply (cr_phase_done _ tr Up2 Fp H).
  Qed.

  (* phase 1: temp file open, [rest] of the body still to be written *)
  Lemma cr_phase_writing tr : forall s w rest,
    cr_untargeted p s -> cr_saving h q s w ->
    forallb (cr_body_op h) rest = true -> w ++ cr_written rest = payload ->
    filter cr_own tr = rest ++ [Cr_Close h; Cr_Replace q p] -> cr_old_or_new (cr_file (cr_fs s) p) s tr.
  Proof.
    induction tr as [|o tr IH]; intros s w rest Up W Hrest Hw H; [destruct rest; discriminate|].
    intros [|k] m.
    - left. cbn [firstn cr_run fold_left]. apply cr_file_of_get. apply cr_frame_stop. exact Up.
    - cbn [firstn]. change (cr_run s (o :: firstn k tr)) with (cr_run (cr_step s o) (firstn k tr)).
      cbn [filter] in H. unfold cr_own at 1 in H. destruct (cr_foreign p q [h] o) eqn:F; cbn [negb] in H.
      + apply cr_foreign_parts in F. destruct F as (Fp & Fq & Fh).
        destruct (cr_frame_step p s o Up Fp) as [Up1 Ep].
        rewrite <- (cr_file_of_get _ _ _ Ep). apply (IH _ w rest); try assumption.
        apply cr_saving_foreign_step; assumption.
      + destruct rest as [|b rest].
        * cbn [app] in H. injection H as -> H. cbn [cr_written] in Hw. rewrite app_nil_r in Hw. subst w.
          destruct (cr_saving_close h q s payload W) as [Uq1 Fq].
          destruct (cr_frame_step p s (Cr_Close h) Up eq_refl) as [Up1 Ep].
          rewrite <- (cr_file_of_get _ _ _ Ep). apply cr_phase_closed; assumption.
        * cbn [app] in H. injection H as -> H. cbn [forallb] in Hrest. apply andb_true_iff in Hrest.
          destruct Hrest as [Hb Hrest].
          assert (Nb : cr_names p b = false) by (destruct b; cbn in Hb; try discriminate; reflexivity).
          destruct (cr_frame_step p s b Up Nb) as [Up1 Ep].
          rewrite <- (cr_file_of_get _ _ _ Ep). apply (IH _ (w ++ cr_written [b]) rest); try assumption.
          -- apply cr_saving_body_step; assumption.
          -- rewrite <- Hw. change (b :: rest) with ([b] ++ rest). rewrite cr_written_app, app_assoc. reflexivity.
  Qed.

  (* phase 0: the json saver has not started *)
  Lemma cr_phase_before tr : forall s,
    cr_untargeted p s -> cr_untargeted q s ->
    filter cr_own tr = cr_save_atomic h p q body -> cr_old_or_new (cr_file (cr_fs s) p) s tr.
  Proof.
    induction tr as [|o tr IH]; intros s Up Uq H; [discriminate|].
    intros [|k] m.
    - left. cbn [firstn cr_run fold_left]. apply cr_file_of_get. apply cr_frame_stop. exact Up.
    - cbn [firstn]. change (cr_run s (o :: firstn k tr)) with (cr_run (cr_step s o) (firstn k tr)).
      cbn [filter] in H. unfold cr_own at 1 in H. destruct (cr_foreign p q [h] o) eqn:F; cbn [negb] in H.
      + apply cr_foreign_parts in F. destruct F as (Fp & Fq & _).
        destruct (cr_frame_step p s o Up Fp) as [Up1 Ep]. destruct (cr_frame_step q s o Uq Fq) as [Uq1 _].
        rewrite <- (cr_file_of_get _ _ _ Ep). apply IH; assumption.
      + unfold cr_save_atomic in H. injection H as -> H.
        destruct (cr_body_ok_parts h body payload Hbody) as [Hops Hw].
        assert (Np : cr_names p (Cr_OpenTmp h q) = false) by (cbn; apply N.eqb_neq; congruence).
        destruct (cr_frame_step p s _ Up Np) as [Up1 Ep].
        rewrite <- (cr_file_of_get _ _ _ Ep). apply (cr_phase_writing tr _ [] body); try assumption.
        apply cr_saving_open. exact Uq.
  Qed.

  (* The json saver's operations interleaved in any way with any operations that do not name p or q and do not use
     its handle (another thread, a signal handler, a saver running concurrently): still all-or-nothing. *)
  Theorem cr_interleaved_save_all_or_nothing fs0 tr :
    filter cr_own tr = cr_save_atomic h p q body ->
    forall k m, cr_crash_at m tr k fs0 p = cr_file fs0 p \/ cr_crash_at m tr k fs0 p = Some payload.
  Proof.
    intros H k m. unfold cr_crash_at, cr_crash.
    apply (cr_phase_before tr (cr_init fs0)); try apply cr_untargeted_init. exact H.
  Qed.
End PublicSave.

(* ---------- what the frame hypothesis excludes: a saver that touches the results file itself ---------- *)
(* Seeded defect "a fresh model directory gets an empty results file written in place before the savers run":
       if not model_path.exists(): model_path.mkdir(parents=True); (model_path / "data.json").write_text("{}")
   The pre-creation [open p "w"; write "{}"; close] names p, so it is not foreign, and indeed: *)
Definition cr_precreate (h' p : N) (text : cr_bytes) : list cr_op := [Cr_OpenTrunc h' p; Cr_Write h' text; Cr_Close h'].

Lemma cr_precreate_not_foreign h' p q hs text : forallb (cr_foreign p q hs) (cr_precreate h' p text) = false.
Proof. cbn. unfold cr_foreign, cr_pathfree, cr_avoids. cbn [cr_names]. rewrite N.eqb_refl. reflexivity. Qed.

(* whatever follows, a stop right after the truncating open leaves a zero-byte file (every mode) *)
Lemma cr_precreate_truncates fs0 h' p rest m : cr_crash_at m (Cr_OpenTrunc h' p :: rest) 1 fs0 p = Some [].
Proof. exact (cr_inplace_truncates fs0 h' p [] m). Qed.

(* concrete instance: fresh directory (no results file), "{}" pre-created in place through handle 2, then the atomic
   save of cr_ex_new through handle 1 and temp path 2 *)
Lemma cr_precreate_inplace_refuted :
  exists fs0 h' h p q text body payload k m,
    p <> q /\ cr_body_ok h payload body = true /\
    k <= length (cr_precreate h' p text ++ cr_save_atomic h p q body) /\
    cr_file fs0 p = None /\
    cr_crash_at m (cr_precreate h' p text ++ cr_save_atomic h p q body) k fs0 p = Some [] /\
    cr_crash_at m (cr_precreate h' p text ++ cr_save_atomic h p q body) k fs0 p <> cr_file fs0 p /\
    cr_crash_at m (cr_precreate h' p text ++ cr_save_atomic h p q body) k fs0 p <> Some payload.
Proof.
  exists [], 2%N, 1%N, 1%N, 2%N, [123; 125]%N, cr_ex_body, cr_ex_new, 2, Cr_Death.
  split; [discriminate|]. split; [vm_compute; reflexivity|]. split; [vm_compute; lia|].
  split; [reflexivity|]. split; [vm_compute; reflexivity|]. split; vm_compute; discriminate.
Qed.

(* ---------- a concrete public save ---------- *)
(* results file 1 (old content {"a":1}), temp 2, json handle 1; the plot savers write files 10 and 11 through handles
   5 and 6 (11 is written to 12 and renamed, 10 is left open across the json save and closed afterwards) *)
Definition cr_ex_pre : list cr_op :=
  [Cr_OpenTrunc 5 10; Cr_Write 5 [137; 80; 78; 71]%N; Cr_Spill 5 2;
   Cr_OpenTmp 6 12; Cr_Write 6 [1; 2; 3]%N; Cr_Close 6; Cr_Replace 12 11].
Definition cr_ex_post : list cr_op :=
  [Cr_Write 5 [0; 0]%N; Cr_Close 5; Cr_OpenTrunc 6 11; Cr_Write 6 [4; 5]%N; Cr_Flush 6; Cr_Close 6].
Definition cr_ex_public : list cr_op := cr_ex_pre ++ cr_save_atomic 1 1 2 cr_ex_body ++ cr_ex_post.

(* an interleaving: handle 5 writes file 10 and renames it to 11 while the json saver (handle 1, temp 2) is at work *)
Definition cr_ex_interleaved : list cr_op :=
  [Cr_OpenTrunc 5 10; Cr_OpenTmp 1 2; Cr_Write 5 [137; 80; 78; 71]%N;
   Cr_Write 1 [123; 34; 97; 34; 58; 49]%N; Cr_Spill 5 2; Cr_Write 1 [44; 34; 98; 34]%N; Cr_Spill 1 8;
   Cr_Replace 10 11; Cr_Write 1 [58; 50; 125]%N; Cr_Flush 5; Cr_Close 1; Cr_Write 5 [0; 0]%N;
   Cr_Replace 2 1; Cr_Close 5].

(* ---------- cr_foreign spelled out, constructor by constructor ---------- *)
Lemma cr_foreign_spec p q h o :
  cr_foreign p q [h] o = true <->
  match o with
  | Cr_OpenTrunc h' y | Cr_OpenTmp h' y => h' <> h /\ y <> p /\ y <> q
  | Cr_Write h' _ | Cr_Spill h' _ | Cr_Flush h' | Cr_Close h' => h' <> h
  | Cr_Replace a b => a <> p /\ a <> q /\ b <> p /\ b <> q
  end.
Proof.
  unfold cr_foreign, cr_pathfree, cr_avoids.
  destruct o; cbn [cr_names cr_uses existsb];
    rewrite ?andb_true_iff, ?negb_true_iff, ?orb_false_iff, ?orb_false_r, ?N.eqb_neq; cbn [negb]; tauto.
Qed.

(* Norms: executable model of incomplete_cooperative/norms.py (gap functions l1, l2, linf of the width vector
   upper - lower, np.linalg.norm(x, ord)):  ord=1 -> sum |x|, ord=inf -> max |x|, ord=2 -> sqrt(sum x^2).
   Sums run through Shapley.sh_rsum (== qsum, reduced after every addition).
   The l2 norm is modelled by its square (stays in Q); the fourth gap function is Exploit.ex_exploit. *)
From ICG Require Import Prelude Bits Table Shapley.
From Coq Require Import Qabs.
Local Open Scope Q_scope.

Definition nm_width (l u : N -> Q) (S : N) : Q := u S - l S.
Definition nm_l1 (n : nat) (w : N -> Q) : Q := sh_rsum (map (fun S => Qabs (w S)) (alln n)).
Definition nm_linf (n : nat) (w : N -> Q) : Q := qmaxl (map (fun S => Qabs (w S)) (alln n)).
Definition nm_l2sq (n : nat) (w : N -> Q) : Q := sh_rsum (map (fun S => w S * w S) (alln n)).

(* on a game object (columns 1 and 2 of _values) *)
Definition nm_width_tab (t : table) : N -> Q := nm_width (fun S => lo (get t S)) (fun S => hi (get t S)).

(* RegretProofs: theorems about the model in Regret.v (property C14). *)
From ICG Require Import Prelude Bits Regret.
From Coq Require Import Sorted.

Local Open Scope nat_scope.

(* ================================================================= A. combinations *)
Inductive rg_subseq {A} : list A -> list A -> Prop :=
| rg_ss_nil l : rg_subseq [] l
| rg_ss_take x c l : rg_subseq c l -> rg_subseq (x :: c) (x :: l)
| rg_ss_skip x c l : rg_subseq c l -> rg_subseq c (x :: l).

Lemma rg_subseq_In {A} (c l : list A) x : rg_subseq c l -> In x c -> In x l.
Proof.
  induction 1 as [l|y c l H IH|y c l H IH]; intros Hin.
  - destruct Hin.
  - destruct Hin as [->|Hin]; [left; reflexivity| right; auto].
  - right; auto.
Qed.

Lemma rg_subseq_nil_r {A} (c : list A) : rg_subseq c [] -> c = [].
Proof. inversion 1; reflexivity. Qed.

Lemma rg_subseq_length {A} (c l : list A) : rg_subseq c l -> length c <= length l.
Proof. induction 1; simpl; lia. Qed.

Lemma rg_subseq_filter {A} (f : A -> bool) l : rg_subseq (filter f l) l.
Proof.
  induction l as [|x l IH]; simpl; [constructor|].
  destruct (f x); [apply rg_ss_take| apply rg_ss_skip]; exact IH.
Qed.

Lemma rg_combs_0 {A} (l : list A) : rg_combs l 0 = [[]].
Proof. destruct l; reflexivity. Qed.

(* enumeration spec of itertools.combinations: exactly the subsequences of length k *)
Lemma rg_in_combs {A} (l : list A) : forall k c, In c (rg_combs l k) <-> rg_subseq c l /\ length c = k.
Proof.
  induction l as [|x l IH]; intros k c.
  - destruct k; simpl.
    + split.
      * intros [<-|[]]. split; [constructor| reflexivity].
      * intros [_ H]. destruct c; [left; reflexivity| discriminate].
    + split; [intros []|]. intros [H E]. apply rg_subseq_nil_r in H. subst. discriminate.
  - destruct k.
    + rewrite rg_combs_0. split.
      * intros [<-|[]]. split; [constructor| reflexivity].
      * intros [_ H]. destruct c; [left; reflexivity| discriminate].
    + simpl. rewrite in_app_iff, in_map_iff. split.
      * intros [[c' [<- Hc']]|Hc].
        -- apply IH in Hc'. destruct Hc' as [Hs Hl]. split; [apply rg_ss_take; exact Hs| simpl; congruence].
        -- apply IH in Hc. destruct Hc as [Hs Hl]. split; [apply rg_ss_skip; exact Hs| exact Hl].
      * intros [Hs Hl]. inversion Hs as [l0 E|y c' l0 Hs' E1 E2|y c' l0 Hs' E1 E2]; subst.
        -- discriminate.
        -- left. exists c'. split; [reflexivity|]. apply IH. split; [exact Hs'| simpl in Hl; lia].
        -- right. apply IH. split; assumption.
Qed.

Lemma rg_NoDup_map_in {A B} (f : A -> B) l :
  (forall x y, In x l -> In y l -> f x = f y -> x = y) -> NoDup l -> NoDup (map f l).
Proof.
  induction l as [|x l IH]; intros Hinj Hnd; simpl; [constructor|].
  inversion Hnd as [|? ? Hx Hl]; subst. constructor.
  - intro Hin. apply in_map_iff in Hin. destruct Hin as [y [E Hy]].
    assert (y = x) by (apply Hinj; [right; exact Hy| left; reflexivity| exact E]). subst. contradiction.
  - apply IH; [|exact Hl]. intros a b Ha Hb. apply Hinj; right; assumption.
Qed.

Lemma rg_NoDup_combs {A} (l : list A) : NoDup l -> forall k, NoDup (rg_combs l k).
Proof.
  induction l as [|x l IH]; intros Hnd k.
  - destruct k; simpl; [constructor; [intros []| constructor]| constructor].
  - destruct k; [rewrite rg_combs_0; constructor; [intros []| constructor]|].
    inversion Hnd as [|? ? Hx Hl]; subst. simpl. apply NoDup_app_intro.
    + apply rg_NoDup_map_in; [|apply IH; exact Hl]. intros a b _ _ E. congruence.
    + apply IH; exact Hl.
    + intros c Hc Hc'. apply in_map_iff in Hc. destruct Hc as [c' [<- _]].
      apply rg_in_combs in Hc'. destruct Hc' as [Hs _].
      apply Hx. apply (rg_subseq_In _ _ x Hs). left; reflexivity.
Qed.

Lemma rg_combs_length {A} (l : list A) : forall k, length (rg_combs l k) = rg_binom (length l) k.
Proof.
  induction l as [|x l IH]; intros k.
  - destruct k; reflexivity.
  - destruct k; [rewrite rg_combs_0; reflexivity|].
    simpl. rewrite app_length, map_length, !IH. reflexivity.
Qed.

(* ================================================================= B. masks, players, popcount *)
Lemma rg_mask_of_cons x c : rg_mask_of (x :: c) = N.lor (single x) (rg_mask_of c).
Proof. reflexivity. Qed.

Lemma rg_tb_mask_of c i : tb (rg_mask_of c) i = existsb (Nat.eqb i) c.
Proof.
  induction c as [|x c IH]; [apply tb_0|].
  rewrite rg_mask_of_cons. cbn [existsb].
  rewrite tb_lor, tb_single, IH. rewrite (Nat.eqb_sym i x). reflexivity.
Qed.

Lemma rg_filter_subseq (c l : list nat) :
  rg_subseq c l -> NoDup l -> filter (fun i => existsb (Nat.eqb i) c) l = c.
Proof.
  induction 1 as [l|x c l H IH|x c l H IH]; intros Hnd.
  - induction l as [|y l IHl]; simpl; [reflexivity|]. apply IHl. inversion Hnd; assumption.
  - inversion Hnd as [|? ? Hx Hl]; subst. simpl. rewrite Nat.eqb_refl. simpl. f_equal.
    etransitivity; [|apply (IH Hl)]. apply filter_ext_in. intros y Hy.
    destruct (Nat.eqb_spec y x) as [->|]; [contradiction| reflexivity].
  - inversion Hnd as [|? ? Hx Hl]; subst. simpl.
    assert (E : existsb (Nat.eqb x) c = false).
    { apply not_true_iff_false. intro E. apply existsb_exists in E. destruct E as [y [Hy Ey]].
      apply Nat.eqb_eq in Ey. subst y. apply Hx. eapply rg_subseq_In; eauto. }
    rewrite E. apply IH; exact Hl.
Qed.

Lemma rg_players_mask_of n c : rg_subseq c (seq 0 n) -> players n (rg_mask_of c) = c.
Proof.
  intros H. unfold players. rewrite <- (rg_filter_subseq c (seq 0 n) H (seq_NoDup n 0)) at 2.
  apply filter_ext. intros i. apply rg_tb_mask_of.
Qed.

Lemma rg_mask_of_players n m : bounded n m -> rg_mask_of (players n m) = m.
Proof.
  intros Hb. apply bits_inj_nat. intros i. rewrite rg_tb_mask_of. unfold players.
  destruct (tb m i) eqn:E.
  - apply existsb_exists. exists i. split; [|apply Nat.eqb_refl].
    apply filter_In. split; [|exact E]. apply in_seq.
    destruct (Nat.lt_ge_cases i n) as [Hl|Hl]; [lia|]. rewrite (Hb i Hl) in E. discriminate.
  - apply not_true_iff_false. intro H. apply existsb_exists in H. destruct H as [j [Hj Ej]].
    apply Nat.eqb_eq in Ej. subst j. apply filter_In in Hj. destruct Hj as [_ Hj]. congruence.
Qed.

Lemma rg_bounded_mask_of n c : (forall i, In i c -> i < n) -> bounded n (rg_mask_of c).
Proof.
  intros H i Hi. rewrite rg_tb_mask_of. apply not_true_iff_false. intro E.
  apply existsb_exists in E. destruct E as [j [Hj Ej]]. apply Nat.eqb_eq in Ej. subst j.
  specialize (H i Hj). lia.
Qed.

Lemma rg_size_mask_of n c : rg_subseq c (seq 0 n) -> size n (rg_mask_of c) = length c.
Proof. intros H. unfold size. rewrite rg_players_mask_of; auto. Qed.

(* popcount = size for masks below 2^n *)
Lemma rg_popcount_step m : rg_popcount m = (if tb m 0 then 1 else 0) + rg_popcount (N.div2 m).
Proof. destruct m as [|[p|p|]]; reflexivity. Qed.

Lemma rg_tb_div2 m i : tb (N.div2 m) i = tb m (S i).
Proof. unfold tb. rewrite Nat2N.inj_succ, N.testbit_succ_r_div2 by apply N.le_0_l. reflexivity. Qed.

Lemma rg_filter_map_S (f : nat -> bool) l : filter f (map S l) = map S (filter (fun i => f (S i)) l).
Proof. induction l as [|x l IH]; simpl; [reflexivity|]. destruct (f (S x)); simpl; congruence. Qed.

Lemma rg_size_popcount n : forall m, bounded n m -> size n m = rg_popcount m.
Proof.
  induction n as [|n IH]; intros m Hb.
  - assert (m = 0%N) as ->.
    { apply bits_inj_nat. intros i. rewrite tb_0. apply Hb. lia. }
    reflexivity.
  - rewrite rg_popcount_step. rewrite <- (IH (N.div2 m)).
    + unfold size, players. rewrite <- cons_seq, <- seq_shift. simpl filter.
      rewrite rg_filter_map_S.
      assert (E : filter (fun i => tb m (S i)) (seq 0 n) = filter (tb (N.div2 m)) (seq 0 n)).
      { apply filter_ext. intros i. symmetry. apply rg_tb_div2. }
      rewrite E. destruct (tb m 0); simpl; rewrite map_length; reflexivity.
    + intros i Hi. rewrite rg_tb_div2. apply Hb. lia.
Qed.

(* ================================================================= C. the ranking *)
Definition rg_all_combs (nc L : nat) : list (list nat) :=
  concat (map (fun k => rg_combs (seq 0 nc) k) (seq 0 (L + 1))).

Lemma rg_rank_to_id_eq nc lim : rg_rank_to_id nc lim = map rg_mask_of (rg_all_combs nc (Nat.min nc lim)).
Proof. reflexivity. Qed.

Lemma rg_in_all_combs nc L c : In c (rg_all_combs nc L) <-> rg_subseq c (seq 0 nc) /\ length c <= L.
Proof.
  unfold rg_all_combs. rewrite in_concat. split.
  - intros [blk [Hb Hc]]. apply in_map_iff in Hb. destruct Hb as [k [<- Hk]].
    apply in_seq in Hk. apply rg_in_combs in Hc. destruct Hc as [Hs Hl]. split; [exact Hs| lia].
  - intros [Hs Hl]. exists (rg_combs (seq 0 nc) (length c)). split.
    + apply in_map_iff. exists (length c). split; [reflexivity| apply in_seq; lia].
    + apply rg_in_combs. split; [exact Hs| reflexivity].
Qed.

Lemma rg_NoDup_all_combs nc L : NoDup (rg_all_combs nc L).
Proof.
  unfold rg_all_combs. apply NoDup_concat_disjoint.
  - intros l Hl. apply in_map_iff in Hl. destruct Hl as [k [<- _]]. apply rg_NoDup_combs. apply seq_NoDup.
  - intros i j d Hij x Hx Hx'. rewrite map_length, seq_length in Hij.
    set (f := fun k => rg_combs (seq 0 nc) k) in *.
    rewrite (nth_indep _ d (f 0)) in Hx by (rewrite map_length, seq_length; lia).
    rewrite (nth_indep _ d (f 0)) in Hx' by (rewrite map_length, seq_length; lia).
    rewrite map_nth in Hx, Hx'. rewrite seq_nth in Hx, Hx' by lia. unfold f in Hx, Hx'.
    apply rg_in_combs in Hx. apply rg_in_combs in Hx'. lia.
Qed.

Lemma rg_mask_of_inj_subseq n c1 c2 :
  rg_subseq c1 (seq 0 n) -> rg_subseq c2 (seq 0 n) -> rg_mask_of c1 = rg_mask_of c2 -> c1 = c2.
Proof.
  intros H1 H2 E. rewrite <- (rg_players_mask_of n c1 H1), <- (rg_players_mask_of n c2 H2), E. reflexivity.
Qed.

Lemma rg_subseq_seq_lt n c i : rg_subseq c (seq 0 n) -> In i c -> i < n.
Proof. intros H Hi. apply (rg_subseq_In _ _ i H) in Hi. apply in_seq in Hi. lia. Qed.

Lemma rg_lt_pow2_bounded n m : (m < 2 ^ N.of_nat n)%N <-> bounded n m.
Proof. symmetry. apply bounded_lt. Qed.

Definition rg_size_sorted (l : list N) : Prop :=
  StronglySorted (fun a b => rg_popcount a <= rg_popcount b) l.

Lemma rg_StronglySorted_app {A} (R : A -> A -> Prop) l1 l2 :
  StronglySorted R l1 -> StronglySorted R l2 -> (forall x y, In x l1 -> In y l2 -> R x y) ->
  StronglySorted R (l1 ++ l2).
Proof.
  induction l1 as [|x l1 IH]; intros H1 H2 H12; simpl; [exact H2|].
  inversion H1 as [|? ? Hs Hall]; subst. constructor.
  - apply IH; auto. intros a b Ha Hb. apply H12; [right; exact Ha| exact Hb].
  - apply Forall_app. split; [exact Hall|]. apply Forall_forall. intros y Hy. apply H12; [left; reflexivity| exact Hy].
Qed.

Lemma rg_sorted_blocks {A} (f : A -> nat) (g : nat -> list A) :
  (forall k x, In x (g k) -> f x = k) ->
  forall len a, StronglySorted (fun x y => f x <= f y) (concat (map g (seq a len))).
Proof.
  intros Hg. induction len as [|len IH]; intros a; simpl; [constructor|].
  apply rg_StronglySorted_app.
  - assert (G : forall l, (forall x, In x l -> f x = a) -> StronglySorted (fun x y => f x <= f y) l).
    { induction l as [|x l IHl]; intros H; constructor.
      - apply IHl. intros y Hy. apply H. right; exact Hy.
      - apply Forall_forall. intros y Hy. rewrite (H x), (H y); [lia| right; exact Hy| left; reflexivity]. }
    apply G. intros x Hx. apply Hg. exact Hx.
  - apply IH.
  - intros x y Hx Hy. apply Hg in Hx. apply in_concat in Hy. destruct Hy as [blk [Hb Hy]].
    apply in_map_iff in Hb. destruct Hb as [k [<- Hk]]. apply in_seq in Hk. apply Hg in Hy. lia.
Qed.

Lemma rg_StronglySorted_map {A B} (R : B -> B -> Prop) (f : A -> B) l :
  StronglySorted (fun x y => R (f x) (f y)) l -> StronglySorted R (map f l).
Proof.
  induction 1 as [|x l Hs IH Hall]; simpl; constructor; auto.
  apply Forall_forall. intros y Hy. apply in_map_iff in Hy. destruct Hy as [z [<- Hz]].
  rewrite Forall_forall in Hall. apply Hall. exact Hz.
Qed.

Lemma rg_StronglySorted_ext_in {A} (R R' : A -> A -> Prop) l :
  (forall x y, In x l -> In y l -> R x y -> R' x y) -> StronglySorted R l -> StronglySorted R' l.
Proof.
  intros H Hs. induction Hs as [|x l Hs IH Hall]; constructor.
  - apply IH. intros a b Ha Hb. apply H; right; assumption.
  - rewrite Forall_forall in *. intros y Hy. apply H; [left; reflexivity| right; exact Hy| apply Hall; exact Hy].
Qed.

Lemma rg_popcount_mask_of n c : rg_subseq c (seq 0 n) -> rg_popcount (rg_mask_of c) = length c.
Proof.
  intros H. rewrite <- (rg_size_popcount n).
  - apply rg_size_mask_of. exact H.
  - apply rg_bounded_mask_of. intros i Hi. eapply rg_subseq_seq_lt; eauto.
Qed.

(* ranking_bijection: no repetition, ordered by set size, and exactly the sets of at most lim viable coalitions *)
Theorem rg_ranking_bijection nc lim :
  1 <= lim ->
  NoDup (rg_rank_to_id nc lim) /\ rg_size_sorted (rg_rank_to_id nc lim) /\
  (forall m, In m (rg_rank_to_id nc lim) <-> (m < 2 ^ N.of_nat nc)%N /\ rg_popcount m <= lim).
Proof.
  intros _. rewrite rg_rank_to_id_eq. set (L := Nat.min nc lim). split; [|split].
  - apply rg_NoDup_map_in; [|apply rg_NoDup_all_combs].
    intros c1 c2 H1 H2. apply rg_in_all_combs in H1. apply rg_in_all_combs in H2.
    apply (rg_mask_of_inj_subseq nc); tauto.
  - unfold rg_size_sorted. apply rg_StronglySorted_map. unfold rg_all_combs.
    eapply rg_StronglySorted_ext_in; [|apply (rg_sorted_blocks (@length nat) (fun k => rg_combs (seq 0 nc) k))].
    + intros x y Hx Hy Hle. fold (rg_all_combs nc L) in Hx, Hy.
      apply rg_in_all_combs in Hx. apply rg_in_all_combs in Hy.
      rewrite (rg_popcount_mask_of nc x), (rg_popcount_mask_of nc y) by tauto. exact Hle.
    + intros k x Hx. apply rg_in_combs in Hx. tauto.
  - intros m. rewrite in_map_iff. split.
    + intros [c [<- Hc]]. apply rg_in_all_combs in Hc. destruct Hc as [Hs Hl]. split.
      * apply rg_lt_pow2_bounded. apply rg_bounded_mask_of. intros i Hi. eapply rg_subseq_seq_lt; eauto.
      * rewrite (rg_popcount_mask_of nc c Hs). unfold L in Hl. lia.
    + intros [Hlt Hp]. apply rg_lt_pow2_bounded in Hlt. exists (players nc m). split.
      * apply rg_mask_of_players. exact Hlt.
      * apply rg_in_all_combs. split; [apply rg_subseq_filter|].
        fold (size nc m). rewrite (rg_size_popcount nc m Hlt). pose proof (size_le_n nc m) as Hn.
        rewrite (rg_size_popcount nc m Hlt) in Hn. unfold L. lia.
Qed.

(* ================================================================= D. the id -> rank table *)
Lemma rg_find_notin id l : forall r acc, ~ In id l -> rg_find id l r acc = acc.
Proof.
  induction l as [|x l IH]; intros r acc H; simpl; [reflexivity|].
  rewrite IH by (intro; apply H; right; assumption).
  destruct (N.eqb_spec x id) as [->|]; [exfalso; apply H; left; reflexivity| reflexivity].
Qed.

Lemma rg_find_app id l1 l2 : forall r acc,
  rg_find id (l1 ++ l2) r acc = rg_find id l2 (r + length l1) (rg_find id l1 r acc).
Proof.
  induction l1 as [|x l1 IH]; intros r acc; simpl.
  - rewrite Nat.add_0_r. reflexivity.
  - rewrite IH. f_equal. lia.
Qed.

Lemma rg_find_nth l : NoDup l -> forall r, r < length l -> rg_find (nth r l 0%N) l 0 0 = r.
Proof.
  intros Hnd r Hr.
  destruct (nth_split l 0%N Hr) as [l1 [l2 [E Hl1]]].
  set (id := nth r l 0%N) in *. rewrite E in Hnd. rewrite E at 1.
  rewrite rg_find_app. simpl. rewrite N.eqb_refl.
  apply NoDup_remove_2 in Hnd. rewrite rg_find_notin.
  - lia.
  - intro H. apply Hnd. apply in_or_app. right. exact H.
Qed.

Lemma rg_max_ge l x : In x l -> (x <= fold_right N.max 0 l)%N.
Proof.
  induction l as [|y l IH]; intros H; [destruct H|]. simpl. destruct H as [->|H]; [lia|].
  specialize (IH H). lia.
Qed.

Lemma rg_mk_table_ById ids : rg_mk_table ById ids = Some (rg_mktable (rg_table_len ById ids) ids).
Proof.
  unfold rg_mk_table.
  assert (E : forallb (fun i => (i <? rg_table_len ById ids)%N) ids = true).
  { apply forallb_forall. intros x Hx. apply N.ltb_lt. simpl. pose proof (rg_max_ge ids x Hx). lia. }
  rewrite E. reflexivity.
Qed.

Theorem rg_id_to_rank_inverse_ById nc lim r :
  r < length (rg_rank_to_id nc lim) ->
  rg_id_to_rank ById nc lim (nth r (rg_rank_to_id nc lim) 0%N) = Some r.
Proof.
  intros Hr. unfold rg_id_to_rank. rewrite rg_mk_table_ById. unfold rg_lookup. simpl rg_tlen. simpl rg_tids.
  assert (Hin : In (nth r (rg_rank_to_id nc lim) 0%N) (rg_rank_to_id nc lim)) by (apply nth_In; exact Hr).
  assert (E : (nth r (rg_rank_to_id nc lim) 0 <? N.succ (fold_right N.max 0 (rg_rank_to_id nc lim)))%N = true).
  { apply N.ltb_lt. pose proof (rg_max_ge _ _ Hin). lia. }
  rewrite E. f_equal. apply rg_find_nth; [|exact Hr].
  destruct lim as [|lim'].
  - (* lim = 0 : only the empty set *)
    rewrite rg_rank_to_id_eq. apply rg_NoDup_map_in; [|apply rg_NoDup_all_combs].
    intros c1 c2 H1 H2. apply rg_in_all_combs in H1. apply rg_in_all_combs in H2.
    apply (rg_mask_of_inj_subseq nc); tauto.
  - apply rg_ranking_bijection. lia.
Qed.

Theorem rg_constructor_ById_total clamp np nc lim plus :
  exists s, rg_mk (rg_mkvariant ById clamp) np nc lim plus = RgOk s /\
            rg_nc s = nc /\ rg_r2i s = rg_rank_to_id nc lim /\
            length (rg_regret s) = rg_nrm s /\ length (rg_strat s) = rg_nrm s.
Proof.
  unfold rg_mk. simpl rg_pol. simpl rg_clamp. rewrite rg_mk_table_ById.
  eexists. split; [reflexivity|]. simpl. split; [reflexivity|]. split.
  - destruct clamp; [|reflexivity]. unfold rg_rank_to_id.
    replace (Nat.min nc (Nat.min lim nc)) with (Nat.min nc lim) by lia. reflexivity.
  - unfold rg_zeros2. rewrite !repeat_length. split; reflexivity.
Qed.

Theorem rg_constructor_ByCount_refuted :
  exists np lim, 1 <= lim /\ rg_ncoal np = 3 /\
    (forall clamp plus, rg_construct (rg_mkvariant ByCount clamp) np lim plus = RgIndexError).
Proof.
  exists 3, 1. split; [lia|]. split; [reflexivity|]. intros [|] [|]; vm_compute; reflexivity.
Qed.

(* ================================================================= E. regret matching at one node *)
Local Open Scope Q_scope.

Lemma rg_pos_nonneg x : 0 <= rg_pos x.
Proof.
  unfold rg_pos. destruct (Qle_bool x 0) eqn:E; [lra|].
  assert (~ x <= 0) by (intro H; apply Qle_bool_iff in H; congruence). lra.
Qed.

Lemma rg_pos_of_nonpos x : x <= 0 -> rg_pos x = 0.
Proof. intros H. unfold rg_pos. apply Qle_bool_iff in H. rewrite H. reflexivity. Qed.

Lemma rg_pos_of_pos x : 0 < x -> rg_pos x = x.
Proof.
  intros H. unfold rg_pos. destruct (Qle_bool x 0) eqn:E; [|reflexivity].
  apply Qle_bool_iff in E. lra.
Qed.

Lemma rg_qsum_ge_elem l y : (forall x, In x l -> 0 <= x) -> In y l -> y <= qsum l.
Proof.
  induction l as [|x l IH]; intros Hnn Hin; [destruct Hin|]. simpl.
  assert (0 <= x) by (apply Hnn; left; reflexivity).
  assert (0 <= qsum l) by (apply qsum_nonneg; intros z Hz; apply Hnn; right; exact Hz).
  destruct Hin as [->|Hin]; [lra|].
  assert (y <= qsum l) by (apply IH; auto; intros z Hz; apply Hnn; right; exact Hz). lra.
Qed.

Lemma rg_qsum_div v s : qsum (map (fun x => Qred (x / s)) v) == qsum v / s.
Proof.
  induction v as [|x v IH]; cbn [map qsum].
  - unfold Qdiv. ring.
  - rewrite Qred_correct, IH. unfold Qdiv. ring.
Qed.

Lemma rg_normalize_inv v sg :
  rg_normalize v = RgOk sg -> ~ qsum v == 0 /\ sg = map (fun x => Qred (x / qsum v)) v.
Proof.
  unfold rg_normalize. destruct (Qeq_bool (qsum v) 0) eqn:E; [discriminate|].
  intros H. inversion H. split; [|reflexivity]. intro H0. apply Qeq_bool_iff in H0. congruence.
Qed.

Lemma rg_normalize_ok v : ~ qsum v == 0 -> rg_normalize v = RgOk (map (fun x => Qred (x / qsum v)) v).
Proof.
  intros H. unfold rg_normalize. destruct (Qeq_bool (qsum v) 0) eqn:E; [|reflexivity].
  apply Qeq_bool_iff in E. contradiction.
Qed.

Lemma rg_normalize_sum v sg : rg_normalize v = RgOk sg -> qsum sg == 1 /\ length sg = length v.
Proof.
  intros H. apply rg_normalize_inv in H. destruct H as [Hs ->]. split.
  - rewrite rg_qsum_div. field. exact Hs.
  - apply map_length.
Qed.

Lemma rg_nth_map_q (f : Q -> Q) v a : (a < length v)%nat -> nth a (map f v) 0 = f (nth a v 0).
Proof.
  intros H. rewrite (nth_indep _ 0 (f 0)) by (rewrite map_length; exact H). apply map_nth.
Qed.

Lemma rg_normalize_dist v :
  (forall x, In x v -> 0 <= x) -> ~ qsum v == 0 ->
  exists sg, rg_normalize v = RgOk sg /\ length sg = length v /\ (forall x, In x sg -> 0 <= x) /\ qsum sg == 1 /\
             (forall a, (a < length v)%nat -> nth a v 0 == 0 -> nth a sg 0 == 0).
Proof.
  intros Hnn Hs. exists (map (fun x => Qred (x / qsum v)) v).
  assert (Hpos : 0 < qsum v).
  { pose proof (qsum_nonneg v Hnn). destruct (Qlt_le_dec 0 (qsum v)) as [|Hle]; [assumption|].
    exfalso. apply Hs. lra. }
  split; [apply rg_normalize_ok; exact Hs|]. split; [apply map_length|]. split; [|split].
  - intros x Hx. apply in_map_iff in Hx. destruct Hx as [y [<- Hy]]. rewrite Qred_correct.
    apply Qle_shift_div_l; [exact Hpos|]. specialize (Hnn y Hy). lra.
  - rewrite rg_qsum_div. field. exact Hs.
  - intros a Ha E. rewrite rg_nth_map_q by exact Ha. rewrite Qred_correct, E. unfold Qdiv. ring.
Qed.

Lemma rg_nth_uniform nc m a : (a < nc)%nat -> nth a (rg_uniform_unused nc m) 0 = if tb m a then 0 else 1.
Proof.
  intros H. unfold rg_uniform_unused.
  set (f := fun a : nat => if tb m a then 0 else 1).
  rewrite (nth_indep _ 0 (f O)) by (rewrite map_length, seq_length; exact H).
  rewrite map_nth, seq_nth by exact H. reflexivity.
Qed.

(* strategy_distribution: at a node with an unused coalition whose used coalitions have non-positive cumulative regret,
   regret matching yields a probability distribution that never plays a used coalition *)
Theorem rg_strategy_distribution nc m row :
  length row = nc ->
  (exists a, (a < nc)%nat /\ tb m a = false) ->
  (forall a, (a < nc)%nat -> tb m a = true -> nth a row 0 <= 0) ->
  exists sg, rg_match nc m row = RgOk sg /\ length sg = nc /\
    (forall x, In x sg -> 0 <= x) /\ qsum sg == 1 /\
    (forall a, (a < nc)%nat -> tb m a = true -> nth a sg 0 == 0).
Proof.
  intros Hlen [a0 [Ha0 Hfree]] Hused. unfold rg_match.
  destruct (Qeq_bool (qsum (map rg_pos row)) 0) eqn:E.
  - (* all regrets non-positive: uniform over the unused coalitions *)
    set (u := rg_uniform_unused nc m).
    assert (Hlu : length u = nc) by (unfold u, rg_uniform_unused; rewrite map_length, seq_length; reflexivity).
    assert (Hnn : forall x, In x u -> 0 <= x).
    { intros x Hx. unfold u, rg_uniform_unused in Hx. apply in_map_iff in Hx. destruct Hx as [a [<- _]].
      destruct (tb m a); lra. }
    assert (Hs : ~ qsum u == 0).
    { assert (H1 : 1 <= qsum u).
      { apply rg_qsum_ge_elem; [exact Hnn|]. unfold u, rg_uniform_unused. apply in_map_iff. exists a0.
        rewrite Hfree. split; [reflexivity| apply in_seq; lia]. }
      intro H0. lra. }
    destruct (rg_normalize_dist u Hnn Hs) as [sg [E1 [E2 [E3 [E4 E5]]]]].
    exists sg. split; [exact E1|]. split; [lia|]. split; [exact E3|]. split; [exact E4|].
    intros a Ha Hu. apply E5; [lia|]. unfold u. rewrite rg_nth_uniform by exact Ha. rewrite Hu. reflexivity.
  - set (p := map rg_pos row).
    assert (Hnn : forall x, In x p -> 0 <= x).
    { intros x Hx. apply in_map_iff in Hx. destruct Hx as [y [<- _]]. apply rg_pos_nonneg. }
    assert (Hs : ~ qsum p == 0) by (intro H0; apply Qeq_bool_iff in H0; unfold p in H0; congruence).
    destruct (rg_normalize_dist p Hnn Hs) as [sg [E1 [E2 [E3 [E4 E5]]]]].
    assert (Hlp : length p = nc) by (unfold p; rewrite map_length; exact Hlen).
    exists sg. split; [exact E1|]. split; [lia|]. split; [exact E3|]. split; [exact E4|].
    intros a Ha Hu. apply E5; [lia|]. unfold p. rewrite rg_nth_map_q by lia.
    rewrite rg_pos_of_nonpos; [reflexivity| apply Hused; assumption].
Qed.

Lemma rg_match_sum nc m row sg :
  rg_match nc m row = RgOk sg -> length row = nc -> qsum sg == 1 /\ length sg = nc.
Proof.
  unfold rg_match. intros H Hl. destruct (Qeq_bool (qsum (map rg_pos row)) 0).
  - apply rg_normalize_sum in H. destruct H as [H1 H2]. split; [exact H1|].
    rewrite H2. unfold rg_uniform_unused. rewrite map_length, seq_length. reflexivity.
  - apply rg_normalize_sum in H. destruct H as [H1 H2]. split; [exact H1|]. rewrite H2, map_length. exact Hl.
Qed.

Lemma rg_dot_comm a : forall b, rg_dot a b == rg_dot b a.
Proof.
  induction a as [|x a IH]; intros [|y b]; simpl; try reflexivity. rewrite IH. ring.
Qed.

Lemma rg_dot_regret_delta sg : forall row qrow ev,
  length row = length sg -> length qrow = length sg ->
  rg_dot sg (rg_map2 Qminus (rg_regret_row false row qrow ev) row) == rg_dot sg qrow - ev * qsum sg.
Proof.
  intros row qrow ev.
  change (rg_regret_row false row qrow ev) with (rg_map2 (fun c q => Qred (c + (q - ev))) row qrow).
  revert row qrow.
  induction sg as [|s sg IH]; intros [|c row] [|q qrow] H1 H2; cbn [length] in H1, H2; try discriminate;
    cbn [rg_dot rg_map2 qsum]; try ring.
  rewrite Qred_correct. rewrite (IH row qrow) by lia. ring.
Qed.

(* regret_orthogonal: the regret added at a node (before any plus-clipping) is orthogonal to the strategy played there *)
Theorem rg_regret_orthogonal nc m row qrow sg :
  rg_match nc m row = RgOk sg -> length row = nc -> length qrow = nc ->
  rg_dot sg (rg_map2 Qminus (rg_regret_row false row qrow (Qred (rg_dot qrow sg))) row) == 0.
Proof.
  intros Hm Hr Hq. destruct (rg_match_sum nc m row sg Hm Hr) as [Hs Hl].
  rewrite rg_dot_regret_delta by lia. rewrite Qred_correct, Hs, (rg_dot_comm qrow sg). ring.
Qed.

(* ================================================================= refutation for the unclamped limit *)
Definition rg_unclamped : rg_variant := rg_mkvariant ByCount false.

Theorem rg_rm_unclamped_refuted :
  exists np lim s0, (1 <= lim)%nat /\ rg_construct rg_unclamped np lim false = RgOk s0 /\
    rg_strategy s0 (N.ones (N.of_nat (rg_nc s0))) = RgNaN /\               (* the full coalition set is a decision node with 0/0 *)
    rg_iteration s0 [] [] = RgNaN /\                                        (* and one iteration poisons the state *)
    rg_bind (rg_iteration s0 [] []) (fun s1 => rg_strategy s1 0%N) = RgNaN.
Proof.
  exists 3%nat, 4%nat.
  destruct (rg_construct rg_unclamped 3 4 false) as [s0| | |] eqn:E; try (vm_compute in E; discriminate).
  exists s0. split; [lia|]. split; [reflexivity|].
  assert (Es : RgOk s0 = rg_construct rg_unclamped 3 4 false) by (symmetry; exact E).
  vm_compute in Es. inversion Es. subst s0. vm_compute. repeat split; reflexivity.
Qed.

(* ================================================================= F. save / load *)
Definition rg_wf (v : rg_variant) (s : rg_rm) : Prop :=
  exists s0, rg_construct v (rg_np s) (rg_lim s) (rg_plus s) = RgOk s0 /\
             s = rg_with_arrays s0 (rg_iter s) (rg_regret s) (rg_strat s).

Theorem rg_save_load_id v s : rg_wf v s -> rg_load v (rg_save s) = RgOk s.
Proof.
  intros [s0 [E1 E2]]. unfold rg_load, rg_save. cbn [rg_sv_np rg_sv_lim rg_sv_plus rg_sv_iter rg_sv_regret rg_sv_strat].
  rewrite E1. cbn [rg_bind]. rewrite <- E2. reflexivity.
Qed.

Corollary rg_save_load_continue v s hist :
  rg_wf v s -> rg_bind (rg_load v (rg_save s)) (fun s' => rg_run s' hist) = rg_run s hist.
Proof. intros H. rewrite (rg_save_load_id v s H). reflexivity. Qed.

Lemma rg_construct_wf v np lim plus s : rg_construct v np lim plus = RgOk s -> rg_wf v s.
Proof.
  unfold rg_construct, rg_mk. set (nc := rg_ncoal np).
  set (L := if rg_clamp v then Nat.min lim nc else lim).
  destruct (rg_mk_table (rg_pol v) (rg_rank_to_id nc L)) as [t|] eqn:Et; [|discriminate].
  intros H. inversion H as [Hs]. clear H. exists s. rewrite <- Hs at 1. cbn [rg_np rg_lim rg_plus].
  unfold rg_construct, rg_mk. fold nc.
  assert (EL : (if rg_clamp v then Nat.min L nc else L) = L).
  { unfold L. destruct (rg_clamp v); [lia| reflexivity]. }
  rewrite EL, Et. split; [rewrite Hs; reflexivity|]. rewrite <- Hs. reflexivity.
Qed.

Lemma rg_iteration_shape s t u s' :
  rg_iteration s t u = RgOk s' -> exists reg st, s' = rg_with_arrays s (S (rg_iter s)) reg st.
Proof.
  unfold rg_iteration. destruct (rg_mapM _ u) as [ur| | |]; cbn [rg_bind]; try discriminate.
  destruct (negb _); [discriminate|].
  destruct (rg_down s) as [reach| | |]; cbn [rg_bind]; try discriminate.
  destruct (rg_up s reach _ _) as [[[exl qs] st]| | |]; cbn [rg_bind]; try discriminate.
  intros H. inversion H. eauto.
Qed.

Lemma rg_iteration_wf v s t u s' : rg_wf v s -> rg_iteration s t u = RgOk s' -> rg_wf v s'.
Proof.
  intros [s0 [E1 E2]] H. apply rg_iteration_shape in H. destruct H as [reg [st ->]].
  exists s0. cbn [rg_with_arrays rg_np rg_lim rg_plus rg_iter rg_regret rg_strat]. split; [exact E1|].
  rewrite E2. reflexivity.
Qed.

Lemma rg_run_wf v hist : forall s s', rg_wf v s -> rg_run s hist = RgOk s' -> rg_wf v s'.
Proof.
  induction hist as [|[t u] hist IH]; intros s s' Hw H; simpl in H.
  - inversion H. subst. exact Hw.
  - destruct (rg_iteration s t u) as [s1| | |] eqn:E; cbn [rg_bind] in H; try discriminate.
    eapply IH; [|exact H]. eapply rg_iteration_wf; eauto.
Qed.

Theorem rg_save_load_both v s : rg_wf v s ->
  rg_load v (rg_save s) = RgOk s /\
  forall hist, rg_bind (rg_load v (rg_save s)) (fun s' => rg_run s' hist) = rg_run s hist.
Proof. intros H. split; [apply rg_save_load_id; exact H| intros; apply rg_save_load_continue; exact H]. Qed.

Theorem rg_reachable_wf v np lim plus s0 hist s :
  rg_construct v np lim plus = RgOk s0 -> rg_run s0 hist = RgOk s -> rg_wf v s.
Proof. intros H1 H2. eapply rg_run_wf; [eapply rg_construct_wf; exact H1| exact H2]. Qed.

(* ================================================================= G. invariant over iteration histories *)
Definition rg_nonneg (l : list Q) : Prop := Forall (fun x => 0 <= x) l.
Definition rg_node (s : rg_rm) (i : nat) : N := nth i (rg_r2i s) 0%N.

(* what the iteration needs from the constructor: decision nodes are looked up correctly and have a coalition left *)
Record rg_static (s : rg_rm) : Prop := rg_mkstatic {
  rg_st_lookup : forall i, (i < rg_nrm s)%nat -> rg_lookup (rg_tab s) (rg_node s i) = Some i;
  rg_st_unused : forall i, (i < rg_nrm s)%nat -> exists a, (a < rg_nc s)%nat /\ tb (rg_node s i) a = false;
  rg_st_nrm_le : (rg_nrm s <= length (rg_r2i s))%nat }.

Definition rg_used0 (s : rg_rm) (i : nat) (row : list Q) : Prop :=
  forall a, (a < rg_nc s)%nat -> tb (rg_node s i) a = true -> nth a row 0 == 0.

Record rg_inv (s : rg_rm) : Prop := rg_mkinv {
  rg_inv_static : rg_static s;
  rg_inv_reg_len : length (rg_regret s) = rg_nrm s;
  rg_inv_strat_len : length (rg_strat s) = rg_nrm s;
  rg_inv_reg : forall i, (i < rg_nrm s)%nat ->
     length (nth i (rg_regret s) []) = rg_nc s /\
     (forall a, (a < rg_nc s)%nat -> tb (rg_node s i) a = true -> nth a (nth i (rg_regret s) []) 0 <= 0) /\
     (rg_plus s = true -> rg_nonneg (nth i (rg_regret s) []));
  rg_inv_strat : forall i, (i < rg_nrm s)%nat ->
     length (nth i (rg_strat s) []) = rg_nc s /\ rg_nonneg (nth i (rg_strat s) []) /\ rg_used0 s i (nth i (rg_strat s) []) }.

Lemma rg_ok_inj {A} (a b : A) : RgOk a = RgOk b -> a = b.
Proof. intros H. congruence. Qed.

(* ---- list helpers *)
Lemma rg_nth_nonneg l : rg_nonneg l -> forall i, 0 <= nth i l 0.
Proof.
  induction 1 as [|x l Hx Hl IH]; intros [|i]; simpl; try lra; auto.
Qed.

Lemma rg_upd_length {A} (x : A) l : forall i, length (rg_upd i x l) = length l.
Proof. induction l as [|y l IH]; intros [|i]; simpl; auto. Qed.

Lemma rg_upd_nth_same {A} (x : A) d l : forall i, (i < length l)%nat -> nth i (rg_upd i x l) d = x.
Proof. induction l as [|y l IH]; intros [|i] H; simpl in *; try lia; auto. apply IH. lia. Qed.

Lemma rg_upd_nth_other {A} (x : A) d l : forall i j, i <> j -> nth j (rg_upd i x l) d = nth j l d.
Proof. induction l as [|y l IH]; intros [|i] [|j] H; simpl; try congruence; auto. Qed.

Lemma rg_upd_Forall {A} (P : A -> Prop) x l : P x -> Forall P l -> forall i, Forall P (rg_upd i x l).
Proof.
  intros Hx Hl. induction Hl as [|y l Hy Hl IH]; intros [|i]; simpl; constructor; auto.
Qed.

Lemma rg_write_all_length {A} (ws : list (nat * A)) : forall l, length (rg_write_all ws l) = length l.
Proof.
  unfold rg_write_all. induction ws as [|w ws IH]; intros l; simpl; [reflexivity|].
  rewrite IH. apply rg_upd_length.
Qed.

Lemma rg_write_all_Forall {A} (P : A -> Prop) (ws : list (nat * A)) :
  Forall P (map snd ws) -> forall l, Forall P l -> Forall P (rg_write_all ws l).
Proof.
  unfold rg_write_all. induction ws as [|w ws IH]; intros Hw l Hl; simpl; [exact Hl|].
  inversion Hw; subst. apply IH; [assumption|]. apply rg_upd_Forall; assumption.
Qed.

Lemma rg_write_all_nth_other {A} (ws : list (nat * A)) d a :
  ~ In a (map fst ws) -> forall l, nth a (rg_write_all ws l) d = nth a l d.
Proof.
  unfold rg_write_all. induction ws as [|w ws IH]; intros Hn l; simpl; [reflexivity|].
  rewrite IH by (intro; apply Hn; right; assumption).
  apply rg_upd_nth_other. intro E. apply Hn. left. exact E.
Qed.

Lemma rg_Forall_snd_combine {A B} (P : B -> Prop) (a : list A) : forall b, Forall P b -> Forall P (map snd (combine a b)).
Proof.
  induction a as [|x a IH]; intros b Hb; simpl; [constructor|].
  destruct b as [|y b]; simpl; [constructor|]. inversion Hb; subst. constructor; auto.
Qed.

Lemma rg_In_fst_combine {A B} (a : list A) x : forall b : list B, In x (map fst (combine a b)) -> In x a.
Proof.
  induction a as [|y a IH]; intros b H; simpl in *; [exact H|].
  destruct b as [|z b]; simpl in *; [destruct H|]. destruct H as [H|H]; [left; exact H| right; eapply IH; exact H].
Qed.

Lemma rg_map2_Forall {A B C} (P : C -> Prop) (f : A -> B -> C) a : forall b,
  (forall x y, In x a -> In y b -> P (f x y)) -> Forall P (rg_map2 f a b).
Proof.
  induction a as [|x a IH]; intros [|y b] H; simpl; constructor.
  - apply H; left; reflexivity.
  - apply IH. intros u v Hu Hv. apply H; right; assumption.
Qed.

Lemma rg_map2_length {A B C} (f : A -> B -> C) a : forall b, length (rg_map2 f a b) = Nat.min (length a) (length b).
Proof. induction a as [|x a IH]; intros [|y b]; simpl; auto. Qed.

Lemma rg_map2_nth {A B C} (f : A -> B -> C) da db dc a : forall b i,
  (i < length a)%nat -> (i < length b)%nat -> nth i (rg_map2 f a b) dc = f (nth i a da) (nth i b db).
Proof.
  induction a as [|x a IH]; intros [|y b] [|i] Ha Hb; simpl in *; try lia; auto. apply IH; lia.
Qed.

Lemma rg_dot_nonneg a : forall b, rg_nonneg a -> rg_nonneg b -> 0 <= rg_dot a b.
Proof.
  induction a as [|x a IH]; intros [|y b] Ha Hb; simpl; try lra.
  inversion Ha; inversion Hb; subst.
  assert (0 <= x * y) by (apply Qmult_le_0_compat; assumption).
  assert (0 <= rg_dot a b) by (apply IH; assumption). lra.
Qed.

Lemma rg_zeros_nonneg k : rg_nonneg (rg_zeros k).
Proof. unfold rg_zeros. induction k; simpl; constructor; auto. lra. Qed.

Lemma rg_nth_zeros k a : nth a (rg_zeros k) 0 = 0.
Proof. unfold rg_zeros. revert a. induction k; intros [|a]; simpl; auto. Qed.

Lemma rg_nth_zeros2 r c j : (j < r)%nat -> nth j (rg_zeros2 r c) [] = rg_zeros c.
Proof. unfold rg_zeros2. revert j. induction r; intros [|j] H; simpl; try lia; auto. apply IHr. lia. Qed.

(* ---- folds in the error monad *)
Lemma rg_fold_err {S} (f : S -> nat -> rg_out S) l : forall e, (forall a, e <> RgOk a) ->
  fold_left (fun acc i => rg_bind acc (fun st => f st i)) l e = e.
Proof.
  induction l as [|x l IH]; intros e He; simpl; [reflexivity|].
  destruct e; try (apply IH; intros a; discriminate). exfalso. eapply He. reflexivity.
Qed.

Lemma rg_fold_inv {S} (P : S -> Prop) (f : S -> nat -> rg_out S) : forall l init res,
  P init ->
  (forall st i st', In i l -> P st -> f st i = RgOk st' -> P st') ->
  fold_left (fun acc i => rg_bind acc (fun st => f st i)) l (RgOk init) = RgOk res -> P res.
Proof.
  induction l as [|x l IH]; intros init res Hi Hstep H; simpl in H.
  - inversion H; subst; exact Hi.
  - destruct (f init x) as [st'| | |] eqn:E.
    + apply (IH st' res); [eapply Hstep; [left; reflexivity| exact Hi| exact E]| |exact H].
      intros st i st'' Hin. apply Hstep. right. exact Hin.
    + rewrite rg_fold_err in H by (intros a; discriminate). discriminate.
    + rewrite rg_fold_err in H by (intros a; discriminate). discriminate.
    + rewrite rg_fold_err in H by (intros a; discriminate). discriminate.
Qed.

(* ---- strategies of decision nodes under the invariant *)
Lemma rg_inv_strategy s i : rg_inv s -> (i < rg_nrm s)%nat ->
  exists sg, rg_strategy s (rg_node s i) = RgOk sg /\ length sg = rg_nc s /\ rg_nonneg sg /\ qsum sg == 1 /\ rg_used0 s i sg.
Proof.
  intros Hinv Hi. destruct Hinv as [Hst Hrl Hsl Hreg Hstr]. destruct (Hreg i Hi) as [Hlen [Hused _]].
  destruct (rg_strategy_distribution (rg_nc s) (rg_node s i) (nth i (rg_regret s) []) Hlen
              (rg_st_unused s Hst i Hi) Hused) as [sg [E1 [E2 [E3 [E4 E5]]]]].
  exists sg. unfold rg_strategy. rewrite (rg_st_lookup s Hst i Hi). cbn [rg_of_option rg_bind].
  rewrite (nth_error_nth' (rg_regret s) [] (n := i)) by lia. cbn [rg_of_option rg_bind].
  split; [exact E1|]. split; [exact E2|]. split; [apply Forall_forall; exact E3|]. split; [exact E4| exact E5].
Qed.

Lemma rg_nth_error_node s i : rg_static s -> (i < rg_nrm s)%nat -> nth_error (rg_r2i s) i = Some (rg_node s i).
Proof. intros Hst Hi. apply nth_error_nth'. pose proof (rg_st_nrm_le s Hst). lia. Qed.

(* ---- top-down pass: reach probabilities stay non-negative *)
Lemma rg_down_step_nonneg s reach i reach' :
  rg_inv s -> (i < rg_nrm s)%nat -> rg_nonneg reach -> rg_down_step s reach i = RgOk reach' -> rg_nonneg reach'.
Proof.
  intros Hinv Hi Hr. unfold rg_down_step.
  rewrite (rg_nth_error_node s i (rg_inv_static s Hinv) Hi). cbn [rg_of_option rg_bind].
  destruct (rg_child_ranks s (rg_node s i) _) as [ranks| | |]; cbn [rg_bind]; try discriminate.
  destruct (rg_inv_strategy s i Hinv Hi) as [sg [E [_ [Hsg _]]]]. rewrite E. cbn [rg_bind].
  intros H. apply rg_ok_inj in H. subst reach'.
  apply rg_write_all_Forall; [|exact Hr]. apply rg_Forall_snd_combine. apply rg_map2_Forall.
  intros r a _ _. cbv beta. rewrite Qred_correct.
  pose proof (rg_nth_nonneg reach Hr r). pose proof (rg_nth_nonneg reach Hr i). pose proof (rg_nth_nonneg sg Hsg a).
  assert (0 <= nth i reach 0 * nth a sg 0) by (apply Qmult_le_0_compat; assumption). lra.
Qed.

Lemma rg_down_nonneg s reach : rg_inv s -> rg_down s = RgOk reach -> rg_nonneg reach.
Proof.
  intros Hinv. unfold rg_down. apply (rg_fold_inv rg_nonneg).
  - apply rg_upd_Forall; [lra| apply rg_zeros_nonneg].
  - intros st i st' Hin Hst. apply in_seq in Hin. apply rg_down_step_nonneg; [exact Hinv| lia| exact Hst].
Qed.

(* ---- bottom-up pass *)
Definition rg_up_ok (s : rg_rm) (st : rg_up_state) : Prop :=
  let '(exl, qs, strat) := st in
  rg_nonneg exl /\ length exl = length (rg_r2i s) /\
  length qs = rg_nrm s /\
  (forall j, (j < rg_nrm s)%nat -> length (nth j qs []) = rg_nc s /\ rg_used0 s j (nth j qs [])) /\
  length strat = rg_nrm s /\
  (forall j, (j < rg_nrm s)%nat ->
     length (nth j strat []) = rg_nc s /\ rg_nonneg (nth j strat []) /\ rg_used0 s j (nth j strat [])).

Lemma rg_children_unused nc m a : In a (rg_children nc m) -> tb m a = false.
Proof. unfold rg_children. intros H. apply filter_In in H. destruct H as [_ H]. apply negb_true_iff in H. exact H. Qed.

Lemma rg_up_step_ok s reach w st i st' :
  rg_inv s -> (i < rg_nrm s)%nat -> rg_nonneg reach -> 0 <= w -> rg_up_ok s st ->
  rg_up_step s reach w st i = RgOk st' -> rg_up_ok s st'.
Proof.
  intros Hinv Hi Hr Hw. destruct st as [[exl qs] strat]. intros [Hex [Hexl [Hql [Hqr [Hsl Hsr]]]]].
  unfold rg_up_step.
  rewrite (rg_nth_error_node s i (rg_inv_static s Hinv) Hi). cbn [rg_of_option rg_bind].
  destruct (rg_child_ranks s (rg_node s i) _) as [ranks| | |]; cbn [rg_bind]; try discriminate.
  destruct (rg_inv_strategy s i Hinv Hi) as [sg [E [Hlsg [Hsg [_ Husg]]]]]. rewrite E. cbn [rg_bind].
  rewrite (nth_error_nth' strat [] (n := i)) by lia. cbn [rg_of_option rg_bind].
  set (pids := rg_children (rg_nc s) (rg_node s i)).
  set (qrow := rg_write_all (combine pids (map (fun r => nth r exl 0) ranks)) (rg_zeros (rg_nc s))).
  intros H. apply rg_ok_inj in H. subst st'.
  assert (Hqnn : rg_nonneg qrow).
  { apply rg_write_all_Forall; [|apply rg_zeros_nonneg]. apply rg_Forall_snd_combine.
    apply Forall_forall. intros x Hx. apply in_map_iff in Hx. destruct Hx as [r [<- _]]. apply rg_nth_nonneg. exact Hex. }
  assert (Hqlen : length qrow = rg_nc s).
  { unfold qrow. rewrite rg_write_all_length. unfold rg_zeros. apply repeat_length. }
  assert (Hqused : rg_used0 s i qrow).
  { intros a Ha Ht. unfold qrow. rewrite rg_write_all_nth_other; [rewrite rg_nth_zeros; reflexivity|].
    intro Hin. apply rg_In_fst_combine in Hin. apply rg_children_unused in Hin. congruence. }
  destruct (Hsr i Hi) as [Hsrl [Hsrn Hsru]].
  unfold rg_up_ok. split; [|split; [|split; [|split; [|split]]]].
  - apply rg_upd_Forall; [|exact Hex]. cbv beta. rewrite Qred_correct. apply rg_dot_nonneg; assumption.
  - rewrite rg_upd_length. exact Hexl.
  - rewrite rg_upd_length. exact Hql.
  - intros j Hj. destruct (Nat.eq_dec i j) as [<-|Hne].
    + rewrite rg_upd_nth_same by lia. split; assumption.
    + rewrite rg_upd_nth_other by exact Hne. apply Hqr. exact Hj.
  - rewrite rg_upd_length. exact Hsl.
  - intros j Hj. destruct (Nat.eq_dec i j) as [<-|Hne].
    + rewrite rg_upd_nth_same by lia. split; [|split].
      * rewrite rg_map2_length. lia.
      * apply rg_map2_Forall. intros c x Hc Hx. cbv beta. rewrite Qred_correct.
        unfold rg_nonneg in Hsrn, Hsg. rewrite Forall_forall in Hsrn, Hsg.
        pose proof (Hsrn c Hc). pose proof (Hsg x Hx). pose proof (rg_nth_nonneg reach Hr i).
        assert (0 <= w * x) by (apply Qmult_le_0_compat; assumption).
        assert (0 <= w * x * nth i reach 0) by (apply Qmult_le_0_compat; assumption). lra.
      * intros a Ha Ht. rewrite (rg_map2_nth _ 0 0 0) by lia. rewrite Qred_correct.
        rewrite (Hsru a Ha Ht), (Husg a Ha Ht). ring.
    + rewrite rg_upd_nth_other by exact Hne. apply Hsr. exact Hj.
Qed.

Lemma rg_up_ok_result s reach w exl0 st :
  rg_inv s -> rg_nonneg reach -> 0 <= w -> rg_nonneg exl0 -> length exl0 = length (rg_r2i s) ->
  rg_up s reach w exl0 = RgOk st -> rg_up_ok s st.
Proof.
  intros Hinv Hr Hw Hex Hl. unfold rg_up. apply (rg_fold_inv (rg_up_ok s)).
  - unfold rg_up_ok. split; [exact Hex|]. split; [exact Hl|]. split; [unfold rg_zeros2; apply repeat_length|].
    split; [|split; [apply (rg_inv_strat_len s Hinv)| apply (rg_inv_strat s Hinv)]].
    intros j Hj. rewrite rg_nth_zeros2 by exact Hj. split; [unfold rg_zeros; apply repeat_length|].
    intros a _ _. rewrite rg_nth_zeros. reflexivity.
  - intros st0 i st' Hin Hok. apply in_rev in Hin. apply in_seq in Hin.
    apply rg_up_step_ok; [exact Hinv| lia| exact Hr| exact Hw| exact Hok].
Qed.

(* ---- regret update *)
Lemma rg_regret_update_length plus reg : forall qs exl,
  length (rg_regret_update plus reg qs exl) = Nat.min (length reg) (Nat.min (length qs) (length exl)).
Proof.
  induction reg as [|r reg IH]; intros [|q qs] [|e exl]; simpl; auto.
Qed.

Lemma rg_regret_update_nth plus reg : forall qs exl i,
  (i < length reg)%nat -> (i < length qs)%nat -> (i < length exl)%nat ->
  nth i (rg_regret_update plus reg qs exl) [] = rg_regret_row plus (nth i reg []) (nth i qs []) (nth i exl 0).
Proof.
  induction reg as [|r reg IH]; intros [|q qs] [|e exl] [|i] H1 H2 H3; simpl in *; try lia; auto.
  apply IH; lia.
Qed.

Lemma rg_iteration_inv s t u s' :
  rg_iteration s t u = RgOk s' ->
  exists ur reach exl qs strat,
    rg_down s = RgOk reach /\
    rg_up s reach (if rg_plus s then inject_Z (Z.of_nat (S (rg_iter s))) else 1)
          (rg_write_all (combine ur t) (rg_zeros (length (rg_r2i s)))) = RgOk (exl, qs, strat) /\
    s' = rg_with_arrays s (S (rg_iter s)) (rg_regret_update (rg_plus s) (rg_regret s) qs exl) strat.
Proof.
  unfold rg_iteration. destruct (rg_mapM _ u) as [ur| | |]; cbn [rg_bind]; try discriminate.
  destruct (negb _); [discriminate|].
  destruct (rg_down s) as [reach| | |]; cbn [rg_bind]; try discriminate.
  destruct (rg_up s reach _ _) as [[[exl qs] st]| | |] eqn:E; cbn [rg_bind]; try discriminate.
  intros H. inversion H. exists ur, reach, exl, qs, st. split; [reflexivity|]. split; [exact E| reflexivity].
Qed.

(* rm_invariant, one iteration *)
Theorem rg_rm_invariant_step s terminal used s' :
  rg_inv s -> rg_nonneg terminal -> rg_iteration s terminal used = RgOk s' -> rg_inv s'.
Proof.
  intros Hinv Ht H. apply rg_iteration_inv in H.
  destruct H as [ur [reach [exl [qs [strat [Hd [Hu ->]]]]]]].
  pose proof (rg_down_nonneg s reach Hinv Hd) as Hr.
  assert (Hw : 0 <= (if rg_plus s then inject_Z (Z.of_nat (S (rg_iter s))) else 1)).
  { destruct (rg_plus s); [|lra]. unfold Qle, inject_Z. simpl. lia. }
  assert (Hok : rg_up_ok s (exl, qs, strat)).
  { eapply rg_up_ok_result; [exact Hinv| exact Hr| exact Hw| | |exact Hu].
    - apply rg_write_all_Forall; [|apply rg_zeros_nonneg]. apply rg_Forall_snd_combine. exact Ht.
    - rewrite rg_write_all_length. unfold rg_zeros. apply repeat_length. }
  destruct Hok as [Hex [Hexl [Hql [Hqr [Hsl Hsr]]]]].
  pose proof (rg_inv_static s Hinv) as Hst. pose proof (rg_st_nrm_le s Hst) as Hle.
  pose proof (rg_inv_reg_len s Hinv) as Hrl.
  constructor; cbn [rg_with_arrays rg_nrm rg_nc rg_regret rg_strat rg_plus rg_r2i rg_tab].
  - destruct Hst as [A B C]. constructor; assumption.
  - rewrite rg_regret_update_length. lia.
  - exact Hsl.
  - intros i Hi. change (rg_node (rg_with_arrays s (S (rg_iter s)) (rg_regret_update (rg_plus s) (rg_regret s) qs exl) strat) i)
      with (rg_node s i).
    rewrite rg_regret_update_nth by lia.
    destruct (rg_inv_reg s Hinv i Hi) as [Hlen [Hused Hplus]]. destruct (Hqr i Hi) as [Hqlen Hqused].
    unfold rg_regret_row. split; [rewrite rg_map2_length; lia|]. split.
    + intros a Ha Htb. rewrite (rg_map2_nth _ 0 0 0) by lia. cbv zeta.
      pose proof (Hused a Ha Htb) as H1. pose proof (Hqused a Ha Htb) as H2. pose proof (rg_nth_nonneg exl Hex i) as H3.
      assert (Hx : Qred (nth a (nth i (rg_regret s) []) 0 + (nth a (nth i qs []) 0 - nth i exl 0)) <= 0)
        by (rewrite Qred_correct, H2; lra).
      destruct (rg_plus s); [rewrite rg_pos_of_nonpos by exact Hx; lra| exact Hx].
    + intros Hp. rewrite Hp. apply rg_map2_Forall. intros c q _ _. cbv beta zeta. apply rg_pos_nonneg.
  - intros i Hi. apply (Hsr i Hi).
Qed.

Theorem rg_rm_invariant hist : forall s s',
  rg_inv s -> Forall (fun tu => rg_nonneg (fst tu)) hist -> rg_run s hist = RgOk s' -> rg_inv s'.
Proof.
  induction hist as [|[t u] hist IH]; intros s s' Hinv Hh H; simpl in H.
  - inversion H; subst; exact Hinv.
  - inversion Hh as [|? ? Ht Hh']; subst. simpl in Ht.
    destruct (rg_iteration s t u) as [s1| | |] eqn:E; cbn [rg_bind] in H; try discriminate.
    apply (IH s1 s'); [eapply rg_rm_invariant_step; eauto| exact Hh'| exact H].
Qed.

(* ================================================================= H. the constructor establishes the invariant *)
Lemma rg_NoDup_rank_to_id nc lim : NoDup (rg_rank_to_id nc lim).
Proof.
  rewrite rg_rank_to_id_eq. apply rg_NoDup_map_in; [|apply rg_NoDup_all_combs].
  intros c1 c2 H1 H2. apply rg_in_all_combs in H1. apply rg_in_all_combs in H2.
  apply (rg_mask_of_inj_subseq nc); tauto.
Qed.

Lemma rg_lookup_ById ids r : NoDup ids -> (r < length ids)%nat ->
  rg_lookup (rg_mktable (rg_table_len ById ids) ids) (nth r ids 0%N) = Some r.
Proof.
  intros Hnd Hr. unfold rg_lookup. cbn [rg_tlen rg_tids].
  assert (Hin : In (nth r ids 0%N) ids) by (apply nth_In; exact Hr).
  assert (E : (nth r ids 0 <? rg_table_len ById ids)%N = true).
  { apply N.ltb_lt. simpl. pose proof (rg_max_ge _ _ Hin). lia. }
  rewrite E. f_equal. apply rg_find_nth; assumption.
Qed.

Lemma rg_fold_add_acc l : forall acc, fold_right Nat.add acc l = (fold_right Nat.add O l + acc)%nat.
Proof. induction l as [|x l IH]; intros acc; simpl; [reflexivity|]. rewrite IH. lia. Qed.

Lemma rg_count_below_S nc k : rg_count_below nc (S k) = (rg_count_below nc k + rg_binom nc k)%nat.
Proof.
  unfold rg_count_below. rewrite seq_S, map_app, fold_right_app. simpl.
  rewrite rg_fold_add_acc. lia.
Qed.

Lemma rg_all_combs_S nc L : rg_all_combs nc (S L) = rg_all_combs nc L ++ rg_combs (seq 0 nc) (S L).
Proof.
  unfold rg_all_combs. replace (S L + 1)%nat with (S (L + 1)) by lia.
  rewrite seq_S, map_app, concat_app. simpl. rewrite app_nil_r. replace (L + 1)%nat with (S L) by lia. reflexivity.
Qed.

Lemma rg_all_combs_length nc L : length (rg_all_combs nc L) = rg_count_below nc (S L).
Proof.
  induction L as [|L IH].
  - unfold rg_all_combs. cbn [Nat.add seq map concat]. rewrite app_nil_r, rg_combs_0. unfold rg_count_below. cbn [seq map fold_right]. destruct nc; reflexivity.
  - rewrite rg_all_combs_S, app_length, IH, rg_combs_length, seq_length. rewrite (rg_count_below_S nc (S L)). reflexivity.
Qed.

Lemma rg_forallb_false_ex {A} (f : A -> bool) l : forallb f l = false -> exists x, In x l /\ f x = false.
Proof.
  induction l as [|x l IH]; simpl; [discriminate|]. destruct (f x) eqn:E.
  - intros H. destruct (IH H) as [y [Hy Ey]]. exists y. split; [right; exact Hy| exact Ey].
  - intros _. exists x. split; [left; reflexivity| exact E].
Qed.

Lemma rg_filter_all {A} (f : A -> bool) l : forallb f l = true -> filter f l = l.
Proof.
  induction l as [|x l IH]; simpl; [reflexivity|]. destruct (f x); [|discriminate]. intros H. rewrite IH; auto.
Qed.

(* a decision node (rank below number_of_regret_minimizers) has fewer than L <= nc coalitions, so one is left *)
Lemma rg_decision_node nc L i :
  (L <= nc)%nat -> (i < rg_count_below nc L)%nat ->
  (rg_count_below nc L <= length (rg_rank_to_id nc L))%nat /\
  exists a, (a < nc)%nat /\ tb (nth i (rg_rank_to_id nc L) 0%N) a = false.
Proof.
  intros HL Hi. destruct L as [|L]; [unfold rg_count_below in Hi; simpl in Hi; lia|].
  rewrite rg_rank_to_id_eq. replace (Nat.min nc (S L)) with (S L) by lia.
  rewrite rg_all_combs_S, map_app. rewrite <- rg_all_combs_length in *.
  split; [rewrite app_length, !map_length; lia|].
  rewrite app_nth1 by (rewrite map_length; exact Hi).
  rewrite (nth_indep _ 0%N (rg_mask_of [])) by (rewrite map_length; exact Hi). rewrite map_nth.
  set (c := nth i (rg_all_combs nc L) []).
  assert (Hc : In c (rg_all_combs nc L)) by (apply nth_In; exact Hi).
  apply rg_in_all_combs in Hc. destruct Hc as [Hs Hl].
  destruct (forallb (tb (rg_mask_of c)) (seq 0 nc)) eqn:E.
  - exfalso. pose proof (rg_size_mask_of nc c Hs) as Hsz. unfold size, players in Hsz.
    rewrite rg_filter_all in Hsz by exact E. rewrite seq_length in Hsz. lia.
  - apply rg_forallb_false_ex in E. destruct E as [a [Ha Ea]]. exists a. apply in_seq in Ha. split; [lia| exact Ea].
Qed.

Lemma rg_zero_row_facts k : forall a, nth a (rg_zeros k) 0 == 0.
Proof. intros a. rewrite rg_nth_zeros. reflexivity. Qed.

(* the repaired constructor (table by id; limit clamped, or any limit within the number of coalitions) yields a state
   satisfying the invariant, for every number of coalitions and every limit >= 1 *)
Theorem rg_constructor_inv clamp np nc lim plus s :
  (1 <= lim)%nat -> (clamp = true \/ (lim <= nc)%nat) ->
  rg_mk (rg_mkvariant ById clamp) np nc lim plus = RgOk s -> rg_inv s.
Proof.
  intros H1 Hc. unfold rg_mk. cbn [rg_pol rg_clamp]. rewrite rg_mk_table_ById.
  set (L := if clamp then Nat.min lim nc else lim).
  assert (HL : (L <= nc)%nat) by (unfold L; destruct clamp; [lia| destruct Hc; [discriminate| lia]]).
  intros H. apply rg_ok_inj in H. subst s.
  assert (Hst : rg_static (rg_mkrm np nc L plus (rg_rank_to_id nc L) (rg_mktable (rg_table_len ById (rg_rank_to_id nc L)) (rg_rank_to_id nc L))
                                   (rg_count_below nc L) (rg_player_id_map np) (rg_zeros2 (rg_count_below nc L) nc)
                                   (rg_zeros2 (rg_count_below nc L) nc) 0)).
  { constructor; cbn [rg_nrm rg_tab rg_nc rg_r2i]; unfold rg_node; cbn [rg_r2i].
    - intros i Hi. apply rg_lookup_ById; [apply rg_NoDup_rank_to_id|].
      destruct (rg_decision_node nc L i HL Hi) as [Hle _]. lia.
    - intros i Hi. apply (rg_decision_node nc L i HL Hi).
    - destruct (Nat.eq_dec (rg_count_below nc L) 0) as [E|E]; [lia|].
      apply (rg_decision_node nc L 0 HL). lia. }
  constructor; cbn [rg_nrm rg_nc rg_regret rg_strat rg_plus]; try exact Hst.
  - unfold rg_zeros2. apply repeat_length.
  - unfold rg_zeros2. apply repeat_length.
  - intros i Hi. rewrite rg_nth_zeros2 by exact Hi. split; [unfold rg_zeros; apply repeat_length|]. split.
    + intros a _ _. rewrite rg_nth_zeros. lra.
    + intros _. apply rg_zeros_nonneg.
  - intros i Hi. rewrite rg_nth_zeros2 by exact Hi. split; [unfold rg_zeros; apply repeat_length|]. split.
    + apply rg_zeros_nonneg.
    + intros a _ _. rewrite rg_nth_zeros. reflexivity.
Qed.

(* rm_invariant in the form of the property: after any history with non-negative terminal values, at every decision node
   the current strategy is a probability distribution that never plays an already revealed coalition, the regret of
   revealed coalitions is non-positive and the plus variant keeps all regrets non-negative *)
Theorem rg_rm_invariant_full clamp np nc lim plus s0 hist s :
  (1 <= lim)%nat -> (clamp = true \/ (lim <= nc)%nat) ->
  rg_mk (rg_mkvariant ById clamp) np nc lim plus = RgOk s0 ->
  Forall (fun tu => rg_nonneg (fst tu)) hist ->
  rg_run s0 hist = RgOk s ->
  forall i, (i < rg_nrm s)%nat ->
    (exists sg, rg_strategy s (rg_node s i) = RgOk sg /\ length sg = rg_nc s /\ rg_nonneg sg /\ qsum sg == 1 /\ rg_used0 s i sg) /\
    (forall a, (a < rg_nc s)%nat -> tb (rg_node s i) a = true -> nth a (nth i (rg_regret s) []) 0 <= 0) /\
    (rg_plus s = true -> rg_nonneg (nth i (rg_regret s) [])).
Proof.
  intros H1 Hc Hmk Hh Hrun i Hi.
  assert (Hinv : rg_inv s).
  { eapply rg_rm_invariant; [|exact Hh| exact Hrun]. eapply rg_constructor_inv; eauto. }
  split; [apply rg_inv_strategy; assumption|].
  destruct (rg_inv_reg s Hinv i Hi) as [_ [A B]]. split; assumption.
Qed.

(* ================================================================= I. average strategy *)
Lemma rg_not_all_zero_sum row : rg_nonneg row -> forallb (fun x => Qeq_bool x 0) row = false -> ~ qsum row == 0.
Proof.
  intros Hnn Hf H0. unfold rg_nonneg in Hnn. rewrite Forall_forall in Hnn.
  pose proof (qsum_nonneg_zero row Hnn H0) as Hz.
  assert (forallb (fun x => Qeq_bool x 0) row = true).
  { apply forallb_forall. intros x Hx. apply Qeq_bool_iff. apply Hz. exact Hx. }
  congruence.
Qed.

Lemma rg_uniform_facts s i : rg_static s -> (i < rg_nrm s)%nat ->
  let u := rg_uniform_unused (rg_nc s) (rg_node s i) in
  length u = rg_nc s /\ rg_nonneg u /\ ~ qsum u == 0 /\ rg_used0 s i u.
Proof.
  intros Hst Hi u. destruct (rg_st_unused s Hst i Hi) as [a0 [Ha0 Hfree]].
  assert (Hnn : rg_nonneg u).
  { apply Forall_forall. intros x Hx. unfold u, rg_uniform_unused in Hx. apply in_map_iff in Hx.
    destruct Hx as [a [<- _]]. destruct (tb _ a); lra. }
  split; [unfold u, rg_uniform_unused; rewrite map_length, seq_length; reflexivity|]. split; [exact Hnn|]. split.
  - assert (H1 : 1 <= qsum u).
    { apply rg_qsum_ge_elem; [apply Forall_forall; exact Hnn|]. unfold u, rg_uniform_unused. apply in_map_iff.
      exists a0. rewrite Hfree. split; [reflexivity| apply in_seq; lia]. }
    intro H0. lra.
  - intros a Ha Ht. unfold u. rewrite rg_nth_uniform by exact Ha. rewrite Ht. reflexivity.
Qed.

(* the un-normalised average row: non-negative, not summing to zero, zero on revealed coalitions *)
Lemma rg_average_pid_facts s i : rg_inv s -> (i < rg_nrm s)%nat ->
  exists cum, rg_average_pid s (rg_node s i) = RgOk cum /\ length cum = rg_nc s /\ rg_nonneg cum /\ ~ qsum cum == 0 /\ rg_used0 s i cum.
Proof.
  intros Hinv Hi. pose proof (rg_inv_static s Hinv) as Hst. unfold rg_average_pid.
  rewrite (rg_st_lookup s Hst i Hi). cbn [rg_of_option rg_bind].
  rewrite (nth_error_nth' (rg_strat s) [] (n := i)) by (rewrite (rg_inv_strat_len s Hinv); exact Hi). cbn [rg_of_option rg_bind].
  destruct (rg_inv_strat s Hinv i Hi) as [Hl [Hnn Hu]].
  destruct (forallb (fun x => Qeq_bool x 0) (nth i (rg_strat s) [])) eqn:E.
  - destruct (rg_uniform_facts s i Hst Hi) as [A [B [C D]]]. eexists. split; [reflexivity|]. repeat split; assumption.
  - eexists. split; [reflexivity|]. split; [exact Hl|]. split; [exact Hnn|]. split; [|exact Hu].
    apply rg_not_all_zero_sum; assumption.
Qed.

Theorem rg_avg_pid_distribution s i : rg_inv s -> (i < rg_nrm s)%nat ->
  exists av, rg_bind (rg_average_pid s (rg_node s i)) rg_normalize = RgOk av /\
             length av = rg_nc s /\ rg_nonneg av /\ qsum av == 1 /\ rg_used0 s i av.
Proof.
  intros Hinv Hi. destruct (rg_average_pid_facts s i Hinv Hi) as [cum [E [Hl [Hnn [Hs Hu]]]]].
  rewrite E. cbn [rg_bind].
  destruct (rg_normalize_dist cum) as [av [E1 [E2 [E3 [E4 E5]]]]]; [apply Forall_forall; exact Hnn| exact Hs|].
  exists av. split; [exact E1|]. split; [lia|]. split; [apply Forall_forall; exact E3|]. split; [exact E4|].
  intros a Ha Ht. apply E5; [lia| apply Hu; assumption].
Qed.

Lemma rg_pos_elem l : rg_nonneg l -> ~ qsum l == 0 -> exists p, (p < length l)%nat /\ 0 < nth p l 0.
Proof.
  induction 1 as [|x l Hx Hl IH]; intros Hs; simpl in Hs; [exfalso; apply Hs; reflexivity|].
  destruct (Qlt_le_dec 0 x) as [Hp|Hn].
  - exists O. split; [simpl; lia| exact Hp].
  - assert (x == 0) by lra. destruct IH as [p [Hp Hv]].
    + intro H0. apply Hs. rewrite H0. lra.
    + exists (S p). split; [simpl; lia| exact Hv].
Qed.

Definition rg_pmap_onto (s : rg_rm) : Prop := forall p, (p < rg_nc s)%nat -> In (Z.of_nat p) (rg_pmap s).

(* get_average_strategy in the coalition space of the original game *)
Theorem rg_avg_distribution s i past :
  rg_inv s -> (i < rg_nrm s)%nat -> rg_pmap_onto s ->
  rg_meta_id (rg_np s) (rg_pmap s) past = RgOk (rg_node s i) ->
  exists av, rg_average_strategy s past = RgOk av /\ length av = length (rg_pmap s) /\ rg_nonneg av /\ qsum av == 1 /\
    (forall c, ~ nth c av 0 == 0 ->
       exists p, nth c (rg_pmap s) (-1)%Z = Z.of_nat p /\ (p < rg_nc s)%nat /\ tb (rg_node s i) p = false).
Proof.
  intros Hinv Hi Honto Hm. unfold rg_average_strategy. rewrite Hm. cbn [rg_bind].
  destruct (rg_average_pid_facts s i Hinv Hi) as [cum [E [Hl [Hnn [Hs Hu]]]]]. rewrite E. cbn [rg_bind].
  set (g := fun z : Z => if (z <? 0)%Z then 0 else nth (Z.to_nat z) cum 0).
  set (coals := map g (rg_pmap s)).
  assert (Hcn : forall x, In x coals -> 0 <= x).
  { intros x Hx. apply in_map_iff in Hx. destruct Hx as [z [<- _]]. unfold g. destruct (z <? 0)%Z; [lra|].
    apply rg_nth_nonneg. exact Hnn. }
  assert (Hcs : ~ qsum coals == 0).
  { destruct (rg_pos_elem cum Hnn Hs) as [p [Hp Hv]].
    assert (Hin : In (nth p cum 0) coals).
    { apply in_map_iff. exists (Z.of_nat p). split; [|apply Honto; lia]. unfold g.
      destruct (Z.ltb_spec (Z.of_nat p) 0); [lia|]. rewrite Nat2Z.id. reflexivity. }
    pose proof (rg_qsum_ge_elem coals _ Hcn Hin). intro H0. lra. }
  destruct (rg_normalize_dist coals Hcn Hcs) as [av [E1 [E2 [E3 [E4 E5]]]]].
  exists av. split; [exact E1|]. split; [rewrite E2; unfold coals; apply map_length|].
  split; [apply Forall_forall; exact E3|]. split; [exact E4|].
  intros c Hc.
  assert (Hlt : (c < length coals)%nat).
  { destruct (Nat.lt_ge_cases c (length coals)) as [H|H]; [exact H|]. exfalso. apply Hc.
    rewrite nth_overflow by lia. reflexivity. }
  assert (Hcc : ~ nth c coals 0 == 0) by (intro H0; apply Hc; apply E5; assumption).
  assert (Eg : nth c coals 0 = g (nth c (rg_pmap s) (-1)%Z)).
  { unfold coals. change 0 with (g (-1)%Z) at 1. apply map_nth. }
  rewrite Eg in Hcc. unfold g in Hcc. set (z := nth c (rg_pmap s) (-1)%Z) in *.
  destruct (Z.ltb_spec z 0) as [Hz|Hz]; [exfalso; apply Hcc; reflexivity|].
  exists (Z.to_nat z). split; [rewrite Z2Nat.id by exact Hz; reflexivity|].
  assert (Hp : (Z.to_nat z < rg_nc s)%nat).
  { destruct (Nat.lt_ge_cases (Z.to_nat z) (rg_nc s)) as [H|H]; [exact H|]. exfalso. apply Hcc.
    rewrite nth_overflow by lia. reflexivity. }
  split; [exact Hp|]. destruct (tb (rg_node s i) (Z.to_nat z)) eqn:Et; [|reflexivity].
  exfalso. apply Hcc. apply Hu; assumption.
Qed.

Lemma rg_pmap_onto_check np :
  forallb (fun p => existsb (Z.eqb (Z.of_nat p)) (rg_player_id_map np)) (seq 0 (rg_ncoal np)) = true ->
  forall p, (p < rg_ncoal np)%nat -> In (Z.of_nat p) (rg_player_id_map np).
Proof.
  intros H p Hp. rewrite forallb_forall in H. specialize (H p). rewrite in_seq in H.
  assert (E : existsb (Z.eqb (Z.of_nat p)) (rg_player_id_map np) = true) by (apply H; lia).
  apply existsb_exists in E. destruct E as [z [Hz Ez]]. apply Z.eqb_eq in Ez. subst z. exact Hz.
Qed.

Lemma rg_pmap_onto_345 np : In np [3; 4; 5]%nat ->
  forall p, (p < rg_ncoal np)%nat -> In (Z.of_nat p) (rg_player_id_map np).
Proof.
  intros [<-|[<-|[<-|[]]]]; apply rg_pmap_onto_check; vm_compute; reflexivity.
Qed.

Lemma rg_run_fields hist : forall s0 s, rg_run s0 hist = RgOk s ->
  rg_np s = rg_np s0 /\ rg_nc s = rg_nc s0 /\ rg_pmap s = rg_pmap s0.
Proof.
  induction hist as [|[t u] hist IH]; intros s0 s H; simpl in H.
  - apply rg_ok_inj in H. subst. auto.
  - destruct (rg_iteration s0 t u) as [s1| | |] eqn:E; cbn [rg_bind] in H; try discriminate.
    apply rg_iteration_shape in E. destruct E as [reg [st ->]]. apply IH in H. exact H.
Qed.

(* avg_strategy_distribution for the players counts of the property (3..5), any limit >= 1, any history *)
Theorem rg_avg_full clamp np lim plus s0 hist s :
  In np [3; 4; 5]%nat -> (1 <= lim)%nat -> (clamp = true \/ (lim <= rg_ncoal np)%nat) ->
  rg_construct (rg_mkvariant ById clamp) np lim plus = RgOk s0 ->
  Forall (fun tu => rg_nonneg (fst tu)) hist ->
  rg_run s0 hist = RgOk s ->
  forall i past, (i < rg_nrm s)%nat -> rg_meta_id (rg_np s) (rg_pmap s) past = RgOk (rg_node s i) ->
  exists av, rg_average_strategy s past = RgOk av /\ length av = length (rg_pmap s) /\ rg_nonneg av /\ qsum av == 1 /\
    (forall c, ~ nth c av 0 == 0 ->
       exists p, nth c (rg_pmap s) (-1)%Z = Z.of_nat p /\ (p < rg_nc s)%nat /\ tb (rg_node s i) p = false).
Proof.
  intros Hnp H1 Hc Hmk Hh Hrun i past Hi Hm.
  assert (Hinv : rg_inv s).
  { eapply rg_rm_invariant; [|exact Hh| exact Hrun]. unfold rg_construct in Hmk. eapply rg_constructor_inv; eauto. }
  apply rg_avg_distribution; try assumption.
  destruct (rg_run_fields hist s0 s Hrun) as [_ [Enc Epm]].
  unfold rg_pmap_onto. rewrite Enc, Epm.
  unfold rg_construct, rg_mk in Hmk. cbn [rg_pol rg_clamp] in Hmk. rewrite rg_mk_table_ById in Hmk.
  apply rg_ok_inj in Hmk. subst s0. cbn [rg_nc rg_pmap]. apply rg_pmap_onto_345. exact Hnp.
Qed.

(* ================================================================= J. orthogonality at the level of the whole iteration *)
Lemma rg_fold_inv_idx {S} (P : list nat -> S -> Prop) (f : S -> nat -> rg_out S) :
  (forall done i st st', P done st -> ~ In i done -> f st i = RgOk st' -> P (i :: done) st') ->
  forall l done0 init res, NoDup l -> (forall i, In i l -> ~ In i done0) -> P done0 init ->
  fold_left (fun acc i => rg_bind acc (fun st => f st i)) l (RgOk init) = RgOk res -> P (rev l ++ done0) res.
Proof.
  intros Hstep. induction l as [|x l IH]; intros done0 init res Hnd Hdis Hi H; simpl in H.
  - apply rg_ok_inj in H. subst. exact Hi.
  - inversion Hnd as [|? ? Hx Hl]; subst.
    destruct (f init x) as [st'| | |] eqn:E;
      try (rewrite rg_fold_err in H by (intros a; discriminate); discriminate).
    simpl. rewrite <- app_assoc. simpl. apply (IH (x :: done0) st' res); [exact Hl| | |exact H].
    + intros i Hin [->|Hd]; [contradiction| apply (Hdis i); [right; exact Hin| exact Hd]].
    + apply (Hstep done0 x init st'); [exact Hi| apply Hdis; left; reflexivity| exact E].
Qed.

Lemma rg_up_step_shape s reach w exl qs strat i st' :
  rg_inv s -> (i < rg_nrm s)%nat -> rg_up_step s reach w (exl, qs, strat) i = RgOk st' ->
  exists qrow sg srow', rg_strategy s (rg_node s i) = RgOk sg /\
    st' = (rg_upd i (Qred (rg_dot qrow sg)) exl, rg_upd i qrow qs, rg_upd i srow' strat).
Proof.
  intros Hinv Hi. unfold rg_up_step.
  rewrite (rg_nth_error_node s i (rg_inv_static s Hinv) Hi). cbn [rg_of_option rg_bind].
  destruct (rg_child_ranks s (rg_node s i) _) as [ranks| | |]; cbn [rg_bind]; try discriminate.
  destruct (rg_inv_strategy s i Hinv Hi) as [sg [E _]]. rewrite E. cbn [rg_bind].
  destruct (nth_error strat i) as [srow|]; cbn [rg_of_option rg_bind]; try discriminate.
  intros H. apply rg_ok_inj in H. subst st'. eexists. exists sg. eexists. split; [reflexivity| reflexivity].
Qed.

Definition rg_up_recorded (s : rg_rm) (done : list nat) (st : rg_up_state) : Prop :=
  rg_up_ok s st /\
  forall j, In j done -> (j < rg_nrm s)%nat ->
    exists sg, rg_strategy s (rg_node s j) = RgOk sg /\
               nth j (fst (fst st)) 0 = Qred (rg_dot (nth j (snd (fst st)) []) sg).

Lemma rg_up_recorded_result s reach w exl0 st :
  rg_inv s -> rg_nonneg reach -> 0 <= w -> rg_nonneg exl0 -> length exl0 = length (rg_r2i s) ->
  rg_up s reach w exl0 = RgOk st -> rg_up_recorded s (seq 0 (rg_nrm s)) st.
Proof.
  intros Hinv Hr Hw Hex Hl Hup.
  pose proof (rg_st_nrm_le s (rg_inv_static s Hinv)) as Hle.
  assert (G : rg_up_recorded s (rev (rev (seq 0 (rg_nrm s))) ++ []) st).
  { unfold rg_up in Hup. eapply (rg_fold_inv_idx (rg_up_recorded s)); [| | |
      | exact Hup].
    - intros done i st0 st' [Hok Hrec] Hnin Hstep.
      destruct (Nat.lt_ge_cases i (rg_nrm s)) as [Hi|Hi].
      + split; [exact (rg_up_step_ok s reach w st0 i st' Hinv Hi Hr Hw Hok Hstep)|].
        destruct st0 as [[exl qs] strat]. destruct Hok as [_ [Hexl [Hql _]]].
        destruct (rg_up_step_shape s reach w exl qs strat i st' Hinv Hi Hstep) as [qrow [sg [srow' [Esg ->]]]].
        cbn [fst snd]. intros j [<-|Hj] Hjn.
        * exists sg. split; [exact Esg|]. rewrite !rg_upd_nth_same by lia. reflexivity.
        * assert (i <> j) by (intro; subst; contradiction).
          destruct (Hrec j Hj Hjn) as [sg' [E1 E2]]. exists sg'. split; [exact E1|].
          cbn [fst snd] in E2. rewrite !rg_upd_nth_other by assumption. exact E2.
      + (* not reachable: the fold only visits ranks below nrm; kept total by showing the step fails *)
        exfalso. destruct st0 as [[exl qs] strat]. unfold rg_up_step in Hstep.
        destruct (nth_error (rg_r2i s) i) as [m|]; cbn [rg_of_option rg_bind] in Hstep; try discriminate.
        destruct (rg_child_ranks s m _) as [ranks| | |]; cbn [rg_bind] in Hstep; try discriminate.
        destruct (rg_strategy s m) as [sg| | |]; cbn [rg_bind] in Hstep; try discriminate.
        destruct Hok as [_ [_ [_ [_ [Hsl _]]]]].
        assert (En : nth_error strat i = None) by (apply nth_error_None; lia).
        rewrite En in Hstep. discriminate.
    - apply NoDup_rev. apply seq_NoDup.
    - intros i _ [].
    - split; [|intros j []].
      unfold rg_up_ok. split; [exact Hex|]. split; [exact Hl|]. split; [unfold rg_zeros2; apply repeat_length|].
      split; [|split; [apply (rg_inv_strat_len s Hinv)| apply (rg_inv_strat s Hinv)]].
      intros j Hj. rewrite rg_nth_zeros2 by exact Hj. split; [unfold rg_zeros; apply repeat_length|].
      intros a _ _. rewrite rg_nth_zeros. reflexivity. }
  rewrite rev_involutive, app_nil_r in G. exact G.
Qed.

(* the regret added by one whole iteration, before plus-clipping, is orthogonal at every decision node to the strategy
   played there; the new cumulative regret is that sum (plain) or its positive part (plus) *)
Theorem rg_iteration_orthogonal s terminal used s' :
  rg_inv s -> rg_nonneg terminal -> rg_iteration s terminal used = RgOk s' ->
  exists qs exl,
    rg_regret s' = rg_regret_update (rg_plus s) (rg_regret s) qs exl /\
    forall i, (i < rg_nrm s)%nat ->
      exists sg, rg_strategy s (rg_node s i) = RgOk sg /\
        rg_dot sg (rg_map2 Qminus (nth i (rg_regret_update false (rg_regret s) qs exl) []) (nth i (rg_regret s) [])) == 0.
Proof.
  intros Hinv Ht H. apply rg_iteration_inv in H.
  destruct H as [ur [reach [exl [qs [strat [Hd [Hu ->]]]]]]].
  pose proof (rg_down_nonneg s reach Hinv Hd) as Hr.
  assert (Hw : 0 <= (if rg_plus s then inject_Z (Z.of_nat (S (rg_iter s))) else 1)).
  { destruct (rg_plus s); [|lra]. unfold Qle, inject_Z. simpl. lia. }
  assert (Hrec : rg_up_recorded s (seq 0 (rg_nrm s)) (exl, qs, strat)).
  { eapply rg_up_recorded_result; [exact Hinv| exact Hr| exact Hw| | |exact Hu].
    - apply rg_write_all_Forall; [|apply rg_zeros_nonneg]. apply rg_Forall_snd_combine. exact Ht.
    - rewrite rg_write_all_length. unfold rg_zeros. apply repeat_length. }
  destruct Hrec as [[Hex [Hexl [Hql [Hqr _]]]] Hrec]. cbn [fst snd] in Hrec.
  pose proof (rg_st_nrm_le s (rg_inv_static s Hinv)) as Hle. pose proof (rg_inv_reg_len s Hinv) as Hrl.
  exists qs, exl. split; [reflexivity|]. intros i Hi.
  destruct (Hrec i) as [sg [Esg Eev]]; [apply in_seq; lia| exact Hi|].
  exists sg. split; [exact Esg|].
  destruct (rg_inv_strategy s i Hinv Hi) as [sg' [Esg' [Hlsg [_ [Hsum _]]]]].
  assert (sg' = sg) by congruence. subst sg'.
  destruct (rg_inv_reg s Hinv i Hi) as [Hlen _]. destruct (Hqr i Hi) as [Hqlen _].
  rewrite rg_regret_update_nth by lia. rewrite rg_dot_regret_delta by lia.
  rewrite Eev, Qred_correct, Hsum, (rg_dot_comm (nth i qs []) sg). ring.
Qed.

(* ================================================================= K. no NaN under the invariant *)
Lemma rg_of_option_no_nan {A} (o : option A) : rg_of_option o <> RgNaN.
Proof. destruct o; discriminate. Qed.

Lemma rg_mapM_no_nan {A B} (f : A -> rg_out B) l : (forall x, In x l -> f x <> RgNaN) -> rg_mapM f l <> RgNaN.
Proof.
  induction l as [|x l IH]; intros H; simpl; [discriminate|].
  pose proof (H x (or_introl eq_refl)) as Hx.
  destruct (f x) as [y| | |]; cbn [rg_bind]; try discriminate; [|congruence].
  assert (Hl : rg_mapM f l <> RgNaN) by (apply IH; intros z Hz; apply H; right; exact Hz).
  destruct (rg_mapM f l); cbn [rg_bind]; try discriminate. congruence.
Qed.

Lemma rg_meta_id_no_nan np pmap cs : rg_meta_id np pmap cs <> RgNaN.
Proof.
  unfold rg_meta_id.
  assert (G : forall acc : rg_out N, acc <> RgNaN ->
     fold_left (fun acc c => rg_bind acc (fun a =>
        let k := rg_popcount c in
        if (Nat.eqb k 0 || Nat.eqb k 1 || Nat.eqb k (2 ^ np))%nat then RgOk a
        else match nth_error pmap (N.to_nat c) with
             | None => RgIndexError
             | Some z => if (z <? 0)%Z then RgValueError else RgOk (a + 2 ^ Z.to_N z)%N
             end)) cs acc <> RgNaN).
  { induction cs as [|c cs IH]; intros acc Ha; simpl; [exact Ha|]. apply IH.
    destruct acc as [a| | |]; cbn [rg_bind]; try discriminate; [|congruence].
    cbv zeta. destruct (_ || _)%bool; [discriminate|].
    destruct (nth_error pmap (N.to_nat c)) as [z|]; [|discriminate]. destruct (z <? 0)%Z; discriminate. }
  apply G. discriminate.
Qed.

Lemma rg_fold_no_nan {S} (P : S -> Prop) (f : S -> nat -> rg_out S) : forall l init,
  P init ->
  (forall st i st', In i l -> P st -> f st i = RgOk st' -> P st') ->
  (forall st i, In i l -> P st -> f st i <> RgNaN) ->
  fold_left (fun acc i => rg_bind acc (fun st => f st i)) l (RgOk init) <> RgNaN.
Proof.
  induction l as [|x l IH]; intros init Hi Hstep Hnn; simpl; [discriminate|].
  pose proof (Hnn init x (or_introl eq_refl) Hi) as Hx.
  destruct (f init x) as [st'| | |] eqn:E.
  - apply IH.
    + eapply Hstep; [left; reflexivity| exact Hi| exact E].
    + intros st i st'' Hin. apply Hstep. right. exact Hin.
    + intros st i Hin. apply Hnn. right. exact Hin.
  - rewrite rg_fold_err by (intros a; discriminate). discriminate.
  - rewrite rg_fold_err by (intros a; discriminate). discriminate.
  - congruence.
Qed.

Lemma rg_child_ranks_no_nan s m pids : rg_child_ranks s m pids <> RgNaN.
Proof. unfold rg_child_ranks. apply rg_mapM_no_nan. intros x _. apply rg_of_option_no_nan. Qed.

Lemma rg_down_step_no_nan s reach i : rg_inv s -> (i < rg_nrm s)%nat -> rg_down_step s reach i <> RgNaN.
Proof.
  intros Hinv Hi. unfold rg_down_step.
  rewrite (rg_nth_error_node s i (rg_inv_static s Hinv) Hi). cbn [rg_of_option rg_bind].
  pose proof (rg_child_ranks_no_nan s (rg_node s i) (rg_children (rg_nc s) (rg_node s i))) as Hc.
  destruct (rg_child_ranks s (rg_node s i) _) as [ranks| | |]; cbn [rg_bind]; try discriminate; [|congruence].
  destruct (rg_inv_strategy s i Hinv Hi) as [sg [E _]]. rewrite E. cbn [rg_bind]. discriminate.
Qed.

Lemma rg_up_step_no_nan s reach w st i : rg_inv s -> (i < rg_nrm s)%nat -> rg_up_step s reach w st i <> RgNaN.
Proof.
  intros Hinv Hi. destruct st as [[exl qs] strat]. unfold rg_up_step.
  rewrite (rg_nth_error_node s i (rg_inv_static s Hinv) Hi). cbn [rg_of_option rg_bind].
  pose proof (rg_child_ranks_no_nan s (rg_node s i) (rg_children (rg_nc s) (rg_node s i))) as Hc.
  destruct (rg_child_ranks s (rg_node s i) _) as [ranks| | |]; cbn [rg_bind]; try discriminate; [|congruence].
  destruct (rg_inv_strategy s i Hinv Hi) as [sg [E _]]. rewrite E. cbn [rg_bind].
  destruct (nth_error strat i); cbn [rg_of_option rg_bind]; discriminate.
Qed.

(* under the invariant an iteration never produces NaN (it can still fail with an index / shape error on ill-formed
   used_actions); together with rg_rm_invariant: no iteration of any non-negative history does *)
Theorem rg_iteration_no_nan s terminal used : rg_inv s -> rg_iteration s terminal used <> RgNaN.
Proof.
  intros Hinv. unfold rg_iteration.
  match goal with |- rg_bind ?x _ <> _ => assert (Hm : x <> RgNaN) end.
  { apply rg_mapM_no_nan. intros cs _. pose proof (rg_meta_id_no_nan (rg_np s) (rg_pmap s) cs) as Hc.
    destruct (rg_meta_id (rg_np s) (rg_pmap s) cs); cbn [rg_bind]; try discriminate; [|congruence].
    apply rg_of_option_no_nan. }
  destruct (rg_mapM _ used) as [ur| | |]; cbn [rg_bind]; try discriminate; [|congruence].
  destruct (negb _); [discriminate|].
  assert (Hd : rg_down s <> RgNaN).
  { unfold rg_down. apply (rg_fold_no_nan rg_nonneg).
    - apply rg_upd_Forall; [lra| apply rg_zeros_nonneg].
    - intros st i st' Hin Hst. apply in_seq in Hin. apply rg_down_step_nonneg; [exact Hinv| lia| exact Hst].
    - intros st i Hin _. apply in_seq in Hin. apply rg_down_step_no_nan; [exact Hinv| lia]. }
  destruct (rg_down s) as [reach| | |]; cbn [rg_bind]; try discriminate; [|congruence].
  match goal with |- rg_bind ?x _ <> _ => assert (Hu : x <> RgNaN) end.
  { unfold rg_up. apply (rg_fold_no_nan (fun _ => True)); [exact I| intros; exact I|].
    intros st i Hin _. apply in_rev in Hin. apply in_seq in Hin. apply rg_up_step_no_nan; [exact Hinv| lia]. }
  destruct (rg_up s reach _ _) as [[[exl qs] st]| | |]; cbn [rg_bind]; try discriminate. congruence.
Qed.

Theorem rg_run_no_nan clamp np nc lim plus s0 hist :
  (1 <= lim)%nat -> (clamp = true \/ (lim <= nc)%nat) ->
  rg_mk (rg_mkvariant ById clamp) np nc lim plus = RgOk s0 ->
  Forall (fun tu => rg_nonneg (fst tu)) hist ->
  rg_run s0 hist <> RgNaN.
Proof.
  intros H1 Hc Hmk. assert (Hinv : rg_inv s0) by (eapply rg_constructor_inv; eauto). clear Hmk.
  revert s0 Hinv. induction hist as [|[t u] hist IH]; intros s0 Hinv Hh; simpl; [discriminate|].
  inversion Hh as [|? ? Ht Hh']; subst. simpl in Ht.
  pose proof (rg_iteration_no_nan s0 t u Hinv) as Hn.
  destruct (rg_iteration s0 t u) as [s1| | |] eqn:E; cbn [rg_bind]; try discriminate; [|congruence].
  apply IH; [eapply rg_rm_invariant_step; eauto| exact Hh'].
Qed.

(* RegretProofs: theorems about the model in Regret.v (property C14). *)
From ICG Require Import Prelude Bits Regret.
From Coq Require Import Sorted.

Local Open Scope nat_scope.

(* ================================================================= A. combinations *)
Inductive rg_subseq {A} : list A -> list A -> Prop :=
| rg_ss_nil l : rg_subseq [] l
| rg_ss_take x c l : rg_subseq c l -> rg_subseq (x :: c) (x :: l)
| rg_ss_skip x c l : rg_subseq c l -> rg_subseq c (x :: l).

Lemma rg_subseq_In {A} (c l : list A) x : rg_subseq c l -> In x c -> In x l.
Proof.
  induction 1 as [l|y c l H IH|y c l H IH]; intros Hin.
  - destruct Hin.
  - destruct Hin as [->|Hin]; [left; reflexivity| right; auto].
  - right; auto.
Qed.

Lemma rg_subseq_nil_r {A} (c : list A) : rg_subseq c [] -> c = [].
Proof. inversion 1; reflexivity. Qed.

Lemma rg_subseq_length {A} (c l : list A) : rg_subseq c l -> length c <= length l.
Proof. induction 1; simpl; lia. Qed.

Lemma rg_subseq_filter {A} (f : A -> bool) l : rg_subseq (filter f l) l.
Proof.
  induction l as [|x l IH]; simpl; [constructor|].
  destruct (f x); [apply rg_ss_take| apply rg_ss_skip]; exact IH.
Qed.

Lemma rg_combs_0 {A} (l : list A) : rg_combs l 0 = [[]].
Proof. destruct l; reflexivity. Qed.

(* enumeration spec of itertools.combinations: exactly the subsequences of length k *)
Lemma rg_in_combs {A} (l : list A) : forall k c, In c (rg_combs l k) <-> rg_subseq c l /\ length c = k.
Proof.
  induction l as [|x l IH]; intros k c.
  - destruct k; simpl.
    + split.
      * intros [<-|[]]. split; [constructor| reflexivity].
      * intros [_ H]. destruct c; [left; reflexivity| discriminate].
    + split; [intros []|]. intros [H E]. apply rg_subseq_nil_r in H. subst. discriminate.
  - destruct k.
    + rewrite rg_combs_0. split.
      * intros [<-|[]]. split; [constructor| reflexivity].
      * intros [_ H]. destruct c; [left; reflexivity| discriminate].
    + simpl. rewrite in_app_iff, in_map_iff. split.
      * intros [[c' [<- Hc']]|Hc].
        -- apply IH in Hc'. destruct Hc' as [Hs Hl]. split; [apply rg_ss_take; exact Hs| simpl; congruence].
        -- apply IH in Hc. destruct Hc as [Hs Hl]. split; [apply rg_ss_skip; exact Hs| exact Hl].
      * intros [Hs Hl]. inversion Hs as [l0 E|y c' l0 Hs' E1 E2|y c' l0 Hs' E1 E2]; subst.
        -- discriminate.
        -- left. exists c'. split; [reflexivity|]. apply IH. split; [exact Hs'| simpl in Hl; lia].
        -- right. apply IH. split; assumption.
Qed.

Lemma rg_NoDup_map_in {A B} (f : A -> B) l :
  (forall x y, In x l -> In y l -> f x = f y -> x = y) -> NoDup l -> NoDup (map f l).
Proof.
  induction l as [|x l IH]; intros Hinj Hnd; simpl; [constructor|].
  inversion Hnd as [|? ? Hx Hl]; subst. constructor.
  - intro Hin. apply in_map_iff in Hin. destruct Hin as [y [E Hy]].
    assert (y = x) by (apply Hinj; [right; exact Hy| left; reflexivity| exact E]). subst. contradiction.
  - apply IH; [|exact Hl]. intros a b Ha Hb. apply Hinj; right; assumption.
Qed.

Lemma rg_NoDup_combs {A} (l : list A) : NoDup l -> forall k, NoDup (rg_combs l k).
Proof.
  induction l as [|x l IH]; intros Hnd k.
  - destruct k; simpl; [constructor; [intros []| constructor]| constructor].
  - destruct k; [rewrite rg_combs_0; constructor; [intros []| constructor]|].
    inversion Hnd as [|? ? Hx Hl]; subst. simpl. apply NoDup_app_intro.
    + apply rg_NoDup_map_in; [|apply IH; exact Hl]. intros a b _ _ E. congruence.
    + apply IH; exact Hl.
    + intros c Hc Hc'. apply in_map_iff in Hc. destruct Hc as [c' [<- _]].
      apply rg_in_combs in Hc'. destruct Hc' as [Hs _].
      apply Hx. apply (rg_subseq_In _ _ x Hs). left; reflexivity.
Qed.

Lemma rg_combs_length {A} (l : list A) : forall k, length (rg_combs l k) = rg_binom (length l) k.
Proof.
  induction l as [|x l IH]; intros k.
  - destruct k; reflexivity.
  - destruct k; [rewrite rg_combs_0; reflexivity|].
    simpl. rewrite app_length, map_length, !IH. reflexivity.
Qed.

(* ================================================================= B. masks, players, popcount *)
Lemma rg_mask_of_cons x c : rg_mask_of (x :: c) = N.lor (single x) (rg_mask_of c).
Proof. reflexivity. Qed.

Lemma rg_tb_mask_of c i : tb (rg_mask_of c) i = existsb (Nat.eqb i) c.
Proof.
  induction c as [|x c IH]; [apply tb_0|].
  rewrite rg_mask_of_cons. cbn [existsb].
  rewrite tb_lor, tb_single, IH. rewrite (Nat.eqb_sym i x). reflexivity.
Qed.

Lemma rg_filter_subseq (c l : list nat) :
  rg_subseq c l -> NoDup l -> filter (fun i => existsb (Nat.eqb i) c) l = c.
Proof.
  induction 1 as [l|x c l H IH|x c l H IH]; intros Hnd.
  - induction l as [|y l IHl]; simpl; [reflexivity|]. apply IHl. inversion Hnd; assumption.
  - inversion Hnd as [|? ? Hx Hl]; subst. simpl. rewrite Nat.eqb_refl. simpl. f_equal.
    etransitivity; [|apply (IH Hl)]. apply filter_ext_in. intros y Hy.
    destruct (Nat.eqb_spec y x) as [->|]; [contradiction| reflexivity].
  - inversion Hnd as [|? ? Hx Hl]; subst. simpl.
    assert (E : existsb (Nat.eqb x) c = false).
    { apply not_true_iff_false. intro E. apply existsb_exists in E. destruct E as [y [Hy Ey]].
      apply Nat.eqb_eq in Ey. subst y. apply Hx. eapply rg_subseq_In; eauto. }
    rewrite E. apply IH; exact Hl.
Qed.

Lemma rg_players_mask_of n c : rg_subseq c (seq 0 n) -> players n (rg_mask_of c) = c.
Proof.
  intros H. unfold players. rewrite <- (rg_filter_subseq c (seq 0 n) H (seq_NoDup n 0)) at 2.
  apply filter_ext. intros i. apply rg_tb_mask_of.
Qed.

Lemma rg_mask_of_players n m : bounded n m -> rg_mask_of (players n m) = m.
Proof.
  intros Hb. apply bits_inj_nat. intros i. rewrite rg_tb_mask_of. unfold players.
  destruct (tb m i) eqn:E.
  - apply existsb_exists. exists i. split; [|apply Nat.eqb_refl].
    apply filter_In. split; [|exact E]. apply in_seq.
    destruct (Nat.lt_ge_cases i n) as [Hl|Hl]; [lia|]. rewrite (Hb i Hl) in E. discriminate.
  - apply not_true_iff_false. intro H. apply existsb_exists in H. destruct H as [j [Hj Ej]].
    apply Nat.eqb_eq in Ej. subst j. apply filter_In in Hj. destruct Hj as [_ Hj]. congruence.
Qed.

Lemma rg_bounded_mask_of n c : (forall i, In i c -> i < n) -> bounded n (rg_mask_of c).
Proof.
  intros H i Hi. rewrite rg_tb_mask_of. apply not_true_iff_false. intro E.
  apply existsb_exists in E. destruct E as [j [Hj Ej]]. apply Nat.eqb_eq in Ej. subst j.
  specialize (H i Hj). lia.
Qed.

Lemma rg_size_mask_of n c : rg_subseq c (seq 0 n) -> size n (rg_mask_of c) = length c.
Proof. intros H. unfold size. rewrite rg_players_mask_of; auto. Qed.

(* popcount = size for masks below 2^n *)
Lemma rg_popcount_step m : rg_popcount m = (if tb m 0 then 1 else 0) + rg_popcount (N.div2 m).
Proof. destruct m as [|[p|p|]]; reflexivity. Qed.

Lemma rg_tb_div2 m i : tb (N.div2 m) i = tb m (S i).
Proof. unfold tb. rewrite Nat2N.inj_succ, N.testbit_succ_r_div2 by apply N.le_0_l. reflexivity. Qed.

Lemma rg_filter_map_S (f : nat -> bool) l : filter f (map S l) = map S (filter (fun i => f (S i)) l).
Proof. induction l as [|x l IH]; simpl; [reflexivity|]. destruct (f (S x)); simpl; congruence. Qed.

Lemma rg_size_popcount n : forall m, bounded n m -> size n m = rg_popcount m.
Proof.
  induction n as [|n IH]; intros m Hb.
  - assert (m = 0%N) as ->.
    { apply bits_inj_nat. intros i. rewrite tb_0. apply Hb. lia. }
    reflexivity.
  - rewrite rg_popcount_step. rewrite <- (IH (N.div2 m)).
    + unfold size, players. rewrite <- cons_seq, <- seq_shift. simpl filter.
      rewrite rg_filter_map_S.
      assert (E : filter (fun i => tb m (S i)) (seq 0 n) = filter (tb (N.div2 m)) (seq 0 n)).
      { apply filter_ext. intros i. symmetry. apply rg_tb_div2. }
      rewrite E. destruct (tb m 0); simpl; rewrite map_length; reflexivity.
    + intros i Hi. rewrite rg_tb_div2. apply Hb. lia.
Qed.

(* ================================================================= C. the ranking *)
Definition rg_all_combs (nc L : nat) : list (list nat) :=
  concat (map (fun k => rg_combs (seq 0 nc) k) (seq 0 (L + 1))).

Lemma rg_rank_to_id_eq nc lim : rg_rank_to_id nc lim = map rg_mask_of (rg_all_combs nc (Nat.min nc lim)).
Proof. reflexivity. Qed.

Lemma rg_in_all_combs nc L c : In c (rg_all_combs nc L) <-> rg_subseq c (seq 0 nc) /\ length c <= L.
Proof.
  unfold rg_all_combs. rewrite in_concat. split.
  - intros [blk [Hb Hc]]. apply in_map_iff in Hb. destruct Hb as [k [<- Hk]].
    apply in_seq in Hk. apply rg_in_combs in Hc. destruct Hc as [Hs Hl]. split; [exact Hs| lia].
  - intros [Hs Hl]. exists (rg_combs (seq 0 nc) (length c)). split.
    + apply in_map_iff. exists (length c). split; [reflexivity| apply in_seq; lia].
    + apply rg_in_combs. split; [exact Hs| reflexivity].
Qed.

Lemma rg_NoDup_all_combs nc L : NoDup (rg_all_combs nc L).
Proof.
  unfold rg_all_combs. apply NoDup_concat_disjoint.
  - intros l Hl. apply in_map_iff in Hl. destruct Hl as [k [<- _]]. apply rg_NoDup_combs. apply seq_NoDup.
  - intros i j d Hij x Hx Hx'. rewrite map_length, seq_length in Hij.
    set (f := fun k => rg_combs (seq 0 nc) k) in *.
    rewrite (nth_indep _ d (f 0)) in Hx by (rewrite map_length, seq_length; lia).
    rewrite (nth_indep _ d (f 0)) in Hx' by (rewrite map_length, seq_length; lia).
    rewrite map_nth in Hx, Hx'. rewrite seq_nth in Hx, Hx' by lia. unfold f in Hx, Hx'.
    apply rg_in_combs in Hx. apply rg_in_combs in Hx'. lia.
Qed.

Lemma rg_mask_of_inj_subseq n c1 c2 :
  rg_subseq c1 (seq 0 n) -> rg_subseq c2 (seq 0 n) -> rg_mask_of c1 = rg_mask_of c2 -> c1 = c2.
Proof.
  intros H1 H2 E. rewrite <- (rg_players_mask_of n c1 H1), <- (rg_players_mask_of n c2 H2), E. reflexivity.
Qed.

Lemma rg_subseq_seq_lt n c i : rg_subseq c (seq 0 n) -> In i c -> i < n.
Proof. intros H Hi. apply (rg_subseq_In _ _ i H) in Hi. apply in_seq in Hi. lia. Qed.

Lemma rg_lt_pow2_bounded n m : (m < 2 ^ N.of_nat n)%N <-> bounded n m.
Proof. symmetry. apply bounded_lt. Qed.

Definition rg_size_sorted (l : list N) : Prop :=
  StronglySorted (fun a b => rg_popcount a <= rg_popcount b) l.

Lemma rg_StronglySorted_app {A} (R : A -> A -> Prop) l1 l2 :
  StronglySorted R l1 -> StronglySorted R l2 -> (forall x y, In x l1 -> In y l2 -> R x y) ->
  StronglySorted R (l1 ++ l2).
Proof.
  induction l1 as [|x l1 IH]; intros H1 H2 H12; simpl; [exact H2|].
  inversion H1 as [|? ? Hs Hall]; subst. constructor.
  - apply IH; auto. intros a b Ha Hb. apply H12; [right; exact Ha| exact Hb].
  - apply Forall_app. split; [exact Hall|]. apply Forall_forall. intros y Hy. apply H12; [left; reflexivity| exact Hy].
Qed.

Lemma rg_sorted_blocks {A} (f : A -> nat) (g : nat -> list A) :
  (forall k x, In x (g k) -> f x = k) ->
  forall len a, StronglySorted (fun x y => f x <= f y) (concat (map g (seq a len))).
Proof.
  intros Hg. induction len as [|len IH]; intros a; simpl; [constructor|].
  apply rg_StronglySorted_app.
  - assert (G : forall l, (forall x, In x l -> f x = a) -> StronglySorted (fun x y => f x <= f y) l).
    { induction l as [|x l IHl]; intros H; constructor.
      - apply IHl. intros y Hy. apply H. right; exact Hy.
      - apply Forall_forall. intros y Hy. rewrite (H x), (H y); [lia| right; exact Hy| left; reflexivity]. }
    apply G. intros x Hx. apply Hg. exact Hx.
  - apply IH.
  - intros x y Hx Hy. apply Hg in Hx. apply in_concat in Hy. destruct Hy as [blk [Hb Hy]].
    apply in_map_iff in Hb. destruct Hb as [k [<- Hk]]. apply in_seq in Hk. apply Hg in Hy. lia.
Qed.

Lemma rg_StronglySorted_map {A B} (R : B -> B -> Prop) (f : A -> B) l :
  StronglySorted (fun x y => R (f x) (f y)) l -> StronglySorted R (map f l).
Proof.
  induction 1 as [|x l Hs IH Hall]; simpl; constructor; auto.
  apply Forall_forall. intros y Hy. apply in_map_iff in Hy. destruct Hy as [z [<- Hz]].
  rewrite Forall_forall in Hall. apply Hall. exact Hz.
Qed.

Lemma rg_StronglySorted_ext_in {A} (R R' : A -> A -> Prop) l :
  (forall x y, In x l -> In y l -> R x y -> R' x y) -> StronglySorted R l -> StronglySorted R' l.
Proof.
  intros H Hs. induction Hs as [|x l Hs IH Hall]; constructor.
  - apply IH. intros a b Ha Hb. apply H; right; assumption.
  - rewrite Forall_forall in *. intros y Hy. apply H; [left; reflexivity| right; exact Hy| apply Hall; exact Hy].
Qed.

Lemma rg_popcount_mask_of n c : rg_subseq c (seq 0 n) -> rg_popcount (rg_mask_of c) = length c.
Proof.
  intros H. rewrite <- (rg_size_popcount n).
  - apply rg_size_mask_of. exact H.
  - apply rg_bounded_mask_of. intros i Hi. eapply rg_subseq_seq_lt; eauto.
Qed.

(* ranking_bijection: no repetition, ordered by set size, and exactly the sets of at most lim viable coalitions *)
Theorem rg_ranking_bijection nc lim :
  1 <= lim ->
  NoDup (rg_rank_to_id nc lim) /\ rg_size_sorted (rg_rank_to_id nc lim) /\
  (forall m, In m (rg_rank_to_id nc lim) <-> (m < 2 ^ N.of_nat nc)%N /\ rg_popcount m <= lim).
Proof.
  intros _. rewrite rg_rank_to_id_eq. set (L := Nat.min nc lim). split; [|split].
  - apply rg_NoDup_map_in; [|apply rg_NoDup_all_combs].
    intros c1 c2 H1 H2. apply rg_in_all_combs in H1. apply rg_in_all_combs in H2.
    apply (rg_mask_of_inj_subseq nc); tauto.
  - unfold rg_size_sorted. apply rg_StronglySorted_map. unfold rg_all_combs.
    eapply rg_StronglySorted_ext_in; [|apply (rg_sorted_blocks (@length nat) (fun k => rg_combs (seq 0 nc) k))].
    + intros x y Hx Hy Hle. fold (rg_all_combs nc L) in Hx, Hy.
      apply rg_in_all_combs in Hx. apply rg_in_all_combs in Hy.
      rewrite (rg_popcount_mask_of nc x), (rg_popcount_mask_of nc y) by tauto. exact Hle.
    + intros k x Hx. apply rg_in_combs in Hx. tauto.
  - intros m. rewrite in_map_iff. split.
    + intros [c [<- Hc]]. apply rg_in_all_combs in Hc. destruct Hc as [Hs Hl]. split.
      * apply rg_lt_pow2_bounded. apply rg_bounded_mask_of. intros i Hi. eapply rg_subseq_seq_lt; eauto.
      * rewrite (rg_popcount_mask_of nc c Hs). unfold L in Hl. lia.
    + intros [Hlt Hp]. apply rg_lt_pow2_bounded in Hlt. exists (players nc m). split.
      * apply rg_mask_of_players. exact Hlt.
      * apply rg_in_all_combs. split; [apply rg_subseq_filter|].
        fold (size nc m). rewrite (rg_size_popcount nc m Hlt). pose proof (size_le_n nc m) as Hn.
        rewrite (rg_size_popcount nc m Hlt) in Hn. unfold L. lia.
Qed.

(* ================================================================= D. the id -> rank table *)
Lemma rg_find_notin id l : forall r acc, ~ In id l -> rg_find id l r acc = acc.
Proof.
  induction l as [|x l IH]; intros r acc H; simpl; [reflexivity|].
  rewrite IH by (intro; apply H; right; assumption).
  destruct (N.eqb_spec x id) as [->|]; [exfalso; apply H; left; reflexivity| reflexivity].
Qed.

Lemma rg_find_app id l1 l2 : forall r acc,
  rg_find id (l1 ++ l2) r acc = rg_find id l2 (r + length l1) (rg_find id l1 r acc).
Proof.
  induction l1 as [|x l1 IH]; intros r acc; simpl.
  - rewrite Nat.add_0_r. reflexivity.
  - rewrite IH. f_equal. lia.
Qed.

Lemma rg_find_nth l : NoDup l -> forall r, r < length l -> rg_find (nth r l 0%N) l 0 0 = r.
Proof.
  intros Hnd r Hr.
  destruct (nth_split l 0%N Hr) as [l1 [l2 [E Hl1]]].
  set (id := nth r l 0%N) in *. rewrite E in Hnd. rewrite E at 1.
  rewrite rg_find_app. simpl. rewrite N.eqb_refl.
  apply NoDup_remove_2 in Hnd. rewrite rg_find_notin.
  - lia.
  - intro H. apply Hnd. apply in_or_app. right. exact H.
Qed.

Lemma rg_max_ge l x : In x l -> (x <= fold_right N.max 0 l)%N.
Proof.
  induction l as [|y l IH]; intros H; [destruct H|]. simpl. destruct H as [->|H]; [lia|].
  specialize (IH H). lia.
Qed.

Lemma rg_mk_table_ById ids : rg_mk_table ById ids = Some (rg_mktable (rg_table_len ById ids) ids).
Proof.
  unfold rg_mk_table.
  assert (E : forallb (fun i => (i <? rg_table_len ById ids)%N) ids = true).
  { apply forallb_forall. intros x Hx. apply N.ltb_lt. simpl. pose proof (rg_max_ge ids x Hx). lia. }
  rewrite E. reflexivity.
Qed.

Theorem rg_id_to_rank_inverse_ById nc lim r :
  r < length (rg_rank_to_id nc lim) ->
  rg_id_to_rank ById nc lim (nth r (rg_rank_to_id nc lim) 0%N) = Some r.
Proof.
  intros Hr. unfold rg_id_to_rank. rewrite rg_mk_table_ById. unfold rg_lookup. simpl rg_tlen. simpl rg_tids.
  assert (Hin : In (nth r (rg_rank_to_id nc lim) 0%N) (rg_rank_to_id nc lim)) by (apply nth_In; exact Hr).
  assert (E : (nth r (rg_rank_to_id nc lim) 0 <? N.succ (fold_right N.max 0 (rg_rank_to_id nc lim)))%N = true).
  { apply N.ltb_lt. pose proof (rg_max_ge _ _ Hin). lia. }
  rewrite E. f_equal. apply rg_find_nth; [|exact Hr].
  destruct lim as [|lim'].
  - (* lim = 0 : only the empty set *)
    rewrite rg_rank_to_id_eq. apply rg_NoDup_map_in; [|apply rg_NoDup_all_combs].
    intros c1 c2 H1 H2. apply rg_in_all_combs in H1. apply rg_in_all_combs in H2.
    apply (rg_mask_of_inj_subseq nc); tauto.
  - apply rg_ranking_bijection. lia.
Qed.

Theorem rg_constructor_ById_total clamp np nc lim plus :
  exists s, rg_mk (rg_mkvariant ById clamp) np nc lim plus = RgOk s /\
            rg_nc s = nc /\ rg_r2i s = rg_rank_to_id nc lim /\
            length (rg_regret s) = rg_nrm s /\ length (rg_strat s) = rg_nrm s.
Proof.
  unfold rg_mk. simpl rg_pol. simpl rg_clamp. rewrite rg_mk_table_ById.
  eexists. split; [reflexivity|]. simpl. split; [reflexivity|]. split.
  - destruct clamp; [|reflexivity]. unfold rg_rank_to_id.
    replace (Nat.min nc (Nat.min lim nc)) with (Nat.min nc lim) by lia. reflexivity.
  - unfold rg_zeros2. rewrite !repeat_length. split; reflexivity.
Qed.

Theorem rg_constructor_ByCount_refuted :
  exists np lim, 1 <= lim /\ rg_ncoal np = 3 /\
    (forall clamp plus, rg_construct (rg_mkvariant ByCount clamp) np lim plus = RgIndexError).
Proof.
  exists 3, 1. split; [lia|]. split; [reflexivity|]. intros [|] [|]; vm_compute; reflexivity.
Qed.

(* ================================================================= E. regret matching at one node *)
Local Open Scope Q_scope.

Lemma rg_pos_nonneg x : 0 <= rg_pos x.
Proof.
  unfold rg_pos. destruct (Qle_bool x 0) eqn:E; [lra|].
  assert (~ x <= 0) by (intro H; apply Qle_bool_iff in H; congruence). lra.
Qed.

Lemma rg_pos_of_nonpos x : x <= 0 -> rg_pos x = 0.
Proof. intros H. unfold rg_pos. apply Qle_bool_iff in H. rewrite H. reflexivity. Qed.

Lemma rg_pos_of_pos x : 0 < x -> rg_pos x = x.
Proof.
  intros H. unfold rg_pos. destruct (Qle_bool x 0) eqn:E; [|reflexivity].
  apply Qle_bool_iff in E. lra.
Qed.

Lemma rg_qsum_ge_elem l y : (forall x, In x l -> 0 <= x) -> In y l -> y <= qsum l.
Proof.
  induction l as [|x l IH]; intros Hnn Hin; [destruct Hin|]. simpl.
  assert (0 <= x) by (apply Hnn; left; reflexivity).
  assert (0 <= qsum l) by (apply qsum_nonneg; intros z Hz; apply Hnn; right; exact Hz).
  destruct Hin as [->|Hin]; [lra|].
  assert (y <= qsum l) by (apply IH; auto; intros z Hz; apply Hnn; right; exact Hz). lra.
Qed.

Lemma rg_qsum_div v s : qsum (map (fun x => Qred (x / s)) v) == qsum v / s.
Proof.
  induction v as [|x v IH]; cbn [map qsum].
  - unfold Qdiv. ring.
  - rewrite Qred_correct, IH. unfold Qdiv. ring.
Qed.

Lemma rg_normalize_inv v sg :
  rg_normalize v = RgOk sg -> ~ qsum v == 0 /\ sg = map (fun x => Qred (x / qsum v)) v.
Proof.
  unfold rg_normalize. destruct (Qeq_bool (qsum v) 0) eqn:E; [discriminate|].
  intros H. inversion H. split; [|reflexivity]. intro H0. apply Qeq_bool_iff in H0. congruence.
Qed.

Lemma rg_normalize_ok v : ~ qsum v == 0 -> rg_normalize v = RgOk (map (fun x => Qred (x / qsum v)) v).
Proof.
  intros H. unfold rg_normalize. destruct (Qeq_bool (qsum v) 0) eqn:E; [|reflexivity].
  apply Qeq_bool_iff in E. contradiction.
Qed.

Lemma rg_normalize_sum v sg : rg_normalize v = RgOk sg -> qsum sg == 1 /\ length sg = length v.
Proof.
  intros H. apply rg_normalize_inv in H. destruct H as [Hs ->]. split.
  - rewrite rg_qsum_div. field. exact Hs.
  - apply map_length.
Qed.

Lemma rg_nth_map_q (f : Q -> Q) v a : (a < length v)%nat -> nth a (map f v) 0 = f (nth a v 0).
Proof.
  intros H. rewrite (nth_indep _ 0 (f 0)) by (rewrite map_length; exact H). apply map_nth.
Qed.

Lemma rg_normalize_dist v :
  (forall x, In x v -> 0 <= x) -> ~ qsum v == 0 ->
  exists sg, rg_normalize v = RgOk sg /\ length sg = length v /\ (forall x, In x sg -> 0 <= x) /\ qsum sg == 1 /\
             (forall a, (a < length v)%nat -> nth a v 0 == 0 -> nth a sg 0 == 0).
Proof.
  intros Hnn Hs. exists (map (fun x => Qred (x / qsum v)) v).
  assert (Hpos : 0 < qsum v).
  { pose proof (qsum_nonneg v Hnn). destruct (Qlt_le_dec 0 (qsum v)) as [|Hle]; [assumption|].
    exfalso. apply Hs. lra. }
  split; [apply rg_normalize_ok; exact Hs|]. split; [apply map_length|]. split; [|split].
  - intros x Hx. apply in_map_iff in Hx. destruct Hx as [y [<- Hy]]. rewrite Qred_correct.
    apply Qle_shift_div_l; [exact Hpos|]. specialize (Hnn y Hy). lra.
  - rewrite rg_qsum_div. field. exact Hs.
  - intros a Ha E. rewrite rg_nth_map_q by exact Ha. rewrite Qred_correct, E. unfold Qdiv. ring.
Qed.

Lemma rg_nth_uniform nc m a : (a < nc)%nat -> nth a (rg_uniform_unused nc m) 0 = if tb m a then 0 else 1.
Proof.
  intros H. unfold rg_uniform_unused.
  set (f := fun a : nat => if tb m a then 0 else 1).
  rewrite (nth_indep _ 0 (f O)) by (rewrite map_length, seq_length; exact H).
  rewrite map_nth, seq_nth by exact H. reflexivity.
Qed.

(* strategy_distribution: at a node with an unused coalition whose used coalitions have non-positive cumulative regret,
   regret matching yields a probability distribution that never plays a used coalition *)
Theorem rg_strategy_distribution nc m row :
  length row = nc ->
  (exists a, (a < nc)%nat /\ tb m a = false) ->
  (forall a, (a < nc)%nat -> tb m a = true -> nth a row 0 <= 0) ->
  exists sg, rg_match nc m row = RgOk sg /\ length sg = nc /\
    (forall x, In x sg -> 0 <= x) /\ qsum sg == 1 /\
    (forall a, (a < nc)%nat -> tb m a = true -> nth a sg 0 == 0).
Proof.
  intros Hlen [a0 [Ha0 Hfree]] Hused. unfold rg_match.
  destruct (Qeq_bool (qsum (map rg_pos row)) 0) eqn:E.
  - (* all regrets non-positive: uniform over the unused coalitions *)
    set (u := rg_uniform_unused nc m).
    assert (Hlu : length u = nc) by (unfold u, rg_uniform_unused; rewrite map_length, seq_length; reflexivity).
    assert (Hnn : forall x, In x u -> 0 <= x).
    { intros x Hx. unfold u, rg_uniform_unused in Hx. apply in_map_iff in Hx. destruct Hx as [a [<- _]].
      destruct (tb m a); lra. }
    assert (Hs : ~ qsum u == 0).
    { assert (H1 : 1 <= qsum u).
      { apply rg_qsum_ge_elem; [exact Hnn|]. unfold u, rg_uniform_unused. apply in_map_iff. exists a0.
        rewrite Hfree. split; [reflexivity| apply in_seq; lia]. }
      intro H0. lra. }
    destruct (rg_normalize_dist u Hnn Hs) as [sg [E1 [E2 [E3 [E4 E5]]]]].
    exists sg. split; [exact E1|]. split; [lia|]. split; [exact E3|]. split; [exact E4|].
    intros a Ha Hu. apply E5; [lia|]. unfold u. rewrite rg_nth_uniform by exact Ha. rewrite Hu. reflexivity.
  - set (p := map rg_pos row).
    assert (Hnn : forall x, In x p -> 0 <= x).
    { intros x Hx. apply in_map_iff in Hx. destruct Hx as [y [<- _]]. apply rg_pos_nonneg. }
    assert (Hs : ~ qsum p == 0) by (intro H0; apply Qeq_bool_iff in H0; unfold p in H0; congruence).
    destruct (rg_normalize_dist p Hnn Hs) as [sg [E1 [E2 [E3 [E4 E5]]]]].
    assert (Hlp : length p = nc) by (unfold p; rewrite map_length; exact Hlen).
    exists sg. split; [exact E1|]. split; [lia|]. split; [exact E3|]. split; [exact E4|].
    intros a Ha Hu. apply E5; [lia|]. unfold p. rewrite rg_nth_map_q by lia.
    rewrite rg_pos_of_nonpos; [reflexivity| apply Hused; assumption].
Qed.

Lemma rg_match_sum nc m row sg :
  rg_match nc m row = RgOk sg -> length row = nc -> qsum sg == 1 /\ length sg = nc.
Proof.
  unfold rg_match. intros H Hl. destruct (Qeq_bool (qsum (map rg_pos row)) 0).
  - apply rg_normalize_sum in H. destruct H as [H1 H2]. split; [exact H1|].
    rewrite H2. unfold rg_uniform_unused. rewrite map_length, seq_length. reflexivity.
  - apply rg_normalize_sum in H. destruct H as [H1 H2]. split; [exact H1|]. rewrite H2, map_length. exact Hl.
Qed.

Lemma rg_dot_comm a : forall b, rg_dot a b == rg_dot b a.
Proof.
  induction a as [|x a IH]; intros [|y b]; simpl; try reflexivity. rewrite IH. ring.
Qed.

Lemma rg_dot_regret_delta sg : forall row qrow ev,
  length row = length sg -> length qrow = length sg ->
  rg_dot sg (rg_map2 Qminus (rg_regret_row false row qrow ev) row) == rg_dot sg qrow - ev * qsum sg.
Proof.
  intros row qrow ev.
  change (rg_regret_row false row qrow ev) with (rg_map2 (fun c q => Qred (c + (q - ev))) row qrow).
  revert row qrow.
  induction sg as [|s sg IH]; intros [|c row] [|q qrow] H1 H2; cbn [length] in H1, H2; try discriminate;
    cbn [rg_dot rg_map2 qsum]; try ring.
  rewrite Qred_correct. rewrite (IH row qrow) by lia. ring.
Qed.

(* regret_orthogonal: the regret added at a node (before any plus-clipping) is orthogonal to the strategy played there *)
Theorem rg_regret_orthogonal nc m row qrow sg :
  rg_match nc m row = RgOk sg -> length row = nc -> length qrow = nc ->
  rg_dot sg (rg_map2 Qminus (rg_regret_row false row qrow (Qred (rg_dot qrow sg))) row) == 0.
Proof.
  intros Hm Hr Hq. destruct (rg_match_sum nc m row sg Hm Hr) as [Hs Hl].
  rewrite rg_dot_regret_delta by lia. rewrite Qred_correct, Hs, (rg_dot_comm qrow sg). ring.
Qed.

(* ================================================================= refutation for the unclamped limit *)
Definition rg_unclamped : rg_variant := rg_mkvariant ByCount false.

Theorem rg_rm_unclamped_refuted :
  exists np lim s0, (1 <= lim)%nat /\ rg_construct rg_unclamped np lim false = RgOk s0 /\
    rg_strategy s0 (N.ones (N.of_nat (rg_nc s0))) = RgNaN /\               (* the full coalition set is a decision node with 0/0 *)
    rg_iteration s0 [] [] = RgNaN /\                                        (* and one iteration poisons the state *)
    rg_bind (rg_iteration s0 [] []) (fun s1 => rg_strategy s1 0%N) = RgNaN.
Proof.
  exists 3%nat, 4%nat.
  destruct (rg_construct rg_unclamped 3 4 false) as [s0| | |] eqn:E; try (vm_compute in E; discriminate).
  exists s0. split; [lia|]. split; [reflexivity|].
  assert (Es : RgOk s0 = rg_construct rg_unclamped 3 4 false) by (symmetry; exact E).
  vm_compute in Es. inversion Es. subst s0. vm_compute. repeat split; reflexivity.
Qed.

(* ================================================================= F. save / load *)
Definition rg_wf (v : rg_variant) (s : rg_rm) : Prop :=
  exists s0, rg_construct v (rg_np s) (rg_lim s) (rg_plus s) = RgOk s0 /\
             s = rg_with_arrays s0 (rg_iter s) (rg_regret s) (rg_strat s).

Theorem rg_save_load_id v s : rg_wf v s -> rg_load v (rg_save s) = RgOk s.
Proof.
  intros [s0 [E1 E2]]. unfold rg_load, rg_save. cbn [rg_sv_np rg_sv_lim rg_sv_plus rg_sv_iter rg_sv_regret rg_sv_strat].
  rewrite E1. cbn [rg_bind]. rewrite <- E2. reflexivity.
Qed.

Corollary rg_save_load_continue v s hist :
  rg_wf v s -> rg_bind (rg_load v (rg_save s)) (fun s' => rg_run s' hist) = rg_run s hist.
Proof. intros H. rewrite (rg_save_load_id v s H). reflexivity. Qed.

Lemma rg_construct_wf v np lim plus s : rg_construct v np lim plus = RgOk s -> rg_wf v s.
Proof.
  unfold rg_construct, rg_mk. set (nc := rg_ncoal np).
  set (L := if rg_clamp v then Nat.min lim nc else lim).
  destruct (rg_mk_table (rg_pol v) (rg_rank_to_id nc L)) as [t|] eqn:Et; [|discriminate].
  intros H. inversion H as [Hs]. clear H. exists s. rewrite <- Hs at 1. cbn [rg_np rg_lim rg_plus].
  unfold rg_construct, rg_mk. fold nc.
  assert (EL : (if rg_clamp v then Nat.min L nc else L) = L).
  { unfold L. destruct (rg_clamp v); [lia| reflexivity]. }
  rewrite EL, Et. split; [rewrite Hs; reflexivity|]. rewrite <- Hs. reflexivity.
Qed.

Lemma rg_iteration_shape s t u s' :
  rg_iteration s t u = RgOk s' -> exists reg st, s' = rg_with_arrays s (S (rg_iter s)) reg st.
Proof.
  unfold rg_iteration. destruct (rg_mapM _ u) as [ur| | |]; cbn [rg_bind]; try discriminate.
  destruct (negb _); [discriminate|].
  destruct (rg_down s) as [reach| | |]; cbn [rg_bind]; try discriminate.
  destruct (rg_up s reach _ _) as [[[exl qs] st]| | |]; cbn [rg_bind]; try discriminate.
  intros H. inversion H. eauto.
Qed.

Lemma rg_iteration_wf v s t u s' : rg_wf v s -> rg_iteration s t u = RgOk s' -> rg_wf v s'.
Proof.
  intros [s0 [E1 E2]] H. apply rg_iteration_shape in H. destruct H as [reg [st ->]].
  exists s0. cbn [rg_with_arrays rg_np rg_lim rg_plus rg_iter rg_regret rg_strat]. split; [exact E1|].
  rewrite E2. reflexivity.
Qed.

Lemma rg_run_wf v hist : forall s s', rg_wf v s -> rg_run s hist = RgOk s' -> rg_wf v s'.
Proof.
  induction hist as [|[t u] hist IH]; intros s s' Hw H; simpl in H.
  - inversion H. subst. exact Hw.
  - destruct (rg_iteration s t u) as [s1| | |] eqn:E; cbn [rg_bind] in H; try discriminate.
    eapply IH; [|exact H]. eapply rg_iteration_wf; eauto.
Qed.

Theorem rg_save_load_both v s : rg_wf v s ->
  rg_load v (rg_save s) = RgOk s /\
  forall hist, rg_bind (rg_load v (rg_save s)) (fun s' => rg_run s' hist) = rg_run s hist.
Proof. intros H. split; [apply rg_save_load_id; exact H| intros; apply rg_save_load_continue; exact H]. Qed.

Theorem rg_reachable_wf v np lim plus s0 hist s :
  rg_construct v np lim plus = RgOk s0 -> rg_run s0 hist = RgOk s -> rg_wf v s.
Proof. intros H1 H2. eapply rg_run_wf; [eapply rg_construct_wf; exact H1| exact H2]. Qed.

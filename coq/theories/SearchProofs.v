(* SearchProofs: the exhaustive search enumerates each reveal set once, its value depends on the set only and
   not on the incoming state of the (shared) game object nor on how tasks are distributed; best-states is a
   per-size argmin (C11). *)
From ICG Require Import Prelude Bits Table Bounds GameOps FoldLemmas SAKnowledge SAMKnowledge GameOpsProofs
     Shapley Exploit Norms Env EnvProofs Combs CombsProofs Search.
From Coq Require Import ZArith.

(* ---------- enumeration ---------- *)
Theorem sr_sequences_spec n t m :
  let acts := sr_actions n t in
  NoDup acts /\ NoDup (sr_sequences n t (Some m))
  /\ (forall s, In s (sr_sequences n t (Some m)) <-> cb_sublist s acts /\ (length s <= m)%nat)
  /\ sr_sequences n t (Some m) = concat (map (fun k => cb_combs k acts) (seq 0 (S m)))
  /\ (forall k s, In s (cb_combs k acts) -> length s = k).
Proof.
  intros acts. assert (Hnd : NoDup acts) by (apply NoDup_filter; apply NoDup_alln).
  split; [exact Hnd|]. split; [apply cb_upto_NoDup; exact Hnd|]. split; [intros s; apply cb_upto_in|].
  split; [reflexivity|]. intros k s Hs. apply cb_combs_in in Hs. tauto.
Qed.

Theorem sr_sequences_unbounded n t :
  sr_sequences n t None = cb_powerset (sr_actions n t).
Proof. reflexivity. Qed.

(* ---------- the rebuilt table ---------- *)
Lemma sr_apply_get t v ids s :
  get (sr_apply t v ids) s = if ev_mem s ids then krow (ev_val v s) else get init_table s.
Proof. unfold sr_apply. apply set_known_some_get. Qed.

(* set_known_values re-initialises everything: the incoming table is irrelevant *)
Theorem sr_apply_ignores_incoming t1 t2 v ids : sr_apply t1 v ids = sr_apply t2 v ids.
Proof. reflexivity. Qed.

Theorem sr_apply_depends_on_set t v ids1 ids2 :
  (forall s, ev_mem s ids1 = ev_mem s ids2) -> teq (sr_apply t v ids1) (sr_apply t v ids2).
Proof. intros H s. rewrite !sr_apply_get, H. reflexivity. Qed.

(* ---------- the gap reads only the n-player rows ---------- *)
Lemma sh_player_ext_eq n i g1 g2 : (i < n)%nat -> (forall S, bounded n S -> g1 S = g2 S) -> sh_player n i g1 = sh_player n i g2.
Proof.
  intros Hi H. unfold sh_player. do 3 f_equal. apply map_ext_in. intros S HS.
  unfold sh_without in HS. apply filter_In in HS. destruct HS as [HS _]. apply in_alln in HS.
  unfold sh_term. rewrite (H S HS), (H (N.lor S (single i))); [reflexivity|].
  apply bounded_lor; [exact HS| apply bounded_single; exact Hi].
Qed.

Lemma ev_gap_ext g n t1 t2 : teqn n t1 t2 -> ev_gap g n t1 = ev_gap g n t2.
Proof.
  intros H.
  assert (HL : forall S, bounded n S -> lo (get t1 S) = lo (get t2 S)) by (intros S HS; rewrite (H S HS); reflexivity).
  assert (HU : forall S, bounded n S -> hi (get t1 S) = hi (get t2 S)) by (intros S HS; rewrite (H S HS); reflexivity).
  destruct g; simpl.
  - unfold ex_exploit_tab. rewrite (H (grand n) (bounded_grand n)). destruct (known (get t2 (grand n))); [|reflexivity].
    f_equal. unfold ex_exploit. f_equal. f_equal; [|apply HL; apply bounded_grand].
    f_equal. apply map_ext_in. intros i Hi. apply in_seq in Hi. apply sh_player_ext_eq; [lia|].
    intros S HS. unfold ex_maxgain, ex_lo, ex_hi. rewrite (HL S HS), (HU S HS). reflexivity.
  - do 2 f_equal. unfold nm_l1. f_equal. apply map_ext_in. intros S HS. apply in_alln in HS.
    unfold nm_width_tab, nm_width. rewrite (HL S HS), (HU S HS). reflexivity.
  - do 2 f_equal. unfold nm_l2sq. f_equal. apply map_ext_in. intros S HS. apply in_alln in HS.
    unfold nm_width_tab, nm_width. rewrite (HL S HS), (HU S HS). reflexivity.
  - do 2 f_equal. unfold nm_linf. f_equal. apply map_ext_in. intros S HS. apply in_alln in HS.
    unfold nm_width_tab, nm_width. rewrite (HL S HS), (HU S HS). reflexivity.
Qed.

Lemma gap_of_compute_ext c g n t1 t2 :
  same_known_part n t1 t2 ->
  match compute c n t1 with Some t' => ev_gap g n t' | None => None end
  = match compute c n t2 with Some t' => ev_gap g n t' | None => None end.
Proof.
  intros H. pose proof (compute_function_of_knowledge c n t1 t2 H) as E.
  destruct (compute c n t1) as [a|]; destruct (compute c n t2) as [b|]; simpl in E; try contradiction; [|reflexivity].
  apply ev_gap_ext. exact E.
Qed.

(* the value of a sequence depends only on the SET (starting knowledge + sequence), not on order or repetitions *)
Theorem sr_value_depends_on_set c g n t v known seq1 seq2 :
  (forall s, ev_mem s (seq1 ++ known) = ev_mem s (seq2 ++ known)) ->
  sr_value c g n t v known seq1 = sr_value c g n t v known seq2.
Proof.
  intros H. unfold sr_value. apply gap_of_compute_ext. apply teqn_same_known_part.
  intros s _. apply sr_apply_depends_on_set. exact H.
Qed.

(* ... and not on the table left in the shared game object by earlier tasks *)
Theorem sr_value_ignores_incoming_state c g n t1 t2 v known seq :
  sr_value c g n t1 v known seq = sr_value c g n t2 v known seq.
Proof. reflexivity. Qed.

Theorem sr_task_result c g n v known t seq :
  fst (sr_task c g n v known t seq) = (seq, sr_value c g n t v known seq).
Proof. unfold sr_task, sr_value. destruct (compute c n (sr_apply t v (seq ++ known))); reflexivity. Qed.

(* ---------- distribution of tasks over worker processes ---------- *)
Section Chunks.
  Variables (Task Res : Type).
  Variable f : table -> Task -> Res * table.
  Hypothesis f_state_free : forall t1 t2 x, fst (f t1 x) = fst (f t2 x).

  Lemma sr_chunk_run_map t0 t tasks : sr_chunk_run Task Res f t tasks = map (fun x => fst (f t0 x)) tasks.
  Proof.
    revert t. induction tasks as [|x r IH]; intros t; simpl; [reflexivity|].
    destruct (f t x) as [y t'] eqn:E. rewrite IH. f_equal.
    rewrite <- (f_state_free t t0 x), E. reflexivity.
  Qed.

  Theorem sr_starmap_chunking_irrelevant t0 chunks :
    sr_starmap Task Res f t0 chunks = map (fun x => fst (f t0 x)) (concat chunks).
  Proof.
    induction chunks as [|ch r IH]; simpl; [reflexivity|].
    rewrite map_app, IH, (sr_chunk_run_map t0). reflexivity.
  Qed.
End Chunks.

(* for the search task: any chunking of the task list gives the values of the sequential map *)
Corollary sr_search_parallel_eq_sequential c g n v known t0 chunks :
  sr_starmap _ _ (sr_task c g n v known) t0 chunks
  = map (fun seq => (seq, sr_value c g n t0 v known seq)) (concat chunks).
Proof.
  rewrite sr_starmap_chunking_irrelevant.
  - apply map_ext. intros seq. apply sr_task_result.
  - intros t1 t2 x. rewrite !sr_task_result. reflexivity.
Qed.

(* the meta-game returns the same quantity *)
Theorem sr_meta_same_quantity c g n t v inner :
  sr_meta_value c g n t v inner = sr_value c g n t v (sr_minimal n) inner.
Proof. reflexivity. Qed.

(* ---------- best states ---------- *)
Lemma nth_error_firstn' {A} (l : list A) n k : (k < n)%nat -> nth_error (firstn n l) k = nth_error l k.
Proof.
  revert n k. induction l as [|x l IH]; intros [|n] [|k] H; simpl; try reflexivity; try lia. apply IH. lia.
Qed.
Lemma nth_error_skipn' {A} (l : list A) n k : nth_error (skipn n l) k = nth_error l (n + k).
Proof.
  revert l. induction n as [|n IH]; intros l; simpl; [reflexivity|]. destruct l as [|x l]; [destruct k; reflexivity| apply IH].
Qed.
Definition sr_better (old new : Q) : bool := Qeq_bool old (-1) || negb (Qle_bool old new).

Lemma sr_best_step_length bests cand : length (sr_best_step bests cand) = length bests.
Proof.
  unfold sr_best_step. destruct (nth_error bests (length (fst cand))) as [b|] eqn:E; [|reflexivity].
  destruct (_ || _); [|reflexivity].
  assert (Hlt : (length (fst cand) < length bests)%nat) by (apply nth_error_Some; congruence).
  rewrite app_length, firstn_length. cbn [length]. rewrite skipn_length. lia.
Qed.

Lemma sr_best_step_other bests cand k : k <> length (fst cand) -> nth_error (sr_best_step bests cand) k = nth_error bests k.
Proof.
  intros Hk. unfold sr_best_step. destruct (nth_error bests (length (fst cand))) as [b|] eqn:E; [|reflexivity].
  destruct (_ || _); [|reflexivity].
  assert (Hlt : (length (fst cand) < length bests)%nat) by (apply nth_error_Some; congruence).
  set (s := length (fst cand)) in *.
  destruct (Nat.lt_ge_cases k s) as [H|H].
  - rewrite nth_error_app1 by (rewrite firstn_length; lia). apply nth_error_firstn'; exact H.
  - rewrite nth_error_app2 by (rewrite firstn_length; lia). rewrite firstn_length.
    replace (Nat.min s (length bests)) with s by lia.
    destruct (k - s)%nat as [|d] eqn:Ed; [lia|]. cbn [nth_error]. rewrite nth_error_skipn'. f_equal. lia.
Qed.

Lemma sr_best_step_same bests cand b : nth_error bests (length (fst cand)) = Some b ->
  nth_error (sr_best_step bests cand) (length (fst cand))
  = Some (if sr_better (sr_mean (sb_col b)) (sr_mean (snd cand)) then mkbest (snd cand) (fst cand) else b).
Proof.
  intros E. unfold sr_best_step, sr_better. rewrite E.
  destruct (_ || _); [|exact E].
  assert (Hlt : (length (fst cand) < length bests)%nat) by (apply nth_error_Some; congruence).
  rewrite nth_error_app2 by (rewrite firstn_length; lia). rewrite firstn_length.
  replace (Nat.min (length (fst cand)) (length bests)) with (length (fst cand)) by lia.
  rewrite Nat.sub_diag. reflexivity.
Qed.

(* invariant of the fold for one size k: the stored entry is the placeholder if no candidate of size k was seen,
   else it is a candidate of size k whose mean is minimal among those seen, the first such *)
Definition sr_cands_of_size (k : nat) (cands : list (list N * list Q)) := filter (fun c => Nat.eqb (length (fst c)) k) cands.

Theorem sr_best_states_min max_steps reps cands k :
  (k <= max_steps)%nat ->
  (forall c, In c cands -> ~ sr_mean (snd c) == -1) ->       (* the placeholder convention: no real mean equals -1 *)
  sr_mean (repeat (-1) reps) == -1 ->
  match nth_error (sr_best_states max_steps reps cands) k with
  | None => False
  | Some b =>
    match sr_cands_of_size k cands with
    | [] => b = sr_placeholder reps
    | _ => In (sb_seq b, sb_col b) (sr_cands_of_size k cands)
           /\ forall c, In c (sr_cands_of_size k cands) -> sr_mean (sb_col b) <= sr_mean (snd c)
    end
  end.
Proof.
  intros Hk Hne Hph. unfold sr_best_states.
  assert (G : forall cs bests, length bests = S max_steps ->
     (forall c, In c cs -> ~ sr_mean (snd c) == -1) ->
     forall seen b0, nth_error bests k = Some b0 ->
     (match seen with [] => b0 = sr_placeholder reps
                 | _ => In (sb_seq b0, sb_col b0) seen /\ forall c, In c seen -> sr_mean (sb_col b0) <= sr_mean (snd c) end) ->
     (forall c, In c seen -> length (fst c) = k /\ ~ sr_mean (snd c) == -1) ->
     match nth_error (fold_left sr_best_step cs bests) k with
     | None => False
     | Some b => match seen ++ sr_cands_of_size k cs with
                 | [] => b = sr_placeholder reps
                 | _ => In (sb_seq b, sb_col b) (seen ++ sr_cands_of_size k cs)
                        /\ forall c, In c (seen ++ sr_cands_of_size k cs) -> sr_mean (sb_col b) <= sr_mean (snd c)
                 end
     end).
  { induction cs as [|c cs IH]; intros bests Hlen Hn seen b0 Hb0 Hinv Hseen; simpl.
    - rewrite Hb0, app_nil_r. exact Hinv.
    - destruct (Nat.eqb_spec (length (fst c)) k) as [Ek|Ek].
      + (* candidate of size k *)
        assert (Hstep := sr_best_step_same bests c b0). rewrite Ek in Hstep. specialize (Hstep Hb0).
        set (b1 := if sr_better (sr_mean (sb_col b0)) (sr_mean (snd c)) then mkbest (snd c) (fst c) else b0) in *.
        replace (seen ++ c :: sr_cands_of_size k cs) with ((seen ++ [c]) ++ sr_cands_of_size k cs) by (rewrite <- app_assoc; reflexivity).
        apply (IH (sr_best_step bests c)) with (b0 := b1); [rewrite sr_best_step_length; exact Hlen| intros; apply Hn; right; assumption| exact Hstep| |].
        * (* invariant for seen ++ [c] *)
          assert (Hcne : ~ sr_mean (snd c) == -1) by (apply Hn; left; reflexivity).
          destruct seen as [|s0 sr]; simpl.
          -- subst b0. unfold b1, sr_better. simpl sb_col.
             assert (E : Qeq_bool (sr_mean (repeat (-1) reps)) (-1) = true) by (apply Qeq_bool_iff; exact Hph).
             rewrite E. simpl. split; [left; destruct c; reflexivity|]. intros c' [<-|[]]. apply Qle_refl.
          -- destruct Hinv as [Hin Hmin]. unfold b1, sr_better.
             assert (E : Qeq_bool (sr_mean (sb_col b0)) (-1) = false).
             { apply not_true_iff_false. intro Hq. apply Qeq_bool_iff in Hq.
               destruct (Hseen _ Hin) as [_ Hx]. simpl in Hx. contradiction. }
             rewrite E. simpl. destruct (Qle_bool (sr_mean (sb_col b0)) (sr_mean (snd c))) eqn:Ele; simpl.
             ++ apply Qle_bool_iff in Ele. split; [destruct Hin as [Hin|Hin]; [left; exact Hin| right; apply in_or_app; left; exact Hin]|].
                intros c' Hc'. destruct Hc' as [<-|Hc']; [apply Hmin; left; reflexivity|].
                apply in_app_or in Hc'. destruct Hc' as [Hc'|[<-|[]]]; [apply Hmin; right; exact Hc'| exact Ele].
             ++ assert (Hlt : sr_mean (snd c) < sr_mean (sb_col b0)).
                { apply Qnot_le_lt. intro Hle. apply Qle_bool_iff in Hle. congruence. }
                split; [right; apply in_or_app; right; left; destruct c; reflexivity|].
                intros c' Hc'. destruct Hc' as [<-|Hc'].
                ** pose proof (Hmin s0 (or_introl eq_refl)). lra.
                ** apply in_app_or in Hc'. destruct Hc' as [Hc'|[<-|[]]]; [pose proof (Hmin c' (or_intror Hc')); lra| apply Qle_refl].
        * intros c' Hc'. apply in_app_or in Hc'. destruct Hc' as [Hc'|[<-|[]]]; [apply Hseen; exact Hc'|].
          split; [exact Ek| apply Hn; left; reflexivity].
      + apply (IH (sr_best_step bests c)) with (b0 := b0); [rewrite sr_best_step_length; exact Hlen| intros; apply Hn; right; assumption| | exact Hinv| exact Hseen].
        rewrite sr_best_step_other by congruence. exact Hb0. }
  assert (Hb0 : nth_error (repeat (sr_placeholder reps) (S max_steps)) k = Some (sr_placeholder reps)).
  { rewrite (nth_error_nth' _ (sr_placeholder reps)) by (rewrite repeat_length; lia). rewrite nth_repeat. reflexivity. }
  apply (G cands _ (repeat_length _ _) Hne [] _ Hb0); [reflexivity| intros c []].
Qed.

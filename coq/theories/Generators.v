(* Generators: executable model of incomplete_cooperative/generators.py (+ graph_game.py's value function).
   One function per family; every random draw of the Python code is an ARGUMENT of the model.
   Games are functions N -> Q on coalition ids (Bits); the result of a run is the table of 2^n values
   (the numpy array returned by get_values()).  A Python exception / a NaN-producing division is None.
   All names carry the prefix gn_.  No proofs here (GeneratorsProofs.v). *)
From ICG Require Import Prelude Bits RegistryTypes.
From Coq Require String.
Import String.StringSyntax.
Delimit Scope string_scope with string.
Notation string := String.string.
Local Open Scope Q_scope.

(* ---------- the two classes of games ---------- *)
Definition gn_SA (n : nat) (v : N -> Q) : Prop :=
  forall A B, bounded n A -> bounded n B -> disjb A B = true -> v A + v B <= v (N.lor A B).
Definition gn_Mono (n : nat) (v : N -> Q) : Prop :=        (* monotone non-increasing *)
  forall A B, bounded n B -> sub A B = true -> v B <= v A.

(* ---------- tables (numpy value arrays indexed by coalition id) ---------- *)
Definition gn_table (n : nat) (v : N -> Q) : list Q := map v (alln n).
Definition gn_get (t : list Q) (S : N) : Q := nth (N.to_nat S) t 0.
Definition gn_qnat (k : nat) : Q := inject_Z (Z.of_nat k).
Definition gn_wfun (l : list Q) : nat -> Q := fun i => nth i l 0.

(* np.sum(weights[list(coalition.players)]) *)
Definition gn_wsum (n : nat) (w : nat -> Q) (S : N) : Q := qsum (map w (players n S)).

(* ---------- factory_generator ---------- *)
(* value_fn(sum of the members' weights) if the owner is a member, else 0 *)
Definition gn_factory (n owner : nat) (w : nat -> Q) (f : Q -> Q) (S : N) : Q :=
  if tb S owner then f (gn_wsum n w S) else 0.

Definition gn_vid (x : Q) : Q := x.                  (* lambda x: x *)
Definition gn_vsq (x : Q) : Q := x * x.              (* _fac_sq_fn: val**2 *)
Definition gn_vone (_ : Q) : Q := 1.                 (* _fac_one_fn: 1 *)
(* math.exp is not a rational function: the harness supplies the finite table (x, math.exp(x)) of the points the
   run evaluates; the model's value function is the monotone hull of that table (largest tabulated y among the
   x_i <= x), which is non-decreasing by construction and reproduces the table iff the table is monotone. *)
Definition gn_tabfn (tab : list (Q * Q)) (x : Q) : Q :=
  qmaxl1 (qminl (map snd tab)) (map snd (filter (fun p => Qle_bool (fst p) x) tab)).
Definition gn_valfn (vf : rg_valfn) (tab : list (Q * Q)) : Q -> Q :=
  match vf with VId => gn_vid | VSq => gn_vsq | VOne => gn_vone | VExp => gn_tabfn tab end.

(* weights = uniform(high=10, size=n) if random_weights else ones(n); weights[owner] = 0 *)
Definition gn_factory_weights (random_weights : bool) (owner : nat) (w : list Q) : nat -> Q :=
  fun i => if (i =? owner)%nat then 0 else if random_weights then nth i w 0 else 1.

(* ---------- factory_cheerleader_generator ---------- *)
Definition gn_cheerleader (n owner cheer : nat) (S : N) : Q :=
  if tb S owner then
    (if tb S cheer then 3 * (gn_qnat (size n S) - 2) else gn_qnat (size n S) - 1)
  else 0.

(* Coalition.__contains__ treats only Python ints as players: a numpy.int64 falls through to `other.id`
   and raises AttributeError.  `cheerleader in coalition` is evaluated for every coalition (the empty one first). *)
Inductive gn_pyint := PyInt (i : nat) | NpInt (i : nat).
Definition gn_pyint_val (p : gn_pyint) : nat := match p with PyInt i => i | NpInt i => i end.
Definition gn_contains (S : N) (p : gn_pyint) : option bool :=
  match p with PyInt i => Some (tb S i) | NpInt _ => None end.
Definition gn_cheerleader_py (n owner : nat) (cheer : gn_pyint) : option (N -> Q) :=
  match gn_contains 0%N cheer with
  | None => None
  | Some _ => Some (gn_cheerleader n owner (gn_pyint_val cheer))
  end.

(* ---------- graph games (graph_game.py) ---------- *)
(* itertools.combinations(players, 2) *)
Fixpoint gn_pairs (l : list nat) : list (nat * nat) :=
  match l with [] => [] | x :: r => map (pair x) r ++ gn_pairs r end.
Definition gn_graph (n : nat) (W : nat -> nat -> Q) (S : N) : Q :=
  qsum (map (fun p => W (fst p) (snd p)) (gn_pairs (players n S))).
(* _polish_graph_matrix: matrix[j, i] = 0 for j >= i, i.e. only the strict upper triangle survives *)
Definition gn_polish (W : nat -> nat -> Q) : nat -> nat -> Q :=
  fun i j => if (i <? j)%nat then W i j else 0.
Definition gn_matrix (M : list (list Q)) : nat -> nat -> Q := fun i j => nth j (nth i M []) 0.
(* cycle: graph_array[perm, roll(perm, 1)] = 1; graph_array[perm, roll(perm, -1)] = 1 *)
Definition gn_cycle_matrix (n : nat) (perm : list nat) : nat -> nat -> Q :=
  fun i j =>
    if existsb (fun k => (nth k perm 0%nat =? i)%nat &&
                         ((nth ((k + n - 1) mod n) perm 0%nat =? j)%nat || (nth ((k + 1) mod n) perm 0%nat =? j)%nat))
               (seq 0 n)
    then 1 else 0.

(* ---------- additive ---------- *)
Definition gn_additive (n : nat) (w : nat -> Q) (S : N) : Q := gn_wsum n w S.

(* ---------- xos ---------- *)
(* numpy divides without raising; a zero divisor fills the array with nan / inf: not a game, None *)
Definition gn_div_game (v : N -> Q) (d : Q) : option (N -> Q) :=
  if Qeq_bool d 0 then None else Some (fun S => v S / d).
Fixpoint gn_all_some {A} (l : list (option A)) : option (list A) :=
  match l with
  | [] => Some []
  | None :: _ => None
  | Some x :: r => match gn_all_some r with None => None | Some r' => Some (x :: r') end
  end.
Definition gn_xos (n : nat) (ws : list (nat -> Q)) (normalize normalize_additive : bool) : option (N -> Q) :=
  match ws with
  | [] => None                                  (* np.max over an empty first axis raises ValueError *)
  | _ =>
    let adds := map (gn_additive n) ws in
    match (if normalize_additive
           then gn_all_some (map (fun a => gn_div_game a (a (grand n))) adds)      (* value /= value[-1] *)
           else Some adds) with
    | None => None
    | Some adds' =>
      let osx := fun S => qmaxl (map (fun a : N -> Q => a S) adds') in            (* np.max(..., axis=0) *)
      match (if normalize then gn_div_game osx (osx (grand n)) else Some osx) with  (* osx / osx[-1] *)
      | None => None
      | Some o => Some (fun S => - o S)
      end
    end
  end.

(* ---------- xs ---------- *)
(* -np.max(singletons[players], initial=0) *)
Definition gn_xs (n : nat) (s : nat -> Q) (S : N) : Q := - qmaxl1 0 (map s (players n S)).
(* num_unit_demand > 0: singletons[player] = max(singletons[player], random()) from zeros *)
Definition gn_unit_singletons (picks : list (nat * Q)) : nat -> Q :=
  fold_left (fun (s : nat -> Q) (p : nat * Q) => fun i => if (i =? fst p)%nat then Qmax (s i) (snd p) else s i)
            picks (fun _ => 0).

(* ---------- oxs ---------- *)
(* _apply_or, loop for loop:
     xor_values = np.zeros(2**n)
     for S in all_coalitions(n):
         for T in filter(partial(disjoint_coalitions, S), all_coalitions(n)):
             xor_values[(S | T).id] = min(values1[S.id] + values2[T.id], xor_values[(S | T).id])
   (every cell is re-normalised with Qred when written: same rational, bounded size) *)
Fixpoint gn_upd (t : list Q) (k : nat) (x : Q) : list Q :=
  match t, k with
  | [], _ => []
  | _ :: r, O => x :: r
  | y :: r, S k' => y :: gn_upd r k' x
  end.
Definition gn_or_pairs (n : nat) : list (N * N) :=
  flat_map (fun S => map (pair S) (filter (fun T => disjb S T) (alln n))) (alln n).
Definition gn_apply_or_step (t1 t2 : list Q) (acc : list Q) (p : N * N) : list Q :=
  let U := N.lor (fst p) (snd p) in
  gn_upd acc (N.to_nat U) (Qred (Qmin (gn_get t1 (fst p) + gn_get t2 (snd p)) (gn_get acc U))).
Definition gn_apply_or (n : nat) (t1 t2 : list Q) : list Q :=
  fold_left (gn_apply_or_step t1 t2) (gn_or_pairs n) (gn_table n (fun _ => 0)).
(* What the loop computes in the cell of U (GeneratorsProofs.gn_apply_or_get): that cell is touched exactly by the
   pairs (S, U - S), S a subset of U, in increasing order of S, starting from the initial zero. *)
Definition gn_apply_or_cell (n : nat) (v1 v2 : N -> Q) (U : N) : Q :=
  fold_left (fun acc S => Qmin (v1 S + v2 (N.ldiff U S)) acc) (filter (fun S => sub S U) (alln n)) 0.
Definition gn_oxs (n : nat) (ss : list (nat -> Q)) (normalize : bool) : option (list Q) :=
  match rev (map (fun s => gn_table n (gn_xs n s)) ss) with
  | [] => None                                                     (* xs_values.pop() on an empty list *)
  | last :: others_rev =>
    let t := fold_left (gn_apply_or n) (rev others_rev) last in    (* for other_xs in xs_values: ... *)
    if normalize then
      let g := gn_get t (grand n) in
      if Qeq_bool g 0 then None else Some (map (fun x => (- x) / g) t)   (* -oxs_values / oxs_values[-1] *)
    else Some t
  end.

(* ---------- k_budget_generator ---------- *)
Definition gn_kbudget (n k : nat) (S : N) : Q := - gn_qnat (Nat.min k (size n S)).

(* ---------- covg_fn_generator ---------- *)
Definition gn_cover (n : nat) (U : nat -> list nat) (S : N) : list nat :=
  nodup Nat.eq_dec (concat (map U (players n S))).
Definition gn_coverage (n : nat) (U : nat -> list nat) (S : N) : Q := - gn_qnat (length (gn_cover n U S)).
Definition gn_sets (sets : list (list nat)) : nat -> list nat := fun i => nth i sets [].

(* ---------- one run of a registry entry ---------- *)
Inductive gn_draws :=
| DrFactory (owner : nat) (w : list Q) (exptab : list (Q * Q))  (* integers(n) / fixed owner; uniform(high=10,size=n); exp table *)
| DrOwner (owner : nat)                  (* cheerleader_next: integers(n); predictible_factory: _LAST_OWNER before the call *)
| DrCheer (owner : nat) (cheer : gn_pyint)
| DrMatrix (M : list (list Q))           (* the matrix handed to GraphCooperativeGame (before the polish) *)
| DrPerm (perm : list nat)               (* permutation(n) *)
| DrWeights (ws : list (list Q))         (* xos: singleton values of each additive game; xs / oxs: singletons of each XS *)
| DrPicks (picks : list (nat * Q))       (* xs(num_unit_demand=k): (integers(n), random()) pairs *)
| DrK (k : nat)                          (* integers(1, n) *)
| DrSets (sets : list (list nat)).       (* powerset_list[choice(...)[i]] for each player *)

Definition gn_opt_matches (fixed : option nat) (x : nat) : bool :=
  match fixed with None => true | Some o => (o =? x)%nat end.
Definition gn_square (n : nat) (M : list (list Q)) : bool :=
  (length M =? n)%nat && forallb (fun r : list Q => (length r =? n)%nat) M.
Definition gn_opt_table (n : nat) (o : option (N -> Q)) : option (list Q) :=
  match o with None => None | Some v => Some (gn_table n v) end.

(* A registry entry, reduced to what the value computation depends on (no strings: this type is extracted).
   The distribution parameters of the graph families only matter through the support of the drawn matrix. *)
Inductive gn_family :=
| FFactory (value_fn : rg_valfn) (random_weights : bool) (owner : option nat)
| FPredictible
| FCheer (owner cheerleader : option nat)
| FCheerNext
| FGraph
| FCycle
| FXos (number_of_additive : nat) (normalize normalize_additive : bool)
| FXs (num_unit_demand : nat)
| FOxs (number_of_xs : nat) (normalize : bool)
| FKBudget
| FCoverage (universum_mult : nat)
| FNone.                                  (* external dependency / not modelled: never run *)
Definition gn_family_of (e : rg_generator) : gn_family :=
  match e with
  | GFactory vf rw o => FFactory vf rw o
  | GPredictibleFactory => FPredictible
  | GCheerleader o c => FCheer o c
  | GCheerleaderNext => FCheerNext
  | GGraphDist _ | GGraphNx _ => FGraph
  | GCycle => FCycle
  | GXos k a b | GXosNoRandom k a b => FXos k a b
  | GXs k => FXs k
  | GOxs k a => FOxs k a
  | GKBudget => FKBudget
  | GCoverage m => FCoverage m
  | GExternal _ | GUnknown _ => FNone
  end.

Definition gn_run (e : gn_family) (n : nat) (d : gn_draws) : option (list Q) :=
  match e, d with
  | FFactory vf rw fixed, DrFactory owner w tab =>
    if gn_opt_matches fixed owner && (owner <? n)%nat && (if rw then (length w =? n)%nat else true)
    then Some (gn_table n (gn_factory n owner (gn_factory_weights rw owner w) (gn_valfn vf tab)))
    else None
  | FPredictible, DrOwner last =>
    if (n =? 0)%nat then None
    else let owner := ((last + 1) mod n)%nat in
         Some (gn_table n (gn_factory n owner (gn_factory_weights false owner []) gn_vid))
  | FCheer fo fc, DrCheer owner cheer =>
    if gn_opt_matches fo owner && (owner <? n)%nat && (gn_pyint_val cheer <? n)%nat
       && negb (gn_pyint_val cheer =? owner)%nat
       && (match fc, cheer with None, _ => true | Some c, PyInt c' => (c =? c')%nat | Some _, NpInt _ => false end)
    then gn_opt_table n (gn_cheerleader_py n owner cheer)
    else None
  | FCheerNext, DrOwner owner =>
    if (2 <=? n)%nat && (owner <? n)%nat
    then gn_opt_table n (gn_cheerleader_py n owner (PyInt ((owner + 1) mod n)))
    else None
  | FGraph, DrMatrix M =>
    if gn_square n M then Some (gn_table n (gn_graph n (gn_polish (gn_matrix M)))) else None
  | FCycle, DrPerm perm =>
    if (length perm =? n)%nat then Some (gn_table n (gn_graph n (gn_polish (gn_cycle_matrix n perm)))) else None
  | FXos k norm norma, DrWeights ws =>
    if (length ws =? k)%nat && forallb (fun w : list Q => (length w =? n)%nat) ws
    then gn_opt_table n (gn_xos n (map gn_wfun ws) norm norma) else None
  | FXs O, DrWeights [s] =>
    if (length s =? n)%nat then Some (gn_table n (gn_xs n (gn_wfun s))) else None
  | FXs (S k), DrPicks picks =>
    if (length picks =? S k)%nat && forallb (fun p : nat * Q => (fst p <? n)%nat) picks
    then Some (gn_table n (gn_xs n (gn_unit_singletons picks))) else None
  | FOxs k norm, DrWeights ss =>
    if (length ss =? k)%nat && forallb (fun w : list Q => (length w =? n)%nat) ss
    then gn_oxs n (map gn_wfun ss) norm else None
  | FKBudget, DrK k => Some (gn_table n (gn_kbudget n k))
  | FCoverage mult, DrSets sets =>
    if (length sets =? n)%nat
       && forallb (fun U : list nat => negb (length U =? 0)%nat && forallb (fun x => (x <? mult * n)%nat) U) sets
    then Some (gn_table n (gn_coverage n (gn_sets sets))) else None
  | _, _ => None
  end.

(* ---------- supports of the draws (what the theorems assume; checked on every recorded run) ---------- *)
Definition gn_nonneg_list (l : list Q) : bool := forallb (fun x => Qle_bool 0 x) l.
Definition gn_draws_okb (d : gn_draws) : bool :=
  match d with
  | DrFactory _ w _ => gn_nonneg_list w
  | DrMatrix M => forallb gn_nonneg_list M
  | DrWeights ws => forallb gn_nonneg_list ws
  | DrPicks picks => gn_nonneg_list (map snd picks)
  | DrOwner _ | DrCheer _ _ | DrPerm _ | DrK _ | DrSets _ => true
  end.

(* ---------- static admissibility of a registry entry ---------- *)
Definition gn_dist_ok (d : rg_dist) : bool :=
  match d with
  | DRandom => true
  | DTriangular l m r => Qle_bool 0 l && Qle_bool l m && Qle_bool m r && negb (Qle_bool r l)
  | DBeta a b => negb (Qle_bool a 0) && negb (Qle_bool b 0)
  | DPoisson lam => Qle_bool 0 lam
  end.
Definition gn_nx_ok (g : rg_nx) : bool :=
  match g with
  | NxGnp p => Qle_bool 0 p && Qle_bool p 1
  | NxWattsStrogatz k p => (k <=? 3)%nat && Qle_bool 0 p && Qle_bool p 1     (* k <= n for every n >= 3 *)
  | NxInternet => true
  | NxGeometric r => Qle_bool 0 r
  | NxGeoThreshold th => Qle_bool 0 th
  end.
Definition gn_opt_lt3 (o : option nat) : bool := match o with None => true | Some x => (x <? 3)%nat end.
Definition gn_family_okb (e : rg_generator) : bool :=
  match e with
  | GFactory _ _ owner => gn_opt_lt3 owner
  | GPredictibleFactory | GCheerleaderNext | GCycle | GKBudget => true
  | GCheerleader o c =>
    gn_opt_lt3 o && gn_opt_lt3 c && (match o, c with Some a, Some b => negb (a =? b)%nat | _, _ => true end)
  | GGraphDist d => gn_dist_ok d
  | GGraphNx g => gn_nx_ok g
  | GXos k _ _ | GXosNoRandom k _ _ => (1 <=? k)%nat
  | GXs _ => true
  | GOxs k _ => (1 <=? k)%nat
  | GCoverage m => (1 <=? m)%nat
  | GExternal name => String.eqb name "pyfmtools"%string
  | GUnknown _ => false
  end.
Definition gn_family_ok (e : rg_generator) : Prop := gn_family_okb e = true.
Definition gn_is_external (e : rg_generator) : bool := match e with GExternal _ => true | _ => false end.
(* the families whose consumers assume monotone non-increasing values *)
Definition gn_mono_family (f : gn_family) : bool :=
  match f with
  | FXos _ _ _ | FXs _ | FOxs _ _ | FKBudget | FCoverage _ => true
  | _ => false
  end.

(* ---------- running the i-th registry entry; executable class checks (used by the driver) ---------- *)
Definition gn_run_idx (fams : list gn_family) (i n : nat) (d : gn_draws) : option (list Q) :=
  gn_run (nth i fams FNone) n d.
(* comparison of two run results (used by the in-Coq evaluation shard of the thorough tier) *)
Fixpoint gn_list_eqb (a b : list Q) : bool :=
  match a, b with
  | [], [] => true
  | x :: a', y :: b' => Qeq_bool x y && gn_list_eqb a' b'
  | _, _ => false
  end.
Definition gn_tab_eqb (a b : option (list Q)) : bool :=
  match a, b with None, None => true | Some x, Some y => gn_list_eqb x y | _, _ => false end.

Definition gn_sa_b (n : nat) (t : list Q) : bool :=
  forallb (fun A => forallb (fun B => if disjb A B then Qle_bool (gn_get t A + gn_get t B) (gn_get t (N.lor A B)) else true)
                            (alln n)) (alln n).
Definition gn_mono_b (n : nat) (t : list Q) : bool :=
  forallb (fun B => forallb (fun A => if sub A B then Qle_bool (gn_get t B) (gn_get t A) else true) (alln n)) (alln n).

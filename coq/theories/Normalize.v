(* Normalize: executable model of incomplete_cooperative/normalize.py (+ the part of graph_game.py it uses).

   normalize_game(game):
     norm_info = _get_norminfo(game)         -- computed BEFORE the game is touched
     _normalize_icg(game) | _normalize_graph_game(game)
     return norm_info

   _normalize_icg is modelled loop for loop on the (known, lower, upper) table of Table.v:
     for each player i in order:
        sv := game.get_value({i})            -- read once, at that moment (lower column; ValueError if unknown)
        for each coalition c containing i, in id order:
            game.set_value(game.get_value(c) - sv, c)     -- reads lower, writes lower := upper := x, known := 1
     g := game.get_value(N)
     if not g: return
     upper_bounds /= g ; lower_bounds /= g   -- BOTH columns of EVERY row (known or not), in place

   A Python exception (ValueError of get_value / get_values, IndexError of singleton_values[i]) is [None].
   Every cell write stores [Qred x].  All names carry the prefix nz_. *)
From ICG Require Import Prelude Bits Table Bounds GameOps.

(* ---------- option-fold over coalitions; one step rewrites the cell of the visited coalition ---------- *)
Fixpoint nz_ofold (f : table -> N -> option table) (t : table) (l : list N) : option table :=
  match l with
  | [] => Some t
  | c :: r => match f t c with Some t' => nz_ofold f t' r | None => None end
  end.

(* game.set_value(h(game.get_value(c)), c) *)
Definition nz_cell (h : N -> Q -> option Q) (t : table) (c : N) : option table :=
  match get_value t c with
  | None => None
  | Some x => match h c x with
              | None => None
              | Some y => Some (set_value t c (Qred y))
              end
  end.

(* ---------- _get_norminfo ---------- *)
Definition nz_singles (n : nat) : list N := map single (seq 0 n).

Definition nz_norminfo (n : nat) (t : table) : option (Q * list Q) :=
  match get_values_of t (nz_singles n) with        (* game.get_values(singletons): upper column, all must be known *)
  | None => None
  | Some sv =>
    match get_value t (grand n) with               (* game.get_value(grand): lower column *)
    | None => None
    | Some gv => Some (Qred (gv - qsum sv), sv)
    end
  end.

(* ---------- _normalize_icg ---------- *)
Definition nz_with (n i : nat) : list N := filter (fun c => tb c i) (alln n).   (* filter(lambda x: x & singleton, all_coalitions) *)

Definition nz_player (n : nat) (t : table) (i : nat) : option table :=
  match get_value t (single i) with
  | None => None
  | Some sv => nz_ofold (nz_cell (fun _ x => Some (x - sv))) t (nz_with n i)
  end.

Fixpoint nz_players (n : nat) (t : table) (ps : list nat) : option table :=
  match ps with
  | [] => Some t
  | i :: r => match nz_player n t i with Some t' => nz_players n t' r | None => None end
  end.

(* the state just before the division *)
Definition nz_subtract (n : nat) (t : table) : option table := nz_players n t (seq 0 n).

Definition nz_div_row (g : Q) (r : row) : row := mkrow (known r) (Qred (lo r / g)) (Qred (hi r / g)).

Definition nz_divide (n : nat) (t : table) (g : Q) : table :=
  fold_left (fun t' c => set t' c (nz_div_row g (get t c))) (alln n) t.

Definition nz_icg (n : nat) (t : table) : option table :=
  match nz_subtract n t with
  | None => None
  | Some t1 =>
    match get_value t1 (grand n) with
    | None => None
    | Some g => if Qeq_bool g 0 then Some t1 else Some (nz_divide n t1 g)
    end
  end.

Definition nz_normalize_icg (n : nat) (t : table) : option (table * (Q * list Q)) :=
  match nz_norminfo n t with
  | None => None
  | Some info => match nz_icg n t with
                 | None => None
                 | Some t' => Some (t', info)
                 end
  end.

(* ---------- denormalize_game (table) ---------- *)
Fixpoint nz_add_singles (sv : list Q) (ps : list nat) (x : Q) : option Q :=
  match ps with
  | [] => Some x
  | i :: r => match nth_error sv i with          (* singleton_values[i]; IndexError if too short *)
              | Some s => nz_add_singles sv r (x + s)
              | None => None
              end
  end.

Definition nz_denormalize (n : nat) (t : table) (info : Q * list Q) : option table :=
  nz_ofold (nz_cell (fun c x => nz_add_singles (snd info) (players n c) (x * fst info))) t (alln n).

(* ---------- graph games ---------- *)
Definition nz_mat := list (list Q).
Definition nz_w (W : nz_mat) (i j : nat) : Q := nth j (nth i W []) 0.
Definition nz_build (n : nat) (f : nat -> nat -> Q) : nz_mat :=
  map (fun i => map (fun j => f i j) (seq 0 n)) (seq 0 n).

(* itertools.combinations(players, 2) *)
Fixpoint nz_pairs (l : list nat) : list (nat * nat) :=
  match l with
  | [] => []
  | i :: r => map (fun j => (i, j)) r ++ nz_pairs r
  end.

(* GraphCooperativeGame.get_value ; also the tabulated form of the graph game *)
Definition nz_tabulate (n : nat) (W : nz_mat) (c : N) : Q :=
  qsum (map (fun p => nz_w W (fst p) (snd p)) (nz_pairs (players n c))).

(* the constructor's _polish_graph_matrix *)
Definition nz_polish (n : nat) (W : nz_mat) : nz_mat :=
  nz_build n (fun i j => if (j <=? i)%nat then 0 else nz_w W i j).

Definition nz_graph_norminfo (n : nat) (W : nz_mat) : Q * list Q :=
  let sv := map (fun i => nz_tabulate n W (single i)) (seq 0 n) in
  (Qred (nz_tabulate n W (grand n) - qsum sv), sv).

(* _normalize_graph_game: nothing at all when the grand value is 0; else zero j<=i, divide everything *)
Definition nz_normalize_graph (n : nat) (W : nz_mat) : nz_mat :=
  let g := nz_tabulate n W (grand n) in
  if Qeq_bool g 0 then W
  else nz_build n (fun i j => if (j <=? i)%nat then 0 else Qred (nz_w W i j / g)).

Definition nz_denormalize_graph (n : nat) (W : nz_mat) (info : Q * list Q) : nz_mat :=
  nz_build n (fun i j => Qred (nz_w W i j * fst info)).

(* a full table from a value function (to_incomplete of the tests; used by examples and the driver) *)
Definition nz_table_of (n : nat) (f : N -> Q) : table :=
  of_fun (alln n) (fun c => krow (Qred (f c))).

(* ---------- specification-level functions (what the theorems say the loops compute) ---------- *)
(* sum of the singleton values of the players of c among the first k players *)
Definition nz_ssum (g : N -> Q) (k : nat) (c : N) : Q :=
  qsum (map (fun i => g (single i)) (filter (tb c) (seq 0 k))).
Definition nz_excess (n : nat) (g : N -> Q) (c : N) : Q := g c - nz_ssum g n c.
Definition nz_surplus (n : nat) (g : N -> Q) : Q := nz_excess n g (grand n).
Definition nz_normal (n : nat) (g : N -> Q) (c : N) : Q :=
  if Qeq_bool (nz_surplus n g) 0 then nz_excess n g c else nz_excess n g c / nz_surplus n g.

(* ---------- the notions the theorems are stated with ---------- *)
(* superadditivity on the coalitions of n players (the same definition the other slices use) *)
Definition nz_SA (n : nat) (v : N -> Q) : Prop :=
  forall A B, bounded n A -> bounded n B -> disjb A B = true -> v A + v B <= v (N.lor A B).

(* the table t is a full game whose value function is g (values up to ==; both columns, every row known) *)
Definition nz_game (n : nat) (t : table) (g : N -> Q) : Prop :=
  forall c, bounded n c -> known (get t c) = true /\ lo (get t c) == g c /\ hi (get t c) == g c.

(* executable superadditivity test on the 2^n x 2^n pairs (used by the Examples; sound by nz_SAb_sound) *)
Definition nz_SAb (n : nat) (v : N -> Q) : bool :=
  forallb (fun A => forallb (fun B => if disjb A B then Qle_bool (v A + v B) (v (N.lor A B)) else true) (alln n)) (alln n).

(* superadditivity up to an absolute slack (what a float game that is additive "up to rounding" satisfies) *)
Definition nz_SA_tol (n : nat) (tol : Q) (v : N -> Q) : Prop :=
  forall A B, bounded n A -> bounded n B -> disjb A B = true -> v A + v B <= v (N.lor A B) + tol.
Definition nz_SAb_tol (n : nat) (tol : Q) (v : N -> Q) : bool :=
  forallb (fun A => forallb (fun B => if disjb A B then Qle_bool (v A + v B) (v (N.lor A B) + tol) else true) (alln n)) (alln n).

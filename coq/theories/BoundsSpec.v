(* BoundsSpec: the fixpoint characterisation of the two superadditive computers
   (what the tables satisfy after a run), derived from FoldLemmas. *)
From ICG Require Import Prelude Bits Table Bounds FoldLemmas.

(* cell functions on columns *)
Definition lowerF (n : nat) (l : N -> Q) (s : N) : Q :=
  qmaxl (map (fun a => l a + l (N.lxor s a)) (splits n s)).
Definition upperF (n : nat) (K : N -> bool) (l : N -> Q) (s : N) : Q :=
  qminl (map (fun T => l T - l (N.lxor s T)) (filter K (supers n s))).

Lemma filter_ext_in' {A} (f g : A -> bool) l : (forall x, In x l -> f x = g x) -> filter f l = filter g l.
Proof.
  induction l as [|x l IH]; intros H; simpl; [reflexivity|].
  rewrite (H x) by (left; reflexivity). rewrite IH; [reflexivity|]. intros y Hy. apply H. right. exact Hy.
Qed.

Lemma in_splits_size n a s : bounded n s -> In a (splits n s) ->
  (size n a < size n s)%nat /\ (size n (N.lxor s a) < size n s)%nat /\ bounded n a /\ bounded n (N.lxor s a)
  /\ sub a s = true /\ a <> 0%N /\ N.lxor s a = N.ldiff s a.
Proof.
  intros Hb Ha. apply in_splits in Ha. destruct Ha as [Hba [Hss Hne]].
  pose proof (ssub_sub _ _ Hss) as Hsub.
  rewrite (lxor_ldiff a s Hsub).
  split; [apply ssub_size; auto|]. split; [apply ssub_size; auto; apply ldiff_ssub; auto|].
  split; [exact Hba|]. split; [apply bounded_ldiff; exact Hb|]. auto.
Qed.

Lemma lowerF_local n l1 l2 s : bounded n s ->
  (forall a, bounded n a -> (size n a < size n s)%nat -> l1 a = l2 a) -> lowerF n l1 s = lowerF n l2 s.
Proof.
  intros Hb H. unfold lowerF. f_equal. apply map_ext_in. intros a Ha.
  destruct (in_splits_size n a s Hb Ha) as [H1 [H2 [H3 [H4 _]]]]. rewrite !H; auto.
Qed.

Lemma upperF_ext n K1 K2 l1 l2 s :
  (forall a, K1 a = K2 a) -> (forall a, l1 a = l2 a) -> upperF n K1 l1 s = upperF n K2 l2 s.
Proof.
  intros HK Hl. unfold upperF. rewrite (filter_ext_in' K1 K2) by (intros; apply HK).
  f_equal. apply map_ext. intros T. rewrite !Hl. reflexivity.
Qed.

Lemma in_unknown_ids n t s : In s (unknown_ids n t) <-> bounded n s /\ Kn t s = false.
Proof. unfold unknown_ids, Kn. rewrite filter_In, in_alln, negb_true_iff. tauto. Qed.
Lemma in_unknown_sorted n t s : In s (unknown_sorted n t) <-> bounded n s /\ Kn t s = false.
Proof. unfold unknown_sorted. rewrite in_by_size. apply in_unknown_ids. Qed.
Lemma NoDup_unknown_ids n t : NoDup (unknown_ids n t).
Proof. apply NoDup_filter. apply NoDup_alln. Qed.
Lemma NoDup_unknown_sorted n t : NoDup (unknown_sorted n t).
Proof. apply NoDup_by_size. apply NoDup_unknown_ids. Qed.

(* what a run of the cached computer leaves in the table *)
Record sa_post (n : nat) (t t' : table) : Prop := {
  post_Kn : forall s, Kn t' s = Kn t s;
  post_frame : forall s, ~ (bounded n s /\ Kn t s = false) -> get t' s = get t s;
  post_lo : forall s, bounded n s -> Kn t s = false -> L t' s = Qred (lowerF n (L t') s);
  post_hi : forall s, bounded n s -> Kn t s = false -> U t' s = Qred (upperF n (Kn t) (L t') s)
}.

Lemma sa_cached_run_post n t : sa_post n t (sa_cached_run n t).
Proof.
  unfold sa_cached_run.
  set (us := unknown_sorted n t).
  change (fold_left (cached_lower_step n) us t) with (fold_left (lo_step (lowerF n)) us t).
  set (t1 := fold_left (lo_step (lowerF n)) us t).
  change (fold_left (cached_upper_step n) us t1)
    with (fold_left (hi_step (fun t s => upperF n (Kn t) (L t) s)) us t1).
  set (G := fun t s => upperF n (Kn t) (L t) s).
  set (t2 := fold_left (hi_step G) us t1).
  destruct (lo_fold_frame (lowerF n) us t) as [A1 [A2 A3]]. fold t1 in A1, A2, A3.
  destruct (hi_fold_frame G us t1) as [B1 [B2 B3]]. fold t2 in B1, B2, B3.
  assert (Hseq : forall s, In s us -> L t1 s = Qred (lowerF n (L t1) s)).
  { apply (lo_fold_seq n (lowerF n)).
    - intros l1 l2 s Hs H. apply in_unknown_sorted in Hs. apply lowerF_local; [tauto|]. intros a _ Ha. apply H. exact Ha.
    - apply NoDup_unknown_sorted.
    - apply szsorted_by_size. }
  assert (Hpar : forall s, In s us -> U t2 s = Qred (G t1 s)).
  { apply (hi_fold_par G); [| apply NoDup_unknown_sorted].
    intros ta s H. unfold G. apply upperF_ext; intros a; destruct (H a) as [H1 [H2 _]]; auto. }
  constructor.
  - intros s. rewrite B3, A3. reflexivity.
  - intros s Hs. assert (Hn : ~ In s us) by (unfold us; rewrite in_unknown_sorted; exact Hs).
    apply get_eq.
    + rewrite B3, A3. reflexivity.
    + rewrite B2, A1 by exact Hn. reflexivity.
    + rewrite B1, A2 by exact Hn. reflexivity.
  - intros s Hb Hk. assert (Hin : In s us) by (unfold us; rewrite in_unknown_sorted; auto).
    rewrite B2, (Hseq s Hin). f_equal. apply lowerF_local; auto.
  - intros s Hb Hk. assert (Hin : In s us) by (unfold us; rewrite in_unknown_sorted; auto).
    rewrite (Hpar s Hin). f_equal. unfold G. apply upperF_ext; intros a; [apply A3| symmetry; apply B2].
Qed.

(* the reference computer leaves the same kind of table, with ldiff complements and
   values of known supersets read from the upper column *)
Definition upperF_ref (n : nat) (K : N -> bool) (l u : N -> Q) (s : N) : Q :=
  qminl (map (fun T => u T - l (N.ldiff T s)) (filter K (supers n s))).

Lemma ref_lower_step_eq n t s : bounded n s -> ref_lower_step n t s = cached_lower_step n t s.
Proof.
  intros Hb. unfold ref_lower_step, cached_lower_step, ref_lower_cell, cached_lower_cell.
  do 3 f_equal. apply map_ext_in. intros a Ha.
  destruct (in_splits_size n a s Hb Ha) as [_ [_ [_ [_ [_ [_ E]]]]]]. rewrite E. reflexivity.
Qed.

Lemma fold_left_ext_in {A B} (f g : A -> B -> A) l a :
  (forall a b, In b l -> f a b = g a b) -> fold_left f l a = fold_left g l a.
Proof.
  revert a. induction l as [|b l IH]; intros a H; simpl; [reflexivity|].
  rewrite H by (left; reflexivity). apply IH. intros a' b' Hb'. apply H. right. exact Hb'.
Qed.

Record sa_post_ref (n : nat) (t t' : table) : Prop := {
  rpost_Kn : forall s, Kn t' s = Kn t s;
  rpost_frame : forall s, ~ (bounded n s /\ Kn t s = false) -> get t' s = get t s;
  rpost_lo : forall s, bounded n s -> Kn t s = false -> L t' s = Qred (lowerF n (L t') s);
  rpost_hi : forall s, bounded n s -> Kn t s = false -> U t' s = Qred (upperF_ref n (Kn t) (L t') (U t) s)
}.

Lemma in_supers_known_frame n t s T :
  In T (filter (Kn t) (supers n s)) -> Kn t T = true.
Proof. rewrite filter_In. tauto. Qed.

Lemma sa_ref_run_post n t : sa_post_ref n t (sa_ref_run n t).
Proof.
  unfold sa_ref_run.
  set (us := unknown_sorted n t).
  assert (E1 : fold_left (ref_lower_step n) us t = fold_left (lo_step (lowerF n)) us t).
  { apply fold_left_ext_in. intros a b Hb. unfold us in Hb. apply in_unknown_sorted in Hb.
    rewrite ref_lower_step_eq by tauto. reflexivity. }
  rewrite E1. set (t1 := fold_left (lo_step (lowerF n)) us t).
  set (G := fun t s => upperF_ref n (Kn t) (L t) (U t) s).
  change (fold_left (ref_upper_step n) (unknown_ids n t) t1)
    with (fold_left (hi_step G) (unknown_ids n t) t1).
  set (ui := unknown_ids n t).
  set (t2 := fold_left (hi_step G) ui t1).
  destruct (lo_fold_frame (lowerF n) us t) as [A1 [A2 A3]]. fold t1 in A1, A2, A3.
  destruct (hi_fold_frame G ui t1) as [B1 [B2 B3]]. fold t2 in B1, B2, B3.
  assert (Hseq : forall s, In s us -> L t1 s = Qred (lowerF n (L t1) s)).
  { apply (lo_fold_seq n (lowerF n)).
    - intros l1 l2 s Hs H. apply in_unknown_sorted in Hs. apply lowerF_local; [tauto|]. intros a _ Ha. apply H. exact Ha.
    - apply NoDup_unknown_sorted.
    - apply szsorted_by_size. }
  assert (Hpar : forall s, In s ui -> U t2 s = Qred (G t1 s)).
  { apply (hi_fold_par G); [| apply NoDup_unknown_ids].
    intros ta s H. unfold G, upperF_ref.
    rewrite (filter_ext_in' (Kn ta) (Kn t1)) by (intros x _; destruct (H x) as [_ [H2 _]]; exact H2).
    f_equal. apply map_ext_in. intros T HT.
    destruct (H T) as [_ [HK HU]]. destruct (H (N.ldiff T s)) as [HL _]. rewrite HL. f_equal.
    apply HU. unfold ui. rewrite in_unknown_ids. intros [_ Hf].
    apply in_supers_known_frame in HT. rewrite A3 in HT. congruence. }
  constructor.
  - intros s. rewrite B3, A3. reflexivity.
  - intros s Hs.
    assert (Hn : ~ In s us) by (unfold us; rewrite in_unknown_sorted; exact Hs).
    assert (Hn' : ~ In s ui) by (unfold ui; rewrite in_unknown_ids; exact Hs).
    apply get_eq.
    + rewrite B3, A3. reflexivity.
    + rewrite B2, A1 by exact Hn. reflexivity.
    + rewrite B1, A2 by exact Hn'. reflexivity.
  - intros s Hb Hk. assert (Hin : In s us) by (unfold us; rewrite in_unknown_sorted; auto).
    rewrite B2, (Hseq s Hin). f_equal. apply lowerF_local; auto.
  - intros s Hb Hk. assert (Hin : In s ui) by (unfold ui; rewrite in_unknown_ids; auto).
    rewrite (Hpar s Hin). f_equal. unfold G, upperF_ref.
    rewrite (filter_ext_in' (Kn t1) (Kn t)) by (intros; apply A3).
    apply f_equal. apply map_ext. intros T. rewrite A2, B2. reflexivity.
Qed.

(* NormalizeProofs: theorems about the model of normalize.py (Normalize.v). *)
From ICG Require Import Prelude Bits Table Bounds GameOps Normalize.

(* ================================================================== *)
(* 1. generic facts about the two loop shapes                          *)
(* ================================================================== *)

Lemma nz_get_value_known t c : known (get t c) = true -> get_value t c = Some (lo (get t c)).
Proof. unfold get_value. intros ->. reflexivity. Qed.

(* an option-fold of cell rewrites over a duplicate-free list rewrites each listed cell once,
   from the value it had at the start, and touches nothing else *)
Lemma nz_ofold_cell h l : NoDup l -> forall t,
  (forall c, In c l -> known (get t c) = true /\ h c (lo (get t c)) <> None) ->
  exists t', nz_ofold (nz_cell h) t l = Some t' /\
    (forall c, In c l -> exists y, h c (lo (get t c)) = Some y /\ get t' c = krow (Qred y)) /\
    (forall c, ~ In c l -> get t' c = get t c).
Proof.
  induction 1 as [|a r Ha Hnd IH]; intros t Hok.
  - exists t. simpl. repeat split; auto. intros c [].
  - destruct (Hok a (or_introl eq_refl)) as [Hk Hh].
    destruct (h a (lo (get t a))) as [y|] eqn:Ey; [|congruence].
    set (t1 := set_value t a (Qred y)).
    assert (Hsame : forall c, c <> a -> get t1 c = get t c).
    { intros c Hc. unfold t1, set_value. apply gso. exact Hc. }
    destruct (IH t1) as [t' [Hrun [Hin Hout]]].
    { intros c Hc. assert (c <> a) by (intro; subst; contradiction).
      rewrite Hsame by assumption. apply Hok. right. exact Hc. }
    exists t'. split; [|split].
    + cbn [nz_ofold]. unfold nz_cell at 1. rewrite (nz_get_value_known _ _ Hk), Ey. exact Hrun.
    + intros c [<-|Hc].
      * exists y. split; [exact Ey|]. rewrite Hout by exact Ha. unfold t1, set_value. apply gss.
      * assert (c <> a) by (intro; subst; contradiction).
        destruct (Hin c Hc) as [y' [E1 E2]]. exists y'. rewrite Hsame in E1 by assumption. split; assumption.
    + intros c Hc. assert (c <> a) by (intro; subst; apply Hc; left; reflexivity).
      rewrite Hout, Hsame; auto. intro; apply Hc; right; assumption.
Qed.

Lemma nz_fold_set (F : N -> row) l t0 c :
  get (fold_left (fun t' c => set t' c (F c)) l t0) c = if in_dec N.eq_dec c l then F c else get t0 c.
Proof.
  revert t0. induction l as [|x l IH]; intros t0; simpl; [reflexivity|].
  rewrite IH. destruct (in_dec N.eq_dec c l) as [Hin|Hnin].
  - destruct (N.eq_dec x c); reflexivity.
  - destruct (N.eq_dec x c) as [->|Hne]; [apply gss| apply gso; congruence].
Qed.

Lemma nz_filter_all {A} (f : A -> bool) l : (forall x, In x l -> f x = true) -> filter f l = l.
Proof.
  induction l as [|x l IH]; intros H; simpl; [reflexivity|].
  rewrite (H x) by (left; reflexivity). f_equal. apply IH. intros y Hy. apply H. right. exact Hy.
Qed.

Lemma nz_filter_none {A} (f : A -> bool) l : (forall x, In x l -> f x = false) -> filter f l = [].
Proof.
  induction l as [|x l IH]; intros H; simpl; [reflexivity|].
  rewrite (H x) by (left; reflexivity). apply IH. intros y Hy. apply H. right. exact Hy.
Qed.

Lemma nz_Qeq_bool_0 x y : x == y -> Qeq_bool x 0 = Qeq_bool y 0.
Proof.
  intros E. destruct (Qeq_bool y 0) eqn:Hy.
  - apply Qeq_bool_iff. apply Qeq_bool_iff in Hy. rewrite E. exact Hy.
  - destruct (Qeq_bool x 0) eqn:Hx; [|reflexivity].
    apply Qeq_bool_iff in Hx. rewrite E in Hx. apply Qeq_bool_iff in Hx. congruence.
Qed.

(* ================================================================== *)
(* 2. the partial singleton sums                                       *)
(* ================================================================== *)

Lemma nz_ssum_0 g c : nz_ssum g 0 c = 0.
Proof. reflexivity. Qed.

Lemma nz_ssum_S g k c :
  nz_ssum g (S k) c == nz_ssum g k c + (if tb c k then g (single k) else 0).
Proof.
  unfold nz_ssum. rewrite seq_S, filter_app, map_app, qsum_app. cbn [filter plus].
  destruct (tb c k); simpl; ring.
Qed.

Lemma nz_ssum_empty g k : nz_ssum g k 0%N == 0.
Proof.
  induction k as [|k IH]; [reflexivity|]. rewrite nz_ssum_S, IH, tb_0. ring.
Qed.

Lemma nz_ssum_single g k i : nz_ssum g k (single i) == if (i <? k)%nat then g (single i) else 0.
Proof.
  induction k as [|k IH]; [reflexivity|].
  rewrite nz_ssum_S, IH, tb_single.
  destruct (Nat.eqb_spec i k) as [->|Hne].
  - rewrite Nat.ltb_irrefl. replace (k <? S k)%nat with true by (symmetry; apply Nat.ltb_lt; lia). ring.
  - destruct (Nat.ltb_spec i k) as [H|H].
    + replace (i <? S k)%nat with true by (symmetry; apply Nat.ltb_lt; lia). ring.
    + replace (i <? S k)%nat with false by (symmetry; apply Nat.ltb_ge; lia). ring.
Qed.

Lemma nz_ssum_lor g k A B : disjb A B = true ->
  nz_ssum g k (N.lor A B) == nz_ssum g k A + nz_ssum g k B.
Proof.
  intros Hd. rewrite disjb_spec in Hd. induction k as [|k IH]; [reflexivity|].
  rewrite !nz_ssum_S, IH, tb_lor.
  destruct (tb A k) eqn:Ea.
  - rewrite (Hd k Ea). simpl. ring.
  - simpl. destruct (tb B k); ring.
Qed.

Lemma nz_ssum_grand g n :
  nz_ssum g n (grand n) = qsum (map (fun i => g (single i)) (seq 0 n)).
Proof.
  unfold nz_ssum. rewrite nz_filter_all; [reflexivity|].
  intros i Hi. apply in_seq in Hi. rewrite tb_grand. apply Nat.ltb_lt. lia.
Qed.

Lemma nz_ssum_ext g h k c : (forall i, (i < k)%nat -> g (single i) == h i) ->
  nz_ssum g k c == qsum (map h (filter (tb c) (seq 0 k))).
Proof.
  intros H. unfold nz_ssum. apply qsum_map_ext. intros i Hi. apply filter_In in Hi.
  destruct Hi as [Hi _]. apply in_seq in Hi. apply H. lia.
Qed.

(* ================================================================== *)
(* 3. norm_formula: the player loop                                    *)
(* ================================================================== *)

(* invariant after the first k players *)
Definition nz_inv (n : nat) (g : N -> Q) (k : nat) (t : table) : Prop :=
  nz_game n t (fun c => g c - nz_ssum g k c).

Lemma nz_player_step n g k t : (k < n)%nat -> nz_inv n g k t ->
  exists t', nz_player n t k = Some t' /\ nz_inv n g (S k) t'.
Proof.
  intros Hk Hinv.
  destruct (Hinv (single k) (bounded_single n k Hk)) as [Hkn [Hlo _]].
  assert (Hsv : lo (get t (single k)) == g (single k)).
  { rewrite Hlo, nz_ssum_single, Nat.ltb_irrefl. ring. }
  unfold nz_player. rewrite (nz_get_value_known _ _ Hkn).
  set (sv := lo (get t (single k))) in *.
  destruct (nz_ofold_cell (fun _ x => Some (x - sv)) (nz_with n k)) with (t := t) as [t' [Hrun [Hin Hout]]].
  - unfold nz_with. apply NoDup_filter. apply NoDup_alln.
  - intros c Hc. unfold nz_with in Hc. apply filter_In in Hc. destruct Hc as [Hc _]. apply in_alln in Hc.
    split; [apply (Hinv c Hc)| discriminate].
  - exists t'. split; [exact Hrun|].
    intros c Hb. destruct (Hinv c Hb) as [Hck [Hcl Hch]].
    destruct (tb c k) eqn:Etb.
    + assert (Hc : In c (nz_with n k)).
      { unfold nz_with. apply filter_In. split; [apply in_alln; exact Hb| exact Etb]. }
      destruct (Hin c Hc) as [y [Ey Eg]]. injection Ey as <-. rewrite Eg. cbn [known lo hi krow].
      assert (E : Qred (lo (get t c) - sv) == g c - nz_ssum g (S k) c).
      { rewrite Qred_correct, Hcl, Hsv, nz_ssum_S, Etb. ring. }
      repeat split; auto.
    + assert (Hc : ~ In c (nz_with n k)).
      { unfold nz_with. rewrite filter_In. intros [_ H]. congruence. }
      rewrite (Hout c Hc).
      assert (E : nz_ssum g (S k) c == nz_ssum g k c) by (rewrite nz_ssum_S, Etb; ring).
      repeat split; auto; [rewrite Hcl| rewrite Hch]; rewrite E; reflexivity.
Qed.

Lemma nz_players_loop n g m : forall k t, (k + m <= n)%nat -> nz_inv n g k t ->
  exists t', nz_players n t (seq k m) = Some t' /\ nz_inv n g (k + m) t'.
Proof.
  induction m as [|m IH]; intros k t Hkm Hinv.
  - exists t. rewrite Nat.add_0_r. split; [reflexivity| exact Hinv].
  - cbn [seq nz_players].
    destruct (nz_player_step n g k t) as [t1 [E1 H1]]; [lia| exact Hinv|].
    rewrite E1. destruct (IH (S k) t1) as [t' [E2 H2]]; [lia| exact H1|].
    exists t'. split; [exact E2|]. replace (k + S m)%nat with (S k + m)%nat by lia. exact H2.
Qed.

(* norm_formula: just before the division every coalition has lost exactly the original
   singleton values of its players (for every n and every full table, superadditive or not) *)
Theorem nz_norm_formula n t g : nz_game n t g ->
  exists t1, nz_subtract n t = Some t1 /\ nz_game n t1 (nz_excess n g).
Proof.
  intros Hg. unfold nz_subtract.
  destruct (nz_players_loop n g n 0 t) as [t1 [E H]]; [lia| |].
  - intros c Hb. destruct (Hg c Hb) as [H1 [H2 H3]]. rewrite nz_ssum_0.
    repeat split; auto; [rewrite H2| rewrite H3]; ring.
  - exists t1. split; [exact E|]. exact H.
Qed.

(* ================================================================== *)
(* 4. the division, the norm info, the whole of normalize_game          *)
(* ================================================================== *)

Lemma nz_divide_get n t g0 c : bounded n c -> get (nz_divide n t g0) c = nz_div_row g0 (get t c).
Proof.
  intros Hb. unfold nz_divide. rewrite (nz_fold_set (fun c => nz_div_row g0 (get t c))).
  destruct (in_dec N.eq_dec c (alln n)) as [_|H]; [reflexivity|]. exfalso. apply H. apply in_alln. exact Hb.
Qed.

Lemma nz_icg_spec n t g : nz_game n t g ->
  exists t', nz_icg n t = Some t' /\ nz_game n t' (nz_normal n g).
Proof.
  intros Hg. destruct (nz_norm_formula n t g Hg) as [t1 [E1 H1]].
  unfold nz_icg. rewrite E1.
  destruct (H1 (grand n) (bounded_grand n)) as [Hk [Hl _]].
  rewrite (nz_get_value_known _ _ Hk).
  fold (nz_surplus n g) in Hl.
  set (g1 := lo (get t1 (grand n))) in *.
  rewrite (nz_Qeq_bool_0 _ _ Hl).
  unfold nz_normal.
  destruct (Qeq_bool (nz_surplus n g) 0) eqn:Ez.
  - exists t1. split; [reflexivity| exact H1].
  - exists (nz_divide n t1 g1). split; [reflexivity|].
    intros c Hb. rewrite (nz_divide_get n t1 g1 c Hb). destruct (H1 c Hb) as [Hck [Hcl Hch]].
    unfold nz_div_row. cbn [known lo hi]. repeat split; auto.
    + rewrite Qred_correct, Hcl, Hl. reflexivity.
    + rewrite Qred_correct, Hch, Hl. reflexivity.
Qed.

Lemma nz_norminfo_spec n t g : nz_game n t g ->
  exists s sv, nz_norminfo n t = Some (s, sv) /\ s == nz_surplus n g /\
               length sv = n /\ forall i, (i < n)%nat -> nth i sv 0 == g (single i).
Proof.
  intros Hg. unfold nz_norminfo, get_values_of.
  assert (Hall : forallb (fun s => known (get t s)) (nz_singles n) = true).
  { apply forallb_forall. intros c Hc. unfold nz_singles in Hc. apply in_map_iff in Hc.
    destruct Hc as [i [<- Hi]]. apply in_seq in Hi. apply (Hg (single i)). apply bounded_single. lia. }
  rewrite Hall.
  destruct (Hg (grand n) (bounded_grand n)) as [Hk [Hl _]].
  rewrite (nz_get_value_known _ _ Hk).
  set (sv := map (fun s => hi (get t s)) (nz_singles n)).
  exists (Qred (lo (get t (grand n)) - qsum sv)), sv. split; [reflexivity|].
  assert (Hnth : forall i, (i < n)%nat -> nth i sv 0 == g (single i)).
  { intros i Hi. unfold sv, nz_singles. rewrite map_map.
    rewrite (nth_indep _ 0 (hi (get t (single 0)))) by (rewrite map_length, seq_length; exact Hi).
    rewrite (map_nth (fun x => hi (get t (single x)))), seq_nth by exact Hi. simpl.
    apply (Hg (single i)). apply bounded_single. exact Hi. }
  split; [|split].
  - rewrite Qred_correct, Hl. unfold nz_surplus, nz_excess. rewrite nz_ssum_grand.
    assert (E : qsum sv == qsum (map (fun i => g (single i)) (seq 0 n))).
    { unfold sv, nz_singles. rewrite map_map. apply qsum_map_ext. intros i Hi. apply in_seq in Hi.
      apply (Hg (single i)). apply bounded_single. lia. }
    rewrite E. reflexivity.
  - unfold sv, nz_singles. rewrite !map_length, seq_length. reflexivity.
  - exact Hnth.
Qed.

(* everything normalize_game does to a full table, in one statement *)
Theorem nz_normalize_spec n t g : nz_game n t g ->
  exists t' s sv, nz_normalize_icg n t = Some (t', (s, sv)) /\
    s == nz_surplus n g /\ length sv = n /\ (forall i, (i < n)%nat -> nth i sv 0 == g (single i)) /\
    nz_game n t' (nz_normal n g).
Proof.
  intros Hg. destruct (nz_norminfo_spec n t g Hg) as [s [sv [E1 [Hs [Hlen Hsv]]]]].
  destruct (nz_icg_spec n t g Hg) as [t' [E2 Ht']].
  exists t', s, sv. unfold nz_normalize_icg. rewrite E1, E2. auto.
Qed.

(* ================================================================== *)
(* 5. superadditive games: excess is between 0 and the surplus          *)
(* ================================================================== *)

Lemma nz_land_grand_0 c : N.land c (grand 0) = 0%N.
Proof. apply bits_inj_nat. intro i. rewrite tb_land, tb_grand, tb_0. apply andb_false_r. Qed.

Lemma nz_land_grand_n n c : bounded n c -> N.land c (grand n) = c.
Proof. intros Hb. apply sub_grand in Hb. unfold sub in Hb. apply N.eqb_eq in Hb. exact Hb. Qed.

Lemma nz_land_grand_S_false c k : tb c k = false -> N.land c (grand (S k)) = N.land c (grand k).
Proof.
  intros H. apply bits_inj_nat. intro i. rewrite !tb_land, !tb_grand.
  destruct (Nat.eq_dec i k) as [->|Hne]; [rewrite H; reflexivity|].
  f_equal. destruct (Nat.ltb_spec i (S k)); destruct (Nat.ltb_spec i k); auto; lia.
Qed.

Lemma nz_land_grand_S_true c k : tb c k = true ->
  N.land c (grand (S k)) = N.lor (N.land c (grand k)) (single k) /\ disjb (N.land c (grand k)) (single k) = true.
Proof.
  intros H. split.
  - apply bits_inj_nat. intro i. rewrite tb_lor, !tb_land, !tb_grand, tb_single.
    destruct (Nat.eq_dec i k) as [->|Hne].
    + rewrite H, Nat.eqb_refl, Nat.ltb_irrefl. replace (k <? S k)%nat with true by (symmetry; apply Nat.ltb_lt; lia). reflexivity.
    + replace (k =? i)%nat with false by (symmetry; apply Nat.eqb_neq; lia). rewrite orb_false_r.
      f_equal. destruct (Nat.ltb_spec i (S k)); destruct (Nat.ltb_spec i k); auto; lia.
  - apply disjb_spec. intros i Hi. rewrite tb_land, tb_grand in Hi. apply andb_true_iff in Hi.
    destruct Hi as [_ Hi]. apply Nat.ltb_lt in Hi. rewrite tb_single. apply Nat.eqb_neq. lia.
Qed.

(* a superadditive game dominates the sum of its singletons *)
Lemma nz_sa_prefix n g c : nz_SA n g -> g 0%N == 0 -> bounded n c ->
  forall k, (k <= n)%nat -> nz_ssum g k c <= g (N.land c (grand k)).
Proof.
  intros Hsa H0 Hb. induction k as [|k IH]; intros Hk.
  - rewrite nz_land_grand_0, H0, nz_ssum_0. apply Qle_refl.
  - rewrite nz_ssum_S. specialize (IH ltac:(lia)). destruct (tb c k) eqn:E.
    + destruct (nz_land_grand_S_true c k E) as [-> Hd].
      pose proof (Hsa _ _ (bounded_land n c (grand k) Hb) (bounded_single n k ltac:(lia)) Hd). lra.
    + rewrite (nz_land_grand_S_false c k E). lra.
Qed.

Lemma nz_excess_nonneg n g c : nz_SA n g -> g 0%N == 0 -> bounded n c -> 0 <= nz_excess n g c.
Proof.
  intros Hsa H0 Hb. pose proof (nz_sa_prefix n g c Hsa H0 Hb n (le_n n)) as H.
  rewrite (nz_land_grand_n n c Hb) in H. unfold nz_excess. lra.
Qed.

Lemma nz_excess_le_surplus n g c : nz_SA n g -> g 0%N == 0 -> bounded n c ->
  nz_excess n g c <= nz_surplus n g.
Proof.
  intros Hsa H0 Hb. unfold nz_surplus.
  assert (Hs : sub c (grand n) = true) by (apply sub_grand; exact Hb).
  set (d := N.ldiff (grand n) c).
  assert (Hbd : bounded n d) by (apply bounded_ldiff; apply bounded_grand).
  pose proof (disjb_ldiff c (grand n)) as Hdis. fold d in Hdis.
  pose proof (lor_ldiff c (grand n) Hs) as Hlor. fold d in Hlor.
  pose proof (Hsa c d Hb Hbd Hdis) as H1. rewrite Hlor in H1.
  pose proof (nz_excess_nonneg n g d Hsa H0 Hbd) as H2.
  pose proof (nz_ssum_lor g n c d Hdis) as H3. rewrite Hlor in H3.
  unfold nz_excess in *. lra.
Qed.

Lemma nz_surplus_nonneg n g : nz_SA n g -> g 0%N == 0 -> 0 <= nz_surplus n g.
Proof. intros Hsa H0. apply nz_excess_nonneg; auto. apply bounded_grand. Qed.

Lemma nz_excess_single n g i : (i < n)%nat -> nz_excess n g (single i) == 0.
Proof.
  intros Hi. unfold nz_excess. rewrite nz_ssum_single.
  replace (i <? n)%nat with true by (symmetry; apply Nat.ltb_lt; exact Hi). ring.
Qed.

Lemma nz_excess_lor n g A B : disjb A B = true ->
  nz_excess n g (N.lor A B) == nz_excess n g A + nz_excess n g B + (g (N.lor A B) - g A - g B).
Proof. intros Hd. unfold nz_excess. rewrite (nz_ssum_lor g n A B Hd). ring. Qed.

(* norm_additive_iff *)
Theorem nz_norm_additive_iff n g : nz_SA n g -> g 0%N == 0 ->
  (nz_surplus n g == 0 <-> forall c, bounded n c -> g c == nz_ssum g n c).
Proof.
  intros Hsa H0. split.
  - intros Hs c Hb.
    pose proof (nz_excess_nonneg n g c Hsa H0 Hb). pose proof (nz_excess_le_surplus n g c Hsa H0 Hb).
    unfold nz_excess in *. lra.
  - intros H. unfold nz_surplus, nz_excess. rewrite (H (grand n) (bounded_grand n)). ring.
Qed.

(* ================================================================== *)
(* 6. norm_range, norm_preserves_SA on the value function               *)
(* ================================================================== *)

Lemma nz_normal_cases n g :
  (nz_surplus n g == 0 /\ forall c, nz_normal n g c = nz_excess n g c) \/
  (~ nz_surplus n g == 0 /\ forall c, nz_normal n g c = nz_excess n g c / nz_surplus n g).
Proof.
  unfold nz_normal. destruct (Qeq_bool (nz_surplus n g) 0) eqn:E.
  - left. split; [apply Qeq_bool_iff; exact E| reflexivity].
  - right. split; [apply Qeq_bool_neq; exact E| reflexivity].
Qed.

Lemma nz_normal_range n g : nz_SA n g -> g 0%N == 0 ->
  (forall i, (i < n)%nat -> nz_normal n g (single i) == 0) /\
  (forall c, bounded n c -> 0 <= nz_normal n g c <= 1) /\
  (~ nz_surplus n g == 0 -> nz_normal n g (grand n) == 1) /\
  (nz_surplus n g == 0 -> forall c, bounded n c -> nz_normal n g c == 0).
Proof.
  intros Hsa H0.
  pose proof (nz_surplus_nonneg n g Hsa H0) as Hs0.
  destruct (nz_normal_cases n g) as [[Hz Hn]|[Hnz Hn]].
  - (* additive: nothing is divided, every excess is 0 *)
    assert (Hall : forall c, bounded n c -> nz_normal n g c == 0).
    { intros c Hb. rewrite Hn.
      pose proof (nz_excess_nonneg n g c Hsa H0 Hb). pose proof (nz_excess_le_surplus n g c Hsa H0 Hb). lra. }
    split; [|split; [|split]].
    + intros i Hi. apply Hall. apply bounded_single. exact Hi.
    + intros c Hb. rewrite (Hall c Hb). split; lra.
    + intros H. contradiction.
    + intros _. exact Hall.
  - assert (Hpos : 0 < nz_surplus n g).
    { destruct (Qlt_le_dec 0 (nz_surplus n g)) as [H|H]; [exact H|]. exfalso. apply Hnz. lra. }
    split; [|split; [|split]].
    + intros i Hi. rewrite Hn, (nz_excess_single n g i Hi). unfold Qdiv. ring.
    + intros c Hb. rewrite Hn.
      pose proof (nz_excess_nonneg n g c Hsa H0 Hb). pose proof (nz_excess_le_surplus n g c Hsa H0 Hb).
      split.
      * apply Qle_shift_div_l; [exact Hpos| lra].
      * apply Qle_shift_div_r; [exact Hpos| lra].
    + intros _. rewrite Hn. unfold nz_surplus at 1. fold (nz_surplus n g).
      unfold Qdiv. apply Qmult_inv_r. exact Hnz.
    + intros H. contradiction.
Qed.

Lemma nz_normal_SA n g : nz_SA n g -> g 0%N == 0 -> nz_SA n (nz_normal n g).
Proof.
  intros Hsa H0 A B HA HB Hd.
  pose proof (nz_excess_lor n g A B Hd) as E. pose proof (Hsa A B HA HB Hd) as Hab.
  destruct (nz_normal_cases n g) as [[Hz Hn]|[Hnz Hn]]; rewrite !Hn.
  - lra.
  - pose proof (nz_surplus_nonneg n g Hsa H0) as Hs0.
    assert (Hpos : 0 < nz_surplus n g).
    { destruct (Qlt_le_dec 0 (nz_surplus n g)) as [H|H]; [exact H|]. exfalso. apply Hnz. lra. }
    assert (Hinv : 0 <= / nz_surplus n g) by (apply Qlt_le_weak; apply Qinv_lt_0_compat; exact Hpos).
    unfold Qdiv. rewrite <- Qmult_plus_distr_l. apply Qmult_le_compat_r; [lra| exact Hinv].
Qed.

(* ================================================================== *)
(* 7. denormalize_game                                                 *)
(* ================================================================== *)

Lemma nz_add_singles_spec sv ps : (forall i, In i ps -> (i < length sv)%nat) -> forall x,
  exists y, nz_add_singles sv ps x = Some y /\ y == x + qsum (map (fun i => nth i sv 0) ps).
Proof.
  induction ps as [|i r IH]; intros Hlt x.
  - exists x. split; [reflexivity| simpl; ring].
  - cbn [nz_add_singles]. rewrite (nth_error_nth' sv 0) by (apply Hlt; left; reflexivity).
    destruct (IH (fun j Hj => Hlt j (or_intror Hj)) (x + nth i sv 0)) as [y [E1 E2]].
    exists y. split; [exact E1|]. rewrite E2. simpl. ring.
Qed.

Lemma nz_players_lt n c i : In i (players n c) -> (i < n)%nat.
Proof. unfold players. intro H. apply filter_In in H. destruct H as [H _]. apply in_seq in H. lia. Qed.

Lemma nz_denormalize_spec n t f g s sv :
  nz_game n t f -> length sv = n -> (forall i, (i < n)%nat -> nth i sv 0 == g (single i)) ->
  exists t2, nz_denormalize n t (s, sv) = Some t2 /\ nz_game n t2 (fun c => f c * s + nz_ssum g n c).
Proof.
  intros Hf Hlen Hsv. unfold nz_denormalize. cbn [fst snd].
  set (h := fun c x => nz_add_singles sv (players n c) (x * s)).
  assert (Hh : forall c x, exists y, h c x = Some y /\ y == x * s + qsum (map (fun i => nth i sv 0) (players n c))).
  { intros c x. apply nz_add_singles_spec. intros i Hi. rewrite Hlen. eapply nz_players_lt; eauto. }
  destruct (nz_ofold_cell h (alln n) (NoDup_alln n) t) as [t2 [Hrun [Hin _]]].
  - intros c Hc. apply in_alln in Hc. split; [apply (Hf c Hc)|].
    destruct (Hh c (lo (get t c))) as [y [E _]]. congruence.
  - exists t2. split; [exact Hrun|]. intros c Hb.
    destruct (Hin c (proj2 (in_alln n c) Hb)) as [y [Ey Eg]].
    destruct (Hh c (lo (get t c))) as [y' [Ey' Hy']]. rewrite Ey in Ey'. injection Ey' as <-.
    rewrite Eg. cbn [known lo hi krow].
    assert (E : Qred y == f c * s + nz_ssum g n c).
    { rewrite Qred_correct, Hy'. destruct (Hf c Hb) as [_ [-> _]].
      assert (E2 : nz_ssum g n c == qsum (map (fun i => nth i sv 0) (players n c))).
      { unfold players. apply nz_ssum_ext. intros i Hi. symmetry. apply Hsv. exact Hi. }
      rewrite E2. reflexivity. }
    repeat split; auto.
Qed.

Lemma nz_denorm_value n g c : (~ nz_surplus n g == 0 \/ (nz_SA n g /\ g 0%N == 0)) -> bounded n c ->
  nz_normal n g c * nz_surplus n g + nz_ssum g n c == g c.
Proof.
  intros H Hb. destruct (nz_normal_cases n g) as [[Hz Hn]|[Hnz Hn]]; rewrite Hn.
  - destruct H as [H|[Hsa H0]]; [contradiction|].
    pose proof (proj1 (nz_norm_additive_iff n g Hsa H0) Hz c Hb) as Ha.
    unfold nz_excess. rewrite Hz. lra.
  - unfold nz_excess. field. exact Hnz.
Qed.

(* ================================================================== *)
(* 8. the property theorems, on tables                                  *)
(* ================================================================== *)

Theorem nz_norm_range n t g : nz_game n t g -> nz_SA n g -> g 0%N == 0 ->
  exists t' s sv, nz_normalize_icg n t = Some (t', (s, sv)) /\
    (forall c, bounded n c -> known (get t' c) = true /\ hi (get t' c) == lo (get t' c)) /\
    (forall i, (i < n)%nat -> lo (get t' (single i)) == 0) /\
    (forall c, bounded n c -> 0 <= lo (get t' c) <= 1) /\
    (~ s == 0 -> lo (get t' (grand n)) == 1) /\
    (s == 0 -> forall c, bounded n c -> lo (get t' c) == 0).
Proof.
  intros Hg Hsa H0.
  destruct (nz_normalize_spec n t g Hg) as [t' [s [sv [E [Hs [_ [_ Ht']]]]]]].
  destruct (nz_normal_range n g Hsa H0) as [R1 [R2 [R3 R4]]].
  exists t', s, sv. split; [exact E|]. split; [|split; [|split; [|split]]].
  - intros c Hb. destruct (Ht' c Hb) as [Hk [Hl Hh]]. split; [exact Hk| rewrite Hl, Hh; reflexivity].
  - intros i Hi. destruct (Ht' (single i) (bounded_single n i Hi)) as [_ [-> _]]. apply R1. exact Hi.
  - intros c Hb. destruct (Ht' c Hb) as [_ [-> _]]. apply R2. exact Hb.
  - intros Hne. destruct (Ht' (grand n) (bounded_grand n)) as [_ [-> _]]. apply R3. rewrite <- Hs. exact Hne.
  - intros Hz c Hb. destruct (Ht' c Hb) as [_ [-> _]]. apply R4; [rewrite <- Hs; exact Hz| exact Hb].
Qed.

Theorem nz_norm_preserves_SA n t g : nz_game n t g -> nz_SA n g -> g 0%N == 0 ->
  exists t' info, nz_normalize_icg n t = Some (t', info) /\ nz_SA n (fun c => lo (get t' c)).
Proof.
  intros Hg Hsa H0.
  destruct (nz_normalize_spec n t g Hg) as [t' [s [sv [E [_ [_ [_ Ht']]]]]]].
  exists t', (s, sv). split; [exact E|].
  intros A B HA HB Hd. cbv beta.
  destruct (Ht' A HA) as [_ [-> _]]. destruct (Ht' B HB) as [_ [-> _]].
  destruct (Ht' _ (bounded_lor n A B HA HB)) as [_ [-> _]].
  apply (nz_normal_SA n g Hsa H0); assumption.
Qed.

Theorem nz_denorm_norm n t g : nz_game n t g ->
  (~ nz_surplus n g == 0 \/ (nz_SA n g /\ g 0%N == 0)) ->
  exists t' info t2, nz_normalize_icg n t = Some (t', info) /\ nz_denormalize n t' info = Some t2 /\
    nz_game n t2 g.
Proof.
  intros Hg Hc.
  destruct (nz_normalize_spec n t g Hg) as [t' [s [sv [E [Hs [Hlen [Hsv Ht']]]]]]].
  destruct (nz_denormalize_spec n t' (nz_normal n g) g s sv Ht' Hlen Hsv) as [t2 [E2 H2]].
  exists t', (s, sv), t2. split; [exact E|]. split; [exact E2|].
  intros c Hb. destruct (H2 c Hb) as [Hk [Hl Hh]].
  pose proof (nz_denorm_value n g c Hc Hb) as Hv.
  repeat split; auto; [rewrite Hl| rewrite Hh]; rewrite Hs; exact Hv.
Qed.

(* ================================================================== *)
(* 9. graph games                                                      *)
(* ================================================================== *)
From Coq Require Import Sorted.

Lemma nz_nth_map_seq {A} (F : nat -> A) n i d : (i < n)%nat -> nth i (map F (seq 0 n)) d = F i.
Proof.
  intros Hi. rewrite (nth_indep _ d (F 0%nat)) by (rewrite map_length, seq_length; exact Hi).
  rewrite map_nth, seq_nth by exact Hi. reflexivity.
Qed.

Lemma nz_w_build n f i j : (i < n)%nat -> (j < n)%nat -> nz_w (nz_build n f) i j = f i j.
Proof.
  intros Hi Hj. unfold nz_w, nz_build.
  rewrite (nz_nth_map_seq (fun i => map (fun j => f i j) (seq 0 n)) n i [] Hi).
  apply (nz_nth_map_seq (fun j => f i j) n j 0 Hj).
Qed.

Lemma nz_seq_sorted a k : StronglySorted lt (seq a k).
Proof.
  revert a. induction k as [|k IH]; intros a; simpl; constructor; [apply IH|].
  apply Forall_forall. intros x Hx. apply in_seq in Hx. lia.
Qed.

Lemma nz_sorted_filter (f : nat -> bool) l : StronglySorted lt l -> StronglySorted lt (filter f l).
Proof.
  induction 1 as [|a l Hs IH Hall]; simpl; [constructor|].
  destruct (f a); [|exact IH]. constructor; [exact IH|].
  apply Forall_forall. intros x Hx. apply filter_In in Hx. rewrite Forall_forall in Hall. apply Hall. tauto.
Qed.

Lemma nz_pairs_in l : StronglySorted lt l -> forall p, In p (nz_pairs l) ->
  (fst p < snd p)%nat /\ In (fst p) l /\ In (snd p) l.
Proof.
  induction 1 as [|a l Hs IH Hall]; intros p Hp; [destruct Hp|].
  cbn [nz_pairs] in Hp. apply in_app_or in Hp. destruct Hp as [Hp|Hp].
  - apply in_map_iff in Hp. destruct Hp as [j [<- Hj]]. cbn [fst snd].
    rewrite Forall_forall in Hall. split; [apply Hall; exact Hj|]. split; [left; reflexivity| right; exact Hj].
  - destruct (IH p Hp) as [H1 [H2 H3]]. split; [exact H1|]. split; right; assumption.
Qed.

Lemma nz_pairs_players n c p : In p (nz_pairs (players n c)) -> (fst p < snd p)%nat /\ (snd p < n)%nat.
Proof.
  intros Hp. destruct (nz_pairs_in (players n c)) with (p := p) as [H1 [_ H3]]; [|exact Hp|].
  - unfold players. apply nz_sorted_filter. apply nz_seq_sorted.
  - split; [exact H1|]. eapply nz_players_lt; eauto.
Qed.

Lemma nz_tabulate_build n h c :
  nz_tabulate n (nz_build n h) c == qsum (map (fun p => h (fst p) (snd p)) (nz_pairs (players n c))).
Proof.
  unfold nz_tabulate. apply qsum_map_ext. intros p Hp. apply nz_pairs_players in Hp.
  rewrite nz_w_build by lia. reflexivity.
Qed.

Lemma nz_tabulate_single n W i : (i < n)%nat -> nz_tabulate n W (single i) = 0.
Proof.
  intros Hi. unfold nz_tabulate. pose proof (size_single n i Hi) as Hs. unfold size in Hs.
  destruct (players n (single i)) as [|a [|b r]]; try discriminate. reflexivity.
Qed.

Lemma nz_tabulate_ssum n W k c : (k <= n)%nat -> nz_ssum (nz_tabulate n W) k c == 0.
Proof.
  intros Hk. unfold nz_ssum. apply qsum_map_zero. intros i Hi. apply filter_In in Hi. destruct Hi as [Hi _].
  apply in_seq in Hi. rewrite nz_tabulate_single by lia. reflexivity.
Qed.

Lemma nz_table_of_game n f : nz_game n (nz_table_of n f) f.
Proof.
  intros c Hb. unfold nz_table_of. rewrite of_fun_get.
  destruct (in_dec N.eq_dec c (alln n)) as [_|H]; [|exfalso; apply H; apply in_alln; exact Hb].
  cbn [known lo hi krow]. repeat split; auto; apply Qred_correct.
Qed.

(* graph_commutes: tabulate-then-normalise = normalise-then-tabulate, for every weight matrix *)
Theorem nz_graph_commutes n W :
  exists t' info, nz_normalize_icg n (nz_table_of n (nz_tabulate n W)) = Some (t', info) /\
    fst info == fst (nz_graph_norminfo n W) /\
    forall c, bounded n c -> known (get t' c) = true /\
                             lo (get t' c) == nz_tabulate n (nz_normalize_graph n W) c /\
                             hi (get t' c) == nz_tabulate n (nz_normalize_graph n W) c.
Proof.
  set (f := nz_tabulate n W).
  destruct (nz_normalize_spec n (nz_table_of n f) f (nz_table_of_game n f)) as [t' [s [sv [E [Hs [_ [_ Ht']]]]]]].
  assert (Hex : forall c, nz_excess n f c == f c).
  { intros c. unfold nz_excess, f. rewrite nz_tabulate_ssum by lia. ring. }
  assert (Hsur : nz_surplus n f == f (grand n)) by (apply Hex).
  exists t', (s, sv). split; [exact E|]. split.
  - cbn [fst]. rewrite Hs, Hsur. unfold nz_graph_norminfo. cbn [fst]. rewrite Qred_correct.
    assert (E0 : qsum (map (fun i => nz_tabulate n W (single i)) (seq 0 n)) == 0).
    { apply qsum_map_zero. intros i Hi. apply in_seq in Hi. rewrite nz_tabulate_single by lia. reflexivity. }
    rewrite E0. unfold f. ring.
  - assert (Hval : forall c, bounded n c -> nz_normal n f c == nz_tabulate n (nz_normalize_graph n W) c).
    { intros c Hb. unfold nz_normal, nz_normalize_graph. rewrite (nz_Qeq_bool_0 _ _ Hsur). fold f.
      destruct (Qeq_bool (f (grand n)) 0) eqn:Ez.
      - apply Hex.
      - rewrite nz_tabulate_build.
        assert (E1 : qsum (map (fun p => if (snd p <=? fst p)%nat then 0 else Qred (nz_w W (fst p) (snd p) / f (grand n)))
                               (nz_pairs (players n c)))
                     == qsum (map (fun p => / f (grand n) * nz_w W (fst p) (snd p)) (nz_pairs (players n c)))).
        { apply qsum_map_ext. intros p Hp. apply nz_pairs_players in Hp.
          replace (snd p <=? fst p)%nat with false by (symmetry; apply Nat.leb_gt; lia).
          rewrite Qred_correct. unfold Qdiv. ring. }
        rewrite E1, qsum_map_scal, Hex, Hsur. unfold f at 1, nz_tabulate. unfold Qdiv. ring. }
    intros c Hb. destruct (Ht' c Hb) as [Hk [Hl Hh]]. rewrite Hl, Hh, <- (Hval c Hb).
    repeat split; auto; reflexivity.
Qed.


(* ---------- graph round trip ---------- *)
Lemma nz_pairs_complete l : StronglySorted lt l -> forall i j, In i l -> In j l -> (i < j)%nat -> In (i, j) (nz_pairs l).
Proof.
  induction 1 as [|a l Hs IH Hall]; intros i j Hi Hj Hij; [destruct Hi|].
  rewrite Forall_forall in Hall. cbn [nz_pairs]. apply in_or_app.
  destruct Hi as [<-|Hi].
  - left. apply in_map_iff. exists j. split; [reflexivity|]. destruct Hj as [<-|Hj]; [lia| exact Hj].
  - right. destruct Hj as [<-|Hj]; [specialize (Hall i Hi); lia|]. apply IH; assumption.
Qed.

Lemma nz_players_grand n : players n (grand n) = seq 0 n.
Proof.
  unfold players. apply nz_filter_all. intros i Hi. apply in_seq in Hi. rewrite tb_grand. apply Nat.ltb_lt. lia.
Qed.

Lemma nz_graph_zero_entries n W : (forall i j, 0 <= nz_w W i j) -> nz_tabulate n W (grand n) == 0 ->
  forall i j, (i < j)%nat -> (j < n)%nat -> nz_w W i j == 0.
Proof.
  intros Hnn Hz i j Hij Hj. unfold nz_tabulate in Hz. rewrite nz_players_grand in Hz.
  apply (qsum_nonneg_zero (map (fun p => nz_w W (fst p) (snd p)) (nz_pairs (seq 0 n)))).
  - intros x Hx. apply in_map_iff in Hx. destruct Hx as [q [<- _]]. apply Hnn.
  - exact Hz.
  - apply in_map_iff. exists (i, j). split; [reflexivity|].
    apply nz_pairs_complete; [apply nz_seq_sorted| | |exact Hij]; apply in_seq; lia.
Qed.

Theorem nz_graph_denorm_norm n W :
  (~ nz_tabulate n W (grand n) == 0 \/ forall i j, 0 <= nz_w W i j) ->
  forall c, nz_tabulate n (nz_denormalize_graph n (nz_normalize_graph n W) (nz_graph_norminfo n W)) c
            == nz_tabulate n W c.
Proof.
  intros H c. set (gN := nz_tabulate n W (grand n)) in *.
  assert (Hs : fst (nz_graph_norminfo n W) == gN).
  { unfold nz_graph_norminfo. cbn [fst]. rewrite Qred_correct.
    assert (E0 : qsum (map (fun i => nz_tabulate n W (single i)) (seq 0 n)) == 0).
    { apply qsum_map_zero. intros i Hi. apply in_seq in Hi. rewrite nz_tabulate_single by lia. reflexivity. }
    rewrite E0. unfold gN. ring. }
  unfold nz_denormalize_graph. rewrite nz_tabulate_build. unfold nz_tabulate.
  apply qsum_map_ext. intros p Hp. apply nz_pairs_players in Hp. rewrite Qred_correct, Hs.
  unfold nz_normalize_graph. fold gN. destruct (Qeq_bool gN 0) eqn:Ez.
  - apply Qeq_bool_iff in Ez. destruct H as [H|H]; [contradiction|].
    rewrite (nz_graph_zero_entries n W H Ez (fst p) (snd p)) by lia. ring.
  - apply Qeq_bool_neq in Ez. rewrite nz_w_build by lia.
    replace (snd p <=? fst p)%nat with false by (symmetry; apply Nat.leb_gt; lia).
    rewrite Qred_correct. field. exact Ez.
Qed.

(* a graph game with non-negative weights is superadditive (so the table theorems apply to its tabulated form) *)
Lemma nz_qsum_filter_mono {A} (G : A -> Q) (f1 f2 : A -> bool) l :
  (forall x, f1 x = true -> f2 x = true) -> (forall x, 0 <= G x) ->
  qsum (map G (filter f1 l)) <= qsum (map G (filter f2 l)).
Proof.
  intros Hsub Hnn. induction l as [|x l IH]; simpl; [apply Qle_refl|].
  destruct (f1 x) eqn:E1.
  - rewrite (Hsub x E1). simpl. lra.
  - destruct (f2 x); simpl; [pose proof (Hnn x); lra| exact IH].
Qed.

Lemma nz_pairs_cons_sum (F : nat -> nat -> Q) a r :
  qsum (map (fun p => F (fst p) (snd p)) (nz_pairs (a :: r)))
  == qsum (map (fun j => F a j) r) + qsum (map (fun p => F (fst p) (snd p)) (nz_pairs r)).
Proof. cbn [nz_pairs]. rewrite map_app, qsum_app, map_map. reflexivity. Qed.

Lemma nz_pairs_super (F : nat -> nat -> Q) (fA fB : nat -> bool) l :
  (forall i j, 0 <= F i j) -> (forall i, fA i = true -> fB i = false) ->
  qsum (map (fun p => F (fst p) (snd p)) (nz_pairs (filter fA l)))
  + qsum (map (fun p => F (fst p) (snd p)) (nz_pairs (filter fB l)))
  <= qsum (map (fun p => F (fst p) (snd p)) (nz_pairs (filter (fun i => fA i || fB i) l))).
Proof.
  intros Hnn Hd. induction l as [|a l IH]; [simpl; lra|].
  cbn [filter]. destruct (fA a) eqn:Ea.
  - rewrite (Hd a Ea). cbn [orb]. rewrite !nz_pairs_cons_sum.
    pose proof (nz_qsum_filter_mono (fun j => F a j) fA (fun i => fA i || fB i) l
                  (fun x Hx => ltac:(cbv beta; rewrite Hx; reflexivity)) (Hnn a)). lra.
  - cbn [orb]. destruct (fB a) eqn:Eb.
    + rewrite !nz_pairs_cons_sum.
      pose proof (nz_qsum_filter_mono (fun j => F a j) fB (fun i => fA i || fB i) l
                    (fun x Hx => ltac:(cbv beta; rewrite Hx; apply orb_true_r)) (Hnn a)). lra.
    + exact IH.
Qed.

Theorem nz_graph_SA n W : (forall i j, 0 <= nz_w W i j) -> nz_SA n (nz_tabulate n W).
Proof.
  intros Hnn A B _ _ Hd. rewrite disjb_spec in Hd. unfold nz_tabulate, players.
  rewrite (filter_ext (tb (N.lor A B)) (fun i => tb A i || tb B i)) by (intro i; apply tb_lor).
  apply (nz_pairs_super (nz_w W)); assumption.
Qed.

Lemma nz_tabulate_empty n W : nz_tabulate n W 0%N = 0.
Proof.
  unfold nz_tabulate, players. rewrite nz_filter_none; [reflexivity|]. intros i _. apply tb_0.
Qed.

(* the property for graph games: normalising a non-negative graph game gives singletons 0, values in [0,1],
   grand value 1 (or everything 0), again superadditive - through its tabulated form and nz_graph_commutes *)
Theorem nz_graph_norm_range n W : (forall i j, 0 <= nz_w W i j) ->
  let W' := nz_normalize_graph n W in
  (forall i, (i < n)%nat -> nz_tabulate n W' (single i) == 0) /\
  (forall c, bounded n c -> 0 <= nz_tabulate n W' c <= 1) /\
  (~ nz_tabulate n W (grand n) == 0 -> nz_tabulate n W' (grand n) == 1) /\
  (nz_tabulate n W (grand n) == 0 -> forall c, bounded n c -> nz_tabulate n W' c == 0) /\
  nz_SA n (nz_tabulate n W').
Proof.
  intros Hnn W'.
  pose proof (nz_graph_SA n W Hnn) as Hsa.
  assert (H0 : nz_tabulate n W 0%N == 0) by (rewrite nz_tabulate_empty; reflexivity).
  destruct (nz_graph_commutes n W) as [t' [info [E [_ Hc]]]].
  destruct (nz_norm_range n _ _ (nz_table_of_game n (nz_tabulate n W)) Hsa H0)
    as [t'' [s [sv [E' [_ [R1 [R2 [R3 R4]]]]]]]].
  rewrite E in E'. injection E' as <- Hinfo.
  destruct (nz_normalize_spec n _ _ (nz_table_of_game n (nz_tabulate n W))) as [t3 [s3 [sv3 [E3 [Hs3 _]]]]].
  rewrite E in E3. injection E3 as _ Hinfo3. rewrite Hinfo in Hinfo3. injection Hinfo3 as <- _.
  assert (Hsur : s == nz_tabulate n W (grand n)).
  { rewrite Hs3. unfold nz_surplus, nz_excess. rewrite nz_tabulate_ssum by lia. ring. }
  assert (Hv : forall c, bounded n c -> nz_tabulate n W' c == lo (get t' c)).
  { intros c Hb. destruct (Hc c Hb) as [_ [-> _]]. reflexivity. }
  split; [|split; [|split; [|split]]].
  - intros i Hi. rewrite Hv by (apply bounded_single; exact Hi). apply R1. exact Hi.
  - intros c Hb. rewrite (Hv c Hb). apply R2. exact Hb.
  - intros Hne. rewrite Hv by apply bounded_grand. apply R3. rewrite Hsur. exact Hne.
  - intros Hz c Hb. rewrite (Hv c Hb). apply R4; [rewrite Hsur; exact Hz| exact Hb].
  - destruct (nz_norm_preserves_SA n _ _ (nz_table_of_game n (nz_tabulate n W)) Hsa H0) as [t4 [i4 [E4 S4]]].
    rewrite E in E4. injection E4 as <- _.
    intros A B HA HB Hd. rewrite (Hv A HA), (Hv B HB), (Hv _ (bounded_lor n A B HA HB)).
    apply (S4 A B HA HB Hd).
Qed.

Lemma nz_SAb_sound n v : nz_SAb n v = true -> nz_SA n v.
Proof.
  unfold nz_SAb. intros H A B HA HB Hd. rewrite forallb_forall in H.
  specialize (H A (proj2 (in_alln n A) HA)). rewrite forallb_forall in H.
  specialize (H B (proj2 (in_alln n B) HB)). rewrite Hd in H. apply Qle_bool_iff. exact H.
Qed.

Lemma nz_w_nonneg W : Forall (Forall (fun x => 0 <= x)) W -> forall i j, 0 <= nz_w W i j.
Proof.
  intros H i j. unfold nz_w.
  destruct (nth_in_or_default i W []) as [Hi|Hi].
  - rewrite Forall_forall in H. specialize (H _ Hi).
    destruct (nth_in_or_default j (nth i W []) 0) as [Hj|Hj].
    + rewrite Forall_forall in H. apply H. exact Hj.
    + rewrite Hj. apply Qle_refl.
  - rewrite Hi. destruct j; apply Qle_refl.
Qed.

Lemma nz_SAb_tol_sound n tol v : nz_SAb_tol n tol v = true -> nz_SA_tol n tol v.
Proof.
  unfold nz_SAb_tol. intros H A B HA HB Hd. rewrite forallb_forall in H.
  specialize (H A (proj2 (in_alln n A) HA)). rewrite forallb_forall in H.
  specialize (H B (proj2 (in_alln n B) HB)). rewrite Hd in H. apply Qle_bool_iff. exact H.
Qed.

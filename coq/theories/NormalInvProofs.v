(* NormalInvProofs: what the agent sees does not depend on the scale or on additive shifts of the hidden game.  Prefix ni_.
   1. the zero-normalised game (Normalize.v: nz_normal) of  g' == c * (g + additive game of a),  c > 0, is the one of g
      (ni_normal_affine; ni_normal_scale, ni_normal_shift).  The shift part needs nothing.  The scale part needs the
      proviso of C15's denorm_norm:  surplus <> 0,  or  g superadditive with g(empty) == 0  (ni_regular).  Without it the
      statement is FALSE in the model (ni_normal_scale_refuted): _normalize_icg returns the undivided excesses when the
      surplus is 0, and for a non-superadditive game these need not vanish - they are multiplied by c.
   2. the environment of Env.v takes the hidden value list v and its normalised copy nv as arguments of ev_reset; if nv,
      nv' hold nz_normal of v, v' and v' is the affine image of v, then along equal action sequences from the two resets
      the masks are equal and the observations are pointwise ==  (ni_obs_affine_invariant; every computer).
   3. for the superadditive computers (CRef, CCached) the two runs succeed or raise together, the two tables stay in the
      relation tr_aff_rel of ShiftProofs.v, the reported gap is multiplied by sc_gfac (c; c*c for the squared l2 norm),
      and mask / done flag coincide  (ni_run_affine, ni_reward_affine).  No hypothesis on the game is needed here. *)
From ICG Require Import Prelude Bits Table Bounds GameOps FoldLemmas BoundsSpec SASound SAEquiv SAKnowledge SAMKnowledge
  GameOpsProofs Shapley Exploit Norms Env EnvProofs Normalize NormalizeProofs ScaleProofs ShiftProofs.
From Coq Require Import ZArith.
Local Open Scope Q_scope.

(* ================================================================== *)
(* 1. the normalised game of an affine image                           *)
(* ================================================================== *)
(* g' is the image of g under  x |-> c * (x + additive game of a)  on the coalitions of the n players, up to == *)
Definition ni_affine (n : nat) (c : Q) (a : nat -> Q) (g g' : N -> Q) : Prop :=
  forall T, bounded n T -> g' T == c * (g T + tr_add a n T).

(* the proviso of C15.denorm_norm *)
Definition ni_regular (n : nat) (g : N -> Q) : Prop :=
  ~ nz_surplus n g == 0 \/ (nz_SA n g /\ g 0%N == 0).

Lemma ni_ssum_affine n c a g g' : ni_affine n c a g g' ->
  forall X k, (k <= n)%nat -> nz_ssum g' k X == c * (nz_ssum g k X + tr_add a k X).
Proof.
  intros H X. induction k as [|k IH]; intros Hk.
  - rewrite !nz_ssum_0. unfold tr_add, players. simpl. ring.
  - rewrite !nz_ssum_S, tr_add_S, IH by lia.
    destruct (tb X k); [|ring].
    rewrite (H (single k) (bounded_single n k ltac:(lia))), (tr_add_single a n k ltac:(lia)). ring.
Qed.

Lemma ni_excess_affine n c a g g' : ni_affine n c a g g' ->
  forall X, bounded n X -> nz_excess n g' X == c * nz_excess n g X.
Proof.
  intros H X Hb. unfold nz_excess. rewrite (H X Hb), (ni_ssum_affine n c a g g' H X n (le_n n)). ring.
Qed.

Lemma ni_surplus_affine n c a g g' : ni_affine n c a g g' -> nz_surplus n g' == c * nz_surplus n g.
Proof. intros H. apply (ni_excess_affine n c a g g' H). apply bounded_grand. Qed.

(* the two branches of nz_normal, given the excesses *)
Lemma ni_normal_of_excess n c g g' X :
  ~ c == 0 -> nz_surplus n g' == c * nz_surplus n g -> nz_excess n g' X == c * nz_excess n g X ->
  (c == 1 \/ ~ nz_surplus n g == 0 \/ nz_excess n g X == 0) ->
  nz_normal n g' X == nz_normal n g X.
Proof.
  intros Hc Hs He Hreg. unfold nz_normal.
  destruct (Qeq_bool (nz_surplus n g) 0) eqn:E; destruct (Qeq_bool (nz_surplus n g') 0) eqn:E'.
  - apply Qeq_bool_iff in E. rewrite He. destruct Hreg as [H|[H|H]].
    + rewrite H. ring.
    + contradiction.
    + rewrite H. ring.
  - exfalso. apply Qeq_bool_iff in E. apply Qeq_bool_neq in E'. apply E'. rewrite Hs, E. ring.
  - exfalso. apply Qeq_bool_neq in E. apply Qeq_bool_iff in E'. rewrite Hs in E'.
    apply Qmult_integral in E'. tauto.
  - apply Qeq_bool_neq in E. rewrite He, Hs. field. split; assumption.
Qed.

Lemma ni_regular_excess n g : ni_regular n g ->
  forall X, bounded n X -> ~ nz_surplus n g == 0 \/ nz_excess n g X == 0.
Proof.
  intros [H|[Hsa H0]] X Hb; [left; exact H|].
  destruct (Qeq_dec (nz_surplus n g) 0) as [Hz|Hnz]; [right| left; exact Hnz].
  unfold nz_excess. rewrite (proj1 (nz_norm_additive_iff n g Hsa H0) Hz X Hb). ring.
Qed.

(* the surplus is multiplied by the scale factor and does not see the shift *)
Lemma ni_affine_scale n c g : ni_affine n c (fun _ => 0) g (fun T => c * g T).
Proof. intros T _. rewrite tr_add_zero. ring. Qed.
Lemma ni_affine_shift n a g : ni_affine n 1 a g (fun T => g T + tr_add a n T).
Proof. intros T _. ring. Qed.

Lemma ni_surplus_scale n c g : nz_surplus n (fun T => c * g T) == c * nz_surplus n g.
Proof. apply (ni_surplus_affine n c (fun _ => 0)). apply ni_affine_scale. Qed.

Lemma ni_surplus_shift n a g : nz_surplus n (fun T => g T + tr_add a n T) == nz_surplus n g.
Proof. rewrite (ni_surplus_affine n 1 a g _ (ni_affine_shift n a g)). ring. Qed.

(* THE THEOREM of part 1: positive affine images have the same normalised game *)
Theorem ni_normal_affine n c a g g' :
  0 < c -> ni_regular n g -> ni_affine n c a g g' ->
  forall X, bounded n X -> nz_normal n g' X == nz_normal n g X.
Proof.
  intros Hc Hreg H X Hb. apply (ni_normal_of_excess n c).
  - intro E. rewrite E in Hc. apply (Qlt_irrefl 0). exact Hc.
  - apply (ni_surplus_affine n c a). exact H.
  - apply (ni_excess_affine n c a); assumption.
  - right. apply ni_regular_excess; assumption.
Qed.

(* ... the same for any non-zero factor (a negative one turns superadditive games into subadditive ones, but the
   normalised values do not change) *)
Theorem ni_normal_affine_nonzero n c a g g' :
  ~ c == 0 -> ni_regular n g -> ni_affine n c a g g' ->
  forall X, bounded n X -> nz_normal n g' X == nz_normal n g X.
Proof.
  intros Hc Hreg H X Hb. apply (ni_normal_of_excess n c); [exact Hc| | |].
  - apply (ni_surplus_affine n c a). exact H.
  - apply (ni_excess_affine n c a); assumption.
  - right. apply ni_regular_excess; assumption.
Qed.

Theorem ni_normal_scale n c g :
  0 < c -> ni_regular n g -> forall X, bounded n X -> nz_normal n (fun T => c * g T) X == nz_normal n g X.
Proof. intros Hc Hreg. apply (ni_normal_affine n c (fun _ => 0)); [exact Hc| exact Hreg| apply ni_affine_scale]. Qed.

(* shifts: every game, no proviso *)
Theorem ni_normal_shift n a g :
  forall X, bounded n X -> nz_normal n (fun T => g T + tr_add a n T) X == nz_normal n g X.
Proof.
  intros X Hb. pose proof (ni_affine_shift n a g) as H. apply (ni_normal_of_excess n 1).
  - intro E. discriminate E.
  - apply (ni_surplus_affine n 1 a). exact H.
  - apply (ni_excess_affine n 1 a); assumption.
  - left. reflexivity.
Qed.

(* pointwise == games have pointwise == normalised games (the case c = 1, a = 0) *)
Corollary ni_normal_ext n g g' : (forall T, bounded n T -> g' T == g T) ->
  forall X, bounded n X -> nz_normal n g' X == nz_normal n g X.
Proof.
  intros H X Hb. assert (A : ni_affine n 1 (fun _ => 0) g g') by (intros T HT; rewrite (H T HT), tr_add_zero; ring).
  apply (ni_normal_of_excess n 1).
  - intro E. discriminate E.
  - apply (ni_surplus_affine n 1 (fun _ => 0)). exact A.
  - apply (ni_excess_affine n 1 (fun _ => 0)); assumption.
  - left. reflexivity.
Qed.

(* the proviso is needed: 3 players, only the pair {0,1} has a non-zero value (1), the grand coalition is worth 0 (not
   superadditive); the surplus is 0, nothing is divided, and the normalised value of the pair is its excess: 1, and 2 for
   the doubled game *)
Definition ni_ex_bad : N -> Q := ev_val [0; 0; 0; 1; 0; 0; 0; 0].
Theorem ni_normal_scale_refuted :
  exists (n : nat) (c : Q) (g : N -> Q) (X : N),
    0 < c /\ bounded n X /\ ~ nz_normal n (fun T => c * g T) X == nz_normal n g X.
Proof.
  exists 3%nat, 2, ni_ex_bad, 3%N. split; [reflexivity|]. split; [apply in_alln; vm_compute; tauto|].
  vm_compute. intro H. discriminate H.
Qed.

(* ================================================================== *)
(* 2. the observation of the environment                               *)
(* ================================================================== *)
(* value lists as the environment stores them (id order, read by ev_val) *)
Definition ni_affine_vals (n : nat) (c : Q) (a : nat -> Q) (v v' : list Q) : Prop :=
  ni_affine n c a (ev_val v) (ev_val v').
(* nv holds the values of normalize_game(copy of v) (C15.normalize_spec: the table it leaves is nz_normal, up to ==) *)
Definition ni_normalised (n : nat) (v nv : list Q) : Prop :=
  forall X, bounded n X -> ev_val nv X == nz_normal n (ev_val v) X.
(* steps and unsteps *)
Definition ni_action (o : eop) : Prop := match o with EReset _ _ => False | _ => True end.

(* executable forms, for examples *)
Definition ni_affine_vals_check (n : nat) (c : Q) (a : nat -> Q) (v v' : list Q) : bool :=
  forallb (fun X => Qeq_bool (ev_val v' X) (c * (ev_val v X + tr_add a n X))) (alln n).
Definition ni_normalised_check (n : nat) (v nv : list Q) : bool :=
  forallb (fun X => Qeq_bool (ev_val nv X) (nz_normal n (ev_val v) X)) (alln n).
(* the normalised value list of a value list *)
Definition ni_normal_list (n : nat) (v : list Q) : list Q := map (fun X => Qred (nz_normal n (ev_val v) X)) (alln n).
(* the affine image of a value list *)
Definition ni_image_list (n : nat) (c : Q) (a : nat -> Q) (v : list Q) : list Q :=
  map (fun X => Qred (c * (ev_val v X + tr_add a n X))) (alln n).

Lemma ni_affine_vals_check_sound n c a v v' : ni_affine_vals_check n c a v v' = true -> ni_affine_vals n c a v v'.
Proof.
  unfold ni_affine_vals_check. intros H X Hb. rewrite forallb_forall in H.
  apply Qeq_bool_iff. apply H. apply in_alln. exact Hb.
Qed.
Lemma ni_normalised_check_sound n v nv : ni_normalised_check n v nv = true -> ni_normalised n v nv.
Proof.
  unfold ni_normalised_check. intros H X Hb. rewrite forallb_forall in H.
  apply Qeq_bool_iff. apply H. apply in_alln. exact Hb.
Qed.

Lemma ni_norm_vals_affine n c a v v' nv nv' :
  0 < c -> ni_regular n (ev_val v) -> ni_affine_vals n c a v v' -> ni_normalised n v nv -> ni_normalised n v' nv' ->
  forall X, bounded n X -> ev_val nv' X == ev_val nv X.
Proof.
  intros Hc Hreg Ha Hn Hn' X Hb. rewrite (Hn X Hb), (Hn' X Hb).
  apply (ni_normal_affine n c a); assumption.
Qed.

(* steps and unsteps never touch the two stored games *)
Lemma ni_step_fields e a e' : ev_step e a = Some e' -> e_norm e' = e_norm e /\ e_hidden e' = e_hidden e.
Proof.
  unfold ev_step. intros H. destruct (ev_coal e a) as [s|]; [|discriminate].
  destruct (reveal (e_tab e) s (ev_val (e_hidden e) s)) as [t1 [|]]; [|discriminate].
  destruct (compute (e_comp e) (e_n e) t1); [|discriminate]. injection H as <-. split; reflexivity.
Qed.
Lemma ni_unstep_fields e a e' : ev_unstep e a = Some e' -> e_norm e' = e_norm e /\ e_hidden e' = e_hidden e.
Proof.
  unfold ev_unstep. intros H. destruct (ev_coal e a) as [s|]; [|discriminate].
  destruct (unreveal (e_tab e) s) as [t1 [|]]; [|discriminate].
  destruct (compute (e_comp e) (e_n e) t1); [|discriminate]. injection H as <-. split; reflexivity.
Qed.
Lemma ni_run_fields tr : Forall ni_action tr -> forall e e', ev_run e tr = Some e' ->
  e_norm e' = e_norm e /\ e_hidden e' = e_hidden e.
Proof.
  induction 1 as [|o tr Ho Htr IH]; intros e e' H; simpl in H.
  - injection H as <-. split; reflexivity.
  - destruct (ev_apply e o) as [e1|] eqn:Ea; [|discriminate]. destruct (IH e1 e' H) as [A B].
    destruct o as [v nv|a|a]; simpl in Ea, Ho; [contradiction| |].
    + destruct (ni_step_fields e a e1 Ea) as [C D]. split; congruence.
    + destruct (ni_unstep_fields e a e1 Ea) as [C D]. split; congruence.
Qed.
Lemma ni_reset_run e v nv tr e' : Forall ni_action tr -> ev_run e (EReset v nv :: tr) = Some e' ->
  e_norm e' = nv /\ e_hidden e' = v.
Proof.
  intros Htr H. simpl in H. destruct (ev_reset e v nv) as [e1|] eqn:Er; [|discriminate].
  destruct (ni_run_fields tr Htr e1 e' H) as [A B]. unfold ev_reset in Er.
  destruct (compute (e_comp e) (e_n e) _); [|discriminate]. injection Er as <-. simpl in A, B. split; assumption.
Qed.

Lemma ni_Forall2_map {A} (f g : A -> Q) l : (forall x, In x l -> f x == g x) -> Forall2 Qeq (map f l) (map g l).
Proof.
  induction l as [|x l IH]; intros H; simpl; constructor.
  - apply H. left. reflexivity.
  - apply IH. intros y Hy. apply H. right. exact Hy.
Qed.

(* THE THEOREM of part 2.  Any computer (the observation does not look at the bounds).  The same configuration e, the
   same actions; v' the positive affine image of v; nv, nv' their normalised copies: same mask, same observation. *)
Theorem ni_obs_affine_invariant e c a v v' nv nv' tr e1 e2 :
  ev_wf e -> 0 < c -> ni_regular (e_n e) (ev_val v) ->
  ni_affine_vals (e_n e) c a v v' -> ni_normalised (e_n e) v nv -> ni_normalised (e_n e) v' nv' ->
  Forall ni_action tr ->
  ev_run e (EReset v nv :: tr) = Some e1 -> ev_run e (EReset v' nv' :: tr) = Some e2 ->
  ev_mask e2 = ev_mask e1 /\ Forall2 Qeq (ev_obs e1) (ev_obs e2).
Proof.
  intros Hwf Hc Hreg Ha Hn Hn' Htr H1 H2.
  destruct (ev_invariant e v nv tr e1 Hwf H1) as [C1 [W1 I1]].
  destruct (ev_invariant e v' nv' tr e2 Hwf H2) as [C2 [W2 I2]].
  destruct (ni_reset_run e v nv tr e1 Htr H1) as [N1 _]. destruct (ni_reset_run e v' nv' tr e2 Htr H2) as [N2 _].
  unfold ev_chosen in I1, I2. cbn [fold_left ev_chosen_step] in I1, I2.
  set (ch := fold_left (ev_chosen_step (e_expl e)) tr []) in *.
  destruct C1 as [En1 [_ [_ [_ [_ Ex1]]]]]. destruct C2 as [En2 [_ [_ [_ [_ Ex2]]]]].
  split.
  - rewrite (ev_mask_spec e1 ch _ W1 I1), (ev_mask_spec e2 ch _ W2 I2), Ex1, Ex2. reflexivity.
  - rewrite (ev_obs_spec e1 ch _ W1 I1), (ev_obs_spec e2 ch _ W2 I2), Ex1, Ex2, N1, N2.
    apply ni_Forall2_map. intros s Hs. destruct (ev_mem s ch); [|reflexivity].
    destruct (proj1 (in_expl e s Hwf) Hs) as [Hb _]. symmetry.
    apply (ni_norm_vals_affine (e_n e) c a v v' nv nv'); assumption.
Qed.

(* ================================================================== *)
(* 3. bounds, rewards, done flag: the superadditive computers          *)
(* ================================================================== *)
(* the relation tr_aff_rel on the KNOWN rows only (unknown rows hold stale numbers - e.g. zeros after a reset - that are
   not in the relation); flags equal *)
Definition ni_kaff_rel (c : Q) (a : nat -> Q) (n : nat) (t t' : table) : Prop :=
  forall X, bounded n X ->
    known (get t' X) = known (get t X)
    /\ (known (get t X) = true ->
        lo (get t' X) == c * (lo (get t X) + tr_add a n X) /\ hi (get t' X) == c * (hi (get t X) + tr_add a n X)).

Lemma ni_aff_kaff c a n t t' : tr_aff_rel c a n t t' -> ni_kaff_rel c a n t t'.
Proof. intros H X Hb. destruct (H X Hb) as [H1 [H2 H3]]. auto. Qed.

(* the computers read the known rows only (SAKnowledge.sa_function_of_knowledge): related knowledge, related bounds *)
Theorem ni_compute_affine_knowledge c a comp n t t' :
  0 <= c -> tr_sa_computer comp = true -> ni_kaff_rel c a n t t' ->
  tr_opt (tr_aff_rel c a n) (compute comp n t) (compute comp n t').
Proof.
  intros Hc Hs H.
  set (row'' := fun X => if known (get t' X) then get t' X
                         else mkrow (known (get t X)) (c * (lo (get t X) + tr_add a n X)) (c * (hi (get t X) + tr_add a n X))).
  set (t'' := of_fun (alln n) row'').
  assert (G : forall X, bounded n X -> get t'' X = row'' X).
  { intros X Hb. unfold t''. rewrite of_fun_get.
    destruct (in_dec N.eq_dec X (alln n)) as [_|Hn]; [reflexivity| exfalso; apply Hn; apply in_alln; exact Hb]. }
  assert (SK : same_known_part n t' t'').
  { intros X Hb. unfold Kn. rewrite !(G X Hb). destruct (H X Hb) as [A1 _]. unfold row''.
    destruct (known (get t' X)) eqn:Ek.
    - rewrite Ek. split; reflexivity.
    - simpl. split; [congruence| discriminate]. }
  assert (AR : tr_aff_rel c a n t t'').
  { intros X Hb. rewrite (G X Hb). destruct (H X Hb) as [A1 A2]. unfold row'', tr_aff_row_rel.
    destruct (known (get t' X)) eqn:Ek.
    - symmetry in A1. destruct (A2 A1) as [A3 A4]. split; [congruence|]. split; assumption.
    - simpl. repeat split; reflexivity. }
  pose proof (tr_compute_affine c a comp n t t'' Hc Hs AR) as R1.
  pose proof (sa_function_of_knowledge comp n t' t'' (tr_sa_computer_cases comp Hs) SK) as R2.
  unfold tr_opt, oteqn in *.
  destruct (compute comp n t) as [r|], (compute comp n t'') as [r''|]; try contradiction;
  destruct (compute comp n t') as [r'|]; try contradiction; [|exact I].
  intros X Hb. rewrite (R2 X Hb). exact (R1 X Hb).
Qed.

(* two environment states in lock step: same configuration and counter, hidden games and tables affinely related *)
Record ni_sim (c : Q) (a : nat -> Q) (e1 e2 : env) : Prop := {
  sim_n : e_n e2 = e_n e1;
  sim_comp : e_comp e2 = e_comp e1;
  sim_gap : e_gap e2 = e_gap e1;
  sim_budget : e_budget e2 = e_budget e1;
  sim_init : e_init e2 = e_init e1;
  sim_expl : e_expl e2 = e_expl e1;
  sim_steps : e_steps e2 = e_steps e1;
  sim_bnd : forall s, In s (e_expl e1) -> bounded (e_n e1) s;
  sim_hidden : ni_affine_vals (e_n e1) c a (e_hidden e1) (e_hidden e2);
  sim_tab : tr_aff_rel c a (e_n e1) (e_tab e1) (e_tab e2)
}.

Definition ni_osim (c : Q) (a : nat -> Q) (o o' : option env) : Prop :=
  match o, o' with
  | Some e1, Some e2 => ni_sim c a e1 e2
  | None, None => True
  | _, _ => False
  end.

Lemma ni_reset_sim c a e v v' nv nv' :
  0 <= c -> tr_sa_computer (e_comp e) = true -> ev_wf e -> ni_affine_vals (e_n e) c a v v' ->
  ni_osim c a (ev_reset e v nv) (ev_reset e v' nv').
Proof.
  intros Hc Hs Hwf Ha. unfold ev_reset.
  set (t0 := fst (set_known_some (e_tab e) (e_init e) (map (ev_val v) (e_init e)))).
  set (t0' := fst (set_known_some (e_tab e) (e_init e) (map (ev_val v') (e_init e)))).
  assert (K : ni_kaff_rel c a (e_n e) t0 t0').
  { intros X Hb. unfold t0, t0'. rewrite !set_known_some_get. destruct (ev_mem X (e_init e)).
    - simpl. split; [reflexivity|]. intros _. rewrite (Ha X Hb). split; reflexivity.
    - split; [reflexivity|]. unfold init_table. rewrite get_set.
      destruct (N.eqb_spec X 0) as [->|_]; [|rewrite get_empty; discriminate].
      intros _. simpl. rewrite tr_add_0. split; ring. }
  pose proof (ni_compute_affine_knowledge c a (e_comp e) (e_n e) t0 t0' Hc Hs K) as R. unfold tr_opt in R.
  destruct (compute (e_comp e) (e_n e) t0) as [t1|], (compute (e_comp e) (e_n e) t0') as [t1'|];
    try contradiction; [|exact I].
  simpl. constructor; simpl; try reflexivity; try assumption.
  intros s Hin. apply (in_expl e s Hwf). exact Hin.
Qed.

Lemma ni_step_sim c a e1 e2 act :
  0 <= c -> tr_sa_computer (e_comp e1) = true -> ni_sim c a e1 e2 -> ni_osim c a (ev_step e1 act) (ev_step e2 act).
Proof.
  intros Hc Hs S. destruct S as [S1 S2 S3 S4 S5 S6 S7 S8 S9 S10].
  unfold ev_step, ev_coal. rewrite S6. destruct (nth_error (e_expl e1) act) as [s|] eqn:Es; [|exact I].
  pose proof (S8 s (nth_error_In _ _ Es)) as Hb.
  unfold reveal. destruct (S10 s Hb) as [Ek _]. rewrite Ek.
  destruct (known (get (e_tab e1) s)) eqn:Ek1; [exact I|].
  rewrite S1, S2.
  set (t1 := set_value (e_tab e1) s (ev_val (e_hidden e1) s)).
  set (t1' := set_value (e_tab e2) s (ev_val (e_hidden e2) s)).
  assert (K : ni_kaff_rel c a (e_n e1) t1 t1').
  { intros X HX. unfold t1, t1', set_value. rewrite !get_set. destruct (N.eqb_spec X s) as [->|_].
    - simpl. split; [reflexivity|]. intros _. rewrite (S9 s Hb). split; reflexivity.
    - apply (ni_aff_kaff c a (e_n e1) _ _ S10 X HX). }
  pose proof (ni_compute_affine_knowledge c a (e_comp e1) (e_n e1) t1 t1' Hc Hs K) as R. unfold tr_opt in R.
  destruct (compute (e_comp e1) (e_n e1) t1) as [r|], (compute (e_comp e1) (e_n e1) t1') as [r'|];
    try contradiction; [|exact I].
  simpl. constructor; simpl; try assumption. rewrite S7. reflexivity.
Qed.

Lemma ni_unstep_sim c a e1 e2 act :
  0 <= c -> tr_sa_computer (e_comp e1) = true -> ni_sim c a e1 e2 -> ni_osim c a (ev_unstep e1 act) (ev_unstep e2 act).
Proof.
  intros Hc Hs S. destruct S as [S1 S2 S3 S4 S5 S6 S7 S8 S9 S10].
  unfold ev_unstep, ev_coal. rewrite S6. destruct (nth_error (e_expl e1) act) as [s|] eqn:Es; [|exact I].
  pose proof (S8 s (nth_error_In _ _ Es)) as Hb.
  unfold unreveal. destruct (S10 s Hb) as [Ek _]. rewrite Ek.
  destruct (known (get (e_tab e1) s)) eqn:Ek1; [|exact I].
  rewrite S1, S2.
  set (t1 := unset_value (e_tab e1) s).
  set (t1' := unset_value (e_tab e2) s).
  assert (K : ni_kaff_rel c a (e_n e1) t1 t1').
  { intros X HX. unfold t1, t1', unset_value. rewrite !get_set. destruct (N.eqb_spec X s) as [->|_].
    - simpl. split; [reflexivity| discriminate].
    - apply (ni_aff_kaff c a (e_n e1) _ _ S10 X HX). }
  pose proof (ni_compute_affine_knowledge c a (e_comp e1) (e_n e1) t1 t1' Hc Hs K) as R. unfold tr_opt in R.
  destruct (compute (e_comp e1) (e_n e1) t1) as [r|], (compute (e_comp e1) (e_n e1) t1') as [r'|];
    try contradiction; [|exact I].
  simpl. constructor; simpl; try assumption. rewrite S7. reflexivity.
Qed.

Lemma ni_step_comp e act e' : ev_step e act = Some e' -> e_comp e' = e_comp e.
Proof.
  unfold ev_step. intros H. destruct (ev_coal e act) as [s|]; [|discriminate].
  destruct (reveal (e_tab e) s (ev_val (e_hidden e) s)) as [t1 [|]]; [|discriminate].
  destruct (compute (e_comp e) (e_n e) t1); [|discriminate]. injection H as <-. reflexivity.
Qed.
Lemma ni_unstep_comp e act e' : ev_unstep e act = Some e' -> e_comp e' = e_comp e.
Proof.
  unfold ev_unstep. intros H. destruct (ev_coal e act) as [s|]; [|discriminate].
  destruct (unreveal (e_tab e) s) as [t1 [|]]; [|discriminate].
  destruct (compute (e_comp e) (e_n e) t1); [|discriminate]. injection H as <-. reflexivity.
Qed.

Lemma ni_actions_sim c a tr : 0 <= c -> Forall ni_action tr ->
  forall e1 e2, tr_sa_computer (e_comp e1) = true -> ni_sim c a e1 e2 -> ni_osim c a (ev_run e1 tr) (ev_run e2 tr).
Proof.
  intros Hc. induction 1 as [|o tr Ho Htr IH]; intros e1 e2 Hs S; [exact S|].
  cbn [ev_run]. destruct o as [v nv|act|act]; simpl in Ho; [contradiction| |]; cbn [ev_apply].
  - pose proof (ni_step_sim c a e1 e2 act Hc Hs S) as R. unfold ni_osim in R.
    destruct (ev_step e1 act) as [e1'|] eqn:E1, (ev_step e2 act) as [e2'|]; try contradiction; [|exact I].
    apply IH; [|exact R]. rewrite (ni_step_comp e1 act e1' E1). exact Hs.
  - pose proof (ni_unstep_sim c a e1 e2 act Hc Hs S) as R. unfold ni_osim in R.
    destruct (ev_unstep e1 act) as [e1'|] eqn:E1, (ev_unstep e2 act) as [e2'|]; try contradiction; [|exact I].
    apply IH; [|exact R]. rewrite (ni_unstep_comp e1 act e1' E1). exact Hs.
Qed.

(* the two runs succeed or raise together and stay in lock step *)
Theorem ni_run_affine e c a v v' nv nv' tr :
  ev_wf e -> tr_sa_computer (e_comp e) = true -> 0 <= c -> ni_affine_vals (e_n e) c a v v' -> Forall ni_action tr ->
  ni_osim c a (ev_run e (EReset v nv :: tr)) (ev_run e (EReset v' nv' :: tr)).
Proof.
  intros Hwf Hs Hc Ha Htr. cbn [ev_run ev_apply].
  pose proof (ni_reset_sim c a e v v' nv nv' Hc Hs Hwf Ha) as R. unfold ni_osim in R.
  destruct (ev_reset e v nv) as [e1|] eqn:E1, (ev_reset e v' nv') as [e2|]; try contradiction; [|exact I].
  apply ni_actions_sim; [exact Hc| exact Htr| | exact R].
  unfold ev_reset in E1. destruct (compute (e_comp e) (e_n e) _); [|discriminate]. injection E1 as <-. exact Hs.
Qed.

(* what lock step means for the things the agent is shown *)
Lemma ni_sim_mask c a e1 e2 : ni_sim c a e1 e2 -> ev_mask e2 = ev_mask e1.
Proof.
  intros S. unfold ev_mask. rewrite (sim_expl _ _ _ _ S). apply map_ext_in. intros s Hs.
  destruct (sim_tab _ _ _ _ S s (sim_bnd _ _ _ _ S s Hs)) as [-> _]. reflexivity.
Qed.

Lemma ni_sim_gap c a e1 e2 : 0 <= c -> ni_sim c a e1 e2 ->
  sc_optq_rel (sc_gfac (e_gap e1) c) (ev_gapv e1) (ev_gapv e2).
Proof.
  intros Hc S. unfold ev_gapv. rewrite (sim_gap _ _ _ _ S), (sim_n _ _ _ _ S).
  apply (tr_gap_affine c a); [exact Hc| apply (sim_tab _ _ _ _ S)].
Qed.

Lemma ni_sim_done c a e1 e2 : 0 < c -> ni_sim c a e1 e2 -> ev_done e2 = ev_done e1.
Proof.
  intros Hc S. unfold ev_done. rewrite (ni_sim_mask c a e1 e2 S), (sim_budget _ _ _ _ S), (sim_steps _ _ _ _ S).
  f_equal. unfold ev_all_degenerate. rewrite (sim_n _ _ _ _ S). apply forallb_ext_in'. intros s Hs.
  apply in_alln in Hs. destruct (sim_tab _ _ _ _ S s Hs) as [_ [E1 E2]].
  assert (E : hi (get (e_tab e2) s) - lo (get (e_tab e2) s) == c * (hi (get (e_tab e1) s) - lo (get (e_tab e1) s)))
    by (rewrite E1, E2; ring).
  set (w := hi (get (e_tab e1) s) - lo (get (e_tab e1) s)) in *.
  rewrite (nz_Qeq_bool_0 _ _ E).
  destruct (Qeq_bool w 0) eqn:Ew.
  - apply Qeq_bool_iff in Ew. apply Qeq_bool_iff. rewrite Ew. ring.
  - apply sc_Qeq_bool_false. apply Qeq_bool_neq in Ew. intro E0. apply Qmult_integral in E0.
    destruct E0 as [E0|E0]; [|contradiction]. rewrite E0 in Hc. apply (Qlt_irrefl 0). exact Hc.
Qed.

(* THE THEOREM of part 3.  Superadditive computers, every positive affine image, every action sequence: both runs raise,
   or both succeed and then the tables are affinely related (bounds commute with the change of the game), the gap - the
   reward is minus the gap - is multiplied by c (c * c for the squared l2 norm), mask and done flag are the same.
   No hypothesis on the hidden game. *)
Theorem ni_reward_affine e c a v v' nv nv' tr :
  ev_wf e -> tr_sa_computer (e_comp e) = true -> 0 < c -> ni_affine_vals (e_n e) c a v v' -> Forall ni_action tr ->
  match ev_run e (EReset v nv :: tr), ev_run e (EReset v' nv' :: tr) with
  | Some e1, Some e2 =>
      tr_aff_rel c a (e_n e) (e_tab e1) (e_tab e2)
      /\ sc_optq_rel (sc_gfac (e_gap e) c) (ev_gapv e1) (ev_gapv e2)
      /\ ev_mask e2 = ev_mask e1 /\ ev_done e2 = ev_done e1
  | None, None => True
  | _, _ => False
  end.
Proof.
  intros Hwf Hs Hc Ha Htr. assert (Hc0 : 0 <= c) by (apply Qlt_le_weak; exact Hc).
  pose proof (ni_run_affine e c a v v' nv nv' tr Hwf Hs Hc0 Ha Htr) as R. unfold ni_osim in R.
  destruct (ev_run e (EReset v nv :: tr)) as [e1|] eqn:E1, (ev_run e (EReset v' nv' :: tr)) as [e2|];
    try contradiction; [|exact I].
  destruct (ev_invariant e v nv tr e1 Hwf E1) as [[En [_ [Eg _]]] _].
  rewrite <- En, <- Eg. split; [apply (sim_tab _ _ _ _ R)|]. split; [apply (ni_sim_gap c a); assumption|].
  split; [apply (ni_sim_mask c a); exact R| apply (ni_sim_done c a); assumption].
Qed.

(* parts 2 and 3 together for a superadditive computer: one run succeeds iff the other does, and then observation, mask,
   done flag agree and the reward is scaled *)
Corollary ni_agent_view_affine e c a v v' nv nv' tr :
  ev_wf e -> tr_sa_computer (e_comp e) = true -> 0 < c -> ni_regular (e_n e) (ev_val v) ->
  ni_affine_vals (e_n e) c a v v' -> ni_normalised (e_n e) v nv -> ni_normalised (e_n e) v' nv' ->
  Forall ni_action tr ->
  match ev_run e (EReset v nv :: tr), ev_run e (EReset v' nv' :: tr) with
  | Some e1, Some e2 =>
      Forall2 Qeq (ev_obs e1) (ev_obs e2) /\ ev_mask e2 = ev_mask e1 /\ ev_done e2 = ev_done e1
      /\ sc_optq_rel (sc_gfac (e_gap e) c) (ev_gapv e1) (ev_gapv e2)
  | None, None => True
  | _, _ => False
  end.
Proof.
  intros Hwf Hs Hc Hreg Ha Hn Hn' Htr.
  pose proof (ni_reward_affine e c a v v' nv nv' tr Hwf Hs Hc Ha Htr) as R.
  destruct (ev_run e (EReset v nv :: tr)) as [e1|] eqn:E1, (ev_run e (EReset v' nv' :: tr)) as [e2|] eqn:E2;
    try contradiction; [|exact I].
  destruct R as [_ [Rg [Rm Rd]]].
  destruct (ni_obs_affine_invariant e c a v v' nv nv' tr e1 e2 Hwf Hc Hreg Ha Hn Hn' Htr E1 E2) as [_ Ho].
  auto.
Qed.

(* LinearProofs: the size-aggregated environment is the per-size abstraction of the full one (C16). *)
From ICG Require Import Prelude Bits Table Bounds GameOps FoldLemmas SAKnowledge SAMKnowledge Shapley Exploit Norms Env EnvProofs.
From Coq Require Import ZArith.

Lemma in_combine_seq {A} (l : list A) st a x :
  In (a, x) (combine (seq st (length l)) l) <-> (st <= a)%nat /\ nth_error l (a - st) = Some x.
Proof.
  revert st. induction l as [|y l IH]; intros st; simpl.
  - split; [intros []| intros [_ H]; destruct (a - st)%nat; discriminate].
  - rewrite IH. split.
    + intros [E|[H1 H2]].
      * injection E as <- <-. rewrite Nat.sub_diag. simpl. auto.
      * split; [lia|]. replace (a - st)%nat with (S (a - S st)) by lia. exact H2.
    + intros [H1 H2]. destruct (Nat.eq_dec st a) as [->|Hne].
      * rewrite Nat.sub_diag in H2. simpl in H2. injection H2 as ->. left. reflexivity.
      * right. split; [lia|]. replace (a - st)%nat with (S (a - S st)) in H2 by lia. exact H2.
Qed.

Lemma nth_error_combine {A B} (l1 : list A) (l2 : list B) i x y :
  nth_error (combine l1 l2) i = Some (x, y) <-> nth_error l1 i = Some x /\ nth_error l2 i = Some y.
Proof.
  revert l2 i. induction l1 as [|a l1 IH]; intros [|b l2] [|i]; simpl; try (split; [discriminate| intros [? ?]; discriminate]).
  - split; [intros [= -> ->]; auto| intros [[= ->] [= ->]]; reflexivity].
  - apply IH.
Qed.

Lemma in_combine_nth {A B} (l1 : list A) (l2 : list B) x y :
  In (x, y) (combine l1 l2) <-> exists i, nth_error l1 i = Some x /\ nth_error l2 i = Some y.
Proof.
  split.
  - intros H. destruct (In_nth_error _ _ H) as [i Hi]. exists i. apply nth_error_combine. exact Hi.
  - intros [i Hi]. apply nth_error_combine in Hi. eapply nth_error_In; eauto.
Qed.

(* the unknown explorable coalitions of size k, as action indices *)
Definition lv_unknown_of_size (e : env) (k : nat) (a : nat) : Prop :=
  exists s, nth_error (e_expl e) a = Some s /\ size (e_n e) s = k /\ known (get (e_tab e) s) = false.

Theorem lv_candidates_spec e k a : In a (lv_candidates e k) <-> lv_unknown_of_size e k a.
Proof.
  unfold lv_candidates, lv_unknown_of_size. rewrite in_map_iff. split.
  - intros [[a' [sz b]] [E H]]. simpl in E. subst a'. apply filter_In in H. destruct H as [H Hf]. simpl in Hf.
    apply andb_true_iff in Hf. destruct Hf as [Hk Hb]. apply Nat.eqb_eq in Hk. subst.
    replace (length (e_expl e)) with (length (combine (lv_sizes e) (ev_mask e))) in H
      by (rewrite combine_length; unfold lv_sizes, ev_mask; rewrite !map_length; lia).
    apply in_combine_seq in H. destruct H as [_ H]. rewrite Nat.sub_0_r in H.
    apply nth_error_combine in H. destruct H as [H1 H2]. unfold lv_sizes in H1. unfold ev_mask in H2.
    rewrite nth_error_map in H1, H2. destruct (nth_error (e_expl e) a) as [s|]; [|discriminate]. simpl in *.
    exists s. split; [reflexivity|]. injection H1 as <-. injection H2 as H2. apply negb_true_iff in H2. auto.
  - intros [s [Hs [Hk Hn]]]. exists (a, (k, true)). split; [reflexivity|]. apply filter_In. split; [|simpl; rewrite Nat.eqb_refl; reflexivity].
    replace (length (e_expl e)) with (length (combine (lv_sizes e) (ev_mask e)))
      by (rewrite combine_length; unfold lv_sizes, ev_mask; rewrite !map_length; lia).
    apply in_combine_seq. split; [lia|]. rewrite Nat.sub_0_r. apply nth_error_combine. split.
    + unfold lv_sizes. rewrite nth_error_map, Hs. simpl. rewrite Hk. reflexivity.
    + unfold ev_mask. rewrite nth_error_map, Hs. simpl. rewrite Hn. reflexivity.
Qed.

Lemma lv_bq_nonneg b : 0 <= lv_bq b.
Proof. destruct b; simpl; lra. Qed.

Lemma size_lt_len e a s : nth_error (e_expl e) a = Some s -> (size (e_n e) s < lv_len e)%nat.
Proof.
  intros H. unfold lv_len. apply le_n_S.
  assert (Hin : In (size (e_n e) s) (lv_sizes e)) by (unfold lv_sizes; apply in_map; eapply nth_error_In; eauto).
  revert Hin. generalize (lv_sizes e). induction l as [|x l IH]; simpl; [intros []|].
  intros [->|Hin]; [lia| specialize (IH Hin); lia].
Qed.

(* the mask allows size k iff some explorable coalition of size k is still unknown *)
Theorem lv_mask_spec e k :
  nth_error (lv_mask e) k = Some true <-> exists a, lv_unknown_of_size e k a.
Proof.
  unfold lv_mask, lv_agg. rewrite nth_error_map.
  set (pairs := combine (lv_sizes e) (map lv_bq (ev_mask e))).
  split.
  - intros H. rewrite nth_error_map in H.
    destruct (nth_error (seq 0 (lv_len e)) k) as [k'|] eqn:Ek; [|discriminate]. simpl in H.
    assert (k' = k).
    { assert (Hk : (k < lv_len e)%nat) by (apply nth_error_Some in Ek || (rewrite <- (seq_length (lv_len e) 0); apply nth_error_Some; congruence)).
      rewrite (nth_error_nth' _ 0%nat) in Ek by (rewrite seq_length; exact Hk). rewrite seq_nth in Ek by exact Hk. simpl in Ek. congruence. }
    subst k'. injection H as H. apply negb_true_iff in H.
    (* the sum is non-zero: some selected weight is non-zero *)
    destruct (existsb (fun p => Nat.eqb (fst p) k && negb (Qeq_bool (snd p) 0)) pairs) eqn:Ex.
    + apply existsb_exists in Ex. destruct Ex as [[sz q] [Hin Hp]]. simpl in Hp. apply andb_true_iff in Hp.
      destruct Hp as [Hk Hq]. apply Nat.eqb_eq in Hk. subst sz.
      unfold pairs in Hin. apply in_combine_nth in Hin. destruct Hin as [a [H1 H2]].
      unfold lv_sizes in H1. rewrite nth_error_map in H1, H2. unfold ev_mask in H2. rewrite nth_error_map in H2.
      destruct (nth_error (e_expl e) a) as [s|] eqn:Hs; [|discriminate]. simpl in *.
      exists a, s. split; [exact Hs|]. injection H1 as H1. split; [exact H1|].
      injection H2 as H2. destruct (known (get (e_tab e) s)); [|reflexivity].
      simpl in H2. subst q. simpl in Hq. discriminate.
    + exfalso. apply not_true_iff_false in H. apply H. apply Qeq_bool_iff.
      apply qsum_map_zero. intros p Hp. apply filter_In in Hp. destruct Hp as [Hp Hk].
      destruct (Qeq_bool (snd p) 0) eqn:Eq; [apply Qeq_bool_iff; exact Eq|].
      exfalso. apply not_true_iff_false in Ex. apply Ex. apply existsb_exists. exists p. split; [exact Hp|].
      rewrite Hk, Eq. reflexivity.
  - intros [a [s [Hs [Hk Hn]]]].
    assert (Hlt : (k < lv_len e)%nat) by (rewrite <- Hk; eapply size_lt_len; eauto).
    rewrite nth_error_map. rewrite (nth_error_nth' _ 0%nat) by (rewrite seq_length; exact Hlt).
    rewrite seq_nth by exact Hlt. simpl. f_equal. apply negb_true_iff. apply not_true_iff_false. intro Hq.
    apply Qeq_bool_iff in Hq.
    assert (Hin : In (k, 1) (filter (fun p => Nat.eqb (fst p) k) pairs)).
    { apply filter_In. split; [|simpl; apply Nat.eqb_refl]. unfold pairs. apply in_combine_nth. exists a. split.
      - unfold lv_sizes. rewrite nth_error_map, Hs. simpl. rewrite Hk. reflexivity.
      - rewrite nth_error_map. unfold ev_mask. rewrite nth_error_map, Hs. simpl. rewrite Hn. reflexivity. }
    assert (H1 : 1 == 0).
    { apply (qsum_nonneg_zero (map snd (filter (fun p => Nat.eqb (fst p) k) pairs))); auto.
      - intros x Hx. apply in_map_iff in Hx. destruct Hx as [[sz q] [<- Hp]]. apply filter_In in Hp. destruct Hp as [Hp _].
        unfold pairs in Hp. apply in_combine_r in Hp. apply in_map_iff in Hp. destruct Hp as [b [<- _]]. apply lv_bq_nonneg.
      - apply in_map_iff. exists (k, 1). split; [reflexivity| exact Hin]. }
    discriminate.
Qed.

Theorem lv_candidates_nonempty e k : nth_error (lv_mask e) k = Some true -> lv_candidates e k <> [].
Proof.
  intros H. apply lv_mask_spec in H. destruct H as [a Ha]. apply lv_candidates_spec in Ha.
  intro E. rewrite E in Ha. destruct Ha.
Qed.

(* a step with size k reveals one previously unknown coalition of that size and is the underlying step *)
Theorem lv_step_spec e k a e' : lv_step e k a = Some e' ->
  (k < e_n e)%nat /\ lv_unknown_of_size e k a /\ ev_step e a = Some e'.
Proof.
  unfold lv_step. destruct (k <? e_n e)%nat eqn:Ek; [|discriminate]. simpl.
  destruct (existsb (Nat.eqb a) (lv_candidates e k)) eqn:Ex; [|discriminate]. intros H.
  apply Nat.ltb_lt in Ek. split; [exact Ek|]. split; [|exact H].
  apply lv_candidates_spec. apply existsb_exists in Ex. destruct Ex as [x [Hx E]]. apply Nat.eqb_eq in E. subst. exact Hx.
Qed.

Theorem lv_step_defined e k a : (k < e_n e)%nat -> lv_unknown_of_size e k a -> lv_step e k a = ev_step e a.
Proof.
  intros Hk Ha. unfold lv_step. apply Nat.ltb_lt in Hk. rewrite Hk. simpl.
  apply lv_candidates_spec in Ha.
  assert (E : existsb (Nat.eqb a) (lv_candidates e k) = true) by (apply existsb_exists; exists a; split; [exact Ha| apply Nat.eqb_refl]).
  rewrite E. reflexivity.
Qed.

(* the observation is the per-size sum of the underlying observation *)
Theorem lv_obs_spec e k : (k < lv_len e)%nat ->
  nth_error (lv_obs e) k
  = Some (qsum (map snd (filter (fun p => Nat.eqb (fst p) k) (combine (lv_sizes e) (ev_obs e))))).
Proof.
  intros Hk. unfold lv_obs, lv_agg. rewrite nth_error_map.
  rewrite (nth_error_nth' _ 0%nat) by (rewrite seq_length; exact Hk). rewrite seq_nth by exact Hk. reflexivity.
Qed.

Theorem lv_obs_length e : length (lv_obs e) = lv_len e /\ length (lv_mask e) = lv_len e.
Proof. unfold lv_obs, lv_mask, lv_agg. rewrite !map_length, seq_length. auto. Qed.

(* its length is the number of players as soon as an explorable coalition of size n-1 exists and none is larger *)
Theorem lv_len_is_n e : (1 <= e_n e)%nat ->
  (exists s, In s (e_expl e) /\ size (e_n e) s = (e_n e - 1)%nat) ->
  (forall s, In s (e_expl e) -> (size (e_n e) s <= e_n e - 1)%nat) -> lv_len e = e_n e.
Proof.
  intros Hn [s [Hs Hk]] Hall. unfold lv_len.
  assert (E : fold_right Nat.max 0%nat (lv_sizes e) = (e_n e - 1)%nat).
  { apply Nat.le_antisymm.
    - assert (G : forall l, (forall x, In x l -> (x <= e_n e - 1)%nat) -> (fold_right Nat.max 0 l <= e_n e - 1)%nat).
      { induction l as [|x l IH]; intros H; simpl; [lia|]. pose proof (H x (or_introl eq_refl)). specialize (IH (fun y Hy => H y (or_intror Hy))). lia. }
      apply G. intros x Hx. unfold lv_sizes in Hx. apply in_map_iff in Hx. destruct Hx as [s' [<- Hs']]. apply Hall. exact Hs'.
    - rewrite <- Hk.
      assert (G : forall l x, In x l -> (x <= fold_right Nat.max 0 l)%nat).
      { induction l as [|y l IH]; intros x; simpl; [intros []| intros [->|H]; [lia| specialize (IH x H); lia]]. }
      apply G. unfold lv_sizes. apply in_map. exact Hs. }
  rewrite E. lia.
Qed.

(* SAMSpec: the approximate superadditive-monotone computer (C04): cell functions, the shape of a run,
   soundness for every repetition count, comparison with the superadditive bounds. *)
From ICG Require Import Prelude Bits Table Bounds FoldLemmas BoundsSpec SASound SATight.

Definition Mono (n : nat) (v : N -> Q) : Prop :=
  forall a b, bounded n a -> bounded n b -> sub a b = true -> v b <= v a.

(* cell functions on columns *)
Definition lowerF_self (n : nat) (l : N -> Q) (s : N) : Q :=
  qmaxl (map (fun a => l a + l (N.lxor s a)) (sam_splits n 1 s)).
Definition monoF (n : nat) (l : N -> Q) (s : N) : Q :=
  qmaxl (map l (supers_or_self n s)).
Definition lowerA (n i : nat) : (N -> Q) -> N -> Q :=
  match i with O => lowerF n | S _ => lowerF_self n end.
Definition sam_upperF (n : nat) (K : N -> bool) (l u : N -> Q) (s : N) : Q :=
  Qmin (qminl (map (fun T => l T - l (N.lxor s T)) (filter K (supers n s))))
       (qminl (map u (filter K (splits n s)))).

Lemma sam_lower_step_eq n i t s : sam_lower_step n i t s = lo_step (lowerA n i) t s.
Proof. destruct i; reflexivity. Qed.

Lemma sam_round_eq n i us t :
  sam_round n i us t = fold_left (lo_step (monoF n)) us (fold_left (lo_step (lowerA n i)) us t).
Proof.
  unfold sam_round. f_equal. apply fold_left_ext_in. intros a b _. apply sam_lower_step_eq.
Qed.

Lemma in_sam_splits1 n s a : In a (sam_splits n 1 s) <-> bounded n a /\ a <> 0%N /\ (ssub a s = true \/ a = s).
Proof.
  unfold sam_splits. simpl. rewrite filter_In, in_alln, andb_true_iff, orb_true_iff, negb_true_iff, !N.eqb_neq, N.eqb_eq.
  tauto.
Qed.
Lemma in_supers_or_self n s T : In T (supers_or_self n s) <-> bounded n T /\ (ssub s T = true \/ T = s).
Proof. unfold supers_or_self. rewrite filter_In, in_alln, orb_true_iff, N.eqb_eq. tauto. Qed.

Lemma lxor_self_0 s : N.lxor s s = 0%N.
Proof. apply N.lxor_nilpotent. Qed.

(* ---------- single-step facts ---------- *)
Section Steps.
  Variable n : nat.
  Variable v : N -> Q.
  Hypothesis HSA : SA n v.
  Hypothesis HMo : Mono n v.
  Hypothesis Hv0 : v 0%N == 0.

  Definition LInv (l : N -> Q) : Prop := forall s, bounded n s -> l s <= v s.

  Lemma lowerF_self_le l s : LInv l -> bounded n s -> s <> 0%N -> lowerF_self n l s <= v s.
  Proof.
    intros HI Hb Hne. unfold lowerF_self. apply qmaxl_lub.
    - apply map_neq_nil. intro E.
      assert (Hin : In s (sam_splits n 1 s)) by (apply in_sam_splits1; auto).
      rewrite E in Hin. destruct Hin.
    - intros x Hx. apply in_map_iff in Hx. destruct Hx as [a [<- Ha]].
      apply in_sam_splits1 in Ha. destruct Ha as [Hba [Hane [Hss| ->]]].
      + pose proof (ssub_sub _ _ Hss) as Hsub.
        rewrite (lxor_ldiff a s Hsub).
        pose proof (HI a Hba). pose proof (HI (N.ldiff s a) (bounded_ldiff n s a Hb)).
        pose proof (HSA a (N.ldiff s a) Hba (bounded_ldiff n s a Hb) (disjb_ldiff a s)) as H3.
        rewrite (lor_ldiff a s Hsub) in H3. lra.
      + rewrite lxor_self_0. pose proof (HI s Hb). pose proof (HI 0%N (bounded_0 n)). lra.
  Qed.

  Lemma lowerF_self_ge l s : l 0%N == 0 -> bounded n s -> s <> 0%N -> l s <= lowerF_self n l s.
  Proof.
    intros H0 Hb Hne. unfold lowerF_self.
    eapply Qle_trans; [| apply qmaxl_ge; apply in_map_iff; exists s; split; [reflexivity| apply in_sam_splits1; auto]].
    rewrite lxor_self_0, H0. lra.
  Qed.

  Lemma monoF_le l s : LInv l -> bounded n s -> monoF n l s <= v s.
  Proof.
    intros HI Hb. unfold monoF. apply qmaxl_lub.
    - apply map_neq_nil. intro E.
      assert (Hin : In s (supers_or_self n s)) by (apply in_supers_or_self; auto).
      rewrite E in Hin. destruct Hin.
    - intros x Hx. apply in_map_iff in Hx. destruct Hx as [T [<- HT]].
      apply in_supers_or_self in HT. destruct HT as [HbT [Hss| ->]].
      + eapply Qle_trans; [apply HI; exact HbT|]. apply HMo; auto. apply ssub_sub. exact Hss.
      + apply HI. exact Hb.
  Qed.

  Lemma monoF_ge l s : bounded n s -> l s <= monoF n l s.
  Proof.
    intros Hb. unfold monoF. apply qmaxl_ge. apply in_map. apply in_supers_or_self. auto.
  Qed.
End Steps.

(* ---------- generic: a fold of lower-column writes, each bounded by the truth and non-decreasing ---------- *)
Section GrowFold.
  Variable n : nat.
  Variable v : N -> Q.
  Variable F : (N -> Q) -> N -> Q.
  Variable P : (N -> Q) -> Prop.       (* side invariant on the column needed by the step facts *)

  Lemma lo_fold_inv (us : list N) (t : table) (I : (N -> Q) -> Prop) :
    (forall t s, In s us -> I (L t) -> I (L (lo_step F t s))) ->
    I (L t) -> I (L (fold_left (lo_step F) us t)).
  Proof.
    revert t. induction us as [|x us IH]; intros t Hstep HI; simpl; [exact HI|].
    apply IH.
    - intros t0 s Hs. apply Hstep. right. exact Hs.
    - apply Hstep; [left; reflexivity| exact HI].
  Qed.
End GrowFold.

Lemma LInv_step n v F t s :
  bounded n s -> LInv n v (L t) -> F (L t) s <= v s -> LInv n v (L (lo_step F t s)).
Proof.
  intros Hb HI Hle a Ha. rewrite lo_step_L. destruct (N.eqb_spec a s) as [->|]; [rewrite Qred_correct; exact Hle| apply HI; exact Ha].
Qed.

(* column order: pointwise <= on bounded coalitions *)
Definition lle (n : nat) (l1 l2 : N -> Q) : Prop := forall s, bounded n s -> l1 s <= l2 s.

Lemma lle_step n F t s : bounded n s -> L t s <= F (L t) s -> lle n (L t) (L (lo_step F t s)).
Proof.
  intros Hb Hle a Ha. rewrite lo_step_L. destruct (N.eqb_spec a s) as [->|]; [rewrite Qred_correct; exact Hle| apply Qle_refl].
Qed.

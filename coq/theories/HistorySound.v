(* HistorySound: soundness of the bounds after ANY history of public operations that carry true values of the hidden
   game (C01 / C04 with the quantifier "histories" explicit in the statement). *)
From ICG Require Import Prelude Bits Table Bounds GameOps FoldLemmas BoundsSpec SASound SAEquiv SAMSpec SAMSound GameOpsProofs.

(* the operation reveals / sets only true values of v *)
Definition truthful (n : nat) (v : N -> Q) (o : op) : Prop :=
  match o with
  | OSet s x | OReveal s x => x == v s
  | OSetValuesAll xs | OSetKnownAll xs => Forall2 (fun s x => x == v s) (firstn (length xs) (alln n)) xs
  | OSetValuesSome ss xs | OSetKnownSome ss xs => Forall2 (fun s x => x == v s) (firstn (length xs) ss) xs
  | _ => True
  end.

Definition amap_true (v : N -> Q) (m : amap) : Prop := forall s x, m s = Some x -> x == v s.

Lemma last_assigned_in sx s x : last_assigned sx s = Some x -> In (s, x) sx.
Proof.
  unfold last_assigned.
  assert (G : forall acc, fold_left (fun acc p => if N.eqb (fst p) s then Some (snd p) else acc) sx acc = Some x ->
                          In (s, x) sx \/ acc = Some x).
  { induction sx as [|p sx IH]; intros acc H; simpl in *; [right; exact H|].
    destruct (IH _ H) as [Hin|E]; [left; right; exact Hin|].
    destruct (N.eqb_spec (fst p) s) as [Es|]; [|right; exact E].
    left. left. destruct p as [a b]. simpl in *. subst. injection E as <-. reflexivity. }
  intros H. destruct (G None H) as [?|?]; [assumption| discriminate].
Qed.

Lemma Forall2_combine_in {A B} (R : A -> B -> Prop) l1 l2 a b : Forall2 R l1 l2 -> In (a, b) (combine l1 l2) -> R a b.
Proof.
  intros H. induction H as [|x y l1 l2 Hxy H IH]; simpl; [intros []|].
  intros [E|Hin]; [injection E as <- <-; exact Hxy| apply IH; exact Hin].
Qed.

Lemma amap_true_init v : v 0%N == 0 -> amap_true v a_init.
Proof. intros H0 s x. unfold a_init. destruct (N.eqb_spec s 0) as [->|]; [intros [= <-]; symmetry; exact H0| discriminate]. Qed.

Lemma amap_true_assign v m ss xs :
  amap_true v m -> Forall2 (fun s x => x == v s) (firstn (length xs) ss) xs ->
  amap_true v (a_assign m (combine (firstn (length xs) ss) xs)).
Proof.
  intros Hm HF s x. unfold a_assign. destruct (last_assigned _ s) as [y|] eqn:E.
  - intros [= <-]. apply last_assigned_in in E. apply (Forall2_combine_in _ _ _ _ _ HF E).
  - apply Hm.
Qed.

Lemma combine_firstn_len {A B} (l1 : list A) (l2 : list B) : combine l1 l2 = combine (firstn (length l2) l1) l2.
Proof.
  revert l2. induction l1 as [|a l1 IH]; intros [|b l2]; simpl; try reflexivity. f_equal. apply IH.
Qed.

Lemma amap_true_step n v m o : v 0%N == 0 -> amap_true v m -> truthful n v o -> amap_true v (a_step n m o).
Proof.
  intros H0 Hm Ht. destruct o; simpl in *; try exact Hm.
  - intros a y. unfold a_set. destruct (N.eqb_spec a s) as [->|]; [intros [= <-]; exact Ht| apply Hm].
  - intros a y. unfold a_unset. destruct (N.eqb a s); [discriminate| apply Hm].
  - destruct (isSome (m s)); [exact Hm|]. intros a y. unfold a_set.
    destruct (N.eqb_spec a s) as [->|]; [intros [= <-]; exact Ht| apply Hm].
  - destruct (isSome (m s)); [|exact Hm]. intros a y. unfold a_unset. destruct (N.eqb a s); [discriminate| apply Hm].
  - destruct (length xs =? 2 ^ n)%nat; [|exact Hm]. rewrite combine_firstn_len. apply amap_true_assign; assumption.
  - destruct (length ss <? length xs)%nat; [exact Hm|]. apply amap_true_assign; assumption.
  - destruct (length xs =? 2 ^ n)%nat; [|apply amap_true_init; exact H0].
    rewrite combine_firstn_len. apply amap_true_assign; [apply amap_true_init; exact H0| exact Ht].
  - destruct (length ss <? length xs)%nat; [apply amap_true_init; exact H0|].
    apply amap_true_assign; [apply amap_true_init; exact H0| exact Ht].
Qed.

Lemma amap_true_history n v ops : v 0%N == 0 -> Forall (truthful n v) ops -> amap_true v (known_spec n ops).
Proof.
  intros H0. unfold known_spec.
  assert (G : forall m, amap_true v m -> Forall (truthful n v) ops -> amap_true v (fold_left (a_step n) ops m)).
  { induction ops as [|o ops IH]; intros m Hm HF; simpl; [exact Hm|].
    inversion HF as [|? ? Ho HF']; subst. apply IH; [apply amap_true_step; assumption| exact HF']. }
  intros HF. apply G; [apply amap_true_init; exact H0| exact HF].
Qed.

(* after any truthful history the table holds exactly its own knowledge of v *)
Theorem history_agrees n v ops :
  v 0%N == 0 -> forallb public_op ops = true -> Forall (truthful n v) ops ->
  agrees n (run n ops init_table) (Kn (run n ops init_table)) v.
Proof.
  intros H0 Hp HF s Hb. split; [reflexivity|]. intros Hk.
  destruct (ops_refine_spec n ops Hp s) as [E Hx]. rewrite Hk in E.
  destruct (known_spec n ops s) as [x|] eqn:Es; [|discriminate].
  destruct (Hx x eq_refl) as [-> ->]. pose proof (amap_true_history n v ops H0 HF s x Es). auto.
Qed.

(* C01 over histories: reveal / un-reveal / set / bulk set / bulk reset / bulk bound set / recompute, in any order *)
Theorem sa_sound_history (c : computer) n v ops t' :
  (c = CRef \/ c = CCached) -> SA n v -> v 0%N == 0 ->
  forallb public_op ops = true -> Forall (truthful n v) ops ->
  MinK n (Kn (run n ops init_table)) -> compute c n (run n ops init_table) = Some t' ->
  forall s, bounded n s -> sound_at n (Kn (run n ops init_table)) v (run n ops init_table) t' s.
Proof.
  intros Hc HSA H0 Hp HF HM Hcomp. eapply sa_sound; eauto. apply history_agrees; assumption.
Qed.

(* C04 over histories *)
Theorem sam_sound_history n r v ops t' :
  SA n v -> Mono n v -> v 0%N == 0 ->
  forallb public_op ops = true -> Forall (truthful n v) ops ->
  MinK n (Kn (run n ops init_table)) -> compute_sam n r (run n ops init_table) = Some t' ->
  forall s, bounded n s -> sound_at n (Kn (run n ops init_table)) v (run n ops init_table) t' s.
Proof.
  intros HSA HMo H0 Hp HF HM Hcomp. eapply sam_sound; eauto. apply history_agrees; assumption.
Qed.

(* SolversProofs: the built-in solvers pick valid actions by their rule (C13). *)
From ICG Require Import Prelude Bits Table Bounds GameOps FoldLemmas SAKnowledge SAMKnowledge Shapley Exploit Norms Env EnvProofs.
From Coq Require Import ZArith.

(* ---------- valid actions ---------- *)
Lemma sv_valid_spec_gen (mask : list bool) (st : nat) a :
  In a (map fst (filter snd (combine (seq st (length mask)) mask))) <-> (st <= a)%nat /\ nth_error mask (a - st) = Some true.
Proof.
  revert st. induction mask as [|b mask IH]; intros st; simpl.
  - split; [intros []| intros [_ H]; destruct (a - st)%nat; discriminate].
  - destruct b; simpl.
    + rewrite IH. split.
      * intros [<-|[H1 H2]]; [rewrite Nat.sub_diag; simpl; auto|].
        split; [lia|]. replace (a - st)%nat with (S (a - S st)) by lia. exact H2.
      * intros [H1 H2]. destruct (Nat.eq_dec st a) as [->|Hne]; [left; reflexivity| right].
        split; [lia|]. replace (a - st)%nat with (S (a - S st)) in H2 by lia. exact H2.
    + rewrite IH. split.
      * intros [H1 H2]. split; [lia|]. replace (a - st)%nat with (S (a - S st)) by lia. exact H2.
      * intros [H1 H2]. destruct (Nat.eq_dec st a) as [->|Hne]; [rewrite Nat.sub_diag in H2; discriminate|].
        split; [lia|]. replace (a - st)%nat with (S (a - S st)) in H2 by lia. exact H2.
Qed.

Theorem sv_valid_spec e a : In a (sv_valid e) <-> nth_error (ev_mask e) a = Some true.
Proof.
  unfold sv_valid. replace (length (e_expl e)) with (length (ev_mask e)) by (unfold ev_mask; apply map_length).
  rewrite sv_valid_spec_gen, Nat.sub_0_r. split; [tauto| intro H; split; [lia| exact H]].
Qed.

Lemma sv_valid_sorted_gen (mask : list bool) st :
  Sorted.StronglySorted lt (map fst (filter snd (combine (seq st (length mask)) mask))).
Proof.
  revert st. induction mask as [|b mask IH]; intros st; simpl; [constructor|].
  destruct b; simpl; [|apply IH]. constructor; [apply IH|].
  apply Forall_forall. intros x Hx. apply sv_valid_spec_gen in Hx. lia.
Qed.

Theorem sv_valid_increasing e : Sorted.StronglySorted lt (sv_valid e).
Proof.
  unfold sv_valid. replace (length (e_expl e)) with (length (ev_mask e)) by (unfold ev_mask; apply map_length).
  apply sv_valid_sorted_gen.
Qed.

(* ---------- greedy decision ---------- *)
(* position-wise statement: the chosen action sits at the first position whose value attains the optimum *)
Lemma sv_first_eq_spec x acts vals a :
  length acts = length vals -> sv_first_eq x acts vals = Some a ->
  exists i, nth_error acts i = Some a /\ (exists y, nth_error vals i = Some y /\ y == x)
            /\ forall j y, (j < i)%nat -> nth_error vals j = Some y -> ~ y == x.
Proof.
  revert vals. induction acts as [|b acts IH]; intros [|y vals] Hlen H; simpl in *; try discriminate.
  destruct (Qeq_bool y x) eqn:E.
  - injection H as <-. exists 0%nat. split; [reflexivity|]. split; [exists y; split; [reflexivity| apply Qeq_bool_iff; exact E]|].
    intros j z Hj. lia.
  - destruct (IH vals (eq_add_S _ _ Hlen) H) as [i [H1 [H2 H3]]]. exists (S i). split; [exact H1|]. split; [exact H2|].
    intros [|j] z Hj Hz; simpl in Hz.
    + injection Hz as <-. intro Hq. apply Qeq_bool_iff in Hq. congruence.
    + apply (H3 j z); [lia| exact Hz].
Qed.

Lemma sv_first_eq_total x acts vals :
  length acts = length vals -> (exists y, In y vals /\ y == x) -> exists a, sv_first_eq x acts vals = Some a.
Proof.
  revert vals. induction acts as [|b acts IH]; intros [|y vals] Hlen [z [Hz Hq]]; simpl in *; try discriminate; [destruct Hz|].
  destruct (Qeq_bool y x) eqn:E; [eauto|].
  destruct Hz as [->|Hz]; [apply Qeq_bool_iff in Hq; congruence|].
  apply IH; [lia| eauto].
Qed.

Theorem sv_pick_spec worst acts vals a :
  length acts = length vals -> sv_pick worst acts vals = Some a ->
  exists i y, nth_error acts i = Some a /\ nth_error vals i = Some y
    /\ (forall z, In z vals -> if worst then y <= z else z <= y)              (* optimal *)
    /\ (forall j z, (j < i)%nat -> nth_error vals j = Some z -> if worst then y < z else z < y).  (* first: ties go to the lowest index *)
Proof.
  intros Hlen H. unfold sv_pick in H. destruct vals as [|v0 vr] eqn:Ev; [discriminate|]. rewrite <- Ev in *.
  assert (Hne : vals <> []) by (rewrite Ev; discriminate).
  destruct (sv_first_eq_spec _ acts vals a Hlen H) as [i [H1 [[y [H2 Hy]] H3]]].
  exists i, y. split; [exact H1|]. split; [exact H2|].
  unfold sv_opt in *. destruct worst.
  - split.
    + intros z Hz. rewrite Hy. apply qminl_le. exact Hz.
    + intros j z Hj Hz. pose proof (H3 j z Hj Hz) as Hn.
      assert (Hle : qminl vals <= z) by (apply qminl_le; eapply nth_error_In; eauto).
      rewrite Hy. destruct (Qlt_le_dec (qminl vals) z) as [|Hge]; auto. exfalso. apply Hn. apply Qle_antisym; assumption.
  - split.
    + intros z Hz. rewrite Hy. apply qmaxl_ge. exact Hz.
    + intros j z Hj Hz. pose proof (H3 j z Hj Hz) as Hn.
      assert (Hle : z <= qmaxl vals) by (apply qmaxl_ge; eapply nth_error_In; eauto).
      rewrite Hy. destruct (Qlt_le_dec z (qmaxl vals)) as [|Hge]; auto. exfalso. apply Hn. apply Qle_antisym; assumption.
Qed.

Theorem sv_pick_total worst acts vals : length acts = length vals -> vals <> [] -> exists a, sv_pick worst acts vals = Some a.
Proof.
  intros Hlen Hne. unfold sv_pick. destruct vals as [|v0 vr] eqn:Ev; [congruence|]. rewrite <- Ev in *.
  apply sv_first_eq_total; auto. unfold sv_opt. destruct worst.
  - destruct (qminl_in vals Hne) as [y [Hy E]]. exists y. split; [exact Hy| symmetry; exact E].
  - destruct (qmaxl_in vals Hne) as [y [Hy E]]. exists y. split; [exact Hy| symmetry; exact E].
Qed.

Lemma sv_all_some_length {A} (l : list (option A)) xs : sv_all_some l = Some xs -> length xs = length l.
Proof.
  revert xs. induction l as [|[x|] l IH]; intros xs H; simpl in *; [injection H as <-; reflexivity| |discriminate].
  destruct (sv_all_some l) as [ys|]; [|discriminate]. injection H as <-. simpl. f_equal. apply IH. reflexivity.
Qed.

Lemma sv_all_some_nth {A} (l : list (option A)) xs i x : sv_all_some l = Some xs -> nth_error xs i = Some x -> nth_error l i = Some (Some x).
Proof.
  revert xs i. induction l as [|[y|] l IH]; intros xs i H Hx; simpl in *; [injection H as <-; destruct i; discriminate| |discriminate].
  destruct (sv_all_some l) as [ys|] eqn:E; [|discriminate]. injection H as <-.
  destruct i; simpl in *; [congruence|]. eapply IH; eauto.
Qed.

(* greedy: a valid action whose tried reward is maximal (minimal if worst), ties to the lowest index *)
Theorem sv_greedy_spec worst e a :
  sv_greedy worst e = Some a ->
  In a (sv_valid e) /\ exists r, sv_try e a = Some r
    /\ (forall b rb, In b (sv_valid e) -> sv_try e b = Some rb -> if worst then r <= rb else rb <= r)
    /\ (forall b rb, In b (sv_valid e) -> (b < a)%nat -> sv_try e b = Some rb -> if worst then r < rb else rb < r).
Proof.
  unfold sv_greedy. intros H.
  destruct (sv_all_some (map (sv_try e) (sv_valid e))) as [vals|] eqn:Ev; [|discriminate].
  pose proof (sv_all_some_length _ _ Ev) as Hlen. rewrite map_length in Hlen.
  destruct (sv_pick_spec worst (sv_valid e) vals a (eq_sym Hlen) H) as [i [y [H1 [H2 [H3 H4]]]]].
  assert (Hty : sv_try e a = Some y).
  { pose proof (sv_all_some_nth _ _ i y Ev H2) as Hn. rewrite nth_error_map, H1 in Hn. simpl in Hn. congruence. }
  split; [eapply nth_error_In; eauto|]. exists y. split; [exact Hty|].
  assert (Hpos : forall b rb, In b (sv_valid e) -> sv_try e b = Some rb -> exists j, nth_error (sv_valid e) j = Some b /\ nth_error vals j = Some rb).
  { intros b rb Hb Hr. destruct (In_nth_error _ _ Hb) as [j Hj]. exists j. split; [exact Hj|].
    assert (Hjl : (j < length vals)%nat) by (rewrite Hlen; apply nth_error_Some; congruence).
    destruct (nth_error vals j) as [z|] eqn:Ez; [|apply nth_error_None in Ez; lia].
    pose proof (sv_all_some_nth _ _ j z Ev Ez) as Hn. rewrite nth_error_map, Hj in Hn. simpl in Hn. congruence. }
  split.
  - intros b rb Hb Hr. destruct (Hpos b rb Hb Hr) as [j [_ Hj]]. apply H3. eapply nth_error_In; eauto.
  - intros b rb Hb Hlt Hr. destruct (Hpos b rb Hb Hr) as [j [Hjb Hj]]. apply (H4 j rb); [|exact Hj].
    (* positions are ordered like the (strictly increasing) actions *)
    pose proof (sv_valid_increasing e) as Hs.
    destruct (Nat.lt_ge_cases j i) as [|Hge]; auto. exfalso.
    destruct (Nat.eq_dec j i) as [->|Hne]; [rewrite H1 in Hjb; injection Hjb as ->; lia|].
    assert (Hij : (i < j)%nat) by lia.
    assert (Hlt' : (a < b)%nat).
    { clear -Hs H1 Hjb Hij. revert i j H1 Hjb Hij. induction Hs as [|x l Hs IH Hall]; intros i j H1 Hjb Hij; [destruct i; discriminate|].
      destruct i, j; simpl in *; try lia.
      - injection H1 as ->. rewrite Forall_forall in Hall. apply Hall. eapply nth_error_In; eauto.
      - apply (IH i j); auto. lia. }
    lia.
Qed.

(* largest: a valid action whose coalition has maximal size among the valid ones, lowest index among those *)
Lemma sv_first_size_spec m acts sizes a :
  length acts = length sizes -> sv_first_size m acts sizes = Some a ->
  exists i, nth_error acts i = Some a /\ nth_error sizes i = Some m
            /\ forall j k, (j < i)%nat -> nth_error sizes j = Some k -> k <> m.
Proof.
  revert sizes. induction acts as [|b acts IH]; intros [|k sizes] Hlen H; simpl in *; try discriminate.
  destruct (Nat.eqb_spec k m) as [->|Hne].
  - injection H as <-. exists 0%nat. split; [reflexivity|]. split; [reflexivity|]. intros j z Hj. lia.
  - destruct (IH sizes (eq_add_S _ _ Hlen) H) as [i [H1 [H2 H3]]]. exists (S i). split; [exact H1|]. split; [exact H2|].
    intros [|j] z Hj Hz; simpl in Hz; [congruence| apply (H3 j z); [lia| exact Hz]].
Qed.

Lemma fold_max_ge l x : In x l -> (x <= fold_right Nat.max 0 l)%nat.
Proof. induction l as [|y l IH]; simpl; [intros []| intros [->|H]; [lia| specialize (IH H); lia]]. Qed.

Definition sv_size (e : env) (a : nat) : nat :=
  match ev_coal e a with Some s => size (e_n e) s | None => 0%nat end.

Theorem sv_largest_spec e a :
  sv_largest e = Some a ->
  In a (sv_valid e)
  /\ (forall b, In b (sv_valid e) -> (sv_size e b <= sv_size e a)%nat)
  /\ (forall b, In b (sv_valid e) -> (b < a)%nat -> (sv_size e b < sv_size e a)%nat).
Proof.
  unfold sv_largest. intros H.
  change (map (fun a0 => match ev_coal e a0 with Some s => size (e_n e) s | None => 0%nat end) (sv_valid e))
    with (map (sv_size e) (sv_valid e)) in H.
  remember (map (sv_size e) (sv_valid e)) as sizes eqn:Es.
  destruct (sv_valid e) as [|a0 ar] eqn:Ev; [discriminate|]. rewrite <- Ev in *.
  assert (Hlen : length (sv_valid e) = length sizes) by (rewrite Es, map_length; reflexivity).
  destruct (sv_first_size_spec _ _ _ a Hlen H) as [i [H1 [H2 H3]]].
  assert (Hsa : sv_size e a = fold_right Nat.max 0%nat sizes).
  { pose proof H2 as H2'. rewrite Es in H2' at 1. rewrite nth_error_map, H1 in H2'. simpl in H2'. congruence. }
  split; [eapply nth_error_In; eauto|]. split.
  - intros b Hb. rewrite Hsa. apply fold_max_ge. rewrite Es. apply in_map. exact Hb.
  - intros b Hb Hlt. destruct (In_nth_error _ _ Hb) as [j Hj].
    assert (Hle : (sv_size e b <= sv_size e a)%nat) by (rewrite Hsa; apply fold_max_ge; rewrite Es; apply in_map; exact Hb).
    assert (Hji : (j < i)%nat).
    { pose proof (sv_valid_increasing e) as Hs.
      destruct (Nat.lt_ge_cases j i) as [|Hge]; auto. exfalso.
      destruct (Nat.eq_dec j i) as [->|Hne]; [rewrite H1 in Hj; injection Hj as ->; lia|].
      assert (Hij : (i < j)%nat) by lia.
      assert (a < b)%nat; [|lia].
      clear -Hs H1 Hj Hij. revert i j H1 Hj Hij. induction Hs as [|x l Hs IH Hall]; intros i j H1 Hj Hij; [destruct i; discriminate|].
      destruct i, j; simpl in *; try lia.
      - injection H1 as ->. rewrite Forall_forall in Hall. apply Hall. eapply nth_error_In; eauto.
      - apply (IH i j); auto. lia. }
    assert (Hne : sv_size e b <> fold_right Nat.max 0%nat sizes).
    { apply (H3 j); [exact Hji|]. rewrite Es at 1. rewrite nth_error_map, Hj. reflexivity. }
    lia.
Qed.

(* trying an action = reward after a step; the step is undone exactly by unstep (C09_step_unstep),
   so a solver that tries every valid action leaves the environment as it found it *)
Theorem sv_try_is_step_reward e a r :
  sv_try e a = Some r -> exists e1 g, ev_step e a = Some e1 /\ ev_gapv e1 = Some g /\ r = - g.
Proof.
  unfold sv_try. destruct (ev_step e a) as [e1|] eqn:E1; [|discriminate]. destruct (ev_gapv e1) as [g|] eqn:E2; [|discriminate].
  intros Hr. injection Hr as <-. exists e1, g. repeat split; auto.
Qed.

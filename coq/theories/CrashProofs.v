(* CrashProofs: theorems about Crash.v (C20). *)
From Coq Require Import List NArith Bool Arith Lia.
From ICG Require Import Store StoreProofs Crash.
Import ListNotations.

(* ---------- finite maps ---------- *)
Section Maps.
  Context {A : Type}.
  Implicit Types (m : list (N * A)) (k : N).

  Lemma cr_get_del_same m k : cr_get (cr_del m k) k = None.
  Proof.
    induction m as [|[k' v] m IH]; cbn; [reflexivity|]. destruct (N.eqb k k') eqn:E; [exact IH|].
    cbn. rewrite E. exact IH.
  Qed.

  Lemma cr_get_del_other m k k' : k' <> k -> cr_get (cr_del m k) k' = cr_get m k'.
  Proof.
    intro H. induction m as [|[k2 v] m IH]; cbn; [reflexivity|]. destruct (N.eqb k k2) eqn:E.
    - apply N.eqb_eq in E. subst k2. rewrite IH. apply N.eqb_neq in H. rewrite H. reflexivity.
    - cbn. rewrite IH. reflexivity.
  Qed.

  Lemma cr_get_put_same m k v : cr_get (cr_put m k v) k = Some v.
  Proof. unfold cr_put. cbn. rewrite N.eqb_refl. reflexivity. Qed.

  Lemma cr_get_put_other m k k' v : k' <> k -> cr_get (cr_put m k v) k' = cr_get m k'.
  Proof.
    intro H. unfold cr_put. cbn. apply N.eqb_neq in H. rewrite H. apply cr_get_del_other. apply N.eqb_neq. exact H.
  Qed.
End Maps.

Lemma cr_rev_rev_append (x c : cr_bytes) : cr_rev (rev_append x c) = cr_rev c ++ x.
Proof.
  unfold cr_rev. rewrite !rev_append_rev, !app_nil_r, rev_app_distr, rev_involutive. reflexivity.
Qed.

Lemma cr_rev_nil : cr_rev [] = [].
Proof. reflexivity. Qed.

Lemma cr_bytes_eqb_eq a b : cr_bytes_eqb a b = true <-> a = b.
Proof.
  split.
  - revert b. induction a as [|x a IH]; intros [|y b] H; cbn in H; try discriminate; [reflexivity|].
    apply andb_true_iff in H. destruct H as [H1 H2]. apply N.eqb_eq in H1. subst. f_equal. apply IH. exact H2.
  - intros ->. induction b as [|x b IH]; cbn; [reflexivity|]. rewrite N.eqb_refl. exact IH.
Qed.

Lemma cr_file_put_same fs p c : cr_file (cr_put fs p c) p = Some (cr_rev c).
Proof. unfold cr_file. rewrite cr_get_put_same. reflexivity. Qed.

Lemma cr_file_put_other fs p p' c : p' <> p -> cr_file (cr_put fs p c) p' = cr_file fs p'.
Proof. intro H. unfold cr_file. rewrite cr_get_put_other by exact H. reflexivity. Qed.

Lemma cr_file_del_other fs p p' : p' <> p -> cr_file (cr_del fs p) p' = cr_file fs p'.
Proof. intro H. unfold cr_file. rewrite cr_get_del_other by exact H. reflexivity. Qed.

Lemma cr_run_app s t1 t2 : cr_run s (t1 ++ t2) = cr_run (cr_run s t1) t2.
Proof. unfold cr_run. apply fold_left_app. Qed.

Lemma cr_written_app b1 b2 : cr_written (b1 ++ b2) = cr_written b1 ++ cr_written b2.
Proof.
  induction b1 as [|o b1 IH]; cbn; [reflexivity|]. destruct o; try exact IH. rewrite IH, app_assoc. reflexivity.
Qed.

Lemma cr_put_single {A} (h : N) (v v' : A) : cr_put [(h, v)] h v' = [(h, v')].
Proof. unfold cr_put. cbn [cr_del]. rewrite N.eqb_refl. reflexivity. Qed.

Lemma cr_del_single {A} (h : N) (v : A) : cr_del [(h, v)] h = [].
Proof. cbn [cr_del]. rewrite N.eqb_refl. reflexivity. Qed.

Lemma cr_get_single {A} (h : N) (v : A) : cr_get [(h, v)] h = Some v.
Proof. cbn [cr_get]. rewrite N.eqb_refl. reflexivity. Qed.

(* ---------- a save in progress on a private path ---------- *)
(* [cr_writing fs0 h p q s w]: the only open handle is h, it points to q, the bytes written so far are w
   (file q followed by the buffer), and every path other than q still reads as in fs0. *)
Definition cr_writing (fs0 : cr_fsmap) (h q : N) (s : cr_state) (w : cr_bytes) : Prop :=
  exists c buf,
    cr_open s = [(h, (Some q, buf))] /\ cr_get (cr_fs s) q = Some c /\ cr_rev c ++ buf = w /\
    forall p, p <> q -> cr_file (cr_fs s) p = cr_file fs0 p.

Lemma cr_writing_open fs0 h q trunc :
  (trunc = Cr_OpenTrunc h q \/ trunc = Cr_OpenTmp h q) ->
  cr_writing fs0 h q (cr_step (cr_init fs0) trunc) [].
Proof.
  intros [-> | ->]; cbn; exists [], []; (split; [reflexivity|]); (split; [apply cr_get_put_same|]);
    (split; [reflexivity|]); intros p Hp; apply cr_file_put_other; exact Hp.
Qed.

Lemma cr_writing_step fs0 h q s w o :
  cr_writing fs0 h q s w -> cr_body_op h o = true ->
  cr_writing fs0 h q (cr_step s o) (w ++ cr_written [o]).
Proof.
  intros (c & buf & Ho & Hq & Hw & Hrest) Hop.
  destruct o as [| |h' b|h' n|h'| |]; cbn in Hop; try discriminate; apply N.eqb_eq in Hop; subst h'; cbn [cr_step];
    rewrite Ho, cr_get_single, cr_put_single; cbn [cr_written cr_fs cr_open cr_append]; rewrite ?Hq.
  - (* write *)
    exists c, (buf ++ b). repeat split; try assumption.
    rewrite app_nil_r, app_assoc, Hw. reflexivity.
  - (* spill *)
    exists (rev_append (firstn n buf) c), (skipn n buf). split; [reflexivity|].
    split; [apply cr_get_put_same|]. split.
    + rewrite cr_rev_rev_append, <- app_assoc, firstn_skipn, app_nil_r. exact Hw.
    + intros p Hp. cbn [cr_fs]. rewrite cr_file_put_other by exact Hp. apply Hrest. exact Hp.
  - (* flush *)
    exists (rev_append buf c), []. split; [reflexivity|].
    split; [apply cr_get_put_same|]. split.
    + rewrite cr_rev_rev_append, !app_nil_r. exact Hw.
    + intros p Hp. cbn [cr_fs]. rewrite cr_file_put_other by exact Hp. apply Hrest. exact Hp.
Qed.

Lemma cr_writing_run fs0 h q body : forall s w,
  cr_writing fs0 h q s w -> forallb (cr_body_op h) body = true ->
  cr_writing fs0 h q (cr_run s body) (w ++ cr_written body).
Proof.
  induction body as [|o body IH]; intros s w Hs Hb.
  - cbn. rewrite app_nil_r. exact Hs.
  - cbn in Hb. apply andb_true_iff in Hb. destruct Hb as [Ho Hb].
    change (cr_run s (o :: body)) with (cr_run (cr_step s o) body).
    change (o :: body) with ([o] ++ body). rewrite cr_written_app, app_assoc.
    apply IH; [|exact Hb]. apply cr_writing_step; assumption.
Qed.

(* wherever a save in progress stops, in whichever way, the other paths are untouched *)
Lemma cr_writing_stop fs0 h q s w m p :
  cr_writing fs0 h q s w -> p <> q -> cr_file (cr_stop m s) p = cr_file fs0 p.
Proof.
  intros (c & buf & Ho & Hq & Hw & Hrest) Hp. destruct m as [| |n]; cbn [cr_stop].
  - apply Hrest. exact Hp.
  - unfold cr_unwind. rewrite Ho. cbn [map fst cr_run fold_left cr_step]. rewrite Ho, cr_get_single.
    cbn [cr_fs cr_append]. rewrite Hq. rewrite cr_file_put_other by exact Hp. apply Hrest. exact Hp.
  - unfold cr_unwind_partial. rewrite Ho. cbn [map fst cr_run fold_left cr_step]. rewrite Ho, cr_get_single.
    cbn [cr_fs cr_append]. rewrite Hq. rewrite cr_file_put_other by exact Hp. apply Hrest. exact Hp.
Qed.

(* closing: q holds everything that was written, nothing is open *)
Lemma cr_writing_close fs0 h q s w :
  cr_writing fs0 h q s w ->
  let s' := cr_step s (Cr_Close h) in
  cr_open s' = [] /\ cr_file (cr_fs s') q = Some w /\ forall p, p <> q -> cr_file (cr_fs s') p = cr_file fs0 p.
Proof.
  intros (c & buf & Ho & Hq & Hw & Hrest). cbn zeta. cbn [cr_step]. rewrite Ho, cr_get_single, cr_del_single.
  cbn [cr_fs cr_open cr_append]. rewrite Hq.
  split; [reflexivity|]. split.
  - rewrite cr_file_put_same, cr_rev_rev_append. f_equal. exact Hw.
  - intros p Hp. rewrite cr_file_put_other by exact Hp. apply Hrest. exact Hp.
Qed.

Lemma cr_stop_closed m s : cr_open s = [] -> cr_stop m s = cr_fs s.
Proof.
  intro H. destruct m; cbn; [reflexivity| |]; unfold cr_unwind, cr_unwind_partial; rewrite H; reflexivity.
Qed.

Lemma cr_firstn_app_cases {A} (l1 l2 : list A) k :
  (k <= length l1 /\ firstn k (l1 ++ l2) = firstn k l1) \/
  (length l1 < k /\ firstn k (l1 ++ l2) = l1 ++ firstn (k - length l1) l2).
Proof.
  destruct (Nat.le_gt_cases k (length l1)) as [H|H].
  - left. split; [exact H|]. rewrite firstn_app. replace (k - length l1) with 0 by lia. cbn. apply app_nil_r.
  - right. split; [exact H|]. rewrite firstn_app. rewrite firstn_all2 by lia. reflexivity.
Qed.

Lemma cr_forallb_firstn {A} (f : A -> bool) l k : forallb f l = true -> forallb f (firstn k l) = true.
Proof.
  revert k. induction l as [|x l IH]; intros [|k] H; cbn; try reflexivity.
  cbn in H. apply andb_true_iff in H. destruct H as [H1 H2]. rewrite H1. apply IH. exact H2.
Qed.

(* ---------- the temp + replace scheme is all-or-nothing ---------- *)
Section Atomic.
  Variables (fs0 : cr_fsmap) (h p q : N) (body : list cr_op) (payload : cr_bytes).
  Hypothesis Hpq : p <> q.
  Hypothesis Hbody : cr_body_ok h payload body = true.

  Lemma cr_body_ok_parts : forallb (cr_body_op h) body = true /\ cr_written body = payload.
  Proof.
    unfold cr_body_ok in Hbody. apply andb_true_iff in Hbody. destruct Hbody as [H1 H2].
    split; [exact H1| apply cr_bytes_eqb_eq; exact H2].
  Qed.

  (* after open + a prefix of the body *)
  Lemma cr_atomic_phase1 j :
    exists w, cr_writing fs0 h q (cr_run (cr_init fs0) (Cr_OpenTmp h q :: firstn j body)) w.
  Proof.
    destruct cr_body_ok_parts as [Hops _].
    eexists. change (cr_run (cr_init fs0) (Cr_OpenTmp h q :: firstn j body))
      with (cr_run (cr_step (cr_init fs0) (Cr_OpenTmp h q)) (firstn j body)).
    apply cr_writing_run; [apply cr_writing_open; right; reflexivity|]. apply cr_forallb_firstn. exact Hops.
  Qed.

  (* after open + body + close *)
  Lemma cr_atomic_phase2 :
    let s := cr_run (cr_init fs0) (Cr_OpenTmp h q :: body ++ [Cr_Close h]) in
    cr_open s = [] /\ cr_file (cr_fs s) q = Some payload /\ forall p', p' <> q -> cr_file (cr_fs s) p' = cr_file fs0 p'.
  Proof.
    destruct cr_body_ok_parts as [Hops Hw].
    cbn zeta. change (Cr_OpenTmp h q :: body ++ [Cr_Close h]) with ((Cr_OpenTmp h q :: body) ++ [Cr_Close h]).
    rewrite cr_run_app.
    assert (W : cr_writing fs0 h q (cr_run (cr_init fs0) (Cr_OpenTmp h q :: body)) payload).
    { change (cr_run (cr_init fs0) (Cr_OpenTmp h q :: body)) with (cr_run (cr_step (cr_init fs0) (Cr_OpenTmp h q)) body).
      rewrite <- Hw. change (cr_written body) with ([] ++ cr_written body).
      apply cr_writing_run; [apply cr_writing_open; right; reflexivity| exact Hops]. }
    exact (cr_writing_close _ _ _ _ _ W).
  Qed.

  (* after the whole trace *)
  Lemma cr_atomic_phase3 :
    let s := cr_run (cr_init fs0) (cr_save_atomic h p q body) in
    cr_open s = [] /\ cr_file (cr_fs s) p = Some payload.
  Proof.
    cbn zeta. unfold cr_save_atomic.
    replace (Cr_OpenTmp h q :: body ++ [Cr_Close h; Cr_Replace q p])
      with ((Cr_OpenTmp h q :: body ++ [Cr_Close h]) ++ [Cr_Replace q p])
      by (cbn; rewrite <- app_assoc; reflexivity).
    rewrite cr_run_app. destruct cr_atomic_phase2 as (Ho & Hq & _).
    set (s := cr_run (cr_init fs0) (Cr_OpenTmp h q :: body ++ [Cr_Close h])) in *.
    change (cr_run s [Cr_Replace q p]) with (cr_step s (Cr_Replace q p)). cbn [cr_step].
    unfold cr_file in Hq. destruct (cr_get (cr_fs s) q) as [c|] eqn:G; [|discriminate].
    cbn [cr_open cr_fs]. rewrite Ho. split; [reflexivity|]. rewrite cr_file_put_same. exact Hq.
  Qed.

  (* for every k, also beyond the end of the trace (then the save has completed) *)
  Theorem cr_atomic_all_or_nothing k m :
    cr_crash_at m (cr_save_atomic h p q body) k fs0 p = cr_file fs0 p \/
    cr_crash_at m (cr_save_atomic h p q body) k fs0 p = Some payload.
  Proof.
    unfold cr_crash_at, cr_crash, cr_save_atomic.
    destruct k as [|k].
    - left. cbn [firstn]. rewrite cr_stop_closed by reflexivity. reflexivity.
    - cbn [firstn]. destruct (cr_firstn_app_cases body [Cr_Close h; Cr_Replace q p] k) as [[_ ->] | [Hk ->]].
      + left. destruct (cr_atomic_phase1 k) as [w W]. apply (cr_writing_stop _ _ _ _ _ m p W Hpq).
      + remember (k - length body) as j. destruct j as [|[|j]]; [lia| |].
        * left. cbn [firstn]. destruct cr_atomic_phase2 as (Ho & _ & Hrest). rewrite cr_stop_closed by exact Ho.
          apply Hrest. exact Hpq.
        * right. cbn [firstn]. replace (firstn j []) with (@nil cr_op) by (destruct j; reflexivity).
          destruct cr_atomic_phase3 as (Ho & Hp). unfold cr_save_atomic in Ho, Hp.
          rewrite cr_stop_closed by exact Ho. exact Hp.
  Qed.

  (* the uninterrupted save ends with the complete new file *)
  Lemma cr_atomic_completes :
    cr_file (cr_fs (cr_run (cr_init fs0) (cr_save_atomic h p q body))) p = Some payload.
  Proof. apply cr_atomic_phase3. Qed.
End Atomic.

(* ---------- the in-place scheme is not ---------- *)
(* general form: whatever the old file, the payload, the chunking and the way the process stops, right after the
   truncating open the results file is empty *)
Lemma cr_inplace_truncates fs0 h p body m :
  cr_crash_at m (cr_save_inplace h p body) 1 fs0 p = Some [].
Proof.
  unfold cr_crash_at, cr_crash, cr_save_inplace. cbn [firstn].
  destruct (cr_writing_open fs0 h p (Cr_OpenTrunc h p) (or_introl eq_refl)) as (c & buf & Ho & Hq & Hw & _).
  change (cr_run (cr_init fs0) [Cr_OpenTrunc h p]) with (cr_step (cr_init fs0) (Cr_OpenTrunc h p)).
  cbn in Ho, Hq. rewrite N.eqb_refl in Hq. injection Hq as <-. injection Ho as <-.
  destruct m as [| |n]; cbn; rewrite ?N.eqb_refl; cbn; rewrite ?N.eqb_refl; cbn;
    unfold cr_file; cbn; rewrite ?N.eqb_refl; try reflexivity.
  all: destruct n; cbn; rewrite ?N.eqb_refl; reflexivity.
Qed.

(* and in the middle of the write phase it holds a strict prefix: a concrete instance, by computation.
   old file = {"a":1}, new = {"a":1,"b":2} written as three chunks with one spill *)
Definition cr_ex_old : cr_bytes := [123; 34; 97; 34; 58; 49; 125]%N.
Definition cr_ex_new : cr_bytes := [123; 34; 97; 34; 58; 49; 44; 34; 98; 34; 58; 50; 125]%N.
Definition cr_ex_body : list cr_op :=
  [Cr_Write 1 [123; 34; 97; 34; 58; 49]%N; Cr_Write 1 [44; 34; 98; 34]%N; Cr_Spill 1 8; Cr_Write 1 [58; 50; 125]%N].
Definition cr_ex_fs : cr_fsmap := cr_mkfs [(1%N, cr_ex_old)].

Lemma cr_inplace_refuted :
  exists fs0 h p body payload k m,
    cr_body_ok h payload body = true /\ k <= length (cr_save_inplace h p body) /\
    cr_crash_at m (cr_save_inplace h p body) k fs0 p <> cr_file fs0 p /\
    cr_crash_at m (cr_save_inplace h p body) k fs0 p <> Some payload.
Proof.
  exists cr_ex_fs, 1%N, 1%N, cr_ex_body, cr_ex_new, 4, Cr_Death.
  split; [vm_compute; reflexivity|]. split; [vm_compute; lia|]. split; vm_compute; discriminate.
Qed.

(* ---------- sessions ---------- *)
Section SessionProofs.
  Context {E : Type}.
  Variable encode : list (st_str * E) -> cr_bytes.
  Variable decode : cr_bytes -> option (list (st_str * E)).
  Variable policy : cr_bytes -> list cr_op.
  Variables (h p q : N).
  Hypothesis Hpq : p <> q.
  Hypothesis Hcodec : forall s, decode (encode s) = Some s.                 (* json.loads (json.dumps d) = d : trusted *)
  Hypothesis Hpolicy : forall b, cr_body_ok h b (policy b) = true.         (* the runtime writes the payload, on its handle *)

  Notation store := (list (st_str * E)).

  (* the file represents the dictionary s *)
  Definition cr_holds (fs : cr_fsmap) (s : store) : Prop :=
    (cr_file fs p = None /\ s = []) \/ cr_file fs p = Some (encode s).

  Lemma cr_holds_load fs s : cr_holds fs s -> cr_load decode p fs = Some s.
  Proof. unfold cr_load. intros [[-> ->] | ->]; [reflexivity| apply Hcodec]. Qed.

  Definition cr_grows (s s' : store) : Prop := forall name e, st_lookup name s = Some e -> st_lookup name s' = Some e.

  Lemma cr_save_session_atomic fs s r :
    cr_holds fs s ->
    exists s', cr_holds (cr_save_session encode decode policy h p q Cr_Atomic fs r) s' /\
               (s' = s \/ s' = st_save s (cr_name r) (cr_entry r)) /\
               (cr_fault r = None -> s' = st_save s (cr_name r) (cr_entry r)).
  Proof.
    intro H. unfold cr_save_session. rewrite (cr_holds_load _ _ H).
    destruct (st_mem (cr_name r) s) eqn:M.
    - exists s. split; [exact H|]. split; [left; reflexivity|]. intros _. symmetry. apply st_save_existing_noop. exact M.
    - set (s1 := st_save s (cr_name r) (cr_entry r)). cbn [cr_save_trace].
      destruct (cr_fault r) as [[k m]|].
      + pose proof (cr_atomic_all_or_nothing fs h p q (policy (encode s1)) (encode s1) Hpq (Hpolicy _) k m) as A.
        unfold cr_crash_at in A.
        destruct A as [A|A].
        * exists s. split; [|split; [left; reflexivity| discriminate]].
          destruct H as [[Hn ->] | Hs]; [left; split; [rewrite A; exact Hn| reflexivity]| right; rewrite A; exact Hs].
        * exists s1. split; [right; exact A|]. split; [right; reflexivity| discriminate].
      + exists s1. split; [right; exact (cr_atomic_completes fs h p q _ _ (Hpolicy _))|]. split; [right; reflexivity| reflexivity].
  Qed.

  Lemma cr_grows_refl s : cr_grows s s.
  Proof. intros n e H. exact H. Qed.

  Lemma cr_grows_save s n e : cr_grows s (st_save s n e).
  Proof. intros n' e' H. apply st_save_preserves. exact H. Qed.

  (* any session, every save of which may be cut short anywhere and in any way *)
  Lemma cr_session_atomic reqs : forall fs s,
    cr_holds fs s ->
    exists s', cr_holds (cr_session encode decode policy h p q Cr_Atomic fs reqs) s' /\ cr_grows s s' /\
               forall r, In r reqs -> cr_fault r = None -> st_mem (cr_name r) s' = true.
  Proof.
    induction reqs as [|r reqs IH]; intros fs s H.
    - exists s. split; [exact H|]. split; [apply cr_grows_refl| intros r []].
    - destruct (cr_save_session_atomic fs s r H) as (s1 & H1 & Hcase & Hdone).
      destruct (IH _ _ H1) as (s' & H' & G & Hall).
      exists s'. split; [exact H'|]. split.
      + intros n e L. apply G. destruct Hcase as [-> | ->]; [exact L| apply cr_grows_save; exact L].
      + intros r' [<- | Hin] Hf; [|apply Hall; assumption].
        rewrite (Hdone Hf) in G.
        assert (P : exists e, st_lookup (cr_name r) (st_save s (cr_name r) (cr_entry r)) = Some e).
        { unfold st_save. destruct (st_mem (cr_name r) s) eqn:M.
          - apply st_mem_true. exact M.
          - exists (cr_entry r). rewrite st_lookup_app. apply st_mem_false in M. rewrite M. cbn.
            rewrite st_str_eqb_refl. reflexivity. }
        destruct P as [e P]. apply st_mem_true. exists e. apply G. exact P.
  Qed.

  Lemma cr_session_app sc fs r1 r2 :
    cr_session encode decode policy h p q sc fs (r1 ++ r2) =
    cr_session encode decode policy h p q sc (cr_session encode decode policy h p q sc fs r1) r2.
  Proof. unfold cr_session. apply fold_left_app. Qed.

  (* The results file always parses, every completed save is in it, and whatever it held at any earlier moment
     it still holds, unchanged. *)
  Theorem cr_atomic_never_loses fs0 reqs :
    cr_file fs0 p = None ->
    exists s, cr_load decode p (cr_session encode decode policy h p q Cr_Atomic fs0 reqs) = Some s /\
              (forall r, In r reqs -> cr_fault r = None -> st_mem (cr_name r) s = true) /\
              (forall pre post s_pre name e,
                  reqs = pre ++ post ->
                  cr_load decode p (cr_session encode decode policy h p q Cr_Atomic fs0 pre) = Some s_pre ->
                  st_lookup name s_pre = Some e -> st_lookup name s = Some e).
  Proof.
    intro H0. assert (Hinit : cr_holds fs0 []) by (left; split; [exact H0| reflexivity]).
    destruct (cr_session_atomic reqs _ _ Hinit) as (s & Hs & _ & Hall).
    exists s. split; [apply cr_holds_load; exact Hs|]. split; [exact Hall|].
    intros pre post s_pre name e -> Hpre L.
    destruct (cr_session_atomic pre _ _ Hinit) as (s1 & Hs1 & _ & _).
    rewrite (cr_holds_load _ _ Hs1) in Hpre. injection Hpre as <-.
    destruct (cr_session_atomic post _ _ Hs1) as (s2 & Hs2 & G & _).
    rewrite cr_session_app in Hs.
    assert (s2 = s).
    { apply cr_holds_load in Hs. apply cr_holds_load in Hs2. congruence. }
    subst s2. apply G. exact L.
  Qed.

  (* what the in-place scheme does to a session: one fault right after the open leaves an empty file; if the empty
     text does not parse (it does not: json.loads("") raises) every later save fails on load and changes nothing,
     so every run saved before is gone for good *)
  Hypothesis Hempty : decode [] = None.

  Lemma cr_inplace_session_stuck fs later :
    cr_file fs p = Some [] ->
    cr_session encode decode policy h p q Cr_InPlace fs later = fs.
  Proof.
    intro H. induction later as [|r later IH]; [reflexivity|].
    cbn. unfold cr_save_session at 2. unfold cr_load. rewrite H, Hempty. exact IH.
  Qed.

  Theorem cr_inplace_loses_everything fs s name e m later :
    cr_holds fs s -> st_mem name s = false ->
    let fs' := cr_session encode decode policy h p q Cr_InPlace fs (cr_mkreq name e (Some (1, m)) :: later) in
    cr_file fs' p = Some [] /\ cr_load decode p fs' = None.
  Proof.
    intros H M. cbn zeta.
    change (cr_mkreq name e (Some (1, m)) :: later) with ([cr_mkreq name e (Some (1, m))] ++ later).
    rewrite cr_session_app.
    change (cr_session encode decode policy h p q Cr_InPlace fs [cr_mkreq name e (Some (1, m))])
      with (cr_save_session encode decode policy h p q Cr_InPlace fs (cr_mkreq name e (Some (1, m)))).
    assert (T : cr_file (cr_save_session encode decode policy h p q Cr_InPlace fs (cr_mkreq name e (Some (1, m)))) p = Some []).
    { unfold cr_save_session. rewrite (cr_holds_load _ _ H). cbn [cr_name cr_entry cr_fault]. rewrite M.
      cbn [cr_save_trace]. apply cr_inplace_truncates. }
    rewrite cr_inplace_session_stuck by exact T. split; [exact T|]. unfold cr_load. rewrite T. exact Hempty.
  Qed.
End SessionProofs.

(* the store-level reading of cr_atomic_all_or_nothing, as in DESIGN.md: the file holds the old dictionary or the new one *)
Lemma cr_atomic_all_or_nothing_store {E : Type} (encode : list (st_str * E) -> cr_bytes)
      (fs0 : cr_fsmap) (h p q : N) (store : list (st_str * E)) (name : st_str) (e : E) (body : list cr_op) k m :
  p <> q -> cr_file fs0 p = Some (encode store) ->
  cr_body_ok h (encode (st_save store name e)) body = true ->
  k <= length (cr_save_atomic h p q body) ->
  cr_crash_at m (cr_save_atomic h p q body) k fs0 p = Some (encode store) \/
  cr_crash_at m (cr_save_atomic h p q body) k fs0 p = Some (encode (st_save store name e)).
Proof.
  intros Hpq Hold Hbody _. rewrite <- Hold. apply cr_atomic_all_or_nothing; assumption.
Qed.

(* ---------- the hypotheses of the session theorems are jointly satisfiable: a toy codec and policy ---------- *)
(* entries are unit; the file is byte 123 followed by every key as <length byte> <bytes>; keys shorter than 2^8 are
   not required: lengths are arbitrary N "bytes" in this model *)
Fixpoint cr_ex_enc_body (s : list (st_str * unit)) : cr_bytes :=
  match s with
  | [] => []
  | (k, _) :: r => N.of_nat (length k) :: k ++ cr_ex_enc_body r
  end.
Definition cr_ex_encode (s : list (st_str * unit)) : cr_bytes := 123%N :: cr_ex_enc_body s.

Fixpoint cr_ex_dec_body (fuel : nat) (b : cr_bytes) : option (list (st_str * unit)) :=
  match b with
  | [] => Some []
  | n :: r =>
    match fuel with
    | O => None
    | S f =>
      let len := N.to_nat n in
      if Nat.leb len (length r)
      then match cr_ex_dec_body f (skipn len r) with
           | Some s => Some ((firstn len r, tt) :: s)
           | None => None
           end
      else None
    end
  end.
Definition cr_ex_decode (b : cr_bytes) : option (list (st_str * unit)) :=
  match b with
  | 123%N :: r => cr_ex_dec_body (length r) r
  | _ => None
  end.

Definition cr_ex_policy (b : cr_bytes) : list cr_op := [Cr_Write 1 (firstn 5 b); Cr_Spill 1 3; Cr_Write 1 (skipn 5 b)].

Lemma cr_ex_dec_body_ok s : forall fuel, length (cr_ex_enc_body s) <= fuel -> cr_ex_dec_body fuel (cr_ex_enc_body s) = Some s.
Proof.
  induction s as [|[k []] s IH]; intros fuel Hf; [destruct fuel; reflexivity|].
  cbn [cr_ex_enc_body] in *. cbn [length] in Hf. destruct fuel as [|fuel]; [lia|].
  cbn [cr_ex_dec_body]. rewrite Nat2N.id.
  rewrite app_length in *.
  replace (length k <=? length k + length (cr_ex_enc_body s)) with true by (symmetry; apply Nat.leb_le; lia).
  rewrite skipn_app, skipn_all, Nat.sub_diag. cbn [skipn app].
  rewrite IH by lia. rewrite firstn_app, firstn_all, Nat.sub_diag. cbn [firstn]. rewrite app_nil_r. reflexivity.
Qed.

Lemma cr_ex_hyps :
  (forall s, cr_ex_decode (cr_ex_encode s) = Some s) /\
  (forall b, cr_body_ok 1 b (cr_ex_policy b) = true) /\
  cr_ex_decode [] = None.
Proof.
  split; [|split; [|reflexivity]].
  - intro s. unfold cr_ex_decode, cr_ex_encode. apply cr_ex_dec_body_ok. apply Nat.le_refl.
  - intro b. unfold cr_body_ok, cr_ex_policy. cbn [forallb cr_body_op cr_written]. rewrite N.eqb_refl. cbn [andb].
    rewrite app_nil_r, firstn_skipn. apply cr_bytes_eqb_eq. reflexivity.
Qed.

(* Enum: executable models of the coalition enumerations of the repository, in both representations.
   Object side (coalitions.py): Coalition.players (the shift loop), __len__, from_players, get_sub_coalitions
   (powerset of the player list, itertools order), get_super_coalitions.
   Id-array side (coalition_ids.py): players, get_size, sub_coalitions, super_coalitions (numpy masks, id order);
   a failing `assert` is None.
   A coalition is its id, an N bitmask (Bits.v); players are nat.  Proofs: EnumProofs.v.  Prefix en_. *)
From Coq Require Import NArith List Arith Bool.
From ICG Require Import Bits Combs.
Import ListNotations.
Local Open Scope N_scope.

(* ---------- object side ---------- *)
(* Coalition.players:   while coalition: (if coalition & 1: yield i); coalition >>= 1; i += 1
   Fuel = number of binary digits; en_players_fuel (EnumProofs) shows any larger fuel gives the same list,
   i.e. the loop ends because the coalition became 0. *)
Fixpoint en_players_loop (fuel : nat) (c : N) (i : nat) : list nat :=
  match fuel with
  | O => []
  | S f => if c =? 0 then []
           else (if N.land c 1 =? 0 then [] else [i]) ++ en_players_loop f (N.shiftr c 1) (S i)
  end.
Definition en_players (c : N) : list nat := en_players_loop (N.size_nat c) c 0.

(* Coalition.__len__:   while coalition: s += coalition & 1; coalition >>= 1 *)
Fixpoint en_len_loop (fuel : nat) (c : N) (s : N) : N :=
  match fuel with
  | O => s
  | S f => if c =? 0 then s else en_len_loop f (N.shiftr c 1) (s + N.land c 1)
  end.
Definition en_len (c : N) : nat := N.to_nat (en_len_loop (N.size_nat c) c 0).

(* Coalition.from_players:   id = 0; for player in set(players): id += 2**player
   (set() collapses duplicates; the sum does not depend on the iteration order of the set) *)
Definition en_from_players (l : list nat) : N :=
  fold_left (fun id p => id + 2 ^ N.of_nat p) (nodup Nat.eq_dec l) 0.

(* get_sub_coalitions:   map(Coalition.from_players, powerset(list(coalition.players))) *)
Definition en_sub_obj (c : N) : list N := map en_from_players (cb_powerset (en_players c)).

(* get_super_coalitions:   opposite = grand_coalition(n) - coalition;  (coalition | sub for sub in get_sub_coalitions(opposite))
   `-` on Coalition objects is  id & ~other.id  = N.ldiff (gen_sub_link) *)
Definition en_super_obj (n : nat) (c : N) : list N :=
  map (fun s => N.lor c s) (en_sub_obj (N.ldiff (grand n) c)).

(* ---------- id-array side ---------- *)
(* the boolean mask  2**np.arange(n) & coalition != 0 *)
Definition en_ids_bit (c : N) (i : nat) : bool := negb (N.land (2 ^ N.of_nat i) c =? 0).

(* players(coalition, n):   assert 2**n > coalition;  np.arange(n)[mask] *)
Definition en_ids_players (n : nat) (c : N) : option (list nat) :=
  if c <? 2 ^ N.of_nat n then Some (filter (en_ids_bit c) (seq 0 n)) else None.

(* get_size(coalition, n):   assert ...;  mask.sum() *)
Definition en_ids_size (n : nat) (c : N) : option nat :=
  if c <? 2 ^ N.of_nat n then Some (length (filter (en_ids_bit c) (seq 0 n))) else None.

(* sub_coalitions(coalition, n):   assert ...;  m = np.max(players(coalition, n), initial=0) + 1;
   get_all_coalitions(m)[get_all_coalitions(m) | coalition == coalition] *)
Definition en_ids_sub (n : nat) (c : N) : option (list N) :=
  if c <? 2 ^ N.of_nat n then
    match en_ids_players n c with
    | None => None
    | Some ps => let m := S (fold_right Nat.max 0%nat ps) in
                 Some (filter (fun x => N.lor x c =? c) (alln m))
    end
  else None.

(* super_coalitions(coalition, n):   assert ...;  opposite = (2**n - 1) ^ coalition;  sub_coalitions(opposite, n) | coalition *)
Definition en_ids_super (n : nat) (c : N) : option (list N) :=
  if c <? 2 ^ N.of_nat n then
    match en_ids_sub n (N.lxor (2 ^ N.of_nat n - 1) c) with
    | None => None
    | Some l => Some (map (fun s => N.lor s c) l)
    end
  else None.

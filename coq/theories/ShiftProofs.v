(* ShiftProofs: TRANSLATION covariance of the superadditive bound computers.  Prefix tr_.
   Adding an additive game  S |-> sum_{i in S} a_i  to every lower/upper bound of a table adds the same additive game
   to the output of the reference and of the cached superadditive computer (tr_compute_shift), for every n, every
   weight vector a (any signs) and every knowledge: the guards of the two computers (empty, grand [, singletons] known;
   every unknown coalition has a split) are exactly what makes every max / min run over a NON-EMPTY candidate list, so
   no hypothesis is needed.  The monotone approximation (CSam r) is NOT translation covariant (tr_sam_shift_refuted):
   its closure step compares lower bounds of different coalitions.
   Interval widths, hence all four gap functions, are translation invariant (tr_width_invariant).
   With the homogeneity of ScaleProofs.v: bounds commute with every positive affine change of the game
   t' == c * (t + additive)  (tr_compute_affine), in particular with zero-normalisation (Normalize.v):
   tr_bounds_commute_with_normalisation, tr_normalised_knowledge.
   Same proof pattern as ScaleProofs.v: a relational invariant carried through every fold of Bounds.v. *)
From ICG Require Import Prelude Bits Table Bounds GameOps Shapley ShapleyProofs Exploit ExploitProofs
  Norms NormsProofs Env FoldLemmas BoundsSpec SASound SAEquiv SAKnowledge Normalize NormalizeProofs ScaleProofs.
From Coq Require Import Qabs ZArith.
Local Open Scope Q_scope.

(* ================================================================== *)
(* 1. the additive game of a weight vector                             *)
(* ================================================================== *)
(* a : player -> weight;  tr_add a n S = sum of a i over the members i < n of S *)
Definition tr_add (a : nat -> Q) (n : nat) (S : N) : Q := qsum (map a (players n S)).
(* weight vectors given as lists (players beyond the list weigh 0) *)
Definition tr_vec (l : list Q) (i : nat) : Q := nth i l 0.

(* Normalize.v's "sum of the singleton values of the members" is the additive game of the singleton values *)
Lemma tr_add_nz_ssum g n S : nz_ssum g n S = tr_add (fun i => g (single i)) n S.
Proof. reflexivity. Qed.

Lemma tr_add_S a k X : tr_add a (S k) X == tr_add a k X + (if tb X k then a k else 0).
Proof.
  unfold tr_add, players. rewrite seq_S, filter_app, map_app, qsum_app. cbn [filter plus].
  destruct (tb X k); simpl; ring.
Qed.

Lemma tr_add_0 a n : tr_add a n 0%N == 0.
Proof. induction n as [|k IH]; [reflexivity|]. rewrite tr_add_S, IH, tb_0. ring. Qed.

Lemma tr_add_lor a n A B : disjb A B = true -> tr_add a n (N.lor A B) == tr_add a n A + tr_add a n B.
Proof.
  intros Hd. rewrite disjb_spec in Hd. induction n as [|k IH]; [reflexivity|].
  rewrite !tr_add_S, IH, tb_lor.
  destruct (tb A k) eqn:Ea.
  - rewrite (Hd k Ea). simpl. ring.
  - simpl. destruct (tb B k); ring.
Qed.

(* a coalition and the rest: the form used by the computers *)
Lemma tr_add_split a n A S : sub A S = true -> tr_add a n S == tr_add a n A + tr_add a n (N.ldiff S A).
Proof.
  intros H. rewrite <- (tr_add_lor a n A (N.ldiff S A) (disjb_ldiff A S)), (lor_ldiff A S H). reflexivity.
Qed.

Lemma tr_add_single a n i : (i < n)%nat -> tr_add a n (single i) == a i.
Proof.
  intros Hi. induction n as [|k IH]; [lia|].
  rewrite tr_add_S, tb_single. destruct (Nat.eqb_spec i k) as [->|Hne].
  - assert (E : tr_add a k (single k) == 0); [|rewrite E; ring].
    unfold tr_add, players. rewrite filter_single_nil; [reflexivity|]. rewrite in_seq. lia.
  - rewrite IH by lia. ring.
Qed.

Lemma tr_add_ext a b n S : (forall i, (i < n)%nat -> a i == b i) -> tr_add a n S == tr_add b n S.
Proof.
  intros H. unfold tr_add. apply qsum_map_ext. intros i Hi. apply H.
  unfold players in Hi. apply filter_In in Hi. destruct Hi as [Hi _]. apply in_seq in Hi. lia.
Qed.

Lemma tr_add_opp a n S : tr_add (fun i => - a i) n S == - tr_add a n S.
Proof. induction n as [|k IH]; [reflexivity|]. rewrite !tr_add_S, IH. destruct (tb S k); ring. Qed.

Lemma tr_add_zero n S : tr_add (fun _ => 0) n S == 0.
Proof. induction n as [|k IH]; [reflexivity|]. rewrite !tr_add_S, IH. destruct (tb S k); ring. Qed.

Lemma tr_add_plus a b n S : tr_add (fun i => a i + b i) n S == tr_add a n S + tr_add b n S.
Proof. induction n as [|k IH]; [reflexivity|]. rewrite !tr_add_S, IH. destruct (tb S k); ring. Qed.

Lemma tr_add_scal c a n S : tr_add (fun i => c * a i) n S == c * tr_add a n S.
Proof. induction n as [|k IH]; [unfold tr_add, players; simpl; ring|]. rewrite !tr_add_S, IH. destruct (tb S k); ring. Qed.

(* ================================================================== *)
(* 2. max / min commute with adding a constant - on NON-EMPTY lists    *)
(* ================================================================== *)
Lemma tr_Qmax_shift d x y : Qmax (x + d) (y + d) == Qmax x y + d.
Proof.
  destruct (Q.max_spec x y) as [[H E]|[H E]]; rewrite E.
  - apply Q.max_r. lra.
  - apply Q.max_l. lra.
Qed.
Lemma tr_Qmin_shift d x y : Qmin (x + d) (y + d) == Qmin x y + d.
Proof.
  destruct (Q.min_spec x y) as [[H E]|[H E]]; rewrite E.
  - apply Q.min_l. lra.
  - apply Q.min_r. lra.
Qed.

(* a column of numbers and the same column with d added (up to ==) *)
Definition tr_col (d : Q) (l l' : list Q) : Prop := Forall2 (fun x y => y == x + d) l l'.

Lemma tr_col_map d l : tr_col d l (map (Qplus d) l).
Proof. induction l as [|x l IH]; simpl; constructor; [ring| exact IH]. Qed.

Lemma tr_col_map2 {A} d (f f' : A -> Q) l :
  (forall x, In x l -> f' x == f x + d) -> tr_col d (map f l) (map f' l).
Proof.
  induction l as [|x l IH]; intros H; simpl; constructor.
  - apply H. left. reflexivity.
  - apply IH. intros y Hy. apply H. right. exact Hy.
Qed.

Lemma tr_qmaxl1_shift d x x' l l' : x' == x + d -> tr_col d l l' -> qmaxl1 x' l' == qmaxl1 x l + d.
Proof.
  intros Hx H. revert x x' Hx. induction H as [|p q l l' Hpq H IH]; intros x x' Hx; simpl; [exact Hx|].
  rewrite <- (tr_Qmax_shift d x (qmaxl1 p l)). apply Q.max_compat; [exact Hx| apply IH; exact Hpq].
Qed.
Lemma tr_qminl1_shift d x x' l l' : x' == x + d -> tr_col d l l' -> qminl1 x' l' == qminl1 x l + d.
Proof.
  intros Hx H. revert x x' Hx. induction H as [|p q l l' Hpq H IH]; intros x x' Hx; simpl; [exact Hx|].
  rewrite <- (tr_Qmin_shift d x (qminl1 p l)). apply Q.min_compat; [exact Hx| apply IH; exact Hpq].
Qed.

(* the total versions return the default 0 on the empty list, which does NOT shift: non-emptiness is needed *)
Lemma tr_qmaxl_shift d l l' : l <> [] -> tr_col d l l' -> qmaxl l' == qmaxl l + d.
Proof. intros Hne H. destruct H as [|p q l l' Hpq H]; [congruence|]. simpl. apply tr_qmaxl1_shift; assumption. Qed.
Lemma tr_qminl_shift d l l' : l <> [] -> tr_col d l l' -> qminl l' == qminl l + d.
Proof. intros Hne H. destruct H as [|p q l l' Hpq H]; [congruence|]. simpl. apply tr_qminl1_shift; assumption. Qed.

(* the form asked for *)
Lemma tr_qmaxl_map_plus d l : l <> [] -> qmaxl (map (Qplus d) l) == d + qmaxl l.
Proof. intros Hne. rewrite (tr_qmaxl_shift d l _ Hne (tr_col_map d l)). ring. Qed.
Lemma tr_qminl_map_plus d l : l <> [] -> qminl (map (Qplus d) l) == d + qminl l.
Proof. intros Hne. rewrite (tr_qminl_shift d l _ Hne (tr_col_map d l)). ring. Qed.
(* ... and it is false on the empty list *)
Lemma tr_qmaxl_map_plus_empty_refuted : ~ qmaxl (map (Qplus 1) []) == 1 + qmaxl [].
Proof. vm_compute. discriminate. Qed.

(* ================================================================== *)
(* 3. shifted rows and tables                                          *)
(* ================================================================== *)
Definition tr_shift_row (d : Q) (r : row) : row := mkrow (known r) (lo r + d) (hi r + d).

(* r' is r with d added to both bounds: same flag *)
Definition tr_row_rel (d : Q) (r r' : row) : Prop :=
  known r' = known r /\ lo r' == lo r + d /\ hi r' == hi r + d.

(* t' is t plus the additive game of a, on the 2^n coalitions of the n players *)
Definition tr_rel (a : nat -> Q) (n : nat) (t t' : table) : Prop :=
  forall S, bounded n S -> tr_row_rel (tr_add a n S) (get t S) (get t' S).

(* a functional witness *)
Definition tr_shift (a : nat -> Q) (n : nat) (t : table) : table :=
  of_fun (alln n) (fun S => tr_shift_row (tr_add a n S) (get t S)).

Lemma tr_shift_get a n t S : bounded n S -> get (tr_shift a n t) S = tr_shift_row (tr_add a n S) (get t S).
Proof.
  intros Hb. unfold tr_shift. rewrite of_fun_get.
  destruct (in_dec N.eq_dec S (alln n)) as [_|Hn]; [reflexivity| exfalso; apply Hn; apply in_alln; exact Hb].
Qed.
Lemma tr_shift_get_out a n t S : ~ bounded n S -> get (tr_shift a n t) S = row0.
Proof.
  intros Hb. unfold tr_shift. rewrite of_fun_get.
  destruct (in_dec N.eq_dec S (alln n)) as [Hin|_]; [exfalso; apply Hb; apply in_alln; exact Hin| reflexivity].
Qed.

Lemma tr_shift_rel a n t : tr_rel a n t (tr_shift a n t).
Proof. intros S Hb. rewrite (tr_shift_get a n t S Hb). unfold tr_row_rel, tr_shift_row; simpl. repeat split; reflexivity. Qed.

Lemma tr_known a n t t' : tr_rel a n t t' -> forall S, bounded n S -> known (get t' S) = known (get t S).
Proof. intros H S Hb. apply (H S Hb). Qed.
Lemma tr_lo a n t t' : tr_rel a n t t' -> forall S, bounded n S -> lo (get t' S) == lo (get t S) + tr_add a n S.
Proof. intros H S Hb. apply (H S Hb). Qed.
Lemma tr_hi a n t t' : tr_rel a n t t' -> forall S, bounded n S -> hi (get t' S) == hi (get t S) + tr_add a n S.
Proof. intros H S Hb. apply (H S Hb). Qed.

Lemma tr_set_lo a n t t' s x x' :
  tr_rel a n t t' -> x' == x + tr_add a n s -> tr_rel a n (set_lo t s x) (set_lo t' s x').
Proof.
  intros H E S Hb. unfold tr_row_rel. rewrite !known_set_lo, !lo_set_lo, !hi_set_lo.
  destruct (H S Hb) as [H1 [H2 H3]]. destruct (N.eqb_spec S s) as [->|_]; auto.
Qed.
Lemma tr_set_hi a n t t' s x x' :
  tr_rel a n t t' -> x' == x + tr_add a n s -> tr_rel a n (set_hi t s x) (set_hi t' s x').
Proof.
  intros H E S Hb. unfold tr_row_rel. rewrite !known_set_hi, !lo_set_hi, !hi_set_hi.
  destruct (H S Hb) as [H1 [H2 H3]]. destruct (N.eqb_spec S s) as [->|_]; auto.
Qed.

(* the lists that depend on the flags only (all their members are coalitions of the n players) *)
Lemma tr_unknown_ids a n t t' : tr_rel a n t t' -> unknown_ids n t' = unknown_ids n t.
Proof.
  intros H. unfold unknown_ids. apply filter_ext_in'. intros s Hs. apply in_alln in Hs.
  rewrite (tr_known a n t t' H s Hs). reflexivity.
Qed.
Lemma tr_unknown_sorted a n t t' : tr_rel a n t t' -> unknown_sorted n t' = unknown_sorted n t.
Proof. intros H. unfold unknown_sorted. rewrite (tr_unknown_ids a n t t' H). reflexivity. Qed.
Lemma tr_known_supers a n t t' s : tr_rel a n t t' -> known_supers n t' s = known_supers n t s.
Proof.
  intros H. unfold known_supers. apply filter_ext_in'. intros T HT. apply in_supers in HT.
  apply (tr_known a n t t' H). apply HT.
Qed.

(* a fold of cell writes: P holds of the visited coalitions, I is an invariant of the left table *)
Lemma tr_fold a n (P : N -> Prop) (I : table -> Prop) (f : table -> N -> table) us :
  (forall t s, I t -> I (f t s)) ->
  (forall t t' s, P s -> I t -> tr_rel a n t t' -> tr_rel a n (f t s) (f t' s)) ->
  Forall P us ->
  forall t t', I t -> tr_rel a n t t' -> tr_rel a n (fold_left f us t) (fold_left f us t').
Proof.
  intros HI Hf HP. induction HP as [|x us Hx HP IH]; intros t t' Ht H; simpl; [exact H|].
  apply IH; [apply HI; exact Ht| apply Hf; assumption].
Qed.
Lemma tr_fold_inv (I : table -> Prop) (f : table -> N -> table) us :
  (forall t s, I t -> I (f t s)) -> forall t, I t -> I (fold_left f us t).
Proof. intros HI. induction us as [|x us IH]; intros t Ht; simpl; [exact Ht| apply IH; apply HI; exact Ht]. Qed.

(* ================================================================== *)
(* 4. every cell write of the two superadditive computers commutes     *)
(*    with the translation                                             *)
(* ================================================================== *)
Section Steps.
  Variable a : nat -> Q.
  Variable n : nat.

  (* what the guards give about every visited coalition *)
  Definition tr_visit (s : N) : Prop := bounded n s /\ splits n s <> [] /\ s <> grand n.
  (* what the guards give about the table, and every cell write keeps *)
  Definition tr_gk (t : table) : Prop := known (get t (grand n)) = true.

  Lemma tr_sub_ldiff_add x s : sub x s = true -> tr_add a n x + tr_add a n (N.ldiff s x) == tr_add a n s.
  Proof. intros H. rewrite (tr_add_split a n x s H). reflexivity. Qed.

  (* lower(S) = max over splits A | S\A of lower(A) + lower(S\A): every candidate moves by add(A) + add(S\A) = add(S) *)
  Lemma tr_ref_lower_step t t' s :
    tr_visit s -> tr_rel a n t t' -> tr_rel a n (ref_lower_step n t s) (ref_lower_step n t' s).
  Proof.
    intros [Hb [Hne _]] H. unfold ref_lower_step. apply tr_set_lo; [exact H|]. rewrite !Qred_correct.
    unfold ref_lower_cell. apply tr_qmaxl_shift; [apply map_neq_nil; exact Hne|].
    apply tr_col_map2. intros x Hx. apply in_splits in Hx. destruct Hx as [Hbx [Hss _]].
    rewrite (tr_lo a n t t' H x Hbx), (tr_lo a n t t' H (N.ldiff s x) (bounded_ldiff n s x Hb)).
    rewrite <- (tr_sub_ldiff_add x s (ssub_sub x s Hss)). ring.
  Qed.
  Lemma tr_cached_lower_step t t' s :
    tr_visit s -> tr_rel a n t t' -> tr_rel a n (cached_lower_step n t s) (cached_lower_step n t' s).
  Proof.
    intros [Hb [Hne _]] H. unfold cached_lower_step. apply tr_set_lo; [exact H|]. rewrite !Qred_correct.
    unfold cached_lower_cell. apply tr_qmaxl_shift; [apply map_neq_nil; exact Hne|].
    apply tr_col_map2. intros x Hx. apply in_splits in Hx. destruct Hx as [Hbx [Hss _]].
    rewrite (lxor_ldiff x s (ssub_sub x s Hss)).
    rewrite (tr_lo a n t t' H x Hbx), (tr_lo a n t t' H (N.ldiff s x) (bounded_ldiff n s x Hb)).
    rewrite <- (tr_sub_ldiff_add x s (ssub_sub x s Hss)). ring.
  Qed.

  (* the grand coalition is a known proper super-coalition of every visited coalition *)
  Lemma tr_known_supers_nonempty t s : tr_visit s -> tr_gk t -> known_supers n t s <> [].
  Proof.
    intros [Hb [_ Hg]] Hk E.
    assert (Hin : In (grand n) (known_supers n t s)).
    { unfold known_supers. apply filter_In. split; [|exact Hk]. apply in_supers. split; [apply bounded_grand|].
      apply ssub_spec. split; [apply sub_spec; apply sub_grand; exact Hb| exact Hg]. }
    rewrite E in Hin. destruct Hin.
  Qed.

  (* upper(S) = min over known supersets T of v(T) - lower(T\S): every candidate moves by add(T) - add(T\S) = add(S) *)
  Lemma tr_ref_upper_step t t' s :
    tr_visit s -> tr_gk t -> tr_rel a n t t' -> tr_rel a n (ref_upper_step n t s) (ref_upper_step n t' s).
  Proof.
    intros Hv Hk H. pose proof Hv as [Hb _]. unfold ref_upper_step. apply tr_set_hi; [exact H|]. rewrite !Qred_correct.
    unfold ref_upper_cell. rewrite (tr_known_supers a n t t' s H).
    apply tr_qminl_shift; [apply map_neq_nil; apply tr_known_supers_nonempty; assumption|].
    apply tr_col_map2. intros T HT. unfold known_supers in HT. apply filter_In in HT. destruct HT as [HT _].
    apply in_supers in HT. destruct HT as [HbT Hss].
    rewrite (tr_hi a n t t' H T HbT), (tr_lo a n t t' H (N.ldiff T s) (bounded_ldiff n T s HbT)).
    rewrite <- (tr_sub_ldiff_add s T (ssub_sub s T Hss)). ring.
  Qed.
  Lemma tr_cached_upper_step t t' s :
    tr_visit s -> tr_gk t -> tr_rel a n t t' -> tr_rel a n (cached_upper_step n t s) (cached_upper_step n t' s).
  Proof.
    intros Hv Hk H. pose proof Hv as [Hb _]. unfold cached_upper_step. apply tr_set_hi; [exact H|]. rewrite !Qred_correct.
    unfold cached_upper_cell. rewrite (tr_known_supers a n t t' s H).
    apply tr_qminl_shift; [apply map_neq_nil; apply tr_known_supers_nonempty; assumption|].
    apply tr_col_map2. intros T HT. unfold known_supers in HT. apply filter_In in HT. destruct HT as [HT _].
    apply in_supers in HT. destruct HT as [HbT Hss].
    rewrite N.lxor_comm, (lxor_ldiff s T (ssub_sub s T Hss)).
    rewrite (tr_lo a n t t' H T HbT), (tr_lo a n t t' H (N.ldiff T s) (bounded_ldiff n T s HbT)).
    rewrite <- (tr_sub_ldiff_add s T (ssub_sub s T Hss)). ring.
  Qed.

  (* cell writes never touch a flag *)
  Lemma tr_gk_ref_lower t s : tr_gk t -> tr_gk (ref_lower_step n t s).
  Proof. unfold tr_gk, ref_lower_step. rewrite known_set_lo. auto. Qed.
  Lemma tr_gk_cached_lower t s : tr_gk t -> tr_gk (cached_lower_step n t s).
  Proof. unfold tr_gk, cached_lower_step. rewrite known_set_lo. auto. Qed.
  Lemma tr_gk_ref_upper t s : tr_gk t -> tr_gk (ref_upper_step n t s).
  Proof. unfold tr_gk, ref_upper_step. rewrite known_set_hi. auto. Qed.
  Lemma tr_gk_cached_upper t s : tr_gk t -> tr_gk (cached_upper_step n t s).
  Proof. unfold tr_gk, cached_upper_step. rewrite known_set_hi. auto. Qed.

  (* the guard of the cached computer (implied by the guard of the reference computer) makes every visited
     coalition have a split and differ from the (known) grand coalition *)
  Lemma tr_guard_visit t : cached_ok n t = true ->
    tr_gk t /\ Forall tr_visit (unknown_ids n t) /\ Forall tr_visit (unknown_sorted n t).
  Proof.
    unfold cached_ok. intros H. apply andb_true_iff in H. destruct H as [H Hs].
    apply andb_true_iff in H. destruct H as [_ Hg].
    assert (V : forall s, In s (unknown_ids n t) -> tr_visit s).
    { intros s Hin. rewrite forallb_forall in Hs. pose proof (Hs s Hin) as Hne.
      apply in_unknown_ids in Hin. destruct Hin as [Hb Hk]. split; [exact Hb|]. split.
      - destruct (splits n s); [discriminate| discriminate].
      - intro E. subst s. unfold Kn in Hk. congruence. }
    split; [exact Hg|]. split; apply Forall_forall; intros s Hin; apply V; [exact Hin|].
    unfold unknown_sorted in Hin. apply in_by_size in Hin. exact Hin.
  Qed.

  Lemma tr_sa_ref_run t t' :
    cached_ok n t = true -> tr_rel a n t t' -> tr_rel a n (sa_ref_run n t) (sa_ref_run n t').
  Proof.
    intros Hok H. destruct (tr_guard_visit t Hok) as [Hg [V1 V2]].
    unfold sa_ref_run. rewrite (tr_unknown_sorted a n t t' H), (tr_unknown_ids a n t t' H).
    apply (tr_fold a n tr_visit tr_gk); [apply tr_gk_ref_upper| apply tr_ref_upper_step| exact V1| |].
    - apply (tr_fold_inv tr_gk); [apply tr_gk_ref_lower| exact Hg].
    - apply (tr_fold a n tr_visit (fun _ => True)); auto. intros; apply tr_ref_lower_step; assumption.
  Qed.
  Lemma tr_sa_cached_run t t' :
    cached_ok n t = true -> tr_rel a n t t' -> tr_rel a n (sa_cached_run n t) (sa_cached_run n t').
  Proof.
    intros Hok H. destruct (tr_guard_visit t Hok) as [Hg [V1 V2]].
    unfold sa_cached_run. rewrite (tr_unknown_sorted a n t t' H).
    apply (tr_fold a n tr_visit tr_gk); [apply tr_gk_cached_upper| apply tr_cached_upper_step| exact V2| |].
    - apply (tr_fold_inv tr_gk); [apply tr_gk_cached_lower| exact Hg].
    - apply (tr_fold a n tr_visit (fun _ => True)); auto. intros; apply tr_cached_lower_step; assumption.
  Qed.

  (* the guards read flags of coalitions of the n players only *)
  Lemma tr_min_known t t' : tr_rel a n t t' -> min_known n t' = min_known n t.
  Proof.
    intros H. unfold min_known.
    rewrite (tr_known a n t t' H 0%N (bounded_0 n)), (tr_known a n t t' H (grand n) (bounded_grand n)). f_equal.
    apply forallb_ext_in'. intros i Hi. apply in_seq in Hi. apply (tr_known a n t t' H). apply bounded_single. lia.
  Qed.
  Lemma tr_cached_ok t t' : tr_rel a n t t' -> cached_ok n t' = cached_ok n t.
  Proof.
    intros H. unfold cached_ok.
    rewrite (tr_known a n t t' H 0%N (bounded_0 n)), (tr_known a n t t' H (grand n) (bounded_grand n)),
      (tr_unknown_ids a n t t' H). reflexivity.
  Qed.
End Steps.

(* both raise, or both return and the results are related *)
Definition tr_opt (R : table -> table -> Prop) (o o' : option table) : Prop :=
  match o, o' with
  | Some t, Some t' => R t t'
  | None, None => True
  | _, _ => False
  end.
Definition tr_opt_rel (a : nat -> Q) (n : nat) : option table -> option table -> Prop := tr_opt (tr_rel a n).

(* the superadditive computers: reference and cached *)
Definition tr_sa_computer (c : computer) : bool := match c with CSam _ => false | _ => true end.

Lemma tr_sa_computer_cases c : tr_sa_computer c = true -> c = CRef \/ c = CCached.
Proof. destruct c; simpl; auto. discriminate. Qed.

(* THE THEOREM: both superadditive computers, every n, every weight vector, no hypothesis on the knowledge *)
Theorem tr_compute_shift (a : nat -> Q) (comp : computer) (n : nat) (t t' : table) :
  tr_sa_computer comp = true -> tr_rel a n t t' -> tr_opt_rel a n (compute comp n t) (compute comp n t').
Proof.
  intros Hc H. unfold tr_opt_rel. destruct comp as [| |r]; simpl in *; [| |discriminate].
  - unfold compute_sa_ref. rewrite (tr_min_known a n t t' H). destruct (min_known n t) eqn:E; simpl; [|exact I].
    apply tr_sa_ref_run; [apply min_known_cached_ok; exact E| exact H].
  - unfold compute_sa_cached. rewrite (tr_cached_ok a n t t' H). destruct (cached_ok n t) eqn:E; simpl; [|exact I].
    apply tr_sa_cached_run; assumption.
Qed.

Corollary tr_compute_some a comp n t t' t1 :
  tr_sa_computer comp = true -> tr_rel a n t t' -> compute comp n t = Some t1 ->
  exists t1', compute comp n t' = Some t1' /\ tr_rel a n t1 t1'.
Proof.
  intros Hc H E. pose proof (tr_compute_shift a comp n t t' Hc H) as R. unfold tr_opt_rel in R. rewrite E in R.
  destruct (compute comp n t') as [t1'|]; [|destruct R]. exists t1'. split; [reflexivity| exact R].
Qed.
Corollary tr_compute_none a comp n t t' :
  tr_sa_computer comp = true -> tr_rel a n t t' -> compute comp n t = None -> compute comp n t' = None.
Proof.
  intros Hc H E. pose proof (tr_compute_shift a comp n t t' Hc H) as R. unfold tr_opt_rel in R. rewrite E in R.
  destruct (compute comp n t'); [destruct R| reflexivity].
Qed.

(* ================================================================== *)
(* 5. the monotone approximation is NOT translation covariant          *)
(* ================================================================== *)
(* 3 players, singletons 0, grand coalition 1, the pairs unknown (a monotone superadditive game); add the additive
   game of the weights (1, 0, 0) (still monotone and superadditive): the closure step of sam_apx_1 gives the pair
   {1,2} - which does not contain player 0 - the lower bound 2 instead of 1 + 0.  Covariance would need 1. *)
Definition tr_ex_sam_a : nat -> Q := tr_vec [1; 0; 0].
Definition tr_ex_sam_t : table :=
  of_fun (alln 3) (fun s => if existsb (N.eqb s) [0; 1; 2; 4; 7]%N
                            then mkrow true (if N.eqb s 7 then 1 else 0) (if N.eqb s 7 then 1 else 0)
                            else row0).
Definition tr_ex_lo (o : option table) (s : N) : option Q := option_map (fun r => Qred (lo (get r s))) o.

Lemma tr_bounded_3 s : In s (alln 3) -> bounded 3 s.
Proof. apply in_alln. Qed.

(* reading one lower bound off two related results *)
Lemma tr_opt_rel_lo a n o o' s x x' :
  tr_opt_rel a n o o' -> bounded n s -> tr_ex_lo o s = Some x -> tr_ex_lo o' s = Some x' -> x' == x + tr_add a n s.
Proof.
  intros R Hb E1 E2. destruct o as [r1|]; [|discriminate]. destruct o' as [r2|]; [|discriminate].
  simpl in R, E1, E2. injection E1 as E1. injection E2 as E2.
  rewrite <- E1, <- E2, !Qred_correct. apply (tr_lo a n r1 r2 R s Hb).
Qed.

Theorem tr_sam_shift_refuted :
  exists (a : nat -> Q) (n r : nat) (t t' : table),
    tr_rel a n t t' /\ ~ tr_opt_rel a n (compute (CSam r) n t) (compute (CSam r) n t').
Proof.
  exists tr_ex_sam_a, 3%nat, 1%nat, tr_ex_sam_t, (tr_shift tr_ex_sam_a 3 tr_ex_sam_t).
  split; [apply tr_shift_rel|]. intro R.
  assert (E1 : tr_ex_lo (compute (CSam 1) 3 tr_ex_sam_t) 6 = Some 1) by (vm_compute; reflexivity).
  assert (E2 : tr_ex_lo (compute (CSam 1) 3 (tr_shift tr_ex_sam_a 3 tr_ex_sam_t)) 6 = Some 2) by (vm_compute; reflexivity).
  assert (Hb : bounded 3 6) by (apply tr_bounded_3; vm_compute; tauto).
  pose proof (tr_opt_rel_lo _ _ _ _ _ _ _ R Hb E1 E2) as H.
  vm_compute in H. discriminate.
Qed.

(* ================================================================== *)
(* 6. widths and gap functions are translation invariant               *)
(* ================================================================== *)
Lemma tr_width_tab a n t t' : tr_rel a n t t' -> forall S, bounded n S -> nm_width_tab t' S == nm_width_tab t S.
Proof.
  intros H S Hb. unfold nm_width_tab, nm_width. rewrite (tr_lo a n t t' H S Hb), (tr_hi a n t t' H S Hb). ring.
Qed.

(* the norms read the width vector on the coalitions of the n players only *)
Lemma tr_nm_l1_ext n w w' : (forall S, bounded n S -> w' S == w S) -> nm_l1 n w' == nm_l1 n w.
Proof.
  intros H. rewrite !nm_l1_eq. apply qsum_map_ext. intros S HS. apply in_alln in HS. rewrite (H S HS). reflexivity.
Qed.
Lemma tr_nm_linf_ext n w w' : (forall S, bounded n S -> w' S == w S) -> nm_linf n w' == nm_linf n w.
Proof.
  intros H. unfold nm_linf. apply qmaxl_map_Qeq. intros S HS. apply in_alln in HS. rewrite (H S HS). reflexivity.
Qed.
Lemma tr_nm_l2sq_ext n w w' : (forall S, bounded n S -> w' S == w S) -> nm_l2sq n w' == nm_l2sq n w.
Proof.
  intros H. rewrite !nm_l2sq_eq. apply qsum_map_ext. intros S HS. apply in_alln in HS. rewrite (H S HS). reflexivity.
Qed.
Lemma tr_ex_wgap_ext n w w' : (forall S, bounded n S -> w' S == w S) -> ex_wgap n w' == ex_wgap n w.
Proof.
  intros H. rewrite !ex_wgap_eq. apply qsum_map_ext. intros S HS. apply in_alln in HS. rewrite (H S HS). reflexivity.
Qed.

(* exploitability is the binomially weighted sum of the widths minus the upper bound of the empty coalition
   (ExploitProofs.ex_weighted_gap_general), and the additive game vanishes on the empty coalition *)
Lemma tr_ex_exploit a n t t' : tr_rel a n t t' ->
  ex_exploit n (ex_lo t') (ex_hi t') == ex_exploit n (ex_lo t) (ex_hi t).
Proof.
  intros H. rewrite !ex_weighted_gap_general. unfold ex_hi at 2 4.
  rewrite (tr_hi a n t t' H 0%N (bounded_0 n)), tr_add_0.
  rewrite (tr_ex_wgap_ext n (fun S => ex_hi t S - ex_lo t S) (fun S => ex_hi t' S - ex_lo t' S)); [ring|].
  intros S Hb. unfold ex_hi, ex_lo. rewrite (tr_lo a n t t' H S Hb), (tr_hi a n t t' H S Hb). ring.
Qed.

(* every value the model stores is Qred-canonical, so the gaps are equal as terms, not only up to == *)
Theorem tr_gap_invariant (a : nat -> Q) (n : nat) (t t' : table) :
  tr_rel a n t t' -> forall g, ev_gap g n t' = ev_gap g n t.
Proof.
  intros H g. pose proof (tr_width_tab a n t t' H) as W. destruct g; simpl.
  - unfold ex_exploit_tab. rewrite (tr_known a n t t' H (grand n) (bounded_grand n)).
    destruct (known (get t (grand n))); [|reflexivity]. f_equal.
    pose proof (tr_ex_exploit a n t t' H) as E. unfold ex_exploit in *. rewrite !Qred_correct in E.
    apply Qred_complete. exact E.
  - f_equal. apply Qred_complete. apply tr_nm_l1_ext. exact W.
  - f_equal. apply Qred_complete. apply tr_nm_l2sq_ext. exact W.
  - f_equal. apply Qred_complete. apply tr_nm_linf_ext. exact W.
Qed.

Theorem tr_width_invariant (a : nat -> Q) (n : nat) (t t' : table) :
  tr_rel a n t t' ->
  (forall S, bounded n S -> hi (get t' S) - lo (get t' S) == hi (get t S) - lo (get t S))
  /\ (forall g, ev_gap g n t' = ev_gap g n t)
  /\ (ex_exploit n (ex_lo t') (ex_hi t') == ex_exploit n (ex_lo t) (ex_hi t)
      /\ nm_l1 n (nm_width_tab t') == nm_l1 n (nm_width_tab t)
      /\ nm_linf n (nm_width_tab t') == nm_linf n (nm_width_tab t)
      /\ nm_l2sq n (nm_width_tab t') == nm_l2sq n (nm_width_tab t)).
Proof.
  intros H. pose proof (tr_width_tab a n t t' H) as W. split; [exact W|]. split; [apply (tr_gap_invariant a); exact H|].
  split; [apply (tr_ex_exploit a); exact H|]. split; [apply tr_nm_l1_ext; exact W|].
  split; [apply tr_nm_linf_ext; exact W| apply tr_nm_l2sq_ext; exact W].
Qed.

(* bounds and gaps together: the gaps of the computed bounds do not see the translation *)
Corollary tr_computed_gap_invariant (a : nat -> Q) (comp : computer) (n : nat) (t t' : table) :
  tr_sa_computer comp = true -> tr_rel a n t t' ->
  forall g, match compute comp n t' with Some r => ev_gap g n r | None => None end
          = match compute comp n t with Some r => ev_gap g n r | None => None end.
Proof.
  intros Hc H g. pose proof (tr_compute_shift a comp n t t' Hc H) as R. unfold tr_opt_rel in R.
  destruct (compute comp n t) as [r|], (compute comp n t') as [r'|]; simpl in R; try contradiction; [|reflexivity].
  apply (tr_gap_invariant a). exact R.
Qed.

(* ================================================================== *)
(* 7. positive affine changes: t' == c * (t + additive game)           *)
(* ================================================================== *)
Definition tr_aff_row_rel (c d : Q) (r r' : row) : Prop :=
  known r' = known r /\ lo r' == c * (lo r + d) /\ hi r' == c * (hi r + d).
Definition tr_aff_rel (c : Q) (a : nat -> Q) (n : nat) (t t' : table) : Prop :=
  forall S, bounded n S -> tr_aff_row_rel c (tr_add a n S) (get t S) (get t' S).

(* the relation factors: translate, scale (ScaleProofs.sc_rel is stated on all ids, hence the explicit witnesses
   with zero rows outside the 2^n ids), and a final ==-step *)
Lemma tr_aff_chain c a n t t' : tr_aff_rel c a n t t' ->
  tr_rel a n t (tr_shift a n t)
  /\ sc_rel c (tr_shift a n t) (sc_scale n c (tr_shift a n t))
  /\ tr_rel (fun _ => 0) n (sc_scale n c (tr_shift a n t)) t'.
Proof.
  intros H. split; [apply tr_shift_rel|]. split; [apply sc_scale_rel; intros s Hs; apply tr_shift_get_out; exact Hs|].
  intros S Hb. destruct (H S Hb) as [H1 [H2 H3]]. unfold sc_scale. rewrite of_fun_get.
  destruct (in_dec N.eq_dec S (alln n)) as [_|Hn]; [|exfalso; apply Hn; apply in_alln; exact Hb].
  rewrite (tr_shift_get a n t S Hb). unfold tr_row_rel, sc_scale_row, tr_shift_row; simpl.
  rewrite tr_add_zero, H2, H3. repeat split; [exact H1| ring| ring].
Qed.

Lemma tr_aff_compose c a n t t1 t2 t' :
  tr_rel a n t t1 -> sc_rel c t1 t2 -> tr_rel (fun _ => 0) n t2 t' -> tr_aff_rel c a n t t'.
Proof.
  intros R1 R2 R3 S Hb. destruct (R1 S Hb) as [A1 [A2 A3]]. destruct (R2 S) as [B1 [B2 B3]].
  destruct (R3 S Hb) as [C1 [C2 C3]]. unfold tr_aff_row_rel.
  rewrite C1, B1, A1, C2, C3, B2, B3, A2, A3, tr_add_zero. repeat split; ring.
Qed.

(* bounds commute with every positive affine change of the game (translation + homogeneity) *)
Theorem tr_compute_affine (c : Q) (a : nat -> Q) (comp : computer) (n : nat) (t t' : table) :
  0 <= c -> tr_sa_computer comp = true -> tr_aff_rel c a n t t' ->
  tr_opt (tr_aff_rel c a n) (compute comp n t) (compute comp n t').
Proof.
  intros Hc Hs H. destruct (tr_aff_chain c a n t t' H) as [R1 [R2 R3]].
  pose proof (tr_compute_shift a comp n _ _ Hs R1) as S1.
  pose proof (sc_compute_homogeneous c comp n _ _ Hc R2) as S2.
  pose proof (tr_compute_shift (fun _ => 0) comp n _ _ Hs R3) as S3.
  unfold tr_opt_rel, tr_opt, sc_opt_rel in *.
  destruct (compute comp n t) as [r|], (compute comp n (tr_shift a n t)) as [r1|]; try contradiction;
  destruct (compute comp n (sc_scale n c (tr_shift a n t))) as [r2|]; try contradiction;
  destruct (compute comp n t') as [r'|]; try contradiction; [|exact I].
  eapply tr_aff_compose; eassumption.
Qed.

(* ... and so do the gaps: degree 1, the squared l2 norm degree 2, no trace of the translation *)
Theorem tr_gap_affine (c : Q) (a : nat -> Q) (g : gapfn) (n : nat) (t t' : table) :
  0 <= c -> tr_aff_rel c a n t t' -> sc_optq_rel (sc_gfac g c) (ev_gap g n t) (ev_gap g n t').
Proof.
  intros Hc H. destruct (tr_aff_chain c a n t t' H) as [R1 [R2 R3]].
  rewrite <- (tr_gap_invariant a n _ _ R1 g), (tr_gap_invariant (fun _ => 0) n _ _ R3 g).
  apply sc_ev_gap_homogeneous; assumption.
Qed.

Corollary tr_computed_gap_affine c a comp g n t t' :
  0 <= c -> tr_sa_computer comp = true -> tr_aff_rel c a n t t' ->
  sc_optq_rel (sc_gfac g c)
    (match compute comp n t with Some r => ev_gap g n r | None => None end)
    (match compute comp n t' with Some r => ev_gap g n r | None => None end).
Proof.
  intros Hc Hs H. pose proof (tr_compute_affine c a comp n t t' Hc Hs H) as R. unfold tr_opt in R.
  destruct (compute comp n t) as [r|], (compute comp n t') as [r'|]; try contradiction; [|exact I].
  apply (tr_gap_affine c a); assumption.
Qed.

(* ================================================================== *)
(* 8. bounds commute with zero-normalisation (Normalize.v)             *)
(* ================================================================== *)
(* t' is t seen through normalize.py's map of the game g: every bound b of coalition S becomes
   (b - sum of the singleton values g{i} of the members of S) / surplus,  surplus = g(N) - sum of all g{i}
   (nz_ssum, nz_surplus of Normalize.v); a known row holding g S then holds nz_normal n g S (tr_nz_rel_normal) *)
Definition tr_nz_row_rel (s d : Q) (r r' : row) : Prop :=
  known r' = known r /\ lo r' == (lo r - s) / d /\ hi r' == (hi r - s) / d.
Definition tr_nz_rel (n : nat) (g : N -> Q) (t t' : table) : Prop :=
  forall S, bounded n S -> tr_nz_row_rel (nz_ssum g n S) (nz_surplus n g) (get t S) (get t' S).

Lemma tr_nz_rel_aff n g t t' : ~ nz_surplus n g == 0 ->
  (tr_nz_rel n g t t' <-> tr_aff_rel (/ nz_surplus n g) (fun i => - g (single i)) n t t').
Proof.
  intros Hd. unfold tr_nz_rel, tr_aff_rel, tr_nz_row_rel, tr_aff_row_rel.
  split; intros H S Hb; destruct (H S Hb) as [H1 [H2 H3]]; (split; [exact H1|]);
    rewrite H2, H3, tr_add_opp, <- tr_add_nz_ssum; split; field; exact Hd.
Qed.

(* what the relation says on a row that holds a value of g: the row of the normalised game *)
Lemma tr_nz_rel_normal n g t t' S : 0 < nz_surplus n g -> tr_nz_rel n g t t' -> bounded n S ->
  (lo (get t S) == g S -> lo (get t' S) == nz_normal n g S)
  /\ (hi (get t S) == g S -> hi (get t' S) == nz_normal n g S).
Proof.
  intros Hd H Hb. destruct (H S Hb) as [_ [H2 H3]]. unfold nz_normal, nz_excess.
  assert (E : Qeq_bool (nz_surplus n g) 0 = false).
  { destruct (Qeq_bool (nz_surplus n g) 0) eqn:E; [|reflexivity]. apply Qeq_bool_iff in E. lra. }
  rewrite E. split; intros Hv; [rewrite H2| rewrite H3]; rewrite Hv; reflexivity.
Qed.

(* the gap of the normalised table is the gap divided by the surplus (squared l2 norm: by its square) *)
Definition tr_gdiv (g : gapfn) (d : Q) : Q := match g with GL2 => d * d | _ => d end.
Definition tr_optq_div (k : Q) (o o' : option Q) : Prop :=
  match o, o' with
  | Some x, Some x' => x' == x / k
  | None, None => True
  | _, _ => False
  end.

Lemma tr_optq_div_of_scale g d o o' : ~ d == 0 -> sc_optq_rel (sc_gfac g (/ d)) o o' -> tr_optq_div (tr_gdiv g d) o o'.
Proof.
  intros Hd. destruct o as [x|], o' as [x'|]; simpl; auto. intros E. rewrite E.
  destruct g; simpl; field; auto.
Qed.

Theorem tr_bounds_commute_with_normalisation (comp : computer) (n : nat) (g : N -> Q) (t t' : table) :
  tr_sa_computer comp = true -> 0 < nz_surplus n g -> tr_nz_rel n g t t' ->
  tr_opt (tr_nz_rel n g) (compute comp n t) (compute comp n t')
  /\ (forall gf, tr_optq_div (tr_gdiv gf (nz_surplus n g)) (ev_gap gf n t) (ev_gap gf n t'))
  /\ (forall gf, tr_optq_div (tr_gdiv gf (nz_surplus n g))
                   (match compute comp n t with Some r => ev_gap gf n r | None => None end)
                   (match compute comp n t' with Some r => ev_gap gf n r | None => None end)).
Proof.
  intros Hs Hd H.
  assert (Hne : ~ nz_surplus n g == 0) by lra.
  assert (Hc : 0 <= / nz_surplus n g) by (apply Qlt_le_weak; apply Qinv_lt_0_compat; exact Hd).
  pose proof (proj1 (tr_nz_rel_aff n g t t' Hne) H) as A.
  split; [|split].
  - pose proof (tr_compute_affine _ _ comp n t t' Hc Hs A) as R. unfold tr_opt in *.
    destruct (compute comp n t) as [r|], (compute comp n t') as [r'|]; try contradiction; [|exact I].
    apply (tr_nz_rel_aff n g r r' Hne). exact R.
  - intros gf. apply tr_optq_div_of_scale; [exact Hne|]. apply (tr_gap_affine _ _ gf n t t' Hc A).
  - intros gf. apply tr_optq_div_of_scale; [exact Hne|]. apply (tr_computed_gap_affine _ _ comp gf n t t' Hc Hs A).
Qed.

(* knowledge form: t holds the knowledge K of the game g, t' holds the SAME knowledge of the normalised game
   nz_normal n g; the unknown rows of both tables are arbitrary (stale numbers: SAKnowledge.sa_function_of_knowledge).
   Then the bounds computed from t' are the normalisation of the bounds computed from t. *)
Definition tr_nz_out (n : nat) (g : N -> Q) (r r' : table) : Prop :=
  forall S, bounded n S ->
    Kn r' S = Kn r S
    /\ L r' S == (L r S - nz_ssum g n S) / nz_surplus n g
    /\ U r' S == (U r S - nz_ssum g n S) / nz_surplus n g.

Theorem tr_normalised_knowledge (comp : computer) (n : nat) (g : N -> Q) (K : N -> bool) (t t' : table) :
  tr_sa_computer comp = true -> 0 < nz_surplus n g ->
  agrees n t K g -> agrees n t' K (nz_normal n g) ->
  tr_opt (tr_nz_out n g) (compute comp n t) (compute comp n t').
Proof.
  intros Hs Hd Ag Ag'.
  (* t'' : the known rows of t', the unknown rows of t pushed through the normalisation *)
  set (row'' := fun S => if known (get t' S) then get t' S
                         else mkrow (known (get t S)) ((lo (get t S) - nz_ssum g n S) / nz_surplus n g)
                                                      ((hi (get t S) - nz_ssum g n S) / nz_surplus n g)).
  set (t'' := of_fun (alln n) row'').
  assert (G : forall S, bounded n S -> get t'' S = row'' S).
  { intros S Hb. unfold t''. rewrite of_fun_get.
    destruct (in_dec N.eq_dec S (alln n)) as [_|Hn]; [reflexivity| exfalso; apply Hn; apply in_alln; exact Hb]. }
  assert (E : Qeq_bool (nz_surplus n g) 0 = false).
  { destruct (Qeq_bool (nz_surplus n g) 0) eqn:E; [|reflexivity]. apply Qeq_bool_iff in E. lra. }
  assert (SK : same_known_part n t' t'').
  { intros S Hb. unfold Kn. rewrite !(G S Hb). destruct (Ag S Hb) as [A1 _]. destruct (Ag' S Hb) as [B1 _].
    unfold Kn in *. unfold row''. destruct (known (get t' S)) eqn:Ek.
    - cbv iota. rewrite Ek. split; reflexivity.
    - simpl. split; [congruence| discriminate]. }
  assert (NR : tr_nz_rel n g t t'').
  { intros S Hb. rewrite (G S Hb). destruct (Ag S Hb) as [A1 A2]. destruct (Ag' S Hb) as [B1 B2].
    unfold Kn, L, U in *. unfold row'', tr_nz_row_rel. destruct (known (get t' S)) eqn:Ek.
    - cbv iota. rewrite Ek. symmetry in B1. destruct (A2 B1) as [A3 A4]. destruct (B2 B1) as [B3 B4].
      split; [congruence|]. rewrite B3, B4, A3, A4. unfold nz_normal, nz_excess. rewrite E. split; reflexivity.
    - simpl. repeat split; reflexivity. }
  pose proof (proj1 (tr_bounds_commute_with_normalisation comp n g t t'' Hs Hd NR)) as R1.
  pose proof (sa_function_of_knowledge comp n t' t'' (tr_sa_computer_cases comp Hs) SK) as R2.
  unfold tr_opt, oteqn in *.
  destruct (compute comp n t) as [r|], (compute comp n t'') as [r''|]; try contradiction;
  destruct (compute comp n t') as [r'|]; try contradiction; [|exact I].
  intros S Hb. unfold Kn, L, U. rewrite (R2 S Hb). exact (R1 S Hb).
Qed.

(* Shapley: executable model of incomplete_cooperative/shapley.py (C05, C06).
   A game is a function  N -> Q  (coalition id |-> value); coalitions are N bitmasks (Bits.v).

   Python                                                            model
   ------                                                            -----
   _get_contributions(n)[s] = factorial(s)*factorial(n-s-1)          sh_contrib n s
   exclude_coalition(singleton, all_coalitions(game))                sh_without n i   (id order, (S & 2^i) == 0)
   coalition | singleton                                             N.lor S (single i)
   coefficients[list(map(len, coalitions_without_player))]           sh_contrib n (size n S)   (index = |S|, S without i)
   sum(cont * (val_with - val_wo)) / n_fac                           sh_player n i g
   compute_shapley_value(game)   (generator over players 0..n-1)     sh_all n g
   compute_shapley_value_for_player(i, game)                         sh_player n i g

   Besides the code's model this file holds the *specification side* of C06 (all orderings, marginal
   contributions, their average) and the linear forms used by the reflection proofs. *)
From ICG Require Import Prelude Bits.
From Coq Require Import FMapPositive.
Local Open Scope Q_scope.

(* ---------- factorials / binomials as integers (never big nat literals) ---------- *)
Fixpoint sh_fact (k : nat) : Z :=
  match k with O => 1%Z | S k' => (Z.of_nat k * sh_fact k')%Z end.

(* Pascal's triangle: the textbook C(n,k), independent of the factorials *)
Fixpoint sh_binom (n k : nat) : Z :=
  match n, k with
  | _, O => 1%Z
  | O, S _ => 0%Z
  | S n', S k' => (sh_binom n' k' + sh_binom n' k)%Z
  end.

(* Sums are executed with a Qred after every addition (same value, canonical representative): without it
   the denominators of float-valued games multiply up term by term.  sh_rsum l == qsum l (ShapleyProofs.sh_rsum_qsum). *)
Fixpoint sh_rsum (l : list Q) : Q :=
  match l with [] => 0 | x :: r => Qred (x + sh_rsum r) end.

(* ---------- the code ---------- *)
Definition sh_contrib (n s : nat) : Z := (sh_fact s * sh_fact (n - s - 1))%Z.

Definition sh_without (n i : nat) : list N := filter (fun S => disjb S (single i)) (alln n).

Definition sh_term (n i : nat) (g : N -> Q) (S : N) : Q :=
  inject_Z (sh_contrib n (size n S)) * (g (N.lor S (single i)) - g S).

Definition sh_player (n i : nat) (g : N -> Q) : Q :=
  Qred (sh_rsum (map (sh_term n i g) (sh_without n i)) / inject_Z (sh_fact n)).

Definition sh_all (n : nat) (g : N -> Q) : list Q := map (fun i => sh_player n i g) (seq 0 n).

(* ---------- games given as value vectors (driver / examples): id |-> nth id ---------- *)
Definition sh_gtab := PositiveMap.t Q.
Fixpoint sh_gfill (l : list Q) (k : N) (m : sh_gtab) : sh_gtab :=
  match l with [] => m | x :: r => sh_gfill r (N.succ k) (PositiveMap.add (N.succ_pos k) x m) end.
Definition sh_gtab_of_list (l : list Q) : sh_gtab := sh_gfill l 0%N (PositiveMap.empty Q).
Definition sh_gget (m : sh_gtab) (S : N) : Q :=
  match PositiveMap.find (N.succ_pos S) m with Some x => x | None => 0 end.
Definition sh_game_of_list (l : list Q) : N -> Q := sh_gget (sh_gtab_of_list l).

(* ---------- specification side: all orderings of the players ---------- *)
Fixpoint sh_inserts (x : nat) (l : list nat) : list (list nat) :=
  match l with
  | [] => [[x]]
  | y :: r => (x :: l) :: map (cons y) (sh_inserts x r)
  end.
Fixpoint sh_perms_of (l : list nat) : list (list nat) :=
  match l with
  | [] => [[]]
  | x :: r => flat_map (sh_inserts x) (sh_perms_of r)
  end.
Definition sh_perms (n : nat) : list (list nat) := sh_perms_of (seq 0 n).

(* the players that come before i in the ordering p, as a coalition *)
Fixpoint sh_pred (p : list nat) (i : nat) : N :=
  match p with
  | [] => 0%N
  | j :: r => if Nat.eqb j i then 0%N else N.lor (single j) (sh_pred r i)
  end.
Definition sh_marg (g : N -> Q) (p : list nat) (i : nat) : Q :=
  g (N.lor (sh_pred p i) (single i)) - g (sh_pred p i).
Definition sh_perm_avg (n i : nat) (g : N -> Q) : Q :=
  qsum (map (fun p => sh_marg g p i) (sh_perms n)) / inject_Z (sh_fact n).

(* ---------- relabelling by an arbitrary permutation pi of the players (specification side) ---------- *)
(* the coalition formed by a list of players *)
Fixpoint sh_mask (p : list nat) : N :=
  match p with [] => 0%N | j :: r => N.lor (single j) (sh_mask r) end.
(* pi^-1(T) = { j < n | pi j in T } *)
Definition sh_pull (n : nat) (pi : nat -> nat) (T : N) : N :=
  sh_mask (filter (fun j => tb T (pi j)) (seq 0 n)).
(* the relabelled game  g o pi^-1 : the coalition pi(S) gets the value g S *)
Definition sh_relabel_by (n : nat) (pi : nat -> nat) (g : N -> Q) : N -> Q := fun T => g (sh_pull n pi T).

(* ---------- linear forms over games (integer coefficients; reflection) ---------- *)
Definition sh_lf := list (Z * N).
Definition sh_eval (g : N -> Q) (l : sh_lf) : Q :=
  qsum (map (fun cs => inject_Z (fst cs) * g (snd cs)) l).
(* coefficient of coalition S: all entries with that id summed *)
Fixpoint sh_coef (l : sh_lf) (S : N) : Z :=
  match l with
  | [] => 0%Z
  | (c, T) :: r => ((if N.eqb T S then c else 0) + sh_coef r S)%Z
  end.
Definition sh_coeffs (n : nat) (l : sh_lf) : list Z := map (sh_coef l) (alln n).
Fixpoint sh_zlist_eqb (a b : list Z) : bool :=
  match a, b with
  | [], [] => true
  | x :: a', y :: b' => Z.eqb x y && sh_zlist_eqb a' b'
  | _, _ => false
  end.
Definition sh_lf_inrange (n : nat) (l : sh_lf) : bool :=
  forallb (fun cs => N.ltb (snd cs) (2 ^ N.of_nat n)) l.
Definition sh_lf_eqb (n : nat) (l1 l2 : sh_lf) : bool :=
  sh_lf_inrange n l1 && sh_lf_inrange n l2 && sh_zlist_eqb (sh_coeffs n l1) (sh_coeffs n l2).

(* n! * sh_player n i  and  n! * sh_perm_avg n i  as explicit linear forms *)
Definition sh_player_lf (n i : nat) : sh_lf :=
  flat_map (fun S => let c := sh_contrib n (size n S) in
                     [(c, N.lor S (single i)); (Z.opp c, S)]) (sh_without n i).
Definition sh_perm_lf (n i : nat) : sh_lf :=
  flat_map (fun p => [(1%Z, N.lor (sh_pred p i) (single i)); ((-1)%Z, sh_pred p i)]) (sh_perms n).
Definition sh_sum_lf (n : nat) : sh_lf := flat_map (sh_player_lf n) (seq 0 n).

Definition sh_check_perm_avg (n : nat) : bool :=
  forallb (fun i => sh_lf_eqb n (sh_player_lf n i) (sh_perm_lf n i)) (seq 0 n).

(* ---------- relabelling: the transposition (j k) acting on players and on coalitions ---------- *)
Definition sh_swapp (j k i : nat) : nat :=
  if Nat.eqb i j then k else if Nat.eqb i k then j else i.
Definition sh_setbit (S : N) (j : nat) (b : bool) : N :=
  if b then N.lor S (single j) else N.ldiff S (single j).
Definition sh_swapm (j k : nat) (S : N) : N :=
  sh_setbit (sh_setbit S j (tb S k)) k (tb S j).
Definition sh_lf_map (f : N -> N) (l : sh_lf) : sh_lf := map (fun cs => (fst cs, f (snd cs))) l.
(* all adjacent transpositions (j j+1), j+1 < n, and all players *)
Definition sh_check_relabel (n : nat) : bool :=
  forallb (fun j => forallb (fun i =>
     sh_lf_eqb n (sh_lf_map (sh_swapm j (S j)) (sh_player_lf n (sh_swapp j (S j) i))) (sh_player_lf n i))
     (seq 0 n)) (seq 0 (n - 1)).
(* a permutation presented as a product of adjacent transpositions  (j1 j1+1) o ( ... ) *)
Fixpoint sh_actp (js : list nat) (i : nat) : nat :=
  match js with [] => i | j :: r => sh_swapp j (S j) (sh_actp r i) end.
(* the relabelled game  g o pi^-1  on coalitions *)
Fixpoint sh_relabel (js : list nat) (g : N -> Q) : N -> Q :=
  match js with [] => g | j :: r => fun s => sh_relabel r g (sh_swapm j (S j) s) end.

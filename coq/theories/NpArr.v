(* NpArr: a tiny executable "numpy array algebra", just enough for incomplete_cooperative/coalition_ids.py.
   Hand-written and TRUSTED as the meaning of the numpy operators named in the comments (harness/translate_ids.py
   emits terms built from these; gen/CoalitionIdsGenProps.v proves those terms equal to the Enum.v model).
   A 1-d integer array is a `list N` (all values in that file are non-negative and below 2^31, see ASSUMPTIONS of
   C18), a boolean array is a `list bool`, a scalar is an `N`.  A failing `assert` is `None`.  Prefix npa_. *)
From Coq Require Import NArith List Bool.
Import ListNotations.
Local Open Scope N_scope.

(* np.arange(n) *)
Definition npa_arange (n : N) : list N := map N.of_nat (seq 0 (N.to_nat n)).

(* scalars: 2 ** e, a - 1 (only emitted for (2 ** e) - 1, which is never negative), a + b, a ^ b, a > b *)
Definition npa_pow2 (e : N) : N := 2 ^ e.
Definition npa_pred (a : N) : N := a - 1.
Definition npa_add (a b : N) : N := a + b.
Definition npa_xor (a b : N) : N := N.lxor a b.
Definition npa_gt (a b : N) : bool := b <? a.

(* elementwise 2 ** a *)
Definition npa_apow2 (a : list N) : list N := map (fun x => 2 ^ x) a.

(* array OP scalar (the scalar is broadcast) *)
Definition npa_and_s (a : list N) (s : N) : list N := map (fun x => N.land x s) a.
Definition npa_or_s (a : list N) (s : N) : list N := map (fun x => N.lor x s) a.
Definition npa_xor_s (a : list N) (s : N) : list N := map (fun x => N.lxor x s) a.

(* a != 0,  a == s *)
Definition npa_ne0 (a : list N) : list bool := map (fun x => negb (x =? 0)) a.
Definition npa_eq_s (a : list N) (s : N) : list bool := map (fun x => x =? s) a.

(* a[m] for a boolean array m of the same length (the translator only emits it for arrays it knows to have the
   same shape; numpy raises IndexError otherwise) *)
Fixpoint npa_mask (a : list N) (m : list bool) : list N :=
  match a, m with
  | x :: a', b :: m' => if b then x :: npa_mask a' m' else npa_mask a' m'
  | _, _ => []
  end.

(* m.sum() of a boolean array: number of True *)
Definition npa_sum_b (m : list bool) : N := N.of_nat (length (filter (fun b => b) m)).

(* np.max(a, initial=i) *)
Definition npa_max_init (a : list N) (i : N) : N := fold_right N.max i a.

(* assert b; rest      and      x = f(...) for an f that can fail; rest *)
Definition npa_assert {A} (b : bool) (k : option A) : option A := if b then k else None.
Definition npa_bind {A B} (o : option A) (k : A -> option B) : option B :=
  match o with Some x => k x | None => None end.

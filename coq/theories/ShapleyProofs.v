(* ShapleyProofs: theorems about Shapley.v (C06, and the sum-exchange lemma shared with C05). *)
From ICG Require Import Prelude Bits Shapley.
From Coq Require Import Permutation FMapPositive FinFun.
Local Open Scope Q_scope.

(* ================================================================== *)
(* generic facts about sums                                            *)
(* ================================================================== *)
Lemma sh_rsum_qsum l : sh_rsum l == qsum l.
Proof. induction l as [|x l IH]; cbn [sh_rsum qsum]; [reflexivity|]. rewrite Qred_correct, IH. reflexivity. Qed.

Lemma sh_qsum_perm l1 l2 : Permutation l1 l2 -> qsum l1 == qsum l2.
Proof.
  induction 1; simpl.
  - reflexivity.
  - rewrite IHPermutation. reflexivity.
  - ring.
  - rewrite IHPermutation1. exact IHPermutation2.
Qed.

Lemma sh_qsum_map_sub {A} (f g : A -> Q) l :
  qsum (map (fun x => f x - g x) l) == qsum (map f l) - qsum (map g l).
Proof. induction l as [|x l IH]; simpl; [ring| rewrite IH; ring]. Qed.

Lemma sh_qsum_map_const0 {A} (l : list A) : qsum (map (fun _ => 0) l) == 0.
Proof. apply qsum_map_zero. intros; reflexivity. Qed.

(* sum over a filtered list = sum of guarded terms over the whole list *)
Lemma sh_qsum_filter {A} (p : A -> bool) (f : A -> Q) l :
  qsum (map f (filter p l)) == qsum (map (fun x => if p x then f x else 0) l).
Proof.
  induction l as [|x l IH]; simpl; [reflexivity|].
  destruct (p x); simpl; rewrite IH; ring.
Qed.

(* a guarded constant summed over a list = (number of hits) * constant *)
Lemma sh_qsum_count {A} (p : A -> bool) (c : Q) l :
  qsum (map (fun x => if p x then c else 0) l) == inject_Z (Z.of_nat (length (filter p l))) * c.
Proof.
  induction l as [|x l IH]; [simpl; ring|].
  cbn [map qsum filter]. rewrite IH. destruct (p x).
  - cbn [length]. rewrite Nat2Z.inj_succ. unfold Z.succ. rewrite inject_Z_plus. ring.
  - ring.
Qed.

(* exchanging two finite sums *)
Lemma sh_qsum_swap {A B} (F : A -> B -> Q) (la : list A) (lb : list B) :
  qsum (map (fun a => qsum (map (fun b => F a b) lb)) la)
  == qsum (map (fun b => qsum (map (fun a => F a b) la)) lb).
Proof.
  induction la as [|a la IH]; simpl.
  - symmetry. apply sh_qsum_map_const0.
  - rewrite IH. symmetry. apply (qsum_map_add (fun b => F a b) (fun b => qsum (map (fun a0 => F a0 b) la))).
Qed.

(* picking out one element of a duplicate-free list *)
Lemma sh_qsum_pick (x : N) (k : Q) (l : list N) :
  NoDup l -> In x l -> qsum (map (fun y => if N.eqb y x then k else 0) l) == k.
Proof.
  induction l as [|y l IH]; intros Hnd Hin; [destruct Hin|].
  inversion Hnd as [|? ? Hy Hl]; subst. cbn [map qsum].
  destruct Hin as [->|Hin].
  - rewrite N.eqb_refl. rewrite qsum_map_zero; [ring|].
    intros z Hz. destruct (N.eqb_spec z x) as [->|]; [contradiction| reflexivity].
  - destruct (N.eqb_spec y x) as [->|]; [contradiction|]. rewrite IH by assumption. ring.
Qed.

Lemma sh_qsum_pick_not (x : N) (k : Q) (l : list N) :
  ~ In x l -> qsum (map (fun y => if N.eqb y x then k else 0) l) == 0.
Proof.
  intros H. apply qsum_map_zero. intros y Hy.
  destruct (N.eqb_spec y x) as [->|]; [contradiction| reflexivity].
Qed.

Lemma sh_Qdiv_le_compat a b c : 0 < c -> a <= b -> a / c <= b / c.
Proof.
  intros Hc Hab. unfold Qdiv. apply Qmult_le_compat_r; [exact Hab|].
  apply Qlt_le_weak. apply Qinv_lt_0_compat. exact Hc.
Qed.

(* ================================================================== *)
(* factorials, binomials                                               *)
(* ================================================================== *)
Lemma sh_fact_pos k : (0 < sh_fact k)%Z.
Proof. induction k as [|k IH]; [reflexivity|]. change (0 < Z.of_nat (S k) * sh_fact k)%Z. nia. Qed.

Lemma sh_fact_S k : sh_fact (S k) = (Z.of_nat (S k) * sh_fact k)%Z.
Proof. reflexivity. Qed.

Lemma sh_factQ_pos k : 0 < inject_Z (sh_fact k).
Proof. change 0 with (inject_Z 0). rewrite <- Zlt_Qlt. apply sh_fact_pos. Qed.

Lemma sh_contrib_nonneg n s : (0 <= sh_contrib n s)%Z.
Proof. unfold sh_contrib. pose proof (sh_fact_pos s). pose proof (sh_fact_pos (n - s - 1)). nia. Qed.

Lemma sh_binom_0_r n : sh_binom n 0 = 1%Z.
Proof. destruct n; reflexivity. Qed.

Lemma sh_binom_gt n : forall k, (n < k)%nat -> sh_binom n k = 0%Z.
Proof.
  induction n as [|n IH]; intros k Hk.
  - destruct k; [lia| reflexivity].
  - destruct k as [|k]; [lia|]. cbn [sh_binom]. rewrite !IH by lia. reflexivity.
Qed.

(* C(n,k) * k! * (n-k)! = n! *)
Lemma sh_binom_fact n : forall k, (k <= n)%nat ->
  (sh_binom n k * (sh_fact k * sh_fact (n - k)) = sh_fact n)%Z.
Proof.
  induction n as [|n IH]; intros k Hk.
  - assert (k = 0)%nat as -> by lia. reflexivity.
  - destruct k as [|k].
    + rewrite sh_binom_0_r, Nat.sub_0_r. change (sh_fact 0) with 1%Z. ring.
    + cbn [sh_binom]. replace (S n - S k)%nat with (n - k)%nat by lia.
      destruct (Nat.eq_dec k n) as [->|Hne].
      * rewrite (sh_binom_gt n (S n)) by lia. rewrite Nat.sub_diag.
        pose proof (IH n (Nat.le_refl n)) as E. rewrite Nat.sub_diag in E.
        rewrite (sh_fact_S n).
        transitivity (Z.of_nat (S n) * (sh_binom n n * (sh_fact n * sh_fact 0)))%Z; [ring| rewrite E; ring].
      * pose proof (IH k ltac:(lia)) as E1. pose proof (IH (S k) ltac:(lia)) as E2.
        remember (n - S k)%nat as m eqn:Em.
        replace (n - k)%nat with (S m) in * by lia.
        assert (En : Z.of_nat (S n) = (Z.of_nat (S k) + Z.of_nat (S m))%Z) by lia.
        rewrite (sh_fact_S n), En.
        transitivity (Z.of_nat (S k) * (sh_binom n k * (sh_fact k * sh_fact (S m)))
                      + Z.of_nat (S m) * (sh_binom n (S k) * (sh_fact (S k) * sh_fact m)))%Z.
        { rewrite (sh_fact_S k), (sh_fact_S m). ring. }
        rewrite E1, E2. ring.
Qed.

Lemma sh_binom_pos n k : (k <= n)%nat -> (0 < sh_binom n k)%Z.
Proof.
  intros H. pose proof (sh_binom_fact n k H) as E.
  pose proof (sh_fact_pos n). pose proof (sh_fact_pos k). pose proof (sh_fact_pos (n - k)). nia.
Qed.

(* ================================================================== *)
(* the code's sum, unfolded                                            *)
(* ================================================================== *)
Lemma sh_player_eq n i g :
  sh_player n i g == qsum (map (sh_term n i g) (sh_without n i)) / inject_Z (sh_fact n).
Proof. unfold sh_player. rewrite Qred_correct, sh_rsum_qsum. reflexivity. Qed.

Lemma sh_disj_single S i : disjb S (single i) = negb (tb S i).
Proof.
  destruct (tb S i) eqn:E; simpl.
  - destruct (disjb S (single i)) eqn:D; [|reflexivity].
    rewrite disjb_spec in D. specialize (D i E). rewrite tb_single, Nat.eqb_refl in D. discriminate.
  - apply disjb_spec. intros j Hj. rewrite tb_single. apply Nat.eqb_neq. intro; subst; congruence.
Qed.

Lemma sh_in_without n i S : In S (sh_without n i) <-> bounded n S /\ tb S i = false.
Proof.
  unfold sh_without. rewrite filter_In, in_alln, sh_disj_single, negb_true_iff. tauto.
Qed.

Lemma sh_tb_add S i : tb (N.lor S (single i)) i = true.
Proof. rewrite tb_lor, tb_single, Nat.eqb_refl. apply orb_true_r. Qed.

Lemma sh_bounded_add n S i : bounded n S -> (i < n)%nat -> bounded n (N.lor S (single i)).
Proof. intros. apply bounded_lor; [assumption| apply bounded_single; assumption]. Qed.

(* ---------- extensionality, null player, linearity, entry points: all n ---------- *)
Lemma sh_player_ext n i g h :
  (forall S, bounded n S -> g S == h S) ->
  (forall S, bounded n S -> g (N.lor S (single i)) == h (N.lor S (single i))) ->
  sh_player n i g == sh_player n i h.
Proof.
  intros H1 H2. rewrite !sh_player_eq. apply Qdiv_comp; [|reflexivity].
  apply qsum_map_ext. intros S HS. apply sh_in_without in HS. destruct HS as [Hb _].
  unfold sh_term. rewrite (H1 S Hb), (H2 S Hb). reflexivity.
Qed.

Lemma sh_null n i g :
  (forall S, bounded n S -> tb S i = false -> g (N.lor S (single i)) == g S) ->
  sh_player n i g == 0.
Proof.
  intros H. rewrite sh_player_eq. rewrite qsum_map_zero; [unfold Qdiv; ring|].
  intros S HS. apply sh_in_without in HS. destruct HS as [Hb Hi].
  unfold sh_term. rewrite (H S Hb Hi). ring.
Qed.

Lemma sh_linear n i a b g h :
  sh_player n i (fun S => a * g S + b * h S) == a * sh_player n i g + b * sh_player n i h.
Proof.
  rewrite !sh_player_eq.
  assert (E : qsum (map (sh_term n i (fun S => a * g S + b * h S)) (sh_without n i))
              == a * qsum (map (sh_term n i g) (sh_without n i)) + b * qsum (map (sh_term n i h) (sh_without n i))).
  { rewrite <- !qsum_map_scal.
    rewrite <- (qsum_map_add (fun x => a * sh_term n i g x) (fun x => b * sh_term n i h x)).
    apply qsum_map_ext. intros S _. unfold sh_term. ring. }
  rewrite E. unfold Qdiv. ring.
Qed.

Lemma sh_all_length n g : length (sh_all n g) = n.
Proof. unfold sh_all. rewrite map_length, seq_length. reflexivity. Qed.

Lemma sh_entry_points_agree n i g d : (i < n)%nat -> nth i (sh_all n g) d = sh_player n i g.
Proof.
  intros Hi. unfold sh_all.
  rewrite (nth_indep _ d (sh_player n 0 g)) by (rewrite map_length, seq_length; exact Hi).
  rewrite (map_nth (fun i => sh_player n i g) (seq 0 n) 0%nat i). rewrite seq_nth by exact Hi. reflexivity.
Qed.

(* monotonicity of the linear form: non-negative weight on g(S+i), non-positive on g(S) *)
Lemma sh_player_mono n i g h :
  (forall S, bounded n S -> tb S i = false -> h S <= g S) ->
  (forall S, bounded n S -> tb S i = false -> g (N.lor S (single i)) <= h (N.lor S (single i))) ->
  sh_player n i g <= sh_player n i h.
Proof.
  intros H1 H2. rewrite !sh_player_eq. apply sh_Qdiv_le_compat; [apply sh_factQ_pos|].
  apply qsum_map_le. intros S HS. apply sh_in_without in HS. destruct HS as [Hb Hi].
  unfold sh_term. specialize (H1 S Hb Hi). specialize (H2 S Hb Hi).
  assert (Hc : 0 <= inject_Z (sh_contrib n (size n S))).
  { change 0 with (inject_Z 0). rewrite <- Zle_Qle. apply sh_contrib_nonneg. }
  rewrite (Qmult_comm _ (g _ - g S)), (Qmult_comm _ (h _ - h S)).
  apply Qmult_le_compat_r; [lra| exact Hc].
Qed.

(* ================================================================== *)
(* the sum exchange  sum_i sum_{S without i}  <->  sum_T sum_{i in T}  *)
(* (shared by C05 exploit_weighted_gap and C06 shapley_efficiency)     *)
(* ================================================================== *)
Definition sh_with (n i : nat) : list N := filter (fun T => tb T i) (alln n).
Definition sh_term2 (n i : nat) (a b : N -> Q) (S : N) : Q :=
  inject_Z (sh_contrib n (size n S)) * (a (N.lor S (single i)) - b S).
(* the weight n!/C(n,|S|) = |S|! (n-|S|)! *)
Definition sh_w (n : nat) (S : N) : Z := (sh_fact (size n S) * sh_fact (n - size n S))%Z.

Lemma sh_NoDup_map_on {A B} (f : A -> B) l :
  (forall x y, In x l -> In y l -> f x = f y -> x = y) -> NoDup l -> NoDup (map f l).
Proof.
  induction l as [|a l IH]; intros Hinj Hnd; simpl; [constructor|].
  inversion Hnd as [|? ? Ha Hl]; subst. constructor.
  - intro Hin. apply in_map_iff in Hin. destruct Hin as [y [Ey Hy]].
    assert (y = a) by (apply Hinj; [right; exact Hy| left; reflexivity| exact Ey]). subst. contradiction.
  - apply IH; [|exact Hl]. intros x y Hx Hy. apply Hinj; right; assumption.
Qed.

Lemma sh_add_inj S1 S2 i :
  tb S1 i = false -> tb S2 i = false -> N.lor S1 (single i) = N.lor S2 (single i) -> S1 = S2.
Proof.
  intros H1 H2 E. apply bits_inj_nat. intro j.
  assert (H : tb (N.lor S1 (single i)) j = tb (N.lor S2 (single i)) j) by (rewrite E; reflexivity).
  rewrite !tb_lor, tb_single in H. destruct (Nat.eqb_spec i j) as [->|_]; [congruence|].
  rewrite !orb_false_r in H. exact H.
Qed.

Lemma sh_reindex_perm n i : (i < n)%nat ->
  Permutation (map (fun S => N.lor S (single i)) (sh_without n i)) (sh_with n i).
Proof.
  intros Hi. apply NoDup_Permutation.
  - apply sh_NoDup_map_on; [| apply NoDup_filter, NoDup_alln].
    intros x y Hx Hy E. apply sh_in_without in Hx. apply sh_in_without in Hy.
    apply (sh_add_inj x y i); tauto.
  - apply NoDup_filter, NoDup_alln.
  - intro T. rewrite in_map_iff. unfold sh_with. rewrite filter_In, in_alln. split.
    + intros [S [<- HS]]. apply sh_in_without in HS. split; [apply sh_bounded_add; tauto| apply sh_tb_add].
    + intros [Hb Ht]. exists (N.ldiff T (single i)). split.
      * apply bits_inj_nat. intro j. rewrite tb_lor, tb_ldiff, tb_single.
        destruct (Nat.eqb_spec i j) as [<-|_]; [rewrite Ht; reflexivity|].
        simpl. rewrite andb_true_r, orb_false_r. reflexivity.
      * apply sh_in_without. split; [apply bounded_ldiff; exact Hb|].
        rewrite tb_ldiff, tb_single, Nat.eqb_refl. apply andb_false_r.
Qed.

Lemma sh_reindex n i (h : N -> Q) : (i < n)%nat ->
  qsum (map (fun S => h (N.lor S (single i))) (sh_without n i)) == qsum (map h (sh_with n i)).
Proof.
  intros Hi. rewrite <- (map_map (fun S => N.lor S (single i)) h).
  apply sh_qsum_perm. apply Permutation_map. apply sh_reindex_perm. exact Hi.
Qed.

(* ---------- sizes ---------- *)
Lemma sh_filter_len_flip (f f' : nat -> bool) i n :
  (i < n)%nat -> f i = false -> f' i = true -> (forall j, j <> i -> f' j = f j) ->
  length (filter f' (seq 0 n)) = S (length (filter f (seq 0 n))).
Proof.
  intros Hi Hf Hf' Hext.
  replace n with (i + (1 + (n - i - 1)))%nat by lia.
  rewrite !seq_app, !filter_app, !app_length. cbn [seq filter]. simpl (0 + i)%nat.
  rewrite Hf, Hf'. cbn [length].
  rewrite (filter_ext_in f' f (seq 0 i)), (filter_ext_in f' f (seq (i + 1) (n - i - 1))).
  - lia.
  - intros j Hj. apply in_seq in Hj. apply Hext. lia.
  - intros j Hj. apply in_seq in Hj. apply Hext. lia.
Qed.

Lemma sh_size_add n S i : (i < n)%nat -> tb S i = false -> size n (N.lor S (single i)) = Datatypes.S (size n S).
Proof.
  intros Hi Ht. unfold size, players. apply sh_filter_len_flip with (i := i); auto.
  - apply sh_tb_add.
  - intros j Hj. rewrite tb_lor, tb_single. destruct (Nat.eqb_spec i j); [congruence| apply orb_false_r].
Qed.

Lemma sh_filter_len_neg {A} (f : A -> bool) l :
  (length (filter (fun x => negb (f x)) l) + length (filter f l) = length l)%nat.
Proof. induction l as [|x l IH]; simpl; [reflexivity|]. destruct (f x); simpl; lia. Qed.

Lemma sh_count_out n S :
  length (filter (fun i => disjb S (single i)) (seq 0 n)) = (n - size n S)%nat.
Proof.
  rewrite (filter_ext _ (fun i => negb (tb S i))) by (intro; apply sh_disj_single).
  pose proof (sh_filter_len_neg (tb S) (seq 0 n)) as H. rewrite seq_length in H.
  unfold size, players. lia.
Qed.

Lemma sh_size_grand n : size n (grand n) = n.
Proof.
  unfold size, players. rewrite (filter_ext_in _ (fun _ => true)).
  - assert (forall l : list nat, filter (fun _ => true) l = l) as -> by (induction l; simpl; congruence).
    apply seq_length.
  - intros j Hj. apply in_seq in Hj. rewrite tb_grand. apply Nat.ltb_lt. lia.
Qed.

Lemma sh_size_lt n S : bounded n S -> S <> grand n -> (size n S < n)%nat.
Proof.
  intros Hb Hne. rewrite <- (sh_size_grand n) at 2. apply ssub_size; [apply bounded_grand|].
  apply ssub_spec. split; [|exact Hne]. apply sub_spec. apply sub_grand. exact Hb.
Qed.

(* ---------- the exchange ---------- *)
Lemma sh_exchange_raw n a b :
  qsum (map (fun i => qsum (map (sh_term2 n i a b) (sh_without n i))) (seq 0 n))
  == qsum (map (fun T => inject_Z (Z.of_nat (size n T)) * (inject_Z (sh_contrib n (size n T - 1)) * a T)) (alln n))
   - qsum (map (fun S => inject_Z (Z.of_nat (n - size n S)) * (inject_Z (sh_contrib n (size n S)) * b S)) (alln n)).
Proof.
  (* split each inner sum into its a-part and b-part, both as guarded sums over all coalitions *)
  assert (E : forall i, In i (seq 0 n) ->
     qsum (map (sh_term2 n i a b) (sh_without n i))
     == qsum (map (fun T => if tb T i then inject_Z (sh_contrib n (size n T - 1)) * a T else 0) (alln n))
      - qsum (map (fun S => if disjb S (single i) then inject_Z (sh_contrib n (size n S)) * b S else 0) (alln n))).
  { intros i Hi. apply in_seq in Hi.
    rewrite <- (sh_qsum_filter (fun T => tb T i) (fun T => inject_Z (sh_contrib n (size n T - 1)) * a T)).
    rewrite <- (sh_qsum_filter (fun S => disjb S (single i)) (fun S => inject_Z (sh_contrib n (size n S)) * b S)).
    fold (sh_with n i). fold (sh_without n i).
    rewrite <- (sh_reindex n i (fun T => inject_Z (sh_contrib n (size n T - 1)) * a T)) by lia.
    rewrite <- sh_qsum_map_sub. apply qsum_map_ext. intros S HS. apply sh_in_without in HS.
    destruct HS as [Hb Ht]. unfold sh_term2. rewrite sh_size_add by (auto; lia).
    replace (Datatypes.S (size n S) - 1)%nat with (size n S) by lia. ring. }
  rewrite (qsum_map_ext _ _ _ E). clear E.
  rewrite (sh_qsum_map_sub
     (fun i => qsum (map (fun T => if tb T i then inject_Z (sh_contrib n (size n T - 1)) * a T else 0) (alln n)))
     (fun i => qsum (map (fun S => if disjb S (single i) then inject_Z (sh_contrib n (size n S)) * b S else 0) (alln n)))).
  rewrite (sh_qsum_swap (fun i T => if tb T i then inject_Z (sh_contrib n (size n T - 1)) * a T else 0)).
  rewrite (sh_qsum_swap (fun i S => if disjb S (single i) then inject_Z (sh_contrib n (size n S)) * b S else 0)).
  apply Qplus_comp; [|apply Qopp_comp]; apply qsum_map_ext; intros T _.
  - rewrite (sh_qsum_count (tb T)). reflexivity.
  - rewrite (sh_qsum_count (fun i => disjb T (single i))). rewrite sh_count_out. reflexivity.
Qed.

(* |T| (|T|-1)! (n-|T|)!  =  |T|! (n-|T|)!   unless T is empty *)
Lemma sh_weight_in n T : bounded n T ->
  (Z.of_nat (size n T) * sh_contrib n (size n T - 1) = if N.eqb T 0 then 0 else sh_w n T)%Z.
Proof.
  intros Hb. destruct (N.eqb_spec T 0) as [->|Hne].
  - rewrite size_0. reflexivity.
  - pose proof (size_pos n T Hb Hne) as Hp. pose proof (size_le_n n T) as Hle.
    unfold sh_contrib, sh_w. destruct (size n T) as [|k]; [lia|].
    replace (Datatypes.S k - 1)%nat with k by lia. replace (n - k - 1)%nat with (n - Datatypes.S k)%nat by lia.
    rewrite (sh_fact_S k). ring.
Qed.

(* (n-|S|) |S|! (n-|S|-1)!  =  |S|! (n-|S|)!   unless S is the grand coalition *)
Lemma sh_weight_out n S : bounded n S ->
  (Z.of_nat (n - size n S) * sh_contrib n (size n S) = if N.eqb S (grand n) then 0 else sh_w n S)%Z.
Proof.
  intros Hb. destruct (N.eqb_spec S (grand n)) as [->|Hne].
  - rewrite sh_size_grand, Nat.sub_diag. reflexivity.
  - pose proof (sh_size_lt n S Hb Hne) as Hlt.
    unfold sh_contrib, sh_w. remember (size n S) as k. remember (n - k - 1)%nat as m.
    replace (n - k)%nat with (Datatypes.S m) by lia.
    rewrite (sh_fact_S m). ring.
Qed.

Lemma sh_w_0 n : sh_w n 0 = sh_fact n.
Proof. unfold sh_w. rewrite size_0, Nat.sub_0_r. change (sh_fact 0) with 1%Z. ring. Qed.
Lemma sh_w_grand n : sh_w n (grand n) = sh_fact n.
Proof. unfold sh_w. rewrite sh_size_grand, Nat.sub_diag. change (sh_fact 0) with 1%Z. ring. Qed.

Lemma sh_guard_sum (x : N) (F : N -> Q) l : NoDup l -> In x l ->
  qsum (map (fun T => if N.eqb T x then 0 else F T) l) == qsum (map F l) - F x.
Proof.
  intros Hnd Hin. rewrite <- (sh_qsum_pick x (F x) l Hnd Hin). rewrite <- sh_qsum_map_sub.
  apply qsum_map_ext. intros T _. destruct (N.eqb_spec T x) as [->|_]; ring.
Qed.

Lemma sh_in_alln_0 n : In 0%N (alln n).
Proof. apply in_alln. apply bounded_0. Qed.
Lemma sh_in_alln_grand n : In (grand n) (alln n).
Proof. apply in_alln. apply bounded_grand. Qed.

Theorem sh_exchange n a b :
  qsum (map (fun i => qsum (map (sh_term2 n i a b) (sh_without n i))) (seq 0 n))
  == (qsum (map (fun T => inject_Z (sh_w n T) * a T) (alln n)) - inject_Z (sh_fact n) * a 0%N)
   - (qsum (map (fun S => inject_Z (sh_w n S) * b S) (alln n)) - inject_Z (sh_fact n) * b (grand n)).
Proof.
  rewrite sh_exchange_raw.
  rewrite <- (sh_w_0 n) at 1. rewrite <- (sh_w_grand n) at 1.
  rewrite <- (sh_guard_sum 0%N (fun T => inject_Z (sh_w n T) * a T)) by (apply NoDup_alln || apply sh_in_alln_0).
  rewrite <- (sh_guard_sum (grand n) (fun T => inject_Z (sh_w n T) * b T)) by (apply NoDup_alln || apply sh_in_alln_grand).
  apply Qplus_comp; [|apply Qopp_comp]; apply qsum_map_ext; intros T HT; apply in_alln in HT.
  - rewrite Qmult_assoc, <- inject_Z_mult, (sh_weight_in n T HT).
    destruct (N.eqb T 0); [change (inject_Z 0) with 0|]; ring.
  - rewrite Qmult_assoc, <- inject_Z_mult, (sh_weight_out n T HT).
    destruct (N.eqb T (grand n)); [change (inject_Z 0) with 0|]; ring.
Qed.

(* sum of the players' values: pull the common division by n! out *)
Lemma sh_sum_players n (G : nat -> N -> Q) :
  qsum (map (fun i => sh_player n i (G i)) (seq 0 n))
  == qsum (map (fun i => qsum (map (sh_term n i (G i)) (sh_without n i))) (seq 0 n)) / inject_Z (sh_fact n).
Proof.
  unfold Qdiv. rewrite Qmult_comm, <- qsum_map_scal. apply qsum_map_ext. intros i _.
  rewrite sh_player_eq. unfold Qdiv. ring.
Qed.

(* ---------- efficiency: all n ---------- *)
Theorem sh_efficiency n g :
  qsum (sh_all n g) == g (grand n) - g 0%N.
Proof.
  unfold sh_all. rewrite (sh_sum_players n (fun _ => g)).
  change (qsum (map (fun i => qsum (map (sh_term n i g) (sh_without n i))) (seq 0 n)))
    with (qsum (map (fun i => qsum (map (sh_term2 n i g g) (sh_without n i))) (seq 0 n))).
  rewrite sh_exchange. pose proof (sh_factQ_pos n) as Hp. field. lra.
Qed.

(* ================================================================== *)
(* perms n enumerates exactly the orderings of the players             *)
(* ================================================================== *)
Lemma sh_in_inserts x l p :
  In p (sh_inserts x l) <-> exists l1 l2, l = l1 ++ l2 /\ p = l1 ++ x :: l2.
Proof.
  split.
  - revert p. induction l as [|y r IH]; intros p Hp; simpl in Hp.
    + destruct Hp as [<-|[]]. exists [], []. split; reflexivity.
    + destruct Hp as [<-|Hp].
      * exists [], (y :: r). split; reflexivity.
      * apply in_map_iff in Hp. destruct Hp as [q [<- Hq]].
        destruct (IH q Hq) as [l1 [l2 [-> ->]]]. exists (y :: l1), l2. split; reflexivity.
  - intros [l1 [l2 [-> ->]]]. induction l1 as [|y l1 IH]; simpl.
    + destruct l2; simpl; left; reflexivity.
    + right. apply in_map. exact IH.
Qed.

Lemma sh_perms_of_sound l : forall p, In p (sh_perms_of l) -> Permutation l p.
Proof.
  induction l as [|x r IH]; intros p Hp; simpl in Hp.
  - destruct Hp as [<-|[]]. constructor.
  - apply in_flat_map in Hp. destruct Hp as [q [Hq Hp]].
    apply sh_in_inserts in Hp. destruct Hp as [l1 [l2 [-> ->]]].
    apply Permutation_cons_app. apply IH. exact Hq.
Qed.

Lemma sh_perms_of_complete l : forall p, Permutation l p -> In p (sh_perms_of l).
Proof.
  induction l as [|x r IH]; intros p Hp.
  - apply Permutation_nil in Hp. subst. left. reflexivity.
  - assert (Hx : In x p) by (eapply Permutation_in; [exact Hp| left; reflexivity]).
    apply in_split in Hx. destruct Hx as [l1 [l2 ->]].
    apply Permutation_cons_app_inv in Hp.
    cbn [sh_perms_of]. apply in_flat_map. exists (l1 ++ l2). split; [apply IH; exact Hp|].
    apply sh_in_inserts. exists l1, l2. split; reflexivity.
Qed.

Lemma sh_NoDup_flat_map {A B} (f : A -> list B) l :
  NoDup l -> (forall a, In a l -> NoDup (f a)) ->
  (forall a a' b, In a l -> In a' l -> In b (f a) -> In b (f a') -> a = a') ->
  NoDup (flat_map f l).
Proof.
  induction l as [|a l IH]; intros Hnd Hf Hdis; simpl; [constructor|].
  inversion Hnd as [|? ? Ha Hl]; subst.
  apply NoDup_app_intro.
  - apply Hf. left. reflexivity.
  - apply IH; [exact Hl| intros; apply Hf; right; assumption|].
    intros x y b Hx Hy. apply Hdis; right; assumption.
  - intros b Hb Hb'. apply in_flat_map in Hb'. destruct Hb' as [a' [Ha' Hb']].
    assert (a = a') by (apply (Hdis a a' b); [left; reflexivity| right; exact Ha'| exact Hb| exact Hb']).
    subst. contradiction.
Qed.

Lemma sh_NoDup_inserts x l : ~ In x l -> NoDup (sh_inserts x l).
Proof.
  induction l as [|y r IH]; intros Hx; simpl.
  - constructor; [intros []| constructor].
  - constructor.
    + intro Hin. apply in_map_iff in Hin. destruct Hin as [q [E _]]. inversion E. subst. apply Hx. left. reflexivity.
    + apply Injective_map_NoDup; [intros a b E; inversion E; reflexivity|].
      apply IH. intro H. apply Hx. right. exact H.
Qed.

Lemma sh_inserts_remove x l p : ~ In x l -> In p (sh_inserts x l) -> remove Nat.eq_dec x p = l.
Proof.
  intros Hx Hp. apply sh_in_inserts in Hp. destruct Hp as [l1 [l2 [-> ->]]].
  rewrite remove_app, remove_cons, <- remove_app. apply notin_remove. exact Hx.
Qed.

Lemma sh_NoDup_perms_of l : NoDup l -> NoDup (sh_perms_of l).
Proof.
  induction l as [|x r IH]; intros Hnd; simpl.
  - constructor; [intros []| constructor].
  - inversion Hnd as [|? ? Hx Hr]; subst.
    assert (Hnotin : forall q, In q (sh_perms_of r) -> ~ In x q).
    { intros q Hq Hin. apply Hx. apply sh_perms_of_sound in Hq.
      eapply Permutation_in; [apply Permutation_sym; exact Hq| exact Hin]. }
    apply sh_NoDup_flat_map.
    + apply IH. exact Hr.
    + intros q Hq. apply sh_NoDup_inserts. apply Hnotin. exact Hq.
    + intros q q' p Hq Hq' Hp Hp'.
      rewrite <- (sh_inserts_remove x q p (Hnotin q Hq) Hp).
      apply (sh_inserts_remove x q' p (Hnotin q' Hq') Hp').
Qed.

Theorem sh_perms_spec n p : In p (sh_perms n) <-> Permutation (seq 0 n) p.
Proof. unfold sh_perms. split; [apply sh_perms_of_sound| apply sh_perms_of_complete]. Qed.

Theorem sh_perms_NoDup n : NoDup (sh_perms n).
Proof. apply sh_NoDup_perms_of. apply seq_NoDup. Qed.

Lemma sh_inserts_length x l : length (sh_inserts x l) = S (length l).
Proof. induction l as [|y r IH]; simpl; [reflexivity|]. rewrite map_length, IH. reflexivity. Qed.

Lemma sh_flat_map_length_const {A B} (f : A -> list B) k l :
  (forall a, In a l -> length (f a) = k) -> length (flat_map f l) = (length l * k)%nat.
Proof.
  induction l as [|a l IH]; intros H; simpl; [reflexivity|].
  rewrite app_length, (H a) by (left; reflexivity). rewrite IH by (intros; apply H; right; assumption). lia.
Qed.

Lemma sh_perms_of_length l : Z.of_nat (length (sh_perms_of l)) = sh_fact (length l).
Proof.
  induction l as [|x r IH]; [reflexivity|].
  cbn [sh_perms_of length]. rewrite (sh_flat_map_length_const _ (S (length r))).
  - rewrite sh_fact_S, <- IH. lia.
  - intros q Hq. rewrite sh_inserts_length. f_equal. symmetry. apply Permutation_length.
    apply sh_perms_of_sound. exact Hq.
Qed.

(* there are n! orderings: dividing the sum by n! is taking the average *)
Theorem sh_perms_length n : Z.of_nat (length (sh_perms n)) = sh_fact n.
Proof. unfold sh_perms. rewrite sh_perms_of_length, seq_length. reflexivity. Qed.

(* ================================================================== *)
(* linear forms and the reflection principle                           *)
(* ================================================================== *)
Lemma sh_eval_app g l1 l2 : sh_eval g (l1 ++ l2) == sh_eval g l1 + sh_eval g l2.
Proof. unfold sh_eval. rewrite map_app. apply qsum_app. Qed.

Lemma sh_eval_flat_map {A} g (f : A -> sh_lf) l :
  sh_eval g (flat_map f l) == qsum (map (fun x => sh_eval g (f x)) l).
Proof.
  induction l as [|x l IH]; simpl; [reflexivity|]. rewrite sh_eval_app, IH. reflexivity.
Qed.

Lemma sh_player_as_lf n i g :
  sh_player n i g == sh_eval g (sh_player_lf n i) / inject_Z (sh_fact n).
Proof.
  rewrite sh_player_eq. apply Qdiv_comp; [|reflexivity].
  unfold sh_player_lf. rewrite sh_eval_flat_map. apply qsum_map_ext. intros S _.
  unfold sh_term, sh_eval. cbn [map qsum fst snd]. rewrite inject_Z_opp. ring.
Qed.

Lemma sh_perm_avg_as_lf n i g :
  sh_perm_avg n i g == sh_eval g (sh_perm_lf n i) / inject_Z (sh_fact n).
Proof.
  unfold sh_perm_avg. apply Qdiv_comp; [|reflexivity].
  unfold sh_perm_lf. rewrite sh_eval_flat_map. apply qsum_map_ext. intros p _.
  unfold sh_marg, sh_eval. cbn [map qsum fst snd]. change (inject_Z 1) with 1. change (inject_Z (-1)) with (-(1)). ring.
Qed.

Lemma sh_eval_coef n g l :
  sh_lf_inrange n l = true ->
  sh_eval g l == qsum (map (fun S => inject_Z (sh_coef l S) * g S) (alln n)).
Proof.
  induction l as [|[c T] l IH]; intros Hr.
  - unfold sh_eval. cbn [map qsum sh_coef]. symmetry. apply qsum_map_zero. intros; change (inject_Z 0) with 0; ring.
  - unfold sh_lf_inrange in Hr. cbn [forallb snd] in Hr. apply andb_true_iff in Hr. destruct Hr as [HT Hr].
    apply N.ltb_lt in HT.
    assert (Hin : In T (alln n)) by (apply in_alln, bounded_lt; exact HT).
    unfold sh_eval in *. cbn [map qsum fst snd]. rewrite (IH Hr).
    rewrite <- (sh_qsum_pick T (inject_Z c * g T) (alln n) (NoDup_alln n) Hin).
    rewrite <- qsum_map_add. apply qsum_map_ext. intros S _. cbn [sh_coef].
    rewrite inject_Z_plus. destruct (N.eqb_spec T S) as [->|Hne].
    + rewrite N.eqb_refl. ring.
    + destruct (N.eqb_spec S T) as [E|_]; [congruence|]. change (inject_Z 0) with 0. ring.
Qed.

Lemma sh_zlist_eqb_eq a : forall b, sh_zlist_eqb a b = true -> a = b.
Proof.
  induction a as [|x a IH]; intros [|y b] H; simpl in H; try discriminate; [reflexivity|].
  apply andb_true_iff in H. destruct H as [H1 H2]. apply Z.eqb_eq in H1. subst. f_equal. apply IH. exact H2.
Qed.

(* the reflection principle: equal coefficient vectors => equal on every game *)
Theorem sh_eval_ext n l1 l2 :
  sh_lf_eqb n l1 l2 = true -> forall g, sh_eval g l1 == sh_eval g l2.
Proof.
  unfold sh_lf_eqb. intros H g. apply andb_true_iff in H. destruct H as [H H3].
  apply andb_true_iff in H. destruct H as [H1 H2].
  rewrite (sh_eval_coef n g l1 H1), (sh_eval_coef n g l2 H2).
  apply sh_zlist_eqb_eq in H3. unfold sh_coeffs in H3.
  apply qsum_map_ext. intros S HS. rewrite (ext_in_map H3 S HS). reflexivity.
Qed.

Theorem sh_check_perm_avg_sound n :
  sh_check_perm_avg n = true -> forall i g, (i < n)%nat -> sh_player n i g == sh_perm_avg n i g.
Proof.
  unfold sh_check_perm_avg. intros H i g Hi. rewrite forallb_forall in H.
  rewrite sh_player_as_lf, sh_perm_avg_as_lf. apply Qdiv_comp; [|reflexivity].
  apply (sh_eval_ext n). apply H. apply in_seq. lia.
Qed.

Lemma sh_check_perm_avg_1 : sh_check_perm_avg 1 = true. Proof. vm_compute. reflexivity. Qed.
Lemma sh_check_perm_avg_2 : sh_check_perm_avg 2 = true. Proof. vm_compute. reflexivity. Qed.
Lemma sh_check_perm_avg_3 : sh_check_perm_avg 3 = true. Proof. vm_compute. reflexivity. Qed.
Lemma sh_check_perm_avg_4 : sh_check_perm_avg 4 = true. Proof. vm_compute. reflexivity. Qed.
Lemma sh_check_perm_avg_5 : sh_check_perm_avg 5 = true. Proof. vm_compute. reflexivity. Qed.
Lemma sh_check_perm_avg_6 : sh_check_perm_avg 6 = true. Proof. vm_compute. reflexivity. Qed.
Lemma sh_check_perm_avg_7 : sh_check_perm_avg 7 = true. Proof. vm_compute. reflexivity. Qed.

(* for EVERY game g, for each player count 1..7 *)
Theorem sh_is_perm_avg n i g :
  (1 <= n <= 7)%nat -> (i < n)%nat -> sh_player n i g == sh_perm_avg n i g.
Proof.
  intros Hn Hi.
  assert (H : sh_check_perm_avg n = true).
  { destruct n as [|[|[|[|[|[|[|[|n]]]]]]]]; try lia.
    - exact sh_check_perm_avg_1. - exact sh_check_perm_avg_2. - exact sh_check_perm_avg_3.
    - exact sh_check_perm_avg_4. - exact sh_check_perm_avg_5. - exact sh_check_perm_avg_6.
    - exact sh_check_perm_avg_7. }
  apply sh_check_perm_avg_sound; assumption.
Qed.

(* ================================================================== *)
(* relabelling                                                         *)
(* ================================================================== *)
Lemma sh_tb_setbit S j b i : tb (sh_setbit S j b) i = if Nat.eqb i j then b else tb S i.
Proof.
  unfold sh_setbit. destruct b.
  - rewrite tb_lor, tb_single. rewrite (Nat.eqb_sym j i). destruct (Nat.eqb i j); [apply orb_true_r| apply orb_false_r].
  - rewrite tb_ldiff, tb_single. rewrite (Nat.eqb_sym j i). destruct (Nat.eqb i j); [apply andb_false_r| apply andb_true_r].
Qed.

(* sh_swapm j k S is the image of the coalition S under the transposition (j k) of the players *)
Lemma sh_tb_swapm j k S i : j <> k -> tb (sh_swapm j k S) i = tb S (sh_swapp j k i).
Proof.
  intros Hjk. unfold sh_swapm, sh_swapp. rewrite !sh_tb_setbit.
  destruct (Nat.eqb_spec i k) as [->|Hik].
  - destruct (Nat.eqb_spec k j); [congruence| reflexivity].
  - destruct (Nat.eqb_spec i j); reflexivity.
Qed.

Lemma sh_swapp_invol j k i : j <> k -> sh_swapp j k (sh_swapp j k i) = i.
Proof.
  intros Hjk. unfold sh_swapp.
  destruct (Nat.eqb_spec i j) as [->|Hij].
  - destruct (Nat.eqb_spec k j); [congruence|]. rewrite Nat.eqb_refl. reflexivity.
  - destruct (Nat.eqb_spec i k) as [->|Hik].
    + rewrite Nat.eqb_refl. reflexivity.
    + destruct (Nat.eqb_spec i j); [congruence|]. destruct (Nat.eqb_spec i k); [congruence| reflexivity].
Qed.

Lemma sh_swapm_invol j k S : j <> k -> sh_swapm j k (sh_swapm j k S) = S.
Proof.
  intros Hjk. apply bits_inj_nat. intro i. rewrite !sh_tb_swapm by exact Hjk.
  rewrite sh_swapp_invol by exact Hjk. reflexivity.
Qed.

Lemma sh_swapp_lt j n i : (S j < n)%nat -> (i < n)%nat -> (sh_swapp j (S j) i < n)%nat.
Proof. intros Hj Hi. unfold sh_swapp. destruct (Nat.eqb i j); [lia|]. destruct (Nat.eqb i (S j)); lia. Qed.

Lemma sh_eval_lf_map g f l : sh_eval (fun S => g (f S)) l == sh_eval g (sh_lf_map f l).
Proof. unfold sh_eval, sh_lf_map. rewrite map_map. reflexivity. Qed.

Theorem sh_check_relabel_sound n :
  sh_check_relabel n = true -> forall j i g, (S j < n)%nat -> (i < n)%nat ->
  sh_player n (sh_swapp j (S j) i) (fun s => g (sh_swapm j (S j) s)) == sh_player n i g.
Proof.
  unfold sh_check_relabel. intros H j i g Hj Hi. rewrite forallb_forall in H.
  assert (Hjin : In j (seq 0 (n - 1))) by (apply in_seq; lia).
  specialize (H j Hjin). rewrite forallb_forall in H.
  assert (Hiin : In i (seq 0 n)) by (apply in_seq; lia). specialize (H i Hiin).
  rewrite !sh_player_as_lf. apply Qdiv_comp; [|reflexivity].
  rewrite (sh_eval_lf_map g (sh_swapm j (S j))). apply (sh_eval_ext n). exact H.
Qed.

Lemma sh_check_relabel_2 : sh_check_relabel 2 = true. Proof. vm_compute. reflexivity. Qed.
Lemma sh_check_relabel_3 : sh_check_relabel 3 = true. Proof. vm_compute. reflexivity. Qed.
Lemma sh_check_relabel_4 : sh_check_relabel 4 = true. Proof. vm_compute. reflexivity. Qed.
Lemma sh_check_relabel_5 : sh_check_relabel 5 = true. Proof. vm_compute. reflexivity. Qed.
Lemma sh_check_relabel_6 : sh_check_relabel 6 = true. Proof. vm_compute. reflexivity. Qed.
Lemma sh_check_relabel_7 : sh_check_relabel 7 = true. Proof. vm_compute. reflexivity. Qed.

Theorem sh_relabel_adjacent n j i g :
  (2 <= n <= 7)%nat -> (S j < n)%nat -> (i < n)%nat ->
  sh_player n (sh_swapp j (S j) i) (fun s => g (sh_swapm j (S j) s)) == sh_player n i g.
Proof.
  intros Hn Hj Hi.
  assert (H : sh_check_relabel n = true).
  { destruct n as [|[|[|[|[|[|[|[|n]]]]]]]]; try lia.
    - exact sh_check_relabel_2. - exact sh_check_relabel_3. - exact sh_check_relabel_4.
    - exact sh_check_relabel_5. - exact sh_check_relabel_6. - exact sh_check_relabel_7. }
  apply sh_check_relabel_sound; assumption.
Qed.

(* closure under composition: any product of adjacent transpositions *)
Lemma sh_actp_lt n js i : Forall (fun j => (S j < n)%nat) js -> (i < n)%nat -> (sh_actp js i < n)%nat.
Proof.
  induction 1 as [|j r Hj Hr IH]; intros Hi; simpl; [exact Hi|]. apply sh_swapp_lt; auto.
Qed.

Theorem sh_relabel_products n js i g :
  (2 <= n <= 7)%nat -> Forall (fun j => (S j < n)%nat) js -> (i < n)%nat ->
  sh_player n (sh_actp js i) (sh_relabel js g) == sh_player n i g.
Proof.
  intros Hn Hjs Hi. induction Hjs as [|j r Hj Hr IH]; simpl; [reflexivity|].
  rewrite (sh_relabel_adjacent n j (sh_actp r i) (sh_relabel r g) Hn Hj (sh_actp_lt n r i Hr Hi)).
  exact IH.
Qed.

(* what sh_actp / sh_relabel mean: with pi = sh_actp js on players and pi(S) = sh_actm js S on coalitions,
   i in S <-> pi i in pi(S), and the relabelled game gives pi(S) the value g S *)
Fixpoint sh_actm (js : list nat) (s : N) : N :=
  match js with [] => s | j :: r => sh_swapm j (S j) (sh_actm r s) end.

Lemma sh_actm_mem js s i : tb (sh_actm js s) (sh_actp js i) = tb s i.
Proof.
  induction js as [|j r IH]; simpl; [reflexivity|].
  rewrite sh_tb_swapm by lia. rewrite sh_swapp_invol by lia. exact IH.
Qed.

Lemma sh_relabel_actm js g s : sh_relabel js g (sh_actm js s) = g s.
Proof.
  revert s. induction js as [|j r IH]; intros s; simpl; [reflexivity|].
  rewrite sh_swapm_invol by lia. apply IH.
Qed.

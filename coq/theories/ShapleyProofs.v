(* ShapleyProofs: theorems about Shapley.v (C06, and the sum-exchange lemma shared with C05). *)
From ICG Require Import Prelude Bits Shapley.
From Coq Require Import Permutation FMapPositive.
Local Open Scope Q_scope.

(* ================================================================== *)
(* generic facts about sums                                            *)
(* ================================================================== *)
Lemma sh_rsum_qsum l : sh_rsum l == qsum l.
Proof. induction l as [|x l IH]; cbn [sh_rsum qsum]; [reflexivity|]. rewrite Qred_correct, IH. reflexivity. Qed.

Lemma sh_qsum_perm l1 l2 : Permutation l1 l2 -> qsum l1 == qsum l2.
Proof.
  induction 1; simpl.
  - reflexivity.
  - rewrite IHPermutation. reflexivity.
  - ring.
  - rewrite IHPermutation1. exact IHPermutation2.
Qed.

Lemma sh_qsum_map_sub {A} (f g : A -> Q) l :
  qsum (map (fun x => f x - g x) l) == qsum (map f l) - qsum (map g l).
Proof. induction l as [|x l IH]; simpl; [ring| rewrite IH; ring]. Qed.

Lemma sh_qsum_map_const0 {A} (l : list A) : qsum (map (fun _ => 0) l) == 0.
Proof. apply qsum_map_zero. intros; reflexivity. Qed.

(* sum over a filtered list = sum of guarded terms over the whole list *)
Lemma sh_qsum_filter {A} (p : A -> bool) (f : A -> Q) l :
  qsum (map f (filter p l)) == qsum (map (fun x => if p x then f x else 0) l).
Proof.
  induction l as [|x l IH]; simpl; [reflexivity|].
  destruct (p x); simpl; rewrite IH; ring.
Qed.

(* a guarded constant summed over a list = (number of hits) * constant *)
Lemma sh_qsum_count {A} (p : A -> bool) (c : Q) l :
  qsum (map (fun x => if p x then c else 0) l) == inject_Z (Z.of_nat (length (filter p l))) * c.
Proof.
  induction l as [|x l IH]; [simpl; ring|].
  cbn [map qsum filter]. rewrite IH. destruct (p x).
  - cbn [length]. rewrite Nat2Z.inj_succ. unfold Z.succ. rewrite inject_Z_plus. ring.
  - ring.
Qed.

(* exchanging two finite sums *)
Lemma sh_qsum_swap {A B} (F : A -> B -> Q) (la : list A) (lb : list B) :
  qsum (map (fun a => qsum (map (fun b => F a b) lb)) la)
  == qsum (map (fun b => qsum (map (fun a => F a b) la)) lb).
Proof.
  induction la as [|a la IH]; simpl.
  - symmetry. apply sh_qsum_map_const0.
  - rewrite IH. symmetry. apply (qsum_map_add (fun b => F a b) (fun b => qsum (map (fun a0 => F a0 b) la))).
Qed.

(* picking out one element of a duplicate-free list *)
Lemma sh_qsum_pick (x : N) (k : Q) (l : list N) :
  NoDup l -> In x l -> qsum (map (fun y => if N.eqb y x then k else 0) l) == k.
Proof.
  induction l as [|y l IH]; intros Hnd Hin; [destruct Hin|].
  inversion Hnd as [|? ? Hy Hl]; subst. cbn [map qsum].
  destruct Hin as [->|Hin].
  - rewrite N.eqb_refl. rewrite qsum_map_zero; [ring|].
    intros z Hz. destruct (N.eqb_spec z x) as [->|]; [contradiction| reflexivity].
  - destruct (N.eqb_spec y x) as [->|]; [contradiction|]. rewrite IH by assumption. ring.
Qed.

Lemma sh_qsum_pick_not (x : N) (k : Q) (l : list N) :
  ~ In x l -> qsum (map (fun y => if N.eqb y x then k else 0) l) == 0.
Proof.
  intros H. apply qsum_map_zero. intros y Hy.
  destruct (N.eqb_spec y x) as [->|]; [contradiction| reflexivity].
Qed.

Lemma sh_Qdiv_le_compat a b c : 0 < c -> a <= b -> a / c <= b / c.
Proof.
  intros Hc Hab. unfold Qdiv. apply Qmult_le_compat_r; [exact Hab|].
  apply Qlt_le_weak. apply Qinv_lt_0_compat. exact Hc.
Qed.

(* ================================================================== *)
(* factorials, binomials                                               *)
(* ================================================================== *)
Lemma sh_fact_pos k : (0 < sh_fact k)%Z.
Proof. induction k as [|k IH]; [reflexivity|]. change (0 < Z.of_nat (S k) * sh_fact k)%Z. nia. Qed.

Lemma sh_fact_S k : sh_fact (S k) = (Z.of_nat (S k) * sh_fact k)%Z.
Proof. reflexivity. Qed.

Lemma sh_factQ_pos k : 0 < inject_Z (sh_fact k).
Proof. change 0 with (inject_Z 0). rewrite <- Zlt_Qlt. apply sh_fact_pos. Qed.

Lemma sh_contrib_nonneg n s : (0 <= sh_contrib n s)%Z.
Proof. unfold sh_contrib. pose proof (sh_fact_pos s). pose proof (sh_fact_pos (n - s - 1)). nia. Qed.

Lemma sh_binom_0_r n : sh_binom n 0 = 1%Z.
Proof. destruct n; reflexivity. Qed.

Lemma sh_binom_gt n : forall k, (n < k)%nat -> sh_binom n k = 0%Z.
Proof.
  induction n as [|n IH]; intros k Hk.
  - destruct k; [lia| reflexivity].
  - destruct k as [|k]; [lia|]. cbn [sh_binom]. rewrite !IH by lia. reflexivity.
Qed.

(* C(n,k) * k! * (n-k)! = n! *)
Lemma sh_binom_fact n : forall k, (k <= n)%nat ->
  (sh_binom n k * (sh_fact k * sh_fact (n - k)) = sh_fact n)%Z.
Proof.
  induction n as [|n IH]; intros k Hk.
  - assert (k = 0)%nat as -> by lia. reflexivity.
  - destruct k as [|k].
    + rewrite sh_binom_0_r, Nat.sub_0_r. change (sh_fact 0) with 1%Z. ring.
    + cbn [sh_binom]. replace (S n - S k)%nat with (n - k)%nat by lia.
      destruct (Nat.eq_dec k n) as [->|Hne].
      * rewrite (sh_binom_gt n (S n)) by lia. rewrite Nat.sub_diag.
        pose proof (IH n (Nat.le_refl n)) as E. rewrite Nat.sub_diag in E.
        rewrite (sh_fact_S n).
        transitivity (Z.of_nat (S n) * (sh_binom n n * (sh_fact n * sh_fact 0)))%Z; [ring| rewrite E; ring].
      * pose proof (IH k ltac:(lia)) as E1. pose proof (IH (S k) ltac:(lia)) as E2.
        remember (n - S k)%nat as m eqn:Em.
        replace (n - k)%nat with (S m) in * by lia.
        assert (En : Z.of_nat (S n) = (Z.of_nat (S k) + Z.of_nat (S m))%Z) by lia.
        rewrite (sh_fact_S n), En.
        transitivity (Z.of_nat (S k) * (sh_binom n k * (sh_fact k * sh_fact (S m)))
                      + Z.of_nat (S m) * (sh_binom n (S k) * (sh_fact (S k) * sh_fact m)))%Z.
        { rewrite (sh_fact_S k), (sh_fact_S m). ring. }
        rewrite E1, E2. ring.
Qed.

Lemma sh_binom_pos n k : (k <= n)%nat -> (0 < sh_binom n k)%Z.
Proof.
  intros H. pose proof (sh_binom_fact n k H) as E.
  pose proof (sh_fact_pos n). pose proof (sh_fact_pos k). pose proof (sh_fact_pos (n - k)). nia.
Qed.

(* ================================================================== *)
(* the code's sum, unfolded                                            *)
(* ================================================================== *)
Lemma sh_player_eq n i g :
  sh_player n i g == qsum (map (sh_term n i g) (sh_without n i)) / inject_Z (sh_fact n).
Proof. unfold sh_player. rewrite Qred_correct, sh_rsum_qsum. reflexivity. Qed.

Lemma sh_disj_single S i : disjb S (single i) = negb (tb S i).
Proof.
  destruct (tb S i) eqn:E; simpl.
  - destruct (disjb S (single i)) eqn:D; [|reflexivity].
    rewrite disjb_spec in D. specialize (D i E). rewrite tb_single, Nat.eqb_refl in D. discriminate.
  - apply disjb_spec. intros j Hj. rewrite tb_single. apply Nat.eqb_neq. intro; subst; congruence.
Qed.

Lemma sh_in_without n i S : In S (sh_without n i) <-> bounded n S /\ tb S i = false.
Proof.
  unfold sh_without. rewrite filter_In, in_alln, sh_disj_single, negb_true_iff. tauto.
Qed.

Lemma sh_tb_add S i : tb (N.lor S (single i)) i = true.
Proof. rewrite tb_lor, tb_single, Nat.eqb_refl. apply orb_true_r. Qed.

Lemma sh_bounded_add n S i : bounded n S -> (i < n)%nat -> bounded n (N.lor S (single i)).
Proof. intros. apply bounded_lor; [assumption| apply bounded_single; assumption]. Qed.

(* ---------- extensionality, null player, linearity, entry points: all n ---------- *)
Lemma sh_player_ext n i g h :
  (forall S, bounded n S -> g S == h S) ->
  (forall S, bounded n S -> g (N.lor S (single i)) == h (N.lor S (single i))) ->
  sh_player n i g == sh_player n i h.
Proof.
  intros H1 H2. rewrite !sh_player_eq. apply Qdiv_comp; [|reflexivity].
  apply qsum_map_ext. intros S HS. apply sh_in_without in HS. destruct HS as [Hb _].
  unfold sh_term. rewrite (H1 S Hb), (H2 S Hb). reflexivity.
Qed.

Lemma sh_null n i g :
  (forall S, bounded n S -> tb S i = false -> g (N.lor S (single i)) == g S) ->
  sh_player n i g == 0.
Proof.
  intros H. rewrite sh_player_eq. rewrite qsum_map_zero; [unfold Qdiv; ring|].
  intros S HS. apply sh_in_without in HS. destruct HS as [Hb Hi].
  unfold sh_term. rewrite (H S Hb Hi). ring.
Qed.

Lemma sh_linear n i a b g h :
  sh_player n i (fun S => a * g S + b * h S) == a * sh_player n i g + b * sh_player n i h.
Proof.
  rewrite !sh_player_eq.
  assert (E : qsum (map (sh_term n i (fun S => a * g S + b * h S)) (sh_without n i))
              == a * qsum (map (sh_term n i g) (sh_without n i)) + b * qsum (map (sh_term n i h) (sh_without n i))).
  { rewrite <- !qsum_map_scal.
    rewrite <- (qsum_map_add (fun x => a * sh_term n i g x) (fun x => b * sh_term n i h x)).
    apply qsum_map_ext. intros S _. unfold sh_term. ring. }
  rewrite E. unfold Qdiv. ring.
Qed.

Lemma sh_all_length n g : length (sh_all n g) = n.
Proof. unfold sh_all. rewrite map_length, seq_length. reflexivity. Qed.

Lemma sh_entry_points_agree n i g d : (i < n)%nat -> nth i (sh_all n g) d = sh_player n i g.
Proof.
  intros Hi. unfold sh_all.
  rewrite (nth_indep _ d (sh_player n 0 g)) by (rewrite map_length, seq_length; exact Hi).
  rewrite (map_nth (fun i => sh_player n i g) (seq 0 n) 0%nat i). rewrite seq_nth by exact Hi. reflexivity.
Qed.

(* monotonicity of the linear form: non-negative weight on g(S+i), non-positive on g(S) *)
Lemma sh_player_mono n i g h :
  (forall S, bounded n S -> tb S i = false -> h S <= g S) ->
  (forall S, bounded n S -> tb S i = false -> g (N.lor S (single i)) <= h (N.lor S (single i))) ->
  sh_player n i g <= sh_player n i h.
Proof.
  intros H1 H2. rewrite !sh_player_eq. apply sh_Qdiv_le_compat; [apply sh_factQ_pos|].
  apply qsum_map_le. intros S HS. apply sh_in_without in HS. destruct HS as [Hb Hi].
  unfold sh_term. specialize (H1 S Hb Hi). specialize (H2 S Hb Hi).
  assert (Hc : 0 <= inject_Z (sh_contrib n (size n S))).
  { change 0 with (inject_Z 0). rewrite <- Zle_Qle. apply sh_contrib_nonneg. }
  rewrite (Qmult_comm _ (g _ - g S)), (Qmult_comm _ (h _ - h S)).
  apply Qmult_le_compat_r; [lra| exact Hc].
Qed.

(* ================================================================== *)
(* the sum exchange  sum_i sum_{S without i}  <->  sum_T sum_{i in T}  *)
(* (shared by C05 exploit_weighted_gap and C06 shapley_efficiency)     *)
(* ================================================================== *)
Definition sh_with (n i : nat) : list N := filter (fun T => tb T i) (alln n).
Definition sh_term2 (n i : nat) (a b : N -> Q) (S : N) : Q :=
  inject_Z (sh_contrib n (size n S)) * (a (N.lor S (single i)) - b S).
(* the weight n!/C(n,|S|) = |S|! (n-|S|)! *)
Definition sh_w (n : nat) (S : N) : Z := (sh_fact (size n S) * sh_fact (n - size n S))%Z.

Lemma sh_NoDup_map_on {A B} (f : A -> B) l :
  (forall x y, In x l -> In y l -> f x = f y -> x = y) -> NoDup l -> NoDup (map f l).
Proof.
  induction l as [|a l IH]; intros Hinj Hnd; simpl; [constructor|].
  inversion Hnd as [|? ? Ha Hl]; subst. constructor.
  - intro Hin. apply in_map_iff in Hin. destruct Hin as [y [Ey Hy]].
    assert (y = a) by (apply Hinj; [right; exact Hy| left; reflexivity| exact Ey]). subst. contradiction.
  - apply IH; [|exact Hl]. intros x y Hx Hy. apply Hinj; right; assumption.
Qed.

Lemma sh_add_inj S1 S2 i :
  tb S1 i = false -> tb S2 i = false -> N.lor S1 (single i) = N.lor S2 (single i) -> S1 = S2.
Proof.
  intros H1 H2 E. apply bits_inj_nat. intro j.
  assert (H : tb (N.lor S1 (single i)) j = tb (N.lor S2 (single i)) j) by (rewrite E; reflexivity).
  rewrite !tb_lor, tb_single in H. destruct (Nat.eqb_spec i j) as [->|_]; [congruence|].
  rewrite !orb_false_r in H. exact H.
Qed.

Lemma sh_reindex_perm n i : (i < n)%nat ->
  Permutation (map (fun S => N.lor S (single i)) (sh_without n i)) (sh_with n i).
Proof.
  intros Hi. apply NoDup_Permutation.
  - apply sh_NoDup_map_on; [| apply NoDup_filter, NoDup_alln].
    intros x y Hx Hy E. apply sh_in_without in Hx. apply sh_in_without in Hy.
    apply (sh_add_inj x y i); tauto.
  - apply NoDup_filter, NoDup_alln.
  - intro T. rewrite in_map_iff. unfold sh_with. rewrite filter_In, in_alln. split.
    + intros [S [<- HS]]. apply sh_in_without in HS. split; [apply sh_bounded_add; tauto| apply sh_tb_add].
    + intros [Hb Ht]. exists (N.ldiff T (single i)). split.
      * apply bits_inj_nat. intro j. rewrite tb_lor, tb_ldiff, tb_single.
        destruct (Nat.eqb_spec i j) as [<-|_]; [rewrite Ht; reflexivity|].
        simpl. rewrite andb_true_r, orb_false_r. reflexivity.
      * apply sh_in_without. split; [apply bounded_ldiff; exact Hb|].
        rewrite tb_ldiff, tb_single, Nat.eqb_refl. apply andb_false_r.
Qed.

Lemma sh_reindex n i (h : N -> Q) : (i < n)%nat ->
  qsum (map (fun S => h (N.lor S (single i))) (sh_without n i)) == qsum (map h (sh_with n i)).
Proof.
  intros Hi. rewrite <- (map_map (fun S => N.lor S (single i)) h).
  apply sh_qsum_perm. apply Permutation_map. apply sh_reindex_perm. exact Hi.
Qed.

(* ---------- sizes ---------- *)
Lemma sh_filter_len_flip (f f' : nat -> bool) i n :
  (i < n)%nat -> f i = false -> f' i = true -> (forall j, j <> i -> f' j = f j) ->
  length (filter f' (seq 0 n)) = S (length (filter f (seq 0 n))).
Proof.
  intros Hi Hf Hf' Hext.
  replace n with (i + (1 + (n - i - 1)))%nat by lia.
  rewrite !seq_app, !filter_app, !app_length. cbn [seq filter]. simpl (0 + i)%nat.
  rewrite Hf, Hf'. cbn [length].
  rewrite (filter_ext_in f' f (seq 0 i)), (filter_ext_in f' f (seq (i + 1) (n - i - 1))).
  - lia.
  - intros j Hj. apply in_seq in Hj. apply Hext. lia.
  - intros j Hj. apply in_seq in Hj. apply Hext. lia.
Qed.

Lemma sh_size_add n S i : (i < n)%nat -> tb S i = false -> size n (N.lor S (single i)) = Datatypes.S (size n S).
Proof.
  intros Hi Ht. unfold size, players. apply sh_filter_len_flip with (i := i); auto.
  - apply sh_tb_add.
  - intros j Hj. rewrite tb_lor, tb_single. destruct (Nat.eqb_spec i j); [congruence| apply orb_false_r].
Qed.

Lemma sh_filter_len_neg {A} (f : A -> bool) l :
  (length (filter (fun x => negb (f x)) l) + length (filter f l) = length l)%nat.
Proof. induction l as [|x l IH]; simpl; [reflexivity|]. destruct (f x); simpl; lia. Qed.

Lemma sh_count_out n S :
  length (filter (fun i => disjb S (single i)) (seq 0 n)) = (n - size n S)%nat.
Proof.
  rewrite (filter_ext _ (fun i => negb (tb S i))) by (intro; apply sh_disj_single).
  pose proof (sh_filter_len_neg (tb S) (seq 0 n)) as H. rewrite seq_length in H.
  unfold size, players. lia.
Qed.

Lemma sh_size_grand n : size n (grand n) = n.
Proof.
  unfold size, players. rewrite (filter_ext_in _ (fun _ => true)).
  - assert (forall l : list nat, filter (fun _ => true) l = l) as -> by (induction l; simpl; congruence).
    apply seq_length.
  - intros j Hj. apply in_seq in Hj. rewrite tb_grand. apply Nat.ltb_lt. lia.
Qed.

Lemma sh_size_lt n S : bounded n S -> S <> grand n -> (size n S < n)%nat.
Proof.
  intros Hb Hne. rewrite <- (sh_size_grand n) at 2. apply ssub_size; [apply bounded_grand|].
  apply ssub_spec. split; [|exact Hne]. apply sub_spec. apply sub_grand. exact Hb.
Qed.

(* ---------- the exchange ---------- *)
Lemma sh_exchange_raw n a b :
  qsum (map (fun i => qsum (map (sh_term2 n i a b) (sh_without n i))) (seq 0 n))
  == qsum (map (fun T => inject_Z (Z.of_nat (size n T)) * (inject_Z (sh_contrib n (size n T - 1)) * a T)) (alln n))
   - qsum (map (fun S => inject_Z (Z.of_nat (n - size n S)) * (inject_Z (sh_contrib n (size n S)) * b S)) (alln n)).
Proof.
  (* split each inner sum into its a-part and b-part, both as guarded sums over all coalitions *)
  assert (E : forall i, In i (seq 0 n) ->
     qsum (map (sh_term2 n i a b) (sh_without n i))
     == qsum (map (fun T => if tb T i then inject_Z (sh_contrib n (size n T - 1)) * a T else 0) (alln n))
      - qsum (map (fun S => if disjb S (single i) then inject_Z (sh_contrib n (size n S)) * b S else 0) (alln n))).
  { intros i Hi. apply in_seq in Hi.
    rewrite <- (sh_qsum_filter (fun T => tb T i) (fun T => inject_Z (sh_contrib n (size n T - 1)) * a T)).
    rewrite <- (sh_qsum_filter (fun S => disjb S (single i)) (fun S => inject_Z (sh_contrib n (size n S)) * b S)).
    fold (sh_with n i). fold (sh_without n i).
    rewrite <- (sh_reindex n i (fun T => inject_Z (sh_contrib n (size n T - 1)) * a T)) by lia.
    rewrite <- sh_qsum_map_sub. apply qsum_map_ext. intros S HS. apply sh_in_without in HS.
    destruct HS as [Hb Ht]. unfold sh_term2. rewrite sh_size_add by (auto; lia).
    replace (Datatypes.S (size n S) - 1)%nat with (size n S) by lia. ring. }
  rewrite (qsum_map_ext _ _ _ E). clear E.
  rewrite (sh_qsum_map_sub
     (fun i => qsum (map (fun T => if tb T i then inject_Z (sh_contrib n (size n T - 1)) * a T else 0) (alln n)))
     (fun i => qsum (map (fun S => if disjb S (single i) then inject_Z (sh_contrib n (size n S)) * b S else 0) (alln n)))).
  rewrite (sh_qsum_swap (fun i T => if tb T i then inject_Z (sh_contrib n (size n T - 1)) * a T else 0)).
  rewrite (sh_qsum_swap (fun i S => if disjb S (single i) then inject_Z (sh_contrib n (size n S)) * b S else 0)).
  apply Qplus_comp; [|apply Qopp_comp]; apply qsum_map_ext; intros T _.
  - rewrite (sh_qsum_count (tb T)). reflexivity.
  - rewrite (sh_qsum_count (fun i => disjb T (single i))). rewrite sh_count_out. reflexivity.
Qed.

(* |T| (|T|-1)! (n-|T|)!  =  |T|! (n-|T|)!   unless T is empty *)
Lemma sh_weight_in n T : bounded n T ->
  (Z.of_nat (size n T) * sh_contrib n (size n T - 1) = if N.eqb T 0 then 0 else sh_w n T)%Z.
Proof.
  intros Hb. destruct (N.eqb_spec T 0) as [->|Hne].
  - rewrite size_0. reflexivity.
  - pose proof (size_pos n T Hb Hne) as Hp. pose proof (size_le_n n T) as Hle.
    unfold sh_contrib, sh_w. destruct (size n T) as [|k]; [lia|].
    replace (Datatypes.S k - 1)%nat with k by lia. replace (n - k - 1)%nat with (n - Datatypes.S k)%nat by lia.
    rewrite (sh_fact_S k). ring.
Qed.

(* (n-|S|) |S|! (n-|S|-1)!  =  |S|! (n-|S|)!   unless S is the grand coalition *)
Lemma sh_weight_out n S : bounded n S ->
  (Z.of_nat (n - size n S) * sh_contrib n (size n S) = if N.eqb S (grand n) then 0 else sh_w n S)%Z.
Proof.
  intros Hb. destruct (N.eqb_spec S (grand n)) as [->|Hne].
  - rewrite sh_size_grand, Nat.sub_diag. reflexivity.
  - pose proof (sh_size_lt n S Hb Hne) as Hlt.
    unfold sh_contrib, sh_w. remember (size n S) as k. remember (n - k - 1)%nat as m.
    replace (n - k)%nat with (Datatypes.S m) by lia.
    rewrite (sh_fact_S m). ring.
Qed.

Lemma sh_w_0 n : sh_w n 0 = sh_fact n.
Proof. unfold sh_w. rewrite size_0, Nat.sub_0_r. change (sh_fact 0) with 1%Z. ring. Qed.
Lemma sh_w_grand n : sh_w n (grand n) = sh_fact n.
Proof. unfold sh_w. rewrite sh_size_grand, Nat.sub_diag. change (sh_fact 0) with 1%Z. ring. Qed.

Lemma sh_guard_sum (x : N) (F : N -> Q) l : NoDup l -> In x l ->
  qsum (map (fun T => if N.eqb T x then 0 else F T) l) == qsum (map F l) - F x.
Proof.
  intros Hnd Hin. rewrite <- (sh_qsum_pick x (F x) l Hnd Hin). rewrite <- sh_qsum_map_sub.
  apply qsum_map_ext. intros T _. destruct (N.eqb_spec T x) as [->|_]; ring.
Qed.

Lemma sh_in_alln_0 n : In 0%N (alln n).
Proof. apply in_alln. apply bounded_0. Qed.
Lemma sh_in_alln_grand n : In (grand n) (alln n).
Proof. apply in_alln. apply bounded_grand. Qed.

Theorem sh_exchange n a b :
  qsum (map (fun i => qsum (map (sh_term2 n i a b) (sh_without n i))) (seq 0 n))
  == (qsum (map (fun T => inject_Z (sh_w n T) * a T) (alln n)) - inject_Z (sh_fact n) * a 0%N)
   - (qsum (map (fun S => inject_Z (sh_w n S) * b S) (alln n)) - inject_Z (sh_fact n) * b (grand n)).
Proof.
  rewrite sh_exchange_raw.
  rewrite <- (sh_w_0 n) at 1. rewrite <- (sh_w_grand n) at 1.
  rewrite <- (sh_guard_sum 0%N (fun T => inject_Z (sh_w n T) * a T)) by (apply NoDup_alln || apply sh_in_alln_0).
  rewrite <- (sh_guard_sum (grand n) (fun T => inject_Z (sh_w n T) * b T)) by (apply NoDup_alln || apply sh_in_alln_grand).
  apply Qplus_comp; [|apply Qopp_comp]; apply qsum_map_ext; intros T HT; apply in_alln in HT.
  - rewrite Qmult_assoc, <- inject_Z_mult, (sh_weight_in n T HT).
    destruct (N.eqb T 0); [change (inject_Z 0) with 0|]; ring.
  - rewrite Qmult_assoc, <- inject_Z_mult, (sh_weight_out n T HT).
    destruct (N.eqb T (grand n)); [change (inject_Z 0) with 0|]; ring.
Qed.

(* sum of the players' values: pull the common division by n! out *)
Lemma sh_sum_players n (G : nat -> N -> Q) :
  qsum (map (fun i => sh_player n i (G i)) (seq 0 n))
  == qsum (map (fun i => qsum (map (sh_term n i (G i)) (sh_without n i))) (seq 0 n)) / inject_Z (sh_fact n).
Proof.
  unfold Qdiv. rewrite Qmult_comm, <- qsum_map_scal. apply qsum_map_ext. intros i _.
  rewrite sh_player_eq. unfold Qdiv. ring.
Qed.

(* ---------- efficiency: all n ---------- *)
Theorem sh_efficiency n g :
  qsum (sh_all n g) == g (grand n) - g 0%N.
Proof.
  unfold sh_all. rewrite (sh_sum_players n (fun _ => g)).
  change (qsum (map (fun i => qsum (map (sh_term n i g) (sh_without n i))) (seq 0 n)))
    with (qsum (map (fun i => qsum (map (sh_term2 n i g g) (sh_without n i))) (seq 0 n))).
  rewrite sh_exchange. pose proof (sh_factQ_pos n) as Hp. field. lra.
Qed.

(* GameOps: every public mutator / getter of IncompleteCooperativeGame (game.py)
   as a function on tables.  numpy details that matter are modelled:
   fromiter(..., count=len(values)) truncation, duplicate ids (last assignment wins),
   selective bound setters through a zero-filled full-length array and a where= mask,
   set_known_values re-initialising the whole table first. *)
From ICG Require Import Prelude Bits Table Bounds.

Definition krow (x : Q) : row := mkrow true x x.

Definition init_table : table := set empty 0%N (krow 0).       (* _init_values *)

Definition set_value (t : table) (s : N) (x : Q) : table := set t s (krow x).
Definition unset_value (t : table) (s : N) : table := set t s row0.

Definition assign_values (t : table) (sx : list (N * Q)) : table :=
  fold_left (fun t p => set_value t (fst p) (snd p)) sx t.

(* status of a call: Ok, or the Python raised (assert / ValueError) *)
Inductive status := Ok | Err.

(* set_values(values, coalitions): ids are read with count = len(values) *)
Definition set_values_some (t : table) (ss : list N) (xs : list Q) : table * status :=
  if (length ss <? length xs)%nat then (t, Err)
  else (assign_values t (combine (firstn (length xs) ss) xs), Ok).

Definition set_values_all (n : nat) (t : table) (xs : list Q) : table * status :=
  if (length xs =? 2 ^ n)%nat then (assign_values t (combine (alln n) xs), Ok) else (t, Err).

Definition set_known_some (t : table) (ss : list N) (xs : list Q) : table * status :=
  set_values_some init_table ss xs.
Definition set_known_all (n : nat) (t : table) (xs : list Q) : table * status :=
  set_values_all n init_table xs.

Definition reveal (t : table) (s : N) (x : Q) : table * status :=
  if known (get t s) then (t, Err) else (set_value t s x, Ok).
Definition unreveal (t : table) (s : N) : table * status :=
  if known (get t s) then (unset_value t s, Ok) else (t, Err).

(* bulk bound setters: a full-length candidate array and a mask; known rows are skipped *)
Definition last_assigned (sx : list (N * Q)) (s : N) : option Q :=
  fold_left (fun acc p => if N.eqb (fst p) s then Some (snd p) else acc) sx None.

Definition set_bounds_some (upper : bool) (n : nat) (t : table) (ss : list N) (xs : list Q) : table * status :=
  if (length ss <? length xs)%nat then (t, Err)
  else
    let sx := combine (firstn (length xs) ss) xs in
    (fold_left (fun t' s =>
       match last_assigned sx s with
       | Some x => if known (get t s) then t'
                   else if upper then set_hi t' s x else set_lo t' s x
       | None => t'
       end) (alln n) t, Ok).

Definition set_bounds_all (upper : bool) (n : nat) (t : table) (xs : list Q) : table * status :=
  if (length xs =? 2 ^ n)%nat then
    (fold_left (fun t' p => if known (get t (fst p)) then t'
                            else if upper then set_hi t' (fst p) (snd p) else set_lo t' (fst p) (snd p))
               (combine (alln n) xs) t, Ok)
  else (t, Err).

Definition neg_table (n : nat) (t : table) : table :=
  fold_left (fun t' s => let r := get t s in set t' s (mkrow (known r) (- hi r) (- lo r))) (alln n) t.

(* getters *)
Definition get_value (t : table) (s : N) : option Q :=
  if known (get t s) then Some (lo (get t s)) else None.          (* ValueError when unknown *)
Definition get_values_of (t : table) (ss : list N) : option (list Q) :=
  if forallb (fun s => known (get t s)) ss then Some (map (fun s => hi (get t s)) ss) else None.
Definition get_known_value (t : table) (s : N) : option Q :=
  if known (get t s) then Some (lo (get t s)) else None.          (* None when unknown *)
Definition get_known_values_of (t : table) (ss : list N) : list (option Q) :=
  map (fun s => if known (get t s) then Some (hi (get t s)) else None) ss.   (* NaN when unknown *)
Definition is_full (n : nat) (t : table) : bool := forallb (fun s => known (get t s)) (alln n).
Definition table_eqb (n : nat) (t1 t2 : table) : bool :=
  forallb (fun s => let r1 := get t1 s in let r2 := get t2 s in
                    Bool.eqb (known r1) (known r2) && Qeq_bool (lo r1) (lo r2) && Qeq_bool (hi r1) (hi r2))
          (alln n).

(* ---------- operation histories on one object ---------- *)
Inductive op :=
| OSet (s : N) (x : Q) | OUnset (s : N) | OReveal (s : N) (x : Q) | OUnreveal (s : N)
| OSetValuesAll (xs : list Q) | OSetValuesSome (ss : list N) (xs : list Q)
| OSetKnownAll (xs : list Q) | OSetKnownSome (ss : list N) (xs : list Q)
| OSetLowersAll (xs : list Q) | OSetLowersSome (ss : list N) (xs : list Q)
| OSetUppersAll (xs : list Q) | OSetUppersSome (ss : list N) (xs : list Q)
| OSetLower (s : N) (x : Q) | OSetUpper (s : N) (x : Q)      (* scalar setters: used by the computers *)
| OCompute (c : computer).

Definition step (n : nat) (t : table) (o : op) : table * status :=
  match o with
  | OSet s x => (set_value t s x, Ok)
  | OUnset s => (unset_value t s, Ok)
  | OReveal s x => reveal t s x
  | OUnreveal s => unreveal t s
  | OSetValuesAll xs => set_values_all n t xs
  | OSetValuesSome ss xs => set_values_some t ss xs
  | OSetKnownAll xs => set_known_all n t xs
  | OSetKnownSome ss xs => set_known_some t ss xs
  | OSetLowersAll xs => set_bounds_all false n t xs
  | OSetLowersSome ss xs => set_bounds_some false n t ss xs
  | OSetUppersAll xs => set_bounds_all true n t xs
  | OSetUppersSome ss xs => set_bounds_some true n t ss xs
  | OSetLower s x => (set_lo t s x, Ok)
  | OSetUpper s x => (set_hi t s x, Ok)
  | OCompute c => match compute c n t with Some t' => (t', Ok) | None => (t, Err) end
  end.

Definition run (n : nat) (ops : list op) (t : table) : table :=
  fold_left (fun t o => fst (step n t o)) ops t.

(* the operations the property quantifies over (scalar bound setters are the computers' private interface) *)
Definition public_op (o : op) : bool :=
  match o with OSetLower _ _ | OSetUpper _ _ => false | _ => true end.

(* GapsAlongReveals: every offered gap function is non-increasing when knowledge grows, never negative, and zero at
   full knowledge (C07); the environment's reward is never positive for games of the assumed class (C09). *)
From ICG Require Import Prelude Bits Table Bounds FoldLemmas BoundsSpec SASound SAEquiv SATight SAMSpec SAMSound SAMKnowledge
     Shapley Exploit Norms ShapleyProofs ExploitProofs NormsProofs Env.

Definition width (t : table) (S : N) : Q := U t S - L t S.

(* the four registered gap functions on a table: l1, l-infinity, squared l2, exploitability *)
Definition gaps_le (n : nat) (t' t : table) : Prop :=
  nm_l1 n (width t') <= nm_l1 n (width t) /\ nm_linf n (width t') <= nm_linf n (width t)
  /\ nm_l2sq n (width t') <= nm_l2sq n (width t)
  /\ ex_exploit n (L t') (U t') <= ex_exploit n (L t) (U t).

Definition gaps_nonneg (n : nat) (t : table) : Prop :=
  0 <= nm_l1 n (width t) /\ 0 <= nm_linf n (width t) /\ 0 <= nm_l2sq n (width t) /\ 0 <= ex_exploit n (L t) (U t).

Definition gaps_zero (n : nat) (t : table) : Prop :=
  nm_l1 n (width t) == 0 /\ nm_linf n (width t) == 0 /\ nm_l2sq n (width t) == 0 /\ ex_exploit n (L t) (U t) == 0.

Lemma gaps_le_of_widths n t t' :
  U t 0%N == 0 -> U t' 0%N == 0 ->
  (forall S, bounded n S -> 0 <= width t' S /\ width t' S <= width t S) -> gaps_le n t' t.
Proof.
  intros H0 H0' H. destruct (gaps_monotone n (width t) (width t') H) as [A [B [C _]]].
  split; [exact A|]. split; [exact B|]. split; [exact C|].
  apply ex_exploit_monotone; auto.
Qed.

Lemma gaps_nonneg_of_widths n t : U t 0%N == 0 -> (forall S, bounded n S -> 0 <= width t S) -> gaps_nonneg n t.
Proof.
  intros H0 H. destruct (gaps_nonneg_and_zero n (width t) H) as [[A [B [C D]]] _].
  split; [exact A|]. split; [exact B|]. split; [exact C|].
  rewrite ex_weighted_gap_general, H0. unfold width in D. lra.
Qed.

Lemma gaps_zero_of_widths n t : U t 0%N == 0 -> (forall S, bounded n S -> width t S == 0) -> gaps_zero n t.
Proof.
  intros H0 H.
  assert (Hnn : forall S, bounded n S -> 0 <= width t S) by (intros S HS; rewrite (H S HS); apply Qle_refl).
  destruct (gaps_nonneg_and_zero n (width t) Hnn) as [_ Hz]. destruct (Hz H) as [A [B [C D]]].
  split; [exact A|]. split; [exact B|]. split; [exact C|].
  rewrite ex_weighted_gap_general, H0. unfold width in D. lra.
Qed.

(* C07, superadditive computers: along any growth of knowledge every gap is non-increasing and non-negative *)
Theorem sa_gaps_along_reveals (c : computer) n v K K' t t' r r' :
  (c = CRef \/ c = CCached) -> SA n v -> v 0%N == 0 -> MinK n K -> (forall s, K s = true -> K' s = true) ->
  agrees n t K v -> agrees n t' K' v -> compute c n t = Some r -> compute c n t' = Some r' ->
  gaps_le n r' r /\ gaps_nonneg n r' /\ gaps_nonneg n r.
Proof.
  intros Hc HSA Hv0 HM Hinc Hag Hag' H1 H2.
  pose proof (MinK_mono n K K' HM Hinc) as HM'.
  pose proof (sa_monotone_in_knowledge c n v K K' t t' r r' Hc HSA HM Hinc Hag Hag' H1 H2) as Hmono.
  pose proof (sa_sound c n K v t r Hc HSA HM Hag H1) as S1.
  pose proof (sa_sound c n K' v t' r' Hc HSA HM' Hag' H2) as S2.
  assert (U0 : U r 0%N == 0).
  { destruct (S1 0%N (bounded_0 n)) as [_ [_ [_ [_ Hk]]]]. destruct HM as [H0 _]. destruct (Hk H0) as [_ [_ E]]. rewrite E. exact Hv0. }
  assert (U0' : U r' 0%N == 0).
  { destruct (S2 0%N (bounded_0 n)) as [_ [_ [_ [_ Hk]]]]. destruct HM' as [H0 _]. destruct (Hk H0) as [_ [_ E]]. rewrite E. exact Hv0. }
  assert (W : forall S, bounded n S -> 0 <= width r S) by (intros S HS; destruct (S1 S HS) as [_ [_ [A _]]]; unfold width; lra).
  assert (W' : forall S, bounded n S -> 0 <= width r' S) by (intros S HS; destruct (S2 S HS) as [_ [_ [A _]]]; unfold width; lra).
  split; [|split; apply gaps_nonneg_of_widths; auto].
  apply gaps_le_of_widths; auto. intros S HS. split; [apply W'; exact HS|].
  destruct (Hmono S HS) as [A B]. unfold width. lra.
Qed.

(* zero once every value is revealed *)
Theorem sa_gaps_zero_when_full (c : computer) n v K t r :
  (c = CRef \/ c = CCached) -> SA n v -> v 0%N == 0 -> MinK n K -> (forall s, bounded n s -> K s = true) ->
  agrees n t K v -> compute c n t = Some r -> gaps_zero n r.
Proof.
  intros Hc HSA Hv0 HM Hfull Hag H1.
  pose proof (sa_sound c n K v t r Hc HSA HM Hag H1) as S1.
  apply gaps_zero_of_widths.
  - destruct (S1 0%N (bounded_0 n)) as [_ [_ [_ [_ Hk]]]]. destruct (Hk (Hfull _ (bounded_0 n))) as [_ [_ E]]. rewrite E. exact Hv0.
  - intros S HS. destruct (S1 S HS) as [_ [_ [_ [_ Hk]]]]. destruct (Hk (Hfull S HS)) as [_ [A B]]. unfold width. rewrite A, B. ring.
Qed.

(* every sound table has non-negative gaps: in particular the environment's reward (minus the gap) is never positive
   for games of the assumed class, for all three kinds of computers *)
Theorem sound_table_gaps_nonneg n K v t t' :
  v 0%N == 0 -> K 0%N = true -> (forall s, bounded n s -> sound_at n K v t t' s) -> gaps_nonneg n t'.
Proof.
  intros Hv0 H0 S1. apply gaps_nonneg_of_widths.
  - destruct (S1 0%N (bounded_0 n)) as [_ [_ [_ [_ Hk]]]]. destruct (Hk H0) as [_ [_ E]]. rewrite E. exact Hv0.
  - intros S HS. destruct (S1 S HS) as [_ [_ [A _]]]. unfold width. lra.
Qed.

(* the model's gap value (what the environment negates into its reward) in terms of the four functions *)
Lemma ev_gap_value g n t :
  match ev_gap g n t with
  | Some x => match g with
              | GExploit => x == ex_exploit n (L t) (U t)
              | GL1 => x == nm_l1 n (width t)
              | GL2 => x == nm_l2sq n (width t)
              | GLinf => x == nm_linf n (width t)
              end
  | None => g = GExploit /\ Kn t (grand n) = false
  end.
Proof.
  destruct g; simpl.
  - unfold ex_exploit_tab, Kn. destruct (known (get t (grand n))); [reflexivity| auto].
  - apply Qred_correct.
  - apply Qred_correct.
  - apply Qred_correct.
Qed.

Theorem reward_never_positive g n K v t t' x :
  v 0%N == 0 -> K 0%N = true -> (forall s, bounded n s -> sound_at n K v t t' s) ->
  ev_gap g n t' = Some x -> 0 <= x.
Proof.
  intros Hv0 H0 S1 Hg. destruct (sound_table_gaps_nonneg n K v t t' Hv0 H0 S1) as [A [B [C D]]].
  pose proof (ev_gap_value g n t') as E. rewrite Hg in E. destruct g; rewrite E; assumption.
Qed.

From ICG Require Import SAMMono.

(* C07, SAM approximations (every repetition count) *)
Theorem sam_gaps_along_reveals n r v K K' t t' a b :
  SA n v -> Mono n v -> v 0%N == 0 -> MinK n K -> (forall s, K s = true -> K' s = true) ->
  agrees n t K v -> agrees n t' K' v -> compute_sam n r t = Some a -> compute_sam n r t' = Some b ->
  gaps_le n b a /\ gaps_nonneg n b /\ gaps_nonneg n a.
Proof.
  intros HSA HMo Hv0 HM Hinc Hag Hag' H1 H2.
  pose proof (MinK_mono n K K' HM Hinc) as HM'.
  pose proof (sam_monotone_in_knowledge n r v K K' t t' a b HSA HMo Hv0 HM Hinc Hag Hag' H1 H2) as Hmono.
  pose proof (sam_sound n r K v t a HSA HMo Hv0 HM Hag H1) as S1.
  pose proof (sam_sound n r K' v t' b HSA HMo Hv0 HM' Hag' H2) as S2.
  assert (K0 : K 0%N = true) by (destruct HM as [H0 _]; exact H0).
  assert (K0' : K' 0%N = true) by (apply Hinc; exact K0).
  assert (U0 : U a 0%N == 0).
  { destruct (S1 0%N (bounded_0 n)) as [_ [_ [_ [_ Hk]]]]. destruct (Hk K0) as [_ [_ E]]. rewrite E. exact Hv0. }
  assert (U0' : U b 0%N == 0).
  { destruct (S2 0%N (bounded_0 n)) as [_ [_ [_ [_ Hk]]]]. destruct (Hk K0') as [_ [_ E]]. rewrite E. exact Hv0. }
  assert (W : forall S, bounded n S -> 0 <= width a S) by (intros S HS; destruct (S1 S HS) as [_ [_ [A _]]]; unfold width; lra).
  assert (W' : forall S, bounded n S -> 0 <= width b S) by (intros S HS; destruct (S2 S HS) as [_ [_ [A _]]]; unfold width; lra).
  split; [|split; apply gaps_nonneg_of_widths; auto].
  apply gaps_le_of_widths; auto. intros S HS. split; [apply W'; exact HS|].
  destruct (Hmono S HS) as [A B]. unfold width. lra.
Qed.

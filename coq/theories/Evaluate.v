(* Evaluate: evaluation.py - the recording loop of eval_one over the environment state machine, and the wiring of
   random streams through evaluate(): which hidden game each repetition sees under sequential and under
   Pool.starmap execution (C12).  Prefix el_.
   Pickling semantics modelled: a task tuple is pickled with everything reachable from it BY VALUE; objects shared by
   the tasks of one chunk stay shared inside the chunk (pickle memo), distinct chunks get independent copies. *)
From ICG Require Import Prelude Bits Table Bounds GameOps Shapley Exploit Norms Env.
From Coq Require Import ZArith.

(* ---------- eval_one ---------- *)
(* policy: the solver's next_step as a function of the environment state *)
Fixpoint el_loop (policy : env -> option nat) (e : env) (fuel : nat) : option (list (option Q) * list N) :=
  match fuel with
  | O => Some ([], [])
  | S f =>
    match policy e with
    | None => None
    | Some a =>
      match ev_step e a, ev_coal e a with
      | Some e1, Some c =>
        if ev_done e1 then Some ([ev_gapv e1], [c])
        else match el_loop policy e1 f with
             | Some (gs, cs) => Some (ev_gapv e1 :: gs, c :: cs)
             | None => None
             end
      | _, _ => None
      end
    end
  end.

(* eval_one: reset with the drawn hidden game, record the gap, then up to [limit] steps *)
Definition el_eval_one (policy : env -> option nat) (e : env) (limit : nat) (v nv : list Q)
  : option (list (option Q) * list N) :=
  match ev_reset e v nv with
  | None => None
  | Some e0 =>
    match el_loop policy e0 limit with
    | Some (gs, cs) => Some (ev_gapv e0 :: gs, cs)
    | None => None
    end
  end.

(* ---------- random streams ---------- *)
(* a draw is identified by (stream id, position); the root stream is [], the j-th spawned child is [j] *)
Definition el_draw := (list nat * nat)%type.
Inductive el_scheme := ElShared | ElPerEnv.        (* one generator reached by every env / one child generator per env *)

(* constructing environment j draws twice (constructor: self.generator(), then reset()) from the stream it reaches *)
Definition el_construct_draws : nat := 2.

(* sequential (lazy) execution: construct env j, then eval_one (one more draw at its reset), then env j+1 ... *)
Fixpoint el_seq_shared (reps : nat) (pos : nat) : list el_draw :=
  match reps with
  | O => []
  | S r => ([], pos + el_construct_draws)%nat :: el_seq_shared r (pos + el_construct_draws + 1)
  end.

(* parallel execution: Pool.starmap first materialises the task list (ALL environments constructed in the parent),
   then ships chunks; each chunk unpickles its own copy of the shared stream at the parent's final position *)
Fixpoint el_chunk_shared (tasks : nat) (pos : nat) : list el_draw :=
  match tasks with
  | O => []
  | S r => ([], pos) :: el_chunk_shared r (S pos)
  end.
Fixpoint el_par_shared (chunks : list nat) (pos : nat) : list el_draw :=
  match chunks with
  | [] => []
  | c :: r => el_chunk_shared c pos ++ el_par_shared r pos
  end.

(* per-environment child streams: env j owns stream [j]; its hidden game is that stream's third draw either way *)
Definition el_perenv (reps : nat) : list el_draw := map (fun j => ([j], el_construct_draws)) (seq 0 reps).

Definition el_hidden_draws (s : el_scheme) (chunks : option (list nat)) (reps : nat) : list el_draw :=
  match s, chunks with
  | ElShared, None => el_seq_shared reps 0
  | ElShared, Some cs => el_par_shared cs (el_construct_draws * reps)
  | ElPerEnv, _ => el_perenv reps
  end.

(* Pool.starmap's default chunking: chunksize = ceil(len / (4 * processes)) *)
Definition el_chunksize (reps procs : nat) : nat := (reps + 4 * procs - 1) / (4 * procs).
Fixpoint el_chunks_fuel (fuel reps c : nat) : list nat :=
  match fuel with
  | O => []
  | S f => if (reps =? 0)%nat then [] else if (reps <=? c)%nat then [reps] else c :: el_chunks_fuel f (reps - c) c
  end.
Definition el_pool_chunks (reps procs : nat) : list nat := el_chunks_fuel reps reps (el_chunksize reps procs).

(* ---------- the solver's own random stream (RandomSolver: one random.Random owned by the solver object) ----------
   The policy handed to evaluate() is a bound method of ONE solver object.  Sequentially the object lives on, so repetition j
   starts where repetition j-1 stopped.  Under Pool.starmap the object is pickled with every chunk of tasks: inside a chunk
   the unpickled copy is shared by the chunk's tasks, every chunk starts from the parent's (never advanced) state.
   A repetition that plays L steps consumes L draws.  Start positions of the repetitions in the solver's stream: *)
Fixpoint el_solver_seq (reps L pos : nat) : list nat :=
  match reps with
  | O => []
  | S r => pos :: el_solver_seq r L (pos + L)
  end.
Definition el_solver_par (chunks : list nat) (L : nat) : list nat := flat_map (fun c => el_solver_seq c L 0) chunks.

(* SASound: soundness of the superadditive bounds (C01), from the fixpoint equations only. *)
From ICG Require Import Prelude Bits Table Bounds FoldLemmas BoundsSpec.

Definition SA (n : nat) (v : N -> Q) : Prop :=
  forall a b, bounded n a -> bounded n b -> disjb a b = true -> v a + v b <= v (N.lor a b).

Definition MinK (n : nat) (K : N -> bool) : Prop :=
  K 0%N = true /\ K (grand n) = true /\ forall i, (i < n)%nat -> K (single i) = true.

(* the table holds exactly the knowledge K of the hidden game v; unknown rows are arbitrary *)
Definition agrees (n : nat) (t : table) (K : N -> bool) (v : N -> Q) : Prop :=
  forall s, bounded n s -> Kn t s = K s /\ (K s = true -> L t s == v s /\ U t s == v s).

Lemma MinK_unknown_size n K s : MinK n K -> bounded n s -> K s = false -> (2 <= size n s)%nat.
Proof.
  intros [H0 [_ H1]] Hb Hk.
  destruct (le_lt_dec 2 (size n s)) as [|Hlt]; auto. exfalso.
  destruct (size_le_1 n s Hb) as [->|[i [Hi ->]]]; [lia| congruence| rewrite H1 in Hk by exact Hi; discriminate].
Qed.

Lemma MinK_splits_nonempty n K s : MinK n K -> bounded n s -> K s = false -> splits n s <> [].
Proof. intros HM Hb Hk. apply splits_nonempty; auto. eapply MinK_unknown_size; eauto. Qed.

Lemma unknown_ssub_grand n K s : K (grand n) = true -> bounded n s -> K s = false -> ssub s (grand n) = true.
Proof.
  intros Hg Hb Hk. apply ssub_spec. split.
  - apply sub_spec. apply sub_grand. exact Hb.
  - intro E. subst. congruence.
Qed.

Lemma known_supers_nonempty n K s : K (grand n) = true -> bounded n s -> K s = false ->
  filter K (supers n s) <> [].
Proof.
  intros Hg Hb Hk E.
  assert (Hin : In (grand n) (filter K (supers n s))).
  { apply filter_In. split; [|exact Hg]. apply in_supers. split; [apply bounded_grand|].
    eapply unknown_ssub_grand; eauto. }
  rewrite E in Hin. destruct Hin.
Qed.

Lemma in_supers_facts n s T : bounded n s -> In T (supers n s) ->
  bounded n T /\ sub s T = true /\ N.lxor s T = N.ldiff T s /\ bounded n (N.ldiff T s)
  /\ disjb s (N.ldiff T s) = true /\ N.lor s (N.ldiff T s) = T /\ N.ldiff T s <> 0%N
  /\ (size n s < size n T)%nat.
Proof.
  intros Hb HT. apply in_supers in HT. destruct HT as [HbT Hss].
  pose proof (ssub_sub _ _ Hss) as Hsub.
  split; [exact HbT|]. split; [exact Hsub|].
  split; [rewrite N.lxor_comm; apply lxor_ldiff; exact Hsub|].
  split; [apply bounded_ldiff; exact HbT|].
  split; [apply disjb_ldiff|]. split; [apply lor_ldiff; exact Hsub|].
  split; [apply ldiff_ne0; exact Hss| apply ssub_size; auto].
Qed.

Section Sound.
  Variable n : nat.
  Variable K : N -> bool.
  Variable v l u : N -> Q.
  Hypothesis HSA : SA n v.
  Hypothesis HM : MinK n K.
  Hypothesis Hkl : forall s, bounded n s -> K s = true -> l s == v s.
  Hypothesis Hlo : forall s, bounded n s -> K s = false -> l s == lowerF n l s.

  Theorem lower_sound : forall s, bounded n s -> l s <= v s.
  Proof.
    intros s. remember (size n s) as m eqn:Hm. revert s Hm.
    induction m as [m IH] using lt_wf_ind. intros s Hm Hb.
    destruct (K s) eqn:EK.
    - rewrite (Hkl s Hb EK). apply Qle_refl.
    - rewrite (Hlo s Hb EK). unfold lowerF. apply qmaxl_lub.
      + apply map_neq_nil. eapply MinK_splits_nonempty; eauto.
      + intros x Hx. apply in_map_iff in Hx. destruct Hx as [a [<- Ha]].
        destruct (in_splits_size n a s Hb Ha) as [S1 [S2 [B1 [B2 [Hsub [Hne E]]]]]].
        assert (H1 : l a <= v a) by (eapply IH; [|reflexivity|exact B1]; lia).
        assert (H2 : l (N.lxor s a) <= v (N.lxor s a)) by (eapply IH; [|reflexivity|exact B2]; lia).
        rewrite E in *.
        pose proof (HSA a (N.ldiff s a) B1 B2 (disjb_ldiff a s)) as H3.
        rewrite (lor_ldiff a s Hsub) in H3. lra.
  Qed.

  Hypothesis Hhi : forall s, bounded n s -> K s = false -> u s == upperF n K l s.

  Theorem upper_sound : forall s, bounded n s -> K s = false -> v s <= u s.
  Proof.
    intros s Hb Hk. rewrite (Hhi s Hb Hk). unfold upperF. apply qminl_glb.
    - apply map_neq_nil. destruct HM as [_ [Hg _]]. apply known_supers_nonempty; auto.
    - intros x Hx. apply in_map_iff in Hx. destruct Hx as [T [<- HT]].
      apply filter_In in HT. destruct HT as [HT HKT].
      destruct (in_supers_facts n s T Hb HT) as [HbT [Hsub [E [Hbd [Hdis [Hor [Hne _]]]]]]].
      rewrite E. rewrite (Hkl T HbT HKT).
      pose proof (lower_sound (N.ldiff T s) Hbd) as H1.
      pose proof (HSA s (N.ldiff T s) Hb Hbd Hdis) as H2. rewrite Hor in H2. lra.
  Qed.
End Sound.

(* ---------------- table level ---------------- *)
Lemma cached_ok_of_MinK n t K v : MinK n K -> agrees n t K v -> cached_ok n t = true.
Proof.
  intros HM Hag. unfold cached_ok. destruct HM as [H0 [Hg H1]].
  destruct (Hag 0%N (bounded_0 n)) as [E0 _]. destruct (Hag (grand n) (bounded_grand n)) as [Eg _].
  unfold Kn in *. rewrite E0, H0, Eg, Hg. simpl.
  apply forallb_forall. intros s Hs. apply in_unknown_ids in Hs. destruct Hs as [Hb Hk].
  destruct (Hag s Hb) as [Ek _]. rewrite Hk in Ek.
  pose proof (MinK_splits_nonempty n K s (conj H0 (conj Hg H1)) Hb (eq_sym Ek)) as Hne.
  destruct (splits n s); [congruence| reflexivity].
Qed.

Lemma min_known_of_MinK n t K v : MinK n K -> agrees n t K v -> min_known n t = true.
Proof.
  intros [H0 [Hg H1]] Hag. unfold min_known.
  destruct (Hag 0%N (bounded_0 n)) as [E0 _]. destruct (Hag (grand n) (bounded_grand n)) as [Eg _].
  unfold Kn in *. rewrite E0, H0, Eg, Hg. simpl.
  apply forallb_forall. intros i Hi. apply in_seq in Hi.
  destruct (Hag (single i) (bounded_single n i ltac:(lia))) as [E _]. unfold Kn in E. rewrite E. apply H1. lia.
Qed.

Definition sound_at (n : nat) (K : N -> bool) (v : N -> Q) (t t' : table) (s : N) : Prop :=
  L t' s <= v s /\ v s <= U t' s /\ L t' s <= U t' s /\ Kn t' s = K s
  /\ (K s = true -> get t' s = get t s /\ L t' s == v s /\ U t' s == v s).

Theorem sa_cached_sound n K v t t' :
  SA n v -> MinK n K -> agrees n t K v -> compute_sa_cached n t = Some t' ->
  forall s, bounded n s -> sound_at n K v t t' s.
Proof.
  intros HSA HM Hag Hc s Hb. unfold compute_sa_cached in Hc.
  destruct (cached_ok n t); [|discriminate]. injection Hc as <-.
  pose proof (sa_cached_run_post n t) as P. set (t' := sa_cached_run n t) in *.
  assert (HKeq : forall a, bounded n a -> Kn t a = K a) by (intros a Ha; apply (Hag a Ha)).
  assert (Hkl : forall a, bounded n a -> K a = true -> L t' a == v a).
  { intros a Ha Hk. unfold L. rewrite (post_frame _ _ _ P a).
    - apply (Hag a Ha). exact Hk.
    - rewrite (HKeq a Ha), Hk. intros [_ ?]; discriminate. }
  assert (Hlo : forall a, bounded n a -> K a = false -> L t' a == lowerF n (L t') a).
  { intros a Ha Hk. rewrite (post_lo _ _ _ P a Ha) at 1 by (rewrite HKeq; auto). apply Qred_correct. }
  assert (Hhi : forall a, bounded n a -> K a = false -> U t' a == upperF n K (L t') a).
  { intros a Ha Hk. rewrite (post_hi _ _ _ P a Ha) by (rewrite HKeq; auto). rewrite Qred_correct.
    unfold upperF. rewrite (filter_ext_in' (Kn t) K); [reflexivity|].
    intros T HT. apply in_supers in HT. apply HKeq. tauto. }
  pose proof (lower_sound n K v (L t') HSA HM Hkl Hlo) as LS.
  pose proof (upper_sound n K v (L t') (U t') HSA HM Hkl Hlo Hhi) as US.
  unfold sound_at.
  assert (Hkn : Kn t' s = K s) by (rewrite (post_Kn _ _ _ P); apply HKeq; exact Hb).
  destruct (K s) eqn:Ek.
  - assert (Hfr : get t' s = get t s).
    { apply (post_frame _ _ _ P). rewrite (HKeq s Hb), Ek. intros [_ ?]; discriminate. }
    destruct (Hag s Hb) as [_ Hv]. specialize (Hv Ek). destruct Hv as [Hl Hu].
    assert (L t' s == v s) by (unfold L; rewrite Hfr; exact Hl).
    assert (U t' s == v s) by (unfold U; rewrite Hfr; exact Hu).
    repeat split; auto; lra.
  - pose proof (LS s Hb). pose proof (US s Hb Ek).
    repeat split; auto; try lra; try discriminate.
Qed.

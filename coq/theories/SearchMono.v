(* SearchMono: revealing one more coalition never increases the gap reported by the search, for games of the class
   matching the computer; hence mean gaps over sampled games are non-increasing along any extension (used by the
   best-states curve of C11 and the expected-greedy curve of C13). *)
From ICG Require Import Prelude Bits Table Bounds GameOps FoldLemmas BoundsSpec SASound SAEquiv SATight SAMSpec SAMSound SAMKnowledge
     SAMMono Shapley Exploit Norms Env EnvProofs Search SearchProofs GapsAlongReveals.

Lemma sr_apply_agrees n t v ids : ev_mem 0%N ids = true ->
  agrees n (sr_apply t v ids) (fun s => ev_mem s ids) (ev_val v).
Proof.
  intros H0 s Hb. unfold Kn, L, U. rewrite sr_apply_get. destruct (ev_mem s ids) eqn:E; simpl.
  - split; [reflexivity|]. intros _. split; reflexivity.
  - split; [|discriminate]. unfold init_table. rewrite get_set.
    destruct (N.eqb_spec s 0) as [->|]; [congruence| rewrite get_empty; reflexivity].
Qed.

Lemma ev_mem_app s l1 l2 : ev_mem s (l1 ++ l2) = ev_mem s l1 || ev_mem s l2.
Proof. unfold ev_mem. apply existsb_app. Qed.

Lemma gaps_le_gap g n r r' x x' : gaps_le n r' r -> ev_gap g n r = Some x -> ev_gap g n r' = Some x' -> x' <= x.
Proof.
  intros [A [B [C D]]] H H'. pose proof (ev_gap_value g n r) as E. pose proof (ev_gap_value g n r') as E'.
  rewrite H in E. rewrite H' in E'. destruct g; rewrite E, E'; assumption.
Qed.

(* superadditive computers on superadditive games *)
Theorem sr_value_monotone_sa (c : computer) g n t v known seq a x x' :
  (c = CRef \/ c = CCached) -> SA n (ev_val v) -> ev_val v 0%N == 0 ->
  MinK n (fun s => ev_mem s (seq ++ known)) ->
  sr_value c g n t v known seq = Some x -> sr_value c g n t v known (seq ++ [a]) = Some x' -> x' <= x.
Proof.
  intros Hc HSA Hv0 HM H H'. unfold sr_value in H, H'.
  set (K := fun s => ev_mem s (seq ++ known)) in *. set (K' := fun s => ev_mem s ((seq ++ [a]) ++ known)).
  assert (Hinc : forall s, K s = true -> K' s = true).
  { intros s. unfold K, K'. rewrite !ev_mem_app. intro E. apply orb_true_iff in E. destruct E as [E|E]; rewrite E; simpl; auto. apply orb_true_r. }
  assert (K0 : ev_mem 0%N (seq ++ known) = true) by (destruct HM as [H0 _]; exact H0).
  assert (K0' : ev_mem 0%N ((seq ++ [a]) ++ known) = true) by (apply (Hinc 0%N K0)).
  destruct (compute c n (sr_apply t v (seq ++ known))) as [r|] eqn:Hr; [|discriminate].
  destruct (compute c n (sr_apply t v ((seq ++ [a]) ++ known))) as [r'|] eqn:Hr'; [|discriminate].
  destruct (sa_gaps_along_reveals c n (ev_val v) K K' _ _ r r' Hc HSA Hv0 HM Hinc
              (sr_apply_agrees n t v _ K0) (sr_apply_agrees n t v _ K0') Hr Hr') as [Hle _].
  eapply gaps_le_gap; eauto.
Qed.

(* SAM approximations on superadditive-monotone games *)
Theorem sr_value_monotone_sam r g n t v known seq a x x' :
  SA n (ev_val v) -> Mono n (ev_val v) -> ev_val v 0%N == 0 ->
  MinK n (fun s => ev_mem s (seq ++ known)) ->
  sr_value (CSam r) g n t v known seq = Some x -> sr_value (CSam r) g n t v known (seq ++ [a]) = Some x' -> x' <= x.
Proof.
  intros HSA HMo Hv0 HM H H'. unfold sr_value in H, H'. simpl in H, H'.
  set (K := fun s => ev_mem s (seq ++ known)) in *. set (K' := fun s => ev_mem s ((seq ++ [a]) ++ known)).
  assert (Hinc : forall s, K s = true -> K' s = true).
  { intros s. unfold K, K'. rewrite !ev_mem_app. intro E. apply orb_true_iff in E. destruct E as [E|E]; rewrite E; simpl; auto. apply orb_true_r. }
  assert (K0 : ev_mem 0%N (seq ++ known) = true) by (destruct HM as [H0 _]; exact H0).
  assert (K0' : ev_mem 0%N ((seq ++ [a]) ++ known) = true) by (apply (Hinc 0%N K0)).
  destruct (compute_sam n r (sr_apply t v (seq ++ known))) as [ra|] eqn:Hr; [|discriminate].
  destruct (compute_sam n r (sr_apply t v ((seq ++ [a]) ++ known))) as [rb|] eqn:Hr'; [|discriminate].
  destruct (sam_gaps_along_reveals n r (ev_val v) K K' _ _ ra rb HSA HMo Hv0 HM Hinc
              (sr_apply_agrees n t v _ K0) (sr_apply_agrees n t v _ K0') Hr Hr') as [Hle _].
  eapply gaps_le_gap; eauto.
Qed.

(* means over the sampled games *)
Lemma sr_mean_le c1 c2 : Forall2 Qle c1 c2 -> sr_mean c1 <= sr_mean c2.
Proof.
  intros H. unfold sr_mean.
  assert (Hlen : length c1 = length c2) by (induction H; simpl; congruence). rewrite Hlen.
  assert (Hs : qsum c1 <= qsum c2).
  { clear Hlen. induction H as [|a b l1 l2 Hab H IH]; simpl; [apply Qle_refl|]. lra. }
  destruct c2 as [|y c2]; [inversion H; subst; simpl; apply Qle_refl|].
  assert (Hp : 0 < inject_Z (Z.of_nat (length (y :: c2)))).
  { unfold Qlt. cbn [length Qnum Qden inject_Z]. lia. }
  unfold Qdiv. apply Qmult_le_compat_r; [exact Hs|]. apply Qlt_le_weak. apply Qinv_lt_0_compat. exact Hp.
Qed.

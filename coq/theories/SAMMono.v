(* SAMMono: more knowledge never hurts the approximate SAM bounds either (C07, SAM variant), for every repetition count.
   The two runs (knowledge K <= K') are synchronised over the unknown coalitions of the smaller knowledge; a coalition
   that K' knows is a no-op write in the K' run. *)
From ICG Require Import Prelude Bits Table Bounds FoldLemmas BoundsSpec SASound SATight SAMSpec SAMSound SAMOrder.

Lemma fold_left_filter {A B} (p : B -> bool) (f : A -> B -> A) l a :
  fold_left (fun a b => if p b then f a b else a) l a = fold_left f (filter p l) a.
Proof.
  revert a. induction l as [|b l IH]; intros a; simpl; [reflexivity|]. destruct (p b); simpl; apply IH.
Qed.

Lemma filter_concat {A} (p : A -> bool) (ls : list (list A)) : filter p (concat ls) = concat (map (filter p) ls).
Proof. induction ls as [|l ls IH]; simpl; [reflexivity|]. rewrite filter_app, IH. reflexivity. Qed.

Lemma filter_filter_comm {A} (p q : A -> bool) l : filter p (filter q l) = filter q (filter p l).
Proof.
  induction l as [|x l IH]; simpl; [reflexivity|].
  destruct (q x) eqn:Eq; destruct (p x) eqn:Ep; simpl; rewrite ?Eq, ?Ep, IH; reflexivity.
Qed.

Lemma filter_by_size n p l : filter p (by_size n l) = by_size n (filter p l).
Proof.
  unfold by_size. rewrite filter_concat, map_map. f_equal. apply map_ext. intros k. apply filter_filter_comm.
Qed.

Lemma filter_filter_and {A} (p q : A -> bool) l : filter p (filter q l) = filter (fun x => q x && p x) l.
Proof.
  induction l as [|x l IH]; simpl; [reflexivity|]. destruct (q x); simpl; [|exact IH]. destruct (p x); rewrite IH; reflexivity.
Qed.

(* monotonicity of the cell functions in the lower column *)
Lemma lowerF_self_mono n l1 l2 s : bounded n s -> lle n l1 l2 -> lowerF_self n l1 s <= lowerF_self n l2 s.
Proof.
  intros Hb Hle. unfold lowerF_self.
  destruct (sam_splits n 1 s) as [|a0 ar] eqn:E; [apply Qle_refl|]. rewrite <- E.
  apply qmaxl_lub; [rewrite E; discriminate|].
  intros x Hx. apply in_map_iff in Hx. destruct Hx as [a [<- Ha]].
  eapply Qle_trans; [| apply qmaxl_ge; apply in_map; exact Ha].
  apply in_sam_splits1 in Ha. destruct Ha as [Hba [_ Hc]].
  assert (Hbx : bounded n (N.lxor s a)).
  { destruct Hc as [Hss| ->]; [|rewrite lxor_self_0; apply bounded_0].
    rewrite (lxor_ldiff a s (ssub_sub _ _ Hss)). apply bounded_ldiff. exact Hb. }
  pose proof (Hle a Hba). pose proof (Hle _ Hbx). lra.
Qed.

Lemma monoF_mono n l1 l2 s : bounded n s -> lle n l1 l2 -> monoF n l1 s <= monoF n l2 s.
Proof.
  intros Hb Hle. unfold monoF.
  destruct (supers_or_self n s) as [|a0 ar] eqn:E; [apply Qle_refl|]. rewrite <- E.
  apply qmaxl_lub; [rewrite E; discriminate|].
  intros x Hx. apply in_map_iff in Hx. destruct Hx as [T [<- HT]].
  eapply Qle_trans; [| apply qmaxl_ge; apply in_map; exact HT].
  apply in_supers_or_self in HT. apply Hle. tauto.
Qed.

Section Sync.
  Variable n : nat.
  Variable K K' : N -> bool.
  Variable v : N -> Q.
  Variable t t' : table.
  Hypothesis HSA : SA n v.
  Hypothesis HMo : Mono n v.
  Hypothesis Hv0 : v 0%N == 0.
  Hypothesis HM : MinK n K.
  Hypothesis Hinc : forall s, K s = true -> K' s = true.
  Hypothesis Hag : agrees n t K v.
  Hypothesis Hag' : agrees n t' K' v.

  Let us := unknown_sorted n t.
  Let us' := unknown_sorted n t'.

  Lemma HM' : MinK n K'.
  Proof. exact (MinK_mono n K K' HM Hinc). Qed.

  Lemma us'_filter : us' = filter (fun s => negb (K' s)) us.
  Proof.
    unfold us, us', unknown_sorted. rewrite filter_by_size. f_equal. unfold unknown_ids.
    rewrite filter_filter_and. apply filter_ext_in'. intros s Hs. apply in_alln in Hs.
    destruct (Hag s Hs) as [E _]. destruct (Hag' s Hs) as [E' _]. unfold Kn in E, E'. rewrite E, E'.
    destruct (K s) eqn:Ek; simpl; [rewrite (Hinc s Ek); reflexivity| reflexivity].
  Qed.

  Lemma in_us'_iff s : In s us' <-> In s us /\ K' s = false.
  Proof. rewrite us'_filter, filter_In, negb_true_iff. tauto. Qed.

  (* joint invariant of the two lower phases *)
  Definition J (ta tb : table) : Prop :=
    I n v t (L ta) /\ I n v t' (L tb) /\ lle n (L ta) (L tb)
    /\ (forall s, bounded n s -> K' s = true -> L tb s == v s).

  Definition cstep (F : (N -> Q) -> N -> Q) (tb : table) (s : N) : table :=
    if negb (K' s) then lo_step F tb s else tb.

  Lemma sync_pass F :
    (forall l1 l2 s, bounded n s -> lle n l1 l2 -> F l1 s <= F l2 s) ->
    (forall tx s, In s us -> I n v t (L tx) -> F (L tx) s <= v s /\ L tx s <= F (L tx) s) ->
    (forall tx s, In s us' -> I n v t' (L tx) -> F (L tx) s <= v s /\ L tx s <= F (L tx) s) ->
    forall ws ta tb, incl ws us -> J ta tb ->
      J (fold_left (lo_step F) ws ta) (fold_left (cstep F) ws tb).
  Proof.
    intros Fmono Fa Fb. induction ws as [|x ws IH]; intros ta tb Hinc' HJ; simpl; [exact HJ|].
    apply IH; [intros a Ha; apply Hinc'; right; exact Ha|].
    assert (Hx : In x us) by (apply Hinc'; left; reflexivity).
    pose proof (proj1 (in_us n K v t Hag x) Hx) as [Hbx Hkx].
    destruct HJ as [Ia [Ib [Hle Hkn]]].
    destruct (Fa ta x Hx Ia) as [A1 A2].
    assert (Ia' : I n v t (L (lo_step F ta x))) by (eapply I_step; eauto).
    unfold cstep. destruct (K' x) eqn:Ek'; simpl.
    - (* K' knows x: no-op in the K' run; the K run stays below the true value *)
      split; [exact Ia'|]. split; [exact Ib|]. split; [|exact Hkn].
      intros a Ha. rewrite lo_step_L. destruct (N.eqb_spec a x) as [->|]; [|apply Hle; exact Ha].
      rewrite Qred_correct, (Hkn x Hbx Ek'). exact A1.
    - assert (Hx' : In x us') by (apply in_us'_iff; auto).
      destruct (Fb tb x Hx' Ib) as [B1 B2].
      assert (Ib' : I n v t' (L (lo_step F tb x))) by (eapply (I_step n K' v t'); eauto; apply HM').
      split; [exact Ia'|]. split; [exact Ib'|]. split.
      + intros a Ha. rewrite !lo_step_L. destruct (N.eqb_spec a x) as [->|]; [|apply Hle; exact Ha].
        rewrite !Qred_correct. apply Fmono; assumption.
      + intros a Ha Hka. rewrite lo_step_L. destruct (N.eqb_spec a x) as [->|]; [congruence| apply Hkn; assumption].
  Qed.

  Lemma cstep_fold F tb : fold_left (cstep F) us tb = fold_left (lo_step F) us' tb.
  Proof. rewrite us'_filter. unfold cstep. apply fold_left_filter. Qed.

  Lemma J_pass F ta tb :
    (forall l1 l2 s, bounded n s -> lle n l1 l2 -> F l1 s <= F l2 s) ->
    (forall tx s, In s us -> I n v t (L tx) -> F (L tx) s <= v s /\ L tx s <= F (L tx) s) ->
    (forall tx s, In s us' -> I n v t' (L tx) -> F (L tx) s <= v s /\ L tx s <= F (L tx) s) ->
    J ta tb -> J (fold_left (lo_step F) us ta) (fold_left (lo_step F) us' tb).
  Proof.
    intros H1 H2 H3 HJ. rewrite <- cstep_fold. apply sync_pass; auto. apply incl_refl.
  Qed.

  Lemma J_round_later i ta tb : J ta tb -> J (sam_round n (S i) us ta) (sam_round n (S i) us' tb).
  Proof.
    intros HJ. rewrite !sam_round_eq. simpl lowerA.
    apply J_pass; [apply monoF_mono| intros tx s0 Hs0 HI0; exact (mono_cell n K v t HMo Hag tx s0 Hs0 HI0)| intros tx s0 Hs0 HI0; exact (mono_cell n K' v t' HMo Hag' tx s0 Hs0 HI0)|].
    apply J_pass; [apply lowerF_self_mono| intros tx s0 Hs0 HI0; exact (self_cell n K v t HSA Hv0 HM Hag tx s0 Hs0 HI0)| intros tx s0 Hs0 HI0; exact (self_cell n K' v t' HSA Hv0 HM' Hag' tx s0 Hs0 HI0)| exact HJ].
  Qed.

  Lemma J_t1 : J (t1 n t) (t1 n t').
  Proof.
    split; [eapply I_t1; eauto|]. split; [eapply (I_t1 n K' v t'); eauto; apply HM'|]. split.
    - (* the superadditive lower bounds are monotone in knowledge *)
      assert (S1 : sa_sol n K v (L (t1 n t)) (fun s => if K s then v s else upperF n K (L (t1 n t)) s)).
      { constructor.
        - intros; eapply t1_known; eauto.
        - intros s Hb Hk. rewrite Hk. reflexivity.
        - intros; eapply t1_eqs; eauto.
        - intros s Hb Hk. rewrite Hk. reflexivity. }
      assert (S2 : sa_sol n K' v (L (t1 n t')) (fun s => if K' s then v s else upperF n K' (L (t1 n t')) s)).
      { constructor.
        - intros; eapply (t1_known n K' v t'); eauto.
        - intros s Hb Hk. rewrite Hk. reflexivity.
        - intros; eapply (t1_eqs n K' v t'); eauto.
        - intros s Hb Hk. rewrite Hk. reflexivity. }
      intros s Hb. apply (lower_mono n K K' v _ _ _ _ HSA HM Hinc S1 S2 s Hb).
    - intros; eapply (t1_known n K' v t'); eauto.
  Qed.

  Lemma J_round0 : J (sam_round n 0 us t) (sam_round n 0 us' t').
  Proof.
    rewrite !sam_round_eq. simpl lowerA.
    apply J_pass; [apply monoF_mono| intros tx s0 Hs0 HI0; exact (mono_cell n K v t HMo Hag tx s0 Hs0 HI0)| intros tx s0 Hs0 HI0; exact (mono_cell n K' v t' HMo Hag' tx s0 Hs0 HI0)|].
    exact J_t1.
  Qed.

  Lemma J_rounds k i ta tb : J ta tb -> J (sam_rounds n k (S i) us ta) (sam_rounds n k (S i) us' tb).
  Proof.
    revert i ta tb. induction k as [|k IH]; intros i ta tb HJ; simpl; [exact HJ|]. apply IH. apply J_round_later. exact HJ.
  Qed.

  Lemma J_tL r : J (tL n t r) (tL n t' r).
  Proof. unfold tL. simpl. apply J_rounds. exact J_round0. Qed.

  (* C07 for the SAM approximation *)
  Theorem sam_run_monotone_in_knowledge r : forall s, bounded n s ->
    L (sam_run n r t) s <= L (sam_run n r t') s /\ U (sam_run n r t') s <= U (sam_run n r t) s.
  Proof.
    intros s Hb. rewrite !sam_run_eq.
    destruct (tF_facts n K v t Hag r) as [F1 [F2 [F3 F4]]].
    destruct (tF_facts n K' v t' Hag' r) as [F1' [F2' [F3' F4']]].
    destruct (J_tL r) as [Ia [Ib [Hle Hkn]]].
    split; [rewrite F2, F2'; apply Hle; exact Hb|].
    pose proof (sam_run_sound n K v t HSA HMo Hv0 HM Hag r s Hb) as S1. rewrite sam_run_eq in S1.
    destruct (K' s) eqn:Ek'.
    - (* K' knows s: upper = v s <= any sound upper *)
      assert (Hn' : ~ In s us') by (rewrite in_us'_iff; intros [_ ?]; congruence).
      destruct (Hag' s Hb) as [_ Hv]. destruct (Hv Ek') as [_ Hu].
      assert (E : U (tF n t' r) s == v s) by (unfold U; rewrite (F3' s Hn'); exact Hu).
      rewrite E. destruct S1 as [_ [S1 _]]. exact S1.
    - assert (Ek : K s = false) by (destruct (K s) eqn:E; auto; apply Hinc in E; congruence).
      assert (Hin : In s us) by (apply (in_us n K v t Hag); auto).
      assert (Hin' : In s us') by (apply in_us'_iff; auto).
      rewrite (F4 s Hin), (F4' s Hin'), !Qred_correct.
      destruct (tL_frame n t r) as [_ [A2 A3]]. destruct (tL_frame n t' r) as [_ [A2' A3']].
      unfold G, sam_upperF. apply Q.min_glb.
      + eapply Qle_trans; [apply Q.le_min_l|]. apply qminl_glb.
        * apply map_neq_nil. rewrite (filter_ext_in' (Kn (tL n t r)) K).
          -- destruct HM as [_ [Hg _]]. apply known_supers_nonempty; auto.
          -- intros T HT. apply in_supers in HT. rewrite A3. apply (HKeq n K v t Hag). tauto.
        * intros x Hx. apply in_map_iff in Hx. destruct Hx as [T [<- HT]].
          apply filter_In in HT. destruct HT as [HT HkT].
          destruct (in_supers_facts n s T Hb HT) as [HbT [_ [E [Hbd _]]]].
          rewrite A3, (HKeq n K v t Hag T HbT) in HkT.
          assert (HT' : In T (filter (Kn (tL n t' r)) (supers n s))).
          { apply filter_In. split; [exact HT|]. rewrite A3', (HKeq n K' v t' Hag' T HbT). apply Hinc. exact HkT. }
          eapply Qle_trans; [apply qminl_le; apply in_map; exact HT'|]. cbv beta.
          rewrite E, (tL_known n K v t Hag r T HbT HkT), (tL_known n K' v t' Hag' r T HbT (Hinc T HkT)).
          pose proof (Hle _ Hbd). lra.
      + eapply Qle_trans; [apply Q.le_min_r|]. apply qminl_glb.
        * apply map_neq_nil. intro E0.
          (* the K-known proper sub-coalitions of an unknown coalition are non-empty: a singleton *)
          pose proof (sam_ok_of_MinK n t K v HM Hag) as Hok. unfold sam_ok in Hok.
          apply andb_true_iff in Hok. destruct Hok as [_ Hok]. rewrite forallb_forall in Hok.
          assert (Hui : In s (unknown_ids n t)) by (apply in_unknown_ids; split; [exact Hb| rewrite (HKeq n K v t Hag s Hb); exact Ek]).
          specialize (Hok s Hui). apply andb_true_iff in Hok. destruct Hok as [_ Hne].
          unfold known_splits in Hne.
          rewrite (filter_ext_in' (Kn (tL n t r)) (fun a => known (get t a))) in E0 by (intros a _; apply A3).
          rewrite E0 in Hne. discriminate.
        * intros x Hx. apply in_map_iff in Hx. destruct Hx as [a [<- Ha]].
          apply filter_In in Ha. destruct Ha as [Ha Hka].
          pose proof Ha as Ha0. apply in_splits in Ha0. destruct Ha0 as [Hba _].
          rewrite A3, (HKeq n K v t Hag a Hba) in Hka.
          assert (Ha' : In a (filter (Kn (tL n t' r)) (splits n s))).
          { apply filter_In. split; [exact Ha|]. rewrite A3', (HKeq n K' v t' Hag' a Hba). apply Hinc. exact Hka. }
          eapply Qle_trans; [apply qminl_le; apply in_map; exact Ha'|].
          rewrite A2, A2'. destruct (Hag a Hba) as [_ Hv]. destruct (Hv Hka) as [_ Hu].
          destruct (Hag' a Hba) as [_ Hv']. destruct (Hv' (Hinc a Hka)) as [_ Hu']. rewrite Hu, Hu'. apply Qle_refl.
  Qed.
End Sync.

Theorem sam_monotone_in_knowledge n r v K K' t t' a b :
  SA n v -> Mono n v -> v 0%N == 0 -> MinK n K -> (forall s, K s = true -> K' s = true) ->
  agrees n t K v -> agrees n t' K' v -> compute_sam n r t = Some a -> compute_sam n r t' = Some b ->
  forall s, bounded n s -> L a s <= L b s /\ U b s <= U a s.
Proof.
  intros HSA HMo Hv0 HM Hinc Hag Hag' H1 H2. unfold compute_sam in H1, H2.
  destruct (sam_ok n t); [|discriminate]. destruct (sam_ok n t'); [|discriminate].
  injection H1 as <-. injection H2 as <-. eapply sam_run_monotone_in_knowledge; eauto.
Qed.

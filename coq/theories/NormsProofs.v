(* NormsProofs: the four gap functions (l1, linf, squared l2 of the width vector, binomially weighted gap =
   exploitability) are monotone in the widths, non-negative, and zero on the zero vector (DESIGN 7 C07;
   used by the C07 slice through C05's  ex_exploit == ex_wgap). *)
From ICG Require Import Prelude Bits Table Shapley ShapleyProofs Exploit ExploitProofs Norms.
From Coq Require Import Qabs.
Local Open Scope Q_scope.

Lemma nm_l1_eq n w : nm_l1 n w == qsum (map (fun S => Qabs (w S)) (alln n)).
Proof. unfold nm_l1. apply sh_rsum_qsum. Qed.
Lemma nm_l2sq_eq n w : nm_l2sq n w == qsum (map (fun S => w S * w S) (alln n)).
Proof. unfold nm_l2sq. apply sh_rsum_qsum. Qed.

Lemma nm_alln_nonempty n : alln n <> [].
Proof. intro E. pose proof (sh_in_alln_0 n) as H. rewrite E in H. destruct H. Qed.

Lemma nm_linf_ge n w S : bounded n S -> Qabs (w S) <= nm_linf n w.
Proof.
  intros Hb. unfold nm_linf. apply qmaxl_ge. apply (in_map (fun S => Qabs (w S))). apply in_alln. exact Hb.
Qed.

Lemma nm_linf_lub n w b : (forall S, bounded n S -> Qabs (w S) <= b) -> nm_linf n w <= b.
Proof.
  intros H. unfold nm_linf. apply qmaxl_lub; [apply map_neq_nil, nm_alln_nonempty|].
  intros y Hy. apply in_map_iff in Hy. destruct Hy as [S [<- HS]]. apply H. apply in_alln. exact HS.
Qed.

Theorem gaps_monotone n w w' :
  (forall S, bounded n S -> 0 <= w' S /\ w' S <= w S) ->
  nm_l1 n w' <= nm_l1 n w /\ nm_linf n w' <= nm_linf n w /\ nm_l2sq n w' <= nm_l2sq n w /\
  ex_wgap n w' <= ex_wgap n w.
Proof.
  intros H.
  assert (Habs : forall S, bounded n S -> Qabs (w' S) <= Qabs (w S)).
  { intros S HS. destruct (H S HS) as [H0 H1]. rewrite !Qabs_pos by lra. exact H1. }
  repeat split.
  - rewrite !nm_l1_eq. apply qsum_map_le. intros S HS. apply Habs. apply in_alln. exact HS.
  - apply nm_linf_lub. intros S HS. eapply Qle_trans; [apply Habs; exact HS| apply nm_linf_ge; exact HS].
  - rewrite !nm_l2sq_eq. apply qsum_map_le. intros S HS. apply in_alln in HS. destruct (H S HS) as [H0 H1].
    apply Qle_trans with (w S * w' S).
    + apply Qmult_le_compat_r; assumption.
    + rewrite (Qmult_comm (w S) (w' S)). apply Qmult_le_compat_r; lra.
  - rewrite !ex_wgap_eq. apply qsum_map_le. intros S HS. apply in_alln in HS. destruct (H S HS) as [H0 H1].
    apply sh_Qdiv_le_compat; [apply ex_binomQ_pos| exact H1].
Qed.

Theorem gaps_nonneg_and_zero n w :
  (forall S, bounded n S -> 0 <= w S) ->
  (0 <= nm_l1 n w /\ 0 <= nm_linf n w /\ 0 <= nm_l2sq n w /\ 0 <= ex_wgap n w) /\
  ((forall S, bounded n S -> w S == 0) ->
   nm_l1 n w == 0 /\ nm_linf n w == 0 /\ nm_l2sq n w == 0 /\ ex_wgap n w == 0).
Proof.
  intros H. split.
  - repeat split.
    + rewrite nm_l1_eq. apply qsum_nonneg. intros x Hx. apply in_map_iff in Hx. destruct Hx as [S [<- _]]. apply Qabs_nonneg.
    + eapply Qle_trans; [apply (Qabs_nonneg (w 0%N))| apply nm_linf_ge, bounded_0].
    + rewrite nm_l2sq_eq. apply qsum_nonneg. intros x Hx. apply in_map_iff in Hx. destruct Hx as [S [<- HS]].
      apply in_alln in HS. apply Qmult_le_0_compat; apply H; exact HS.
    + rewrite ex_wgap_eq. apply qsum_nonneg. intros x Hx. apply in_map_iff in Hx. destruct Hx as [S [<- HS]].
      apply in_alln in HS. apply ex_wgap_term_nonneg. apply H. exact HS.
  - intros Hz. repeat split.
    + rewrite nm_l1_eq. apply qsum_map_zero. intros S HS. apply in_alln in HS. rewrite (Hz S HS). reflexivity.
    + apply Qle_antisym.
      * apply nm_linf_lub. intros S HS. rewrite (Hz S HS). apply Qle_refl.
      * eapply Qle_trans; [apply (Qabs_nonneg (w 0%N))| apply nm_linf_ge, bounded_0].
    + rewrite nm_l2sq_eq. apply qsum_map_zero. intros S HS. apply in_alln in HS. rewrite (Hz S HS). ring.
    + rewrite ex_wgap_eq. apply qsum_map_zero. intros S HS. apply in_alln in HS. rewrite (Hz S HS). unfold Qdiv. ring.
Qed.

(* the fourth gap function as the code computes it (C05's identity makes it a function of the widths) *)
Corollary ex_exploit_monotone n l u l' u' :
  u 0%N == 0 -> u' 0%N == 0 ->
  (forall S, bounded n S -> 0 <= u' S - l' S /\ u' S - l' S <= u S - l S) ->
  ex_exploit n l' u' <= ex_exploit n l u.
Proof.
  intros H0 H0' H. rewrite !ex_weighted_gap_general, H0, H0'.
  destruct (gaps_monotone n (fun S => u S - l S) (fun S => u' S - l' S) H) as [_ [_ [_ Hw]]]. lra.
Qed.

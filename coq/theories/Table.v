(* Table: the model of IncompleteCooperativeGame._values, a (2^n x 3) array
   [known flag, lower, upper], read and written only through get/set.
   Backed by a positive-keyed trie so that in-place histories do not grow closures;
   proofs see nothing but gss/gso. *)
From ICG Require Import Prelude.
From Coq Require Import FMapPositive.

Record row := mkrow { known : bool; lo : Q; hi : Q }.

Definition row0 : row := mkrow false 0 0.            (* an np.zeros row *)

Definition table := PositiveMap.t row.

Definition key (s : N) : positive := N.succ_pos s.

Lemma key_inj a b : key a = key b -> a = b.
Proof.
  unfold key. intro H. apply (f_equal Pos.pred_N) in H. rewrite !N.pos_pred_succ in H. exact H.
Qed.

Definition empty : table := PositiveMap.empty row.
Definition get (t : table) (s : N) : row :=
  match PositiveMap.find (key s) t with Some r => r | None => row0 end.
Definition set (t : table) (s : N) (r : row) : table := PositiveMap.add (key s) r t.

Lemma get_empty s : get empty s = row0.
Proof. unfold get, empty. rewrite PositiveMap.gempty. reflexivity. Qed.
Lemma gss t s r : get (set t s r) s = r.
Proof. unfold get, set. rewrite PositiveMap.gss. reflexivity. Qed.
Lemma gso t s s' r : s' <> s -> get (set t s r) s' = get t s'.
Proof.
  intro H. unfold get, set. rewrite PositiveMap.gso; [reflexivity|].
  intro E. apply H. apply key_inj. exact E.
Qed.
Lemma get_set t s r s' : get (set t s r) s' = if N.eqb s' s then r else get t s'.
Proof.
  destruct (N.eqb_spec s' s) as [->|H]; [apply gss| apply gso; exact H].
Qed.

Global Opaque get set empty.

(* extensional equality of tables: what every getter of the implementation can observe *)
Definition teq (t1 t2 : table) : Prop := forall s, get t1 s = get t2 s.

Definition set_lo (t : table) (s : N) (x : Q) : table :=
  let r := get t s in set t s (mkrow (known r) x (hi r)).
Definition set_hi (t : table) (s : N) (x : Q) : table :=
  let r := get t s in set t s (mkrow (known r) (lo r) x).

Lemma known_set_lo t s x a : known (get (set_lo t s x) a) = known (get t a).
Proof. unfold set_lo. rewrite get_set. destruct (N.eqb_spec a s) as [->|]; reflexivity. Qed.
Lemma known_set_hi t s x a : known (get (set_hi t s x) a) = known (get t a).
Proof. unfold set_hi. rewrite get_set. destruct (N.eqb_spec a s) as [->|]; reflexivity. Qed.
Lemma hi_set_lo t s x a : hi (get (set_lo t s x) a) = hi (get t a).
Proof. unfold set_lo. rewrite get_set. destruct (N.eqb_spec a s) as [->|]; reflexivity. Qed.
Lemma lo_set_hi t s x a : lo (get (set_hi t s x) a) = lo (get t a).
Proof. unfold set_hi. rewrite get_set. destruct (N.eqb_spec a s) as [->|]; reflexivity. Qed.
Lemma lo_set_lo t s x a : lo (get (set_lo t s x) a) = if N.eqb a s then x else lo (get t a).
Proof. unfold set_lo. rewrite get_set. destruct (N.eqb_spec a s) as [->|]; reflexivity. Qed.
Lemma hi_set_hi t s x a : hi (get (set_hi t s x) a) = if N.eqb a s then x else hi (get t a).
Proof. unfold set_hi. rewrite get_set. destruct (N.eqb_spec a s) as [->|]; reflexivity. Qed.

(* a table built from a function on the 2^n ids (used by the driver and by examples) *)
Definition of_fun (ids : list N) (f : N -> row) : table :=
  fold_left (fun t s => set t s (f s)) ids empty.

Lemma of_fun_get ids f s : get (of_fun ids f) s = if in_dec N.eq_dec s ids then f s else row0.
Proof.
  unfold of_fun.
  assert (G : forall t, get (fold_left (fun t s => set t s (f s)) ids t) s
                        = if in_dec N.eq_dec s ids then f s else get t s).
  { induction ids as [|x ids IH]; intros t; simpl; [reflexivity|].
    rewrite IH. destruct (in_dec N.eq_dec s ids) as [Hin|Hnin].
    - destruct (N.eq_dec x s); reflexivity.
    - destruct (N.eq_dec x s) as [->|Hne]; [apply gss| apply gso; congruence]. }
  rewrite G, get_empty. reflexivity.
Qed.

(* FoldLemmas: what an in-place, size-sorted fold over coalitions computes.
   Generic in the cell function; everything about the three computers is derived from
   these lemmas and never from the folds again. *)
From ICG Require Import Prelude Bits Table.

Definition L (t : table) (s : N) : Q := lo (get t s).
Definition U (t : table) (s : N) : Q := hi (get t s).
Definition Kn (t : table) (s : N) : bool := known (get t s).

Lemma row_eq (r1 r2 : row) : known r1 = known r2 -> lo r1 = lo r2 -> hi r1 = hi r2 -> r1 = r2.
Proof. destruct r1, r2; simpl; intros; subst; reflexivity. Qed.

Lemma get_eq t1 t2 s : Kn t1 s = Kn t2 s -> L t1 s = L t2 s -> U t1 s = U t2 s -> get t1 s = get t2 s.
Proof. apply row_eq. Qed.

(* a list of coalitions in which smaller coalitions come first *)
Definition szsorted (n : nat) (us : list N) : Prop :=
  forall pre s post, us = pre ++ s :: post -> forall a, In a post -> (size n s <= size n a)%nat.

Lemma szsorted_tail n s us : szsorted n (s :: us) -> szsorted n us.
Proof. intros H pre x post E a Ha. apply (H (s :: pre) x post); [rewrite E; reflexivity| exact Ha]. Qed.
Lemma szsorted_head n s us : szsorted n (s :: us) -> forall a, In a us -> (size n s <= size n a)%nat.
Proof. intros H a Ha. apply (H [] s us); [reflexivity| exact Ha]. Qed.
Lemma szsorted_by_size n l : szsorted n (by_size n l).
Proof. intros pre s post E. eapply by_size_split. exact E. Qed.

Section LoFold.
  Variable n : nat.
  Variable F : (N -> Q) -> N -> Q.

  Definition lo_step (t : table) (s : N) : table := set_lo t s (Qred (F (L t) s)).

  Lemma lo_step_L t s a : L (lo_step t s) a = if N.eqb a s then Qred (F (L t) s) else L t a.
  Proof. unfold L, lo_step. apply lo_set_lo. Qed.
  Lemma lo_step_U t s a : U (lo_step t s) a = U t a.
  Proof. unfold U, lo_step. apply hi_set_lo. Qed.
  Lemma lo_step_Kn t s a : Kn (lo_step t s) a = Kn t a.
  Proof. unfold Kn, lo_step. apply known_set_lo. Qed.

  Lemma lo_fold_frame us t :
    let t' := fold_left lo_step us t in
    (forall s, ~ In s us -> L t' s = L t s) /\ (forall s, U t' s = U t s) /\ (forall s, Kn t' s = Kn t s).
  Proof.
    revert t. induction us as [|x us IH]; intros t; simpl; [auto|].
    destruct (IH (lo_step t x)) as [H1 [H2 H3]]. split; [|split].
    - intros s Hs. rewrite H1 by tauto. rewrite lo_step_L.
      destruct (N.eqb_spec s x) as [->|]; [exfalso; apply Hs; left; reflexivity| reflexivity].
    - intros s. rewrite H2. apply lo_step_U.
    - intros s. rewrite H3. apply lo_step_Kn.
  Qed.

  (* sequential pass: the cell function reads only strictly smaller coalitions *)
  Lemma lo_fold_seq us t :
    (forall l1 l2 s, In s us -> (forall a, (size n a < size n s)%nat -> l1 a = l2 a) -> F l1 s = F l2 s) ->
    NoDup us -> szsorted n us ->
    let t' := fold_left lo_step us t in
    forall s, In s us -> L t' s = Qred (F (L t') s).
  Proof.
    revert t. induction us as [|x us IH]; intros t Hloc Hnd Hso; simpl; [intros s []|].
    inversion Hnd as [|? ? Hx Hnd']; subst.
    intros s [<-|Hs].
    - destruct (lo_fold_frame us (lo_step t x)) as [H1 _].
      rewrite (H1 x Hx). rewrite lo_step_L, N.eqb_refl. f_equal.
      apply Hloc; [left; reflexivity|]. intros a Ha.
      rewrite (H1 a).
      + rewrite lo_step_L. destruct (N.eqb_spec a x) as [->|]; [lia| reflexivity].
      + intro Hin. pose proof (szsorted_head n x us Hso a Hin). lia.
    - apply IH; auto.
      + intros l1 l2 s0 Hs0. apply Hloc. right. exact Hs0.
      + eapply szsorted_tail; eauto.
  Qed.

  (* "parallel" pass: the cell function reads only the coalition itself and strictly larger ones,
     none of which has been written when the cell is processed *)
  Lemma lo_fold_par us t :
    (forall l1 l2 s, In s us -> (forall a, a = s \/ (size n s < size n a)%nat -> l1 a = l2 a) -> F l1 s = F l2 s) ->
    NoDup us -> szsorted n us ->
    let t' := fold_left lo_step us t in
    forall s, In s us -> L t' s = Qred (F (L t) s).
  Proof.
    revert t. induction us as [|x us IH]; intros t Hloc Hnd Hso; simpl; [intros s []|].
    inversion Hnd as [|? ? Hx Hnd']; subst.
    intros s [<-|Hs].
    - destruct (lo_fold_frame us (lo_step t x)) as [H1 _].
      rewrite (H1 x Hx). rewrite lo_step_L, N.eqb_refl. reflexivity.
    - rewrite IH; auto.
      + f_equal. apply Hloc; [right; exact Hs|]. intros a Ha. rewrite lo_step_L.
        destruct (N.eqb_spec a x) as [->|]; [|reflexivity].
        exfalso. pose proof (szsorted_head n x us Hso s Hs). destruct Ha as [->|Ha]; [contradiction| lia].
      + intros l1 l2 s0 Hs0. apply Hloc. right. exact Hs0.
      + eapply szsorted_tail; eauto.
  Qed.
End LoFold.

Section HiFold.
  (* upper pass: the cell function reads the lower column, the flags, and upper bounds of rows it never writes *)
  Variable G : table -> N -> Q.
  Definition hi_step (t : table) (s : N) : table := set_hi t s (Qred (G t s)).

  Lemma hi_step_U t s a : U (hi_step t s) a = if N.eqb a s then Qred (G t s) else U t a.
  Proof. unfold U, hi_step. apply hi_set_hi. Qed.
  Lemma hi_step_L t s a : L (hi_step t s) a = L t a.
  Proof. unfold L, hi_step. apply lo_set_hi. Qed.
  Lemma hi_step_Kn t s a : Kn (hi_step t s) a = Kn t a.
  Proof. unfold Kn, hi_step. apply known_set_hi. Qed.

  Lemma hi_fold_frame us t :
    let t' := fold_left hi_step us t in
    (forall s, ~ In s us -> U t' s = U t s) /\ (forall s, L t' s = L t s) /\ (forall s, Kn t' s = Kn t s).
  Proof.
    revert t. induction us as [|x us IH]; intros t; simpl; [auto|].
    destruct (IH (hi_step t x)) as [H1 [H2 H3]]. split; [|split].
    - intros s Hs. rewrite H1 by tauto. rewrite hi_step_U.
      destruct (N.eqb_spec s x) as [->|]; [exfalso; apply Hs; left; reflexivity| reflexivity].
    - intros s. rewrite H2. apply hi_step_L.
    - intros s. rewrite H3. apply hi_step_Kn.
  Qed.

  Lemma hi_fold_par us t :
    (forall t1 s, (forall a, L t1 a = L t a /\ Kn t1 a = Kn t a /\ (~ In a us -> U t1 a = U t a)) -> G t1 s = G t s) ->
    NoDup us ->
    let t' := fold_left hi_step us t in
    forall s, In s us -> U t' s = Qred (G t s).
  Proof.
    intros Hloc.
    (* generalise: fold over a suffix ws of us, starting from any t1 that agrees with t outside us *)
    assert (Gen : forall ws t1, incl ws us -> NoDup ws ->
              (forall a, L t1 a = L t a /\ Kn t1 a = Kn t a /\ (~ In a us -> U t1 a = U t a)) ->
              forall s, In s ws -> U (fold_left hi_step ws t1) s = Qred (G t s)).
    { induction ws as [|x ws IH]; intros t1 Hinc Hnd Hag s; simpl; [intros []|].
      inversion Hnd as [|? ? Hx Hnd']; subst.
      intros [<-|Hs].
      - destruct (hi_fold_frame ws (hi_step t1 x)) as [H1 _]. rewrite (H1 x Hx).
        rewrite hi_step_U, N.eqb_refl. f_equal. apply Hloc. exact Hag.
      - apply IH; auto.
        + intros a Ha. apply Hinc. right. exact Ha.
        + intros a. rewrite hi_step_L, hi_step_Kn, hi_step_U. destruct (Hag a) as [A1 [A2 A3]].
          split; [exact A1|]. split; [exact A2|]. intros Hn.
          destruct (N.eqb_spec a x) as [->|]; [exfalso; apply Hn; apply Hinc; left; reflexivity| auto]. }
    intros Hnd t' s Hs. apply Gen; auto. apply incl_refl.
  Qed.
End HiFold.

(* uniqueness of solutions of a size-recursive system of cell equations *)
Lemma fix_unique (n : nat) (F : (N -> Q) -> N -> Q) (P : N -> Prop) (K : N -> bool) (l1 l2 : N -> Q) :
  (forall l1 l2 s, P s -> (forall a, P a -> (size n a < size n s)%nat -> l1 a = l2 a) -> F l1 s = F l2 s) ->
  (forall s, P s -> K s = true -> l1 s = l2 s) ->
  (forall s, P s -> K s = false -> l1 s = Qred (F l1 s)) ->
  (forall s, P s -> K s = false -> l2 s = Qred (F l2 s)) ->
  forall s, P s -> l1 s = l2 s.
Proof.
  intros Hloc HK H1 H2 s. remember (size n s) as m eqn:Hm. revert s Hm.
  induction m as [m IH] using lt_wf_ind. intros s Hm Hs.
  destruct (K s) eqn:E; [auto|].
  rewrite H1, H2 by auto. f_equal. apply Hloc; auto. intros a Pa Ha. eapply IH; [|reflexivity|exact Pa]. lia.
Qed.

(* GeneratorsRegistry: the GENERATED registry (gen/Registry.v) reduced to the string-free data the extracted
   driver runs: the family of every key, in registry order, with the static admissibility / class flags.
   Model file (no proofs): recomputed by vm_compute whenever gen/Registry.v changes. *)
From ICG Require Import Prelude Bits RegistryTypes Generators.
From ICG Require Import gen.Registry.

Definition gn_registry_families : list gn_family :=
  Eval vm_compute in map (fun kv => gn_family_of (snd kv)) generators_registry.
(* per key: (admissible static parameters, monotone family, external) *)
Definition gn_registry_flags : list (bool * (bool * bool)) :=
  Eval vm_compute in
    map (fun kv => (gn_family_okb (snd kv), (gn_mono_family (gn_family_of (snd kv)), gn_is_external (snd kv))))
        generators_registry.
Definition gn_registry_run (i n : nat) (d : gn_draws) : option (list Q) := gn_run_idx gn_registry_families i n d.

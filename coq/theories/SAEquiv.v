(* SAEquiv: the cached and the reference superadditive computers are interchangeable (C03),
   and soundness of the reference computer as a corollary. *)
From ICG Require Import Prelude Bits Table Bounds FoldLemmas BoundsSpec SASound.

(* known rows carry one value: lower == upper *)
Definition wfq (n : nat) (t : table) : Prop :=
  forall s, bounded n s -> Kn t s = true -> L t s == U t s.

Lemma agrees_wfq n t K v : agrees n t K v -> wfq n t.
Proof.
  intros Hag s Hb Hk. destruct (Hag s Hb) as [E H]. rewrite E in Hk. destruct (H Hk) as [H1 H2].
  rewrite H1, H2. reflexivity.
Qed.

Lemma frame_known n t t' s :
  (forall s, ~ (bounded n s /\ Kn t s = false) -> get t' s = get t s) ->
  Kn t s = true -> get t' s = get t s.
Proof. intros H Hk. apply H. rewrite Hk. intros [_ ?]. discriminate. Qed.

Lemma post_L_unique n t t1 t2 : sa_post_ref n t t1 -> sa_post n t t2 ->
  forall s, bounded n s -> L t1 s = L t2 s.
Proof.
  intros P1 P2.
  apply (fix_unique n (lowerF n) (bounded n) (Kn t)).
  - intros l1 l2 s Hb H. apply lowerF_local; auto.
  - intros s Hb Hk. unfold L. rewrite (frame_known n t t1 s (rpost_frame _ _ _ P1) Hk).
    rewrite (frame_known n t t2 s (post_frame _ _ _ P2) Hk). reflexivity.
  - intros s Hb Hk. apply (rpost_lo _ _ _ P1); auto.
  - intros s Hb Hk. apply (post_lo _ _ _ P2); auto.
Qed.

Theorem sa_runs_equal n t : wfq n t -> teq (sa_ref_run n t) (sa_cached_run n t).
Proof.
  intros Hwf s.
  pose proof (sa_ref_run_post n t) as P1. pose proof (sa_cached_run_post n t) as P2.
  set (t1 := sa_ref_run n t) in *. set (t2 := sa_cached_run n t) in *.
  pose proof (post_L_unique n t t1 t2 P1 P2) as HL.
  destruct (Kn t s) eqn:Hk.
  - rewrite (frame_known n t t1 s (rpost_frame _ _ _ P1) Hk).
    rewrite (frame_known n t t2 s (post_frame _ _ _ P2) Hk). reflexivity.
  - destruct (in_dec N.eq_dec s (alln n)) as [Hin|Hnin].
    + apply in_alln in Hin. apply get_eq.
      * rewrite (rpost_Kn _ _ _ P1), (post_Kn _ _ _ P2). reflexivity.
      * apply HL. exact Hin.
      * rewrite (rpost_hi _ _ _ P1 s Hin Hk), (post_hi _ _ _ P2 s Hin Hk).
        apply Qred_complete. unfold upperF_ref, upperF. apply qminl_map_Qeq.
        intros T HT. apply filter_In in HT. destruct HT as [HT HkT].
        destruct (in_supers_facts n s T Hin HT) as [HbT [_ [E [Hbd _]]]].
        rewrite E. rewrite (HL _ Hbd).
        assert (E2 : L t2 T = L t T).
        { unfold L. rewrite (frame_known n t t2 T (post_frame _ _ _ P2) HkT). reflexivity. }
        rewrite E2, (Hwf T HbT HkT). reflexivity.
    + rewrite (rpost_frame _ _ _ P1), (post_frame _ _ _ P2); [reflexivity| |];
        intros [Hb _]; apply Hnin; apply in_alln; exact Hb.
Qed.

Theorem sa_cached_eq_ref n t t1 t2 :
  wfq n t -> compute_sa_ref n t = Some t1 -> compute_sa_cached n t = Some t2 -> teq t1 t2.
Proof.
  intros Hwf H1 H2. unfold compute_sa_ref in H1. unfold compute_sa_cached in H2.
  destruct (min_known n t); [|discriminate]. destruct (cached_ok n t); [|discriminate].
  injection H1 as <-. injection H2 as <-. apply sa_runs_equal. exact Hwf.
Qed.

(* both are defined whenever the minimal information is known *)
Lemma min_known_cached_ok n t : min_known n t = true -> cached_ok n t = true.
Proof.
  unfold min_known, cached_ok. intros H. apply andb_true_iff in H. destruct H as [H Hs].
  rewrite H. simpl. apply forallb_forall. intros s Hin. apply in_unknown_ids in Hin. destruct Hin as [Hb Hk].
  apply andb_true_iff in H. destruct H as [H0 Hg].
  assert (Hne : splits n s <> []).
  { apply splits_nonempty; auto.
    destruct (le_lt_dec 2 (size n s)) as [|Hlt]; auto. exfalso.
    destruct (size_le_1 n s Hb) as [->|[i [Hi ->]]]; [lia| unfold Kn in Hk; congruence|].
    rewrite forallb_forall in Hs. specialize (Hs i). unfold Kn in Hk. rewrite Hs in Hk; [discriminate| apply in_seq; lia]. }
  destruct (splits n s); [congruence| reflexivity].
Qed.

Theorem sa_both_defined n t : min_known n t = true ->
  exists t1 t2, compute_sa_ref n t = Some t1 /\ compute_sa_cached n t = Some t2.
Proof.
  intros H. unfold compute_sa_ref, compute_sa_cached. rewrite H, (min_known_cached_ok n t H). eauto.
Qed.

Theorem sa_ref_sound n K v t t' :
  SA n v -> MinK n K -> agrees n t K v -> compute_sa_ref n t = Some t' ->
  forall s, bounded n s -> sound_at n K v t t' s.
Proof.
  intros HSA HM Hag Hc s Hb.
  assert (Hok : compute_sa_cached n t = Some (sa_cached_run n t)).
  { unfold compute_sa_cached. rewrite (cached_ok_of_MinK n t K v HM Hag). reflexivity. }
  pose proof (sa_cached_eq_ref n t t' _ (agrees_wfq n t K v Hag) Hc Hok) as Heq.
  pose proof (sa_cached_sound n K v t _ HSA HM Hag Hok s Hb) as S.
  unfold sound_at, L, U, Kn in *. rewrite (Heq s). exact S.
Qed.

Theorem sa_sound (c : computer) n K v t t' :
  (c = CRef \/ c = CCached) ->
  SA n v -> MinK n K -> agrees n t K v -> compute c n t = Some t' ->
  forall s, bounded n s -> sound_at n K v t t' s.
Proof.
  intros [->| ->]; simpl; [apply sa_ref_sound| apply sa_cached_sound].
Qed.

Theorem sa_defined (c : computer) n K v t :
  (c = CRef \/ c = CCached) -> MinK n K -> agrees n t K v -> exists t', compute c n t = Some t'.
Proof.
  intros [->| ->] HM Hag; simpl.
  - unfold compute_sa_ref. rewrite (min_known_of_MinK n t K v HM Hag). eauto.
  - unfold compute_sa_cached. rewrite (cached_ok_of_MinK n t K v HM Hag). eauto.
Qed.

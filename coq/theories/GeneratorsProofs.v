(* GeneratorsProofs: every generator family of Generators.v yields a superadditive game (and a monotone
   non-increasing one for the XOS / XS / OXS / K-budget / coverage families), for all n and all draws in the
   stated supports. *)
From Coq Require Import Sorted.
From ICG Require Import Prelude Bits RegistryTypes Generators.
Local Open Scope Q_scope.

(* ================================================================ basics *)
Lemma gn_in_players n S i : In i (players n S) <-> (i < n)%nat /\ tb S i = true.
Proof. unfold players. rewrite filter_In, in_seq. split; intros [H1 H2]; split; auto; lia. Qed.

Lemma gn_players_0 n : players n 0 = [].
Proof. apply length_zero_iff_nil. apply (size_0 n). Qed.

Lemma gn_get_table n v S : bounded n S -> gn_get (gn_table n v) S = v S.
Proof.
  intros Hb. apply in_alln in Hb. unfold alln in Hb. apply in_map_iff in Hb. destruct Hb as [k [<- Hk]].
  apply in_seq in Hk. unfold gn_get, gn_table, alln. rewrite Nat2N.id.
  rewrite (nth_indep _ 0 (v (N.of_nat 0%nat))) by (rewrite !map_length, seq_length; lia).
  rewrite (map_nth v). f_equal. rewrite (map_nth N.of_nat). f_equal. rewrite seq_nth by lia. reflexivity.
Qed.

Lemma gn_table_length n v : length (gn_table n v) = (2 ^ n)%nat.
Proof. unfold gn_table, alln. rewrite !map_length, seq_length. reflexivity. Qed.

Lemma gn_bounded_to_nat n S : bounded n S -> (N.to_nat S < 2 ^ n)%nat.
Proof.
  intros Hb. apply in_alln in Hb. unfold alln in Hb. apply in_map_iff in Hb. destruct Hb as [k [<- Hk]].
  apply in_seq in Hk. rewrite Nat2N.id. lia.
Qed.

Lemma gn_qnat_add a b : gn_qnat (a + b) == gn_qnat a + gn_qnat b.
Proof. unfold gn_qnat. rewrite Nat2Z.inj_add, inject_Z_plus. reflexivity. Qed.
Lemma gn_qnat_le a b : (a <= b)%nat -> gn_qnat a <= gn_qnat b.
Proof. intros H. unfold gn_qnat. rewrite <- Zle_Qle. lia. Qed.
Lemma gn_qnat_nonneg a : 0 <= gn_qnat a.
Proof. change 0 with (gn_qnat 0). apply gn_qnat_le. lia. Qed.

(* sums over a filtered list as indicator sums *)
Lemma gn_qsum_filter {A} (w : A -> Q) (p : A -> bool) l :
  qsum (map w (filter p l)) == qsum (map (fun i => if p i then w i else 0) l).
Proof.
  induction l as [|x l IH]; simpl; [reflexivity|].
  destruct (p x); simpl; rewrite IH; ring.
Qed.

Lemma gn_filter_length_or {A} (p q : A -> bool) l :
  (forall x, p x = true -> q x = false) ->
  length (filter (fun x => p x || q x) l) = (length (filter p l) + length (filter q l))%nat.
Proof.
  intros Hd. induction l as [|x l IH]; simpl; [reflexivity|].
  destruct (p x) eqn:Ep; simpl.
  - rewrite (Hd _ Ep). simpl. rewrite IH. reflexivity.
  - destruct (q x); simpl; rewrite IH; lia.
Qed.

Lemma gn_size_lor n A B : disjb A B = true -> size n (N.lor A B) = (size n A + size n B)%nat.
Proof.
  intros Hd. rewrite disjb_spec in Hd. unfold size, players.
  rewrite <- (gn_filter_length_or (tb A) (tb B)) by exact Hd.
  f_equal. apply filter_ext. intros i. apply tb_lor.
Qed.

Lemma gn_size_mem n S i : bounded n S -> tb S i = true -> (1 <= size n S)%nat.
Proof.
  intros Hb Hi. apply size_pos; auto. intros ->. rewrite tb_0 in Hi. discriminate.
Qed.

Lemma gn_wsum_lor n w A B : disjb A B = true -> gn_wsum n w (N.lor A B) == gn_wsum n w A + gn_wsum n w B.
Proof.
  intros Hd. rewrite disjb_spec in Hd. unfold gn_wsum, players. rewrite !gn_qsum_filter.
  rewrite <- qsum_map_add. apply qsum_map_ext. intros i _. rewrite tb_lor.
  destruct (tb A i) eqn:Ea; simpl.
  - rewrite (Hd _ Ea). ring.
  - destruct (tb B i); ring.
Qed.

Lemma gn_wsum_nonneg n w S : (forall i, (i < n)%nat -> 0 <= w i) -> 0 <= gn_wsum n w S.
Proof.
  intros H. unfold gn_wsum. apply qsum_nonneg. intros x Hx. apply in_map_iff in Hx.
  destruct Hx as [i [<- Hi]]. apply gn_in_players in Hi. apply H. tauto.
Qed.

Lemma gn_wsum_0 n w : gn_wsum n w 0 = 0.
Proof. unfold gn_wsum. rewrite gn_players_0. reflexivity. Qed.

Lemma gn_wsum_mono n w A B : (forall i, (i < n)%nat -> 0 <= w i) -> sub A B = true -> gn_wsum n w A <= gn_wsum n w B.
Proof.
  intros Hw Hs. rewrite sub_spec in Hs. unfold gn_wsum, players. rewrite !gn_qsum_filter.
  apply qsum_map_le. intros j Hj. apply in_seq in Hj. destruct (tb A j) eqn:Ea.
  - rewrite (Hs _ Ea). apply Qle_refl.
  - destruct (tb B j); [apply Hw; lia| apply Qle_refl].
Qed.

(* ================================================================ factory *)
Definition gn_nondecr_nonneg (f : Q -> Q) : Prop := forall x y, 0 <= x -> x <= y -> f x <= f y.

Lemma gn_factory_empty n owner w f : gn_factory n owner w f 0 = 0.
Proof. unfold gn_factory. rewrite tb_0. reflexivity. Qed.

(* Only the monotonicity of the value function on the non-negatives and the non-negativity of the weights are
   needed: neither 0 <= f 0 nor w owner == 0 (two disjoint coalitions never both contain the owner). *)
Theorem gn_factory_SA n owner w f :
  (forall i, (i < n)%nat -> 0 <= w i) -> gn_nondecr_nonneg f -> gn_SA n (gn_factory n owner w f).
Proof.
  intros Hw Hf A B HA HB Hd. unfold gn_factory. rewrite tb_lor.
  pose proof (gn_wsum_lor n w A B Hd) as E.
  pose proof (gn_wsum_nonneg n w A Hw) as NA. pose proof (gn_wsum_nonneg n w B Hw) as NB.
  rewrite disjb_spec in Hd.
  destruct (tb A owner) eqn:Ea; simpl.
  - rewrite (Hd _ Ea). assert (f (gn_wsum n w A) <= f (gn_wsum n w (N.lor A B))) by (apply Hf; lra). lra.
  - destruct (tb B owner) eqn:Eb.
    + assert (f (gn_wsum n w B) <= f (gn_wsum n w (N.lor A B))) by (apply Hf; lra). lra.
    + lra.
Qed.

Lemma gn_factory_weights_nonneg rw owner w :
  (forall x, In x w -> 0 <= x) -> forall i, 0 <= gn_factory_weights rw owner w i.
Proof.
  intros Hw i. unfold gn_factory_weights. destruct (i =? owner)%nat; [apply Qle_refl|].
  destruct rw; [|lra].
  destruct (Nat.lt_ge_cases i (length w)) as [H|H].
  - apply Hw. apply nth_In. exact H.
  - rewrite nth_overflow by exact H. apply Qle_refl.
Qed.
Lemma gn_factory_weights_owner rw owner w : gn_factory_weights rw owner w owner = 0.
Proof. unfold gn_factory_weights. rewrite Nat.eqb_refl. reflexivity. Qed.

(* value functions of the registry: lambda x: x, _fac_sq_fn, _fac_one_fn *)
Lemma gn_vid_mono : gn_nondecr_nonneg gn_vid.
Proof. intros x y _ H. exact H. Qed.
Lemma gn_vsq_mono : gn_nondecr_nonneg gn_vsq.
Proof.
  intros x y Hx H. unfold gn_vsq. nra.
Qed.
Lemma gn_vone_mono : gn_nondecr_nonneg gn_vone.
Proof. intros x y _ _. apply Qle_refl. Qed.
(* the monotone hull of a recorded table is monotone whatever the table *)
Lemma gn_tabfn_mono tab : gn_nondecr_nonneg (gn_tabfn tab).
Proof.
  intros x y _ H. unfold gn_tabfn. apply qmaxl1_lub. intros z Hz. apply qmaxl1_ge.
  destruct Hz as [<-|Hz]; [left; reflexivity| right].
  apply in_map_iff in Hz. destruct Hz as [p [<- Hp]]. apply filter_In in Hp. destruct Hp as [Hp Hle].
  apply in_map. apply filter_In. split; auto. apply Qle_bool_iff in Hle. apply Qle_bool_iff. lra.
Qed.
(* ... and it reproduces a table whose values are non-decreasing in the keys *)
Lemma gn_tabfn_exact tab x y :
  In (x, y) tab -> (forall x' y', In (x', y') tab -> x' <= x -> y' <= y) -> gn_tabfn tab x == y.
Proof.
  intros Hin Hm. unfold gn_tabfn. apply Qle_antisym.
  - apply qmaxl1_lub. intros z [<-|Hz].
    + apply qminl_le. apply (in_map snd) in Hin. exact Hin.
    + apply in_map_iff in Hz. destruct Hz as [[x' y'] [<- Hp]]. apply filter_In in Hp. destruct Hp as [Hp Hle].
      apply Qle_bool_iff in Hle. simpl in *. eapply Hm; eauto.
  - apply qmaxl1_ge. right. change y with (snd (x, y)). apply in_map. apply filter_In. split; auto.
    apply Qle_bool_iff. simpl. apply Qle_refl.
Qed.
Lemma gn_valfn_mono vf tab : gn_nondecr_nonneg (gn_valfn vf tab).
Proof. destruct vf; [apply gn_vid_mono| apply gn_vsq_mono| apply gn_vone_mono| apply gn_tabfn_mono]. Qed.

(* math.exp: what the construction needs from it, as a Section hypothesis (trusted: math.exp is monotone) *)
Section GnExp.
  Variable gn_exp : Q -> Q.
  Hypothesis gn_exp_mono : forall x y, x <= y -> gn_exp x <= gn_exp y.
  Lemma gn_exp_nondecr : gn_nondecr_nonneg gn_exp.
  Proof. intros x y _ H. apply gn_exp_mono. exact H. Qed.
  Theorem gn_factory_exp_SA n owner w :
    (forall i, (i < n)%nat -> 0 <= w i) -> gn_SA n (gn_factory n owner w gn_exp).
  Proof. intros Hw. apply gn_factory_SA; [exact Hw| exact gn_exp_nondecr]. Qed.
End GnExp.

(* ================================================================ cheerleader *)
(* superadditive for every n, every owner and every cheerleader (even owner = cheerleader, which the code excludes) *)
Theorem gn_cheerleader_SA n owner cheer : gn_SA n (gn_cheerleader n owner cheer).
Proof.
  intros A B HA HB Hd. unfold gn_cheerleader. rewrite (gn_size_lor n A B Hd), !tb_lor.
  pose proof (gn_qnat_add (size n A) (size n B)) as E.
  pose proof (gn_qnat_nonneg (size n A)) as NA. pose proof (gn_qnat_nonneg (size n B)) as NB.
  assert (MA : forall i, tb A i = true -> 1 <= gn_qnat (size n A)).
  { intros i Hi. change 1 with (gn_qnat 1). apply gn_qnat_le. eapply gn_size_mem; eauto. }
  assert (MB : forall i, tb B i = true -> 1 <= gn_qnat (size n B)).
  { intros i Hi. change 1 with (gn_qnat 1). apply gn_qnat_le. eapply gn_size_mem; eauto. }
  rewrite disjb_spec in Hd.
  set (a := gn_qnat (size n A)) in *. set (b := gn_qnat (size n B)) in *.
  set (ab := gn_qnat (size n A + size n B)) in *.
  destruct (tb A owner) eqn:Ao; destruct (tb B owner) eqn:Bo;
    try (rewrite (Hd _ Ao) in Bo; discriminate); simpl;
    destruct (tb A cheer) eqn:Ac; destruct (tb B cheer) eqn:Bc;
    try (rewrite (Hd _ Ac) in Bc; discriminate); simpl;
    try (pose proof (MA _ Ao)); try (pose proof (MB _ Bo)); try (pose proof (MA _ Ac)); try (pose proof (MB _ Bc)); lra.
Qed.
Lemma gn_cheerleader_empty n owner cheer : gn_cheerleader n owner cheer 0 = 0.
Proof. unfold gn_cheerleader. rewrite tb_0. reflexivity. Qed.

(* the unconverted numpy integer: the run fails, for every n and every draw *)
Lemma gn_cheerleader_np_fails n owner c : gn_cheerleader_py n owner (NpInt c) = None.
Proof. reflexivity. Qed.
Lemma gn_cheerleader_py_ok n owner c : gn_cheerleader_py n owner (PyInt c) = Some (gn_cheerleader n owner c).
Proof. reflexivity. Qed.

(* ================================================================ graph games *)
Fixpoint gn_psum (W : nat -> nat -> Q) (p : nat -> bool) (l : list nat) : Q :=
  match l with
  | [] => 0
  | x :: r => qsum (map (fun y => if p x && p y then W x y else 0) r) + gn_psum W p r
  end.

Lemma gn_pairs_psum W p l :
  qsum (map (fun q => W (fst q) (snd q)) (gn_pairs (filter p l))) == gn_psum W p l.
Proof.
  induction l as [|x l IH]; simpl; [reflexivity|].
  destruct (p x) eqn:Ep; simpl.
  - rewrite map_app, qsum_app, IH, map_map. simpl.
    rewrite (gn_qsum_filter (fun y => W x y) p l). reflexivity.
  - rewrite IH. rewrite qsum_map_zero; [ring| intros; reflexivity].
Qed.

Lemma gn_psum_SA W pA pB l :
  (forall i j, 0 <= W i j) -> (forall i, pA i = true -> pB i = false) ->
  gn_psum W pA l + gn_psum W pB l <= gn_psum W (fun i => pA i || pB i) l.
Proof.
  intros HW Hd. induction l as [|x l IH]; simpl; [lra|].
  assert (H : qsum (map (fun y => if pA x && pA y then W x y else 0) l) + qsum (map (fun y => if pB x && pB y then W x y else 0) l)
              <= qsum (map (fun y => if (pA x || pB x) && (pA y || pB y) then W x y else 0) l)).
  { rewrite <- qsum_map_add. apply qsum_map_le. intros y _. pose proof (HW x y).
    destruct (pA x) eqn:Ax; destruct (pA y) eqn:Ay; simpl;
      try rewrite (Hd _ Ax); try rewrite (Hd _ Ay); simpl;
      destruct (pB x); destruct (pB y); simpl; lra. }
  lra.
Qed.

Theorem gn_graph_SA n W : (forall i j, 0 <= W i j) -> gn_SA n (gn_graph n W).
Proof.
  intros HW A B _ _ Hd. unfold gn_graph, players. rewrite !gn_pairs_psum.
  rewrite disjb_spec in Hd.
  assert (E : filter (tb (N.lor A B)) (seq 0 n) = filter (fun i => tb A i || tb B i) (seq 0 n))
    by (apply filter_ext; intro i; apply tb_lor).
  assert (E2 : forall l, gn_psum W (tb (N.lor A B)) l = gn_psum W (fun i => tb A i || tb B i) l).
  { induction l as [|x l IH]; simpl; [reflexivity|]. rewrite IH. f_equal. f_equal. apply map_ext.
    intros y. rewrite !tb_lor. reflexivity. }
  rewrite E2. apply gn_psum_SA; assumption.
Qed.
Lemma gn_graph_empty n W : gn_graph n W 0 = 0.
Proof. unfold gn_graph. rewrite gn_players_0. reflexivity. Qed.

Lemma gn_polish_nonneg W : (forall i j, (i < j)%nat -> 0 <= W i j) -> forall i j, 0 <= gn_polish W i j.
Proof. intros H i j. unfold gn_polish. destruct (Nat.ltb_spec i j); [apply H; assumption| apply Qle_refl]. Qed.

(* the value function only ever reads the strict upper triangle: polishing does not change the game *)
Lemma gn_pairs_sorted l : StronglySorted lt l -> forall q, In q (gn_pairs l) -> (fst q < snd q)%nat.
Proof.
  induction 1 as [|x l Hs IH Hall]; simpl; [tauto|]. intros q Hq. apply in_app_or in Hq. destruct Hq as [Hq|Hq].
  - apply in_map_iff in Hq. destruct Hq as [y [<- Hy]]. simpl. rewrite Forall_forall in Hall. auto.
  - auto.
Qed.
Lemma gn_players_sorted n S : StronglySorted lt (players n S).
Proof.
  unfold players. generalize 0%nat. induction n as [|n IH]; intros st; simpl; [constructor|].
  destruct (tb S st).
  - constructor; [apply IH|]. apply Forall_forall. intros y Hy. apply filter_In in Hy. destruct Hy as [Hy _].
    apply in_seq in Hy. lia.
  - apply IH.
Qed.
Lemma gn_graph_polish n W S : gn_graph n (gn_polish W) S == gn_graph n W S.
Proof.
  unfold gn_graph. apply qsum_map_ext. intros q Hq. unfold gn_polish.
  apply (gn_pairs_sorted _ (gn_players_sorted n S)) in Hq. apply Nat.ltb_lt in Hq. rewrite Hq. reflexivity.
Qed.

Lemma gn_cycle_matrix_nonneg n perm i j : 0 <= gn_cycle_matrix n perm i j.
Proof. unfold gn_cycle_matrix. destruct (existsb _ _); lra. Qed.

(* ================================================================ additive *)
Theorem gn_additive_additive n w A B :
  disjb A B = true -> gn_additive n w (N.lor A B) == gn_additive n w A + gn_additive n w B.
Proof. apply gn_wsum_lor. Qed.
Theorem gn_additive_SA n w : gn_SA n (gn_additive n w).
Proof. intros A B _ _ Hd. rewrite (gn_additive_additive n w A B Hd). apply Qle_refl. Qed.

(* ================================================================ the negated-valuation families *)
(* f: zero at the empty coalition, monotone non-decreasing and subadditive; then -f is a SAM game *)
Definition gn_SubMono (n : nat) (f : N -> Q) : Prop :=
  f 0%N == 0 /\
  (forall A B, bounded n A -> bounded n B -> disjb A B = true -> f (N.lor A B) <= f A + f B) /\
  (forall A B, bounded n B -> sub A B = true -> f A <= f B).
(* superadditive, monotone non-increasing, zero at the empty coalition *)
Definition gn_SAM0 (n : nat) (v : N -> Q) : Prop := v 0%N == 0 /\ gn_SA n v /\ gn_Mono n v.

Lemma gn_SubMono_nonneg n f S : gn_SubMono n f -> bounded n S -> 0 <= f S.
Proof. intros [H0 [_ Hm]] Hb. rewrite <- H0. apply Hm; [exact Hb| apply sub_0_l]. Qed.

Lemma gn_SubMono_neg n f : gn_SubMono n f -> gn_SAM0 n (fun S => - f S).
Proof.
  intros [H0 [Hs Hm]]. split; [rewrite H0; reflexivity|]. split.
  - intros A B HA HB Hd. specialize (Hs A B HA HB Hd). lra.
  - intros A B HB Hsub. specialize (Hm A B HB Hsub). lra.
Qed.

Lemma gn_SAM0_nonpos n v S : gn_SAM0 n v -> bounded n S -> v S <= 0.
Proof. intros [H0 [_ Hm]] Hb. rewrite <- H0. apply Hm; [exact Hb| apply sub_0_l]. Qed.

Lemma gn_SAM0_ext n v v' : (forall S, bounded n S -> v' S == v S) -> gn_SAM0 n v -> gn_SAM0 n v'.
Proof.
  intros E [H0 [Hs Hm]]. split; [rewrite (E 0%N (bounded_0 n)); exact H0|]. split.
  - intros A B HA HB Hd. rewrite (E A HA), (E B HB), (E _ (bounded_lor n A B HA HB)). apply Hs; assumption.
  - intros A B HB Hsub. rewrite (E B HB), (E A (bounded_sub n A B HB Hsub)). apply Hm; assumption.
Qed.

Lemma gn_div_le x y d : 0 < d -> x <= y -> x / d <= y / d.
Proof.
  intros Hd H. unfold Qdiv. apply Qmult_le_compat_r; [exact H|].
  apply Qlt_le_weak. apply Qinv_lt_0_compat. exact Hd.
Qed.
Lemma gn_div_add x y d : (x + y) / d == x / d + y / d.
Proof. unfold Qdiv. ring. Qed.
Lemma gn_div_0 d : 0 / d == 0.
Proof. unfold Qdiv. ring. Qed.

Lemma gn_SubMono_div n f d : 0 < d -> gn_SubMono n f -> gn_SubMono n (fun S => f S / d).
Proof.
  intros Hd [H0 [Hs Hm]]. split; [rewrite H0; apply gn_div_0|]. split.
  - intros A B HA HB Hdis. rewrite <- gn_div_add. apply gn_div_le; auto.
  - intros A B HB Hsub. apply gn_div_le; auto.
Qed.
Lemma gn_SAM0_div n v d : 0 < d -> gn_SAM0 n v -> gn_SAM0 n (fun S => v S / d).
Proof.
  intros Hd [H0 [Hs Hm]]. split; [rewrite H0; apply gn_div_0|]. split.
  - intros A B HA HB Hdis. rewrite <- gn_div_add. apply gn_div_le; auto.
  - intros A B HB Hsub. apply gn_div_le; auto.
Qed.

(* pointwise maximum of a non-empty family *)
Lemma gn_SubMono_max n (fs : list (N -> Q)) :
  fs <> [] -> (forall f, In f fs -> gn_SubMono n f) -> gn_SubMono n (fun S => qmaxl (map (fun a : N -> Q => a S) fs)).
Proof.
  intros Hne Hall. assert (Hne' : forall S, map (fun a : N -> Q => a S) fs <> []) by (intro; apply map_neq_nil; exact Hne).
  split; [|split].
  - apply Qle_antisym.
    + apply qmaxl_lub; auto. intros y Hy. apply in_map_iff in Hy. destruct Hy as [f [<- Hf]].
      destruct (Hall f Hf) as [H0 _]. rewrite H0. apply Qle_refl.
    + destruct fs as [|f fs']; [congruence|]. destruct (Hall f (or_introl eq_refl)) as [H0 _]. rewrite <- H0.
      apply qmaxl_ge. left. reflexivity.
  - intros A B HA HB Hd. apply qmaxl_lub; auto. intros y Hy. apply in_map_iff in Hy. destruct Hy as [f [<- Hf]].
    destruct (Hall f Hf) as [_ [Hs _]]. specialize (Hs A B HA HB Hd).
    assert (f A <= qmaxl (map (fun a : N -> Q => a A) fs)) by (apply qmaxl_ge; apply in_map_iff; exists f; auto).
    assert (f B <= qmaxl (map (fun a : N -> Q => a B) fs)) by (apply qmaxl_ge; apply in_map_iff; exists f; auto).
    lra.
  - intros A B HB Hsub. apply qmaxl_lub; auto. intros y Hy. apply in_map_iff in Hy. destruct Hy as [f [<- Hf]].
    destruct (Hall f Hf) as [_ [_ Hm]]. specialize (Hm A B HB Hsub).
    assert (f B <= qmaxl (map (fun a : N -> Q => a B) fs)) by (apply qmaxl_ge; apply in_map_iff; exists f; auto).
    lra.
Qed.

Lemma gn_additive_SubMono n w : (forall i, (i < n)%nat -> 0 <= w i) -> gn_SubMono n (gn_additive n w).
Proof.
  intros Hw. unfold gn_additive. split; [rewrite gn_wsum_0; reflexivity|]. split.
  - intros A B _ _ Hd. rewrite (gn_wsum_lor n w A B Hd). apply Qle_refl.
  - intros A B _ Hsub. apply gn_wsum_mono; assumption.
Qed.

(* ================================================================ xos *)
Lemma gn_div_game_some v d v' : gn_div_game v d = Some v' -> ~ d == 0 /\ v' = (fun S => v S / d).
Proof.
  unfold gn_div_game. destruct (Qeq_bool d 0) eqn:E; [discriminate|]. intros H. inversion H. split; auto.
  intro Hd. apply Qeq_bool_iff in Hd. congruence.
Qed.

Lemma gn_all_some_spec {A} (l : list (option A)) l' :
  gn_all_some l = Some l' -> length l' = length l /\ forall x, In x l' -> In (Some x) l.
Proof.
  revert l'. induction l as [|o l IH]; intros l' H; simpl in H.
  - inversion H. split; [reflexivity| intros x []].
  - destruct o as [a|]; [|discriminate]. destruct (gn_all_some l) as [r|]; [|discriminate]. inversion H; subst.
    destruct (IH r eq_refl) as [Hl Hin]. split; [simpl; congruence|].
    intros x [->|Hx]; [left; reflexivity| right; apply Hin; exact Hx].
Qed.

Theorem gn_xos_SAM n (ws : list (nat -> Q)) normalize normalize_additive v :
  (forall w, In w ws -> forall i, (i < n)%nat -> 0 <= w i) ->
  gn_xos n ws normalize normalize_additive = Some v -> gn_SAM0 n v.
Proof.
  intros Hw. unfold gn_xos. destruct ws as [|w0 ws']; [discriminate|]. set (ws := w0 :: ws') in *.
  set (adds := map (gn_additive n) ws).
  assert (Hadds : forall a, In a adds -> gn_SubMono n a).
  { intros a Ha. apply in_map_iff in Ha. destruct Ha as [w [<- Hin]]. apply gn_additive_SubMono. apply Hw. exact Hin. }
  assert (Hlen : adds <> []) by (unfold adds, ws; simpl; discriminate).
  destruct (if normalize_additive then gn_all_some (map (fun a : N -> Q => gn_div_game a (a (grand n))) adds) else Some adds)
    as [adds'|] eqn:Ea; [|discriminate].
  assert (H' : adds' <> [] /\ forall a, In a adds' -> gn_SubMono n a).
  { destruct normalize_additive.
    - apply gn_all_some_spec in Ea. destruct Ea as [Hl Hin]. rewrite map_length in Hl. split.
      + intro E. apply Hlen. apply length_zero_iff_nil. rewrite <- Hl, E. reflexivity.
      + intros a Ha. apply Hin in Ha. apply in_map_iff in Ha. destruct Ha as [a0 [Ed Ha0]].
        apply gn_div_game_some in Ed. destruct Ed as [Hnz ->]. apply gn_SubMono_div; [|apply Hadds; exact Ha0].
        pose proof (gn_SubMono_nonneg n a0 (grand n) (Hadds a0 Ha0) (bounded_grand n)).
        destruct (Qlt_le_dec 0 (a0 (grand n))); [assumption| exfalso; apply Hnz; lra].
    - injection Ea as <-. split; assumption. }
  destruct H' as [Hne' Hall'].
  pose proof (gn_SubMono_max n adds' Hne' Hall') as Hmax.
  intros H. destruct normalize.
  - destruct (gn_div_game _ _) as [o|] eqn:Eo in H; [|discriminate]. injection H as <-.
    apply gn_div_game_some in Eo. destruct Eo as [Hnz ->]. apply gn_SubMono_neg.
    apply gn_SubMono_div; [|exact Hmax].
    pose proof (gn_SubMono_nonneg n _ (grand n) Hmax (bounded_grand n)) as Hnn. cbv beta in Hnn.
    match type of Hnn with 0 <= ?g => destruct (Qlt_le_dec 0 g); [assumption| exfalso; apply Hnz; lra] end.
  - injection H as <-. apply gn_SubMono_neg. exact Hmax.
Qed.

(* the run does succeed when the grand values are positive *)
Lemma gn_xos_defined n (ws : list (nat -> Q)) :
  ws <> [] -> exists v, gn_xos n ws false false = Some v.
Proof. intros H. unfold gn_xos. destruct ws; [congruence|]. eexists. reflexivity. Qed.

(* ================================================================ xs *)
Lemma gn_xs_SubMono n s : gn_SubMono n (fun S => qmaxl1 0 (map s (players n S))).
Proof.
  split; [rewrite gn_players_0; reflexivity|]. split.
  - intros A B _ _ _. apply qmaxl1_lub. intros z Hz.
    assert (PA : 0 <= qmaxl1 0 (map s (players n A))) by (apply qmaxl1_ge; left; reflexivity).
    assert (PB : 0 <= qmaxl1 0 (map s (players n B))) by (apply qmaxl1_ge; left; reflexivity).
    destruct Hz as [<-|Hz]; [lra|].
    apply in_map_iff in Hz. destruct Hz as [i [<- Hi]]. apply gn_in_players in Hi. destruct Hi as [Hi Ht].
    rewrite tb_lor in Ht. apply orb_true_iff in Ht. destruct Ht as [Ht|Ht].
    + assert (s i <= qmaxl1 0 (map s (players n A))) by (apply qmaxl1_ge; right; apply in_map; apply gn_in_players; auto). lra.
    + assert (s i <= qmaxl1 0 (map s (players n B))) by (apply qmaxl1_ge; right; apply in_map; apply gn_in_players; auto). lra.
  - intros A B _ Hsub. rewrite sub_spec in Hsub. apply qmaxl1_lub. intros z Hz. apply qmaxl1_ge.
    destruct Hz as [<-|Hz]; [left; reflexivity| right].
    apply in_map_iff in Hz. destruct Hz as [i [<- Hi]]. apply in_map. apply gn_in_players in Hi. apply gn_in_players.
    destruct Hi; split; auto.
Qed.
(* no hypothesis on the singleton values: `initial=0` makes the valuation non-negative by itself *)
Theorem gn_xs_SAM n s : gn_SAM0 n (gn_xs n s).
Proof. apply (gn_SubMono_neg n _ (gn_xs_SubMono n s)). Qed.

(* ================================================================ k-budget *)
(* for every k, including k = 0 (the zero game); the code draws 1 <= k < n *)
Theorem gn_kbudget_SAM n k : gn_SAM0 n (gn_kbudget n k).
Proof.
  apply (gn_SubMono_neg n (fun S => gn_qnat (Nat.min k (size n S)))). split; [|split].
  - rewrite size_0, Nat.min_0_r. reflexivity.
  - intros A B _ _ Hd. rewrite (gn_size_lor n A B Hd), <- gn_qnat_add. apply gn_qnat_le. lia.
  - intros A B _ Hsub. apply gn_qnat_le. pose proof (sub_size_le n A B Hsub). lia.
Qed.

(* ================================================================ coverage *)
Lemma gn_in_cover n U S x : In x (gn_cover n U S) <-> exists i, (i < n)%nat /\ tb S i = true /\ In x (U i).
Proof.
  unfold gn_cover. rewrite nodup_In, in_concat. split.
  - intros [l [Hl Hx]]. apply in_map_iff in Hl. destruct Hl as [i [<- Hi]]. apply gn_in_players in Hi.
    exists i. tauto.
  - intros [i [Hi [Ht Hx]]]. exists (U i). split; auto. apply in_map. apply gn_in_players. auto.
Qed.

Theorem gn_coverage_SAM n U : gn_SAM0 n (gn_coverage n U).
Proof.
  apply (gn_SubMono_neg n (fun S => gn_qnat (length (gn_cover n U S)))). split; [|split].
  - unfold gn_cover. rewrite gn_players_0. reflexivity.
  - intros A B _ _ _. rewrite <- gn_qnat_add, <- app_length. apply gn_qnat_le.
    apply NoDup_incl_length; [apply NoDup_nodup|].
    intros x Hx. apply gn_in_cover in Hx. destruct Hx as [i [Hi [Ht Hx]]]. rewrite tb_lor in Ht.
    apply in_or_app. apply orb_true_iff in Ht. destruct Ht as [Ht|Ht]; [left|right]; apply gn_in_cover; exists i; auto.
  - intros A B _ Hsub. rewrite sub_spec in Hsub. apply gn_qnat_le. apply NoDup_incl_length; [apply NoDup_nodup|].
    intros x Hx. apply gn_in_cover in Hx. destruct Hx as [i [Hi [Ht Hx]]]. apply gn_in_cover. exists i. auto.
Qed.

(* ================================================================ oxs: one min-convolution preserves the class *)
(* the per-cell loop: acc := min(c S, acc) from acc = a *)
Lemma gn_minfold_le_init {A} (c : A -> Q) l a : fold_left (fun acc S => Qmin (c S) acc) l a <= a.
Proof.
  revert a. induction l as [|x l IH]; intros a; simpl; [apply Qle_refl|].
  eapply Qle_trans; [apply IH| apply Q.le_min_r].
Qed.
Lemma gn_minfold_le_each {A} (c : A -> Q) l a x : In x l -> fold_left (fun acc S => Qmin (c S) acc) l a <= c x.
Proof.
  revert a. induction l as [|y l IH]; intros a Hin; simpl; [destruct Hin|].
  destruct Hin as [->|Hin]; [|apply IH; exact Hin].
  eapply Qle_trans; [apply gn_minfold_le_init| apply Q.le_min_l].
Qed.
Lemma gn_minfold_attained {A} (c : A -> Q) l a :
  fold_left (fun acc S => Qmin (c S) acc) l a == a \/ exists x, In x l /\ fold_left (fun acc S => Qmin (c S) acc) l a == c x.
Proof.
  revert a. induction l as [|y l IH]; intros a; simpl; [left; reflexivity|].
  destruct (IH (Qmin (c y) a)) as [E|[x [Hx E]]].
  - destruct (Q.min_spec (c y) a) as [[_ E2]|[_ E2]].
    + right. exists y. split; [left; reflexivity| rewrite E; exact E2].
    + left. rewrite E. exact E2.
  - right. exists x. split; [right; exact Hx| exact E].
Qed.

Lemma gn_in_cands n S U : bounded n U -> (In S (filter (fun S => sub S U) (alln n)) <-> sub S U = true).
Proof.
  intros HU. rewrite filter_In, in_alln. split; [tauto|]. intros H. split; auto. eapply bounded_sub; eauto.
Qed.

Lemma gn_apply_or_cell_nonpos n v1 v2 U : gn_apply_or_cell n v1 v2 U <= 0.
Proof. apply gn_minfold_le_init. Qed.
Lemma gn_apply_or_cell_le n v1 v2 U S :
  bounded n U -> sub S U = true -> gn_apply_or_cell n v1 v2 U <= v1 S + v2 (N.ldiff U S).
Proof.
  intros HU HS. unfold gn_apply_or_cell.
  apply (gn_minfold_le_each (fun S => v1 S + v2 (N.ldiff U S))). apply gn_in_cands; assumption.
Qed.
Lemma gn_apply_or_cell_attained n v1 v2 U :
  bounded n U ->
  gn_apply_or_cell n v1 v2 U == 0 \/
  exists S, sub S U = true /\ gn_apply_or_cell n v1 v2 U == v1 S + v2 (N.ldiff U S).
Proof.
  intros HU. unfold gn_apply_or_cell.
  destruct (gn_minfold_attained (fun S => v1 S + v2 (N.ldiff U S)) (filter (fun S => sub S U) (alln n)) 0) as [E|[S [HS E]]].
  - left. exact E.
  - right. exists S. split; [apply (gn_in_cands n S U HU); exact HS| exact E].
Qed.

(* bit-level set algebra *)
Ltac gn_bits :=
  apply bits_inj_nat; intro;
  repeat rewrite ?tb_land, ?tb_lor, ?tb_ldiff, ?tb_0.

Lemma gn_sub_0 S : sub S 0 = true -> S = 0%N.
Proof. intros H. apply sub_antisym; [exact H| apply sub_0_l]. Qed.

Theorem gn_apply_or_cell_SAM0 n v1 v2 :
  gn_SAM0 n v1 -> gn_SAM0 n v2 -> gn_SAM0 n (gn_apply_or_cell n v1 v2).
Proof.
  intros [Z1 [SA1 M1]] [Z2 [SA2 M2]]. split; [|split].
  - (* zero at the empty coalition *)
    apply Qle_antisym; [apply gn_apply_or_cell_nonpos|].
    destruct (gn_apply_or_cell_attained n v1 v2 0 (bounded_0 n)) as [E|[S [HS E]]]; rewrite E; [apply Qle_refl|].
    apply gn_sub_0 in HS. subst S. rewrite N.ldiff_0_l, Z1, Z2. lra.
  - (* superadditive: split the optimal decomposition of A u B along A and B *)
    intros A B HA HB Hd.
    pose proof (gn_apply_or_cell_nonpos n v1 v2 A) as NA. pose proof (gn_apply_or_cell_nonpos n v1 v2 B) as NB.
    destruct (gn_apply_or_cell_attained n v1 v2 (N.lor A B) (bounded_lor n A B HA HB)) as [E|[S [HS E]]]; rewrite E; [lra|].
    pose proof (gn_apply_or_cell_le n v1 v2 A (N.land S A) HA) as LA.
    pose proof (gn_apply_or_cell_le n v1 v2 B (N.land S B) HB) as LB.
    assert (sA : sub (N.land S A) A = true) by (apply sub_spec; intros i; rewrite tb_land; intro H; apply andb_true_iff in H; tauto).
    assert (sB : sub (N.land S B) B = true) by (apply sub_spec; intros i; rewrite tb_land; intro H; apply andb_true_iff in H; tauto).
    specialize (LA sA). specialize (LB sB).
    rewrite sub_spec in HS. rewrite disjb_spec in Hd.
    (* S = (S n A) u (S n B) *)
    assert (ES : N.lor (N.land S A) (N.land S B) = S).
    { gn_bits. specialize (HS i). specialize (Hd i). rewrite tb_lor in HS.
      destruct (tb S i); destruct (tb A i); destruct (tb B i); simpl in *; auto; try (specialize (HS eq_refl); discriminate). }
    (* (A u B) - S = (A - (S n A)) u (B - (S n B)) *)
    assert (ET : N.lor (N.ldiff A (N.land S A)) (N.ldiff B (N.land S B)) = N.ldiff (N.lor A B) S).
    { gn_bits. specialize (Hd i). destruct (tb S i); destruct (tb A i); destruct (tb B i); simpl in *; auto. }
    assert (D1 : disjb (N.land S A) (N.land S B) = true).
    { apply disjb_spec. intros i. rewrite !tb_land. specialize (Hd i). destruct (tb S i); destruct (tb A i); destruct (tb B i); simpl in *; auto. }
    assert (D2 : disjb (N.ldiff A (N.land S A)) (N.ldiff B (N.land S B)) = true).
    { apply disjb_spec. intros i. rewrite !tb_ldiff, !tb_land. specialize (Hd i).
      destruct (tb S i); destruct (tb A i); destruct (tb B i); simpl in *; auto. }
    assert (bSA : bounded n (N.land S A)) by (exact (bounded_sub n _ A HA sA)).
    assert (bSB : bounded n (N.land S B)) by (exact (bounded_sub n _ B HB sB)).
    pose proof (SA1 _ _ bSA bSB D1) as H1'. rewrite ES in H1'.
    pose proof (SA2 _ _ (bounded_ldiff n A (N.land S A) HA) (bounded_ldiff n B (N.land S B) HB) D2) as H2. rewrite ET in H2.
    lra.
  - (* monotone non-increasing *)
    intros A B HB Hsub.
    assert (HA : bounded n A) by (exact (bounded_sub n A B HB Hsub)).
    destruct (gn_apply_or_cell_attained n v1 v2 A HA) as [E|[S [HS E]]]; rewrite E; [apply gn_apply_or_cell_nonpos|].
    assert (HSB : sub S B = true) by (exact (sub_trans S A B HS Hsub)).
    pose proof (gn_apply_or_cell_le n v1 v2 B S HB HSB) as L.
    assert (Hs2 : sub (N.ldiff A S) (N.ldiff B S) = true).
    { rewrite sub_spec in Hsub. apply sub_spec. intros i. rewrite !tb_ldiff. intro H. apply andb_true_iff in H.
      destruct H as [H1 H2]. rewrite (Hsub _ H1), H2. reflexivity. }
    pose proof (M2 _ _ (bounded_ldiff n B S HB) Hs2). lra.
Qed.

(* ---- the loop of _apply_or computes, in every cell, the per-cell fold ---- *)
Lemma gn_upd_length t k x : length (gn_upd t k x) = length t.
Proof. revert k. induction t as [|y t IH]; intros [|k]; simpl; auto. Qed.
Lemma gn_upd_same t k x d : (k < length t)%nat -> nth k (gn_upd t k x) d = x.
Proof. revert k. induction t as [|y t IH]; intros [|k] H; simpl in *; try lia; auto. apply IH. lia. Qed.
Lemma gn_upd_other t k j x d : j <> k -> nth j (gn_upd t k x) d = nth j t d.
Proof. revert k j. induction t as [|y t IH]; intros [|k] [|j] H; simpl; auto; try congruence. Qed.

Lemma gn_minfold_ext {A} (c : A -> Q) l a a' :
  a == a' -> fold_left (fun acc S => Qmin (c S) acc) l a == fold_left (fun acc S => Qmin (c S) acc) l a'.
Proof.
  revert a a'. induction l as [|x l IH]; intros a a' E; simpl; [exact E|]. apply IH. rewrite E. reflexivity.
Qed.

Lemma gn_or_fold_cell t1 t2 P t U :
  (N.to_nat U < length t)%nat ->
  gn_get (fold_left (gn_apply_or_step t1 t2) P t) U ==
  fold_left (fun acc p => Qmin (gn_get t1 (fst p) + gn_get t2 (snd p)) acc)
            (filter (fun p => N.lor (fst p) (snd p) =? U)%N P) (gn_get t U).
Proof.
  revert t. induction P as [|p P IH]; intros t HU; simpl; [reflexivity|].
  rewrite IH by (unfold gn_apply_or_step; rewrite gn_upd_length; exact HU).
  destruct (N.eqb_spec (N.lor (fst p) (snd p)) U) as [E|E]; simpl.
  - apply gn_minfold_ext. unfold gn_apply_or_step. rewrite E. unfold gn_get at 1.
    rewrite gn_upd_same by exact HU. apply Qred_correct.
  - apply gn_minfold_ext. unfold gn_apply_or_step, gn_get at 1. rewrite gn_upd_other; [reflexivity|].
    intro H. apply E. apply N2Nat.inj. symmetry. exact H.
Qed.

Lemma gn_filter_flat_map {A B} (q : B -> bool) (f : A -> list B) l :
  filter q (flat_map f l) = flat_map (fun x => filter q (f x)) l.
Proof. induction l as [|x l IH]; simpl; [reflexivity|]. rewrite filter_app, IH. reflexivity. Qed.
Lemma gn_filter_map {A B} (q : B -> bool) (g : A -> B) l : filter q (map g l) = map g (filter (fun x => q (g x)) l).
Proof. induction l as [|x l IH]; simpl; [reflexivity|]. destruct (q (g x)); simpl; rewrite IH; reflexivity. Qed.
Lemma gn_filter_filter {A} (p q : A -> bool) l : filter q (filter p l) = filter (fun x => p x && q x) l.
Proof. induction l as [|x l IH]; simpl; [reflexivity|]. destruct (p x); simpl; [destruct (q x)|]; rewrite IH; reflexivity. Qed.
Lemma gn_filter_none {A} (p : A -> bool) l : (forall x, In x l -> p x = false) -> filter p l = [].
Proof.
  induction l as [|x l IH]; intros H; simpl; [reflexivity|]. rewrite (H x (or_introl eq_refl)). apply IH.
  intros y Hy. apply H. right. exact Hy.
Qed.
Lemma gn_filter_single {A} (p : A -> bool) l a :
  NoDup l -> In a l -> (forall x, In x l -> (p x = true <-> x = a)) -> filter p l = [a].
Proof.
  induction l as [|x l IH]; intros Hnd Hin Hp; [destruct Hin|]. inversion Hnd as [|? ? Hx Hnd']; subst. simpl.
  destruct Hin as [->|Hin].
  - rewrite (proj2 (Hp a (or_introl eq_refl)) eq_refl). f_equal. apply gn_filter_none. intros y Hy.
    destruct (p y) eqn:E; [|reflexivity]. apply (Hp y (or_intror Hy)) in E. subst. contradiction.
  - destruct (p x) eqn:E.
    + apply (Hp x (or_introl eq_refl)) in E. subst. contradiction.
    + apply IH; auto. intros y Hy. apply Hp. right. exact Hy.
Qed.
Lemma gn_fold_left_map {A B C} (f : A -> B -> A) (g : C -> B) l a :
  fold_left f (map g l) a = fold_left (fun acc x => f acc (g x)) l a.
Proof. revert a. induction l as [|x l IH]; intros a; simpl; [reflexivity|]. apply IH. Qed.

(* the partners T of S with S n T = 0 and S u T = U: exactly U - S when S is inside U, none otherwise *)
Lemma gn_partner n S U :
  bounded n U ->
  filter (fun T => disjb S T && (N.lor S T =? U)%N) (alln n) = if sub S U then [N.ldiff U S] else [].
Proof.
  intros HU. destruct (sub S U) eqn:Hs.
  - apply gn_filter_single; [apply NoDup_alln| apply in_alln; apply bounded_ldiff; exact HU|].
    intros T _. rewrite andb_true_iff, N.eqb_eq, disjb_spec. rewrite sub_spec in Hs. split.
    + intros [Hd E]. subst U. gn_bits. specialize (Hd i). destruct (tb S i); destruct (tb T i); simpl; auto;
        try (specialize (Hd eq_refl); discriminate).
    + intros ->. split.
      * intros i Hi. rewrite tb_ldiff, Hi. apply andb_false_r.
      * gn_bits. specialize (Hs i). destruct (tb S i); destruct (tb U i); simpl; auto; try (specialize (Hs eq_refl); discriminate).
  - apply gn_filter_none. intros T _. apply andb_false_iff. right. apply N.eqb_neq. intro E. subst U.
    rewrite sub_lor_l in Hs. discriminate.
Qed.

Lemma gn_or_pairs_cell n U :
  bounded n U ->
  filter (fun p => N.lor (fst p) (snd p) =? U)%N (gn_or_pairs n) =
  map (fun S => (S, N.ldiff U S)) (filter (fun S => sub S U) (alln n)).
Proof.
  intros HU. unfold gn_or_pairs. rewrite gn_filter_flat_map.
  assert (G : forall l,
    flat_map (fun x => filter (fun p => N.lor (fst p) (snd p) =? U)%N (map (pair x) (filter (fun T => disjb x T) (alln n)))) l =
    map (fun S => (S, N.ldiff U S)) (filter (fun S => sub S U) l)).
  { induction l as [|S l IH]; simpl; [reflexivity|].
    rewrite IH. rewrite gn_filter_map, gn_filter_filter. cbn [fst snd]. rewrite (gn_partner n S U HU).
    destruct (sub S U); reflexivity. }
  apply G.
Qed.

Lemma gn_apply_or_length n t1 t2 : length (gn_apply_or n t1 t2) = (2 ^ n)%nat.
Proof.
  unfold gn_apply_or. generalize (gn_or_pairs n). intros P.
  assert (H : forall t, length (fold_left (gn_apply_or_step t1 t2) P t) = length t).
  { induction P as [|p P IH]; intros t; simpl; [reflexivity|]. rewrite IH. unfold gn_apply_or_step. apply gn_upd_length. }
  rewrite H. apply gn_table_length.
Qed.

Theorem gn_apply_or_get n t1 t2 U :
  bounded n U -> gn_get (gn_apply_or n t1 t2) U == gn_apply_or_cell n (gn_get t1) (gn_get t2) U.
Proof.
  intros HU. unfold gn_apply_or.
  rewrite gn_or_fold_cell by (rewrite gn_table_length; apply gn_bounded_to_nat; exact HU).
  rewrite (gn_or_pairs_cell n U HU), gn_fold_left_map. cbn [fst snd].
  rewrite gn_get_table by exact HU. reflexivity.
Qed.

Lemma gn_apply_or_SAM0 n t1 t2 :
  gn_SAM0 n (gn_get t1) -> gn_SAM0 n (gn_get t2) -> gn_SAM0 n (gn_get (gn_apply_or n t1 t2)).
Proof.
  intros H1 H2. eapply gn_SAM0_ext; [|apply (gn_apply_or_cell_SAM0 n _ _ H1 H2)].
  intros S HS. apply gn_apply_or_get. exact HS.
Qed.

Lemma gn_fold_apply_or n l t0 :
  gn_SAM0 n (gn_get t0) -> length t0 = (2 ^ n)%nat -> (forall t, In t l -> gn_SAM0 n (gn_get t)) ->
  gn_SAM0 n (gn_get (fold_left (gn_apply_or n) l t0)) /\ length (fold_left (gn_apply_or n) l t0) = (2 ^ n)%nat.
Proof.
  revert t0. induction l as [|t l IH]; intros t0 H0 L0 Hall; simpl; [split; assumption|].
  apply IH.
  - apply gn_apply_or_SAM0; [exact H0| apply Hall; left; reflexivity].
  - apply gn_apply_or_length.
  - intros t' Ht'. apply Hall. right. exact Ht'.
Qed.

Lemma gn_get_map (phi : Q -> Q) t S : (N.to_nat S < length t)%nat -> gn_get (map phi t) S = phi (gn_get t S).
Proof.
  intros H. unfold gn_get. rewrite (nth_indep _ 0 (phi 0)) by (rewrite map_length; exact H). apply map_nth.
Qed.

(* the non-routine family: for every list of XS functions (no hypothesis on the singleton values) *)
Theorem gn_oxs_SAM n (ss : list (nat -> Q)) normalize t :
  gn_oxs n ss normalize = Some t -> gn_SAM0 n (gn_get t) /\ length t = (2 ^ n)%nat.
Proof.
  unfold gn_oxs. set (F := fun s => gn_table n (gn_xs n s)).
  assert (HF : forall x, In x (rev (map F ss)) -> gn_SAM0 n (gn_get x) /\ length x = (2 ^ n)%nat).
  { intros x Hx. apply in_rev in Hx. apply in_map_iff in Hx. destruct Hx as [s [<- _]]. split; [|apply gn_table_length].
    eapply gn_SAM0_ext; [|apply (gn_xs_SAM n s)]. intros S HS. unfold F. rewrite gn_get_table by exact HS. reflexivity. }
  destruct (rev (map F ss)) as [|last others_rev] eqn:E; [discriminate|].
  destruct (HF last (or_introl eq_refl)) as [Hl Ll].
  destruct (gn_fold_apply_or n (rev others_rev) last Hl Ll) as [Hc Lc].
  { intros x Hx. apply in_rev in Hx. apply HF. right. exact Hx. }
  set (tt := fold_left (gn_apply_or n) (rev others_rev) last) in *.
  destruct normalize.
  - destruct (Qeq_bool (gn_get tt (grand n)) 0) eqn:Eg; [discriminate|]. intros H. injection H as <-.
    split; [|rewrite map_length; exact Lc].
    assert (Hneg : 0 < - gn_get tt (grand n)).
    { pose proof (gn_SAM0_nonpos n _ (grand n) Hc (bounded_grand n)).
      assert (~ gn_get tt (grand n) == 0) by (intro Hz; apply Qeq_bool_iff in Hz; congruence).
      destruct (Qlt_le_dec (gn_get tt (grand n)) 0); [lra| exfalso; apply H0; lra]. }
    eapply gn_SAM0_ext; [|apply (gn_SAM0_div n _ _ Hneg Hc)].
    intros S HS. cbv beta. rewrite gn_get_map by (rewrite Lc; apply gn_bounded_to_nat; exact HS).
    field. intro Hz. rewrite Hz in Hneg. lra.
  - intros H. injection H as <-. split; assumption.
Qed.

(* ================================================================ one run of a registry entry *)
(* what the property asks of the returned table *)
Definition gn_class_ok (f : gn_family) (n : nat) (t : list Q) : Prop :=
  length t = (2 ^ n)%nat /\ gn_get t 0%N == 0 /\ gn_SA n (gn_get t) /\ (gn_mono_family f = true -> gn_Mono n (gn_get t)).

Lemma gn_SA_ext n v v' : (forall S, bounded n S -> v' S == v S) -> gn_SA n v -> gn_SA n v'.
Proof.
  intros E Hs A B HA HB Hd. rewrite (E A HA), (E B HB), (E _ (bounded_lor n A B HA HB)). apply Hs; assumption.
Qed.

Lemma gn_class_of_SA f n v : gn_mono_family f = false -> v 0%N == 0 -> gn_SA n v -> gn_class_ok f n (gn_table n v).
Proof.
  intros Hf H0 Hs. split; [apply gn_table_length|]. split; [rewrite gn_get_table by apply bounded_0; exact H0|]. split.
  - eapply gn_SA_ext; [|exact Hs]. intros S HS. rewrite gn_get_table by exact HS. reflexivity.
  - rewrite Hf. discriminate.
Qed.
Lemma gn_class_of_SAM0_get f n t : length t = (2 ^ n)%nat -> gn_SAM0 n (gn_get t) -> gn_class_ok f n t.
Proof. intros L [H0 [Hs Hm]]. split; [exact L|]. split; [exact H0|]. split; [exact Hs| intros _; exact Hm]. Qed.
Lemma gn_class_of_SAM0 f n v : gn_SAM0 n v -> gn_class_ok f n (gn_table n v).
Proof.
  intros H. apply gn_class_of_SAM0_get; [apply gn_table_length|].
  eapply gn_SAM0_ext; [|exact H]. intros S HS. rewrite gn_get_table by exact HS. reflexivity.
Qed.

Lemma gn_nonneg_list_spec l : gn_nonneg_list l = true -> forall x, In x l -> 0 <= x.
Proof. unfold gn_nonneg_list. rewrite forallb_forall. intros H x Hx. apply Qle_bool_iff. apply H. exact Hx. Qed.
Lemma gn_wfun_nonneg l : gn_nonneg_list l = true -> forall i, 0 <= gn_wfun l i.
Proof.
  intros H i. unfold gn_wfun. destruct (Nat.lt_ge_cases i (length l)) as [Hi|Hi].
  - apply (gn_nonneg_list_spec l H). apply nth_In. exact Hi.
  - rewrite nth_overflow by exact Hi. apply Qle_refl.
Qed.
Lemma gn_matrix_nonneg M : forallb gn_nonneg_list M = true -> forall i j, 0 <= gn_matrix M i j.
Proof.
  intros H i j. unfold gn_matrix. rewrite forallb_forall in H.
  destruct (Nat.lt_ge_cases i (length M)) as [Hi|Hi].
  - apply (gn_wfun_nonneg (nth i M [])). apply H. apply nth_In. exact Hi.
  - rewrite (nth_overflow M) by exact Hi. destruct j; apply Qle_refl.
Qed.

Lemma gn_opt_table_some n o t : gn_opt_table n o = Some t -> exists v, o = Some v /\ t = gn_table n v.
Proof. destruct o as [v|]; simpl; [|discriminate]. intros H. injection H as <-. exists v. auto. Qed.

Lemma gn_cheerleader_py_class f n owner cheer t :
  gn_mono_family f = false -> gn_opt_table n (gn_cheerleader_py n owner cheer) = Some t -> gn_class_ok f n t.
Proof.
  intros Hf H. apply gn_opt_table_some in H. destruct H as [v [Hv ->]].
  destruct cheer as [c|c]; [|discriminate]. simpl in Hv. injection Hv as <-.
  apply gn_class_of_SA; [exact Hf| rewrite gn_cheerleader_empty; reflexivity| apply gn_cheerleader_SA].
Qed.

(* Main theorem of the model: whatever the registry entry, the player count and the recorded draws (in the supports
   the harness checks: weights / matrix entries >= 0), a run that returns a table returns a game of the class. *)
Theorem gn_run_sound f n d t : gn_draws_okb d = true -> gn_run f n d = Some t -> gn_class_ok f n t.
Proof.
  intros Hd H. destruct f, d; simpl in H; try discriminate;
    try (destruct num_unit_demand; discriminate).
  - (* factory *)
    destruct (_ && _); [|discriminate]. injection H as <-. apply gn_class_of_SA; [reflexivity| rewrite gn_factory_empty; reflexivity|].
    apply gn_factory_SA; [|apply gn_valfn_mono].
    intros i _. apply gn_factory_weights_nonneg. apply gn_nonneg_list_spec. exact Hd.
  - (* predictible factory *)
    destruct (n =? 0)%nat; [discriminate|]. injection H as <-.
    apply gn_class_of_SA; [reflexivity| rewrite gn_factory_empty; reflexivity|].
    apply gn_factory_SA; [|apply gn_vid_mono]. intros i _. apply gn_factory_weights_nonneg. intros x [].
  - (* cheerleader *)
    destruct (_ && _); [|discriminate]. eapply gn_cheerleader_py_class; [reflexivity| exact H].
  - (* cheerleader next *)
    destruct (_ && _); [|discriminate].
    apply (gn_cheerleader_py_class FCheerNext n owner (PyInt ((owner + 1) mod n))); [reflexivity| exact H].
  - (* graph *)
    destruct (gn_square n M); [|discriminate]. injection H as <-.
    apply gn_class_of_SA; [reflexivity| rewrite gn_graph_empty; reflexivity|].
    apply gn_graph_SA. apply gn_polish_nonneg. intros i j _. apply gn_matrix_nonneg. exact Hd.
  - (* cycle *)
    destruct (length perm =? n)%nat; [|discriminate]. injection H as <-.
    apply gn_class_of_SA; [reflexivity| rewrite gn_graph_empty; reflexivity|].
    apply gn_graph_SA. apply gn_polish_nonneg. intros i j _. apply gn_cycle_matrix_nonneg.
  - (* xos *)
    destruct (_ && _); [|discriminate]. apply gn_opt_table_some in H. destruct H as [v [Hv ->]].
    apply gn_class_of_SAM0. eapply gn_xos_SAM; [|exact Hv].
    intros w Hw i _. apply in_map_iff in Hw. destruct Hw as [l [<- Hl]]. apply gn_wfun_nonneg.
    simpl in Hd. rewrite forallb_forall in Hd. apply Hd. exact Hl.
  - (* xs, singletons drawn directly *)
    destruct num_unit_demand; [|discriminate]. destruct ws as [|s [|? ?]]; try discriminate.
    destruct (length s =? n)%nat; [|discriminate]. injection H as <-. apply gn_class_of_SAM0. apply gn_xs_SAM.
  - (* xs, unit-demand picks *)
    destruct num_unit_demand; [discriminate|]. destruct (_ && _); [|discriminate]. injection H as <-.
    apply gn_class_of_SAM0. apply gn_xs_SAM.
  - (* oxs *)
    destruct (_ && _); [|discriminate]. apply gn_oxs_SAM in H. destruct H as [Hs L]. apply gn_class_of_SAM0_get; assumption.
  - (* k-budget *)
    injection H as <-. apply gn_class_of_SAM0. apply gn_kbudget_SAM.
  - (* coverage *)
    destruct (_ && _); [|discriminate]. injection H as <-. apply gn_class_of_SAM0. apply gn_coverage_SAM.
Qed.

(* the executable class checks of the driver mean what they say *)
Lemma gn_sa_b_spec n t : gn_sa_b n t = true <-> gn_SA n (gn_get t).
Proof.
  unfold gn_sa_b, gn_SA. rewrite forallb_forall. split.
  - intros H A B HA HB Hd. apply in_alln in HA. apply in_alln in HB. specialize (H A HA). rewrite forallb_forall in H.
    specialize (H B HB). rewrite Hd in H. apply Qle_bool_iff. exact H.
  - intros H A HA. apply forallb_forall. intros B HB. apply in_alln in HA. apply in_alln in HB.
    destruct (disjb A B) eqn:Hd; [|reflexivity]. apply Qle_bool_iff. apply H; assumption.
Qed.
Lemma gn_mono_b_spec n t : gn_mono_b n t = true <-> gn_Mono n (gn_get t).
Proof.
  unfold gn_mono_b, gn_Mono. rewrite forallb_forall. split.
  - intros H A B HB Hs. pose proof (bounded_sub n A B HB Hs) as HA. apply in_alln in HA. apply in_alln in HB.
    specialize (H B HB). rewrite forallb_forall in H. specialize (H A HA). rewrite Hs in H. apply Qle_bool_iff. exact H.
  - intros H B HB. apply forallb_forall. intros A HA. apply in_alln in HB.
    destruct (sub A B) eqn:Hs; [|reflexivity]. apply Qle_bool_iff. apply H; assumption.
Qed.

(* ================================================================ why the static parameters must be admissible *)
(* number_of_additive = 0 (np.max over nothing), number_of_xs = 0 (pop from an empty list), universum_mult = 0
   (choice over an empty population): the run fails whatever is drawn - gn_family_okb excludes these entries *)
Lemma gn_run_xos0 a b n d : gn_run (FXos 0 a b) n d = None.
Proof.
  destruct d; try reflexivity. simpl. destruct ws as [|w ws]; simpl; [|reflexivity]. reflexivity.
Qed.
Lemma gn_run_oxs0 a n d : gn_run (FOxs 0 a) n d = None.
Proof.
  destruct d; try reflexivity. simpl. destruct ws as [|w ws]; simpl; reflexivity.
Qed.
Lemma gn_run_coverage0 n d : (1 <= n)%nat -> gn_run (FCoverage 0) n d = None.
Proof.
  intros Hn. destruct d; try reflexivity. simpl.
  destruct (length sets =? n)%nat eqn:E; [|reflexivity]. simpl.
  destruct sets as [|U sets]; [apply Nat.eqb_eq in E; simpl in E; lia|]. simpl.
  destruct U as [|x U]; simpl; [reflexivity|]. reflexivity.
Qed.

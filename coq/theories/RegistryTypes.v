(* RegistryTypes: the vocabulary of the GENERATED file gen/Registry.v.
   harness/registry_dump.py imports the four registries of the repository under test
   (generators.GENERATORS, bounds.BOUNDS, run.model.GAP_FUNCTIONS, solvers.SOLVERS) on every run and
   writes, for each key, the underlying function and its static keyword arguments (functools.partial
   unwrapped) as one constructor application of the types below.  Anything the dumper does not
   recognise (function, keyword, argument type) becomes the `...Unknown "name"` constructor, on which
   the hand-written theorems of gen/RegistryProps.v fail: fail-closed. *)
From Coq Require Import QArith String List.

(* ---------- generators ---------- *)
(* factory_generator(value_fn=...): lambda x: x | _fac_sq_fn | _fac_one_fn | math.exp *)
Inductive rg_valfn := VId | VSq | VOne | VExp.

(* graph_generator(dist_fn=...): the module-level numpy Generator `_gen` of generators.py *)
Inductive rg_dist :=
| DRandom                                  (* default: lambda x: _gen.random(x) *)
| DTriangular (left mode right : Q)        (* partial(_gen.triangular, left, mode, right) *)
| DBeta (a b : Q)                          (* partial(_gen.beta, a, b) *)
| DPoisson (lam : Q).                      (* partial(_gen.poisson, lam) *)

(* graph_gen_to_game(graph_gen=...): networkx random graphs *)
Inductive rg_nx :=
| NxGnp (p : Q)                            (* partial(gnp_random_graph, p=p) *)
| NxWattsStrogatz (k : nat) (p : Q)        (* partial(connected_watts_strogatz_graph, k=k, p=p) *)
| NxInternet                               (* random_internet_as_graph *)
| NxGeometric (radius : Q)                 (* partial(random_geometric_graph, radius=radius) *)
| NxGeoThreshold (theta : Q).              (* partial(geographical_threshold_graph, theta=theta) *)

Inductive rg_generator :=
| GFactory (value_fn : rg_valfn) (random_weights : bool) (owner : option nat)   (* factory_generator *)
| GPredictibleFactory                                                          (* predictible_factory_generator *)
| GCheerleader (owner cheerleader : option nat)                                (* factory_cheerleader_generator *)
| GCheerleaderNext                                                             (* factory_cheerleader_next_generator *)
| GGraphDist (dist_fn : rg_dist)                                               (* graph_generator *)
| GGraphNx (graph_gen : rg_nx)                                                 (* graph_gen_to_game *)
| GCycle                                                                       (* cycle *)
| GXos (number_of_additive : nat) (normalize normalize_additive : bool)        (* xos (additive_gen = additive) *)
| GXosNoRandom (number_of_additive : nat) (normalize normalize_additive : bool)(* xos_norandom: xos with default_rng(42) *)
| GXs (num_unit_demand : nat)                                                  (* xs *)
| GOxs (number_of_xs : nat) (normalize : bool)                                 (* oxs *)
| GKBudget                                                                     (* k_budget_generator *)
| GCoverage (universum_mult : nat)                                             (* covg_fn_generator (its `normalize` is unused) *)
| GExternal (name : string)                                                    (* convex_generator: needs pyfmtools, absent *)
| GUnknown (name : string).

(* ---------- bound computers ---------- *)
Inductive rg_bounds :=
| BSuperadditive | BSuperadditiveCached
| BSam (repetitions : nat)                 (* partial(compute_bounds_superadditive_monotone_approx_cached, repetitions=r) *)
| BUnknown (name : string).

(* ---------- gap functions ---------- *)
Inductive rg_gap := GapExploitability | GapL1 | GapL2 | GapLinf | GapUnknown (name : string).

(* ---------- solvers ---------- *)
Inductive rg_solver := SGreedy (worst : bool) | SRandom | SLargest | SUnknown (name : string).

(* SATight: the computed bounds are the extreme values over all superadditive completions (C02),
   and knowledge monotonicity of the bounds (C07, superadditive case).  Function level. *)
From ICG Require Import Prelude Bits Table Bounds FoldLemmas BoundsSpec SASound.

(* a solution of the bound equations for knowledge (K, v) *)
Record sa_sol (n : nat) (K : N -> bool) (v l u : N -> Q) : Prop := {
  sol_kl : forall s, bounded n s -> K s = true -> l s == v s;
  sol_ku : forall s, bounded n s -> K s = true -> u s == v s;
  sol_lo : forall s, bounded n s -> K s = false -> l s == lowerF n l s;
  sol_hi : forall s, bounded n s -> K s = false -> u s == upperF n K l s
}.

(* a superadditive game that agrees with the known values *)
Definition Completion (n : nat) (K : N -> bool) (v w : N -> Q) : Prop :=
  SA n w /\ w 0%N == 0 /\ forall s, bounded n s -> K s = true -> w s == v s.

Section Tight.
  Variable n : nat.
  Variable K : N -> bool.
  Variable v l u : N -> Q.
  Hypothesis HSA : SA n v.
  Hypothesis Hv0 : v 0%N == 0.
  Hypothesis HM : MinK n K.
  Hypothesis Hsol : sa_sol n K v l u.

  Let Hkl := sol_kl _ _ _ _ _ Hsol.
  Let Hlo := sol_lo _ _ _ _ _ Hsol.
  Let Hhi := sol_hi _ _ _ _ _ Hsol.

  Lemma l_sound : forall s, bounded n s -> l s <= v s.
  Proof. apply (lower_sound n K v l HSA HM Hkl Hlo). Qed.

  Lemma l_zero : l 0%N == 0.
  Proof. destruct HM as [H0 _]. rewrite (Hkl 0%N (bounded_0 n) H0). exact Hv0. Qed.

  (* every completion lies between the bounds *)
  Theorem completion_between w : Completion n K v w ->
    forall s, bounded n s -> l s <= w s /\ w s <= u s.
  Proof.
    intros [HSAw [_ Hag]] s Hb.
    assert (Hkl' : forall a, bounded n a -> K a = true -> l a == w a).
    { intros a Ha Hk. rewrite (Hkl a Ha Hk), (Hag a Ha Hk). reflexivity. }
    split.
    - apply (lower_sound n K w l HSAw HM Hkl' Hlo). exact Hb.
    - destruct (K s) eqn:Hk.
      + rewrite (sol_ku _ _ _ _ _ Hsol s Hb Hk), (Hag s Hb Hk). apply Qle_refl.
      + apply (upper_sound n K w l u HSAw HM Hkl' Hlo Hhi s Hb Hk).
  Qed.

  (* the lower bounds themselves form a superadditive game *)
  Theorem l_superadditive : SA n l.
  Proof.
    intros a b Ha Hb Hd.
    destruct (N.eq_dec a 0) as [->|Hane].
    { rewrite N.lor_0_l. rewrite l_zero. lra. }
    destruct (N.eq_dec b 0) as [->|Hbne].
    { rewrite N.lor_0_r. rewrite l_zero. lra. }
    set (s := N.lor a b).
    assert (Hbs : bounded n s) by (apply bounded_lor; assumption).
    destruct (K s) eqn:Hk.
    - rewrite (Hkl s Hbs Hk). pose proof (l_sound a Ha). pose proof (l_sound b Hb).
      pose proof (HSA a b Ha Hb Hd). fold s in H1. lra.
    - rewrite (Hlo s Hbs Hk). unfold lowerF.
      assert (Hin : In a (splits n s)).
      { apply in_splits. split; [exact Ha|]. split; [|exact Hane].
        apply ssub_spec. split; [apply sub_spec; apply sub_lor_l|]. apply disj_lor_ne; assumption. }
      assert (E : N.lxor s a = b).
      { rewrite (lxor_ldiff a s (sub_lor_l a b)). apply ldiff_lor_disj. exact Hd. }
      eapply Qle_trans; [| apply qmaxl_ge; apply in_map; exact Hin]. rewrite E. apply Qle_refl.
  Qed.

  (* hence the lower bound is the minimum over all completions, attained by the lower bounds themselves *)
  Theorem lower_is_completion : Completion n K v l.
  Proof. split; [apply l_superadditive|]. split; [apply l_zero| exact Hkl]. Qed.

  (* explicit formulas *)
  Theorem upper_formula s : bounded n s -> K s = false ->
    u s == qminl (map (fun T => v T - l (N.ldiff T s)) (filter K (supers n s))).
  Proof.
    intros Hb Hk. rewrite (Hhi s Hb Hk). unfold upperF. apply qminl_map_Qeq.
    intros T HT. apply filter_In in HT. destruct HT as [HT HkT].
    destruct (in_supers_facts n s T Hb HT) as [HbT [_ [E _]]]. rewrite E, (Hkl T HbT HkT). reflexivity.
  Qed.

  Theorem upper_caps s T : bounded n s -> K s = false -> bounded n T -> K T = true -> ssub s T = true ->
    u s <= v T - l (N.ldiff T s).
  Proof.
    intros Hb Hk HbT HkT Hss. rewrite (upper_formula s Hb Hk).
    apply qminl_le. apply in_map_iff. exists T. split; [reflexivity|].
    apply filter_In. split; [apply in_supers; auto| exact HkT].
  Qed.
End Tight.

(* ------------------------------------------------------------------ *)
(* more knowledge never hurts (C07, superadditive computers)            *)
(* ------------------------------------------------------------------ *)
Section Mono.
  Variable n : nat.
  Variable K K' : N -> bool.
  Variable v l u l' u' : N -> Q.
  Hypothesis HSA : SA n v.
  Hypothesis HM : MinK n K.
  Hypothesis Hinc : forall s, K s = true -> K' s = true.
  Hypothesis Hsol : sa_sol n K v l u.
  Hypothesis Hsol' : sa_sol n K' v l' u'.

  Lemma MinK_mono : MinK n K'.
  Proof. destruct HM as [A [B C]]. split; [|split]; auto. Qed.

  Theorem lower_mono : forall s, bounded n s -> l s <= l' s.
  Proof.
    intros s. remember (size n s) as m eqn:Hm. revert s Hm.
    induction m as [m IH] using lt_wf_ind. intros s Hm Hb.
    destruct (K' s) eqn:Hk'.
    - rewrite (sol_kl _ _ _ _ _ Hsol' s Hb Hk').
      apply (lower_sound n K v l HSA HM (sol_kl _ _ _ _ _ Hsol) (sol_lo _ _ _ _ _ Hsol)). exact Hb.
    - assert (Hk : K s = false).
      { destruct (K s) eqn:E; auto. apply Hinc in E. congruence. }
      rewrite (sol_lo _ _ _ _ _ Hsol s Hb Hk), (sol_lo _ _ _ _ _ Hsol' s Hb Hk'). unfold lowerF.
      apply qmaxl_lub.
      + apply map_neq_nil. eapply MinK_splits_nonempty; eauto.
      + intros x Hx. apply in_map_iff in Hx. destruct Hx as [a [<- Ha]].
        destruct (in_splits_size n a s Hb Ha) as [S1 [S2 [B1 [B2 _]]]].
        assert (H1 : l a <= l' a) by (eapply IH; [|reflexivity|exact B1]; lia).
        assert (H2 : l (N.lxor s a) <= l' (N.lxor s a)) by (eapply IH; [|reflexivity|exact B2]; lia).
        eapply Qle_trans; [| apply qmaxl_ge; apply in_map; exact Ha]. lra.
  Qed.

  Theorem upper_mono : forall s, bounded n s -> u' s <= u s.
  Proof.
    intros s Hb. pose proof MinK_mono as HM'.
    destruct (K' s) eqn:Hk'.
    - rewrite (sol_ku _ _ _ _ _ Hsol' s Hb Hk').
      destruct (K s) eqn:Hk.
      + rewrite (sol_ku _ _ _ _ _ Hsol s Hb Hk). apply Qle_refl.
      + apply (upper_sound n K v l u HSA HM (sol_kl _ _ _ _ _ Hsol) (sol_lo _ _ _ _ _ Hsol) (sol_hi _ _ _ _ _ Hsol) s Hb Hk).
    - assert (Hk : K s = false).
      { destruct (K s) eqn:E; auto. apply Hinc in E. congruence. }
      rewrite (sol_hi _ _ _ _ _ Hsol s Hb Hk). unfold upperF. apply qminl_glb.
      + apply map_neq_nil. destruct HM as [_ [Hg _]]. apply known_supers_nonempty; auto.
      + intros x Hx. apply in_map_iff in Hx. destruct Hx as [T [<- HT]].
        apply filter_In in HT. destruct HT as [HT HkT].
        destruct (in_supers_facts n s T Hb HT) as [HbT [_ [E [Hbd _]]]].
        rewrite (sol_hi _ _ _ _ _ Hsol' s Hb Hk'). unfold upperF.
        eapply Qle_trans; [apply qminl_le; apply in_map; apply filter_In; split; [exact HT| apply Hinc; exact HkT]|].
        cbv beta. rewrite E.
        rewrite (sol_kl _ _ _ _ _ Hsol T HbT HkT), (sol_kl _ _ _ _ _ Hsol' T HbT (Hinc T HkT)).
        pose proof (lower_mono (N.ldiff T s) Hbd). lra.
  Qed.
End Mono.

(* ---------------- table level ---------------- *)
Lemma sa_sol_of_run n K v t t' :
  agrees n t K v -> compute_sa_cached n t = Some t' -> sa_sol n K v (L t') (U t').
Proof.
  intros Hag Hc. unfold compute_sa_cached in Hc. destruct (cached_ok n t); [|discriminate]. injection Hc as <-.
  pose proof (sa_cached_run_post n t) as P. set (t' := sa_cached_run n t) in *.
  assert (HKeq : forall a, bounded n a -> Kn t a = K a) by (intros a Ha; apply (Hag a Ha)).
  assert (Hfr : forall a, bounded n a -> K a = true -> get t' a = get t a).
  { intros a Ha Hk. apply (post_frame _ _ _ P). rewrite (HKeq a Ha), Hk. intros [_ ?]; discriminate. }
  constructor.
  - intros a Ha Hk. unfold L. rewrite (Hfr a Ha Hk). apply (Hag a Ha). exact Hk.
  - intros a Ha Hk. unfold U. rewrite (Hfr a Ha Hk). apply (Hag a Ha). exact Hk.
  - intros a Ha Hk. rewrite (post_lo _ _ _ P a Ha) at 1 by (rewrite HKeq; auto). apply Qred_correct.
  - intros a Ha Hk. rewrite (post_hi _ _ _ P a Ha) by (rewrite HKeq; auto). rewrite Qred_correct.
    unfold upperF. rewrite (filter_ext_in' (Kn t) K); [reflexivity|].
    intros T HT. apply in_supers in HT. apply HKeq. tauto.
Qed.

From ICG Require Import SAEquiv.

Lemma sa_sol_of_compute (c : computer) n K v t t' :
  (c = CRef \/ c = CCached) -> MinK n K -> agrees n t K v -> compute c n t = Some t' ->
  sa_sol n K v (L t') (U t').
Proof.
  intros [->| ->] HM Hag Hc; simpl in Hc.
  - assert (Hok : compute_sa_cached n t = Some (sa_cached_run n t)).
    { unfold compute_sa_cached. rewrite (cached_ok_of_MinK n t K v HM Hag). reflexivity. }
    pose proof (sa_cached_eq_ref n t t' _ (agrees_wfq n t K v Hag) Hc Hok) as Heq.
    pose proof (sa_sol_of_run n K v t _ Hag Hok) as S.
    assert (EL : forall s, L t' s = L (sa_cached_run n t) s) by (intros s; unfold L; rewrite (Heq s); reflexivity).
    assert (EU : forall s, U t' s = U (sa_cached_run n t) s) by (intros s; unfold U; rewrite (Heq s); reflexivity).
    destruct S as [S1 S2 S3 S4]. constructor.
    + intros s Hb Hk. rewrite EL. auto.
    + intros s Hb Hk. rewrite EU. auto.
    + intros s Hb Hk. rewrite EL, (S3 s Hb Hk). unfold lowerF. apply qmaxl_map_Qeq. intros a _. rewrite !EL. reflexivity.
    + intros s Hb Hk. rewrite EU, (S4 s Hb Hk). unfold upperF. apply qminl_map_Qeq. intros a _. rewrite !EL. reflexivity.
  - eapply sa_sol_of_run; eauto.
Qed.

(* C02 at table level *)
Theorem sa_tight (c : computer) n K v t t' :
  (c = CRef \/ c = CCached) -> SA n v -> v 0%N == 0 -> MinK n K -> agrees n t K v -> compute c n t = Some t' ->
  (forall w, Completion n K v w -> forall s, bounded n s -> L t' s <= w s /\ w s <= U t' s)
  /\ Completion n K v (L t')
  /\ (forall s, bounded n s -> K s = false ->
        U t' s == qminl (map (fun T => v T - L t' (N.ldiff T s)) (filter K (supers n s)))).
Proof.
  intros Hc HSA Hv0 HM Hag Hcomp.
  pose proof (sa_sol_of_compute c n K v t t' Hc HM Hag Hcomp) as S.
  split; [intros w Hw; apply (completion_between n K v _ _ HM S w Hw)|].
  split; [apply (lower_is_completion n K v _ _ HSA Hv0 HM S)|].
  intros s Hb Hk. apply (upper_formula n K v _ _ S s Hb Hk).
Qed.

(* C07 at table level: a larger knowledge set gives pointwise tighter bounds *)
Theorem sa_monotone_in_knowledge (c : computer) n v K K' t t' r r' :
  (c = CRef \/ c = CCached) -> SA n v -> MinK n K -> (forall s, K s = true -> K' s = true) ->
  agrees n t K v -> agrees n t' K' v -> compute c n t = Some r -> compute c n t' = Some r' ->
  forall s, bounded n s -> L r s <= L r' s /\ U r' s <= U r s.
Proof.
  intros Hc HSA HM Hinc Hag Hag' H1 H2 s Hb.
  pose proof (MinK_mono n K K' HM Hinc) as HM'.
  pose proof (sa_sol_of_compute c n K v t r Hc HM Hag H1) as S.
  pose proof (sa_sol_of_compute c n K' v t' r' Hc HM' Hag' H2) as S'.
  split.
  - apply (lower_mono n K K' v _ _ _ _ HSA HM Hinc S S' s Hb).
  - apply (upper_mono n K K' v _ _ _ _ HSA HM Hinc S S' s Hb).
Qed.

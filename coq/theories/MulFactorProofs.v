(* MulFactorProofs: specification, soundness, monotonicity and scale invariance of the multiplicative factors. *)
From ICG Require Import Prelude Bits Table Bounds FoldLemmas BoundsSpec SASound SAEquiv SATight MulFactor.
From Coq Require Import Lqa.
Local Open Scope Q_scope.

(* ---------- the id list ---------- *)
Lemma mf_alln_cons n : alln n = 0%N :: mf_ids n.
Proof.
  unfold mf_ids, alln. destruct (2 ^ n)%nat eqn:E.
  - exfalso. assert (2 ^ n <> 0)%nat by (apply Nat.pow_nonzero; lia). lia.
  - reflexivity.
Qed.

Lemma mf_in_ids n s : In s (mf_ids n) <-> bounded n s /\ s <> 0%N.
Proof.
  rewrite <- in_alln. pose proof (NoDup_alln n) as ND. rewrite (mf_alln_cons n) in *.
  inversion ND as [|x l Hnin Hnd]; subst. simpl. split.
  - intro H. split; [right; exact H|]. intros ->. contradiction.
  - intros [[H|H] Hne]; [congruence| exact H].
Qed.

Lemma mf_ids_nonempty n : (0 < n)%nat -> mf_ids n <> [].
Proof.
  intros Hn E. assert (H : In 1%N (mf_ids n)).
  { apply mf_in_ids. split; [|discriminate]. apply bounded_lt.
    replace 1%N with (2 ^ 0)%N by reflexivity. apply N.pow_lt_mono_r; lia. }
  rewrite E in H. exact H.
Qed.

Lemma mf_ids_0 : mf_ids 0 = [].
Proof. reflexivity. Qed.

(* ---------- the guards ---------- *)
Definition mf_guards (n : nat) (num den : N -> Q) : Prop :=
  forall s, bounded n s -> s <> 0%N -> den s <= num s /\ 0 < den s.

Lemma mf_ge_all_iff n num den :
  mf_ge_all (mf_ids n) num den = true <-> (forall s, bounded n s -> s <> 0%N -> den s <= num s).
Proof.
  unfold mf_ge_all. rewrite forallb_forall. split.
  - intros H s Hb Hne. apply Qle_bool_iff. apply H. apply mf_in_ids. tauto.
  - intros H s Hin. apply mf_in_ids in Hin. apply Qle_bool_iff. apply H; tauto.
Qed.

Lemma mf_pos_iff x : negb (Qle_bool x 0) = true <-> 0 < x.
Proof.
  rewrite negb_true_iff. split.
  - intro H. apply Qnot_le_lt. intro C. apply Qle_bool_iff in C. congruence.
  - intro H. destruct (Qle_bool x 0) eqn:E; [|reflexivity]. apply Qle_bool_iff in E. lra.
Qed.

Lemma mf_pos_all_iff n den :
  mf_pos_all (mf_ids n) den = true <-> (forall s, bounded n s -> s <> 0%N -> 0 < den s).
Proof.
  unfold mf_pos_all. rewrite forallb_forall. split.
  - intros H s Hb Hne. apply mf_pos_iff. apply H. apply mf_in_ids. tauto.
  - intros H s Hin. apply mf_in_ids in Hin. apply mf_pos_iff. apply H; tauto.
Qed.

(* ---------- (a) specification ---------- *)
Definition mf_is_max (n : nat) (num den : N -> Q) (a : Q) : Prop :=
  (forall s, bounded n s -> s <> 0%N -> num s / den s <= a)
  /\ exists s, bounded n s /\ s <> 0%N /\ a == num s / den s.

Theorem mf_factor_some n num den a :
  mf_factor n num den = Some a -> (0 < n)%nat /\ mf_guards n num den /\ mf_is_max n num den a.
Proof.
  unfold mf_factor. destruct (mf_ge_all (mf_ids n) num den) eqn:G1; [|discriminate].
  destruct (mf_pos_all (mf_ids n) den) eqn:G2; [|discriminate].
  intro H.
  assert (Hne : mf_ids n <> []) by (intro E; rewrite E in H; discriminate).
  assert (Ea : a = Qred (qmaxl (map (fun s => num s / den s) (mf_ids n)))).
  { destruct (mf_ids n); [congruence|]. injection H as <-. reflexivity. }
  subst a. clear H.
  split. { destruct n; [rewrite mf_ids_0 in Hne; congruence| lia]. }
  split.
  { intros s Hb Hs. split; [apply (proj1 (mf_ge_all_iff n num den) G1)| apply (proj1 (mf_pos_all_iff n den) G2)]; assumption. }
  split.
  - intros s Hb Hs. rewrite Qred_correct. apply qmaxl_ge. apply in_map_iff. exists s. split; [reflexivity|].
    apply mf_in_ids. tauto.
  - destruct (qmaxl_in (map (fun s => num s / den s) (mf_ids n))) as [y [Hin Hy]]; [apply map_neq_nil; exact Hne|].
    apply in_map_iff in Hin. destruct Hin as [s [<- Hin]]. apply mf_in_ids in Hin. exists s.
    split; [tauto|]. split; [tauto|]. rewrite Qred_correct. exact Hy.
Qed.

Theorem mf_factor_defined n num den :
  (0 < n)%nat -> mf_guards n num den -> exists a, mf_factor n num den = Some a.
Proof.
  intros Hn G. unfold mf_factor.
  replace (mf_ge_all (mf_ids n) num den) with true
    by (symmetry; apply mf_ge_all_iff; intros s Hb Hs; apply G; assumption).
  replace (mf_pos_all (mf_ids n) den) with true
    by (symmetry; apply mf_pos_all_iff; intros s Hb Hs; apply G; assumption).
  pose proof (mf_ids_nonempty n Hn) as Hne. destruct (mf_ids n); [congruence|]. eexists. reflexivity.
Qed.

(* the result is Some iff no guard fires (and there is at least one player); the value is the attained maximum *)
Theorem mf_factor_spec n num den :
  ((exists a, mf_factor n num den = Some a) <-> ((0 < n)%nat /\ mf_guards n num den))
  /\ (forall a, mf_factor n num den = Some a -> mf_is_max n num den a).
Proof.
  split; [split|].
  - intros [a H]. apply mf_factor_some in H. tauto.
  - intros [Hn G]. apply mf_factor_defined; assumption.
  - intros a H. apply mf_factor_some in H. tauto.
Qed.

(* ---------- ratios ---------- *)
Lemma mf_div_le x y d1 d2 : 0 < d1 -> d1 <= d2 -> 0 <= y -> x <= y -> x / d2 <= y / d1.
Proof.
  intros H1 H12 Hy Hxy. assert (H2 : 0 < d2) by lra.
  apply Qle_trans with (y / d2).
  - unfold Qdiv. apply Qmult_le_compat_r; [exact Hxy|]. apply Qinv_le_0_compat. lra.
  - apply Qle_shift_div_r; [exact H2|].
    assert (Hq : 0 <= y / d1) by (apply Qle_shift_div_l; [exact H1| lra]).
    assert (E : y == y / d1 * d1) by (field; lra).
    rewrite E at 1. rewrite (Qmult_comm (y / d1) d1), (Qmult_comm (y / d1) d2).
    apply Qmult_le_compat_r; assumption.
Qed.

Lemma mf_div_ge1 x d : 0 < d -> d <= x -> 1 <= x / d.
Proof. intros Hd Hx. apply Qle_shift_div_l; [exact Hd| lra]. Qed.

(* ---------- (b) a sound table with positive lower bounds ---------- *)
Definition mf_sound (n : nat) (v : N -> Q) (t : table) : Prop :=
  forall s, bounded n s -> s <> 0%N -> mf_lo t s <= v s /\ v s <= mf_hi t s /\ 0 < mf_lo t s.

Theorem mf_sound_factors n v t :
  (0 < n)%nat -> mf_sound n v t ->
  exists a b, mf_to_lower_bound n v t = Some a /\ mf_lower_upper_bound n t = Some b /\ 1 <= a /\ a <= b.
Proof.
  intros Hn S. unfold mf_to_lower_bound, mf_lower_upper_bound.
  destruct (mf_factor_defined n v (mf_lo t) Hn) as [a Ha].
  { intros s Hb Hs. destruct (S s Hb Hs) as (A & B & C). split; assumption. }
  destruct (mf_factor_defined n (mf_hi t) (mf_lo t) Hn) as [b Hb].
  { intros s Hb Hs. destruct (S s Hb Hs) as (A & B & C). split; [lra| assumption]. }
  exists a, b. split; [exact Ha|]. split; [exact Hb|].
  apply mf_factor_some in Ha. destruct Ha as (_ & _ & _ & s & Hbs & Hs & Ea).
  apply mf_factor_some in Hb. destruct Hb as (_ & _ & Ub & _).
  destruct (S s Hbs Hs) as (A & B & C). split.
  - rewrite Ea. apply mf_div_ge1; assumption.
  - rewrite Ea. apply Qle_trans with (mf_hi t s / mf_lo t s); [|apply Ub; assumption].
    apply mf_div_le; lra.
Qed.

(* ---------- (c) the superadditive computers (C01) ---------- *)
Theorem mf_sa_factors (c : computer) n K v t t' :
  (c = CRef \/ c = CCached) -> SA n v -> MinK n K -> agrees n t K v -> compute c n t = Some t' ->
  (0 < n)%nat -> (forall s, bounded n s -> s <> 0%N -> 0 < L t' s) ->
  exists a b, mf_to_lower_bound n v t' = Some a /\ mf_lower_upper_bound n t' = Some b /\ 1 <= a /\ a <= b.
Proof.
  intros Hc HSA HK Hag Hcomp Hn Hpos. apply mf_sound_factors; [exact Hn|].
  intros s Hb Hs. destruct (sa_sound c n K v t t' Hc HSA HK Hag Hcomp s Hb) as (A & B & _).
  unfold mf_lo, mf_hi. fold (L t' s). fold (U t' s). split; [exact A|]. split; [exact B| apply Hpos; assumption].
Qed.

(* ---------- (d) monotonicity: tighter intervals give smaller factors ---------- *)
Definition mf_inside (n : nat) (t2 t1 : table) : Prop :=
  forall s, bounded n s -> s <> 0%N -> mf_lo t1 s <= mf_lo t2 s /\ mf_hi t2 s <= mf_hi t1 s.

Theorem mf_lower_upper_monotone n t1 t2 b1 b2 :
  mf_inside n t2 t1 -> mf_lower_upper_bound n t1 = Some b1 -> mf_lower_upper_bound n t2 = Some b2 -> b2 <= b1.
Proof.
  intros I H1 H2. apply mf_factor_some in H1. destruct H1 as (_ & G1 & U1 & _).
  apply mf_factor_some in H2. destruct H2 as (_ & G2 & _ & s & Hb & Hs & E2).
  rewrite E2. apply Qle_trans with (mf_hi t1 s / mf_lo t1 s); [|apply U1; assumption].
  destruct (I s Hb Hs) as [A B]. destruct (G1 s Hb Hs) as [C D]. destruct (G2 s Hb Hs) as [C2 D2].
  apply mf_div_le; lra.
Qed.

Theorem mf_to_lower_monotone n v t1 t2 a1 a2 :
  mf_inside n t2 t1 -> mf_to_lower_bound n v t1 = Some a1 -> mf_to_lower_bound n v t2 = Some a2 -> a2 <= a1.
Proof.
  intros I H1 H2. apply mf_factor_some in H1. destruct H1 as (_ & G1 & U1 & _).
  apply mf_factor_some in H2. destruct H2 as (_ & G2 & _ & s & Hb & Hs & E2).
  rewrite E2. apply Qle_trans with (v s / mf_lo t1 s); [|apply U1; assumption].
  destruct (I s Hb Hs) as [A B]. destruct (G1 s Hb Hs) as [C D]. destruct (G2 s Hb Hs) as [C2 D2].
  apply mf_div_le; lra.
Qed.

(* definedness is inherited by a tighter table that is itself sound *)
Theorem mf_monotone_sound n v t1 t2 :
  (0 < n)%nat -> mf_inside n t2 t1 -> mf_sound n v t1 -> (forall s, bounded n s -> s <> 0%N -> mf_lo t2 s <= v s /\ v s <= mf_hi t2 s) ->
  exists a1 b1 a2 b2,
    mf_to_lower_bound n v t1 = Some a1 /\ mf_lower_upper_bound n t1 = Some b1
    /\ mf_to_lower_bound n v t2 = Some a2 /\ mf_lower_upper_bound n t2 = Some b2
    /\ 1 <= a2 /\ a2 <= a1 /\ a2 <= b2 /\ b2 <= b1 /\ a1 <= b1.
Proof.
  intros Hn I S1 S2.
  assert (S2' : mf_sound n v t2).
  { intros s Hb Hs. destruct (I s Hb Hs) as [A B]. destruct (S1 s Hb Hs) as (C & D & E). destruct (S2 s Hb Hs) as [F G].
    split; [exact F|]. split; [exact G| lra]. }
  destruct (mf_sound_factors n v t1 Hn S1) as (a1 & b1 & Ha1 & Hb1 & X1 & Y1).
  destruct (mf_sound_factors n v t2 Hn S2') as (a2 & b2 & Ha2 & Hb2 & X2 & Y2).
  exists a1, b1, a2, b2. repeat (split; [assumption|]).
  split; [exact (mf_to_lower_monotone n v t1 t2 a1 a2 I Ha1 Ha2)|].
  split; [exact Y2|]. split; [exact (mf_lower_upper_monotone n t1 t2 b1 b2 I Hb1 Hb2)| exact Y1].
Qed.

(* along a growth of knowledge, for the superadditive computers (C07 + C01) *)
Theorem mf_sa_along_reveals (c : computer) n v K K' t t' r r' :
  (c = CRef \/ c = CCached) -> SA n v -> MinK n K -> (forall s, K s = true -> K' s = true) ->
  agrees n t K v -> agrees n t' K' v -> compute c n t = Some r -> compute c n t' = Some r' ->
  (0 < n)%nat -> (forall s, bounded n s -> s <> 0%N -> 0 < L r s) ->
  exists a1 b1 a2 b2,
    mf_to_lower_bound n v r = Some a1 /\ mf_lower_upper_bound n r = Some b1
    /\ mf_to_lower_bound n v r' = Some a2 /\ mf_lower_upper_bound n r' = Some b2
    /\ 1 <= a2 /\ a2 <= a1 /\ a2 <= b2 /\ b2 <= b1 /\ a1 <= b1.
Proof.
  intros Hc HSA HK HKK Hag Hag' Hr Hr' Hn Hpos.
  assert (HK' : MinK n K').
  { destruct HK as (A & B & C). split; [apply HKK; exact A|]. split; [apply HKK; exact B|]. intros i Hi. apply HKK. apply C; exact Hi. }
  apply mf_monotone_sound; [exact Hn| | |].
  - intros s Hb Hs. unfold mf_lo, mf_hi. fold (L r s) (L r' s) (U r s) (U r' s).
    exact (sa_monotone_in_knowledge c n v K K' t t' r r' Hc HSA HK HKK Hag Hag' Hr Hr' s Hb).
  - intros s Hb Hs. destruct (sa_sound c n K v t r Hc HSA HK Hag Hr s Hb) as (A & B & _).
    unfold mf_lo, mf_hi. fold (L r s) (U r s). split; [exact A|]. split; [exact B| apply Hpos; assumption].
  - intros s Hb Hs. destruct (sa_sound c n K' v t' r' Hc HSA HK' Hag' Hr' s Hb) as (A & B & _).
    unfold mf_lo, mf_hi. fold (L r' s) (U r' s). split; assumption.
Qed.

(* ---------- (e) scale invariance ---------- *)
Lemma mf_bool_eq (b1 b2 : bool) : (b1 = true <-> b2 = true) -> b1 = b2.
Proof. destruct b1, b2; intuition congruence. Qed.

Theorem mf_factor_scale n c num den num' den' :
  0 < c -> (forall s, bounded n s -> s <> 0%N -> num' s == c * num s /\ den' s == c * den s) ->
  mf_factor n num' den' = mf_factor n num den.
Proof.
  intros Hc H. unfold mf_factor.
  assert (E1 : mf_ge_all (mf_ids n) num' den' = mf_ge_all (mf_ids n) num den).
  { apply mf_bool_eq. rewrite !mf_ge_all_iff.
    split; intros G s Hb Hs; destruct (H s Hb Hs) as [A B]; specialize (G s Hb Hs).
    - rewrite A, B in G. apply Qmult_le_l in G; assumption.
    - rewrite A, B. apply Qmult_le_l; assumption. }
  assert (E2 : mf_pos_all (mf_ids n) den' = mf_pos_all (mf_ids n) den).
  { apply mf_bool_eq. rewrite !mf_pos_all_iff.
    split; intros G s Hb Hs; destruct (H s Hb Hs) as [A B]; specialize (G s Hb Hs).
    - rewrite B in G. setoid_replace 0 with (c * 0) in G by ring. apply Qmult_lt_l in G; assumption.
    - rewrite B. setoid_replace 0 with (c * 0) by ring. apply Qmult_lt_l; assumption. }
  rewrite E1, E2. destruct (mf_ge_all (mf_ids n) num den) eqn:G1; [|reflexivity].
  destruct (mf_pos_all (mf_ids n) den) eqn:G2; [|reflexivity].
  assert (E3 : qmaxl (map (fun s => num' s / den' s) (mf_ids n)) == qmaxl (map (fun s => num s / den s) (mf_ids n))).
  { apply qmaxl_map_Qeq. intros s Hin. apply mf_in_ids in Hin. destruct Hin as [Hb Hs]. destruct (H s Hb Hs) as [A B].
    rewrite A, B. pose proof (proj1 (mf_pos_all_iff n den) G2 s Hb Hs). field. split; lra. }
  destruct (mf_ids n); [reflexivity|]. f_equal. apply Qred_complete. exact E3.
Qed.

(* game v' = c v, approximation a' = c a, table t' = c t (both bound columns), c > 0: every factor is unchanged *)
Definition mf_scaled (c : Q) (n : nat) (f f' : N -> Q) : Prop :=
  forall s, bounded n s -> s <> 0%N -> f' s == c * f s.

Theorem mf_scale_invariant n c v v' a a' t t' :
  0 < c -> mf_scaled c n v v' -> mf_scaled c n a a' ->
  mf_scaled c n (mf_lo t) (mf_lo t') -> mf_scaled c n (mf_hi t) (mf_hi t') ->
  mf_to_approximation n v' a' = mf_to_approximation n v a
  /\ mf_upper_to_approximation n a' t' = mf_upper_to_approximation n a t
  /\ mf_to_lower_bound n v' t' = mf_to_lower_bound n v t
  /\ mf_lower_upper_bound n t' = mf_lower_upper_bound n t.
Proof.
  intros Hc Hv Ha Hl Hh.
  unfold mf_to_approximation, mf_upper_to_approximation, mf_to_lower_bound, mf_lower_upper_bound.
  repeat split; apply (mf_factor_scale n c); try exact Hc; intros s Hb Hs; split; auto.
Qed.

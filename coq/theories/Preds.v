(* Preds: executable, loop-faithful models of the game predicates
     game_properties.is_superadditive / is_monotone_decreasing / is_sam   (numpy id-array enumeration)
     supermodularity_check.check_supermodularity                        (Coalition-object enumeration)
   over Q-valued games v : N -> Q (coalition id -> value).  An exception (failing assert) is None.
   Proofs (= textbook definitions): PredsProofs.v.  Prefix pd_. *)
From Coq Require Import Qabs.
From ICG Require Import Prelude Bits Combs Enum.
Local Open Scope Q_scope.

(* np.isclose(a, b, rtol, atol) on finite values:  |a - b| <= atol + rtol * |b| *)
Definition pd_isclose (rtol atol a b : Q) : bool := Qle_bool (Qabs (a - b)) (atol + rtol * Qabs b).

(* `for x in l: if not f(x): return False` ... `return True`; an exception in f propagates *)
Fixpoint pd_all {A} (f : A -> option bool) (l : list A) : option bool :=
  match l with
  | [] => Some true
  | x :: r => match f x with
              | None => None
              | Some false => Some false
              | Some true => pd_all f r
              end
  end.

(* one iteration of is_superadditive:  Ss = sub_coalitions(U, n); Ts = U - Ss; lhs = values[Ss] + values[Ts];
   np.all(np.logical_or(lhs <= values[U], np.isclose(lhs, values[U], rtol, atol))) *)
Definition pd_sa_row (n : nat) (v : N -> Q) (rtol atol : Q) (U : N) : option bool :=
  match en_ids_sub n U with
  | None => None
  | Some Ss => Some (forallb (fun S => let lhs := v S + v (U - S)%N in
                                       Qle_bool lhs (v U) || pd_isclose rtol atol lhs (v U)) Ss)
  end.

Definition pd_is_superadditive (n : nat) (v : N -> Q) (rtol atol : Q) : option bool :=
  pd_all (pd_sa_row n v rtol atol) (alln n).

(* one iteration of is_monotone_decreasing:  np.all(values[Ss] >= values[U]) *)
Definition pd_mono_row (n : nat) (v : N -> Q) (U : N) : option bool :=
  match en_ids_sub n U with
  | None => None
  | Some Ss => Some (forallb (fun S => Qle_bool (v U) (v S)) Ss)
  end.

Definition pd_is_monotone_decreasing (n : nat) (v : N -> Q) : option bool :=
  pd_all (pd_mono_row n v) (alln n).

(* is_sam:  is_superadditive(game) and is_monotone_decreasing(game)   (default rtol, atol = 0; short-circuit) *)
Definition pd_is_sam (n : nat) (v : N -> Q) (rtol : Q) : option bool :=
  match pd_is_superadditive n v rtol 0 with
  | Some true => pd_is_monotone_decreasing n v
  | r => r
  end.

(* first hit of nested `for` loops with an early `return` *)
Fixpoint pd_first {A B} (f : A -> option B) (l : list A) : option B :=
  match l with
  | [] => None
  | x :: r => match f x with Some y => Some y | None => pd_first f r end
  end.

(* check_supermodularity(game, tolerance):
     for T in all_coalitions(game):
       for i in filter(lambda i: i not in T, grand_coalition(game).players):
         rhs = v(T | from_players({i})) - v(T)
         for S in filter(lambda s: s != T, get_sub_coalitions(T)):
           lhs = v(S | from_players({i})) - v(S)
           if lhs > rhs + tolerance: return T, S, i
     return None *)
Definition pd_check_supermodularity (n : nat) (v : N -> Q) (tol : Q) : option (N * N * nat) :=
  pd_first (fun T =>
    pd_first (fun i =>
      let rhs := v (N.lor T (en_from_players [i])) - v T in
      pd_first (fun S =>
        let lhs := v (N.lor S (en_from_players [i])) - v S in
        if Qle_bool lhs (rhs + tol) then None else Some (T, S, i))
        (filter (fun S => negb (S =? T)%N) (en_sub_obj T)))
      (filter (fun i => negb (tb T i)) (en_players (grand n))))
    (alln n).

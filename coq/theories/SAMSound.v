(* SAMSound: soundness of the approximate SAM bounds for every repetition count, and
   comparison with the plain superadditive bounds (C04). *)
From ICG Require Import Prelude Bits Table Bounds FoldLemmas BoundsSpec SASound SATight SAMSpec.

(* frame of the lower phase: only the lower column of the unknown coalitions changes *)
Lemma sam_round_frame n i us t :
  let t' := sam_round n i us t in
  (forall s, ~ In s us -> L t' s = L t s) /\ (forall s, U t' s = U t s) /\ (forall s, Kn t' s = Kn t s).
Proof.
  rewrite sam_round_eq.
  destruct (lo_fold_frame (lowerA n i) us t) as [A1 [A2 A3]].
  destruct (lo_fold_frame (monoF n) us (fold_left (lo_step (lowerA n i)) us t)) as [B1 [B2 B3]].
  cbv zeta. split; [|split].
  - intros s Hs. rewrite B1, A1; auto.
  - intros s. rewrite B2, A2. reflexivity.
  - intros s. rewrite B3, A3. reflexivity.
Qed.

Lemma sam_rounds_frame n k i us t :
  let t' := sam_rounds n k i us t in
  (forall s, ~ In s us -> L t' s = L t s) /\ (forall s, U t' s = U t s) /\ (forall s, Kn t' s = Kn t s).
Proof.
  revert i t. induction k as [|k IH]; intros i t; simpl; [auto|].
  destruct (IH (S i) (sam_round n i us t)) as [A1 [A2 A3]].
  destruct (sam_round_frame n i us t) as [B1 [B2 B3]].
  split; [|split].
  - intros s Hs. rewrite A1, B1; auto.
  - intros s. rewrite A2, B2. reflexivity.
  - intros s. rewrite A3, B3. reflexivity.
Qed.

(* peel a round from the back *)
Lemma sam_rounds_snoc n k i us t :
  sam_rounds n (S k) i us t = sam_round n (i + k) us (sam_rounds n k i us t).
Proof.
  revert i t. induction k as [|k IH]; intros i t.
  - simpl. rewrite Nat.add_0_r. reflexivity.
  - change (sam_rounds n (S (S k)) i us t) with (sam_rounds n (S k) (S i) us (sam_round n i us t)).
    rewrite IH. simpl. replace (i + S k)%nat with (S (i + k)) by lia. reflexivity.
Qed.

Section Run.
  Variable n : nat.
  Variable K : N -> bool.
  Variable v : N -> Q.
  Variable t : table.
  Hypothesis HSA : SA n v.
  Hypothesis HMo : Mono n v.
  Hypothesis Hv0 : v 0%N == 0.
  Hypothesis HM : MinK n K.
  Hypothesis Hag : agrees n t K v.

  Let us := unknown_sorted n t.

  Lemma HKeq : forall a, bounded n a -> Kn t a = K a.
  Proof. intros a Ha. apply (Hag a Ha). Qed.

  Lemma in_us s : In s us <-> bounded n s /\ K s = false.
  Proof.
    unfold us. rewrite in_unknown_sorted. split; intros [Hb Hk]; split; auto.
    - rewrite <- (HKeq s Hb). exact Hk.
    - rewrite (HKeq s Hb). exact Hk.
  Qed.

  Lemma us_ne0 s : In s us -> s <> 0%N.
  Proof. intros Hs E. apply in_us in Hs. destruct HM as [H0 _]. subst. destruct Hs. congruence. Qed.

  (* the table after pass A of round 0 = after the lower pass of the cached superadditive computer *)
  Definition t1 : table := fold_left (lo_step (lowerF n)) us t.

  Lemma t1_eqs : forall s, bounded n s -> K s = false -> L t1 s == lowerF n (L t1) s.
  Proof.
    intros s Hb Hk. assert (Hin : In s us) by (apply in_us; auto).
    unfold t1. rewrite (lo_fold_seq n (lowerF n) us t) at 1; auto.
    - apply Qred_correct.
    - intros l1 l2 s0 Hs0 H. apply in_us in Hs0. apply lowerF_local; [tauto|]. intros a _ Ha. apply H. exact Ha.
    - apply NoDup_unknown_sorted.
    - apply szsorted_by_size.
  Qed.

  Lemma t1_known : forall s, bounded n s -> K s = true -> L t1 s == v s.
  Proof.
    intros s Hb Hk. destruct (lo_fold_frame (lowerF n) us t) as [A1 _]. fold t1 in A1.
    rewrite A1; [apply (Hag s Hb); exact Hk|]. rewrite in_us. intros [_ ?]. congruence.
  Qed.

  Lemma t1_sound : LInv n v (L t1).
  Proof. intros s Hb. apply (lower_sound n K v (L t1) HSA HM t1_known t1_eqs s Hb). Qed.

  (* the invariant of the lower phase after pass A of round 0 *)
  Definition I (l : N -> Q) : Prop := LInv n v l /\ l 0%N == 0 /\ lle n (L t1) l.

  Lemma I_t1 : I (L t1).
  Proof.
    split; [exact t1_sound|]. split.
    - destruct HM as [H0 _]. rewrite (t1_known 0%N (bounded_0 n) H0). exact Hv0.
    - intros s _. apply Qle_refl.
  Qed.

  Lemma I_step F t0 s :
    In s us -> I (L t0) -> F (L t0) s <= v s -> L t0 s <= F (L t0) s -> I (L (lo_step F t0 s)).
  Proof.
    intros Hs [I1 [I2 I3]] Hle Hge. pose proof (proj1 (in_us s) Hs) as [Hb Hk].
    split; [apply LInv_step; auto|]. split.
    - rewrite lo_step_L. destruct (N.eqb_spec 0%N s) as [E|_]; [exfalso; eapply us_ne0; eauto| exact I2].
    - intros a Ha. eapply Qle_trans; [apply I3; exact Ha|]. apply (lle_step n F t0 s Hb Hge a Ha).
  Qed.

  (* one pass whose every cell is bounded by the truth and not below its old value *)
  Lemma grow_pass F ws ta :
    incl ws us -> I (L ta) ->
    (forall tb s, In s us -> I (L tb) -> F (L tb) s <= v s /\ L tb s <= F (L tb) s) ->
    lle n (L ta) (L (fold_left (lo_step F) ws ta)) /\ I (L (fold_left (lo_step F) ws ta)).
  Proof.
    revert ta. induction ws as [|x ws IH]; intros ta Hinc Ha HF; simpl.
    - split; [intros s _; apply Qle_refl| exact Ha].
    - assert (Hx : In x us) by (apply Hinc; left; reflexivity).
      destruct (HF ta x Hx Ha) as [F1 F2]. pose proof (proj1 (in_us x) Hx) as [Hbx _].
      assert (Ha' : I (L (lo_step F ta x))) by (apply I_step; auto).
      destruct (IH _ (fun a Hin => Hinc a (or_intror Hin)) Ha' HF) as [J1 J2]. split; [|exact J2].
      intros s Hs. eapply Qle_trans; [apply (lle_step n F ta x Hbx F2 s Hs)| apply J1; exact Hs].
  Qed.

  Lemma mono_cell tb s : In s us -> I (L tb) -> monoF n (L tb) s <= v s /\ L tb s <= monoF n (L tb) s.
  Proof.
    intros Hs HI. pose proof (proj1 (in_us s) Hs) as [Hb Hk]. split.
    - apply (monoF_le n v HMo); [apply HI| exact Hb].
    - apply monoF_ge. exact Hb.
  Qed.

  Lemma self_cell tb s : In s us -> I (L tb) -> lowerF_self n (L tb) s <= v s /\ L tb s <= lowerF_self n (L tb) s.
  Proof.
    intros Hs HI. pose proof (proj1 (in_us s) Hs) as [Hb Hk]. pose proof (us_ne0 s Hs) as Hne.
    destruct HI as [I1 [I2 I3]]. split.
    - apply (lowerF_self_le n v HSA Hv0); auto.
    - apply lowerF_self_ge; auto.
  Qed.

  Lemma round_later_grow i t0 : I (L t0) ->
    lle n (L t0) (L (sam_round n (S i) us t0)) /\ I (L (sam_round n (S i) us t0)).
  Proof.
    intros HI. rewrite sam_round_eq. simpl lowerA.
    destruct (grow_pass (lowerF_self n) us t0 (incl_refl _) HI self_cell) as [A1 A2].
    destruct (grow_pass (monoF n) us _ (incl_refl _) A2 mono_cell) as [B1 B2].
    split; [|exact B2]. intros s Hs. eapply Qle_trans; [apply A1; exact Hs| apply B1; exact Hs].
  Qed.

  Lemma I_round0 : I (L (sam_round n 0 us t)).
  Proof.
    rewrite sam_round_eq. simpl lowerA. fold t1.
    apply (grow_pass (monoF n) us t1 (incl_refl _) I_t1 mono_cell).
  Qed.

  Lemma I_rounds_later k i t0 : I (L t0) -> I (L (sam_rounds n k (S i) us t0)).
  Proof.
    revert i t0. induction k as [|k IH]; intros i t0 HI; simpl; [exact HI|].
    apply IH. apply round_later_grow. exact HI.
  Qed.

  (* the table after the whole lower phase *)
  Definition tL (r : nat) : table := sam_rounds n (S r) 0 us t.

  Lemma I_tL r : I (L (tL r)).
  Proof. unfold tL. simpl. apply I_rounds_later. exact I_round0. Qed.

  Lemma tL_frame r :
    (forall s, ~ In s us -> L (tL r) s = L t s) /\ (forall s, U (tL r) s = U t s) /\ (forall s, Kn (tL r) s = Kn t s).
  Proof. apply sam_rounds_frame. Qed.

  Lemma tL_known r s : bounded n s -> K s = true -> L (tL r) s == v s.
  Proof.
    intros Hb Hk. destruct (tL_frame r) as [A1 _]. rewrite A1; [apply (Hag s Hb); exact Hk|].
    rewrite in_us. intros [_ ?]. congruence.
  Qed.

  (* more rounds never lower a lower bound *)
  Lemma tL_mono_r r : lle n (L (tL r)) (L (tL (S r))).
  Proof.
    unfold tL. rewrite (sam_rounds_snoc n (S r) 0 us t). simpl (0 + S r)%nat.
    apply round_later_grow. apply (I_tL r).
  Qed.
  (* ---------------- upper phase ---------------- *)
  Definition G (ta : table) (s : N) : Q := sam_upperF n (Kn ta) (L ta) (U ta) s.
  Definition tF (r : nat) : table := fold_left (hi_step G) us (tL r).

  Lemma sam_run_eq r : sam_run n r t = tF r.
  Proof. reflexivity. Qed.

  Lemma G_local r ta s :
    (forall a, L ta a = L (tL r) a /\ Kn ta a = Kn (tL r) a /\ (~ In a us -> U ta a = U (tL r) a)) ->
    G ta s = G (tL r) s.
  Proof.
    intros H. unfold G, sam_upperF.
    rewrite (filter_ext_in' (Kn ta) (Kn (tL r))) by (intros x _; apply (H x)).
    rewrite (filter_ext_in' (Kn ta) (Kn (tL r)) (splits n s)) by (intros x _; apply (H x)).
    f_equal.
    - f_equal. apply map_ext. intros T. destruct (H T) as [E1 _]. destruct (H (N.lxor s T)) as [E2 _]. rewrite E1, E2. reflexivity.
    - f_equal. apply map_ext_in. intros a Ha. apply filter_In in Ha. destruct Ha as [Ha Hka].
      apply (H a). intro Hin. apply in_us in Hin. destruct Hin as [Hb Hk].
      destruct (tL_frame r) as [_ [_ A3]]. rewrite A3, (HKeq a Hb) in Hka. congruence.
  Qed.

  Lemma tF_facts r :
    (forall s, Kn (tF r) s = Kn t s) /\ (forall s, L (tF r) s = L (tL r) s)
    /\ (forall s, ~ In s us -> get (tF r) s = get t s)
    /\ (forall s, In s us -> U (tF r) s = Qred (G (tL r) s)).
  Proof.
    destruct (hi_fold_frame G us (tL r)) as [B1 [B2 B3]]. fold (tF r) in B1, B2, B3.
    destruct (tL_frame r) as [A1 [A2 A3]].
    split; [intros s; rewrite B3, A3; reflexivity|]. split; [exact B2|]. split.
    - intros s Hs. apply get_eq.
      + rewrite B3, A3. reflexivity.
      + rewrite B2, A1 by exact Hs. reflexivity.
      + rewrite B1, A2 by exact Hs. reflexivity.
    - apply (hi_fold_par G us (tL r)); [intros ta s; apply G_local| apply NoDup_unknown_sorted].
  Qed.

  Lemma G_sound r s : In s us -> v s <= G (tL r) s.
  Proof.
    intros Hs. pose proof (proj1 (in_us s) Hs) as [Hb Hk].
    destruct (I_tL r) as [I1 _]. destruct (tL_frame r) as [_ [A2 A3]].
    unfold G, sam_upperF. apply Q.min_glb.
    - apply qminl_glb.
      + apply map_neq_nil. rewrite (filter_ext_in' (Kn (tL r)) K).
        * destruct HM as [_ [Hg _]]. apply known_supers_nonempty; auto.
        * intros T HT. apply in_supers in HT. rewrite A3. apply HKeq. tauto.
      + intros x Hx. apply in_map_iff in Hx. destruct Hx as [T [<- HT]].
        apply filter_In in HT. destruct HT as [HT HkT].
        destruct (in_supers_facts n s T Hb HT) as [HbT [Hsub [E [Hbd [Hdis [Hor _]]]]]].
        rewrite A3, (HKeq T HbT) in HkT.
        rewrite E, (tL_known r T HbT HkT).
        pose proof (I1 (N.ldiff T s) Hbd) as H1.
        pose proof (HSA s (N.ldiff T s) Hb Hbd Hdis) as H2. rewrite Hor in H2. lra.
    - apply qminl_glb.
      + apply map_neq_nil. intro E.
        (* a singleton of s is a known proper sub-coalition *)
        pose proof (MinK_unknown_size n K s HM Hb Hk) as Hsz.
        destruct (existsb (tb s) (seq 0 n)) eqn:Ex.
        * apply existsb_exists in Ex. destruct Ex as [i [Hin Hi]]. apply in_seq in Hin.
          assert (Hin' : In (single i) (filter (Kn (tL r)) (splits n s))).
          { apply filter_In. split.
            - apply in_splits. split; [apply bounded_single; lia|]. split.
              + apply ssub_spec. split.
                * intros j. rewrite tb_single. intro Ej. apply Nat.eqb_eq in Ej. subst. exact Hi.
                * intro E2. rewrite <- E2, size_single in Hsz by lia. lia.
              + intro E2. assert (tb (single i) i = tb 0 i) by (rewrite E2; reflexivity).
                rewrite tb_single, Nat.eqb_refl, tb_0 in H. discriminate.
            - rewrite A3, (HKeq _ (bounded_single n i ltac:(lia))). destruct HM as [_ [_ H1]]. apply H1. lia. }
          rewrite E in Hin'. destruct Hin'.
        * assert (s = 0%N).
          { apply bits_inj_nat. intro i. rewrite tb_0.
            destruct (Nat.lt_ge_cases i n) as [H|H]; [| apply Hb; exact H].
            destruct (tb s i) eqn:Ei; auto. rewrite <- not_true_iff_false in Ex. exfalso. apply Ex.
            apply existsb_exists. exists i. split; [apply in_seq; lia| exact Ei]. }
          subst. rewrite size_0 in Hsz. lia.
      + intros x Hx. apply in_map_iff in Hx. destruct Hx as [a [<- Ha]].
        apply filter_In in Ha. destruct Ha as [Ha Hka].
        apply in_splits in Ha. destruct Ha as [Hba [Hss _]].
        rewrite A3, (HKeq a Hba) in Hka. rewrite A2.
        destruct (Hag a Hba) as [_ Hv]. destruct (Hv Hka) as [_ Hu]. rewrite Hu.
        apply HMo; auto. apply ssub_sub. exact Hss.
  Qed.

  Theorem sam_run_sound r : forall s, bounded n s -> sound_at n K v t (sam_run n r t) s.
  Proof.
    intros s Hb. rewrite sam_run_eq. destruct (tF_facts r) as [F1 [F2 [F3 F4]]].
    destruct (I_tL r) as [I1 _]. unfold sound_at.
    assert (Hkn : Kn (tF r) s = K s) by (rewrite F1; apply HKeq; exact Hb).
    destruct (K s) eqn:Hk.
    - assert (Hn : ~ In s us) by (rewrite in_us; intros [_ ?]; congruence).
      pose proof (F3 s Hn) as Hfr. destruct (Hag s Hb) as [_ Hv]. destruct (Hv Hk) as [Hl Hu].
      assert (L (tF r) s == v s) by (unfold L; rewrite Hfr; exact Hl).
      assert (U (tF r) s == v s) by (unfold U; rewrite Hfr; exact Hu).
      repeat split; auto; lra.
    - assert (Hin : In s us) by (apply in_us; auto).
      assert (H1 : L (tF r) s <= v s) by (rewrite F2; apply I1; exact Hb).
      assert (H2 : v s <= U (tF r) s) by (rewrite (F4 s Hin), Qred_correct; apply G_sound; exact Hin).
      repeat split; auto; try lra; try discriminate.
  Qed.
End Run.

Theorem sam_ok_of_MinK n t K v : MinK n K -> agrees n t K v -> sam_ok n t = true.
Proof.
  intros HM Hag. unfold sam_ok. destruct HM as [H0 [Hg H1]].
  destruct (Hag 0%N (bounded_0 n)) as [E0 _]. destruct (Hag (grand n) (bounded_grand n)) as [Eg _].
  unfold Kn in *. rewrite E0, H0, Eg, Hg. simpl.
  apply forallb_forall. intros s Hs. apply in_unknown_ids in Hs. destruct Hs as [Hb Hk].
  destruct (Hag s Hb) as [Ek _]. rewrite Hk in Ek. symmetry in Ek.
  pose proof (MinK_unknown_size n K s (conj H0 (conj Hg H1)) Hb Ek) as Hsz.
  pose proof (splits_nonempty n s Hb Hsz) as Hne.
  apply andb_true_iff. split; [destruct (splits n s); [congruence| reflexivity]|].
  (* a known singleton below s *)
  destruct (existsb (tb s) (seq 0 n)) eqn:Ex.
  - apply existsb_exists in Ex. destruct Ex as [i [Hin Hi]]. apply in_seq in Hin.
    assert (Hin' : In (single i) (known_splits n t s)).
    { unfold known_splits. apply filter_In. split.
      - apply in_splits. split; [apply bounded_single; lia|]. split.
        + apply ssub_spec. split.
          * intros j. rewrite tb_single. intro Ej. apply Nat.eqb_eq in Ej. subst. exact Hi.
          * intro E2. rewrite <- E2, size_single in Hsz by lia. lia.
        + intro E2. assert (tb (single i) i = tb 0 i) by (rewrite E2; reflexivity).
          rewrite tb_single, Nat.eqb_refl, tb_0 in H. discriminate.
      - destruct (Hag (single i) (bounded_single n i ltac:(lia))) as [E _]. unfold Kn in E. rewrite E. apply H1. lia. }
    destruct (known_splits n t s); [destruct Hin'| reflexivity].
  - exfalso. assert (s = 0%N).
    { apply bits_inj_nat. intro i. rewrite tb_0.
      destruct (Nat.lt_ge_cases i n) as [H|H]; [| apply Hb; exact H].
      destruct (tb s i) eqn:Ei; auto. rewrite <- not_true_iff_false in Ex. exfalso. apply Ex.
      apply existsb_exists. exists i. split; [apply in_seq; lia| exact Ei]. }
    subst. rewrite size_0 in Hsz. lia.
Qed.

(* C04: soundness for every repetition count *)
Theorem sam_sound n r K v t t' :
  SA n v -> Mono n v -> v 0%N == 0 -> MinK n K -> agrees n t K v -> compute_sam n r t = Some t' ->
  forall s, bounded n s -> sound_at n K v t t' s.
Proof.
  intros HSA HMo Hv0 HM Hag Hc. unfold compute_sam in Hc. destruct (sam_ok n t); [|discriminate].
  injection Hc as <-. apply sam_run_sound; assumption.
Qed.

Theorem sam_defined n r K v t : MinK n K -> agrees n t K v -> exists t', compute_sam n r t = Some t'.
Proof. intros HM Hag. unfold compute_sam. rewrite (sam_ok_of_MinK n t K v HM Hag). eauto. Qed.

(* ShapleyPermProofs: the Shapley value computed by the code is the average marginal contribution over ALL
   orderings, for EVERY player count (the counting argument: the orderings in which the predecessors of i are
   exactly S are the concatenations  p1 ++ i :: p2  of an ordering p1 of S and an ordering p2 of the rest,
   so there are |S|! (n-|S|-1)! of them). *)
From ICG Require Import Prelude Bits Shapley ShapleyProofs.
From Coq Require Import Permutation FinFun.
Local Open Scope Q_scope.

(* ---------- list facts ---------- *)
Lemma sh_NoDup_app_inv {A} (l1 l2 : list A) :
  NoDup (l1 ++ l2) -> NoDup l1 /\ NoDup l2 /\ (forall x, In x l1 -> ~ In x l2).
Proof.
  induction l1 as [|a l1 IH]; simpl; intros H.
  - split; [constructor| split; [exact H| intros x []]].
  - inversion H as [|? ? Ha Hl]; subst. destruct (IH Hl) as [H1 [H2 H3]]. split; [|split].
    + constructor; [|exact H1]. intro Hin. apply Ha. apply in_or_app. left. exact Hin.
    + exact H2.
    + intros x [<-|Hx]; [intro Hin; apply Ha; apply in_or_app; right; exact Hin| apply H3; exact Hx].
Qed.

Lemma sh_NoDup_prod {A B} (l1 : list A) (l2 : list B) : NoDup l1 -> NoDup l2 -> NoDup (list_prod l1 l2).
Proof.
  intros H1 H2. induction l1 as [|a l1 IH]; simpl; [constructor|].
  inversion H1 as [|? ? Ha Hl]; subst. apply NoDup_app_intro.
  - apply Injective_map_NoDup; [|exact H2]. intros x y E. inversion E. reflexivity.
  - apply IH. exact Hl.
  - intros [x y] Hx Hy. apply in_map_iff in Hx. destruct Hx as [b [E _]]. inversion E; subst.
    apply in_prod_iff in Hy. destruct Hy as [Hy _]. contradiction.
Qed.

Lemma sh_split_unique (i : nat) p1 : forall p1' p2 p2',
  ~ In i p1 -> ~ In i p1' -> p1 ++ i :: p2 = p1' ++ i :: p2' -> p1 = p1' /\ p2 = p2'.
Proof.
  induction p1 as [|a p1 IH]; intros [|b p1'] p2 p2' H1 H2 E; simpl in E.
  - inversion E. split; reflexivity.
  - inversion E; subst. exfalso. apply H2. left. reflexivity.
  - inversion E; subst. exfalso. apply H1. left. reflexivity.
  - inversion E; subst. destruct (IH p1' p2 p2') as [-> ->]; auto.
    + intro H. apply H1. right. exact H.
    + intro H. apply H2. right. exact H.
Qed.

(* ---------- the coalition of a list of players ---------- *)
Lemma sh_tb_mask p j : tb (sh_mask p) j = true <-> In j p.
Proof.
  induction p as [|a p IH]; cbn [sh_mask In].
  - rewrite tb_0. split; [discriminate| intros []].
  - rewrite tb_lor, orb_true_iff, tb_single, Nat.eqb_eq, IH. tauto.
Qed.

Lemma sh_pred_app p1 i p2 : ~ In i p1 -> sh_pred (p1 ++ i :: p2) i = sh_mask p1.
Proof.
  induction p1 as [|a p1 IH]; intros H; cbn [app sh_pred sh_mask].
  - rewrite Nat.eqb_refl. reflexivity.
  - destruct (Nat.eqb_spec a i) as [->|_]; [exfalso; apply H; left; reflexivity|].
    rewrite IH; [reflexivity|]. intro Hin. apply H. right. exact Hin.
Qed.

Lemma sh_in_players n S j : In j (players n S) <-> (j < n)%nat /\ tb S j = true.
Proof. unfold players. rewrite filter_In, in_seq. intuition lia. Qed.

Lemma sh_NoDup_players n S : NoDup (players n S).
Proof. unfold players. apply NoDup_filter, seq_NoDup. Qed.

Lemma sh_mask_of_perm n S p : bounded n S -> Permutation (players n S) p -> sh_mask p = S.
Proof.
  intros Hb Hp. apply bits_inj_nat. intro j. apply eq_iff_eq_true. rewrite sh_tb_mask. split.
  - intros Hin. apply (Permutation_in _ (Permutation_sym Hp)) in Hin. apply sh_in_players in Hin. tauto.
  - intros Ht. apply (Permutation_in _ Hp). apply sh_in_players. split; [|exact Ht].
    destruct (Nat.lt_ge_cases j n) as [H|H]; [exact H|]. rewrite (Hb j H) in Ht. discriminate.
Qed.

(* the players outside S other than i *)
Definition sh_rest (n : nat) (S : N) (i : nat) : N := N.ldiff (N.ldiff (grand n) S) (single i).

Lemma sh_tb_rest n S i j : tb (sh_rest n S i) j = (j <? n)%nat && negb (tb S j) && negb (Nat.eqb i j).
Proof. unfold sh_rest. rewrite !tb_ldiff, tb_grand, tb_single. reflexivity. Qed.

(* seq 0 n splits into S, i, the rest *)
Lemma sh_partition n S i : (i < n)%nat -> tb S i = false ->
  Permutation (seq 0 n) (players n S ++ i :: players n (sh_rest n S i)).
Proof.
  intros Hi Ht. apply NoDup_Permutation.
  - apply seq_NoDup.
  - apply NoDup_app_intro; [apply sh_NoDup_players| |].
    + constructor; [|apply sh_NoDup_players].
      intro H. apply sh_in_players in H. destruct H as [_ H]. rewrite sh_tb_rest, Nat.eqb_refl in H.
      rewrite andb_false_r in H. discriminate.
    + intros j Hj [<-|Hj'].
      * apply sh_in_players in Hj. destruct Hj as [_ Hj]. congruence.
      * apply sh_in_players in Hj. apply sh_in_players in Hj'. destruct Hj as [_ Hj]. destruct Hj' as [_ Hj'].
        rewrite sh_tb_rest, Hj in Hj'. simpl in Hj'. rewrite andb_false_r in Hj'. discriminate.
  - intro j. rewrite in_seq, in_app_iff. simpl. rewrite !sh_in_players, sh_tb_rest. split.
    + intros Hj. destruct (tb S j) eqn:E; [left; split; [lia| reflexivity]|]. right.
      destruct (Nat.eqb_spec i j) as [->|Hne]; [left; reflexivity|]. right. split; [lia|].
      assert ((j <? n)%nat = true) as -> by (apply Nat.ltb_lt; lia). reflexivity.
    + intros [[Hj _]|[<-|[Hj _]]]; lia.
Qed.

Lemma sh_size_rest n S i : (i < n)%nat -> tb S i = false -> size n (sh_rest n S i) = (n - size n S - 1)%nat.
Proof.
  intros Hi Ht. pose proof (Permutation_length (sh_partition n S i Hi Ht)) as H.
  rewrite seq_length, app_length in H. simpl in H. unfold size. lia.
Qed.

(* ---------- the orderings whose predecessors of i are exactly S ---------- *)
Definition sh_with_pred (n i : nat) (S : N) : list (list nat) :=
  filter (fun p => N.eqb (sh_pred p i) S) (sh_perms n).
Definition sh_concats (n i : nat) (S : N) : list (list nat) :=
  map (fun pq => fst pq ++ i :: snd pq)
      (list_prod (sh_perms_of (players n S)) (sh_perms_of (players n (sh_rest n S i)))).

Lemma sh_in_with_pred n i S p :
  In p (sh_with_pred n i S) <-> Permutation (seq 0 n) p /\ sh_pred p i = S.
Proof. unfold sh_with_pred. rewrite filter_In, sh_perms_spec, N.eqb_eq. tauto. Qed.

Lemma sh_in_concats n i S p :
  In p (sh_concats n i S) <->
  exists p1 p2, Permutation (players n S) p1 /\ Permutation (players n (sh_rest n S i)) p2 /\ p = p1 ++ i :: p2.
Proof.
  unfold sh_concats. rewrite in_map_iff. split.
  - intros [[p1 p2] [<- H]]. apply in_prod_iff in H. destruct H as [H1 H2].
    exists p1, p2. split; [apply sh_perms_of_sound; exact H1| split; [apply sh_perms_of_sound; exact H2| reflexivity]].
  - intros [p1 [p2 [H1 [H2 ->]]]]. exists (p1, p2). split; [reflexivity|].
    apply in_prod_iff. split; apply sh_perms_of_complete; assumption.
Qed.

Lemma sh_with_pred_concats n i S : (i < n)%nat -> bounded n S -> tb S i = false ->
  Permutation (sh_with_pred n i S) (sh_concats n i S).
Proof.
  intros Hi Hb Ht.
  assert (HiS : forall p1, Permutation (players n S) p1 -> ~ In i p1).
  { intros p1 Hp Hin. apply (Permutation_in _ (Permutation_sym Hp)) in Hin. apply sh_in_players in Hin.
    destruct Hin as [_ Hin]. congruence. }
  apply NoDup_Permutation.
  - apply NoDup_filter, sh_perms_NoDup.
  - unfold sh_concats. apply sh_NoDup_map_on.
    + intros [p1 p2] [q1 q2] H1 H2 E. simpl in E.
      apply in_prod_iff in H1. apply in_prod_iff in H2. destruct H1 as [H1 _]. destruct H2 as [H2 _].
      apply sh_perms_of_sound in H1. apply sh_perms_of_sound in H2.
      destruct (sh_split_unique i p1 q1 p2 q2 (HiS _ H1) (HiS _ H2) E) as [-> ->]. reflexivity.
    + apply sh_NoDup_prod; apply sh_NoDup_perms_of; apply sh_NoDup_players.
  - intro p. rewrite sh_in_with_pred, sh_in_concats. split.
    + (* an ordering with pred = S splits at i *)
      intros [Hp Hpred].
      assert (Hin : In i p) by (apply (Permutation_in _ Hp); apply in_seq; lia).
      apply in_split in Hin. destruct Hin as [p1 [p2 ->]].
      assert (Hnd : NoDup (p1 ++ i :: p2)) by (apply (Permutation_NoDup Hp), seq_NoDup).
      destruct (sh_NoDup_app_inv _ _ Hnd) as [Hnd1 [Hnd2 Hdis]].
      assert (Hi1 : ~ In i p1) by (intro H; apply (Hdis i H); left; reflexivity).
      inversion Hnd2 as [|? ? Hi2 Hnd2']; subst.
      rewrite sh_pred_app in Hb, Ht |- * by exact Hi1. (* S is now sh_mask p1 *)
      assert (Hlt : forall j, In j (p1 ++ i :: p2) -> (j < n)%nat).
      { intros j Hj. apply (Permutation_in _ (Permutation_sym Hp)) in Hj. apply in_seq in Hj. lia. }
      exists p1, p2. split; [|split; [|reflexivity]].
      * apply NoDup_Permutation; [apply sh_NoDup_players| exact Hnd1|].
        intro j. rewrite sh_in_players, sh_tb_mask. split; [tauto|].
        intro Hj. split; [apply Hlt; apply in_or_app; left; exact Hj| exact Hj].
      * apply NoDup_Permutation; [apply sh_NoDup_players| exact Hnd2'|].
        intro j. rewrite sh_in_players, sh_tb_rest. split.
        -- intros [Hj H]. apply andb_true_iff in H. destruct H as [H H3]. apply andb_true_iff in H.
           destruct H as [_ H2]. apply negb_true_iff in H2. apply negb_true_iff in H3. apply Nat.eqb_neq in H3.
           assert (Hjp : In j (p1 ++ i :: p2)) by (apply (Permutation_in _ Hp); apply in_seq; lia).
           apply in_app_or in Hjp. destruct Hjp as [Hjp|[Hjp|Hjp]]; [|congruence| exact Hjp].
           apply sh_tb_mask in Hjp. congruence.
        -- intros Hj. split; [apply Hlt; apply in_or_app; right; right; exact Hj|].
           assert ((j <? n)%nat = true) as ->
             by (apply Nat.ltb_lt; apply Hlt; apply in_or_app; right; right; exact Hj).
           assert (tb (sh_mask p1) j = false) as ->.
           { destruct (tb (sh_mask p1) j) eqn:E; [|reflexivity]. apply sh_tb_mask in E.
             exfalso. apply (Hdis j E). right. exact Hj. }
           assert (Nat.eqb i j = false) as -> by (apply Nat.eqb_neq; intro; subst; contradiction).
           reflexivity.
    + (* a concatenation is an ordering with pred = S *)
      intros [p1 [p2 [H1 [H2 ->]]]]. split.
      * eapply Permutation_trans; [apply (sh_partition n S i Hi Ht)|].
        apply Permutation_app; [exact H1| apply perm_skip; exact H2].
      * rewrite sh_pred_app by (apply HiS; exact H1). apply (sh_mask_of_perm n); assumption.
Qed.

(* the count: |S|! (n-|S|-1)! = the code's coefficient *)
Theorem sh_count_with_pred n i S : (i < n)%nat -> bounded n S -> tb S i = false ->
  Z.of_nat (length (sh_with_pred n i S)) = sh_contrib n (size n S).
Proof.
  intros Hi Hb Ht. rewrite (Permutation_length (sh_with_pred_concats n i S Hi Hb Ht)).
  unfold sh_concats. rewrite map_length, prod_length, Nat2Z.inj_mul, !sh_perms_of_length.
  unfold sh_contrib. fold (size n S). fold (size n (sh_rest n S i)). rewrite sh_size_rest by assumption. reflexivity.
Qed.

Lemma sh_pred_in_without n i p : (i < n)%nat -> Permutation (seq 0 n) p -> In (sh_pred p i) (sh_without n i).
Proof.
  intros Hi Hp.
  assert (Hin : In i p) by (apply (Permutation_in _ Hp); apply in_seq; lia).
  apply in_split in Hin. destruct Hin as [p1 [p2 ->]].
  assert (Hnd : NoDup (p1 ++ i :: p2)) by (apply (Permutation_NoDup Hp), seq_NoDup).
  destruct (sh_NoDup_app_inv _ _ Hnd) as [_ [_ Hdis]].
  assert (Hi1 : ~ In i p1) by (intro H; apply (Hdis i H); left; reflexivity).
  rewrite sh_pred_app by exact Hi1. apply sh_in_without. split.
  - intros j Hj. destruct (tb (sh_mask p1) j) eqn:E; [|reflexivity]. apply sh_tb_mask in E.
    assert (In j (seq 0 n)) by (apply (Permutation_in _ (Permutation_sym Hp)); apply in_or_app; left; exact E).
    apply in_seq in H. lia.
  - destruct (tb (sh_mask p1) i) eqn:E; [|reflexivity]. apply sh_tb_mask in E. contradiction.
Qed.

Lemma sh_qsum_pick_fun (x : N) (F : N -> Q) (l : list N) :
  NoDup l -> In x l -> qsum (map (fun y => if N.eqb y x then F y else 0) l) == F x.
Proof.
  intros Hnd Hin. rewrite <- (sh_qsum_pick x (F x) l Hnd Hin). apply qsum_map_ext.
  intros y _. destruct (N.eqb_spec y x) as [->|_]; reflexivity.
Qed.

(* MAIN: for every n, every player, every game *)
Theorem sh_is_perm_avg_all n i g : (i < n)%nat -> sh_player n i g == sh_perm_avg n i g.
Proof.
  intros Hi. rewrite sh_player_eq. unfold sh_perm_avg. apply Qdiv_comp; [|reflexivity].
  set (D := fun S => g (N.lor S (single i)) - g S).
  (* each marginal contribution, written as a guarded sum over the coalitions without i *)
  rewrite (qsum_map_ext (fun p => sh_marg g p i)
             (fun p => qsum (map (fun S => if N.eqb S (sh_pred p i) then D S else 0) (sh_without n i))) (sh_perms n)).
  2:{ intros p Hp. apply sh_perms_spec in Hp.
      rewrite (sh_qsum_pick_fun (sh_pred p i) D); [reflexivity| apply NoDup_filter, NoDup_alln|].
      apply sh_pred_in_without; assumption. }
  rewrite (sh_qsum_swap (fun p S => if N.eqb S (sh_pred p i) then D S else 0)).
  apply qsum_map_ext. intros S HS. apply sh_in_without in HS. destruct HS as [Hb Ht].
  rewrite (qsum_map_ext _ (fun p => if N.eqb (sh_pred p i) S then D S else 0) (sh_perms n))
    by (intros p _; rewrite N.eqb_sym; reflexivity).
  rewrite (sh_qsum_count (fun p => N.eqb (sh_pred p i) S)). fold (sh_with_pred n i S).
  rewrite sh_count_with_pred by assumption. reflexivity.
Qed.

(* ================================================================== *)
(* relabelling the players by ANY permutation, ALL n                   *)
(* ================================================================== *)
Lemma sh_tb_pull n pi T j : tb (sh_pull n pi T) j = true <-> (j < n)%nat /\ tb T (pi j) = true.
Proof. unfold sh_pull. rewrite sh_tb_mask, filter_In, in_seq. intuition lia. Qed.

Lemma sh_NoDup_map_inj {A B} (f : A -> B) l :
  NoDup (map f l) -> forall x y, In x l -> In y l -> f x = f y -> x = y.
Proof.
  induction l as [|a l IH]; intros Hnd x y Hx Hy E; [destruct Hx|].
  simpl in Hnd. inversion Hnd as [|? ? Ha Hl]; subst.
  destruct Hx as [<-|Hx]; destruct Hy as [<-|Hy]; auto.
  - exfalso. apply Ha. rewrite E. apply in_map. exact Hy.
  - exfalso. apply Ha. rewrite <- E. apply in_map. exact Hx.
Qed.

Lemma sh_map_inj_on {A B} (f : A -> B) (q : list A) : forall q',
  (forall x y, In x q -> In y q' -> f x = f y -> x = y) -> map f q = map f q' -> q = q'.
Proof.
  induction q as [|a q IH]; intros [|b q'] Hinj E; simpl in E; try discriminate; [reflexivity|].
  inversion E as [[E1 E2]]. f_equal.
  - apply Hinj; [left; reflexivity| left; reflexivity| exact E1].
  - apply IH; [|exact E2]. intros x y Hx Hy. apply Hinj; right; assumption.
Qed.

Section Relabel.
  Variable n : nat.
  Variable pi : nat -> nat.
  Hypothesis Hpi : Permutation (seq 0 n) (map pi (seq 0 n)).     (* pi permutes the players 0..n-1 *)

  Lemma sh_pi_lt j : (j < n)%nat -> (pi j < n)%nat.
  Proof.
    intros Hj. assert (H : In (pi j) (seq 0 n)).
    { apply (Permutation_in _ (Permutation_sym Hpi)). apply in_map. apply in_seq. lia. }
    apply in_seq in H. lia.
  Qed.

  Lemma sh_pi_inj a b : (a < n)%nat -> (b < n)%nat -> pi a = pi b -> a = b.
  Proof.
    intros Ha Hb. apply (sh_NoDup_map_inj pi (seq 0 n)).
    - apply (Permutation_NoDup Hpi). apply seq_NoDup.
    - apply in_seq. lia.
    - apply in_seq. lia.
  Qed.

  Lemma sh_perm_lt q j : Permutation (seq 0 n) q -> In j q -> (j < n)%nat.
  Proof. intros Hq Hj. apply (Permutation_in _ (Permutation_sym Hq)) in Hj. apply in_seq in Hj. lia. Qed.

  (* q |-> map pi q permutes the orderings *)
  Lemma sh_perms_map_pi : Permutation (map (map pi) (sh_perms n)) (sh_perms n).
  Proof.
    apply NoDup_Permutation_bis.
    - apply sh_NoDup_map_on; [|apply sh_perms_NoDup].
      intros q q' Hq Hq' E. apply sh_perms_spec in Hq. apply sh_perms_spec in Hq'.
      apply (sh_map_inj_on pi q q'); [|exact E].
      intros x y Hx Hy. apply sh_pi_inj; [apply (sh_perm_lt q)| apply (sh_perm_lt q')]; assumption.
    - rewrite map_length. apply Nat.le_refl.
    - intros p Hp. apply in_map_iff in Hp. destruct Hp as [q [<- Hq]]. apply sh_perms_spec in Hq.
      apply sh_perms_spec. eapply Permutation_trans; [exact Hpi| apply Permutation_map; exact Hq].
  Qed.

  Lemma sh_in_map_pi q j : (forall a, In a q -> (a < n)%nat) -> (j < n)%nat -> In (pi j) (map pi q) <-> In j q.
  Proof.
    intros Hq Hj. rewrite in_map_iff. split.
    - intros [a [E Ha]]. assert (a = j) by (apply sh_pi_inj; auto). subst. exact Ha.
    - intros H. exists j. split; [reflexivity| exact H].
  Qed.

  (* pulling back the predecessor coalitions along pi *)
  Lemma sh_pull_pred q i : Permutation (seq 0 n) q -> (i < n)%nat ->
    sh_pull n pi (sh_pred (map pi q) (pi i)) = sh_pred q i /\
    sh_pull n pi (N.lor (sh_pred (map pi q) (pi i)) (single (pi i))) = N.lor (sh_pred q i) (single i).
  Proof.
    intros Hq Hi.
    assert (Hin : In i q) by (apply (Permutation_in _ Hq); apply in_seq; lia).
    apply in_split in Hin. destruct Hin as [q1 [q2 ->]].
    assert (Hnd : NoDup (q1 ++ i :: q2)) by (apply (Permutation_NoDup Hq), seq_NoDup).
    destruct (sh_NoDup_app_inv _ _ Hnd) as [_ [_ Hdis]].
    assert (Hi1 : ~ In i q1) by (intro H; apply (Hdis i H); left; reflexivity).
    assert (Hq1 : forall a, In a q1 -> (a < n)%nat).
    { intros a Ha. apply (sh_perm_lt _ a Hq). apply in_or_app. left. exact Ha. }
    assert (Hpi1 : ~ In (pi i) (map pi q1)) by (rewrite sh_in_map_pi; assumption).
    rewrite map_app. cbn [map]. rewrite !sh_pred_app by assumption.
    split; apply bits_inj_nat; intro j; apply eq_iff_eq_true; rewrite sh_tb_pull.
    - rewrite !sh_tb_mask. split.
      + intros [Hj H]. apply (proj1 (sh_in_map_pi q1 j Hq1 Hj)). exact H.
      + intros H. pose proof (Hq1 j H) as Hj. split; [exact Hj| apply (proj2 (sh_in_map_pi q1 j Hq1 Hj)); exact H].
    - rewrite !tb_lor, !orb_true_iff, !tb_single, !Nat.eqb_eq, !sh_tb_mask. split.
      + intros [Hj [H|H]].
        * left. apply (proj1 (sh_in_map_pi q1 j Hq1 Hj)). exact H.
        * right. apply sh_pi_inj; assumption.
      + intros [H|<-].
        * pose proof (Hq1 j H) as Hj. split; [exact Hj| left; apply (proj2 (sh_in_map_pi q1 j Hq1 Hj)); exact H].
        * split; [exact Hi| right; reflexivity].
  Qed.

  Theorem sh_relabel_all i g : (i < n)%nat ->
    sh_player n (pi i) (sh_relabel_by n pi g) == sh_player n i g.
  Proof.
    intros Hi. rewrite (sh_is_perm_avg_all n (pi i)) by (apply sh_pi_lt; exact Hi).
    rewrite (sh_is_perm_avg_all n i g Hi). unfold sh_perm_avg. apply Qdiv_comp; [|reflexivity].
    rewrite <- (sh_qsum_perm _ _ (Permutation_map (fun p => sh_marg (sh_relabel_by n pi g) p (pi i)) sh_perms_map_pi)).
    rewrite map_map. apply qsum_map_ext. intros q Hq. apply sh_perms_spec in Hq.
    unfold sh_marg, sh_relabel_by. destruct (sh_pull_pred q i Hq Hi) as [-> ->]. reflexivity.
  Qed.

  (* what sh_relabel_by means: the coalition pi(S) = { pi j | j in S } gets the value g S *)
  Lemma sh_pull_image S : bounded n S -> sh_pull n pi (sh_mask (map pi (players n S))) = S.
  Proof.
    intros Hb. apply bits_inj_nat. intro j. apply eq_iff_eq_true. rewrite sh_tb_pull, sh_tb_mask.
    assert (Hpl : forall a, In a (players n S) -> (a < n)%nat) by (intros a Ha; apply sh_in_players in Ha; tauto).
    split.
    - intros [Hj H]. apply (proj1 (sh_in_map_pi (players n S) j Hpl Hj)) in H. apply sh_in_players in H. tauto.
    - intros Ht. assert (Hj : (j < n)%nat).
      { destruct (Nat.lt_ge_cases j n) as [H|H]; [exact H|]. rewrite (Hb j H) in Ht. discriminate. }
      split; [exact Hj|]. apply (proj2 (sh_in_map_pi (players n S) j Hpl Hj)). apply sh_in_players. tauto.
  Qed.

  Lemma sh_relabel_by_image g S : bounded n S -> sh_relabel_by n pi g (sh_mask (map pi (players n S))) = g S.
  Proof. intros Hb. unfold sh_relabel_by. rewrite sh_pull_image by exact Hb. reflexivity. Qed.
End Relabel.

(* ShapleyPermProofs: the Shapley value computed by the code is the average marginal contribution over ALL
   orderings, for EVERY player count (the counting argument: the orderings in which the predecessors of i are
   exactly S are the concatenations  p1 ++ i :: p2  of an ordering p1 of S and an ordering p2 of the rest,
   so there are |S|! (n-|S|-1)! of them). *)
From ICG Require Import Prelude Bits Shapley ShapleyProofs.
From Coq Require Import Permutation FinFun.
Local Open Scope Q_scope.

(* ---------- list facts ---------- *)
Lemma sh_NoDup_app_inv {A} (l1 l2 : list A) :
  NoDup (l1 ++ l2) -> NoDup l1 /\ NoDup l2 /\ (forall x, In x l1 -> ~ In x l2).
Proof.
  induction l1 as [|a l1 IH]; simpl; intros H.
  - split; [constructor| split; [exact H| intros x []]].
  - inversion H as [|? ? Ha Hl]; subst. destruct (IH Hl) as [H1 [H2 H3]]. split; [|split].
    + constructor; [|exact H1]. intro Hin. apply Ha. apply in_or_app. left. exact Hin.
    + exact H2.
    + intros x [<-|Hx]; [intro Hin; apply Ha; apply in_or_app; right; exact Hin| apply H3; exact Hx].
Qed.

Lemma sh_NoDup_prod {A B} (l1 : list A) (l2 : list B) : NoDup l1 -> NoDup l2 -> NoDup (list_prod l1 l2).
Proof.
  intros H1 H2. induction l1 as [|a l1 IH]; simpl; [constructor|].
  inversion H1 as [|? ? Ha Hl]; subst. apply NoDup_app_intro.
  - apply Injective_map_NoDup; [|exact H2]. intros x y E. inversion E. reflexivity.
  - apply IH. exact Hl.
  - intros [x y] Hx Hy. apply in_map_iff in Hx. destruct Hx as [b [E _]]. inversion E; subst.
    apply in_prod_iff in Hy. destruct Hy as [Hy _]. contradiction.
Qed.

Lemma sh_split_unique (i : nat) p1 : forall p1' p2 p2',
  ~ In i p1 -> ~ In i p1' -> p1 ++ i :: p2 = p1' ++ i :: p2' -> p1 = p1' /\ p2 = p2'.
Proof.
  induction p1 as [|a p1 IH]; intros [|b p1'] p2 p2' H1 H2 E; simpl in E.
  - inversion E. split; reflexivity.
  - inversion E; subst. exfalso. apply H2. left. reflexivity.
  - inversion E; subst. exfalso. apply H1. left. reflexivity.
  - inversion E; subst. destruct (IH p1' p2 p2') as [-> ->]; auto.
    + intro H. apply H1. right. exact H.
    + intro H. apply H2. right. exact H.
Qed.

(* ---------- the coalition of a list of players ---------- *)
Fixpoint sh_mask (p : list nat) : N :=
  match p with [] => 0%N | j :: r => N.lor (single j) (sh_mask r) end.

Lemma sh_tb_mask p j : tb (sh_mask p) j = true <-> In j p.
Proof.
  induction p as [|a p IH]; cbn [sh_mask In].
  - rewrite tb_0. split; [discriminate| intros []].
  - rewrite tb_lor, orb_true_iff, tb_single, Nat.eqb_eq, IH. tauto.
Qed.

Lemma sh_pred_app p1 i p2 : ~ In i p1 -> sh_pred (p1 ++ i :: p2) i = sh_mask p1.
Proof.
  induction p1 as [|a p1 IH]; intros H; cbn [app sh_pred sh_mask].
  - rewrite Nat.eqb_refl. reflexivity.
  - destruct (Nat.eqb_spec a i) as [->|_]; [exfalso; apply H; left; reflexivity|].
    rewrite IH; [reflexivity|]. intro Hin. apply H. right. exact Hin.
Qed.

Lemma sh_in_players n S j : In j (players n S) <-> (j < n)%nat /\ tb S j = true.
Proof. unfold players. rewrite filter_In, in_seq. intuition lia. Qed.

Lemma sh_NoDup_players n S : NoDup (players n S).
Proof. unfold players. apply NoDup_filter, seq_NoDup. Qed.

Lemma sh_mask_of_perm n S p : bounded n S -> Permutation (players n S) p -> sh_mask p = S.
Proof.
  intros Hb Hp. apply bits_inj_nat. intro j. apply eq_iff_eq_true. rewrite sh_tb_mask. split.
  - intros Hin. apply (Permutation_in _ (Permutation_sym Hp)) in Hin. apply sh_in_players in Hin. tauto.
  - intros Ht. apply (Permutation_in _ Hp). apply sh_in_players. split; [|exact Ht].
    destruct (Nat.lt_ge_cases j n) as [H|H]; [exact H|]. rewrite (Hb j H) in Ht. discriminate.
Qed.

(* the players outside S other than i *)
Definition sh_rest (n : nat) (S : N) (i : nat) : N := N.ldiff (N.ldiff (grand n) S) (single i).

Lemma sh_tb_rest n S i j : tb (sh_rest n S i) j = (j <? n)%nat && negb (tb S j) && negb (Nat.eqb i j).
Proof. unfold sh_rest. rewrite !tb_ldiff, tb_grand, tb_single. reflexivity. Qed.

(* seq 0 n splits into S, i, the rest *)
Lemma sh_partition n S i : (i < n)%nat -> tb S i = false ->
  Permutation (seq 0 n) (players n S ++ i :: players n (sh_rest n S i)).
Proof.
  intros Hi Ht. apply NoDup_Permutation.
  - apply seq_NoDup.
  - apply NoDup_app_intro; [apply sh_NoDup_players| |].
    + constructor; [|apply sh_NoDup_players].
      intro H. apply sh_in_players in H. destruct H as [_ H]. rewrite sh_tb_rest, Nat.eqb_refl in H.
      rewrite andb_false_r in H. discriminate.
    + intros j Hj [<-|Hj'].
      * apply sh_in_players in Hj. destruct Hj as [_ Hj]. congruence.
      * apply sh_in_players in Hj. apply sh_in_players in Hj'. destruct Hj as [_ Hj]. destruct Hj' as [_ Hj'].
        rewrite sh_tb_rest, Hj in Hj'. simpl in Hj'. rewrite andb_false_r in Hj'. discriminate.
  - intro j. rewrite in_seq, in_app_iff. simpl. rewrite !sh_in_players, sh_tb_rest. split.
    + intros Hj. destruct (tb S j) eqn:E; [left; split; [lia| reflexivity]|]. right.
      destruct (Nat.eqb_spec i j) as [->|Hne]; [left; reflexivity|]. right. split; [lia|].
      assert ((j <? n)%nat = true) as -> by (apply Nat.ltb_lt; lia). reflexivity.
    + intros [[Hj _]|[<-|[Hj _]]]; lia.
Qed.

Lemma sh_size_rest n S i : (i < n)%nat -> tb S i = false -> size n (sh_rest n S i) = (n - size n S - 1)%nat.
Proof.
  intros Hi Ht. pose proof (Permutation_length (sh_partition n S i Hi Ht)) as H.
  rewrite seq_length, app_length in H. simpl in H. unfold size. lia.
Qed.

(* ---------- the orderings whose predecessors of i are exactly S ---------- *)
Definition sh_with_pred (n i : nat) (S : N) : list (list nat) :=
  filter (fun p => N.eqb (sh_pred p i) S) (sh_perms n).
Definition sh_concats (n i : nat) (S : N) : list (list nat) :=
  map (fun pq => fst pq ++ i :: snd pq)
      (list_prod (sh_perms_of (players n S)) (sh_perms_of (players n (sh_rest n S i)))).

Lemma sh_in_with_pred n i S p :
  In p (sh_with_pred n i S) <-> Permutation (seq 0 n) p /\ sh_pred p i = S.
Proof. unfold sh_with_pred. rewrite filter_In, sh_perms_spec, N.eqb_eq. tauto. Qed.

Lemma sh_in_concats n i S p :
  In p (sh_concats n i S) <->
  exists p1 p2, Permutation (players n S) p1 /\ Permutation (players n (sh_rest n S i)) p2 /\ p = p1 ++ i :: p2.
Proof.
  unfold sh_concats. rewrite in_map_iff. split.
  - intros [[p1 p2] [<- H]]. apply in_prod_iff in H. destruct H as [H1 H2].
    exists p1, p2. split; [apply sh_perms_of_sound; exact H1| split; [apply sh_perms_of_sound; exact H2| reflexivity]].
  - intros [p1 [p2 [H1 [H2 ->]]]]. exists (p1, p2). split; [reflexivity|].
    apply in_prod_iff. split; apply sh_perms_of_complete; assumption.
Qed.

Lemma sh_with_pred_concats n i S : (i < n)%nat -> bounded n S -> tb S i = false ->
  Permutation (sh_with_pred n i S) (sh_concats n i S).
Proof.
  intros Hi Hb Ht.
  assert (HiS : forall p1, Permutation (players n S) p1 -> ~ In i p1).
  { intros p1 Hp Hin. apply (Permutation_in _ (Permutation_sym Hp)) in Hin. apply sh_in_players in Hin.
    destruct Hin as [_ Hin]. congruence. }
  apply NoDup_Permutation.
  - apply NoDup_filter, sh_perms_NoDup.
  - unfold sh_concats. apply sh_NoDup_map_on.
    + intros [p1 p2] [q1 q2] H1 H2 E. simpl in E.
      apply in_prod_iff in H1. apply in_prod_iff in H2. destruct H1 as [H1 _]. destruct H2 as [H2 _].
      apply sh_perms_of_sound in H1. apply sh_perms_of_sound in H2.
      destruct (sh_split_unique i p1 q1 p2 q2 (HiS _ H1) (HiS _ H2) E) as [-> ->]. reflexivity.
    + apply sh_NoDup_prod; apply sh_NoDup_perms_of; apply sh_NoDup_players.
  - intro p. rewrite sh_in_with_pred, sh_in_concats. split.
    + (* an ordering with pred = S splits at i *)
      intros [Hp Hpred].
      assert (Hin : In i p) by (apply (Permutation_in _ Hp); apply in_seq; lia).
      apply in_split in Hin. destruct Hin as [p1 [p2 ->]].
      assert (Hnd : NoDup (p1 ++ i :: p2)) by (apply (Permutation_NoDup Hp), seq_NoDup).
      destruct (sh_NoDup_app_inv _ _ Hnd) as [Hnd1 [Hnd2 Hdis]].
      assert (Hi1 : ~ In i p1) by (intro H; apply (Hdis i H); left; reflexivity).
      inversion Hnd2 as [|? ? Hi2 Hnd2']; subst.
      rewrite sh_pred_app in Hb, Ht |- * by exact Hi1. (* S is now sh_mask p1 *)
      assert (Hlt : forall j, In j (p1 ++ i :: p2) -> (j < n)%nat).
      { intros j Hj. apply (Permutation_in _ (Permutation_sym Hp)) in Hj. apply in_seq in Hj. lia. }
      exists p1, p2. split; [|split; [|reflexivity]].
      * apply NoDup_Permutation; [apply sh_NoDup_players| exact Hnd1|].
        intro j. rewrite sh_in_players, sh_tb_mask. split; [tauto|].
        intro Hj. split; [apply Hlt; apply in_or_app; left; exact Hj| exact Hj].
      * apply NoDup_Permutation; [apply sh_NoDup_players| exact Hnd2'|].
        intro j. rewrite sh_in_players, sh_tb_rest. split.
        -- intros [Hj H]. apply andb_true_iff in H. destruct H as [H H3]. apply andb_true_iff in H.
           destruct H as [_ H2]. apply negb_true_iff in H2. apply negb_true_iff in H3. apply Nat.eqb_neq in H3.
           assert (Hjp : In j (p1 ++ i :: p2)) by (apply (Permutation_in _ Hp); apply in_seq; lia).
           apply in_app_or in Hjp. destruct Hjp as [Hjp|[Hjp|Hjp]]; [|congruence| exact Hjp].
           apply sh_tb_mask in Hjp. congruence.
        -- intros Hj. split; [apply Hlt; apply in_or_app; right; right; exact Hj|].
           assert ((j <? n)%nat = true) as ->
             by (apply Nat.ltb_lt; apply Hlt; apply in_or_app; right; right; exact Hj).
           assert (tb (sh_mask p1) j = false) as ->.
           { destruct (tb (sh_mask p1) j) eqn:E; [|reflexivity]. apply sh_tb_mask in E.
             exfalso. apply (Hdis j E). right. exact Hj. }
           assert (Nat.eqb i j = false) as -> by (apply Nat.eqb_neq; intro; subst; contradiction).
           reflexivity.
    + (* a concatenation is an ordering with pred = S *)
      intros [p1 [p2 [H1 [H2 ->]]]]. split.
      * eapply Permutation_trans; [apply (sh_partition n S i Hi Ht)|].
        apply Permutation_app; [exact H1| apply perm_skip; exact H2].
      * rewrite sh_pred_app by (apply HiS; exact H1). apply (sh_mask_of_perm n); assumption.
Qed.

(* the count: |S|! (n-|S|-1)! = the code's coefficient *)
Theorem sh_count_with_pred n i S : (i < n)%nat -> bounded n S -> tb S i = false ->
  Z.of_nat (length (sh_with_pred n i S)) = sh_contrib n (size n S).
Proof.
  intros Hi Hb Ht. rewrite (Permutation_length (sh_with_pred_concats n i S Hi Hb Ht)).
  unfold sh_concats. rewrite map_length, prod_length, Nat2Z.inj_mul, !sh_perms_of_length.
  unfold sh_contrib. fold (size n S). fold (size n (sh_rest n S i)). rewrite sh_size_rest by assumption. reflexivity.
Qed.

Lemma sh_pred_in_without n i p : (i < n)%nat -> Permutation (seq 0 n) p -> In (sh_pred p i) (sh_without n i).
Proof.
  intros Hi Hp.
  assert (Hin : In i p) by (apply (Permutation_in _ Hp); apply in_seq; lia).
  apply in_split in Hin. destruct Hin as [p1 [p2 ->]].
  assert (Hnd : NoDup (p1 ++ i :: p2)) by (apply (Permutation_NoDup Hp), seq_NoDup).
  destruct (sh_NoDup_app_inv _ _ Hnd) as [_ [_ Hdis]].
  assert (Hi1 : ~ In i p1) by (intro H; apply (Hdis i H); left; reflexivity).
  rewrite sh_pred_app by exact Hi1. apply sh_in_without. split.
  - intros j Hj. destruct (tb (sh_mask p1) j) eqn:E; [|reflexivity]. apply sh_tb_mask in E.
    assert (In j (seq 0 n)) by (apply (Permutation_in _ (Permutation_sym Hp)); apply in_or_app; left; exact E).
    apply in_seq in H. lia.
  - destruct (tb (sh_mask p1) i) eqn:E; [|reflexivity]. apply sh_tb_mask in E. contradiction.
Qed.

Lemma sh_qsum_pick_fun (x : N) (F : N -> Q) (l : list N) :
  NoDup l -> In x l -> qsum (map (fun y => if N.eqb y x then F y else 0) l) == F x.
Proof.
  intros Hnd Hin. rewrite <- (sh_qsum_pick x (F x) l Hnd Hin). apply qsum_map_ext.
  intros y _. destruct (N.eqb_spec y x) as [->|_]; reflexivity.
Qed.

(* MAIN: for every n, every player, every game *)
Theorem sh_is_perm_avg_all n i g : (i < n)%nat -> sh_player n i g == sh_perm_avg n i g.
Proof.
  intros Hi. rewrite sh_player_eq. unfold sh_perm_avg. apply Qdiv_comp; [|reflexivity].
  set (D := fun S => g (N.lor S (single i)) - g S).
  (* each marginal contribution, written as a guarded sum over the coalitions without i *)
  rewrite (qsum_map_ext (fun p => sh_marg g p i)
             (fun p => qsum (map (fun S => if N.eqb S (sh_pred p i) then D S else 0) (sh_without n i))) (sh_perms n)).
  2:{ intros p Hp. apply sh_perms_spec in Hp.
      rewrite (sh_qsum_pick_fun (sh_pred p i) D); [reflexivity| apply NoDup_filter, NoDup_alln|].
      apply sh_pred_in_without; assumption. }
  rewrite (sh_qsum_swap (fun p S => if N.eqb S (sh_pred p i) then D S else 0)).
  apply qsum_map_ext. intros S HS. apply sh_in_without in HS. destruct HS as [Hb Ht].
  rewrite (qsum_map_ext _ (fun p => if N.eqb (sh_pred p i) S then D S else 0) (sh_perms n))
    by (intros p _; rewrite N.eqb_sym; reflexivity).
  rewrite (sh_qsum_count (fun p => N.eqb (sh_pred p i) S)). fold (sh_with_pred n i S).
  rewrite sh_count_with_pred by assumption. reflexivity.
Qed.

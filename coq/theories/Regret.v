(* Regret: executable model of incomplete_cooperative/regret.py (GameRegretMinimizer).

   Meta-coalitions (sets of viable coalitions, "nodes" of the reveal tree) are N bitmasks over the
   nc = 2^np - np - 2 re-indexed viable coalitions ("player ids" / actions 0..nc-1); ranks are positions
   in the size-sorted list meta_rank_to_id.  Values are rationals (the code uses float32).

   Python exceptions and NaN are explicit results, never a normal-looking default:
     RgIndexError  - numpy IndexError (read/write outside an allocated table)
     RgValueError  - numpy ValueError (shape mismatch, 2 ** negative integer)
     RgNaN         - a 0/0 happened: the implementation does not raise, it continues with NaN state
   Two mechanisms are modelled under two schemes each (rg_variant):
     table size   ByCount (the code as it stands: len(meta_id_to_rank) = number of viable sets)
                  ById    (len = largest id + 1)
     stored limit unclamped (as it stands) / clamped to nc (min(limit, number_of_coalitions)).
   All names carry the prefix rg_. *)
From ICG Require Import Prelude Bits.

Inductive rg_out (A : Type) : Type :=
| RgOk (a : A) | RgIndexError | RgValueError | RgNaN.
Arguments RgOk {A} a.
Arguments RgIndexError {A}.
Arguments RgValueError {A}.
Arguments RgNaN {A}.

Definition rg_bind {A B} (x : rg_out A) (f : A -> rg_out B) : rg_out B :=
  match x with
  | RgOk a => f a
  | RgIndexError => RgIndexError
  | RgValueError => RgValueError
  | RgNaN => RgNaN
  end.

Definition rg_of_option {A} (o : option A) : rg_out A :=
  match o with Some a => RgOk a | None => RgIndexError end.

Fixpoint rg_mapM {A B} (f : A -> rg_out B) (l : list A) : rg_out (list B) :=
  match l with
  | [] => RgOk []
  | x :: r => rg_bind (f x) (fun y => rg_bind (rg_mapM f r) (fun ys => RgOk (y :: ys)))
  end.

(* ---------- itertools.combinations(l, k): subsequences of length k, lexicographic in positions ---------- *)
Fixpoint rg_combs {A} (l : list A) (k : nat) {struct l} : list (list A) :=
  match k with
  | O => [[]]
  | S k' => match l with
            | [] => []
            | x :: r => map (cons x) (rg_combs r k') ++ rg_combs r k
            end
  end.

(* Coalition.from_players: sum of 2**p over set(players) = bitwise or *)
Definition rg_mask_of (c : list nat) : N := fold_right (fun i acc => N.lor (single i) acc) 0%N c.

(* Coalition.__len__: number of set bits *)
Fixpoint rg_popcount_pos (p : positive) : nat :=
  match p with xH => 1 | xO q => rg_popcount_pos q | xI q => S (rg_popcount_pos q) end%nat.
Definition rg_popcount (m : N) : nat := match m with N0 => O | Npos p => rg_popcount_pos p end.

(* metacoalition_ids_by_coalition_size, with nc = number_of_coalitions: the limit is clamped here *)
Definition rg_rank_to_id (nc lim : nat) : list N :=
  map rg_mask_of (concat (map (fun k => rg_combs (seq 0 nc) k) (seq 0 (Nat.min nc lim + 1)))).

(* scipy.special.comb(n, k) (0 for k > n) and coalitions_up_to(nc, L - 1) = sum_{k < L} C(nc, k) *)
Fixpoint rg_binom (n k : nat) : nat :=
  match k with
  | O => 1
  | S k' => match n with O => 0 | S n' => rg_binom n' k' + rg_binom n' k end
  end%nat.
Definition rg_count_below (nc L : nat) : nat := fold_right Nat.add O (map (rg_binom nc) (seq 0 L)).

(* ---------- id -> rank table ---------- *)
Inductive rg_policy := ByCount | ById.
Record rg_variant := rg_mkvariant { rg_pol : rg_policy; rg_clamp : bool }.

(* np.zeros(len, dtype=int) followed by table[ids] = arange(len(ids)); never materialised (len can be 2^24+1) *)
Record rg_table := rg_mktable { rg_tlen : N; rg_tids : list N }.

Definition rg_table_len (p : rg_policy) (ids : list N) : N :=
  match p with
  | ByCount => N.of_nat (length ids)
  | ById => N.succ (fold_right N.max 0%N ids)
  end.

(* the fancy assignment raises IndexError when any id is outside the table *)
Definition rg_mk_table (p : rg_policy) (ids : list N) : option rg_table :=
  let len := rg_table_len p ids in
  if forallb (fun i => N.ltb i len) ids then Some (rg_mktable len ids) else None.

(* position written last for this id; the zero the array was initialised with when never written *)
Fixpoint rg_find (id : N) (ids : list N) (r acc : nat) : nat :=
  match ids with
  | [] => acc
  | i :: rest => rg_find id rest (S r) (if N.eqb i id then r else acc)
  end.

Definition rg_lookup (t : rg_table) (id : N) : option nat :=
  if N.ltb id (rg_tlen t) then Some (rg_find id (rg_tids t) O O) else None.

Definition rg_id_to_rank (p : rg_policy) (nc lim : nat) (id : N) : option nat :=
  match rg_mk_table p (rg_rank_to_id nc lim) with
  | Some t => rg_lookup t id
  | None => None
  end.

(* ---------- get_coalition_player_id_map ---------- *)
Definition rg_ncoal (np : nat) : nat := (2 ^ np - np - 2)%nat.

Definition rg_viable (np : nat) (c : N) : bool :=
  let s := size np c in negb (Nat.eqb s 0 || Nat.eqb s 1 || Nat.eqb s np).

Fixpoint rg_pidmap_go (np : nat) (ids : list N) (next : nat) : list Z :=
  match ids with
  | [] => []
  | c :: r => if rg_viable np c then Z.of_nat next :: rg_pidmap_go np r (S next)
              else (-1)%Z :: rg_pidmap_go np r next
  end.
Definition rg_player_id_map (np : nat) : list Z := rg_pidmap_go np (alln np) O.

(* get_metacoalition_id: filters len(x) in [0, 1, 2**np] (sic), looks the player ids up, sums 2**pid
   (a repeated coalition is added twice; the grand coalition has pid -1 and 2 ** -1 raises) *)
Definition rg_meta_id (np : nat) (pmap : list Z) (cs : list N) : rg_out N :=
  fold_left (fun acc c =>
    rg_bind acc (fun a =>
      let k := rg_popcount c in
      if (Nat.eqb k 0 || Nat.eqb k 1 || Nat.eqb k (2 ^ np))%nat then RgOk a
      else match nth_error pmap (N.to_nat c) with
           | None => RgIndexError
           | Some z => if (z <? 0)%Z then RgValueError else RgOk (a + 2 ^ Z.to_N z)%N
           end)) cs (RgOk 0%N).

(* ---------- the minimiser object ---------- *)
Record rg_rm := rg_mkrm {
  rg_np : nat;                    (* number_of_players *)
  rg_nc : nat;                    (* number_of_coalitions *)
  rg_lim : nat;                   (* limit_of_revealed as stored *)
  rg_plus : bool;
  rg_r2i : list N;                (* meta_rank_to_id *)
  rg_tab : rg_table;              (* meta_id_to_rank *)
  rg_nrm : nat;                   (* number_of_regret_minimizers *)
  rg_pmap : list Z;               (* coalitions_to_player_ids *)
  rg_regret : list (list Q);      (* cumulative_regret, nrm x nc *)
  rg_strat : list (list Q);       (* cumulative_strategy, nrm x nc *)
  rg_iter : nat                   (* iteration *)
}.

Definition rg_zeros (k : nat) : list Q := repeat 0 k.
Definition rg_zeros2 (r c : nat) : list (list Q) := repeat (rg_zeros c) r.

(* __init__ with number_of_coalitions as an explicit argument *)
Definition rg_mk (v : rg_variant) (np nc lim : nat) (plus : bool) : rg_out rg_rm :=
  let L := if rg_clamp v then Nat.min lim nc else lim in
  let r2i := rg_rank_to_id nc L in
  match rg_mk_table (rg_pol v) r2i with
  | None => RgIndexError
  | Some t =>
    let nrm := rg_count_below nc L in
    RgOk (rg_mkrm np nc L plus r2i t nrm (rg_player_id_map np) (rg_zeros2 nrm nc) (rg_zeros2 nrm nc) O)
  end.

Definition rg_construct (v : rg_variant) (np lim : nat) (plus : bool) : rg_out rg_rm :=
  rg_mk v np (rg_ncoal np) lim plus.

(* ---------- regret matching ---------- *)
Definition rg_pos (x : Q) : Q := if Qle_bool x 0 then 0 else x.           (* x * (x > 0) *)

Definition rg_normalize (vv : list Q) : rg_out (list Q) :=
  let s := qsum vv in
  if Qeq_bool s 0 then RgNaN else RgOk (map (fun x => Qred (x / s)) vv).

Definition rg_uniform_unused (nc : nat) (m : N) : list Q :=
  map (fun a => if tb m a then 0 else 1) (seq 0 nc).

(* regret_matching_strategy from the node's regret row *)
Definition rg_match (nc : nat) (m : N) (row : list Q) : rg_out (list Q) :=
  let pos := map rg_pos row in
  if Qeq_bool (qsum pos) 0 then rg_normalize (rg_uniform_unused nc m) else rg_normalize pos.

Definition rg_strategy (s : rg_rm) (m : N) : rg_out (list Q) :=
  rg_bind (rg_of_option (rg_lookup (rg_tab s) m)) (fun rank =>
  rg_bind (rg_of_option (nth_error (rg_regret s) rank)) (fun row =>
  rg_match (rg_nc s) m row)).

(* ---------- one iteration ---------- *)
Fixpoint rg_upd {A} (i : nat) (x : A) (l : list A) : list A :=
  match l with
  | [] => []
  | y :: r => match i with O => x :: r | S i' => y :: rg_upd i' x r end
  end.

Definition rg_write_all {A} (ws : list (nat * A)) (l : list A) : list A :=
  fold_left (fun acc w => rg_upd (fst w) (snd w) acc) ws l.

Fixpoint rg_dot (a b : list Q) : Q :=
  match a, b with
  | x :: a', y :: b' => x * y + rg_dot a' b'
  | _, _ => 0
  end.

Fixpoint rg_map2 {A B C} (f : A -> B -> C) (a : list A) (b : list B) : list C :=
  match a, b with
  | x :: a', y :: b' => f x y :: rg_map2 f a' b'
  | _, _ => []
  end.

(* actions still available at node m: list(Coalition(m).inverted(nc).players) *)
Definition rg_children (nc : nat) (m : N) : list nat := filter (fun a => negb (tb m a)) (seq 0 nc).

Definition rg_child_ranks (s : rg_rm) (m : N) (pids : list nat) : rg_out (list nat) :=
  rg_mapM (fun a => rg_of_option (rg_lookup (rg_tab s) (N.lor m (single a)))) pids.

(* top-down: reach[child ranks] += reach[i] * strategy[pids]  (numpy computes all right-hand sides first) *)
Definition rg_down_step (s : rg_rm) (reach : list Q) (i : nat) : rg_out (list Q) :=
  rg_bind (rg_of_option (nth_error (rg_r2i s) i)) (fun m =>
  let pids := rg_children (rg_nc s) m in
  rg_bind (rg_child_ranks s m pids) (fun ranks =>
  rg_bind (rg_strategy s m) (fun sg =>
  let ri := nth i reach 0 in
  let vals := rg_map2 (fun r a => Qred (nth r reach 0 + ri * nth a sg 0)) ranks pids in
  RgOk (rg_write_all (combine ranks vals) reach)))).

Definition rg_down (s : rg_rm) : rg_out (list Q) :=
  fold_left (fun acc i => rg_bind acc (fun reach => rg_down_step s reach i))
            (seq 0 (rg_nrm s))
            (RgOk (rg_upd 0 1 (rg_zeros (length (rg_r2i s))))).

(* bottom-up state: experienced_losses, q_values, cumulative_strategy *)
Definition rg_up_state := (list Q * list (list Q) * list (list Q))%type.

Definition rg_up_step (s : rg_rm) (reach : list Q) (w : Q) (st : rg_up_state) (i : nat) : rg_out rg_up_state :=
  let '(exl, qs, strat) := st in
  rg_bind (rg_of_option (nth_error (rg_r2i s) i)) (fun m =>
  let pids := rg_children (rg_nc s) m in
  rg_bind (rg_child_ranks s m pids) (fun ranks =>
  let qrow := rg_write_all (combine pids (map (fun r => nth r exl 0) ranks)) (rg_zeros (rg_nc s)) in
  rg_bind (rg_strategy s m) (fun sg =>
  let ev := Qred (rg_dot qrow sg) in
  rg_bind (rg_of_option (nth_error strat i)) (fun srow =>
  let ri := nth i reach 0 in
  let srow' := rg_map2 (fun c x => Qred (c + w * x * ri)) srow sg in
  RgOk (rg_upd i ev exl, rg_upd i qrow qs, rg_upd i srow' strat))))).

Definition rg_up (s : rg_rm) (reach : list Q) (w : Q) (exl0 : list Q) : rg_out rg_up_state :=
  fold_left (fun acc i => rg_bind acc (fun st => rg_up_step s reach w st i))
            (rev (seq 0 (rg_nrm s)))
            (RgOk (exl0, rg_zeros2 (rg_nrm s) (rg_nc s), rg_strat s)).

(* cumulative_regret += q_values - experienced_losses[arange(nrm), None]; plus: *= (> 0) *)
Definition rg_regret_row (plus : bool) (row qrow : list Q) (ev : Q) : list Q :=
  rg_map2 (fun c q => let x := Qred (c + (q - ev)) in if plus then rg_pos x else x) row qrow.

Fixpoint rg_regret_update (plus : bool) (reg qs : list (list Q)) (exl : list Q) : list (list Q) :=
  match reg, qs, exl with
  | row :: reg', qrow :: qs', ev :: exl' => rg_regret_row plus row qrow ev :: rg_regret_update plus reg' qs' exl'
  | _, _, _ => []
  end.

Definition rg_with_arrays (s : rg_rm) (it : nat) (reg st : list (list Q)) : rg_rm :=
  rg_mkrm (rg_np s) (rg_nc s) (rg_lim s) (rg_plus s) (rg_r2i s) (rg_tab s) (rg_nrm s) (rg_pmap s) reg st it.

(* regret_min_iteration(terminal_losses, used_actions) *)
Definition rg_iteration (s : rg_rm) (terminal : list Q) (used : list (list N)) : rg_out rg_rm :=
  let it := S (rg_iter s) in
  rg_bind (rg_mapM (fun cs => rg_bind (rg_meta_id (rg_np s) (rg_pmap s) cs)
                                      (fun m => rg_of_option (rg_lookup (rg_tab s) m))) used) (fun uranks =>
  if negb (Nat.eqb (length uranks) (length terminal)) then RgValueError else
  let exl0 := rg_write_all (combine uranks terminal) (rg_zeros (length (rg_r2i s))) in
  rg_bind (rg_down s) (fun reach =>
  let w := if rg_plus s then inject_Z (Z.of_nat it) else 1 in
  rg_bind (rg_up s reach w exl0) (fun st =>
  let '(exl, qs, strat) := st in
  RgOk (rg_with_arrays s it (rg_regret_update (rg_plus s) (rg_regret s) qs exl) strat)))).

Fixpoint rg_run (s : rg_rm) (hist : list (list Q * list (list N))) : rg_out rg_rm :=
  match hist with
  | [] => RgOk s
  | (t, u) :: r => rg_bind (rg_iteration s t u) (fun s' => rg_run s' r)
  end.

(* the standard used_actions argument: one singleton-free list of coalitions per bottom node (sets of size limit),
   here directly as meta-coalition ids: ranks nrm .. V-1 *)
Definition rg_bottom_ids (s : rg_rm) : list N := skipn (rg_nrm s) (rg_r2i s).

(* ---------- average strategy ---------- *)
(* in player-id space (length nc) *)
Definition rg_average_pid (s : rg_rm) (m : N) : rg_out (list Q) :=
  rg_bind (rg_of_option (rg_lookup (rg_tab s) m)) (fun rank =>
  rg_bind (rg_of_option (nth_error (rg_strat s) rank)) (fun row =>
  let cum := if forallb (fun x => Qeq_bool x 0) row then rg_uniform_unused (rg_nc s) m else row in
  RgOk cum)).

(* get_average_strategy(past_actions): indexed by the coalitions of the original game (length 2^np);
   a coalition with player id -1 reads the last entry (Python negative index) and is multiplied by 0 *)
Definition rg_average_strategy (s : rg_rm) (past : list N) : rg_out (list Q) :=
  rg_bind (rg_meta_id (rg_np s) (rg_pmap s) past) (fun m =>
  rg_bind (rg_average_pid s m) (fun cum =>
  let coals := map (fun z => if (z <? 0)%Z then 0 else nth (Z.to_nat z) cum 0) (rg_pmap s) in
  rg_normalize coals)).

(* ---------- save / load ---------- *)
Record rg_saved := rg_mksaved {
  rg_sv_iter : nat; rg_sv_np : nat; rg_sv_lim : nat; rg_sv_plus : bool;
  rg_sv_regret : list (list Q); rg_sv_strat : list (list Q) }.

Definition rg_save (s : rg_rm) : rg_saved :=
  rg_mksaved (rg_iter s) (rg_np s) (rg_lim s) (rg_plus s) (rg_regret s) (rg_strat s).

Definition rg_load (v : rg_variant) (sv : rg_saved) : rg_out rg_rm :=
  rg_bind (rg_construct v (rg_sv_np sv) (rg_sv_lim sv) (rg_sv_plus sv)) (fun s0 =>
  RgOk (rg_with_arrays s0 (rg_sv_iter sv) (rg_sv_regret sv) (rg_sv_strat sv))).

(* strategies of every decision node, in rank order (what the harness compares after each step) *)
Definition rg_all_strategies (s : rg_rm) : rg_out (list (list Q)) :=
  rg_mapM (fun m => rg_strategy s m) (firstn (rg_nrm s) (rg_r2i s)).
Definition rg_all_averages (s : rg_rm) : rg_out (list (list Q)) :=
  rg_mapM (fun m => rg_bind (rg_average_pid s m) rg_normalize) (firstn (rg_nrm s) (rg_r2i s)).

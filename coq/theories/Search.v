(* Search: exhaustive search over reveal sets (gameplay.py), the meta-game (meta_game.py), the per-size best
   (run/best_states.py) and the Pool.starmap distribution of tasks (C11). Prefix sr_. *)
From ICG Require Import Prelude Bits Table Bounds GameOps Shapley Exploit Norms Env Combs.
From Coq Require Import ZArith.

(* possible_next_actions: unknown coalitions in id order *)
Definition sr_actions (n : nat) (t : table) : list N := unknown_ids n t.
(* possible_action_sequences: subsets of the unknown coalitions by increasing size, combinations order *)
Definition sr_sequences (n : nat) (t : table) (max_size : option nat) : list (list N) :=
  let acts := sr_actions n t in
  cb_upto (match max_size with Some m => m | None => length acts end) acts.

(* known coalitions of a game, in id order (get_known_coalitions) *)
Definition sr_known (n : nat) (t : table) : list N := filter (fun s => known (get t s)) (alln n).

(* apply_action_sequence + compute + gap: the table is rebuilt from scratch (set_known_values re-initialises),
   whatever the incoming table [t_in] of the (possibly shared, possibly stale) game object was *)
Definition sr_apply (t_in : table) (v : list Q) (ids : list N) : table :=
  fst (set_known_some t_in ids (map (ev_val v) ids)).
Definition sr_value (c : computer) (g : gapfn) (n : nat) (t_in : table) (v : list Q)
           (known : list N) (seq : list N) : option Q :=
  match compute c n (sr_apply t_in v (seq ++ known)) with
  | Some t' => ev_gap g n t'
  | None => None
  end.

(* Pool.starmap: the task list is cut into chunks; each chunk starts from a private copy of the parent's game
   object [t0] and threads ITS copy through its tasks in order; results are concatenated in input order.
   A task returns (result, table left in the shared object). *)
Section Starmap.
  Variables (Task Res : Type).
  Variable f : table -> Task -> Res * table.
  Fixpoint sr_chunk_run (t : table) (tasks : list Task) : list Res :=
    match tasks with
    | [] => []
    | x :: r => let (y, t') := f t x in y :: sr_chunk_run t' r
    end.
  Fixpoint sr_starmap (t0 : table) (chunks : list (list Task)) : list Res :=
    match chunks with
    | [] => []
    | ch :: r => sr_chunk_run t0 ch ++ sr_starmap t0 r
    end.
End Starmap.

(* the task of gameplay._get_act_sequence_exploitability on a shared game object *)
Definition sr_task (c : computer) (g : gapfn) (n : nat) (v : list Q) (known : list N)
           (t : table) (seq : list N) : (list N * option Q) * table :=
  let t1 := sr_apply t v (seq ++ known) in
  match compute c n t1 with
  | Some t2 => ((seq, ev_gap g n t2), t2)
  | None => ((seq, None), t1)
  end.

(* the meta-game: value of a set of explorable coalitions = gap after revealing minimal information + the set *)
Definition sr_minimal (n : nat) : list N := 0%N :: grand n :: map single (seq 0 n).
Definition sr_meta_value (c : computer) (g : gapfn) (n : nat) (t_in : table) (v : list Q) (inner : list N) : option Q :=
  sr_value c g n t_in v (sr_minimal n) inner.

(* ---------- best states: per size, the sequence with the smallest mean over the sampled games ---------- *)
Definition sr_mean (col : list Q) : Q := qsum col / inject_Z (Z.of_nat (length col)).
Record sr_best := mkbest { sb_col : list Q; sb_seq : list N }.
Definition sr_placeholder (reps : nat) : sr_best := mkbest (repeat (-1) reps) [].
(* one iteration of the loop of get_best_exploitability *)
Definition sr_best_step (bests : list sr_best) (cand : list N * list Q) : list sr_best :=
  let steps := length (fst cand) in
  match nth_error bests steps with
  | None => bests
  | Some b =>
    if Qeq_bool (sr_mean (sb_col b)) (-1) || negb (Qle_bool (sr_mean (sb_col b)) (sr_mean (snd cand)))
    then firstn steps bests ++ mkbest (snd cand) (fst cand) :: skipn (S steps) bests
    else bests
  end.
Definition sr_best_states (max_steps reps : nat) (cands : list (list N * list Q)) : list sr_best :=
  fold_left sr_best_step cands (repeat (sr_placeholder reps) (S max_steps)).

(* Crash: executable model of what the file system holds when a save is cut short.

   State: kernel-visible files [path -> bytes] plus, for every open handle, the path its inode currently has
   (None once unlinked) and the bytes still sitting in the user-space buffers of the Python io stack
   (TextIOWrapper pending bytes + BufferedWriter buffer; they are one FIFO).

   Operations of a trace (one per call the harness can intercept):
     Cr_OpenTrunc h p   open(p, "w"): p now exists and is empty (O_TRUNC), fresh empty buffer
     Cr_OpenTmp h q     the same on a temporary path (kept apart only so that traces say what they mean)
     Cr_Write h b       f.write: appends to the user-space buffer, nothing reaches the kernel
     Cr_Spill h n       the runtime writes the oldest n buffered bytes through (buffer full)       [see DESIGN_NOTES/C20]
     Cr_Flush h         the whole buffer is written through
     Cr_Close h         flush, then close
     Cr_Replace q p     os.replace(q, p): p atomically gets q's inode, q disappears; handles follow their inode

   A process death after a prefix of a trace leaves the kernel-visible files of that prefix (buffers are lost).
   An interrupt (a Python exception) additionally runs the pending with-block exits: every open handle is closed,
   which flushes it.

   Assumptions built into this semantics (restated in C20.v and in the evidence): rename within a directory is
   atomic; bytes handed to the kernel by a completed write are not undone by the death of the process; power loss
   and fsync ordering are out of scope. *)
From Coq Require Import List NArith Bool Arith.
Import ListNotations.

Definition cr_bytes := list N.

Inductive cr_op :=
| Cr_OpenTrunc (h p : N)
| Cr_OpenTmp (h q : N)
| Cr_Write (h : N) (b : cr_bytes)
| Cr_Spill (h : N) (n : nat)
| Cr_Flush (h : N)
| Cr_Close (h : N)
| Cr_Replace (q p : N).

(* Cr_Partial n: the process stops and of every open handle's buffer only the oldest n bytes still reach the kernel.
   It covers (a) a process killed in the middle of a write system call that had transferred n bytes and
   (b) CPython's behaviour when the exception is raised inside a buffer flush: TextIOWrapper / BufferedWriter
   drop the chunk being written and close() discards what is left.  Cr_Death is Cr_Partial 0 and
   Cr_Interrupt is Cr_Partial (anything >= the buffer length) as far as the files are concerned. *)
Inductive cr_mode := Cr_Death | Cr_Interrupt | Cr_Partial (n : nat).

(* ---------- finite maps keyed by N (kept duplicate-free so that traces of 10^5 operations stay small) ---------- *)
Fixpoint cr_get {A} (m : list (N * A)) (k : N) : option A :=
  match m with
  | [] => None
  | (k', v) :: r => if N.eqb k k' then Some v else cr_get r k
  end.

Fixpoint cr_del {A} (m : list (N * A)) (k : N) : list (N * A) :=
  match m with
  | [] => []
  | (k', v) :: r => if N.eqb k k' then cr_del r k else (k', v) :: cr_del r k
  end.

Definition cr_put {A} (m : list (N * A)) (k : N) (v : A) : list (N * A) := (k, v) :: cr_del m k.

(* File contents are kept newest byte first, so that appending a chunk costs the chunk and not the file
   (traces of 2 MB payloads are replayed by the driver); [cr_file] gives the content in file order. *)
Definition cr_fsmap := list (N * cr_bytes).
Definition cr_handles := list (N * (option N * cr_bytes)).

Record cr_state := cr_mkstate { cr_fs : cr_fsmap; cr_open : cr_handles }.

Definition cr_rev (b : cr_bytes) : cr_bytes := rev_append b [].     (* linear-time List.rev *)

(* a directory given in file order *)
Definition cr_mkfs (files : list (N * cr_bytes)) : cr_fsmap :=
  map (fun e : N * cr_bytes => (fst e, cr_rev (snd e))) files.

Definition cr_file (fs : cr_fsmap) (p : N) : option cr_bytes :=
  match cr_get fs p with Some c => Some (cr_rev c) | None => None end.

Definition cr_init (fs : cr_fsmap) : cr_state := cr_mkstate fs [].

(* append bytes to the file a handle points to (dropped when the inode has no name any more) *)
Definition cr_append (fs : cr_fsmap) (target : option N) (b : cr_bytes) : cr_fsmap :=
  match target with
  | None => fs
  | Some p => match cr_get fs p with
              | Some c => cr_put fs p (rev_append b c)
              | None => fs
              end
  end.

(* after os.replace(q, p): handles on q now name p, handles on the old p name nothing *)
Definition cr_retarget (q p : N) (hs : cr_handles) : cr_handles :=
  map (fun e : N * (option N * cr_bytes) =>
         let '(h, (t, buf)) := e in
         match t with
         | Some x => if N.eqb x q then (h, (Some p, buf))
                     else if N.eqb x p then (h, (None, buf)) else e
         | None => e
         end) hs.

Definition cr_step (s : cr_state) (o : cr_op) : cr_state :=
  match o with
  | Cr_OpenTrunc h p | Cr_OpenTmp h p =>
    cr_mkstate (cr_put (cr_fs s) p []) (cr_put (cr_open s) h (Some p, []))
  | Cr_Write h b =>
    match cr_get (cr_open s) h with
    | Some (t, buf) => cr_mkstate (cr_fs s) (cr_put (cr_open s) h (t, buf ++ b))
    | None => s
    end
  | Cr_Spill h n =>
    match cr_get (cr_open s) h with
    | Some (t, buf) => cr_mkstate (cr_append (cr_fs s) t (firstn n buf)) (cr_put (cr_open s) h (t, skipn n buf))
    | None => s
    end
  | Cr_Flush h =>
    match cr_get (cr_open s) h with
    | Some (t, buf) => cr_mkstate (cr_append (cr_fs s) t buf) (cr_put (cr_open s) h (t, []))
    | None => s
    end
  | Cr_Close h =>
    match cr_get (cr_open s) h with
    | Some (t, buf) => cr_mkstate (cr_append (cr_fs s) t buf) (cr_del (cr_open s) h)
    | None => s
    end
  | Cr_Replace q p =>
    match cr_get (cr_fs s) q with
    | Some c => cr_mkstate (cr_put (cr_del (cr_fs s) q) p c) (cr_retarget q p (cr_open s))
    | None => s                                   (* FileNotFoundError: nothing changes *)
    end
  end.

Definition cr_run (s : cr_state) (tr : list cr_op) : cr_state := fold_left cr_step tr s.

(* the with-block exits of an interrupted save: close whatever is open *)
Definition cr_unwind (s : cr_state) : cr_state :=
  cr_run s (map (fun e : N * (option N * cr_bytes) => Cr_Close (fst e)) (cr_open s)).

Definition cr_unwind_partial (n : nat) (s : cr_state) : cr_state :=
  cr_run s (map (fun e : N * (option N * cr_bytes) => Cr_Spill (fst e) n) (cr_open s)).

(* the files left behind when the process stops in state [s] *)
Definition cr_stop (m : cr_mode) (s : cr_state) : cr_fsmap :=
  match m with
  | Cr_Death => cr_fs s
  | Cr_Interrupt => cr_fs (cr_unwind s)
  | Cr_Partial n => cr_fs (cr_unwind_partial n s)
  end.

(* ... when it stops after the operations [tr], started on the directory [fs] *)
Definition cr_crash (m : cr_mode) (tr : list cr_op) (fs : cr_fsmap) : cr_fsmap :=
  cr_stop m (cr_run (cr_init fs) tr).

(* ---------- the two save procedures ---------- *)
(* The body is the part the runtime decides: how json.dump chunks the text into f.write calls and when the
   buffers spill.  It is legal for a payload when it only writes / spills / flushes handle h and the written
   chunks concatenate to the payload. *)
Fixpoint cr_bytes_eqb (a b : cr_bytes) : bool :=
  match a, b with
  | [], [] => true
  | x :: a', y :: b' => N.eqb x y && cr_bytes_eqb a' b'
  | _, _ => false
  end.

Definition cr_body_op (h : N) (o : cr_op) : bool :=
  match o with
  | Cr_Write h' _ | Cr_Spill h' _ | Cr_Flush h' => N.eqb h' h
  | _ => false
  end.

Fixpoint cr_written (body : list cr_op) : cr_bytes :=
  match body with
  | [] => []
  | Cr_Write _ b :: r => b ++ cr_written r
  | _ :: r => cr_written r
  end.

Definition cr_body_ok (h : N) (payload : cr_bytes) (body : list cr_op) : bool :=
  forallb (cr_body_op h) body && cr_bytes_eqb (cr_written body) payload.

(* the code as it stands:  with path.open("w") as f: json.dump(data, f) *)
Definition cr_save_inplace (h p : N) (body : list cr_op) : list cr_op :=
  Cr_OpenTrunc h p :: body ++ [Cr_Close h].

(* the repaired code: with tmp.open("w") as f: json.dump(data, f);  os.replace(tmp, path) *)
Definition cr_save_atomic (h p q : N) (body : list cr_op) : list cr_op :=
  Cr_OpenTmp h q :: body ++ [Cr_Close h; Cr_Replace q p].

Inductive cr_scheme := Cr_InPlace | Cr_Atomic.

Definition cr_save_trace (sc : cr_scheme) (h p q : N) (body : list cr_op) : list cr_op :=
  match sc with
  | Cr_InPlace => cr_save_inplace h p body
  | Cr_Atomic => cr_save_atomic h p q body
  end.

Definition cr_op_eqb (a b : cr_op) : bool :=
  match a, b with
  | Cr_OpenTrunc h p, Cr_OpenTrunc h' p' => N.eqb h h' && N.eqb p p'
  | Cr_OpenTmp h p, Cr_OpenTmp h' p' => N.eqb h h' && N.eqb p p'
  | Cr_Write h b, Cr_Write h' b' => N.eqb h h' && cr_bytes_eqb b b'
  | Cr_Spill h n, Cr_Spill h' n' => N.eqb h h' && Nat.eqb n n'
  | Cr_Flush h, Cr_Flush h' => N.eqb h h'
  | Cr_Close h, Cr_Close h' => N.eqb h h'
  | Cr_Replace q p, Cr_Replace q' p' => N.eqb q q' && N.eqb p p'
  | _, _ => false
  end.

Fixpoint cr_trace_eqb (a b : list cr_op) : bool :=
  match a, b with
  | [], [] => true
  | x :: a', y :: b' => cr_op_eqb x y && cr_trace_eqb a' b'
  | _, _ => false
  end.

(* content of path p after a crash at operation index k *)
Definition cr_crash_at (m : cr_mode) (tr : list cr_op) (k : nat) (fs : cr_fsmap) (p : N) : option cr_bytes :=
  cr_file (cr_crash m (firstn k tr) fs) p.

(* ---------- sessions: sequences of saves on one results file, any of which may be cut short ---------- *)
(* [encode] / [decode] stand for json.dump / json.loads on whole dictionaries (CPython's codec is trusted, not
   modelled); [policy] is how the runtime chunks and spills a payload.  Entries are those of Store.v. *)
From ICG Require Import Store.

Section CrSession.
  Context {E : Type}.
  Variable encode : list (st_str * E) -> cr_bytes.
  Variable decode : cr_bytes -> option (list (st_str * E)).
  Variable policy : cr_bytes -> list cr_op.
  Variables (h p q : N).

  (* the dictionary save_json starts from: {} when the file does not exist, json.loads(text) otherwise
     (None: json.loads raises, the save dies before touching the file) *)
  Definition cr_load (fs : cr_fsmap) : option (list (st_str * E)) :=
    match cr_file fs p with
    | None => Some []
    | Some b => decode b
    end.

  Record cr_req := cr_mkreq { cr_name : st_str; cr_entry : E; cr_fault : option (nat * cr_mode) }.

  Definition cr_save_session (sc : cr_scheme) (fs : cr_fsmap) (r : cr_req) : cr_fsmap :=
    match cr_load fs with
    | None => fs
    | Some s =>
      if st_mem (cr_name r) s then fs
      else
        let tr := cr_save_trace sc h p q (policy (encode (st_save s (cr_name r) (cr_entry r)))) in
        match cr_fault r with
        | None => cr_fs (cr_run (cr_init fs) tr)
        | Some (k, m) => cr_crash m (firstn k tr) fs
        end
    end.

  Definition cr_session (sc : cr_scheme) (fs : cr_fsmap) (reqs : list cr_req) : cr_fsmap :=
    fold_left (cr_save_session sc) reqs fs.
End CrSession.

(* EvaluateProofs: eval_one records true trajectories; with per-environment streams the result of evaluate() does
   not depend on the distribution over worker processes and repetitions use distinct streams; with one shared
   stream it does not (refutation by computation) (C12). *)
From ICG Require Import Prelude Bits Table Bounds GameOps FoldLemmas SAKnowledge SAMKnowledge Shapley Exploit Norms Env EnvProofs Evaluate.
From Coq Require Import ZArith.

(* ---------- eval_one records the trajectory ---------- *)
(* the recorded rows and actions are those of the trace [EReset; EStep a1; ...; EStep ak] of the environment *)
Fixpoint el_states (e : env) (acts : list nat) : option (list env) :=
  match acts with
  | [] => Some []
  | a :: r => match ev_step e a with
              | Some e1 => match el_states e1 r with Some es => Some (e1 :: es) | None => None end
              | None => None
              end
  end.

Lemma el_loop_spec policy e fuel gs cs :
  el_loop policy e fuel = Some (gs, cs) ->
  exists acts es, (length acts <= fuel)%nat /\ el_states e acts = Some es
    /\ gs = map ev_gapv es
    /\ length cs = length acts
    /\ (forall i a, nth_error acts i = Some a ->
          exists ei, nth_error (e :: es) i = Some ei /\ policy ei = Some a /\ nth_error cs i = ev_coal ei a /\ ev_coal ei a <> None).
Proof.
  revert e gs cs. induction fuel as [|f IH]; intros e gs cs H; simpl in H.
  - injection H as <- <-. exists [], []. simpl. split; [lia|]. split; [reflexivity|]. split; [reflexivity|]. split; [reflexivity|].
    intros [|i] a Hi; discriminate.
  - destruct (policy e) as [a|] eqn:Hp; [|discriminate].
    destruct (ev_step e a) as [e1|] eqn:Hs; [|discriminate].
    destruct (ev_coal e a) as [c|] eqn:Hc; [|discriminate].
    destruct (ev_done e1).
    + injection H as <- <-. exists [a], [e1]. simpl. rewrite Hs.
      split; [lia|]. split; [reflexivity|]. split; [reflexivity|]. split; [reflexivity|].
      intros [|i] a' Hi; simpl in Hi; [|destruct i; discriminate]. injection Hi as <-.
      exists e. simpl. rewrite Hc. split; [reflexivity|]. split; [exact Hp|]. split; [reflexivity| discriminate].
    + destruct (el_loop policy e1 f) as [[gs1 cs1]|] eqn:Hl; [|discriminate]. injection H as <- <-.
      destruct (IH e1 gs1 cs1 Hl) as [acts [es [H1 [H2 [H3 [H4 H5]]]]]].
      exists (a :: acts), (e1 :: es). simpl. rewrite Hs, H2.
      split; [lia|]. split; [reflexivity|]. split; [rewrite H3; reflexivity|]. split; [rewrite H4; reflexivity|].
      intros [|i] a' Hi; simpl in Hi.
      * injection Hi as <-. exists e. simpl. rewrite Hc. split; [reflexivity|]. split; [exact Hp|]. split; [reflexivity| discriminate].
      * destruct (H5 i a' Hi) as [ei [E1 [E2 [E3 E4]]]]. exists ei. simpl. auto.
Qed.

Lemma el_states_length e acts es : el_states e acts = Some es -> length es = length acts.
Proof.
  revert e es. induction acts as [|a acts IH]; intros e es H; simpl in H; [injection H as <-; reflexivity|].
  destruct (ev_step e a) as [e1|]; [|discriminate]. destruct (el_states e1 acts) as [es1|] eqn:E; [|discriminate].
  injection H as <-. simpl. f_equal. eapply IH; eauto.
Qed.

Lemma el_states_run e acts es : el_states e acts = Some es ->
  forall k, (k <= length acts)%nat -> ev_run e (map EStep (firstn k acts)) = nth_error (e :: es) k.
Proof.
  revert e es. induction acts as [|a acts IH]; intros e es H k Hk; simpl in *.
  - injection H as <-. assert (k = 0%nat) by lia. subst. reflexivity.
  - destruct (ev_step e a) as [e1|] eqn:Hs; [|discriminate].
    destruct (el_states e1 acts) as [es1|] eqn:H1; [|discriminate]. injection H as <-.
    destruct k as [|k]; [reflexivity|]. simpl. rewrite Hs. apply IH; [exact H1| lia].
Qed.

(* C12, recording: row 0 is the gap after the reset with THIS repetition's hidden game; row t+1 the gap after the
   t-th chosen coalition in that same game; the action matrix holds the ids actually revealed *)
Theorem el_eval_one_records policy e limit v nv gs cs :
  ev_wf e -> el_eval_one policy e limit v nv = Some (gs, cs) ->
  exists e0 acts es,
    ev_reset e v nv = Some e0 /\ e_hidden e0 = v /\ (length acts <= limit)%nat
    /\ gs = ev_gapv e0 :: map ev_gapv es /\ length cs = length acts
    /\ (forall t, (t < length acts)%nat ->
          exists et et1 a c, ev_run e (EReset v nv :: map EStep (firstn t acts)) = Some et
                          /\ policy et = Some a /\ nth_error acts t = Some a
                          /\ ev_step et a = Some et1 /\ nth_error es t = Some et1
                          /\ nth_error cs t = Some c /\ nth_error (e_expl e) a = Some c
                          /\ Kn (e_tab et) c = false /\ Kn (e_tab et1) c = true).
Proof.
  intros Hwf H. unfold el_eval_one in H. destruct (ev_reset e v nv) as [e0|] eqn:Hr; [|discriminate].
  destruct (el_loop policy e0 limit) as [[gs1 cs1]|] eqn:Hl; [|discriminate]. injection H as <- <-.
  destruct (el_loop_spec policy e0 limit gs1 cs1 Hl) as [acts [es [H1 [H2 [H3 [H4 H5]]]]]].
  destruct (ev_reset_inv e v nv e0 Hwf Hr) as [Hc [Hwf0 [Hh [_ Hi0]]]].
  exists e0, acts, es. split; [reflexivity|]. split; [exact Hh|]. split; [exact H1|]. split; [rewrite H3; reflexivity|].
  split; [exact H4|]. intros t Ht.
  destruct (nth_error acts t) as [a|] eqn:Ha; [|apply nth_error_None in Ha; lia].
  destruct (H5 t a Ha) as [et [E1 [E2 [E3 E4]]]].
  assert (Hrun : ev_run e (EReset v nv :: map EStep (firstn t acts)) = Some et).
  { simpl. rewrite Hr. rewrite (el_states_run e0 acts es H2 t) by lia. exact E1. }
  destruct (ev_coal et a) as [c|] eqn:Hcoal; [|congruence].
  (* the step at position t *)
  assert (Hrun1 : ev_run e0 (map EStep (firstn (S t) acts)) = nth_error (e0 :: es) (S t)) by (apply (el_states_run e0 acts es H2); lia).
  assert (Hsplit : firstn (S t) acts = firstn t acts ++ [a]).
  { clear -Ha. revert t Ha. induction acts as [|x acts IH]; intros [|t] Ha; simpl in *; try discriminate.
    - injection Ha as ->. reflexivity.
    - f_equal. apply IH. exact Ha. }
  rewrite Hsplit, map_app in Hrun1.
  assert (Hrun_app : forall tr1 tr2 ea, ev_run ea (tr1 ++ tr2) = match ev_run ea tr1 with Some eb => ev_run eb tr2 | None => None end).
  { induction tr1 as [|o tr1 IH]; intros tr2 ea; simpl; [reflexivity|]. destruct (ev_apply ea o); [apply IH| reflexivity]. }
  rewrite Hrun_app in Hrun1. rewrite (el_states_run e0 acts es H2 t) in Hrun1 by lia. rewrite E1 in Hrun1. simpl in Hrun1.
  destruct (ev_step et a) as [et1|] eqn:Hstep.
  2:{ exfalso. simpl in Hrun1. symmetry in Hrun1. apply nth_error_None in Hrun1.
      rewrite (el_states_length e0 acts es H2) in Hrun1. lia. }
  assert (Het1 : nth_error es t = Some et1) by (simpl in Hrun1; symmetry; exact Hrun1).
  (* invariant at et gives the knowledge facts *)
  destruct (ev_invariant e v nv (map EStep (firstn t acts)) et Hwf Hrun) as [Hcfg [Hwft Hinvt]].
  destruct (ev_step_inv et a et1 _ _ Hwft Hinvt Hstep) as [s [Hs [Hk [_ [Hwf1 [_ [_ Hinv1]]]]]]].
  unfold ev_coal in Hcoal. rewrite Hs in Hcoal. injection Hcoal as <-.
  exists et, et1, a, s.
  split; [exact Hrun|]. split; [exact E2|]. split; [first [exact Ha| reflexivity]|]. split; [first [exact Hstep| reflexivity]|]. split; [exact Het1|].
  split; [first [exact E3| rewrite E3; unfold ev_coal; exact Hs]|].
  split; [destruct Hcfg as [_ [_ [_ [_ [_ Ex]]]]]; rewrite <- Ex; exact Hs|].
  split; [exact Hk|].
  pose proof (nth_error_In _ _ Hs) as Hin. pose proof (proj1 (in_expl et s Hwft) Hin) as [Hb _].
  assert (Hn : e_n et1 = e_n et).
  { destruct (ev_step_inv et a et1 _ _ Hwft Hinvt Hstep) as [s' [_ [_ [Hc' _]]]]. destruct Hc' as [Hn' _]. exact Hn'. }
  rewrite (inv_known _ _ _ Hinv1 s) by (rewrite Hn; exact Hb).
  match goal with |- _ || ev_mem s (s :: ?l) = true => change (ev_mem s (s :: l)) with ((s =? s)%N || ev_mem s l) end.
  rewrite N.eqb_refl. apply orb_true_r.
Qed.

(* ---------- wiring of the random streams ---------- *)
Lemma el_perenv_nth reps j : (j < reps)%nat -> nth_error (el_perenv reps) j = Some ([j], el_construct_draws).
Proof.
  intros H. unfold el_perenv. rewrite nth_error_map. rewrite (nth_error_nth' _ 0%nat) by (rewrite seq_length; exact H).
  rewrite seq_nth by exact H. reflexivity.
Qed.

(* per-environment streams: the hidden games do not depend on sequential / parallel execution nor on the chunking *)
Theorem el_perenv_parallel_eq_seq reps chunks :
  el_hidden_draws ElPerEnv (Some chunks) reps = el_hidden_draws ElPerEnv None reps.
Proof. reflexivity. Qed.

(* ... and distinct repetitions read distinct streams *)
Theorem el_perenv_independent reps j j' d d' : j <> j' ->
  nth_error (el_hidden_draws ElPerEnv None reps) j = Some d ->
  nth_error (el_hidden_draws ElPerEnv None reps) j' = Some d' -> fst d <> fst d'.
Proof.
  simpl. intros Hne H1 H2.
  assert (Hj : (j < reps)%nat) by (apply nth_error_Some in H1 || (assert (nth_error (el_perenv reps) j <> None) by congruence; apply nth_error_Some in H; unfold el_perenv in H; rewrite map_length, seq_length in H; exact H)).
  assert (Hj' : (j' < reps)%nat) by (assert (nth_error (el_perenv reps) j' <> None) by congruence; apply nth_error_Some in H; unfold el_perenv in H; rewrite map_length, seq_length in H; exact H).
  rewrite el_perenv_nth in H1, H2 by assumption. injection H1 as <-. injection H2 as <-. simpl. congruence.
Qed.

(* shared stream, sequential: repetition j sees draw 3j+2 - all distinct *)
Lemma el_seq_shared_nth reps pos j : (j < reps)%nat -> nth_error (el_seq_shared reps pos) j = Some ([], pos + 3 * j + 2)%nat.
Proof.
  revert pos j. induction reps as [|r IH]; intros pos j H; [lia|]. destruct j as [|j]; simpl.
  - f_equal. f_equal. unfold el_construct_draws. lia.
  - rewrite IH by lia. f_equal. f_equal. unfold el_construct_draws. lia.
Qed.

(* shared stream, parallel: with the code as it stands every chunk restarts from the same pickled state, so
   repetitions in different chunks replay the same hidden games: a concrete witness (12 repetitions, 2 processes) *)
Theorem el_shared_refuted :
  exists reps procs j j', j <> j' /\
    nth_error (el_hidden_draws ElShared (Some (el_pool_chunks reps procs)) reps) j
    = nth_error (el_hidden_draws ElShared (Some (el_pool_chunks reps procs)) reps) j'
    /\ nth_error (el_hidden_draws ElShared (Some (el_pool_chunks reps procs)) reps) j <> None.
Proof. exists 12%nat, 2%nat, 0%nat, 2%nat. split; [discriminate|]. vm_compute. split; [reflexivity| discriminate]. Qed.

(* ... and the parallel result differs from the sequential one *)
Theorem el_shared_parallel_differs :
  exists reps procs, el_hidden_draws ElShared (Some (el_pool_chunks reps procs)) reps <> el_hidden_draws ElShared None reps.
Proof. exists 12%nat, 2%nat. vm_compute. discriminate. Qed.

(* within one chunk of the shared scheme the draws are consecutive; across chunks they repeat *)
Lemma el_chunk_shared_nth c pos i : (i < c)%nat -> nth_error (el_chunk_shared c pos) i = Some ([], pos + i)%nat.
Proof.
  revert pos i. induction c as [|c IH]; intros pos i H; [lia|]. destruct i as [|i]; simpl.
  - f_equal. f_equal. lia.
  - rewrite IH by lia. f_equal. f_equal. lia.
Qed.

(* ---------- the solver's own stream (known finding C12:random-solver:shared-python-random-per-chunk) ---------- *)
Lemma el_solver_seq_nth reps L pos j : (j < reps)%nat -> nth_error (el_solver_seq reps L pos) j = Some (pos + j * L)%nat.
Proof.
  revert pos j; induction reps as [|r IH]; intros pos j Hj; [lia|].
  destruct j as [|j]; cbn [el_solver_seq nth_error].
  - f_equal; lia.
  - rewrite IH by lia. f_equal; lia.
Qed.

Lemma el_solver_seq_length reps L pos : length (el_solver_seq reps L pos) = reps.
Proof. revert pos; induction reps as [|r IH]; intros pos; cbn [el_solver_seq length]; [reflexivity|]. now rewrite IH. Qed.

(* sequentially, distinct repetitions of positive length read disjoint stretches of the solver's stream *)
Theorem el_solver_seq_distinct reps L j j' p p' : (0 < L)%nat -> j <> j' ->
  nth_error (el_solver_seq reps L 0) j = Some p -> nth_error (el_solver_seq reps L 0) j' = Some p' -> p <> p'.
Proof.
  intros HL Hne H1 H2.
  assert (Hj : (j < reps)%nat) by (rewrite <- (el_solver_seq_length reps L 0); apply nth_error_Some; congruence).
  assert (Hj' : (j' < reps)%nat) by (rewrite <- (el_solver_seq_length reps L 0); apply nth_error_Some; congruence).
  rewrite el_solver_seq_nth in H1, H2 by assumption.
  injection H1 as <-. injection H2 as <-. nia.
Qed.

(* with two non-empty chunks the first repetitions of both chunks replay the same stretch of the solver's stream *)
Theorem el_solver_par_replays c1 c2 rest L : (0 < c1)%nat -> (0 < c2)%nat ->
  nth_error (el_solver_par (c1 :: c2 :: rest) L) 0 = Some 0%nat /\
  nth_error (el_solver_par (c1 :: c2 :: rest) L) c1 = Some 0%nat.
Proof.
  intros H1 H2. unfold el_solver_par. cbn [flat_map]. split.
  - rewrite nth_error_app1 by (rewrite el_solver_seq_length; lia). rewrite el_solver_seq_nth by lia. f_equal; lia.
  - rewrite nth_error_app2 by (rewrite el_solver_seq_length; lia). rewrite el_solver_seq_length, Nat.sub_diag.
    rewrite nth_error_app1 by (rewrite el_solver_seq_length; lia). rewrite el_solver_seq_nth by lia. f_equal; lia.
Qed.

(* the pool's real chunking: 5 repetitions of 3 steps on 2 processes - every repetition replays the first one's draws,
   and the start positions differ from the sequential ones *)
Theorem el_solver_shared_refuted :
  exists reps procs L j j', j <> j' /\ (0 < L)%nat /\
    nth_error (el_solver_par (el_pool_chunks reps procs) L) j = nth_error (el_solver_par (el_pool_chunks reps procs) L) j'
    /\ nth_error (el_solver_par (el_pool_chunks reps procs) L) j <> None
    /\ el_solver_par (el_pool_chunks reps procs) L <> el_solver_seq reps L 0.
Proof. exists 5%nat, 2%nat, 3%nat, 0%nat, 1%nat. vm_compute. repeat split; try lia; congruence. Qed.

(* RegistryLinkProps: every name of the BOUNDS / GAP_FUNCTIONS / SOLVERS registries of the repository under test
   (regenerated into gen/Registry.v on every run) denotes an object of the models, so that the theorems that quantify
   over [computer], [gapfn] and the solver models cover "every registered ...". *)
From Coq Require Import QArith String List.
From ICG Require Import RegistryTypes Bounds Env.
From ICG.gen Require Import Registry.
Import ListNotations.

Definition rl_computer (b : rg_bounds) : option computer :=
  match b with
  | BSuperadditive => Some CRef
  | BSuperadditiveCached => Some CCached
  | BSam r => Some (CSam r)
  | BUnknown _ => None
  end.
Definition rl_gap (g : rg_gap) : option gapfn :=
  match g with
  | GapExploitability => Some GExploit | GapL1 => Some GL1 | GapL2 => Some GL2 | GapLinf => Some GLinf
  | GapUnknown _ => None
  end.
(* solver models: greedy / worst-greedy = sv_greedy worst; largest = sv_largest; random = any valid action *)
Inductive rl_solver_model := RlGreedy (worst : bool) | RlLargest | RlAnyValid.
Definition rl_solver (s : rg_solver) : option rl_solver_model :=
  match s with
  | SGreedy w => Some (RlGreedy w) | SLargest => Some RlLargest | SRandom => Some RlAnyValid
  | SUnknown _ => None
  end.

Definition rl_some {A} (o : option A) : bool := match o with Some _ => true | None => false end.

Theorem registry_bounds_modelled : Forall (fun kv => exists c, rl_computer (snd kv) = Some c) bounds_registry.
Proof.
  assert (H : forallb (fun kv => rl_some (rl_computer (snd kv))) bounds_registry = true) by (vm_compute; reflexivity).
  rewrite forallb_forall in H. apply Forall_forall. intros kv Hin. specialize (H kv Hin).
  destruct (rl_computer (snd kv)) as [c|]; [exists c; reflexivity| discriminate].
Qed.

Theorem registry_gaps_modelled : Forall (fun kv => exists g, rl_gap (snd kv) = Some g) gap_registry.
Proof.
  assert (H : forallb (fun kv => rl_some (rl_gap (snd kv))) gap_registry = true) by (vm_compute; reflexivity).
  rewrite forallb_forall in H. apply Forall_forall. intros kv Hin. specialize (H kv Hin).
  destruct (rl_gap (snd kv)) as [g|]; [exists g; reflexivity| discriminate].
Qed.

Theorem registry_solvers_modelled : Forall (fun kv => exists m, rl_solver (snd kv) = Some m) solvers_registry.
Proof.
  assert (H : forallb (fun kv => rl_some (rl_solver (snd kv))) solvers_registry = true) by (vm_compute; reflexivity).
  rewrite forallb_forall in H. apply Forall_forall. intros kv Hin. specialize (H kv Hin).
  destruct (rl_solver (snd kv)) as [m|]; [exists m; reflexivity| discriminate].
Qed.

(* CoalitionIdsGenProps: hand-written theorems over the GENERATED definitions of gen/CoalitionIdsGen.v
   (regenerated from incomplete_cooperative/coalition_ids.py on every run by harness/translate_ids.py).
   Each generated function equals the hand model of Enum.v (the en_ids_ functions), for every player count and every id, so the
   set-semantics theorems of EnumProofs.v transfer to the generated definitions; an edit of coalition_ids.py that
   changes behaviour regenerates the definitions and breaks these proofs.
   Python parameter order is (coalition, number_of_players); the model's is (n, c).  Players / sizes are N on the
   generated side and nat in Enum.v: related by N.of_nat (injective). *)
From Coq Require Import NArith List Arith Bool Lia.
From ICG Require Import Bits Enum NpArr CoalitionIdsGen.
Import ListNotations.
Local Open Scope N_scope.

Lemma idg_mask_map {X} (g : X -> N) (p : X -> bool) (l : list X) :
  npa_mask (map g l) (map p l) = map g (filter p l).
Proof. induction l as [|x l IH]; cbn [map filter npa_mask]; [reflexivity|]. destruct (p x); cbn [map]; now rewrite IH. Qed.

Lemma idg_count_map {X} (p : X -> bool) (l : list X) :
  length (filter (fun b : bool => b) (map p l)) = length (filter p l).
Proof. induction l as [|x l IH]; cbn [map filter length]; [reflexivity|]. destruct (p x); cbn [length]; now rewrite IH. Qed.

Lemma idg_max_map (l : list nat) :
  fold_right N.max 0 (map N.of_nat l) = N.of_nat (fold_right Nat.max 0%nat l).
Proof. induction l as [|x l IH]; cbn [map fold_right]; [reflexivity|]. rewrite IH. symmetry. apply Nat2N.inj_max. Qed.

(* the boolean mask  2**np.arange(n) & coalition != 0  is the model's en_ids_bit over seq 0 n *)
Lemma idg_bitmask (n : nat) (c : N) :
  npa_ne0 (npa_and_s (npa_apow2 (npa_arange (N.of_nat n))) c) = map (en_ids_bit c) (seq 0 n).
Proof.
  unfold npa_ne0, npa_and_s, npa_apow2, npa_arange. rewrite Nat2N.id, !map_map. reflexivity.
Qed.

Lemma idg_all_alln (m : nat) : idg_get_all_coalitions (N.of_nat m) = alln m.
Proof.
  unfold idg_get_all_coalitions, npa_arange, npa_pow2, alln.
  replace (N.to_nat (2 ^ N.of_nat m)) with (2 ^ m)%nat; [reflexivity|].
  rewrite N2Nat.inj_pow, Nat2N.id. reflexivity.
Qed.

Theorem idg_get_all_coalitions_eq (n : nat) : idg_get_all_coalitions (N.of_nat n) = alln n.
Proof. exact (idg_all_alln n). Qed.

Theorem idg_players_eq (n : nat) (c : N) :
  idg_players c (N.of_nat n) = option_map (map N.of_nat) (en_ids_players n c).
Proof.
  unfold idg_players, en_ids_players, npa_assert, npa_gt, npa_pow2.
  destruct (c <? 2 ^ N.of_nat n); [|reflexivity].
  cbn [option_map]. rewrite idg_bitmask. unfold npa_arange. rewrite Nat2N.id, idg_mask_map. reflexivity.
Qed.

Theorem idg_get_size_eq (n : nat) (c : N) :
  idg_get_size c (N.of_nat n) = option_map N.of_nat (en_ids_size n c).
Proof.
  unfold idg_get_size, en_ids_size, npa_assert, npa_gt, npa_pow2.
  destruct (c <? 2 ^ N.of_nat n); [|reflexivity].
  cbn [option_map]. rewrite idg_bitmask. unfold npa_sum_b. rewrite idg_count_map. reflexivity.
Qed.

Theorem idg_sub_coalitions_eq (n : nat) (c : N) :
  idg_sub_coalitions c (N.of_nat n) = en_ids_sub n c.
Proof.
  unfold idg_sub_coalitions, en_ids_sub. rewrite idg_players_eq.
  unfold npa_assert, npa_gt, npa_pow2.
  destruct (c <? 2 ^ N.of_nat n); [|reflexivity].
  destruct (en_ids_players n c) as [ps|]; cbn [option_map npa_bind]; [|reflexivity].
  f_equal. cbv zeta. unfold npa_add, npa_max_init. rewrite idg_max_map.
  replace (N.of_nat (fold_right Nat.max 0%nat ps) + 1) with (N.of_nat (S (fold_right Nat.max 0%nat ps))) by lia.
  rewrite idg_all_alln. unfold npa_eq_s, npa_or_s. rewrite map_map.
  rewrite <- (map_id (alln (S (fold_right Nat.max 0%nat ps)))) at 1.
  rewrite idg_mask_map, map_id. reflexivity.
Qed.

Theorem idg_super_coalitions_eq (n : nat) (c : N) :
  idg_super_coalitions c (N.of_nat n) = en_ids_super n c.
Proof.
  unfold idg_super_coalitions, en_ids_super. cbv zeta. unfold npa_xor, npa_pred.
  rewrite idg_sub_coalitions_eq.
  unfold npa_assert, npa_gt, npa_pow2.
  destruct (c <? 2 ^ N.of_nat n); [|reflexivity].
  destruct (en_ids_sub n (N.lxor (2 ^ N.of_nat n - 1) c)) as [l|]; cbn [npa_bind]; reflexivity.
Qed.

(* RegistryProps: hand-written theorems over the GENERATED gen/Registry.v (rewritten from the repository on every
   run).  They are re-checked whenever a registry of the repository changes: a new key with an unmodelled function
   or keyword is a `...Unknown` entry and breaks `registry_generators_classified` (fail-closed). *)
From Coq Require String.
From ICG Require Import Prelude Bits RegistryTypes Generators GeneratorsProofs GeneratorsRegistry.
From ICG Require Import gen.Registry.
Import String.StringSyntax.
Local Open Scope Q_scope.

(* ---------- generators (C10) ---------- *)
Lemma rg_generators_okb : forallb (fun kv => gn_family_okb (snd kv)) generators_registry = true.
Proof. vm_compute. reflexivity. Qed.

(* every key maps to a modelled family with admissible static parameters (or to the one known external dependency) *)
Theorem registry_generators_classified : Forall (fun kv => gn_family_ok (snd kv)) generators_registry.
Proof. apply Forall_forall. intros kv Hin. exact (proj1 (forallb_forall _ _) rg_generators_okb kv Hin). Qed.

(* the only key that is not modelled is the one the property excludes *)
Theorem registry_generators_external :
  map fst (filter (fun kv => gn_is_external (snd kv)) generators_registry) = ["convex"%string].
Proof. vm_compute. reflexivity. Qed.

Theorem registry_generators_keys_distinct : NoDup (map fst generators_registry).
Proof.
  assert (H : forall l : list String.string, (fix nd l := match l with [] => true | x :: r => negb (existsb (String.eqb x) r) && nd r end) l = true -> NoDup l).
  { induction l as [|x r IH]; intros H; [constructor|]. apply andb_true_iff in H. destruct H as [H1 H2]. constructor; [|apply IH; exact H2].
    intro Hin. apply negb_true_iff in H1. rewrite <- not_true_iff_false in H1. apply H1. apply existsb_exists. exists x. split; auto. apply String.eqb_refl. }
  apply H. vm_compute. reflexivity.
Qed.

(* the string-free list the extracted driver runs IS the registry *)
Theorem registry_generators_families :
  gn_registry_families = map (fun kv => gn_family_of (snd kv)) generators_registry.
Proof. vm_compute. reflexivity. Qed.

(* every registry key, every player count, every recorded draws in the checked supports: a run that returns a table
   returns a complete table of a superadditive game with value 0 at the empty coalition, monotone non-increasing
   for the XOS / XS / OXS / K-budget / coverage families *)
Theorem registry_generators_sound :
  Forall (fun kv => forall n d t, gn_draws_okb d = true -> gn_run (gn_family_of (snd kv)) n d = Some t ->
                                  gn_class_ok (gn_family_of (snd kv)) n t) generators_registry.
Proof. apply Forall_forall. intros kv _ n d t. apply gn_run_sound. Qed.

(* ---------- bound computers, gap functions, solvers (used by C04 / C08 / C13): nothing unrecognised ---------- *)
Definition rg_bounds_known (b : rg_bounds) : bool := match b with BUnknown _ => false | _ => true end.
Definition rg_gap_known (g : rg_gap) : bool := match g with GapUnknown _ => false | _ => true end.
Definition rg_solver_known (s : rg_solver) : bool := match s with SUnknown _ => false | _ => true end.

Theorem registry_bounds_classified : Forall (fun kv => rg_bounds_known (snd kv) = true) bounds_registry.
Proof. apply Forall_forall. intros kv Hin. revert kv Hin. apply forallb_forall. vm_compute. reflexivity. Qed.
Theorem registry_gaps_classified : Forall (fun kv => rg_gap_known (snd kv) = true) gap_registry.
Proof. apply Forall_forall. intros kv Hin. revert kv Hin. apply forallb_forall. vm_compute. reflexivity. Qed.
Theorem registry_solvers_classified : Forall (fun kv => rg_solver_known (snd kv) = true) solvers_registry.
Proof. apply Forall_forall. intros kv Hin. revert kv Hin. apply forallb_forall. vm_compute. reflexivity. Qed.

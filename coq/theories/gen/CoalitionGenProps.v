(* CoalitionGenProps (hand-written): theorems over the definitions that harness/translate.py REGENERATES from
   incomplete_cooperative/coalitions.py on every run (gen/CoalitionGen.v).  A semantic change of the Python source changes
   those definitions and breaks these proofs.  Ids are arbitrary integers unless a hypothesis says otherwise
   (Python ints are unbounded; a Coalition id is >= 0, a player index is >= 0).

   Part 1: bitwise specifications over Z.   Part 2: closure (ids stay >= 0).
   Part 3: link to the hand model of Bits.v (N bitmasks). *)
From Coq Require Import ZArith NArith Bool Lia.
From ICG Require Import Bits CoalitionGen.
Local Open Scope Z_scope.

(* ---------- bit-level helpers ---------- *)
Lemma gp_pow2_bit p i : 0 <= p -> Z.testbit (2 ^ p) i = (i =? p).
Proof.
  intros Hp. rewrite Z.pow2_bits_eqb by exact Hp. apply eq_true_iff_eq. rewrite !Z.eqb_eq. lia.
Qed.

Lemma gp_ones_bit n i : 0 <= n -> Z.testbit (2 ^ n - 1) i = (0 <=? i) && (i <? n).
Proof.
  intros Hn. replace (2 ^ n - 1) with (Z.ones n) by (rewrite Z.ones_equiv; lia).
  destruct (Z.leb_spec 0 i) as [Hi|Hi]; simpl.
  - destruct (Z.ltb_spec i n) as [H|H].
    + apply Z.ones_spec_low. lia.
    + apply Z.ones_spec_high. lia.
  - apply Z.testbit_neg_r. exact Hi.
Qed.

Lemma gp_lnot_bit a i : 0 <= i -> Z.testbit (Z.lnot a) i = negb (Z.testbit a i).
Proof. apply Z.lnot_spec. Qed.

Lemma gp_neg_bit a i : i < 0 -> Z.testbit a i = false.
Proof. apply Z.testbit_neg_r. Qed.

(* rewrite every testbit of a bitwise expression into booleans; [i] is the bit index *)
Ltac gp_bits i :=
  repeat first
    [ rewrite Z.shiftl_1_l | rewrite Z.land_spec | rewrite Z.lor_spec | rewrite Z.lxor_spec | rewrite Z.ldiff_spec
    | rewrite gp_ones_bit by lia | rewrite gp_pow2_bit by lia
    | rewrite gp_lnot_bit by lia ].

Ltac gp_case i :=
  destruct (Z.ltb_spec i 0) as [?Hneg|?Hpos];
  [ rewrite !(gp_neg_bit _ i) by lia; rewrite ?andb_false_l, ?andb_false_r; try reflexivity
  | gp_bits i ].

Ltac gp_bool :=
  repeat match goal with
         | |- context [Z.testbit ?a ?i] => destruct (Z.testbit a i)
         | |- context [?x =? ?y] => destruct (Z.eqb_spec x y)
         | |- context [?x <? ?y] => destruct (Z.ltb_spec x y)
         | |- context [?x <=? ?y] => destruct (Z.leb_spec x y)
         end; simpl; try reflexivity; try lia; try discriminate.

(* closes propositional goals about bits: case analysis on every testbit / comparison *)
Ltac gp_tauto :=
  repeat match goal with
         | |- context [Z.testbit ?a ?i] => destruct (Z.testbit a i)
         | |- context [?x =? ?y] => destruct (Z.eqb_spec x y)
         | |- context [?x <? ?y] => destruct (Z.ltb_spec x y)
         | |- context [?x <=? ?y] => destruct (Z.leb_spec x y)
         end; simpl; try reflexivity; try lia; try discriminate; try (intuition congruence).

Lemma gp_eqb_bits a b : (a =? b) = true <-> forall i, 0 <= i -> Z.testbit a i = Z.testbit b i.
Proof.
  rewrite Z.eqb_eq. split; [intros -> i _; reflexivity| apply Z.bits_inj'].
Qed.

(* ================= Part 1: bitwise specifications ================= *)
Theorem gen_and_spec a b i : Z.testbit (gen_and a b) i = Z.testbit a i && Z.testbit b i.
Proof. unfold gen_and. gp_case i. gp_bool. Qed.

Theorem gen_or_spec a b i : Z.testbit (gen_or a b) i = Z.testbit a i || Z.testbit b i.
Proof. unfold gen_or. gp_case i. gp_bool. Qed.

Theorem gen_sub_spec a b i : Z.testbit (gen_sub a b) i = Z.testbit a i && negb (Z.testbit b i).
Proof. unfold gen_sub. gp_case i. gp_bool. Qed.

Theorem gen_and_player_spec a p i : 0 <= p -> Z.testbit (gen_and_player a p) i = Z.testbit a i && (i =? p).
Proof. intros Hp. unfold gen_and_player. gp_case i; gp_bool. Qed.

Theorem gen_or_player_spec a p i : 0 <= p -> Z.testbit (gen_or_player a p) i = Z.testbit a i || (i =? p).
Proof. intros Hp. unfold gen_or_player. gp_case i; gp_bool. Qed.

Theorem gen_add_spec a p i : 0 <= p -> Z.testbit (gen_add a p) i = Z.testbit a i || (i =? p).
Proof. intros Hp. unfold gen_add. gp_case i; gp_bool. Qed.

Theorem gen_sub_player_spec a p i : 0 <= p -> Z.testbit (gen_sub_player a p) i = Z.testbit a i && negb (i =? p).
Proof. intros Hp. unfold gen_sub_player. gp_case i; gp_bool. Qed.

Theorem gen_player_to_coalition_spec p i : 0 <= p -> Z.testbit (gen_player_to_coalition p) i = (i =? p).
Proof. intros Hp. unfold gen_player_to_coalition. gp_case i; gp_bool. Qed.

Theorem gen_grand_spec n i : 0 <= n -> Z.testbit (gen_grand n) i = (0 <=? i) && (i <? n).
Proof. intros Hn. unfold gen_grand. gp_case i; gp_bool. Qed.

(* complement within n bits; no bound on [a] is needed *)
Theorem gen_inverted_spec a n i :
  0 <= n -> Z.testbit (gen_inverted a n) i = (0 <=? i) && (i <? n) && negb (Z.testbit a i).
Proof. intros Hn. unfold gen_inverted. gp_case i; gp_bool. Qed.

(* `b in a` on Coalition objects: every member of b is a member of a *)
Theorem gen_contains_spec a b :
  gen_contains a b = true <-> forall i, Z.testbit b i = true -> Z.testbit a i = true.
Proof.
  unfold gen_contains. rewrite gp_eqb_bits. split.
  - intros H i Hi. destruct (Z.ltb_spec i 0) as [Hn|Hp]; [rewrite gp_neg_bit in Hi by lia; discriminate|].
    specialize (H i Hp). revert H Hi. gp_bits i. gp_tauto.
  - intros H i Hp. gp_bits i. specialize (H i). revert H. gp_tauto.
Qed.

Theorem gen_contains_player_spec a p : 0 <= p -> gen_contains_player a p = Z.testbit a p.
Proof.
  intros Hp. unfold gen_contains_player. apply eq_true_iff_eq. rewrite gp_eqb_bits. split.
  - intros H. specialize (H p Hp). revert H. gp_bits p. rewrite ?Z.eqb_refl. gp_tauto.
  - intros H i Hi. gp_bits i. destruct (Z.eqb_spec i p) as [->|]; [rewrite H|]; gp_tauto.
Qed.

Theorem gen_eq_spec a b : gen_eq a b = true <-> a = b.
Proof. unfold gen_eq. apply Z.eqb_eq. Qed.

Theorem gen_disjoint_spec a b :
  gen_disjoint a b = true <-> forall i, Z.testbit a i = true -> Z.testbit b i = false.
Proof.
  unfold gen_disjoint. rewrite gp_eqb_bits. split.
  - intros H i Hi. destruct (Z.ltb_spec i 0) as [Hn|Hp]; [apply gp_neg_bit; lia|].
    specialize (H i Hp). revert H Hi. gp_bits i. rewrite ?Z.bits_0. gp_tauto.
  - intros H i Hp. gp_bits i. rewrite ?Z.bits_0. specialize (H i). revert H. gp_tauto.
Qed.

(* exclude_coalition keeps exactly the coalitions sharing no player with `exclude` *)
Theorem gen_exclude_keep_spec c e :
  gen_exclude_keep c e = true <-> forall i, Z.testbit c i = true -> Z.testbit e i = false.
Proof.
  unfold gen_exclude_keep. rewrite gp_eqb_bits. split.
  - intros H i Hi. destruct (Z.ltb_spec i 0) as [Hn|Hp]; [apply gp_neg_bit; lia|].
    specialize (H i Hp). revert H Hi. gp_bits i. rewrite ?Z.bits_0. gp_tauto.
  - intros H i Hp. gp_bits i. rewrite ?Z.bits_0. specialize (H i). revert H. gp_tauto.
Qed.

(* ================= Part 2: closure: results are ids again ================= *)
Lemma gp_nonneg_bits a : 0 <= a <-> exists k, forall m, k < m -> Z.testbit a m = false.
Proof. apply Z.bits_iff_nonneg_ex. Qed.

Lemma gp_nonneg_dominated a b :
  0 <= a -> (forall i, 0 <= i -> Z.testbit b i = true -> Z.testbit a i = true) -> 0 <= b.
Proof.
  intros Ha H. apply gp_nonneg_bits in Ha. destruct Ha as [k Hk]. apply gp_nonneg_bits.
  exists (Z.max k 0). intros m Hm. destruct (Z.testbit b m) eqn:E; auto.
  apply H in E; [|lia]. rewrite Hk in E by lia. discriminate.
Qed.

Theorem gen_and_nonneg a b : 0 <= a -> 0 <= gen_and a b.
Proof.
  intros Ha. apply (gp_nonneg_dominated a); auto. intros i _. rewrite gen_and_spec.
  intro H. apply andb_true_iff in H. tauto.
Qed.
Theorem gen_sub_nonneg a b : 0 <= a -> 0 <= gen_sub a b.
Proof.
  intros Ha. apply (gp_nonneg_dominated a); auto. intros i _. rewrite gen_sub_spec.
  intro H. apply andb_true_iff in H. tauto.
Qed.
Theorem gen_sub_player_nonneg a p : 0 <= a -> 0 <= p -> 0 <= gen_sub_player a p.
Proof.
  intros Ha Hp. apply (gp_nonneg_dominated a); auto. intros i _. rewrite gen_sub_player_spec by exact Hp.
  intro H. apply andb_true_iff in H. tauto.
Qed.
Theorem gen_grand_nonneg n : 0 <= n -> 0 <= gen_grand n.
Proof.
  intros Hn. apply gp_nonneg_bits. exists n. intros m Hm. rewrite gen_grand_spec by exact Hn.
  destruct (Z.ltb_spec m n); [lia|]. apply andb_false_r.
Qed.
Theorem gen_inverted_nonneg a n : 0 <= n -> 0 <= gen_inverted a n.
Proof.
  intros Hn. apply gp_nonneg_bits. exists n. intros m Hm. rewrite gen_inverted_spec by exact Hn.
  destruct (Z.ltb_spec m n); [lia|]. rewrite andb_false_r. reflexivity.
Qed.
Theorem gen_inverted_lt a n : 0 <= n -> gen_inverted a n < 2 ^ n.
Proof.
  intros Hn. pose proof (gen_inverted_nonneg a n Hn) as H0.
  destruct (Z.eq_dec (gen_inverted a n) 0) as [->|Hne]; [apply Z.pow_pos_nonneg; lia|].
  apply Z.log2_lt_pow2; [lia|].
  destruct (Z.lt_ge_cases (Z.log2 (gen_inverted a n)) n) as [H|H]; auto. exfalso.
  pose proof (Z.bit_log2 (gen_inverted a n) ltac:(lia)) as Hb.
  rewrite gen_inverted_spec in Hb by exact Hn.
  destruct (Z.ltb_spec (Z.log2 (gen_inverted a n)) n); [lia|]. rewrite andb_false_r in Hb. discriminate.
Qed.
Theorem gen_or_nonneg a b : 0 <= a -> 0 <= b -> 0 <= gen_or a b.
Proof.
  intros Ha Hb. apply gp_nonneg_bits in Ha. apply gp_nonneg_bits in Hb. destruct Ha as [k Hk]. destruct Hb as [l Hl].
  apply gp_nonneg_bits. exists (Z.max k l). intros m Hm. rewrite gen_or_spec, Hk, Hl by lia. reflexivity.
Qed.
Theorem gen_player_to_coalition_nonneg p : 0 <= p -> 0 <= gen_player_to_coalition p.
Proof.
  intros Hp. apply gp_nonneg_bits. exists p. intros m Hm. rewrite gen_player_to_coalition_spec by exact Hp.
  apply Z.eqb_neq. lia.
Qed.
Theorem gen_add_nonneg a p : 0 <= a -> 0 <= p -> 0 <= gen_add a p.
Proof.
  intros Ha Hp. apply gp_nonneg_bits in Ha. destruct Ha as [k Hk].
  apply gp_nonneg_bits. exists (Z.max k p). intros m Hm. rewrite gen_add_spec, Hk by lia. simpl.
  apply Z.eqb_neq. lia.
Qed.

(* ================= Part 3: link to the hand model (Bits.v: coalitions as N bitmasks) ================= *)
Lemma gp_tb a i : Z.testbit (Z.of_N a) (Z.of_nat i) = tb a i.
Proof. unfold tb. rewrite <- nat_N_Z. apply N2Z.inj_testbit. Qed.

Lemma gp_of_N_bits (x : N) (z : Z) :
  0 <= z -> (forall i : nat, Z.testbit z (Z.of_nat i) = tb x i) -> Z.of_N x = z.
Proof.
  intros Hz H. apply Z.bits_inj'. intros i Hi. rewrite <- (Z2Nat.id i Hi). rewrite gp_tb. symmetry. apply H.
Qed.

Lemma gp_eqb_nat (i p : nat) : (Z.of_nat i =? Z.of_nat p) = Nat.eqb p i.
Proof. apply eq_true_iff_eq. rewrite Z.eqb_eq, Nat.eqb_eq. lia. Qed.
Lemma gp_ltb_nat (i n : nat) : (Z.of_nat i <? Z.of_nat n) = Nat.ltb i n.
Proof. apply eq_true_iff_eq. rewrite Z.ltb_lt, Nat.ltb_lt. lia. Qed.

Theorem gen_and_link a b : Z.of_N (N.land a b) = gen_and (Z.of_N a) (Z.of_N b).
Proof.
  apply gp_of_N_bits; [apply gen_and_nonneg, N2Z.is_nonneg|].
  intros i. rewrite gen_and_spec, !gp_tb, tb_land. reflexivity.
Qed.
Theorem gen_or_link a b : Z.of_N (N.lor a b) = gen_or (Z.of_N a) (Z.of_N b).
Proof.
  apply gp_of_N_bits; [apply gen_or_nonneg; apply N2Z.is_nonneg|].
  intros i. rewrite gen_or_spec, !gp_tb, tb_lor. reflexivity.
Qed.
Theorem gen_sub_link a b : Z.of_N (N.ldiff a b) = gen_sub (Z.of_N a) (Z.of_N b).
Proof.
  apply gp_of_N_bits; [apply gen_sub_nonneg, N2Z.is_nonneg|].
  intros i. rewrite gen_sub_spec, !gp_tb, tb_ldiff. reflexivity.
Qed.
Theorem gen_player_to_coalition_link p : Z.of_N (single p) = gen_player_to_coalition (Z.of_nat p).
Proof.
  apply gp_of_N_bits; [apply gen_player_to_coalition_nonneg; lia|].
  intros i. rewrite gen_player_to_coalition_spec by lia. rewrite tb_single. apply gp_eqb_nat.
Qed.
Theorem gen_add_link a p : Z.of_N (N.lor a (single p)) = gen_add (Z.of_N a) (Z.of_nat p).
Proof.
  apply gp_of_N_bits; [apply gen_add_nonneg; [apply N2Z.is_nonneg| lia]|].
  intros i. rewrite gen_add_spec by lia. rewrite gp_tb, tb_lor, tb_single, gp_eqb_nat. reflexivity.
Qed.
Theorem gen_or_player_link a p : Z.of_N (N.lor a (single p)) = gen_or_player (Z.of_N a) (Z.of_nat p).
Proof.
  assert (H0 : 0 <= gen_or_player (Z.of_N a) (Z.of_nat p)).
  { pose proof (N2Z.is_nonneg a) as Ha. apply gp_nonneg_bits in Ha. destruct Ha as [k Hk].
    apply gp_nonneg_bits. exists (Z.max k (Z.of_nat p)). intros m Hm.
    rewrite gen_or_player_spec, Hk by lia. simpl. apply Z.eqb_neq. lia. }
  apply gp_of_N_bits; [exact H0|].
  intros i. rewrite gen_or_player_spec by lia. rewrite gp_tb, tb_lor, tb_single, gp_eqb_nat. reflexivity.
Qed.
Theorem gen_and_player_link a p : Z.of_N (N.land a (single p)) = gen_and_player (Z.of_N a) (Z.of_nat p).
Proof.
  apply gp_of_N_bits.
  - apply (gp_nonneg_dominated (Z.of_N a)); [apply N2Z.is_nonneg|]. intros i _.
    rewrite gen_and_player_spec by lia. intro H. apply andb_true_iff in H. tauto.
  - intros i. rewrite gen_and_player_spec by lia. rewrite gp_tb, tb_land, tb_single, gp_eqb_nat. reflexivity.
Qed.
Theorem gen_sub_player_link a p : Z.of_N (N.ldiff a (single p)) = gen_sub_player (Z.of_N a) (Z.of_nat p).
Proof.
  apply gp_of_N_bits; [apply gen_sub_player_nonneg; [apply N2Z.is_nonneg| lia]|].
  intros i. rewrite gen_sub_player_spec by lia. rewrite gp_tb, tb_ldiff, tb_single, gp_eqb_nat. reflexivity.
Qed.
Theorem gen_grand_link n : Z.of_N (grand n) = gen_grand (Z.of_nat n).
Proof.
  apply gp_of_N_bits; [apply gen_grand_nonneg; lia|].
  intros i. rewrite gen_grand_spec by lia. rewrite tb_grand, gp_ltb_nat.
  destruct (Z.leb_spec 0 (Z.of_nat i)); [reflexivity| lia].
Qed.
Theorem gen_inverted_link a n : Z.of_N (N.ldiff (grand n) a) = gen_inverted (Z.of_N a) (Z.of_nat n).
Proof.
  apply gp_of_N_bits; [apply gen_inverted_nonneg; lia|].
  intros i. rewrite gen_inverted_spec by lia. rewrite tb_ldiff, tb_grand, gp_ltb_nat, gp_tb.
  destruct (Z.leb_spec 0 (Z.of_nat i)); [reflexivity| lia].
Qed.

Lemma gp_imp_tb a b :
  (forall i, Z.testbit (Z.of_N a) i = true -> Z.testbit (Z.of_N b) i = true)
  <-> (forall i : nat, tb a i = true -> tb b i = true).
Proof.
  split.
  - intros H i. rewrite <- !gp_tb. apply H.
  - intros H i Hi. destruct (Z.ltb_spec i 0) as [Hn|Hp]; [rewrite gp_neg_bit in Hi by lia; discriminate|].
    rewrite <- (Z2Nat.id i Hp) in *. rewrite gp_tb in *. apply H. exact Hi.
Qed.

(* `a in s` on objects  <->  sub a s on masks *)
Theorem gen_contains_link a s : gen_contains (Z.of_N s) (Z.of_N a) = sub a s.
Proof.
  apply eq_true_iff_eq. rewrite gen_contains_spec, sub_spec. apply gp_imp_tb.
Qed.
Theorem gen_contains_player_link s p : gen_contains_player (Z.of_N s) (Z.of_nat p) = tb s p.
Proof. rewrite gen_contains_player_spec by lia. apply gp_tb. Qed.

Lemma gp_disj_tb a b :
  (forall i, Z.testbit (Z.of_N a) i = true -> Z.testbit (Z.of_N b) i = false)
  <-> (forall i : nat, tb a i = true -> tb b i = false).
Proof.
  split.
  - intros H i. rewrite <- !gp_tb. apply H.
  - intros H i Hi. destruct (Z.ltb_spec i 0) as [Hn|Hp]; [apply gp_neg_bit; lia|].
    rewrite <- (Z2Nat.id i Hp) in *. rewrite gp_tb in *. apply H. exact Hi.
Qed.
Theorem gen_disjoint_link a b : gen_disjoint (Z.of_N a) (Z.of_N b) = disjb a b.
Proof. apply eq_true_iff_eq. rewrite gen_disjoint_spec, disjb_spec. apply gp_disj_tb. Qed.
Theorem gen_exclude_keep_link c e : gen_exclude_keep (Z.of_N c) (Z.of_N e) = disjb c e.
Proof. apply eq_true_iff_eq. rewrite gen_exclude_keep_spec, disjb_spec. apply gp_disj_tb. Qed.
Theorem gen_eq_link a b : gen_eq (Z.of_N a) (Z.of_N b) = (a =? b)%N.
Proof. apply eq_true_iff_eq. rewrite gen_eq_spec, N.eqb_eq. split; [apply N2Z.inj| congruence]. Qed.
